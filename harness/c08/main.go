// C08: Msg.Len never underestimates, is exact for plain messages; Pack always has room.
package main

import (
	"bytes"
	"net"
	"reflect"
	"strings"
	"unsafe"

	"github.com/miekg/dns"
	. "verif/harness/common"
)

func main() { Main(run) }

var st = map[string]int{}

var commonTypes = []uint16{dns.TypeA, dns.TypeAAAA, dns.TypeNS, dns.TypeCNAME, dns.TypeSOA, dns.TypePTR, dns.TypeMX, dns.TypeSRV,
	dns.TypeTXT, dns.TypeDNAME, dns.TypeMINFO, dns.TypeRP, dns.TypeAFSDB, dns.TypeKX, dns.TypeNAPTR, dns.TypeHINFO}

// plainName: no escapes needed
func plainName(r *Rng, pool *[]string) string {
	if len(*pool) > 0 && r.Intn(3) > 0 {
		base := (*pool)[r.Intn(len(*pool))]
		switch r.Intn(3) {
		case 0:
			return base
		case 1:
			n := randLabel(r) + "." + base
			if _, ok := dns.IsDomainName(n); ok {
				*pool = append(*pool, n)
				return n
			}
		}
	}
	n := ""
	for i := 0; i < 1+r.Intn(3); i++ {
		n += randLabel(r) + "."
	}
	*pool = append(*pool, n)
	return n
}
func randLabel(r *Rng) string {
	a := "abcdefghijklmnopqrstuvwxyzABCDEFGHIJKLMNOPQRSTUVWXYZ0123456789-"
	n := 1 + r.Intn(12)
	b := make([]byte, n)
	for i := range b {
		b[i] = a[r.Intn(len(a))]
	}
	return string(b)
}
func plainText(r *Rng) string {
	a := "abcXYZ019-_./:=+"
	n := r.Intn(40)
	if r.Intn(8) == 0 {
		n = 255
	}
	b := make([]byte, n)
	for i := range b {
		b[i] = a[r.Intn(len(a))]
	}
	return string(b)
}

// plainRR: a record of a common type with escape-free content
func plainRR(r *Rng, pool *[]string, t uint16) dns.RR {
	h := dns.RR_Header{Name: plainName(r, pool), Rrtype: t, Class: 1, Ttl: uint32(r.Intn(100000))}
	nm := func() string { return plainName(r, pool) }
	switch t {
	case dns.TypeA:
		return &dns.A{Hdr: h, A: r.Bytes(4)}
	case dns.TypeAAAA:
		return &dns.AAAA{Hdr: h, AAAA: r.Bytes(16)}
	case dns.TypeNS:
		return &dns.NS{Hdr: h, Ns: nm()}
	case dns.TypeCNAME:
		return &dns.CNAME{Hdr: h, Target: nm()}
	case dns.TypeSOA:
		return &dns.SOA{Hdr: h, Ns: nm(), Mbox: nm(), Serial: 1, Refresh: 2, Retry: 3, Expire: 4, Minttl: 5}
	case dns.TypePTR:
		return &dns.PTR{Hdr: h, Ptr: nm()}
	case dns.TypeMX:
		return &dns.MX{Hdr: h, Preference: uint16(r.Intn(100)), Mx: nm()}
	case dns.TypeSRV:
		return &dns.SRV{Hdr: h, Priority: 1, Weight: 2, Port: 3, Target: nm()}
	case dns.TypeTXT:
		n := 1 + r.Intn(3)
		var ss []string
		for i := 0; i < n; i++ {
			ss = append(ss, plainText(r))
		}
		return &dns.TXT{Hdr: h, Txt: ss}
	case dns.TypeDNAME:
		return &dns.DNAME{Hdr: h, Target: nm()}
	case dns.TypeMINFO:
		return &dns.MINFO{Hdr: h, Rmail: nm(), Email: nm()}
	case dns.TypeRP:
		return &dns.RP{Hdr: h, Mbox: nm(), Txt: nm()}
	case dns.TypeAFSDB:
		return &dns.AFSDB{Hdr: h, Subtype: 1, Hostname: nm()}
	case dns.TypeKX:
		return &dns.KX{Hdr: h, Preference: 1, Exchanger: nm()}
	case dns.TypeNAPTR:
		return &dns.NAPTR{Hdr: h, Order: 1, Preference: 2, Flags: plainText(r), Service: plainText(r), Regexp: plainText(r), Replacement: nm()}
	default:
		return &dns.HINFO{Hdr: h, Cpu: plainText(r), Os: plainText(r)}
	}
}

func checkLen(m *dns.Msg, plain bool, emit bool, what string) {
	st["msg_checked"]++
	text, canon := MsgText(m)
	predicted := m.Len()
	var w []byte
	pr := Protect(func() string {
		b, err := m.Pack()
		if err != nil {
			if strings.Contains(err.Error(), "buffer size too small") || strings.Contains(err.Error(), "overflow") {
				return "err:room"
			}
			return "err"
		}
		w = b
		return "ok"
	})
	if emit && canon && len(text) < 6000 {
		Emit("len_msg", []string{text}, Itoa(predicted))
		st["model_len_msg"]++
	}
	if pr == "err:room" {
		// the library reports some content errors (a character-string of more than 1025 text octets, an
		// address of the wrong length) with the buffer/overflow error text: it is a failure for lack of
		// room exactly when a larger buffer makes it go away
		big := make([]byte, predicted+70000)
		if Protect(func() string {
			_, err := m.PackBuffer(big)
			if err != nil {
				return "err"
			}
			return "ok"
		}) == "ok" {
			Viol("C08/pack-no-room/"+what, "Pack failed for lack of buffer space (PackBuffer with a larger buffer succeeds)", map[string]string{"msg": text})
		} else {
			st["room_class_error_not_for_room"]++
		}
		return
	}
	if pr == "panic" {
		Viol("C08/pack-panic/"+what, "Pack panicked", map[string]string{"msg": text})
		return
	}
	if pr != "ok" {
		st["pack_error"]++
		return
	}
	if predicted < len(w) {
		Viol("C08/len-underestimates/"+what, "Len()="+Itoa(predicted)+" < len(Pack())="+Itoa(len(w)), map[string]string{"msg": text})
	}
	if plain && predicted != len(w) {
		Viol("C08/len-not-exact/"+what, "Len()="+Itoa(predicted)+" != len(Pack())="+Itoa(len(w))+" for an escape-free message of common types", map[string]string{"msg": text})
	}
	// Len(rr) >= PackRR for every record
	for _, sec := range [][]dns.RR{m.Answer, m.Ns, m.Extra} {
		for _, rr := range sec {
			buf := make([]byte, dns.Len(rr)+1)
			off, err := dns.PackRR(rr, buf, 0, nil, false)
			st["rr_checked"]++
			if err != nil {
				if _, err2 := dns.PackRR(rr, make([]byte, dns.Len(rr)+70000), 0, nil, false); err2 == nil &&
					(strings.Contains(err.Error(), "buffer size too small") || strings.Contains(err.Error(), "overflow")) {
					t, _ := RRText(rr)
					Viol("C08/packrr-no-room/"+dns.TypeToString[rr.Header().Rrtype], "PackRR has no room in Len(rr)+1 octets", map[string]string{"rr": t})
				}
				continue
			}
			if dns.Len(rr) < off {
				t, _ := RRText(rr)
				Viol("C08/lenrr-underestimates/"+dns.TypeToString[rr.Header().Rrtype], "Len(rr) < PackRR", map[string]string{"rr": t})
			}
		}
	}
	// PackBuffer writes into the caller's buffer whenever it is larger than the uncompressed length
	mc := m.Copy()
	mc.Compress = false
	ulen := mc.Len()
	for _, extra := range []int{1, 2, 100} {
		buf := make([]byte, ulen+extra)
		out, err := m.PackBuffer(buf)
		if err != nil {
			continue
		}
		st["packbuffer_checked"]++
		if len(out) > 0 && unsafe.SliceData(out) != unsafe.SliceData(buf) {
			Viol("C08/packbuffer-not-in-place", "PackBuffer did not use the caller's buffer although it is larger than the uncompressed length", map[string]string{"msg": text, "buflen": Itoa(len(buf))})
		}
	}
	if emit && canon && len(text) < 3000 {
		for _, bl := range []int{0, ulen, ulen + 1} {
			buf := make([]byte, bl)
			out, err := m.PackBuffer(buf)
			o := "err"
			if err == nil {
				o = "ok:" + Hx(out) + "," + Btoa(len(out) > 0 && bl > 0 && unsafe.SliceData(out) == unsafe.SliceData(buf))
			}
			Emit("pack_buf", []string{text, Itoa(bl)}, o)
		}
	}
}

func run(r *Rng, tier string, n int) {
	nmsg := 350
	if tier == "thorough" {
		nmsg = 15000
	}
	if n > 0 {
		nmsg = n
	}
	types := AllTypes()
	pool := &NamePool{R: r}
	// (1) arbitrary messages of all types, compressed and not, escaped names, OPT, SVCB, APL, bitmaps
	for i := 0; i < nmsg; i++ {
		nq := 1
		if r.Intn(5) == 0 {
			nq = r.Intn(4)
		}
		na, nn, ne := r.Intn(5), r.Intn(3), r.Intn(3)
		m, _ := GenMsg(r, pool, types, nq, na, nn, ne, r.Intn(3) == 0, r.Intn(5) == 0)
		checkLen(m, false, i < 100 || i%40 == 0, "any")
		m.Compress = !m.Compress
		checkLen(m, false, i < 50, "any")
	}
	// (2) plain messages of the common types: exactness
	for i := 0; i < nmsg; i++ {
		var np []string
		m := new(dns.Msg)
		m.Compress = r.Bool()
		for j := 0; j < 1+r.Intn(2); j++ {
			m.Question = append(m.Question, dns.Question{Name: plainName(r, &np), Qtype: commonTypes[r.Intn(len(commonTypes))], Qclass: 1})
		}
		for j := 0; j < r.Intn(6); j++ {
			m.Answer = append(m.Answer, plainRR(r, &np, commonTypes[r.Intn(len(commonTypes))]))
		}
		for j := 0; j < r.Intn(3); j++ {
			m.Ns = append(m.Ns, plainRR(r, &np, commonTypes[r.Intn(len(commonTypes))]))
		}
		for j := 0; j < r.Intn(3); j++ {
			m.Extra = append(m.Extra, plainRR(r, &np, commonTypes[r.Intn(len(commonTypes))]))
		}
		checkLen(m, true, i < 100 || i%40 == 0, "plain")
	}
	// (2b) empty values: the zero value of every type's struct (what unpacking an RDATA-less dynamic
	// update record gives) and records with one string or slice field emptied; several of them in one
	// message, so that a one-octet under-estimate uses up the single octet of slack Pack allows itself
	for _, t := range types {
		if t == dns.TypeOPT {
			continue
		}
		var cands []dns.RR
		z := dns.TypeToRR[t]()
		*z.Header() = dns.RR_Header{Name: "z.example.", Rrtype: t, Class: dns.ClassANY}
		cands = append(cands, z)
		rr, info := GenRR(r, pool, t, false)
		if info.WellFormed {
			v := Flatten(reflect.ValueOf(rr).Elem())
			for i := 0; i < v.NumField(); i++ {
				f := v.Field(i)
				if v.Type().Field(i).Name == "Hdr" || !f.CanSet() || (f.Kind() != reflect.Slice && f.Kind() != reflect.String) {
					continue
				}
				c := dns.Copy(rr)
				cf := Flatten(reflect.ValueOf(c).Elem()).Field(i)
				cf.Set(reflect.Zero(cf.Type()))
				cands = append(cands, c)
			}
		}
		for _, c := range cands {
			for _, compress := range []bool{false, true} {
				m := new(dns.Msg)
				m.Compress = compress
				m.SetQuestion("z.example.", t)
				m.Answer = []dns.RR{dns.Copy(c), dns.Copy(c)}
				m.Ns = []dns.RR{dns.Copy(c)}
				checkLen(m, false, false, "empty-values")
				st["empty_value_messages"]++
			}
		}
	}
	// (2b') names that FIRST appear inside the RDATA of a record (compressible or not, single or in a list) and
	// are used again afterwards: as owner of later records, as a parent of later owners, in a later record of the
	// same type. What Len's suffix set holds and what the packer's map holds must stay in step for every name
	// field of every type
	for _, t := range types {
		var base dns.RR
		for k := 0; k < 30 && base == nil; k++ {
			rr, info := GenRR(r, pool, t, false)
			if rr == nil || !info.WellFormed {
				continue
			}
			nf := 0
			ForEachNameField(rr, func(get func() string, set func(string)) { nf++ })
			if nf == 0 {
				break
			}
			base = rr
		}
		if base == nil {
			continue
		}
		i := 0
		var names []string
		ForEachNameField(base, func(get func() string, set func(string)) {
			nm := "f" + Itoa(i) + ".rd" + Itoa(i) + ".in-rdata.example.net."
			set(nm)
			names = append(names, nm)
			i++
		})
		base.Header().Name = "owner.example.org."
		for _, compress := range []bool{true, false} {
			for variant := 0; variant < 3; variant++ {
				m := new(dns.Msg)
				m.Compress = compress
				m.SetQuestion("owner.example.org.", t)
				m.Answer = []dns.RR{dns.Copy(base)}
				for _, nm := range names {
					switch variant {
					case 0: // the same name as owner
						m.Extra = append(m.Extra, &dns.A{Hdr: dns.RR_Header{Name: nm, Rrtype: dns.TypeA, Class: dns.ClassINET}, A: net.IPv4(192, 0, 2, 1).To4()})
					case 1: // a child and a parent of the name
						m.Extra = append(m.Extra, &dns.A{Hdr: dns.RR_Header{Name: "child." + nm, Rrtype: dns.TypeA, Class: dns.ClassINET}, A: net.IPv4(192, 0, 2, 1).To4()})
						m.Ns = append(m.Ns, &dns.NS{Hdr: dns.RR_Header{Name: nm[strings.Index(nm, ".")+1:], Rrtype: dns.TypeNS, Class: dns.ClassINET}, Ns: nm})
					case 2: // the record again, and a compressible name equal to it
						m.Answer = append(m.Answer, dns.Copy(base))
						m.Ns = append(m.Ns, &dns.NS{Hdr: dns.RR_Header{Name: "owner.example.org.", Rrtype: dns.TypeNS, Class: dns.ClassINET}, Ns: nm})
					}
				}
				checkLen(m, false, variant == 0 && compress, "rdata-names-reused")
				st["rdata_names_reused_messages"]++
			}
		}
	}
	// (2b'') names whose FIRST label begins with an escape (escaped dot, escaped backslash, \DDD), alone and as a
	// run of backslashes reaching the first dot: the label walkers scan backwards from each dot to offset 0
	for _, first := range []string{"\\.", "\\\\", "\\\\\\.", "\\046", "\\.\\.", "\\\\\\\\", "\\000", "x\\."} {
		for _, rest := range []string{"a.org.", "org.", ""} {
			nm := first + "." + rest
			if _, ok := dns.IsDomainName(nm); !ok {
				continue
			}
			for _, compress := range []bool{true, false} {
				m := new(dns.Msg)
				m.Compress = compress
				m.SetQuestion(nm, dns.TypeMX)
				m.Answer = []dns.RR{
					&dns.MX{Hdr: dns.RR_Header{Name: nm, Rrtype: dns.TypeMX, Class: dns.ClassINET}, Preference: 1, Mx: "mail." + nm},
					&dns.MX{Hdr: dns.RR_Header{Name: "w." + nm, Rrtype: dns.TypeMX, Class: dns.ClassINET}, Preference: 2, Mx: nm},
				}
				// what a splitter that mistakes an escaped dot for a label boundary would take for a parent
				for i := 0; i < len(nm)-1; i++ {
					if nm[i] == '.' {
						if _, ok := dns.IsDomainName(nm[i+1:]); ok {
							m.Extra = append(m.Extra, &dns.A{Hdr: dns.RR_Header{Name: nm[i+1:], Rrtype: dns.TypeA, Class: dns.ClassINET}, A: net.IPv4(192, 0, 2, 2).To4()})
						}
					}
				}
				checkLen(m, false, compress, "escape-at-start")
				st["escape_at_start_messages"]++
			}
		}
	}
	// (2c) character-strings whose TEXT is longer than 255 characters while the octets they denote are at most
	// 255 (escapes shrink on the wire), in every string-carrying type; and OPT records whose owner is not the
	// root (sloppy peers send them; Unpack and Pack accept them): Len never underestimates, Pack has room
	{
		mkText := func(octets, nesc int, ddd bool) string {
			var sb strings.Builder
			for i := 0; i < octets; i++ {
				switch {
				case i < nesc && ddd:
					sb.WriteString("\\00" + string(rune('1'+i%9)))
				case i < nesc:
					sb.WriteString("\\;")
				default:
					sb.WriteByte(byte('a' + i%26))
				}
			}
			return sb.String()
		}
		for _, octets := range []int{254, 255} {
			for _, nesc := range []int{1, 2, 3, 64, 200, 255} {
				if nesc > octets {
					nesc = octets
				}
				for _, ddd := range []bool{false, true} {
					txt := mkText(octets, nesc, ddd)
					recs := []dns.RR{
						&dns.TXT{Hdr: dns.RR_Header{Name: "t.example.", Rrtype: dns.TypeTXT, Class: 1}, Txt: []string{txt, "x"}},
						&dns.SPF{Hdr: dns.RR_Header{Name: "t.example.", Rrtype: dns.TypeSPF, Class: 1}, Txt: []string{txt}},
						&dns.HINFO{Hdr: dns.RR_Header{Name: "t.example.", Rrtype: dns.TypeHINFO, Class: 1}, Cpu: txt, Os: "os"},
						&dns.NAPTR{Hdr: dns.RR_Header{Name: "t.example.", Rrtype: dns.TypeNAPTR, Class: 1}, Order: 1, Preference: 1, Flags: "u", Service: "s", Regexp: txt, Replacement: "."},
						&dns.X25{Hdr: dns.RR_Header{Name: "t.example.", Rrtype: dns.TypeX25, Class: 1}, PSDNAddress: txt},
					}
					for _, rr := range recs {
						for _, compress := range []bool{false, true} {
							m := new(dns.Msg)
							m.Compress = compress
							m.SetQuestion("t.example.", rr.Header().Rrtype)
							m.Answer = []dns.RR{rr, dns.Copy(rr)}
							// these are valid messages (every string is at most 255 octets): Pack succeeds
							if _, err := m.Pack(); err != nil {
								t, _ := MsgText(m)
								Viol("C08/pack-fails-on-valid-message/long-escaped-text", "Pack fails on a message whose strings denote at most 255 octets: "+err.Error(), map[string]string{"msg": t})
							}
							checkLen(m, false, false, "long-escaped-text")
							st["long_escaped_text_messages"]++
						}
					}
				}
			}
		}
		for _, owner := range []string{"edns.resolver.example.", "x.", "z.example.org.", strings.Repeat("a.", 100)} {
			for _, compress := range []bool{false, true} {
				o := &dns.OPT{Hdr: dns.RR_Header{Name: owner, Rrtype: dns.TypeOPT, Class: 1232}}
				o.Option = []dns.EDNS0{&dns.EDNS0_NSID{Code: dns.EDNS0NSID, Nsid: "aabb"}}
				m := new(dns.Msg)
				m.Compress = compress
				m.SetQuestion("z.example.org.", dns.TypeA)
				m.Answer = []dns.RR{&dns.A{Hdr: dns.RR_Header{Name: "z.example.org.", Rrtype: dns.TypeA, Class: 1}, A: []byte{192, 0, 2, 1}}}
				m.Extra = []dns.RR{o}
				if _, err := m.Pack(); err != nil {
					t, _ := MsgText(m)
					Viol("C08/pack-fails-on-valid-message/opt-owner-not-root", "Pack fails: "+err.Error(), map[string]string{"msg": t})
				}
				checkLen(m, false, false, "opt-owner-not-root")
				st["opt_owner_messages"]++
			}
		}
	}
	// (2d) values in the forms a program builds them (not the forms the parser or the decoder produce): IPv4
	// addresses in 16-octet form in every field that holds one
	{
		v4 := net.ParseIP("192.0.2.1") // 16 octets
		recs := []dns.RR{
			&dns.A{Hdr: dns.RR_Header{Name: "v.example.", Rrtype: dns.TypeA, Class: 1}, A: v4},
			&dns.SVCB{Hdr: dns.RR_Header{Name: "v.example.", Rrtype: dns.TypeSVCB, Class: 1}, Priority: 1, Target: ".", Value: []dns.SVCBKeyValue{&dns.SVCBIPv4Hint{Hint: []net.IP{v4, net.ParseIP("192.0.2.2")}}}},
			&dns.HTTPS{SVCB: dns.SVCB{Hdr: dns.RR_Header{Name: "v.example.", Rrtype: dns.TypeHTTPS, Class: 1}, Priority: 1, Target: ".", Value: []dns.SVCBKeyValue{&dns.SVCBAlpn{Alpn: []string{"h2"}}, &dns.SVCBIPv4Hint{Hint: []net.IP{v4}}}}},
			&dns.L32{Hdr: dns.RR_Header{Name: "v.example.", Rrtype: dns.TypeL32, Class: 1}, Preference: 1, Locator32: v4},
			&dns.IPSECKEY{Hdr: dns.RR_Header{Name: "v.example.", Rrtype: dns.TypeIPSECKEY, Class: 1}, Precedence: 1, GatewayType: 1, Algorithm: 2, GatewayAddr: v4, PublicKey: "AQID"},
			&dns.AMTRELAY{Hdr: dns.RR_Header{Name: "v.example.", Rrtype: dns.TypeAMTRELAY, Class: 1}, Precedence: 1, GatewayType: 1, GatewayAddr: v4},
			&dns.APL{Hdr: dns.RR_Header{Name: "v.example.", Rrtype: dns.TypeAPL, Class: 1}, Prefixes: []dns.APLPrefix{{Network: net.IPNet{IP: v4, Mask: net.CIDRMask(24, 32)}}}},
		}
		opt := &dns.OPT{Hdr: dns.RR_Header{Name: ".", Rrtype: dns.TypeOPT, Class: 1232}}
		opt.Option = []dns.EDNS0{&dns.EDNS0_SUBNET{Code: dns.EDNS0SUBNET, Family: 1, SourceNetmask: 24, Address: v4}}
		for _, rr := range recs {
			for _, compress := range []bool{false, true} {
				m := new(dns.Msg)
				m.Compress = compress
				m.SetQuestion("v.example.", rr.Header().Rrtype)
				m.Answer = []dns.RR{rr, dns.Copy(rr)}
				m.Extra = []dns.RR{opt}
				checkLen(m, false, false, "ipv4-in-16-octet-form")
				st["noncanonical_form_messages"]++
			}
		}
	}
	// (2e) sequences of operations in one goroutine: Truncate, Len, Pack, PackBuffer, Copy on messages that
	// share names: what Len says about a message depends on that message only, whatever ran before
	{
		var np []string
		mk := func(k int) *dns.Msg {
			m := new(dns.Msg)
			m.Compress = true
			m.Response = true
			m.SetQuestion(plainName(r, &np), dns.TypeSRV)
			for j := 0; j < k; j++ {
				m.Answer = append(m.Answer, plainRR(r, &np, commonTypes[r.Intn(len(commonTypes))]))
			}
			return m
		}
		for round := 0; round < 12; round++ {
			big, small := mk(40+r.Intn(20)), mk(2+r.Intn(3))
			for _, op := range []int{0, 1, 2, 3} {
				switch op {
				case 0:
					big.Copy().Truncate(512)
				case 1:
					_ = big.Len()
				case 2:
					_, _ = big.Pack()
				case 3:
					t := big.Copy()
					t.Truncate(700)
					_, _ = t.PackBuffer(make([]byte, 800))
				}
				checkLen(small, true, false, "after-other-operations")
				checkLen(big, true, false, "after-other-operations")
				st["operation_sequences"]++
			}
		}
	}
	// (3) messages crossing the 16384-octet pointer limit
	big := 6
	if tier == "thorough" {
		big = 60
	}
	for i := 0; i < big; i++ {
		var np []string
		m := new(dns.Msg)
		m.Compress = true
		m.SetQuestion(plainName(r, &np), dns.TypeTXT)
		filler := 60 + r.Intn(12)
		for j := 0; j < filler; j++ {
			m.Answer = append(m.Answer, &dns.TXT{Hdr: dns.RR_Header{Name: plainName(r, &np), Rrtype: dns.TypeTXT, Class: 1}, Txt: []string{strings.Repeat("x", 200+r.Intn(55))}})
		}
		for j := 0; j < 40; j++ {
			m.Ns = append(m.Ns, plainRR(r, &np, commonTypes[r.Intn(len(commonTypes))]))
		}
		checkLen(m, true, false, "beyond-16384")
		m.Compress = false
		checkLen(m, true, false, "beyond-16384")
	}
	// (3a) messages WITHOUT a question that hold exactly one record (a zone-transfer envelope with the lone SOA, a
	// NOTIFY answer) and messages with one record per section, Compress on: names inside the one record share
	// suffixes with its owner and with each other. And Go strings longer than 255 octets in every character-string
	// field (if Pack accepts them at all, Len must still cover what it writes); and header Rdlength values that
	// are stale (the record came off the wire and was edited): Len is about the value, not about bookkeeping
	{
		h := func(t uint16) dns.RR_Header { return dns.RR_Header{Name: "example.org.", Rrtype: t, Class: 1, Ttl: 60} }
		lone := []dns.RR{
			&dns.SOA{Hdr: h(dns.TypeSOA), Ns: "ns1.example.org.", Mbox: "hostmaster.example.org.", Serial: 1},
			&dns.MX{Hdr: h(dns.TypeMX), Preference: 10, Mx: "mail.example.org."},
			&dns.MINFO{Hdr: h(dns.TypeMINFO), Rmail: "r.example.org.", Email: "e.example.org."},
			&dns.NS{Hdr: h(dns.TypeNS), Ns: "ns.example.org."},
			&dns.CNAME{Hdr: h(dns.TypeCNAME), Target: "example.org."},
			&dns.SRV{Hdr: h(dns.TypeSRV), Target: "sip.example.org."},
			&dns.RP{Hdr: h(dns.TypeRP), Mbox: "m.example.org.", Txt: "t.example.org."},
			&dns.TXT{Hdr: h(dns.TypeTXT), Txt: []string{"x"}},
		}
		for _, rr := range lone {
			for sec := 0; sec < 3; sec++ {
				for _, compress := range []bool{true, false} {
					m := new(dns.Msg)
					m.Compress = compress
					m.Response = true
					switch sec {
					case 0:
						m.Answer = []dns.RR{dns.Copy(rr)}
					case 1:
						m.Ns = []dns.RR{dns.Copy(rr)}
					case 2:
						m.Extra = []dns.RR{dns.Copy(rr)}
					}
					checkLen(m, true, compress && sec == 0, "lone-record")
					m2 := m.Copy()
					m2.Answer, m2.Ns, m2.Extra = []dns.RR{dns.Copy(rr)}, []dns.RR{dns.Copy(rr)}, []dns.RR{dns.Copy(rr)}
					checkLen(m2, true, false, "one-record-per-section")
					st["lone_record_messages"]++
				}
			}
		}
		// APL prefixes of EVERY length (0..32, 0..128) over addresses with all bits set under the mask, negated or
		// not; AMTRELAY with every gateway kind with and without the discovery bit
		{
			var recs []dns.RR
			for _, bits := range []int{32, 128} {
				for p := 0; p <= bits; p++ {
					ip := bytes.Repeat([]byte{0xff}, bits/8)
					mask := net.CIDRMask(p, bits)
					for i := range ip {
						ip[i] &= mask[i]
					}
					recs = append(recs, &dns.APL{Hdr: h(dns.TypeAPL), Prefixes: []dns.APLPrefix{{Negation: p%2 == 1, Network: net.IPNet{IP: ip, Mask: mask}}}})
				}
			}
			for _, d := range []uint8{0, 0x80} {
				recs = append(recs,
					&dns.AMTRELAY{Hdr: h(dns.TypeAMTRELAY), Precedence: 1, GatewayType: d | 0},
					&dns.AMTRELAY{Hdr: h(dns.TypeAMTRELAY), Precedence: 1, GatewayType: d | 1, GatewayAddr: net.IPv4(192, 0, 2, 1).To4()},
					&dns.AMTRELAY{Hdr: h(dns.TypeAMTRELAY), Precedence: 1, GatewayType: d | 2, GatewayAddr: net.ParseIP("2001:db8::15")},
					&dns.AMTRELAY{Hdr: h(dns.TypeAMTRELAY), Precedence: 1, GatewayType: d | 3, GatewayHost: "relay.example.org."})
			}
			for i := 0; i < len(recs); i += 6 {
				for _, compress := range []bool{true, false} {
					m := new(dns.Msg)
					m.Compress = compress
					m.SetQuestion("example.org.", dns.TypeAPL)
					for j := i; j < i+6 && j < len(recs); j++ {
						m.Answer = append(m.Answer, dns.Copy(recs[j]), dns.Copy(recs[j]))
					}
					checkLen(m, false, false, "apl-amtrelay-corners")
					st["apl_amtrelay_messages"]++
				}
			}
		}
		// string lists that are nil, empty, or hold empty strings, in every TXT-like type
		for _, txt := range [][]string{nil, {}, {""}, {"", ""}, {"", "x", ""}} {
			for _, rr := range []dns.RR{
				&dns.TXT{Hdr: h(dns.TypeTXT), Txt: txt}, &dns.SPF{Hdr: h(dns.TypeSPF), Txt: txt}, &dns.AVC{Hdr: h(dns.TypeAVC), Txt: txt},
				&dns.NINFO{Hdr: h(dns.TypeNINFO), ZSData: txt}, &dns.RESINFO{Hdr: h(dns.TypeRESINFO), Txt: txt},
			} {
				for _, compress := range []bool{true, false} {
					m := new(dns.Msg)
					m.Compress = compress
					m.SetQuestion("example.org.", rr.Header().Rrtype)
					for k := 0; k < 5; k++ {
						m.Answer = append(m.Answer, dns.Copy(rr))
					}
					checkLen(m, false, false, "empty-string-lists")
					st["empty_string_list_messages"]++
				}
			}
		}
		for _, n := range []int{255, 256, 257, 300, 510, 511, 600, 1000} {
			long := strings.Repeat("s", n)
			for _, rr := range []dns.RR{
				&dns.TXT{Hdr: h(dns.TypeTXT), Txt: []string{long}},
				&dns.TXT{Hdr: h(dns.TypeTXT), Txt: []string{"a", long, "b"}},
				&dns.SPF{Hdr: h(dns.TypeSPF), Txt: []string{long}},
				&dns.HINFO{Hdr: h(dns.TypeHINFO), Cpu: long, Os: "os"},
				&dns.NAPTR{Hdr: h(dns.TypeNAPTR), Flags: "s", Service: long, Regexp: "", Replacement: "."},
				&dns.URI{Hdr: h(dns.TypeURI), Target: long},
				&dns.CAA{Hdr: h(dns.TypeCAA), Tag: "issue", Value: long},
				&dns.X25{Hdr: h(dns.TypeX25), PSDNAddress: long},
			} {
				for _, compress := range []bool{true, false} {
					m := new(dns.Msg)
					m.Compress = compress
					m.SetQuestion("example.org.", rr.Header().Rrtype)
					m.Answer = []dns.RR{dns.Copy(rr), dns.Copy(rr)}
					checkLen(m, false, false, "long-go-strings")
					st["long_go_string_messages"]++
				}
			}
		}
		for i := 0; i < 60; i++ {
			var np []string
			m := new(dns.Msg)
			m.Compress = i%2 == 0
			m.SetQuestion(plainName(r, &np), dns.TypeA)
			for j := 0; j < 6; j++ {
				m.Answer = append(m.Answer, plainRR(r, &np, commonTypes[r.Intn(len(commonTypes))]))
			}
			o := &dns.OPT{Hdr: dns.RR_Header{Name: ".", Rrtype: dns.TypeOPT, Class: 1232}, Option: []dns.EDNS0{&dns.EDNS0_NSID{Code: dns.EDNS0NSID, Nsid: "abcdef"}, &dns.EDNS0_PADDING{Padding: make([]byte, r.Intn(60))}}}
			m.Extra = []dns.RR{o}
			for _, sec := range [][]dns.RR{m.Answer, m.Extra} {
				for _, rr := range sec {
					rr.Header().Rdlength = []uint16{0, 1, 3, 65535, uint16(r.Next())}[r.Intn(5)]
				}
			}
			checkLen(m, true, false, "stale-rdlength")
			st["stale_rdlength_messages"]++
		}
	}
	// (3b) a name STRADDLING the pointer limit: padding puts the first octet of a name (plain, or with escapes
	// in every label, which shifts text offsets against wire offsets) at every offset 16384-30 .. 16384+3; the
	// records behind it use each of its suffixes again. Labels that start below 16384 are pointer targets,
	// labels at or beyond are not: Len and Pack must agree on which
	{
		names := []string{"x.long-label-here.tail.zone.", `x.\l\o\n\g\e\s\c\a\p\e.tail.zone.`, `a\.b.c\\d.e\046f.zone.`, `\000\001.\255x.tail.zone.`}
		for _, nm := range names {
			for delta := -30; delta <= 3; delta++ {
				m := new(dns.Msg)
				m.Compress = true
				m.SetQuestion("q.", dns.TypeTXT)
				// header 12 + question 2+4 = 18; each TXT answer with owner "q." compressed: 2+10+1+n
				off, target := 19, 16384+delta
				for target-off > 268+14 {
					m.Answer = append(m.Answer, &dns.TXT{Hdr: dns.RR_Header{Name: "q.", Rrtype: dns.TypeTXT, Class: 1}, Txt: []string{strings.Repeat("p", 250)}})
					off += 2 + 10 + 1 + 250
				}
				if target-off > 268 {
					m.Answer = append(m.Answer, &dns.TXT{Hdr: dns.RR_Header{Name: "q.", Rrtype: dns.TypeTXT, Class: 1}, Txt: []string{strings.Repeat("p", 87)}})
					off += 2 + 10 + 1 + 87
				}
				rest := target - off // octets still to fill before the name starts: one more TXT of exactly that size
				if rest < 14 || rest > 268 {
					st["straddle_filler_arithmetic_off"]++
					continue
				}
				m.Answer = append(m.Answer, &dns.TXT{Hdr: dns.RR_Header{Name: "q.", Rrtype: dns.TypeTXT, Class: 1}, Txt: []string{strings.Repeat("f", rest-13)}})
				if l := m.Len(); l != target {
					st["straddle_filler_not_at_target"]++
				}
				m.Answer = append(m.Answer, &dns.NS{Hdr: dns.RR_Header{Name: nm, Rrtype: dns.TypeNS, Class: 1}, Ns: "q."})
				for i := 0; i < len(nm)-1; i++ {
					if nm[i] == '.' && (i == 0 || nm[i-1] != '\\') {
						if _, ok := dns.IsDomainName(nm[i+1:]); ok {
							m.Ns = append(m.Ns, &dns.NS{Hdr: dns.RR_Header{Name: nm[i+1:], Rrtype: dns.TypeNS, Class: 1}, Ns: "n." + nm[i+1:]})
						}
					}
				}
				checkLen(m, false, false, "straddle-16384")
				st["straddle_messages"]++
			}
		}
	}
	// (4) EDNS0 option / SVCB parameter values at Go struct level (Model/OptVal.v)
	runOptVals(r, tier)
	Stat(st)
}
