package main

// Case folding in ServeMux, octet by octet (strengthening round 5).
//
// The property says the multiplexer finds the handler "ignoring case". The random
// rounds of runMux flip the case of a few sampled names, so a name in which ONE
// particular letter is the only difference between pattern and question is
// reached by luck only. Here every octet value 0..255 is put, in turn, into every
// position class of a name (a label of its own / first, middle, last octet of a
// label; in the first, a middle and the last label; among letters of either case
// and among digits), the pattern is registered with that octet as it is and the
// question asked with the octet's counterpart b^0x20 (and the other way round,
// since b runs over both), and the answer must be the pattern's handler exactly
// when the two names are equal under ASCII case folding -- i.e. for the 52
// letters and for nothing else ('@' and '`', '[' and '{', 0xC1 and 0xE1 stay
// different names). The oracle is muxOracle's: an independent map keyed by the
// lower-cased presentation of the labels.

import (
	"strings"

	"github.com/miekg/dns"
	. "verif/harness/common"
)

// foldTemplates: the labels of a name with octet b at the swept position.
var foldTemplates = []struct {
	name string
	mk   func(b byte) [][]byte
}{
	{"only-label", func(b byte) [][]byte { return [][]byte{{b}} }},
	{"first-label-single", func(b byte) [][]byte { return [][]byte{{b}, []byte("example")} }},
	{"middle-label-single", func(b byte) [][]byte { return [][]byte{[]byte("www"), {b}, []byte("example")} }},
	{"last-label-single", func(b byte) [][]byte { return [][]byte{[]byte("www"), {b}} }},
	{"label-first-octet", func(b byte) [][]byte { return [][]byte{append([]byte{b}, "one"...), []byte("example")} }},
	{"label-middle-octet", func(b byte) [][]byte { return [][]byte{[]byte("zo" + string([]byte{b}) + "ne"), []byte("example")} }},
	{"label-last-octet", func(b byte) [][]byte { return [][]byte{append([]byte("zon"), b), []byte("example")} }},
	{"tld-first-octet", func(b byte) [][]byte {
		return [][]byte{[]byte("www"), []byte("example"), append([]byte{b}, "rg"...)}
	}},
	{"tld-middle-octet", func(b byte) [][]byte {
		return [][]byte{[]byte("www"), []byte("example"), []byte("o" + string([]byte{b}) + "g")}
	}},
	{"tld-last-octet", func(b byte) [][]byte { return [][]byte{[]byte("www"), []byte("example"), append([]byte("or"), b)} }},
	{"among-digits", func(b byte) [][]byte { return [][]byte{[]byte("1" + string([]byte{b}) + "2"), []byte("34")} }},
	{"second-of-four", func(b byte) [][]byte {
		return [][]byte{[]byte("a"), []byte("x" + string([]byte{b})), []byte("example"), []byte("org")}
	}},
}

// recase: the context octets (every octet except the one at the swept position,
// which is found by comparing with the template for another octet) in upper or
// lower case.
func recaseContext(ls, other [][]byte, upper bool) [][]byte {
	out := make([][]byte, len(ls))
	for i, l := range ls {
		o := append([]byte(nil), l...)
		for j := range o {
			if j < len(other[i]) && other[i][j] != o[j] {
				continue // the swept octet
			}
			if upper && o[j] >= 'a' && o[j] <= 'z' {
				o[j] -= 32
			} else if !upper && o[j] >= 'A' && o[j] <= 'Z' {
				o[j] += 32
			}
		}
		out[i] = o
	}
	return out
}

func matchOf(mux *dns.ServeMux, qn string, t uint16) string {
	return Protect(func() string {
		h := dns.VerifMuxMatch(mux, qn, t)
		if h == nil {
			return "none"
		}
		return "some:" + Itoa(int(h.(hid)))
	})
}

// serveOf: the same question through ServeMux.ServeDNS.
func serveOf(mux *dns.ServeMux, qn string, t uint16) string {
	req := new(dns.Msg)
	req.Id = 4711
	req.Question = []dns.Question{{Name: qn, Qtype: t, Qclass: dns.ClassINET}}
	w := &recWriter{handler: -1}
	if Protect(func() string { mux.ServeDNS(w, req); return "" }) == "panic" {
		return "panic"
	}
	if w.handler >= 0 {
		if len(w.msgs) != 0 {
			return "handler-and-reply"
		}
		return "some:" + Itoa(w.handler)
	}
	if len(w.msgs) == 1 && w.msgs[0].Rcode == dns.RcodeRefused {
		return "none"
	}
	return "no-refused-reply"
}

func runMuxCaseSweep() {
	modelOctets := map[byte]bool{0: true, '-': true, '.': true, '0': true, '@': true, '[': true, '\\': true, '`': true, '{': true,
		0x7f: true, 0xc1: true, 0xda: true, 0xe1: true, 0xfa: true, 0xff: true}
	for c := byte('a'); c <= 'z'; c++ {
		modelOctets[c], modelOctets[c-32] = true, true
	}
	for ti, tpl := range foldTemplates {
		for bi := 0; bi < 256; bi++ {
			b := byte(bi)
			b2 := b ^ 0x20
			base, other := tpl.mk(b), tpl.mk(b2)
			// context variants: 0 all lower on both sides; 1 question context upper;
			// 2 pattern context upper
			for ctx := 0; ctx < 3; ctx++ {
				pat, pat2 := recaseContext(base, other, ctx == 2), recaseContext(other, base, ctx == 2)
				ops := []muxOp{{true, showLabels(pat), 1}, {true, showLabels(pat2), 2}}
				if len(base) > 1 {
					ops = append(ops, muxOp{true, showLabels(recaseContext(base, other, ctx == 2)[1:]), 3})
				}
				if (bi+ctx)%2 == 1 { // the pattern as the user may write it: without the final dot
					ops[0].pattern = strings.TrimSuffix(ops[0].pattern, ".")
				}
				mux, reg, ok := buildMux(ops)
				if !ok {
					Viol("C14/Mux/handle-panic", "Handle/HandleRemove panicked on a non-empty pattern", opsString(ops))
					continue
				}
				for qi, q := range [][][]byte{recaseContext(base, other, ctx == 1), recaseContext(other, base, ctx == 1)} {
					qn := showLabels(q)
					// the question below the pattern as well: the swept octet is then
					// not in the first label the suffix walk looks at
					sub := append([][]byte{[]byte("sub")}, q...)
					for _, t := range []uint16{dns.TypeA, dns.TypeDS} {
						got := matchOf(mux, qn, t)
						muxOracle(ops, reg, q, qn, t, got)
						stat["mux_fold_checked"]++
						if t == dns.TypeA && ctx == 0 && qi == 1 && modelOctets[b] && (ti == 0 || ti == 5 || ti == 8) {
							Emit("mux", []string{opsString(ops), Hs(qn), Itoa(int(t))}, got)
							stat["mux_cases"]++
							stat["mux_fold_cases"]++
						}
					}
					got := matchOf(mux, showLabels(sub), dns.TypeA)
					muxOracle(ops, reg, sub, showLabels(sub), dns.TypeA, got)
					stat["mux_fold_checked"]++
					// through ServeDNS: the handler run (or REFUSED written) must be the
					// one the property designates
					sv := serveOf(mux, qn, dns.TypeA)
					muxOracle(ops, reg, q, qn, dns.TypeA, sv)
					if sv == "handler-and-reply" || sv == "no-refused-reply" {
						Viol("C14/Mux/dispatch-and-reply", "ServeDNS: "+sv, muxIn{Ops: opsString(ops), Name: qn, Qtype: dns.TypeA})
					}
					stat["mux_fold_served_checked"]++
				}
			}
			// removal and replacement in the other case (template by template, lower context)
			for _, replace := range []bool{false, true} {
				ops := []muxOp{{true, showLabels(base), 1}}
				if len(base) > 1 {
					ops = append(ops, muxOp{true, showLabels(base[1:]), 3})
				}
				if replace {
					ops = append(ops, muxOp{true, showLabels(other), 2})
				} else {
					ops = append(ops, muxOp{false, showLabels(other), 0})
				}
				mux, reg, ok := buildMux(ops)
				if !ok {
					Viol("C14/Mux/handle-panic", "Handle/HandleRemove panicked on a non-empty pattern", opsString(ops))
					continue
				}
				for _, q := range [][][]byte{base, other} {
					qn := showLabels(q)
					got := matchOf(mux, qn, dns.TypeA)
					muxOracle(ops, reg, q, qn, dns.TypeA, got)
					stat["mux_fold_remove_checked"]++
					if !replace && modelOctets[b] && ti == 5 {
						Emit("mux", []string{opsString(ops), Hs(qn), Itoa(int(dns.TypeA))}, got)
						stat["mux_cases"]++
						stat["mux_fold_cases"]++
					}
				}
			}
		}
	}
}
