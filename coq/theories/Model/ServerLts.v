(* Model/ServerLts.v — server.go start / serve / shutdown life-cycle as a
   labelled transition system.  Definitions only.

   Threads: starters (ListenAndServe / ActivateAndServe callers), the serve loop
   (serveTCP / serveUDP, run by the starter that succeeded), one worker per
   accepted TCP connection (serveTCPConn) or per UDP packet (serveUDPPacket),
   Shutdown / ShutdownContext callers.
   Shared state: srv.started (as a phase: never started / running / shut
   down), the listener (closed or not), the PacketConn read deadline (in the
   past or not), per connection read deadline (in the past or not) — the
   connections in srv.conns are the workers that are not finished —, the
   WaitGroup counter, the srv.shutdown channel (closed or not).

   Granularity: every region the Go code runs under srv.lock is ONE transition
   (no thread blocks while holding the lock); every read of srv.started is its
   own transition, so all interleavings of the flag tests with Shutdown are
   present.  Purely local steps are merged with the preceding one
   (registration in srv.conns + wg.Add + go; delete from srv.conns + wg.Done).
   A start that fails in serveUDP before the loop (SFailStart) leaves the server
   unstarted.  Restart after Shutdown: a new start once the previous life is over
   (serve call and every Shutdown / start call returned) begins from the initial
   state, because Server.init re-creates srv.shutdown and srv.conns and the
   WaitGroup is local to the serve call (epoch_over, restart, reachable_r,
   run_lives, accepts_lives at the end of this file).  Input that never reaches a
   handler: a UDP datagram shorter than a header creates no worker (SPacketShort);
   a message serveDNS drops or rejects by itself lets the worker go on without
   a handler (WDrop).  Not modelled: a start while
   the previous serve call is still draining, MaxTCPQueries, handler-initiated
   Close.  Hijack: a handler that hijacked its TCP connection leaves through
   HExitHj (no Close by the server, deregistration only). *)
From Dns Require Export Base.Bytes.
From Coq Require Export Arith.
Open Scope nat_scope.

Inductive mode := TCP | UDP.
Inductive phase := Fresh | Running | Stopping.
Inductive retv := RNil | RErr.

(* program counter of the serve loop *)
Inductive spc :=
| SNone                (* no serve loop yet *)
| SInit                (* started = true set, lock released, before NotifyStartedFunc *)
| SLoop                (* about to evaluate  for srv.isStarted() *)
| SAccept              (* TCP: blocked in l.Accept() *)
| SGot (c : nat)       (* Accept returned connection c / ReadFrom returned packet c *)
| SErrChk              (* Accept / read returned a temporary error, about to test isStarted *)
| SErrChkF             (* ... a non-temporary error *)
| SSetDl               (* UDP: in readUDP / readPacketConn, before the RLock region *)
| SRead                (* UDP: blocked in ReadFrom *)
| SDrain (v : retv)    (* loop left, deferred wg.Wait() *)
| SClosing (v : retv)  (* srv.shutdown closed, deferred l.Close(), about to return v *)
| SReturned (v : retv).

(* program counter of a worker *)
Inductive wpc :=
| CCheck     (* TCP: about to evaluate  srv.isStarted()  in the for condition *)
| CSetDl     (* TCP: in readTCP before the RLock region *)
| CRead      (* TCP: blocked reading the next request *)
| CGot       (* request in hand, handler not yet entered *)
| CHandler   (* inside Handler.ServeDNS *)
| CClosing   (* TCP: loop left, about to w.Close() *)
| CFin       (* about to leave srv.conns and wg.Done() *)
| CDone.

Record worker := mkW { w_id : nat; w_pc : wpc; w_dl : bool (* read deadline is in the past *) }.

Inductive sdres := ResNil | ResCtx | ResNotStarted.
Inductive sdpc := SdPending | SdWaiting | SdExpired | SdFailed | SdDone (r : sdres).
Inductive stpc := StPending | StServing | StFailed | StDone.

Record state := mkS {
  md : mode;
  ph : phase;                (* srv.started = (ph = Running) *)
  lclosed : bool;            (* TCP listener closed *)
  pcdl : bool;               (* UDP PacketConn read deadline in the past *)
  serve : spc;
  workers : list worker;
  wg : nat;                  (* WaitGroup counter *)
  shut : bool;               (* srv.shutdown closed *)
  sds : list (nat * sdpc);   (* Shutdown callers *)
  sts : list (nat * stpc);   (* start callers *)
  fatal : bool               (* the environment injected a non-temporary listener error *)
}.

Definition init (m : mode) : state := mkS m Fresh false false SNone [] 0 false [] [] false.

Inductive label :=
(* starters *)
| StInvoke (i : nat) | StAtomic (i : nat) | StReturnErr (i : nat) | StFail (i : nat)
(* serve loop *)
| Notify | SFailStart | SCheck | SAcceptOk (c : nat) | SAcceptErr | SFatal | SErrCheck | SSpawn
| SSetDlL | SPacket (p : nat) | SPacketShort (p : nat) | SReadErr | SWaitDone | SReturn (v : retv)
(* workers *)
| WCheck (c : nat) | WSetDl (c : nat) | Req (c : nat) | ReadErr (c : nat)
| HEnter (c : nat) | WDrop (c : nat) | Reply (c : nat) | HExit (c : nat) | HExitHj (c : nat) | WClose (c : nat) | WFinish (c : nat)
(* Shutdown callers *)
| SdInvoke (j : nat) | SdAtomic (j : nat) | SdCtx (j : nat) | SdReturn (j : nat) (r : sdres).

(* ---- field updates *)
Definition set_serve (s : state) (x : spc) : state :=
  mkS (md s) (ph s) (lclosed s) (pcdl s) x (workers s) (wg s) (shut s) (sds s) (sts s) (fatal s).
Definition set_workers (s : state) (x : list worker) : state :=
  mkS (md s) (ph s) (lclosed s) (pcdl s) (serve s) x (wg s) (shut s) (sds s) (sts s) (fatal s).
Definition set_wg (s : state) (x : nat) : state :=
  mkS (md s) (ph s) (lclosed s) (pcdl s) (serve s) (workers s) x (shut s) (sds s) (sts s) (fatal s).
Definition set_sds (s : state) (x : list (nat * sdpc)) : state :=
  mkS (md s) (ph s) (lclosed s) (pcdl s) (serve s) (workers s) (wg s) (shut s) x (sts s) (fatal s).
Definition set_sts (s : state) (x : list (nat * stpc)) : state :=
  mkS (md s) (ph s) (lclosed s) (pcdl s) (serve s) (workers s) (wg s) (shut s) (sds s) x (fatal s).
Definition set_pcdl (s : state) (x : bool) : state :=
  mkS (md s) (ph s) (lclosed s) x (serve s) (workers s) (wg s) (shut s) (sds s) (sts s) (fatal s).
Definition set_shut (s : state) (x : bool) : state :=
  mkS (md s) (ph s) (lclosed s) (pcdl s) (serve s) (workers s) (wg s) x (sds s) (sts s) (fatal s).
Definition set_fatal (s : state) (x : bool) : state :=
  mkS (md s) (ph s) (lclosed s) (pcdl s) (serve s) (workers s) (wg s) (shut s) (sds s) (sts s) x.
Definition set_ph (s : state) (x : phase) : state :=
  mkS (md s) x (lclosed s) (pcdl s) (serve s) (workers s) (wg s) (shut s) (sds s) (sts s) (fatal s).
(* the lock region of ShutdownContext: started = false, PacketConn deadline to
   the past, Listener.Close(), every connection in srv.conns deadline to the past *)
Definition do_shutdown (s : state) : state :=
  mkS (md s) Stopping true true (serve s)
      (map (fun w => mkW (w_id w) (w_pc w) true) (workers s))
      (wg s) (shut s) (sds s) (sts s) (fatal s).

(* ---- association lists, first match *)
Fixpoint find_w (c : nat) (l : list worker) : option worker :=
  match l with
  | [] => None
  | w :: t => if Nat.eqb (w_id w) c then Some w else find_w c t
  end.
Fixpoint upd_w (c : nat) (f : worker -> worker) (l : list worker) : list worker :=
  match l with
  | [] => []
  | w :: t => if Nat.eqb (w_id w) c then f w :: t else w :: upd_w c f t
  end.
Fixpoint find_a {A} (k : nat) (l : list (nat * A)) : option A :=
  match l with
  | [] => None
  | (k', a) :: t => if Nat.eqb k' k then Some a else find_a k t
  end.
Fixpoint upd_a {A} (k : nat) (a : A) (l : list (nat * A)) : list (nat * A) :=
  match l with
  | [] => []
  | (k', a') :: t => if Nat.eqb k' k then (k', a) :: t else (k', a') :: upd_a k a t
  end.

Definition set_pc (p : wpc) (w : worker) : worker := mkW (w_id w) p (w_dl w).
Definition is_running (s : state) : bool := match ph s with Running => true | _ => false end.
Definition wdone (w : worker) : bool := match w_pc w with CDone => true | _ => false end.

(* a worker transition: worker c must be at [from] (and satisfy [g]) *)
Definition wstep (s : state) (c : nat) (from : wpc) (g : worker -> bool) (f : worker -> worker) : option state :=
  match find_w c (workers s) with
  | Some w =>
    match w_pc w, from with
    | CCheck, CCheck | CSetDl, CSetDl | CRead, CRead | CGot, CGot | CHandler, CHandler
    | CClosing, CClosing | CFin, CFin =>
      if g w then Some (set_workers s (upd_w c f (workers s))) else None
    | _, _ => None
    end
  | None => None
  end.

Definition step (s : state) (l : label) : option state :=
  match l with
  (* ---------------- starters *)
  | StInvoke i =>
    match find_a i (sts s) with
    | None => Some (set_sts s (sts s ++ [(i, StPending)]))
    | Some _ => None
    end
  | StAtomic i =>
    (* lock; if srv.started { return error }; init; started = true; unlock; serve *)
    match find_a i (sts s) with
    | Some StPending =>
      match ph s with
      | Running => Some (set_sts s (upd_a i StFailed (sts s)))
      | Fresh => Some (set_serve (set_ph (set_sts s (upd_a i StServing (sts s))) Running) SInit)
      | Stopping => None
      end
    | _ => None
    end
  | StReturnErr i =>
    match find_a i (sts s) with
    | Some StFailed => Some (set_sts s (upd_a i StDone (sts s)))
    | _ => None
    end
  | StFail i =>
    (* a start call on a server that is not started fails before srv.started is
       set: ListenAndServe with a bad network, tcp-tls without certificates, a
       listen error (address in use, bad address), setUDPSocketOptions error;
       ActivateAndServe without listeners.  It returns its error under the
       deferred unlock; nothing of the server changes. *)
    match find_a i (sts s) with
    | Some StPending => if is_running s then None else Some (set_sts s (upd_a i StDone (sts s)))
    | _ => None
    end
  (* ---------------- serve loop *)
  | Notify => match serve s with SInit => Some (set_serve s SLoop) | _ => None end
  | SFailStart =>
    (* serveUDP with a generic PacketConn and a decorated Reader that lacks
       ReadPacketConn: before its loop (and before NotifyStartedFunc) it takes
       the lock, sets started = false and returns the error.  The server is
       unstarted again (Server.init runs afresh on the next start).
       Modelled while still started; see docs/C13.md for the corner in which
       a Shutdown call slipped in between. *)
    match serve s, md s, ph s with
    | SInit, UDP, Running =>
      Some (set_sts (set_serve (set_ph s Fresh) SNone)
                    (map (fun x => match snd x with StServing => (fst x, StDone) | _ => x end) (sts s)))
    | _, _, _ => None
    end
  | SCheck =>
    match serve s with
    | SLoop =>
      if is_running s then Some (set_serve s (match md s with TCP => SAccept | UDP => SSetDl end))
      else Some (set_serve s (SDrain RNil))
    | _ => None
    end
  | SAcceptOk c =>
    match serve s, md s with
    | SAccept, TCP =>
      if negb (lclosed s) then
        match find_w c (workers s) with None => Some (set_serve s (SGot c)) | Some _ => None end
      else None
    | _, _ => None
    end
  | SAcceptErr => match serve s with SAccept => Some (set_serve s SErrChk) | _ => None end
  | SFatal =>
    match serve s with
    | SAccept | SRead => Some (set_fatal (set_serve s SErrChkF) true)
    | _ => None
    end
  | SErrCheck =>
    (* if !srv.isStarted() { return nil }; temporary: continue; else return err *)
    match serve s with
    | SErrChk => if is_running s then Some (set_serve s SLoop) else Some (set_serve s (SDrain RNil))
    | SErrChkF => if is_running s then Some (set_serve s (SDrain RErr)) else Some (set_serve s (SDrain RNil))
    | _ => None
    end
  | SSpawn =>
    (* TCP: lock; conns[rw] = {}; unlock; wg.Add(1); go serveTCPConn
       UDP: wg.Add(1); go serveUDPPacket *)
    match serve s with
    | SGot c =>
      Some (set_serve (set_wg (set_workers s (workers s ++
              [mkW c (match md s with TCP => CCheck | UDP => CGot end) false])) (S (wg s))) SLoop)
    | _ => None
    end
  | SSetDlL =>
    (* RLock; if srv.started { conn.SetReadDeadline(now + timeout) }; RUnlock *)
    match serve s with
    | SSetDl => Some (set_serve (if is_running s then set_pcdl s false else s) SRead)
    | _ => None
    end
  | SPacket p =>
    match serve s, md s with
    | SRead, UDP =>
      if negb (pcdl s) then
        match find_w p (workers s) with None => Some (set_serve s (SGot p)) | Some _ => None end
      else None
    | _, _ => None
    end
  | SPacketShort p =>
    (* UDP: ReadFrom returned a datagram shorter than a DNS header (0..11
       octets): serveUDP hands it to MsgInvalidFunc and continues its loop; no
       worker is created and the WaitGroup is not touched *)
    match serve s, md s with
    | SRead, UDP => if negb (pcdl s) then Some (set_serve s SLoop) else None
    | _, _ => None
    end
  | SReadErr => match serve s with SRead => Some (set_serve s SErrChk) | _ => None end
  | SWaitDone =>
    (* wg.Wait(); close(srv.shutdown) *)
    match serve s with
    | SDrain v => if Nat.eqb (wg s) 0 then Some (set_serve (set_shut s true) (SClosing v)) else None
    | _ => None
    end
  | SReturn v =>
    match serve s with
    | SClosing v' => match v, v' with RNil, RNil | RErr, RErr => Some (set_serve s (SReturned v)) | _, _ => None end
    | _ => None
    end
  (* ---------------- workers *)
  | WCheck c =>
    wstep s c CCheck (fun _ => true) (set_pc (if is_running s then CSetDl else CClosing))
  | WSetDl c =>
    wstep s c CSetDl (fun _ => true)
          (fun w => mkW (w_id w) CRead (if is_running s then false else w_dl w))
  | Req c => wstep s c CRead (fun w => negb (w_dl w)) (set_pc CGot)
  | ReadErr c => wstep s c CRead (fun _ => true) (set_pc CClosing)
  | HEnter c => wstep s c CGot (fun _ => true) (set_pc CHandler)
  | WDrop c =>
    (* serveDNS returns without calling the handler: the message has no
       complete header, MsgAcceptFunc said ignore / reject, or the body did not
       unpack (a FORMERR / NOTIMP answer of the server itself may be written).
       The worker goes on as after a handler: next read (TCP) or done (UDP). *)
    wstep s c CGot (fun _ => true) (set_pc (match md s with TCP => CCheck | UDP => CFin end))
  | Reply c => wstep s c CHandler (fun _ => true) (fun w => w)
  | HExit c => wstep s c CHandler (fun _ => true) (set_pc (match md s with TCP => CCheck | UDP => CFin end))
  | HExitHj c =>
    (* TCP: the handler called Hijack() and returns: serveTCPConn leaves its loop,
       does NOT close the connection (it is the handler's now), only removes it
       from srv.conns and calls wg.Done() *)
    match md s with
    | TCP => wstep s c CHandler (fun _ => true) (set_pc CFin)
    | UDP => None
    end
  | WClose c => wstep s c CClosing (fun _ => true) (set_pc CFin)
  | WFinish c =>
    match wstep s c CFin (fun _ => true) (set_pc CDone) with
    | Some s' => Some (set_wg s' (pred (wg s')))
    | None => None
    end
  (* ---------------- Shutdown callers *)
  | SdInvoke j =>
    match find_a j (sds s) with
    | None => Some (set_sds s (sds s ++ [(j, SdPending)]))
    | Some _ => None
    end
  | SdAtomic j =>
    match find_a j (sds s) with
    | Some SdPending =>
      if is_running s then Some (set_sds (do_shutdown s) (upd_a j SdWaiting (sds s)))
      else Some (set_sds s (upd_a j SdFailed (sds s)))
    | _ => None
    end
  | SdCtx j =>
    match find_a j (sds s) with
    | Some SdWaiting => Some (set_sds s (upd_a j SdExpired (sds s)))
    | _ => None
    end
  | SdReturn j r =>
    match find_a j (sds s), r with
    | Some SdFailed, ResNotStarted => Some (set_sds s (upd_a j (SdDone r) (sds s)))
    | Some SdWaiting, ResNil | Some SdExpired, ResNil =>
      if shut s then Some (set_sds s (upd_a j (SdDone r) (sds s))) else None
    | Some SdExpired, ResCtx => Some (set_sds s (upd_a j (SdDone r) (sds s)))
    | _, _ => None
    end
  end.

(* ---- executions *)
Fixpoint run (s : state) (ls : list label) : option state :=
  match ls with
  | [] => Some s
  | l :: t => match step s l with Some s' => run s' t | None => None end
  end.
Definition reachable (m : mode) (s : state) : Prop := exists ls, run (init m) ls = Some s.

(* steps the server takes on its own (no client, handler or caller involved);
   a blocked read / accept fails on its own once the deadline is in the past /
   the listener is closed *)
Definition internal (s : state) (l : label) : bool :=
  match l with
  | Notify | SCheck | SErrCheck | SSpawn | SSetDlL | SWaitDone | SReturn _ => true
  | WCheck _ | WSetDl _ | HEnter _ | WDrop _ | WClose _ | WFinish _ => true
  | SAcceptErr => lclosed s
  | SReadErr => pcdl s
  | ReadErr c => match find_w c (workers s) with Some w => w_dl w | None => false end
  | _ => false
  end.

(* ---- trace acceptance: the observable labels are what the harness logs, the
   others are hidden steps the acceptor inserts wherever they are possible *)
Definition hidden_labels (s : state) : list label :=
  map (fun x => StAtomic (fst x)) (sts s) ++
  [SCheck; SErrCheck; SSpawn; SSetDlL; SWaitDone] ++
  flat_map (fun w => [WCheck (w_id w); WSetDl (w_id w); WFinish (w_id w)]) (workers s) ++
  map (fun x => SdAtomic (fst x)) (sds s).

Definition enc_spc (p : spc) : list nat :=
  match p with
  | SNone => [0] | SInit => [1] | SLoop => [2] | SAccept => [3] | SGot c => [4; c] | SErrChk => [5]
  | SErrChkF => [6] | SSetDl => [7] | SRead => [8]
  | SDrain v => [9; match v with RNil => 0 | RErr => 1 end]
  | SClosing v => [10; match v with RNil => 0 | RErr => 1 end]
  | SReturned v => [11; match v with RNil => 0 | RErr => 1 end]
  end.
Definition enc_wpc (p : wpc) : nat :=
  match p with CCheck => 0 | CSetDl => 1 | CRead => 2 | CGot => 3 | CHandler => 4 | CClosing => 5 | CFin => 6 | CDone => 7 end.
Definition enc_b (b : bool) : nat := if b then 1 else 0.
Definition enc_sd (p : sdpc) : nat :=
  match p with SdPending => 0 | SdWaiting => 1 | SdExpired => 2 | SdFailed => 3
          | SdDone ResNil => 4 | SdDone ResCtx => 5 | SdDone ResNotStarted => 6 end.
Definition enc_st (p : stpc) : nat := match p with StPending => 0 | StServing => 1 | StFailed => 2 | StDone => 3 end.
Definition enc (s : state) : list nat :=
  [match md s with TCP => 0 | UDP => 1 end; match ph s with Fresh => 0 | Running => 1 | Stopping => 2 end;
   enc_b (lclosed s); enc_b (pcdl s); wg s; enc_b (shut s); enc_b (fatal s)] ++
  enc_spc (serve s) ++ [99] ++
  flat_map (fun w => [w_id w; enc_wpc (w_pc w); enc_b (w_dl w)]) (workers s) ++ [99] ++
  flat_map (fun x => [fst x; enc_sd (snd x)]) (sds s) ++ [99] ++
  flat_map (fun x => [fst x; enc_st (snd x)]) (sts s).

Fixpoint nats_eqb (a b : list nat) : bool :=
  match a, b with
  | [], [] => true
  | x :: a', y :: b' => Nat.eqb x y && nats_eqb a' b'
  | _, _ => false
  end.
Definition mem_state (s : state) (l : list state) : bool :=
  let e := enc s in existsb (fun s' => nats_eqb e (enc s')) l.

Definition hidden_succs (s : state) : list state :=
  flat_map (fun l => match step s l with Some s' => [s'] | None => [] end) (hidden_labels s).

(* closure under hidden steps; None = out of fuel *)
Fixpoint closure (fuel : nat) (todo seen : list state) : option (list state) :=
  match todo with
  | [] => Some seen
  | s :: t =>
    match fuel with
    | O => None
    | S f =>
      if mem_state s seen then closure f t seen
      else closure f (hidden_succs s ++ t) (s :: seen)
    end
  end.

Definition closure_fuel : nat := 200 * 100.

(* Some n: accepted, n states possible at the end; None: out of fuel;
   rejected at event index i is reported as inl i *)
Fixpoint accept_from (fuel : nat) (cur : list state) (obs : list label) (i : nat) : nat + option nat :=
  match obs with
  | [] => inr (Some (length cur))
  | l :: t =>
    let next := flat_map (fun s => match step s l with Some s' => [s'] | None => [] end) cur in
    match closure fuel next [] with
    | None => inr None
    | Some [] => inl i
    | Some cl => accept_from fuel cl t (S i)
    end
  end.
Definition accepts (m : mode) (obs : list label) : nat + option nat :=
  match closure closure_fuel [init m] [] with
  | Some cl => accept_from closure_fuel cl obs 0
  | None => inr None
  end.

(* ---- a reduced acceptor for long logs.
   Hidden steps that are confluent with every other step are taken eagerly
   (they only enable more, never disable anything, and their effect does not
   depend on when they run relative to Shutdown's lock region):
     SSpawn, SSetDlL, WSetDl (a deadline set before the lock region is
     overwritten by it, one set after it is not set at all: same state),
     SWaitDone, WFinish (only lower the counter / close the channel).
   The hidden steps that read srv.started (SCheck, SErrCheck, WCheck, the lock
   regions StAtomic and SdAtomic) stay non-deterministic.  On short logs the
   runner evaluates both acceptors and requires them to agree. *)
Definition eager_labels (s : state) : list label :=
  [SSpawn; SSetDlL; SWaitDone] ++ flat_map (fun w => [WSetDl (w_id w); WFinish (w_id w)]) (workers s).
Fixpoint first_enabled (s : state) (ls : list label) : option state :=
  match ls with
  | [] => None
  | l :: t => match step s l with Some s' => Some s' | None => first_enabled s t end
  end.
Fixpoint normalize (fuel : nat) (s : state) : state :=
  match fuel with
  | O => s
  | S f => match first_enabled s (eager_labels s) with Some s' => normalize f s' | None => s end
  end.
Definition norm (s : state) : state := normalize (8 + 3 * length (workers s)) s.

Definition branch_labels (s : state) : list label :=
  map (fun x => StAtomic (fst x)) (sts s) ++ [SCheck; SErrCheck] ++
  map (fun w => WCheck (w_id w)) (workers s) ++ map (fun x => SdAtomic (fst x)) (sds s).

Definition estate := (list nat * state)%type.
Definition mk_e (s : state) : estate := let s' := norm s in (enc s', s').
Definition mem_e (e : estate) (l : list estate) : bool := existsb (fun x => nats_eqb (fst e) (fst x)) l.
Definition branch_succs (s : state) : list estate :=
  flat_map (fun l => match step s l with Some s' => [mk_e s'] | None => [] end) (branch_labels s).

Fixpoint closure_red (fuel : nat) (todo seen : list estate) : option (list estate) :=
  match todo with
  | [] => Some seen
  | e :: t =>
    match fuel with
    | O => None
    | S f =>
      if mem_e e seen then closure_red f t seen
      else closure_red f (branch_succs (snd e) ++ t) (e :: seen)
    end
  end.

Fixpoint accept_red_from (fuel : nat) (cur : list estate) (obs : list label) (i : nat) : nat + option nat :=
  match obs with
  | [] => inr (Some (length cur))
  | l :: t =>
    let next := flat_map (fun e => match step (snd e) l with Some s' => [mk_e s'] | None => [] end) cur in
    match closure_red fuel next [] with
    | None => inr None
    | Some [] => inl i
    | Some cl => accept_red_from fuel cl t (S i)
    end
  end.
Definition accepts_red (m : mode) (obs : list label) : nat + option nat :=
  match closure_red closure_fuel [mk_e (init m)] [] with
  | Some cl => accept_red_from closure_fuel cl obs 0
  | None => inr None
  end.

(* ---- lives of one Server value: start / Shutdown / start again / ...
   A life is over when the serve call has returned after a Shutdown and every
   Shutdown and start call has returned.  Server.init, run under the lock by
   the next successful start, re-creates srv.shutdown and srv.conns; the
   WaitGroup is a local of the serve call; the caller supplies a new listener /
   PacketConn.  The next life therefore begins in the initial state. *)
Definition sd_returned (p : sdpc) : bool := match p with SdDone _ => true | _ => false end.
Definition st_returned (p : stpc) : bool := match p with StPending | StFailed => false | _ => true end.
Definition epoch_over (s : state) : bool :=
  match ph s, serve s with Stopping, SReturned _ => true | _, _ => false end
  && forallb (fun x => sd_returned (snd x)) (sds s)
  && forallb (fun x => st_returned (snd x)) (sts s).
Definition restart (s : state) : state := init (md s).

(* states reachable with any number of restarts *)
Inductive reachable_r (m : mode) : state -> Prop :=
| rr_init : reachable_r m (init m)
| rr_step s l s' : reachable_r m s -> step s l = Some s' -> reachable_r m s'
| rr_restart s : reachable_r m s -> epoch_over s = true -> reachable_r m (restart s).

(* a history of several lives: each is an execution, all but the last are over *)
Fixpoint run_lives (s : state) (lives : list (list label)) : option state :=
  match lives with
  | [] => Some s
  | e :: t =>
    match run s e with
    | Some s' =>
      match t with
      | [] => Some s'
      | _ :: _ => if epoch_over s' then run_lives (restart s') t else None
      end
    | None => None
    end
  end.

(* the reduced acceptor, returning the states the log can end in *)
Fixpoint final_red_from (fuel : nat) (cur : list estate) (obs : list label) (i : nat) : nat + option (list estate) :=
  match obs with
  | [] => inr (Some cur)
  | l :: t =>
    let next := flat_map (fun e => match step (snd e) l with Some s' => [mk_e s'] | None => [] end) cur in
    match closure_red fuel next [] with
    | None => inr None
    | Some [] => inl i
    | Some cl => final_red_from fuel cl t (S i)
    end
  end.
Definition final_red (m : mode) (obs : list label) : nat + option (list estate) :=
  match closure_red closure_fuel [mk_e (init m)] [] with
  | Some cl => final_red_from closure_fuel cl obs 0
  | None => inr None
  end.

(* observed logs of consecutive lives of one Server value: every life must be a
   behaviour of the LTS from the initial state, and at every restart the
   previous life must be over in EVERY state its log can end in *)
Inductive lives_res := LOk | LRej (life idx : nat) | LNotOver (life : nat) | LFuel.
Fixpoint accepts_lives (m : mode) (lives : list (list label)) (k : nat) : lives_res :=
  match lives with
  | [] => LOk
  | e :: t =>
    match final_red m e with
    | inl i => LRej k i
    | inr None => LFuel
    | inr (Some fin) =>
      match t with
      | [] => LOk
      | _ :: _ => if forallb (fun x => epoch_over (snd x)) fin then accepts_lives m t (S k) else LNotOver k
      end
    end
  end.
