(* Proofs/XfrProofs.v — the termination automata of inAxfr / inIxfr deliver
   exactly the transmitted envelopes and stop at the closing SOA, for every
   way of cutting the record stream into envelopes; error clauses; TSIG chain. *)
From Coq Require Import Lia.
From Dns Require Import Base.Bytes Base.ListX Model.Xfr Spec.RfcXfr.
Open Scope N_scope.

(* ------------------------------------------------------------------ lists *)
Lemma app_tail_split {A} (p post pre : list A) (x : A) :
  p ++ post = pre ++ [x] -> post <> [] -> exists post', pre = p ++ post' /\ post = post' ++ [x].
Proof.
  intros H Hne. destruct (exists_last Hne) as [post' [y Hy]]. subst post.
  rewrite app_assoc in H. apply app_inj_tail in H. destruct H as [H1 H2]. subst.
  exists post'. split; reflexivity.
Qed.

Lemma concat_nonempty {A} (l : list (list A)) :
  Forall (fun e => e <> []) l -> l <> [] -> concat l <> [].
Proof.
  intros HF Hne. destruct l as [|e l]; [congruence|]. inversion HF; subst.
  cbn. destruct e; [congruence|]. discriminate.
Qed.

Lemma map_snoc_inv {A B} (f : A -> B) (es : list A) : forall pre x,
  map f es = pre ++ [x] -> exists esp el, es = esp ++ [el] /\ map f esp = pre /\ f el = x.
Proof.
  induction es as [|a es IH]; intros pre x H.
  - destruct pre; discriminate.
  - destruct pre as [|p pre]; cbn in H; injection H as H0 H1.
    + destruct es; [|discriminate]. exists [], a. auto.
    + destruct (IH pre x H1) as [esp [el [E1 [E2 E3]]]].
      exists (a :: esp), el. subst. auto.
Qed.

(* a split of a stream ending in x: all envelopes but the last, and the last
   envelope which ends in x *)
Lemma split_last {A} (envs : list (list A)) (b : list A) (x : A) :
  Forall (fun e => e <> []) envs -> concat envs = b ++ [x] ->
  exists pre l, envs = pre ++ [l ++ [x]] /\ concat pre ++ l = b /\ Forall (fun e => e <> []) pre.
Proof.
  intros HF HC.
  assert (Hne : envs <> []) by (intros ->; cbn in HC; destruct b; discriminate).
  destruct (exists_last Hne) as [pre [lst Hl]]. subst envs.
  apply Forall_app in HF. destruct HF as [HFp HFl]. inversion HFl as [|? ? Hlne _]; subst.
  destruct (exists_last Hlne) as [l [y Hy]]. subst lst.
  rewrite concat_app in HC. cbn in HC. rewrite app_nil_r, app_assoc in HC.
  apply app_inj_tail in HC. destruct HC as [HC1 HC2]. subst y.
  exists pre, l. auto.
Qed.

(* ------------------------------------------------- isSOAFirst / isSOALast *)
Lemma is_soa_last_snoc l x : is_soa_last (l ++ [x]) = r_soa x.
Proof.
  induction l as [|r l IH]; [reflexivity|].
  cbn [app is_soa_last]. destruct (l ++ [x]) eqn:E.
  - destruct l; discriminate.
  - exact IH.
Qed.

Lemma is_soa_last_nosoa l : nosoa l -> is_soa_last l = false.
Proof.
  induction l as [|r l IH]; intros H; [reflexivity|].
  inversion H; subst. cbn. destruct l; [assumption|]. apply IH. assumption.
Qed.

Lemma nosoa_app a b : nosoa (a ++ b) <-> nosoa a /\ nosoa b.
Proof. unfold nosoa. apply Forall_app. Qed.

Lemma nosoa_concat l : nosoa (concat l) -> Forall nosoa l.
Proof.
  induction l as [|e l IH]; intros H; [constructor|].
  cbn in H. apply nosoa_app in H. destruct H. constructor; auto.
Qed.

(* ------------------------------------------------------------------- scan *)
Lemma scan_app s x : forall a n y,
  scan s a n (x ++ y) =
  match scan s a n x with
  | (true, a', n') => (true, a', n')
  | (false, a', n') => scan s a' n' y
  end.
Proof.
  induction x as [|r x IH]; intros a n y; [reflexivity|].
  cbn [app scan]. destruct (r_soa r); [|apply IH].
  destruct (r_serial r =? s); [|apply IH].
  destruct ((a && Nat.eqb (S n) 2) || Nat.eqb (S n) 3)%bool; [reflexivity|apply IH].
Qed.

Lemma scan_nosoa s x : forall a n, nosoa x -> scan s a n x = (false, a, n).
Proof.
  induction x as [|r x IH]; intros a n H; [reflexivity|].
  inversion H; subst. cbn [scan]. rewrite H2. apply IH. assumption.
Qed.

Lemma scan_mono s x : forall a n st a' n', scan s a n x = (st, a', n') -> (n <= n')%nat.
Proof.
  induction x as [|r x IH]; intros a n st a' n' H; cbn [scan] in H.
  - inversion H; lia.
  - destruct (r_soa r); [|eauto].
    destruct (r_serial r =? s); [|eauto].
    match type of H with (if ?b then _ else _) = _ => destruct b end.
    + inversion H; lia.
    + apply IH in H. lia.
Qed.

Lemma scan_prefix_nostop s x y a n a' n' :
  scan s a n (x ++ y) = (false, a', n') ->
  exists a1 n1, scan s a n x = (false, a1, n1) /\ scan s a1 n1 y = (false, a', n').
Proof.
  rewrite scan_app. destruct (scan s a n x) as [[st a1] n1]. destruct st; [discriminate|].
  intros H. eauto.
Qed.

(* ===================================================== without TSIG ===== *)
Section NoTsig.
  Variable mac : Type.
  Variable verify : mac -> bool -> env -> vres mac.
  Variable qid qser : N.

  Definition good (e : env) : Prop := e_id e = qid /\ e_rcode e = 0.

  Notation axl := (axfr_loop mac verify false qid).
  Notation ixl := (ixfr_loop mac verify false qid qser).

  Lemma axl_irrel rs : forall f m to m' to', axl f m to rs = axl f m' to' rs.
  Proof.
    induction rs as [|r rs IH]; intros f m to m' to'; [reflexivity|].
    destruct r as [e|c]; [|reflexivity]. cbn [axfr_loop read_msg].
    rewrite (IH false m true m' true). reflexivity.
  Qed.

  Lemma ixl_irrel rs : forall n a s m to m' to', ixl n a s m to rs = ixl n a s m' to' rs.
  Proof.
    induction rs as [|r rs IH]; intros n a s m to m' to'; [reflexivity|].
    destruct r as [e|c]; [|reflexivity]. cbn [ixfr_loop read_msg].
    destruct (negb (e_id e =? qid)); [reflexivity|].
    destruct (negb (e_rcode e =? 0)); [reflexivity|].
    match goal with |- match ?X with _ => _ end = _ => destruct X as [its|s'] end; [reflexivity|].
    destruct (scan s' a n (e_rrs e)) as [[st a'] n']. destruct st; [reflexivity|].
    rewrite (IH n' a' s' m true m' true). reflexivity.
  Qed.

  Lemma good_id e : good e -> negb (e_id e =? qid) = false.
  Proof. intros [H _]. rewrite H, N.eqb_refl. reflexivity. Qed.
  Lemma good_rcode e : good e -> negb (e_rcode e =? 0) = false.
  Proof. intros [_ H]. rewrite H. reflexivity. Qed.

  (* ---- one iteration of inAxfr after the first envelope *)
  Lemma axl_step_go e rs m to : good e -> is_soa_last (e_rrs e) = false ->
    axl false m to (RMsg e :: rs) = ok_item (e_rrs e) :: axl false m to rs.
  Proof.
    intros Hg Hl. cbn [axfr_loop read_msg]. rewrite (good_id _ Hg), (good_rcode _ Hg), Hl.
    rewrite (axl_irrel rs false m true m to). reflexivity.
  Qed.
  Lemma axl_step_stop e rs m to : good e -> is_soa_last (e_rrs e) = true ->
    axl false m to (RMsg e :: rs) = [ok_item (e_rrs e)].
  Proof. intros Hg Hl. cbn [axfr_loop read_msg]. rewrite (good_id _ Hg), (good_rcode _ Hg), Hl. reflexivity. Qed.

  Lemma axl_prefix pre : forall rest m to,
    Forall good pre -> Forall (fun e => is_soa_last (e_rrs e) = false) pre ->
    axl false m to (map RMsg pre ++ rest) = map (fun e => ok_item (e_rrs e)) pre ++ axl false m to rest.
  Proof.
    induction pre as [|e pre IH]; intros rest m to Hg Hn; [reflexivity|].
    inversion Hg; subst. inversion Hn; subst. cbn [map app].
    rewrite axl_step_go by assumption. rewrite IH by assumption. reflexivity.
  Qed.

  (* ---- the first iteration of inAxfr *)
  Lemma axl_first_go e rs m to soa x :
    good e -> e_rrs e = soa :: x -> r_soa soa = true -> nosoa x ->
    axl true m to (RMsg e :: rs) = ok_item (e_rrs e) :: axl false m to rs.
  Proof.
    intros Hg He Hs Hx. cbn [axfr_loop read_msg].
    rewrite (good_id _ Hg), (good_rcode _ Hg), He. cbn [is_soa_first negb]. rewrite Hs. cbn [negb].
    rewrite (axl_irrel rs false m true m to).
    destruct x as [|y x]; [reflexivity|].
    cbn [length Nat.eqb].
    assert (Hl : is_soa_last (soa :: y :: x) = false).
    { change (is_soa_last (soa :: y :: x)) with (is_soa_last (y :: x)). apply is_soa_last_nosoa; assumption. }
    rewrite Hl. reflexivity.
  Qed.

  (* every proper prefix of a split of an AXFR stream keeps the transfer going *)
  Lemma axfr_nonterm soa body p sfx rest m to :
    r_soa soa = true -> nosoa body ->
    Forall good p -> Forall (fun e => e_rrs e <> []) p ->
    concat (map e_rrs p) ++ sfx = soa :: body -> p <> [] ->
    axl true m to (map RMsg p ++ rest) = map (fun e => ok_item (e_rrs e)) p ++ axl false m to rest.
  Proof.
    intros Hs Hb Hg Hne Hc Hp. destruct p as [|e p]; [congruence|].
    inversion Hg as [|? ? Hge Hgp]; subst. inversion Hne as [|? ? Hnee Hnep]; subst. cbn [map concat] in Hc.
    destruct (e_rrs e) as [|r x] eqn:He; [congruence|].
    cbn in Hc. injection Hc as Hr Hbody. subst r.
    rewrite <- app_assoc in Hbody. subst body.
    apply nosoa_app in Hb. destruct Hb as [Hx Hb]. apply nosoa_app in Hb. destruct Hb as [Hcp _].
    cbn [map app]. rewrite (axl_first_go e _ m to soa x) by assumption.
    rewrite axl_prefix; [rewrite He; reflexivity|assumption|].
    apply nosoa_concat in Hcp. clear - Hcp. induction p as [|e' p IH]; [constructor|].
    cbn in Hcp. inversion Hcp; subst. constructor; [apply is_soa_last_nosoa; assumption|auto].
  Qed.

  Lemma axfr_exact_good soa body soa' es rest m0 :
    axfr_wf soa body soa' -> Forall good es ->
    is_split (map e_rrs es) (axfr_stream soa body soa') ->
    in_axfr mac verify false qid m0 (map RMsg es ++ rest) = map (fun e => ok_item (e_rrs e)) es.
  Proof.
    intros [Hs [Hs' Hb]] Hg [Hne Hc]. unfold axfr_stream in Hc.
    change (soa :: body ++ [soa']) with ((soa :: body) ++ [soa']) in Hc.
    destruct (split_last _ _ _ Hne Hc) as [pre [l [He [Hcl Hpne]]]].
    (* bring the decomposition back to the envelope list *)
    assert (exists esp el, es = esp ++ [el] /\ map e_rrs esp = pre /\ e_rrs el = l ++ [soa']) as [esp [el [E1 [E2 E3]]]].
    { apply map_snoc_inv. assumption. }
    subst es pre. apply Forall_app in Hg. destruct Hg as [Hgp Hgl]. inversion Hgl as [|? ? H1 _]; subst.
    unfold in_axfr. rewrite map_app, <- app_assoc. cbn [map app].
    destruct esp as [|e1 esp].
    - (* everything in one envelope *)
      cbn in Hcl. subst l. cbn [app map axfr_loop read_msg].
      rewrite (good_id _ H1), (good_rcode _ H1), E3.
      assert (Hf : is_soa_first ((soa :: body) ++ [soa']) = true) by exact Hs.
      rewrite Hf. cbn [negb].
      replace (Nat.eqb (length ((soa :: body) ++ [soa'])) 1) with false
        by (cbn; rewrite app_length; cbn; rewrite Nat.add_1_r; reflexivity).
      rewrite is_soa_last_snoc, Hs'. reflexivity.
    - rewrite (axfr_nonterm soa body (e1 :: esp) l) ; try assumption; try discriminate.
      + rewrite axl_step_stop by (try assumption; rewrite E3, is_soa_last_snoc; assumption).
        rewrite map_app. reflexivity.
      + clear - Hpne. induction (e1 :: esp) as [|a t IH]; [constructor|].
        cbn in Hpne. inversion Hpne; subst. constructor; auto.
  Qed.

  (* early EOF / failed read at any envelope boundary before the closing SOA *)
  Lemma axfr_early_eof_good soa body soa' p post tail m0 c :
    axfr_wf soa body soa' -> Forall good (p ++ post) ->
    is_split (map e_rrs (p ++ post)) (axfr_stream soa body soa') -> post <> [] ->
    (tail = [] /\ c = "read"%string \/ exists t, tail = RFail c :: t) ->
    in_axfr mac verify false qid m0 (map RMsg p ++ tail) =
    map (fun e => ok_item (e_rrs e)) p ++ [mkItem [] (Some c)].
  Proof.
    intros [Hs [Hs' Hb]] Hg [Hne Hc] Hpost Htail. unfold axfr_stream in Hc.
    assert (Ht : forall f m to, axfr_loop mac verify false qid f m to tail = [mkItem [] (Some c)]).
    { intros. destruct Htail as [[-> ->]|[t ->]]; reflexivity. }
    unfold in_axfr. destruct p as [|e1 p]; [cbn [map app]; apply Ht|].
    rewrite map_app, concat_app in Hc.
    change (soa :: body ++ [soa']) with ((soa :: body) ++ [soa']) in Hc.
    assert (Hpn : concat (map e_rrs post) <> []).
    { apply concat_nonempty.
      - rewrite map_app in Hne. apply Forall_app in Hne. tauto.
      - destruct post; [congruence|discriminate]. }
    destruct (app_tail_split _ _ _ _ Hc Hpn) as [sfx [Hsfx _]].
    apply Forall_app in Hg. destruct Hg as [Hgp _].
    rewrite map_app in Hne. apply Forall_app in Hne. destruct Hne as [Hnp _].
    rewrite (axfr_nonterm soa body (e1 :: p) sfx); try assumption; try discriminate; auto.
    - rewrite Ht. reflexivity.
    - clear - Hnp. induction (e1 :: p) as [|a t IH]; [constructor|].
      cbn in Hnp. inversion Hnp; subst. constructor; auto.
  Qed.

  (* the deviation: records after the closing SOA in the same envelope keep
     inAxfr reading (it only looks at the last record of each envelope) *)
  Lemma axfr_trailing_keeps_reading e rs m to :
    good e -> is_soa_last (e_rrs e) = false ->
    axfr_loop mac verify false qid false m to (RMsg e :: rs) =
    ok_item (e_rrs e) :: axfr_loop mac verify false qid false m to rs.
  Proof. apply axl_step_go. Qed.

  (* --------------------------------------------------------------- IXFR *)
  Lemma ixl_step_S k a s e rs m to a' n' : good e ->
    scan s a (S k) (e_rrs e) = (false, a', n') ->
    ixl (S k) a s m to (RMsg e :: rs) = ok_item (e_rrs e) :: ixl n' a' s m to rs.
  Proof.
    intros Hg Hsc. cbn [ixfr_loop read_msg]. rewrite (good_id _ Hg), (good_rcode _ Hg), Hsc.
    rewrite (ixl_irrel rs n' a' s m true m to). reflexivity.
  Qed.
  Lemma ixl_step_S_stop k a s e rs m to a' n' : good e ->
    scan s a (S k) (e_rrs e) = (true, a', n') ->
    ixl (S k) a s m to (RMsg e :: rs) = [ok_item (e_rrs e)].
  Proof.
    intros Hg Hsc. cbn [ixfr_loop read_msg]. rewrite (good_id _ Hg), (good_rcode _ Hg), Hsc. reflexivity.
  Qed.
  Lemma ixl_step_0 a s0 e rs m to soa x st a' n' : good e ->
    e_rrs e = soa :: x -> r_soa soa = true -> serial_newer (r_serial soa) qser = true ->
    scan (r_serial soa) a 0 (soa :: x) = (st, a', n') ->
    ixl 0 a s0 m to (RMsg e :: rs) =
    if st then [ok_item (e_rrs e)] else ok_item (e_rrs e) :: ixl n' a' (r_serial soa) m to rs.
  Proof.
    intros Hg He Hs Hq Hsc. cbn [ixfr_loop read_msg]. rewrite (good_id _ Hg), (good_rcode _ Hg), He.
    cbn [is_soa_first hd_serial]. rewrite Hs, Hq. cbn [negb].
    rewrite Hsc. destruct st; [reflexivity|].
    rewrite (ixl_irrel rs n' a' _ m true m to). reflexivity.
  Qed.

  Lemma ixl_prefix s pre : forall k a rest m to a' n',
    Forall good pre ->
    scan s a (S k) (concat (map e_rrs pre)) = (false, a', n') ->
    ixl (S k) a s m to (map RMsg pre ++ rest) =
    map (fun e => ok_item (e_rrs e)) pre ++ ixl n' a' s m to rest /\ (1 <= n')%nat.
  Proof.
    induction pre as [|e pre IH]; intros k a rest m to a' n' Hg Hsc.
    - cbn in Hsc. inversion Hsc; subst. split; [reflexivity|lia].
    - inversion Hg as [|? ? Hge H3]; subst. cbn [map concat] in Hsc.
      apply scan_prefix_nostop in Hsc. destruct Hsc as [a1 [n1 [H1 H2']]].
      pose proof (scan_mono _ _ _ _ _ _ _ H1) as Hm.
      destruct n1 as [|k1]; [lia|].
      cbn [map app]. rewrite (ixl_step_S k a s e _ m to a1 (S k1)) by assumption.
      destruct (IH k1 a1 rest m to a' n' H3 H2') as [E Hn]. rewrite E. split; [reflexivity|assumption].
  Qed.

  (* the stream makes the inner loop stop exactly at its last record *)
  Definition stops_exactly (cur : N) (S : list rr) : Prop :=
    exists P x a n a' n', S = P ++ [x] /\ scan cur true 0 P = (false, a, n) /\
                          scan cur true 0 S = (true, a', n').

  Lemma ixfr_nonterm cur soa T p sfx rest m to a n :
    r_soa soa = true -> r_serial soa = cur -> serial_newer cur qser = true ->
    Forall good p -> Forall (fun e => e_rrs e <> []) p ->
    concat (map e_rrs p) ++ sfx = soa :: T -> p <> [] ->
    scan cur true 0 (concat (map e_rrs p)) = (false, a, n) ->
    ixl 0 true 0 m to (map RMsg p ++ rest) =
    map (fun e => ok_item (e_rrs e)) p ++ ixl n a cur m to rest /\ (1 <= n)%nat.
  Proof.
    intros Hs Hcur Hq Hg Hne Hc Hp Hsc. destruct p as [|e p]; [congruence|].
    inversion Hg as [|? ? Hge H3]; subst. inversion Hne as [|? ? Hnee Hnep]; subst. cbn [map concat] in Hc, Hsc.
    destruct (e_rrs e) as [|r x] eqn:He; [congruence|].
    cbn in Hc. injection Hc as Hr HT. subst r.
    apply scan_prefix_nostop in Hsc. destruct Hsc as [a1 [n1 [H1' H2']]].
    cbn [map app].
    rewrite (ixl_step_0 true 0 e _ m to soa x false a1 n1) by assumption.
    assert (Hn1 : (1 <= n1)%nat).
    { cbn in H1'. rewrite Hs, N.eqb_refl in H1'. cbn in H1'. apply scan_mono in H1'. assumption. }
    destruct n1 as [|k1]; [lia|].
    destruct (ixl_prefix (r_serial soa) p k1 a1 rest m to a n H3 H2') as [E Hn].
    rewrite E, He. split; [reflexivity|assumption].
  Qed.

  Lemma ixfr_exact_general cur soa T es rest m0 :
    r_soa soa = true -> r_serial soa = cur -> serial_newer cur qser = true ->
    stops_exactly cur (soa :: T) -> Forall good es ->
    is_split (map e_rrs es) (soa :: T) ->
    in_ixfr mac verify false qid qser m0 (map RMsg es ++ rest) = map (fun e => ok_item (e_rrs e)) es.
  Proof.
    intros Hs Hcur Hq [P [x [a [n [a' [n' [HS [HP HST]]]]]]]] Hg [Hne Hc].
    rewrite HS in Hc.
    destruct (split_last _ _ _ Hne Hc) as [pre [l [He [Hcl Hpne]]]].
    assert (exists esp el, es = esp ++ [el] /\ map e_rrs esp = pre /\ e_rrs el = l ++ [x]) as [esp [el [E1 [E2 E3]]]].
    { apply map_snoc_inv. assumption. }
    subst es pre. apply Forall_app in Hg. destruct Hg as [Hgp Hgl]. pose proof (Forall_inv Hgl) as Hgel.
    unfold in_ixfr. rewrite map_app, <- app_assoc. cbn [map app].
    rewrite HS in HST. rewrite <- Hcl in HP, HST.
    destruct esp as [|e1 esp].
    - cbn in Hcl, HST. cbn [app map].
      assert (exists x', l ++ [x] = soa :: x') as [x' Hx'].
      { rewrite <- HS in *. cbn in Hcl. subst l. rewrite <- HS. eauto. }
      rewrite Hx' in HST.
      rewrite (ixl_step_0 true 0 el _ m0 false soa x' true a' n'); try assumption.
      + reflexivity.
      + rewrite E3. assumption.
      + subst cur. assumption.
      + subst cur. assumption.
    - apply scan_prefix_nostop in HP. destruct HP as [a1 [n1 [HP1 HP2]]].
      destruct (ixfr_nonterm cur soa T (e1 :: esp) (l ++ [x]) (RMsg el :: rest) m0 false a1 n1) as [E Hn]; try assumption; try discriminate.
      + clear - Hpne. induction (e1 :: esp) as [|b t IH]; [constructor|].
        cbn in Hpne. inversion Hpne; subst. constructor; auto.
      + rewrite app_assoc, Hcl. symmetry. assumption.
      + rewrite E. destruct n1 as [|k1]; [lia|].
        rewrite <- app_assoc, scan_app, HP1, <- E3 in HST.
        rewrite (ixl_step_S_stop k1 a1 cur el _ m0 false a' n') by assumption.
        rewrite map_app. reflexivity.
  Qed.

  Lemma ixfr_early_eof_general cur soa T p post tail m0 c :
    r_soa soa = true -> r_serial soa = cur -> serial_newer cur qser = true ->
    stops_exactly cur (soa :: T) -> Forall good (p ++ post) ->
    is_split (map e_rrs (p ++ post)) (soa :: T) -> post <> [] ->
    (tail = [] /\ c = "read"%string \/ exists t, tail = RFail c :: t) ->
    in_ixfr mac verify false qid qser m0 (map RMsg p ++ tail) =
    map (fun e => ok_item (e_rrs e)) p ++ [mkItem [] (Some c)].
  Proof.
    intros Hs Hcur Hq [P [x [a [n [a' [n' [HS [HP HST]]]]]]]] Hg [Hne Hc] Hpost Htail.
    assert (Ht : forall k ax s m to, ixfr_loop mac verify false qid qser k ax s m to tail = [mkItem [] (Some c)]).
    { intros. destruct Htail as [[-> ->]|[t ->]]; reflexivity. }
    unfold in_ixfr. destruct p as [|e1 p]; [cbn [map app]; apply Ht|].
    rewrite map_app, concat_app, HS in Hc.
    assert (Hpn : concat (map e_rrs post) <> []).
    { apply concat_nonempty.
      - rewrite map_app in Hne. apply Forall_app in Hne. tauto.
      - destruct post; [congruence|discriminate]. }
    destruct (app_tail_split _ _ _ _ Hc Hpn) as [sfx [Hsfx _]].
    apply Forall_app in Hg. destruct Hg as [Hgp _].
    rewrite map_app in Hne. apply Forall_app in Hne. destruct Hne as [Hnp _].
    rewrite Hsfx in HP. apply scan_prefix_nostop in HP. destruct HP as [a1 [n1 [HP1 _]]].
    destruct (ixfr_nonterm cur soa T (e1 :: p) (sfx ++ [x]) tail m0 false a1 n1) as [E _]; try assumption; try discriminate.
    - clear - Hnp. induction (e1 :: p) as [|b t IH]; [constructor|].
      cbn in Hnp. inversion Hnp; subst. constructor; auto.
    - rewrite app_assoc, <- Hsfx. symmetry. assumption.
    - rewrite E, Ht. reflexivity.
  Qed.

  (* ---- the RFC streams make the loop stop exactly at the closing SOA *)
  Lemma scan_first cur soa t : r_soa soa = true -> r_serial soa = cur ->
    scan cur true 0 (soa :: t) = scan cur true 1 t.
  Proof. intros Hs Hc. cbn. rewrite Hs, Hc, N.eqb_refl. reflexivity. Qed.

  Lemma axfr_style_stops cur soa body soa' :
    axfr_wf soa body soa' -> r_serial soa = cur -> r_serial soa' = cur ->
    stops_exactly cur (soa :: body ++ [soa']).
  Proof.
    intros [Hs [Hs' Hb]] Hc Hc'. exists (soa :: body), soa', true, 1%nat, true, 2%nat.
    split; [reflexivity|]. split.
    - rewrite scan_first by assumption. apply scan_nosoa. assumption.
    - rewrite scan_first by assumption. rewrite scan_app, scan_nosoa by assumption.
      cbn. rewrite Hs', Hc', N.eqb_refl. reflexivity.
  Qed.

  Lemma scan_diff_mid cur d a : diff_shape d -> r_serial (d_old d) <> cur -> r_serial (d_new d) <> cur ->
    scan cur a 1 (flat_diff d) = (false, false, 1%nat).
  Proof.
    intros [Ho [Hn [Hd Ha]]] H1 H2. unfold flat_diff. cbn [scan]. rewrite Ho.
    apply N.eqb_neq in H1. rewrite H1. rewrite scan_app, scan_nosoa by assumption.
    cbn [scan]. rewrite Hn. apply N.eqb_neq in H2. rewrite H2. apply scan_nosoa. assumption.
  Qed.
  Lemma scan_diff_last cur d a : diff_shape d -> r_serial (d_old d) <> cur -> r_serial (d_new d) = cur ->
    scan cur a 1 (flat_diff d) = (false, false, 2%nat).
  Proof.
    intros [Ho [Hn [Hd Ha]]] H1 H2. unfold flat_diff. cbn [scan]. rewrite Ho.
    apply N.eqb_neq in H1. rewrite H1. rewrite scan_app, scan_nosoa by assumption.
    cbn [scan]. rewrite Hn, H2, N.eqb_refl. cbn. apply scan_nosoa. assumption.
  Qed.
  Lemma scan_diffs cur ds : wf_diffs cur ds -> forall a, scan cur a 1 (flat_diffs ds) = (false, false, 2%nat).
  Proof.
    induction 1 as [d Hd H1 H2|d ds Hd H1 H2 Hw IH]; intros a; unfold flat_diffs; cbn [map concat].
    - rewrite app_nil_r. apply scan_diff_last; assumption.
    - rewrite scan_app, scan_diff_mid by assumption. apply IH.
  Qed.

  Lemma ixfr_stream_stops cur soa ds soa' :
    ixfr_wf cur soa ds soa' -> stops_exactly cur (soa :: flat_diffs ds ++ [soa']).
  Proof.
    intros [Hs [Hc [Hs' [Hc' Hw]]]]. exists (soa :: flat_diffs ds), soa', false, 2%nat, false, 3%nat.
    split; [reflexivity|]. split.
    - rewrite scan_first by assumption. apply scan_diffs. assumption.
    - rewrite scan_first by assumption. rewrite scan_app, scan_diffs by assumption.
      cbn. rewrite Hs', Hc', N.eqb_refl. reflexivity.
  Qed.

  Lemma rfc1995_chain_wf from cur ds : rfc1995_chain from cur ds -> from < cur /\ wf_diffs cur ds.
  Proof.
    induction 1 as [from cur d Hd Ho Hn Hlt|from mid cur d ds Hd Ho Hn Hlt Hch [IHlt IHw]].
    - split; [assumption|]. apply wf_last; [assumption|lia|assumption].
    - split; [lia|]. apply wf_cons; [assumption|lia|lia|assumption].
  Qed.

  (* up to date: the first envelope starts with an SOA whose serial is not
     above the client's; inIxfr delivers that envelope and stops, whatever
     else the sender transmits *)
  Lemma ixfr_not_newer_stops e soa x rest m0 :
    good e -> e_rrs e = soa :: x -> r_soa soa = true -> serial_newer (r_serial soa) qser = false ->
    in_ixfr mac verify false qid qser m0 (RMsg e :: rest) = [ok_item (e_rrs e)].
  Proof.
    intros Hg He Hs Hq. unfold in_ixfr. cbn [ixfr_loop read_msg].
    rewrite (good_id _ Hg), (good_rcode _ Hg), He. cbn [is_soa_first hd_serial]. rewrite Hs, Hq. cbn [negb].
    reflexivity.
  Qed.
End NoTsig.

(* ======================================== error clauses, any TSIG mode === *)
Section Errors.
  Variable mac : Type.
  Variable verify : mac -> bool -> env -> vres mac.
  Variable tsig_on : bool.
  Variable qid qser : N.

  Notation axl := (axfr_loop mac verify tsig_on qid).
  Notation ixl := (ixfr_loop mac verify tsig_on qid qser).

  (* an item delivered without error comes from an envelope that was read,
     carries the query's ID and, for IXFR, RCODE 0; the first AXFR envelope has
     RCODE 0 and starts with an SOA *)
  Definition consumed_ok (chk : env -> Prop) (rs : list rd) (its : list item) : Prop :=
    exists es rest tl, rs = map RMsg es ++ rest /\
      its = map (fun e => ok_item (e_rrs e)) es ++ tl /\
      Forall chk es /\
      (tl = [] \/ exists rrs c, tl = [mkItem rrs (Some c)]).

  Lemma axl_items rs : forall f m to,
    consumed_ok (fun e => e_id e = qid /\ e_rcode e = 0) rs (axl f m to rs).
  Proof.
    induction rs as [|r rs IH]; intros f m to.
    - exists [], [], [mkItem [] (Some "read"%string)]. cbn. repeat split; eauto.
    - cbn [axfr_loop]. destruct (read_msg mac verify tsig_on m to r) as [[e m']|c] eqn:Hr.
      2:{ exists [], (r :: rs), [mkItem [] (Some c)]. cbn. repeat split; eauto. }
      assert (r = RMsg e) as -> by (destruct r; cbn in Hr; [destruct tsig_on; [destruct (verify m to e0)|]; inversion Hr; reflexivity|discriminate]).
      assert (Herr : forall c, consumed_ok (fun e => e_id e = qid /\ e_rcode e = 0) (RMsg e :: rs) [mkItem (e_rrs e) (Some c)]).
      { intros c. exists [], (RMsg e :: rs), [mkItem (e_rrs e) (Some c)]. cbn. repeat split; eauto. }
      destruct (negb (e_id e =? qid)) eqn:Hid; [apply Herr|].
      apply negb_false_iff, N.eqb_eq in Hid.
      destruct (negb (e_rcode e =? 0)) eqn:Hrc; [apply Herr|].
      apply negb_false_iff, N.eqb_eq in Hrc.
      assert (Hgo : consumed_ok (fun e => e_id e = qid /\ e_rcode e = 0) (RMsg e :: rs) (mkItem (e_rrs e) None :: axl false m' true rs)).
      { destruct (IH false m' true) as [es [rest [tl [A [B [C D]]]]]].
        exists (e :: es), rest, tl. cbn [map app]. split; [f_equal; exact A|]. split; [unfold ok_item at 1; f_equal; exact B|]. split; [constructor; auto|exact D]. }
      assert (Hstop : consumed_ok (fun e => e_id e = qid /\ e_rcode e = 0) (RMsg e :: rs) [mkItem (e_rrs e) None]).
      { exists [e], rs, []. cbn. repeat split; auto. }
      destruct f.
      + destruct (negb (is_soa_first (e_rrs e))); [apply Herr|].
        destruct (Nat.eqb (length (e_rrs e)) 1); [apply Hgo|].
        destruct (is_soa_last (e_rrs e)); [apply Hstop|apply Hgo].
      + destruct (is_soa_last (e_rrs e)); [apply Hstop|apply Hgo].
  Qed.

  Lemma ixl_items rs : forall n a s m to,
    consumed_ok (fun e => e_id e = qid /\ e_rcode e = 0) rs (ixl n a s m to rs).
  Proof.
    induction rs as [|r rs IH]; intros n a s m to.
    - exists [], [], [mkItem [] (Some "read"%string)]. cbn. repeat split; eauto.
    - cbn [ixfr_loop]. destruct (read_msg mac verify tsig_on m to r) as [[e m']|c] eqn:Hr.
      2:{ exists [], (r :: rs), [mkItem [] (Some c)]. cbn. repeat split; eauto. }
      assert (r = RMsg e) as -> by (destruct r; cbn in Hr; [destruct tsig_on; [destruct (verify m to e0)|]; inversion Hr; reflexivity|discriminate]).
      assert (Herr : forall c, consumed_ok (fun e => e_id e = qid /\ e_rcode e = 0) (RMsg e :: rs) [mkItem (e_rrs e) (Some c)]).
      { intros c. exists [], (RMsg e :: rs), [mkItem (e_rrs e) (Some c)]. cbn. repeat split; eauto. }
      destruct (negb (e_id e =? qid)) eqn:Hid; [apply Herr|].
      apply negb_false_iff, N.eqb_eq in Hid.
      destruct (negb (e_rcode e =? 0)) eqn:Hrc; [apply Herr|].
      apply negb_false_iff, N.eqb_eq in Hrc.
      assert (Hstop : consumed_ok (fun e => e_id e = qid /\ e_rcode e = 0) (RMsg e :: rs) [mkItem (e_rrs e) None]).
      { exists [e], rs, []. cbn. repeat split; auto. }
      match goal with |- consumed_ok _ _ (match ?X with _ => _ end) => destruct X as [its|s'] eqn:HX end.
      + destruct n; [|discriminate].
        destruct (negb (is_soa_first (e_rrs e))); [inversion HX; apply Herr|].
        destruct (negb (serial_newer (hd_serial (e_rrs e)) qser)); inversion HX. apply Hstop.
      + destruct (scan s' a n (e_rrs e)) as [[st a'] n']. destruct st; [apply Hstop|].
        destruct (IH n' a' s' m' true) as [es [rest [tl [A [B [C D]]]]]].
        exists (e :: es), rest, tl. cbn [map app]. split; [f_equal; exact A|]. split; [unfold ok_item at 1; f_equal; exact B|]. split; [constructor; auto|exact D].
  Qed.

  (* first envelope: non-SOA first record, non-zero RCODE, wrong ID *)
  Lemma axfr_first_errors e m' rs m0 :
    read_msg mac verify tsig_on m0 false (RMsg e) = VOk (e, m') ->
    in_axfr mac verify tsig_on qid m0 (RMsg e :: rs) =
    if negb (e_id e =? qid) then [mkItem (e_rrs e) (Some "id"%string)]
    else if negb (e_rcode e =? 0) then [mkItem (e_rrs e) (Some "rcode"%string)]
    else if negb (is_soa_first (e_rrs e)) then [mkItem (e_rrs e) (Some "soa"%string)]
    else in_axfr mac verify tsig_on qid m0 (RMsg e :: rs).
  Proof.
    intros Hr. unfold in_axfr. cbn [axfr_loop]. rewrite Hr.
    destruct (negb (e_id e =? qid)); [reflexivity|].
    destruct (negb (e_rcode e =? 0)); [reflexivity|].
    destruct (negb (is_soa_first (e_rrs e))); reflexivity.
  Qed.

  Lemma ixfr_first_errors e m' rs m0 :
    read_msg mac verify tsig_on m0 false (RMsg e) = VOk (e, m') ->
    in_ixfr mac verify tsig_on qid qser m0 (RMsg e :: rs) =
    if negb (e_id e =? qid) then [mkItem (e_rrs e) (Some "id"%string)]
    else if negb (e_rcode e =? 0) then [mkItem (e_rrs e) (Some "rcode"%string)]
    else if negb (is_soa_first (e_rrs e)) then [mkItem (e_rrs e) (Some "soa"%string)]
    else in_ixfr mac verify tsig_on qid qser m0 (RMsg e :: rs).
  Proof.
    intros Hr. unfold in_ixfr. cbn [ixfr_loop]. rewrite Hr.
    destruct (negb (e_id e =? qid)); [reflexivity|].
    destruct (negb (e_rcode e =? 0)); [reflexivity|].
    destruct (negb (is_soa_first (e_rrs e))); reflexivity.
  Qed.
End Errors.

(* ============================================================== TSIG ==== *)
Section Tsig.
  Variable mac : Type.
  Variable verify : mac -> bool -> env -> vres mac.
  Variable qid qser : N.

  Notation axl_on := (axfr_loop mac verify true qid).
  Notation axl_off := (axfr_loop mac verify false qid).
  Notation ixl_on := (ixfr_loop mac verify true qid qser).
  Notation ixl_off := (ixfr_loop mac verify false qid qser).

  (* with a provider configured the loops behave exactly as without one on the
     read list cut at the first envelope that fails the chain *)
  Lemma tsig_factor_axl rs : forall f m to,
    axl_on f m to rs = axl_off f m to (vfilter mac verify m to rs).
  Proof.
    induction rs as [|r rs IH]; intros f m to; [reflexivity|].
    destruct r as [e|c]; [|reflexivity].
    cbn [axfr_loop read_msg vfilter]. destruct (verify m to e) as [m'|c]; [|reflexivity].
    cbn [axfr_loop read_msg].
    rewrite (IH false m' true), (axl_irrel mac verify qid _ false m' true m true). reflexivity.
  Qed.

  Lemma tsig_factor_ixl rs : forall n a s m to,
    ixl_on n a s m to rs = ixl_off n a s m to (vfilter mac verify m to rs).
  Proof.
    induction rs as [|r rs IH]; intros n a s m to; [reflexivity|].
    destruct r as [e|c]; [|reflexivity].
    cbn [ixfr_loop read_msg vfilter]. destruct (verify m to e) as [m'|c]; [|reflexivity].
    cbn [ixfr_loop read_msg].
    destruct (negb (e_id e =? qid)); [reflexivity|].
    destruct (negb (e_rcode e =? 0)); [reflexivity|].
    match goal with |- match ?X with _ => _ end = _ => destruct X as [its|s'] end; [reflexivity|].
    destruct (scan s' a n (e_rrs e)) as [[st a'] n']. destruct st; [reflexivity|].
    rewrite (IH n' a' s' m' true), (ixl_irrel mac verify qid qser _ n' a' s' m' true m true). reflexivity.
  Qed.

  Lemma vfilter_chain es : forall m to rest, chain_ok mac verify m to es ->
    exists m' to', vfilter mac verify m to (map RMsg es ++ rest) = map RMsg es ++ vfilter mac verify m' to' rest
                   /\ chain_end mac verify m to es = Some (m', to').
  Proof.
    induction es as [|e es IH]; intros m to rest H.
    - exists m, to. split; reflexivity.
    - cbn in H. destruct H as [m1 [Hv Hc]]. destruct (IH m1 true rest Hc) as [m' [to' [A B]]].
      exists m', to'. cbn [map app vfilter chain_end]. rewrite Hv, A. split; [reflexivity|assumption].
  Qed.

  (* complete and error-free  ==>  every envelope consumed verified in chain *)
  Lemma axl_complete_verified rs : forall f m to,
    complete (axl_on f m to rs) = true ->
    exists es rest, rs = map RMsg es ++ rest /\ chain_ok mac verify m to es /\
                    axl_on f m to rs = map (fun e => ok_item (e_rrs e)) es.
  Proof.
    induction rs as [|r rs IH]; intros f m to H; [discriminate|].
    destruct r as [e|c]; [|discriminate].
    cbn [axfr_loop read_msg] in *. destruct (verify m to e) as [m'|c] eqn:Hv; [|discriminate].
    assert (Hgo : complete (mkItem (e_rrs e) None :: axl_on false m' true rs) = true ->
                  exists es rest, RMsg e :: rs = map RMsg es ++ rest /\ chain_ok mac verify m to es /\
                    mkItem (e_rrs e) None :: axl_on false m' true rs = map (fun e => ok_item (e_rrs e)) es).
    { intros Hc. cbn in Hc. destruct (IH false m' true Hc) as [es [rest [A [B C]]]].
      exists (e :: es), rest. cbn [map app chain_ok]. split; [f_equal; exact A|]. split; [eauto|]. unfold ok_item at 1. f_equal. exact C. }
    assert (Hstop : exists es rest, RMsg e :: rs = map RMsg es ++ rest /\ chain_ok mac verify m to es /\
                    [mkItem (e_rrs e) None] = map (fun e => ok_item (e_rrs e)) es).
    { exists [e], rs. cbn. repeat split; eauto. }
    destruct (negb (e_id e =? qid)); [discriminate|].
    destruct (negb (e_rcode e =? 0)); [discriminate|].
    destruct f.
    - destruct (negb (is_soa_first (e_rrs e))); [discriminate|].
      destruct (Nat.eqb (length (e_rrs e)) 1); [apply Hgo, H|].
      destruct (is_soa_last (e_rrs e)); [apply Hstop|apply Hgo, H].
    - destruct (is_soa_last (e_rrs e)); [apply Hstop|apply Hgo, H].
  Qed.

  Lemma ixl_complete_verified rs : forall n a s m to,
    complete (ixl_on n a s m to rs) = true ->
    exists es rest, rs = map RMsg es ++ rest /\ chain_ok mac verify m to es /\
                    ixl_on n a s m to rs = map (fun e => ok_item (e_rrs e)) es.
  Proof.
    induction rs as [|r rs IH]; intros n a s m to H; [discriminate|].
    destruct r as [e|c]; [|discriminate].
    cbn [ixfr_loop read_msg] in *. destruct (verify m to e) as [m'|c] eqn:Hv; [|discriminate].
    assert (Hstop : exists es rest, RMsg e :: rs = map RMsg es ++ rest /\ chain_ok mac verify m to es /\
                    [mkItem (e_rrs e) None] = map (fun e => ok_item (e_rrs e)) es).
    { exists [e], rs. cbn. repeat split; eauto. }
    destruct (negb (e_id e =? qid)); [discriminate|].
    destruct (negb (e_rcode e =? 0)); [discriminate|].
    match type of H with complete (match ?X with _ => _ end) = _ => destruct X as [its|s'] eqn:HX end.
    - destruct n; [|discriminate].
      destruct (negb (is_soa_first (e_rrs e))); [inversion HX; subst; discriminate|].
      destruct (negb (serial_newer (hd_serial (e_rrs e)) qser)); inversion HX. apply Hstop.
    - destruct (scan s' a n (e_rrs e)) as [[st a'] n']. destruct st; [apply Hstop|].
      cbn in H. destruct (IH n' a' s' m' true H) as [es [rest [A [B C]]]].
      exists (e :: es), rest. cbn [map app chain_ok]. split; [f_equal; exact A|]. split; [eauto|]. unfold ok_item at 1. f_equal. exact C.
  Qed.
End Tsig.

(* ============================================= statements used by Props == *)
Section Final.
  Variable mac : Type.
  Variable verify : mac -> bool -> env -> vres mac.
  Variable qid qser : N.

  Lemma vfilter_chain_end es : forall m to rest m' to',
    chain_end mac verify m to es = Some (m', to') ->
    vfilter mac verify m to (map RMsg es ++ rest) = map RMsg es ++ vfilter mac verify m' to' rest.
  Proof.
    induction es as [|e es IH]; intros m to rest m' to' H.
    - cbn in H. inversion H; subst. reflexivity.
    - cbn [chain_end] in H. cbn [map app vfilter]. destruct (verify m to e) as [m1|c]; [|discriminate].
      rewrite (IH m1 true rest m' to' H). reflexivity.
  Qed.

  Lemma chain_ok_end es : forall m to, chain_ok mac verify m to es ->
    exists m' to', chain_end mac verify m to es = Some (m', to').
  Proof.
    induction es as [|e es IH]; intros m to H.
    - exists m, to. reflexivity.
    - cbn in H. destruct H as [m1 [Hv Hc]]. cbn [chain_end]. rewrite Hv. apply IH. assumption.
  Qed.

  (* TSIG is transparent for a chain that verifies *)
  Lemma tsig_transparent_axfr es rest m0 m' to' :
    chain_end mac verify m0 false es = Some (m', to') ->
    in_axfr mac verify true qid m0 (map RMsg es ++ rest) =
    in_axfr mac verify false qid m0 (map RMsg es ++ vfilter mac verify m' to' rest).
  Proof.
    intros H. unfold in_axfr. rewrite tsig_factor_axl, (vfilter_chain_end es m0 false rest m' to' H). reflexivity.
  Qed.
  Lemma tsig_transparent_ixfr es rest m0 m' to' :
    chain_end mac verify m0 false es = Some (m', to') ->
    in_ixfr mac verify true qid qser m0 (map RMsg es ++ rest) =
    in_ixfr mac verify false qid qser m0 (map RMsg es ++ vfilter mac verify m' to' rest).
  Proof.
    intros H. unfold in_ixfr. rewrite tsig_factor_ixl, (vfilter_chain_end es m0 false rest m' to' H). reflexivity.
  Qed.

  Lemma tampered_axfr pre e rest m0 m to c :
    chain_end mac verify m0 false pre = Some (m, to) -> verify m to e = VErr c ->
    in_axfr mac verify true qid m0 (map RMsg pre ++ RMsg e :: rest) =
    in_axfr mac verify false qid m0 (map RMsg pre ++ [RFail c]).
  Proof.
    intros H Hv. rewrite (tsig_transparent_axfr pre _ m0 m to H). cbn [vfilter]. rewrite Hv. reflexivity.
  Qed.
  Lemma tampered_ixfr pre e rest m0 m to c :
    chain_end mac verify m0 false pre = Some (m, to) -> verify m to e = VErr c ->
    in_ixfr mac verify true qid qser m0 (map RMsg pre ++ RMsg e :: rest) =
    in_ixfr mac verify false qid qser m0 (map RMsg pre ++ [RFail c]).
  Proof.
    intros H Hv. rewrite (tsig_transparent_ixfr pre _ m0 m to H). cbn [vfilter]. rewrite Hv. reflexivity.
  Qed.

  (* --- AXFR *)
  Lemma axfr_exact_any tsig soa body soa' es rest m0 :
    axfr_wf soa body soa' ->
    Forall (fun e => e_id e = qid /\ e_rcode e = 0) es ->
    is_split (map e_rrs es) (axfr_stream soa body soa') ->
    (tsig = true -> chain_ok mac verify m0 false es) ->
    in_axfr mac verify tsig qid m0 (map RMsg es ++ rest) = map (fun e => mkItem (e_rrs e) None) es.
  Proof.
    intros Hw Hg Hs Hc. destruct tsig.
    - destruct (chain_ok_end es m0 false (Hc eq_refl)) as [m' [to' He]].
      rewrite (tsig_transparent_axfr es rest m0 m' to' He).
      apply (axfr_exact_good mac verify qid soa body soa'); assumption.
    - apply (axfr_exact_good mac verify qid soa body soa'); assumption.
  Qed.

  Lemma axfr_early_eof soa body soa' p post tail c m0 :
    axfr_wf soa body soa' ->
    Forall (fun e => e_id e = qid /\ e_rcode e = 0) (p ++ post) ->
    is_split (map e_rrs (p ++ post)) (axfr_stream soa body soa') -> post <> [] ->
    (tail = [] /\ c = "read"%string \/ exists t, tail = RFail c :: t) ->
    in_axfr mac verify false qid m0 (map RMsg p ++ tail) =
    map (fun e => mkItem (e_rrs e) None) p ++ [mkItem [] (Some c)].
  Proof. apply axfr_early_eof_good. Qed.

  (* --- IXFR *)
  Lemma ixfr_exact_any tsig cur soa ds soa' es rest m0 :
    ixfr_wf cur soa ds soa' -> serial_newer cur qser = true ->
    Forall (fun e => e_id e = qid /\ e_rcode e = 0) es ->
    is_split (map e_rrs es) (ixfr_stream soa ds soa') ->
    (tsig = true -> chain_ok mac verify m0 false es) ->
    in_ixfr mac verify tsig qid qser m0 (map RMsg es ++ rest) = map (fun e => mkItem (e_rrs e) None) es.
  Proof.
    intros Hw Hq Hg Hs Hc.
    assert (Hoff : forall rest', in_ixfr mac verify false qid qser m0 (map RMsg es ++ rest') =
                                map (fun e => mkItem (e_rrs e) None) es).
    { intros rest'. destruct Hw as [W1 [W2 [W3 [W4 W5]]]].
      apply (ixfr_exact_general mac verify qid qser cur soa (flat_diffs ds ++ [soa'])); try assumption.
      apply ixfr_stream_stops. repeat split; assumption. }
    destruct tsig; [|apply Hoff].
    destruct (chain_ok_end es m0 false (Hc eq_refl)) as [m' [to' He]].
    rewrite (tsig_transparent_ixfr es rest m0 m' to' He). apply Hoff.
  Qed.

  Lemma ixfr_fallback_any tsig cur soa body soa' es rest m0 :
    axfr_wf soa body soa' -> r_serial soa = cur -> r_serial soa' = cur -> serial_newer cur qser = true ->
    Forall (fun e => e_id e = qid /\ e_rcode e = 0) es ->
    is_split (map e_rrs es) (axfr_stream soa body soa') ->
    (tsig = true -> chain_ok mac verify m0 false es) ->
    in_ixfr mac verify tsig qid qser m0 (map RMsg es ++ rest) = map (fun e => mkItem (e_rrs e) None) es.
  Proof.
    intros Hw Hc1 Hc2 Hq Hg Hs Hc.
    assert (Hoff : forall rest', in_ixfr mac verify false qid qser m0 (map RMsg es ++ rest') =
                                map (fun e => mkItem (e_rrs e) None) es).
    { intros rest'. pose proof Hw as [W1 _].
      apply (ixfr_exact_general mac verify qid qser cur soa (body ++ [soa'])); try assumption.
      apply axfr_style_stops; assumption. }
    destruct tsig; [|apply Hoff].
    destruct (chain_ok_end es m0 false (Hc eq_refl)) as [m' [to' He]].
    rewrite (tsig_transparent_ixfr es rest m0 m' to' He). apply Hoff.
  Qed.

  Lemma ixfr_early_eof_diffs cur soa ds soa' p post tail c m0 :
    ixfr_wf cur soa ds soa' -> serial_newer cur qser = true ->
    Forall (fun e => e_id e = qid /\ e_rcode e = 0) (p ++ post) ->
    is_split (map e_rrs (p ++ post)) (ixfr_stream soa ds soa') -> post <> [] ->
    (tail = [] /\ c = "read"%string \/ exists t, tail = RFail c :: t) ->
    in_ixfr mac verify false qid qser m0 (map RMsg p ++ tail) =
    map (fun e => mkItem (e_rrs e) None) p ++ [mkItem [] (Some c)].
  Proof.
    intros Hw Hq Hg Hs Hp Ht. pose proof Hw as [W1 [W2 _]].
    apply (ixfr_early_eof_general mac verify qid qser cur soa (flat_diffs ds ++ [soa']) p post); try assumption.
    apply ixfr_stream_stops. assumption.
  Qed.

  Lemma ixfr_early_eof_fallback cur soa body soa' p post tail c m0 :
    axfr_wf soa body soa' -> r_serial soa = cur -> r_serial soa' = cur -> serial_newer cur qser = true ->
    Forall (fun e => e_id e = qid /\ e_rcode e = 0) (p ++ post) ->
    is_split (map e_rrs (p ++ post)) (axfr_stream soa body soa') -> post <> [] ->
    (tail = [] /\ c = "read"%string \/ exists t, tail = RFail c :: t) ->
    in_ixfr mac verify false qid qser m0 (map RMsg p ++ tail) =
    map (fun e => mkItem (e_rrs e) None) p ++ [mkItem [] (Some c)].
  Proof.
    intros Hw Hc1 Hc2 Hq Hg Hs Hp Ht. pose proof Hw as [W1 _].
    apply (ixfr_early_eof_general mac verify qid qser cur soa (body ++ [soa']) p post); try assumption.
    apply axfr_style_stops; assumption.
  Qed.

  Lemma ixfr_uptodate_any tsig e soa x rest m0 m' :
    read_msg mac verify tsig m0 false (RMsg e) = VOk (e, m') ->
    e_id e = qid -> e_rcode e = 0 ->
    e_rrs e = soa :: x -> r_soa soa = true -> serial_newer (r_serial soa) qser = false ->
    in_ixfr mac verify tsig qid qser m0 (RMsg e :: rest) = [mkItem (e_rrs e) None].
  Proof.
    intros Hr Hi Hc He Hs Hq. unfold in_ixfr. cbn [ixfr_loop]. rewrite Hr, Hi, Hc, N.eqb_refl, He.
    cbn [negb N.eqb is_soa_first hd_serial]. rewrite Hs, Hq. cbn [negb].
    reflexivity.
  Qed.

  (* --- items: what an error-free item certifies *)
  Lemma axfr_items_checked tsig m0 rs :
    exists es rest tl, rs = map RMsg es ++ rest /\
      in_axfr mac verify tsig qid m0 rs = map (fun e => mkItem (e_rrs e) None) es ++ tl /\
      Forall (fun e => e_id e = qid /\ e_rcode e = 0) es /\
      (tl = [] \/ exists rrs c, tl = [mkItem rrs (Some c)]).
  Proof. apply axl_items. Qed.
  Lemma ixfr_items_checked tsig m0 rs :
    exists es rest tl, rs = map RMsg es ++ rest /\
      in_ixfr mac verify tsig qid qser m0 rs = map (fun e => mkItem (e_rrs e) None) es ++ tl /\
      Forall (fun e => e_id e = qid /\ e_rcode e = 0) es /\
      (tl = [] \/ exists rrs c, tl = [mkItem rrs (Some c)]).
  Proof. apply ixl_items. Qed.

  Lemma axfr_complete_verified m0 rs :
    complete (in_axfr mac verify true qid m0 rs) = true ->
    exists es rest, rs = map RMsg es ++ rest /\ chain_ok mac verify m0 false es /\
      in_axfr mac verify true qid m0 rs = map (fun e => mkItem (e_rrs e) None) es.
  Proof. apply axl_complete_verified. Qed.
  Lemma ixfr_complete_verified m0 rs :
    complete (in_ixfr mac verify true qid qser m0 rs) = true ->
    exists es rest, rs = map RMsg es ++ rest /\ chain_ok mac verify m0 false es /\
      in_ixfr mac verify true qid qser m0 rs = map (fun e => mkItem (e_rrs e) None) es.
  Proof. apply ixl_complete_verified. Qed.

  Lemma tsig_factor_axfr m0 rs :
    in_axfr mac verify true qid m0 rs = in_axfr mac verify false qid m0 (vfilter mac verify m0 false rs).
  Proof. apply tsig_factor_axl. Qed.
  Lemma tsig_factor_ixfr m0 rs :
    in_ixfr mac verify true qid qser m0 rs = in_ixfr mac verify false qid qser m0 (vfilter mac verify m0 false rs).
  Proof. apply tsig_factor_ixl. Qed.

  (* deviations of the code from the property text, as facts about the model *)
  Lemma axfr_trailing_keeps_reading_first soa x t e rs m0 :
    e_id e = qid -> e_rcode e = 0 -> e_rrs e = soa :: x ++ t -> r_soa soa = true ->
    t <> [] -> nosoa t ->
    in_axfr mac verify false qid m0 (RMsg e :: rs) =
    mkItem (e_rrs e) None :: axfr_loop mac verify false qid false m0 true rs.
  Proof.
    intros Hi Hc He Hs Ht Hn. unfold in_axfr. cbn [axfr_loop read_msg].
    rewrite Hi, Hc, N.eqb_refl, He. cbn [negb N.eqb is_soa_first]. rewrite Hs. cbn [negb].
    destruct (exists_last Ht) as [t' [y Hy]]. subst t.
    apply nosoa_app in Hn. destruct Hn as [_ Hn]. inversion Hn as [|? ? Hy _]; subst.
    replace (soa :: x ++ t' ++ [y]) with ((soa :: x ++ t') ++ [y]) by (cbn; rewrite <- app_assoc; reflexivity).
    rewrite is_soa_last_snoc, Hy.
    destruct (Nat.eqb (length ((soa :: x ++ t') ++ [y])) 1); reflexivity.
  Qed.
End Final.

(* ---------------------------------------------------------- non-vacuity *)
Definition ex_soa (s : N) := mkRR true s 0.
Definition ex_a (p : N) := mkRR false 0 p.

Example ex_axfr_wf : axfr_wf (ex_soa 5) [ex_a 1; ex_a 2] (ex_soa 5).
Proof. repeat split; repeat constructor. Qed.
Example ex_axfr_split :
  is_split (map e_rrs [mkEnv 7 0 [ex_soa 5] None; mkEnv 7 0 [ex_a 1; ex_a 2] None; mkEnv 7 0 [ex_soa 5] None])
           (axfr_stream (ex_soa 5) [ex_a 1; ex_a 2] (ex_soa 5)).
Proof. split; [repeat constructor; discriminate|reflexivity]. Qed.
Example ex_axfr_good :
  Forall (fun e => e_id e = 7 /\ e_rcode e = 0)
         [mkEnv 7 0 [ex_soa 5] None; mkEnv 7 0 [ex_a 1; ex_a 2] None; mkEnv 7 0 [ex_soa 5] None].
Proof. repeat constructor. Qed.

Definition ex_ds := [mkDiff (ex_soa 3) [ex_a 1] (ex_soa 4) [ex_a 2]; mkDiff (ex_soa 4) [ex_a 2] (ex_soa 5) [ex_a 3]].
Example ex_rfc1995 : rfc1995_chain 3 5 ex_ds.
Proof.
  apply (ch_cons 3 4 5); [repeat split; repeat constructor|reflexivity|reflexivity|reflexivity|].
  apply ch_last; [repeat split; repeat constructor|reflexivity|reflexivity|reflexivity].
Qed.
Example ex_ixfr_wf : ixfr_wf 5 (ex_soa 5) ex_ds (ex_soa 5).
Proof. repeat split. exact (proj2 (rfc1995_chain_wf 3 5 ex_ds ex_rfc1995)). Qed.
Example ex_ixfr_split :
  is_split (map e_rrs [mkEnv 7 0 [ex_soa 5; ex_soa 3] None; mkEnv 7 0 [ex_a 1; ex_soa 4; ex_a 2; ex_soa 4; ex_a 2] None;
                       mkEnv 7 0 [ex_soa 5; ex_a 3; ex_soa 5] None])
           (ixfr_stream (ex_soa 5) ex_ds (ex_soa 5)).
Proof. split; [repeat constructor; discriminate|reflexivity]. Qed.

(* a signed three-envelope chain: query MAC tag 1, envelopes tagged 2,3,4 *)
Definition ex_signed : list env :=
  [mkEnv 7 0 [ex_soa 5] (Some (mkSig 0 1 false 2 false true));
   mkEnv 7 0 [ex_a 1; ex_a 2] (Some (mkSig 0 2 true 3 false true));
   mkEnv 7 0 [ex_soa 5] (Some (mkSig 0 3 true 4 false true))].
Example ex_chain_ok : chain_ok N verify_tag 1 false ex_signed.
Proof. cbn. eexists; split; [reflexivity|]. eexists; split; [reflexivity|]. eexists; split; [reflexivity|]. exact I. Qed.
Example ex_chain_end : chain_end N verify_tag 1 false (firstn 1 ex_signed) = Some (2, true).
Proof. reflexivity. Qed.
Example ex_tamper_fails :
  verify_tag 2 true (mkEnv 7 0 [ex_a 1; ex_a 2] (Some (mkSig 0 2 true 3 true true))) = VErr "sig"%string.
Proof. reflexivity. Qed.
Example ex_complete : complete (in_axfr N verify_tag true 7 1 (map RMsg ex_signed)) = true.
Proof. reflexivity. Qed.
Example ex_uptodate :
  in_ixfr N verify_tag false 7 5 0 [RMsg (mkEnv 7 0 [ex_soa 5] None)] = [mkItem [ex_soa 5] None].
Proof. reflexivity. Qed.

Example ex_serial_newer :
  serial_newer 5 3 = true /\ serial_newer 3 5 = false /\ serial_newer 5 5 = false /\
  serial_newer 1 4294967295 = true /\ serial_newer 4294967295 1 = false.
Proof. repeat split; reflexivity. Qed.
