(* Model/Dup.v — duplicate.go IsDuplicate with the per-type comparisons that
   tools/gotrans regenerates from zduplicate.go (Gen/Dups.v), and sanitize.go
   Dedup / normalizedString.  Definitions only. *)
From Dns Require Export Model.Msg.
From Dns Require Import Gen.Dups.
Open Scope N_scope.

Fixpoint find_dup (l : list tdup) (k : string) : option (list dcmp) :=
  match l with [] => None | t :: r => if String.eqb (dp_name t) k then Some (dp_cmps t) else find_dup r k end.

(* labels.go equal, on presentation strings *)
Definition name_eq_ci (a b : bytes) : bool := bytes_eqb (lower_bytes a) (lower_bytes b).

(* net.IP.Equal: 4-octet and 16-octet forms of the same IPv4 address are equal *)
Definition ip_norm (a : bytes) : bytes :=
  if (lenN a =? 16) && is_v4_mapped a then skipn 12 a else a.
Definition ip_equal (a b : bytes) : bool := bytes_eqb (ip_norm a) (ip_norm b).

Definition fval_eqb (a b : fval) : bool :=
  match a, b with
  | V_n x, V_n y => x =? y
  | V_s x, V_s y => bytes_eqb x y
  | V_enc x, V_enc y => bytes_eqb x y
  | V_b x, V_b y => bytes_eqb x y
  | _, _ => false
  end.
(* A field the record does not carry (the generated unpack() returned early on
   exhausted RDATA) is the Go zero value of its type: it compares as the zero
   value of the kind the other side holds; two absent fields are equal. *)
Definition zero_like (x : fval) : fval :=
  match x with
  | V_n _ => V_n 0 | V_s _ => V_s [] | V_ss _ => V_ss [] | V_b _ => V_b [] | V_enc _ => V_enc []
  | V_ns _ => V_ns [] | V_pairs _ => V_pairs [] | V_apl _ => V_apl []
  end.
Definition opt_fval_eqb (a b : option fval) : bool :=
  match a, b with
  | Some x, Some y => fval_eqb x y
  | None, None => true
  | Some x, None => fval_eqb x (zero_like x)
  | None, Some y => fval_eqb (zero_like y) y
  end.

(* list-valued fields: absent = nil *)
Definition kind_ss (o : option fval) : bool := match o with None | Some (V_ss _) => true | _ => false end.
Definition kind_ns (o : option fval) : bool := match o with None | Some (V_ns _) => true | _ => false end.
Definition kind_apl (o : option fval) : bool := match o with None | Some (V_apl _) => true | _ => false end.
Definition kind_pairs (o : option fval) : bool := match o with None | Some (V_pairs _) => true | _ => false end.
(* len(r1.F) != len(r2.F) *)
Definition len_rel (o1 o2 : option fval) : bool :=
  if kind_ss o1 && kind_ss o2 then Nat.eqb (length (as_ss o1)) (length (as_ss o2))
  else if kind_ns o1 && kind_ns o2 then Nat.eqb (length (as_ns o1)) (length (as_ns o2))
  else if kind_apl o1 && kind_apl o2 then Nat.eqb (length (as_apl o1)) (length (as_apl o2))
  else if kind_pairs o1 && kind_pairs o2 then Nat.eqb (length (as_pairs o1)) (length (as_pairs o2))
  else false.
(* for i := range r1.F { r1.F[i] != r2.F[i] } on []string / []uint16 *)
Definition each_rel (o1 o2 : option fval) : bool :=
  if kind_ss o1 && kind_ss o2 then list_eqb bytes_eqb (as_ss o1) (firstn (length (as_ss o1)) (as_ss o2))
  else if kind_ns o1 && kind_ns o2 then list_eqb N.eqb (as_ns o1) (firstn (length (as_ns o1)) (as_ns o2))
  else false.

(* areSVCBPairArraysEqual: both sorted by key, then keys and packed values compared;
   panics (index out of range) when b is shorter than a *)
Fixpoint pairs_eq_go (a b : list (N * bytes * N)) : res bool :=
  match a with
  | [] => Ok true
  | p :: ra =>
    match b with
    | [] => Panic
    | q :: rb =>
      if (pkey p =? pkey q) && bytes_eqb (snd (fst p)) (snd (fst q)) then pairs_eq_go ra rb else Ok false
    end
  end.

Definition apl_equals (p q : bool * N * bytes) : bool :=
  Bool.eqb (fst (fst p)) (fst (fst q)) && ip_equal (snd p) (snd q) && (snd (fst p) =? snd (fst q))
  && (lenN (snd p) =? lenN (snd q)).

(* one comparison of a generated isDuplicate: Some false = "return false" *)
Definition dup_cmp (c : dcmp) (v1 v2 : rdata) : res (option bool) :=
  let go (b : bool) : res (option bool) := if b then Ok None else Ok (Some false) in
  match c with
  | D_eq f => go (opt_fval_eqb (vget v1 f) (vget v2 f))
  | D_name f => go (name_eq_ci (as_s (vget v1 f)) (as_s (vget v2 f)))
  | D_len_eq f => go (len_rel (vget v1 f) (vget v2 f))
  | D_each_eq f => go (each_rel (vget v1 f) (vget v2 f))
  | D_each_name f =>
    go (list_eqb name_eq_ci (as_ss (vget v1 f)) (firstn (length (as_ss (vget v1 f))) (as_ss (vget v2 f))))
  | D_each_equals f =>
    go (list_eqb apl_equals (as_apl (vget v1 f)) (firstn (length (as_apl (vget v1 f))) (as_apl (vget v2 f))))
  | D_ip_equal f => go (ip_equal (as_b (vget v1 f)) (as_b (vget v2 f)))
  | D_pairs f =>
    do b <- pairs_eq_go (sort_pairs (as_pairs (vget v1 f))) (sort_pairs (as_pairs (vget v2 f)));
    go b
  | D_gateway tyf mask addrf hostf =>
    let ty := N.land (vget_n v1 tyf) mask in
    if (ty =? gw_v4) || (ty =? gw_v6) then go (ip_equal (as_b (vget v1 addrf)) (as_b (vget v2 addrf)))
    else if ty =? gw_host then go (name_eq_ci (as_s (vget v1 hostf)) (as_s (vget v2 hostf)))
    else Ok None
  | D_embedded _ => Ok None        (* flattened: the embedded type's own list is used *)
  | D_const b => Ok (Some b)
  | D_other _ => Err "untranslated"
  end.

Fixpoint dup_cmps (cs : list dcmp) (v1 v2 : rdata) : res bool :=
  match cs with
  | [] => Ok true
  | c :: r =>
    do o <- dup_cmp c v1 v2;
    match o with
    | Some b => Ok b
    | None => dup_cmps r v1 v2
    end
  end.

(* IsDuplicate(r1, r2) *)
Definition is_duplicate (r1 r2 : rr) : res bool :=
  if negb ((rr_class r1 =? rr_class r2) && (rr_type r1 =? rr_type r2) && name_eq_ci (rr_name r1) (rr_name r2))
  then Ok false
  else if negb (String.eqb (rr_kind r1) (rr_kind r2)) then Ok false      (* r2 is not a *T *)
  else match find_dup dups (rr_kind r1) with
       | Some cs => dup_cmps cs (rr_data r1) (rr_data r2)
       | None => Err "nodup"
       end.

(* ---------- sanitize.go ---------- *)
(* normalizedString on the text of r.String(): lower-case up to the second
   unescaped TAB, then cut the TTL (from the first TAB up to the second) *)
Fixpoint norm_scan (s : bytes) (i : nat) (esc : bool) (ttl_start : nat) (acc : bytes) : bytes * nat * nat * bytes :=
  (* returns (lower-cased prefix processed so far, ttlStart, ttlEnd, untouched rest) *)
  match s with
  | [] => (acc, ttl_start, O, [])
  | c :: r =>
    if c =? 92 then norm_scan r (S i) (negb esc) ttl_start (acc ++ [c])
    else if (c =? 9) && negb esc then
      match ttl_start with
      | O => norm_scan r (S i) esc i (acc ++ [c])
      | _ => (acc, ttl_start, i, s)       (* ttlEnd = i: the loop stops *)
      end
    else if (65 <=? c) && (c <=? 90) && negb esc then norm_scan r (S i) esc ttl_start (acc ++ [c + 32])
    else norm_scan r (S i) false ttl_start (acc ++ [c])
  end.
Definition normalized_string (s : bytes) : bytes :=
  let '(pre, ts, te, rest) := norm_scan s O false O [] in
  let b := pre ++ rest in
  (* copy(b[ttlStart:], b[ttlEnd:]); return b[:len(b)-(ttlEnd-ttlStart)] *)
  firstn ts b ++ skipn te b.

(* Dedup on (key, ttl) pairs, with a fresh map: the records kept (by index) and
   their final TTLs *)
Fixpoint first_index (keys : list bytes) (k : bytes) (i : nat) : option nat :=
  match keys with
  | [] => None
  | x :: r => if bytes_eqb x k then Some i else first_index r k (S i)
  end.
Fixpoint min_ttl_of (l : list (bytes * N)) (k : bytes) (acc : option N) : option N :=
  match l with
  | [] => acc
  | (x, t) :: r =>
    if bytes_eqb x k then min_ttl_of r k (match acc with Some a => Some (N.min a t) | None => Some t end)
    else min_ttl_of r k acc
  end.
(* the algorithm: m[key] = first record with that key, TTL lowered by later ones *)
Fixpoint dedup_fill (l : list (bytes * N)) (i : nat) (m : list (bytes * (nat * N))) : list (bytes * (nat * N)) :=
  match l with
  | [] => m
  | (k, t) :: r =>
    let fix upd (m : list (bytes * (nat * N))) : option (list (bytes * (nat * N))) :=
        match m with
        | [] => None
        | (k', (j, t')) :: mr =>
          if bytes_eqb k' k then Some ((k', (j, if t <? t' then t else t')) :: mr)
          else match upd mr with Some mr' => Some ((k', (j, t')) :: mr') | None => None end
        end in
    match upd m with
    | Some m' => dedup_fill r (S i) m'
    | None => dedup_fill r (S i) (m ++ [(k, (i, t))])
    end
  end.
Definition dedup (l : list (bytes * N)) : list (nat * N) :=
  map snd (dedup_fill l O []).
