(* Model/Len.v — msg.go domainNameLen / compressionLenSearch / escapedNameLen and
   the interpreter for the translated len() terms (Gen/Lens.v); RR_Header.len,
   OPT.len, Question.len written by hand.  Definitions only. *)
From Dns Require Export Model.Rdata Model.Labels.
Open Scope N_scope.

(* the length walk's compression "map" is a set of presentation suffixes *)
Definition lset := list bytes.
Definition ls_mem (c : lset) (k : bytes) : bool := existsb (bytes_eqb k) c.

(* compressionLenSearch: walk the label starts with NextLabel *)
Fixpoint cls_go (fuel : nat) (c : lset) (s : bytes) (off : nat) (msgoff : N) : lset * option nat :=
  match fuel with
  | O => (c, None)
  | S f =>
    let suf := skipn off s in
    if ls_mem c suf then (c, Some off)
    else
      let c' := if msgoff + N.of_nat off <? max_compression_offset then suf :: c else c in
      let '(off', fin) := next_label s off in
      if fin then (c', None) else cls_go f c' s off' msgoff
  end.
Definition compression_len_search (c : lset) (s : bytes) (msgoff : N) : lset * option nat :=
  cls_go (S (length s)) c s O msgoff.

Definition has_backslash (s : bytes) : bool := existsb (N.eqb 92) s.

(* domainNameLen(s, off, compression, compress); compression = None is a nil map *)
Definition domain_name_len (s : bytes) (off : N) (c : option lset) (compress : bool) : N * option lset :=
  if bytes_eqb s [] || bytes_eqb s [46] then (1, c)
  else
    let escaped := has_backslash s in
    let plain := if escaped then escaped_name_len s + 1 else lenN s + 1 in
    match c with
    | Some cs =>
      if compress || (off <? max_compression_offset) then
        let '(cs', hit) := compression_len_search cs s off in
        match hit, compress with
        | Some l, true =>
          (if escaped then escaped_name_len (firstn l s) + 2 else N.of_nat l + 2, Some cs')
        | _, _ => (plain, Some cs')
        end
      else (plain, c)
    | None => (plain, None)
    end.

Definition b64_decoded_len (n : N) : N := (n + 2) / 3 * 3.          (* DecodedLen(4*ceil(n/3)) *)
Definition b32_decoded_len (n : N) : N := (n * 8 + 4) / 5 * 5 / 8.  (* DecodedLen(ceil(8n/5)), no padding *)

(* one statement of a generated len(): l is the running length, off the record's offset *)
Definition len_term (v : rdata) (t : lterm) (off l : N) (c : option lset) : N * option lset :=
  match t with
  | L_const n => (l + n, c)
  | L_strlen1 f => (l + lenN (as_s (vget v f)) + 1, c)
  | L_len f => (l + lenN (as_s (vget v f)), c)
  | L_half f => (l + lenN (as_enc (vget v f)), c)                 (* len(hex text)/2 *)
  | L_b64 f => (l + b64_decoded_len (lenN (as_enc (vget v f))), c)
  | L_b32 f => (l + b32_decoded_len (lenN (as_enc (vget v f))), c)
  | L_b32text f => (l + (lenN (as_enc (vget v f)) * 8 + 4) / 5, c)   (* ceil(8n/5) characters *)
  | L_name f cp => let '(n, c') := domain_name_len (as_s (vget v f)) (off + l) c cp in (l + n, c')
  | L_txts f => (fold_left (fun a x => a + lenN x + 1) (as_ss (vget v f)) l, c)
  | L_names f cp =>
    fold_left (fun (a : N * option lset) x =>
                 let '(n, c') := domain_name_len x (off + fst a) (snd a) cp in (fst a + n, c'))
              (as_ss (vget v f)) (l, c)
  | L_elems_len f => (fold_left (fun a (p : bool * N * bytes) => a + 4 + (snd (fst p) + 7) / 8) (as_apl (vget v f)) l, c)
  | L_pairs f => (fold_left (fun a (p : N * bytes * N) => a + 4 + snd p) (as_pairs (vget v f)) l, c)
  | L_ifnonempty f n => (if lenN (as_b (vget v f)) =? 0 then l else l + n, c)
  | L_nsec f => (l + type_bitmap_len (as_ns (vget v f)), c)
  | L_gateway tyf mask hostf v4 v6 host =>
    let ty := N.land (vget_n v tyf) mask in
    (if ty =? v4 then l + 4 else if ty =? v6 then l + 16
     else if ty =? host then l + lenN (as_s (vget v hostf)) + 1 else l, c)
  end.
Fixpoint len_terms (v : rdata) (ts : list lterm) (off l : N) (c : option lset) : N * option lset :=
  match ts with
  | [] => (l, c)
  | t :: r => let '(l', c') := len_term v t off l c in len_terms v r off l' c'
  end.
