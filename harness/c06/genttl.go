package main

// C06, the TTL of the records of a $GENERATE line that states none.
//
// "$GENERATE expands to one record per step of its range" and "an omitted TTL takes
// the $TTL value, else the most recently stated TTL, else the configured default":
// the records a $GENERATE line without TTL stands for are records with an omitted
// TTL (BIND: "if not specified, the TTL is inherited using the normal TTL
// inheritance rules"). The generate stream only runs with no $TTL, no stated TTL
// and no configured default, where 3600 (the library's own default) is expected.

import (
	"fmt"

	. "verif/harness/common"
	z "verif/harness/zonecommon"
)

func generateTTLInheritance() {
	type tc struct {
		name   string
		deflt  *uint32
		text   string
		inc    string
		want   uint32
		source string
	}
	gl := "$GENERATE 1-2 h$ PTR p$\n"
	cases := []tc{
		{"ttl-directive", nil, "$TTL 7200\n" + gl, "", 7200, "$TTL"},
		{"ttl-directive-and-default", ptr(uint32(300)), "$TTL 7200\n" + gl, "", 7200, "$TTL"},
		{"configured-default", ptr(uint32(300)), gl, "", 300, "configured default"},
		{"stated-earlier", nil, "x 600 IN PTR y\n" + gl, "", 600, "most recently stated TTL"},
		{"ttl-directive-in-included-file", nil, "$INCLUDE inc.zone\n", "$TTL 7200\n" + gl, 7200, "$TTL"},
		{"ttl-directive-of-includer", nil, "$TTL 7200\n$INCLUDE inc.zone\n", gl, 7200, "$TTL"},
	}
	for _, t := range cases {
		c := cfgFor("example.org.", t.deflt, t.text)
		if t.inc != "" {
			c.File = "z/main.zone"
			c.Inc, c.HasFS = true, true
			c.Files = map[string]z.Recipe{"z/inc.zone": z.Lit(t.inc)}
		}
		o := z.Run(c, 1)
		stat["generate_ttl_inheritance_checked"]++
		n := 0
		for _, x := range o.Recs {
			if x.Type != 12 || len(x.Name) < 2 || x.Name[0] != 'h' {
				continue
			}
			n++
			if x.TTL != t.want {
				Viol("C06/generate/omitted-ttl-not-inherited",
					fmt.Sprintf("%s: a $GENERATE line without TTL yields records with TTL %d; an omitted TTL takes the %s = %d", t.name, x.TTL, t.source, t.want),
					c.JSON())
				break
			}
		}
		if n == 0 && o.Err != nil {
			Viol("C06/generate/omitted-ttl-not-inherited", t.name+": $GENERATE line without TTL refused: "+o.Err.Error(), c.JSON())
		}
	}
}
