// C09: Truncate makes a reply fit, keeps section prefixes and OPT, sets TC correctly.
package main

import (
	"net"
	"strings"

	"github.com/miekg/dns"
	. "verif/harness/common"
)

func main() { Main(run) }

var st = map[string]int{}

func rrTexts(rs []dns.RR) []string {
	var out []string
	for _, r := range rs {
		h := *r.Header()
		r.Header().Rdlength = 0
		t, _ := RRText(r)
		*r.Header() = h
		out = append(out, t)
	}
	return out
}

func isPrefix(a, b []string) bool {
	if len(a) > len(b) {
		return false
	}
	for i := range a {
		if a[i] != b[i] {
			return false
		}
	}
	return true
}

func withoutOpt(rs []dns.RR) (out []dns.RR, opt dns.RR) {
	idx := -1
	for i := len(rs) - 1; i >= 0; i-- {
		if rs[i].Header().Rrtype == dns.TypeOPT {
			idx = i
			break
		}
	}
	for i, r := range rs {
		if i == idx {
			opt = r
			continue
		}
		out = append(out, r)
	}
	return
}

func packedLen(m *dns.Msg) int {
	b, err := m.Pack()
	if err != nil {
		return -1
	}
	return len(b)
}

func checkTruncate(m *dns.Msg, size int, plain bool, emit bool) {
	st["truncate_checked"]++
	orig := m.Copy()
	before, canon := MsgText(orig)
	t := m.Copy()
	res := Protect(func() string { t.Truncate(size); return "ok" })
	in := map[string]string{"msg": before, "size": Itoa(size)}
	if res != "ok" {
		Viol("C09/panic", "Truncate panicked", in)
		return
	}
	after, _ := MsgText(t)
	if emit && canon && len(before) < 5000 {
		Emit("truncate", []string{before, Itoa(size)}, after)
		st["model_truncate"]++
	}
	eff := size
	if eff < 512 {
		eff = 512
	}
	// prefixes, order, OPT retained
	oa, on := rrTexts(orig.Answer), rrTexts(orig.Ns)
	oex, oopt := withoutOpt(orig.Extra)
	tex, topt := withoutOpt(t.Extra)
	ta, tn := rrTexts(t.Answer), rrTexts(t.Ns)
	if !isPrefix(ta, oa) || !isPrefix(tn, on) || !isPrefix(rrTexts(tex), rrTexts(oex)) {
		Viol("C09/not-a-prefix", "a section does not retain a prefix of its records", in)
	}
	if (oopt == nil) != (topt == nil) {
		Viol("C09/opt-not-retained", "the OPT record was dropped or invented", in)
	} else if oopt != nil {
		a, _ := RRText(oopt)
		b, _ := RRText(topt)
		if a != b {
			Viol("C09/opt-changed", "the OPT record changed", in)
		}
	}
	droppedA := len(ta) < len(oa)
	droppedN := len(tn) < len(on)
	droppedE := len(tex) < len(oex)
	if droppedA && (len(tn) > 0 || len(tex) > 0) || droppedN && len(tex) > 0 {
		Viol("C09/later-section-kept", "a record of a later section was kept after one of an earlier section was dropped", in)
	}
	dropped := droppedA || droppedN || droppedE
	if t.Truncated != (orig.Truncated || dropped) {
		Viol("C09/tc-wrong", "TC="+Btoa(t.Truncated)+" but original TC="+Btoa(orig.Truncated)+" dropped="+Btoa(dropped), in)
	}
	// fits whenever header, question and OPT alone fit
	base := new(dns.Msg)
	base.MsgHdr = orig.MsgHdr
	base.Question = orig.Question
	if oopt != nil {
		base.Extra = []dns.RR{oopt}
	}
	base.Compress = true
	if bl := packedLen(base); bl >= 0 && bl <= eff {
		pl := packedLen(t)
		if pl < 0 {
			st["pack_error"]++
		} else if pl > eff {
			Viol("C09/does-not-fit", "packed length "+Itoa(pl)+" > max(size,512)="+Itoa(eff), in)
		}
	}
	// a message that already fits keeps all its records
	uc := orig.Copy()
	uc.Compress = false
	if ul := uc.Len(); ul <= eff {
		if dropped {
			Viol("C09/fits-but-dropped", "records dropped although the message fits uncompressed", in)
		}
	}
	// exactness for plain messages: the first dropped record would not have fitted
	if plain && dropped {
		more := t.Copy()
		switch {
		case droppedA:
			more.Answer = append(more.Answer, orig.Answer[len(ta)])
		case droppedN:
			more.Ns = append(more.Ns, orig.Ns[len(tn)])
		default:
			ex, o := withoutOpt(more.Extra)
			ex = append(ex, oex[len(tex)])
			if o != nil {
				ex = append(ex, o)
			}
			more.Extra = ex
		}
		more.Compress = true
		if pl := packedLen(more); pl >= 0 && pl <= eff {
			Viol("C09/dropped-record-would-fit", "the first dropped record would have fitted ("+Itoa(pl)+" <= "+Itoa(eff)+")", in)
		}
	}
	// TSIG: untouched
}

func run(r *Rng, tier string, n int) {
	nmsg := 120
	if tier == "thorough" {
		nmsg = 4000
	}
	if n > 0 {
		nmsg = n
	}
	types := AllTypes()
	pool := &NamePool{R: r}
	common := []uint16{dns.TypeA, dns.TypeAAAA, dns.TypeNS, dns.TypeCNAME, dns.TypeMX, dns.TypeTXT, dns.TypeSOA, dns.TypePTR, dns.TypeSRV}
	for i := 0; i < nmsg; i++ {
		plain := i%2 == 0
		var m *dns.Msg
		if plain {
			m = new(dns.Msg)
			m.Response = true
			m.Id = uint16(r.Next())
			names := []string{"example.org.", "www.example.org.", "a.b.example.org.", "mail.example.net.", "x.y.z."}
			m.Question = []dns.Question{{Name: names[r.Intn(len(names))], Qtype: dns.TypeA, Qclass: 1}}
			mk := func() dns.RR {
				h := dns.RR_Header{Name: names[r.Intn(len(names))], Rrtype: 0, Class: 1, Ttl: 300}
				switch common[r.Intn(len(common))] {
				case dns.TypeA:
					h.Rrtype = dns.TypeA
					return &dns.A{Hdr: h, A: r.Bytes(4)}
				case dns.TypeAAAA:
					h.Rrtype = dns.TypeAAAA
					return &dns.AAAA{Hdr: h, AAAA: r.Bytes(16)}
				case dns.TypeNS:
					h.Rrtype = dns.TypeNS
					return &dns.NS{Hdr: h, Ns: names[r.Intn(len(names))]}
				case dns.TypeMX:
					h.Rrtype = dns.TypeMX
					return &dns.MX{Hdr: h, Preference: 10, Mx: names[r.Intn(len(names))]}
				case dns.TypeTXT:
					h.Rrtype = dns.TypeTXT
					return &dns.TXT{Hdr: h, Txt: []string{strings.Repeat("t", r.Intn(120))}}
				default:
					h.Rrtype = dns.TypeCNAME
					return &dns.CNAME{Hdr: h, Target: names[r.Intn(len(names))]}
				}
			}
			for j := 0; j < r.Intn(25); j++ {
				m.Answer = append(m.Answer, mk())
			}
			for j := 0; j < r.Intn(8); j++ {
				m.Ns = append(m.Ns, mk())
			}
			for j := 0; j < r.Intn(8); j++ {
				m.Extra = append(m.Extra, mk())
			}
			if r.Intn(2) == 0 {
				o := &dns.OPT{Hdr: dns.RR_Header{Name: ".", Rrtype: dns.TypeOPT, Class: 1232}}
				pos := r.Intn(len(m.Extra) + 1)
				m.Extra = append(m.Extra[:pos], append([]dns.RR{o}, m.Extra[pos:]...)...)
			}
			m.Truncated = r.Intn(6) == 0
		} else {
			m, _ = GenMsg(r, pool, types, 1, r.Intn(12), r.Intn(5), r.Intn(5), r.Intn(2) == 0, false)
		}
		// sizes: boundaries and the exact packed length of each prefix +-1
		sizes := []int{0, 511, 512, 513, 1232, 4096, 65535, r.Intn(2000)}
		full := m.Copy()
		full.Compress = true
		if pl := packedLen(full); pl > 0 {
			sizes = append(sizes, pl-1, pl, pl+1)
		}
		full.Compress = false
		if pl := packedLen(full); pl > 0 {
			sizes = append(sizes, pl-1, pl, pl+1)
		}
		for k := 0; k <= len(m.Answer) && k < 30; k++ {
			p := m.Copy()
			p.Answer = p.Answer[:k]
			p.Ns, p.Extra = nil, nil
			p.Compress = true
			if pl := packedLen(p); pl >= 512 {
				sizes = append(sizes, pl-1, pl, pl+1)
			}
		}
		for si, s := range sizes {
			if s < 0 {
				continue
			}
			checkTruncate(m, s, plain, (i < 40 && si%3 == 0) || (i%10 == 0 && si == 2))
		}
	}
	// records in ONE section only (answer, authority or additional), with and without OPT, owner names
	// equal to a long question name so that a record fits only when its owner is compressed; sizes at
	// the exact compressed length of every prefix
	for sec := 0; sec < 3; sec++ {
		for _, withOpt := range []bool{false, true} {
			for nrec := 1; nrec <= 4; nrec++ {
				qn := "a-rather-long-service-name.some-namespace.svc.cluster." + []string{"example.org.", "example.net."}[nrec%2]
				m := new(dns.Msg)
				m.Response = true
				m.Question = []dns.Question{{Name: qn, Qtype: dns.TypeTXT, Qclass: 1}}
				var recs []dns.RR
				for j := 0; j < nrec; j++ {
					recs = append(recs, &dns.TXT{Hdr: dns.RR_Header{Name: qn, Rrtype: dns.TypeTXT, Class: 1, Ttl: 60}, Txt: []string{strings.Repeat("a", 180+r.Intn(40)), strings.Repeat("b", 180+r.Intn(40))}})
				}
				set := func(x *dns.Msg, rs []dns.RR) {
					x.Answer, x.Ns, x.Extra = nil, nil, nil
					switch sec {
					case 0:
						x.Answer = rs
					case 1:
						x.Ns = rs
					default:
						x.Extra = rs
					}
					if withOpt {
						x.Extra = append(x.Extra, &dns.OPT{Hdr: dns.RR_Header{Name: ".", Rrtype: dns.TypeOPT, Class: 1232}})
					}
				}
				set(m, recs)
				sizes := []int{512}
				for j := 0; j <= nrec; j++ {
					p := m.Copy()
					set(p, append([]dns.RR{}, recs[:j]...))
					p.Compress = true
					if pl := packedLen(p); pl > 0 {
						sizes = append(sizes, pl-1, pl, pl+1)
					}
					p.Compress = false
					if pl := packedLen(p); pl > 0 {
						sizes = append(sizes, pl-1, pl, pl+1)
					}
				}
				for _, sz := range sizes {
					checkTruncate(m, sz, true, false)
				}
				st["single_section_messages"]++
			}
		}
	}
	// a large OPT (RFC 7830 padding): header + question + OPT at, just below and above max(size, 512), so
	// that nothing else fits ("the OPT record is always retained", also on the path where no record fits)
	for _, pad := range []int{300, 440, 454, 455, 456, 474, 500, 700} {
		for _, nans := range []int{0, 1, 30} {
			for _, optpos := range []int{0, 1} {
				m := new(dns.Msg)
				m.Response = true
				m.SetQuestion("padded.example.org.", dns.TypeA)
				for j := 0; j < nans; j++ {
					m.Answer = append(m.Answer, &dns.A{Hdr: dns.RR_Header{Name: "padded.example.org.", Rrtype: dns.TypeA, Class: 1, Ttl: 60}, A: []byte{192, 0, 2, byte(j)}})
				}
				o := &dns.OPT{Hdr: dns.RR_Header{Name: ".", Rrtype: dns.TypeOPT, Class: 1232}}
				o.Option = []dns.EDNS0{&dns.EDNS0_PADDING{Padding: make([]byte, pad)}}
				extra := []dns.RR{&dns.A{Hdr: dns.RR_Header{Name: "ns.example.org.", Rrtype: dns.TypeA, Class: 1, Ttl: 60}, A: []byte{192, 0, 2, 200}}}
				if optpos == 0 {
					m.Extra = append([]dns.RR{o}, extra...)
				} else {
					m.Extra = append(extra, o)
				}
				fixed := new(dns.Msg)
				fixed.SetQuestion("padded.example.org.", dns.TypeA)
				fixed.Extra = []dns.RR{o}
				fl := packedLen(fixed)
				for _, sz := range []int{0, 512, fl - 1, fl, fl + 1, fl + 16, 4096} {
					if sz >= 0 {
						checkTruncate(m, sz, true, false)
					}
				}
				st["large_opt_messages"]++
			}
		}
	}
	// several questions (all of them are fixed cost and all of their names are compression targets)
	for _, nq := range []int{2, 3} {
		for _, withOpt := range []bool{false, true} {
			m := new(dns.Msg)
			m.Response = true
			qs := []string{"host.example.", "a-second-and-rather-longer-question-name.example.net.", "third.question.example.org."}
			for i := 0; i < nq; i++ {
				m.Question = append(m.Question, dns.Question{Name: qs[i], Qtype: dns.TypeA, Qclass: 1})
			}
			for j := 0; j < 100; j++ {
				m.Answer = append(m.Answer, &dns.A{Hdr: dns.RR_Header{Name: qs[j%nq], Rrtype: dns.TypeA, Class: 1, Ttl: 60}, A: []byte{10, 0, byte(j >> 8), byte(j)}})
			}
			if withOpt {
				m.Extra = []dns.RR{&dns.OPT{Hdr: dns.RR_Header{Name: ".", Rrtype: dns.TypeOPT, Class: 1232}}}
			}
			for _, sz := range []int{0, 512, 513, 600, 777, 1000, 1232, 1500, 1699} {
				checkTruncate(m, sz, true, false)
			}
			st["multi_question_messages"]++
		}
	}
	// replies beyond 16 KiB: a name placed right at offset 16384 (the last possible pointer target) whose suffix
	// the later records share, sizes above 16384; and replies beyond 65535 octets at the largest sizes
	{
		m := new(dns.Msg)
		m.Response = true
		m.SetQuestion("q.example.org.", dns.TypeTXT)
		for j := 0; len(m.Answer) < 400; j++ {
			p := m.Copy()
			p.Compress = true
			if l := p.Len(); l > 16384-300 && l < 16384+40 {
				break
			}
			m.Answer = append(m.Answer, &dns.TXT{Hdr: dns.RR_Header{Name: "q.example.org.", Rrtype: dns.TypeTXT, Class: 1, Ttl: 60}, Txt: []string{strings.Repeat("f", 190+j%40)}})
		}
		for _, pad := range []int{0, 3, 7, 11, 12, 13, 20} {
			mm := m.Copy()
			mm.Answer = append(mm.Answer, &dns.TXT{Hdr: dns.RR_Header{Name: "q.example.org.", Rrtype: dns.TypeTXT, Class: 1, Ttl: 60}, Txt: []string{strings.Repeat("p", 200+pad)}})
			for j := 0; j < 200; j++ {
				mm.Answer = append(mm.Answer, &dns.A{Hdr: dns.RR_Header{Name: "h" + Itoa(j) + ".t.a-long-unshared-zone-name-for-the-test.invalid.", Rrtype: dns.TypeA, Class: 1, Ttl: 60}, A: []byte{10, 1, byte(j >> 8), byte(j)}})
			}
			for _, sz := range []int{16384, 17000, 20000, 24000} {
				checkTruncate(mm, sz, true, false)
			}
			st["beyond_16k_messages"]++
		}
		big := new(dns.Msg)
		big.Response = true
		big.SetQuestion("big.example.org.", dns.TypeTXT)
		for j := 0; j < 400; j++ {
			big.Answer = append(big.Answer, &dns.TXT{Hdr: dns.RR_Header{Name: "big.example.org.", Rrtype: dns.TypeTXT, Class: 1, Ttl: 60}, Txt: []string{strings.Repeat("x", 200)}})
		}
		for _, withOpt := range []bool{false, true} {
			b2 := big.Copy()
			if withOpt {
				b2.Extra = []dns.RR{&dns.OPT{Hdr: dns.RR_Header{Name: ".", Rrtype: dns.TypeOPT, Class: 4096}}}
			}
			for _, sz := range []int{65534, 65535} {
				checkTruncate(b2, sz, true, false)
			}
			st["beyond_64k_messages"]++
		}
	}
	// replies built from records that came OFF THE WIRE and were edited afterwards (the OPT of the request with
	// options added, answers with their RDATA changed): the header's Rdlength still holds the old wire length.
	// It is bookkeeping, not a measure: every clause must hold whatever it says (also 0, 1, 65535)
	for round := 0; round < 4; round++ {
		q := new(dns.Msg)
		q.SetQuestion("www.example.org.", dns.TypeA)
		q.SetEdns0(1232, true)
		q.IsEdns0().Option = []dns.EDNS0{&dns.EDNS0_COOKIE{Code: dns.EDNS0COOKIE, Cookie: "0011223344556677"}}
		qw, err := q.Pack()
		if err != nil {
			break
		}
		var req dns.Msg
		if req.Unpack(qw) != nil {
			break
		}
		opt := req.IsEdns0()
		opt.Option = append(opt.Option, &dns.EDNS0_NSID{Code: dns.EDNS0NSID, Nsid: strings.Repeat("ab", 13)}, &dns.EDNS0_PADDING{Padding: make([]byte, 40*round)})
		opt.Option[0].(*dns.EDNS0_COOKIE).Cookie = strings.Repeat("0f", 24)
		reply := new(dns.Msg)
		reply.SetReply(&req)
		for j := 0; j < 60; j++ {
			reply.Answer = append(reply.Answer, &dns.A{Hdr: dns.RR_Header{Name: "www.example.org.", Rrtype: dns.TypeA, Class: 1, Ttl: 60}, A: []byte{192, 0, 2, byte(j)}})
		}
		reply.Extra = []dns.RR{opt}
		for _, stale := range []int{-1, 0, 1, 65535} {
			rc := reply.Copy()
			if stale >= 0 {
				for _, sec := range [][]dns.RR{rc.Answer, rc.Extra} {
					for _, rr := range sec {
						rr.Header().Rdlength = uint16(stale)
					}
				}
			}
			for _, sz := range []int{512, 600, 900, 1232} {
				checkTruncate(rc.Copy(), sz, true, false)
			}
			st["edited_wire_records_messages"]++
		}
	}
	// records whose packed RDATA is EMPTY or minimal (TXT-like types with a nil / empty string list, NULL without
	// data, OPT without options), many of them: one octet of disagreement per record adds up
	for _, txt := range [][]string{nil, {}, {""}} {
		mm := new(dns.Msg)
		mm.Response = true
		mm.SetQuestion("empty.example.org.", dns.TypeTXT)
		for j := 0; j < 80; j++ {
			mm.Answer = append(mm.Answer, &dns.TXT{Hdr: dns.RR_Header{Name: "empty.example.org.", Rrtype: dns.TypeTXT, Class: 1, Ttl: 60}, Txt: txt})
			mm.Ns = append(mm.Ns, &dns.NULL{Hdr: dns.RR_Header{Name: "empty.example.org.", Rrtype: dns.TypeNULL, Class: 1, Ttl: 60}})
		}
		for _, sz := range []int{512, 700, 1232, 2000} {
			checkTruncate(mm.Copy(), sz, false, false)
		}
		st["empty_rdata_messages"]++
	}
	// many records of the rare types whose length methods have arithmetic of their own: APL with prefixes that are
	// not octet aligned, AMTRELAY with the discovery bit, NSEC3 with hashes of every length, SVCB with many values
	{
		mkAll := func() []dns.RR {
			var out []dns.RR
			hd := func(t uint16) dns.RR_Header {
				return dns.RR_Header{Name: "rare.example.org.", Rrtype: t, Class: 1, Ttl: 60}
			}
			for i := 0; i < 30; i++ {
				var pf []dns.APLPrefix
				for k := 0; k < 8; k++ {
					pf = append(pf, dns.APLPrefix{Network: net.IPNet{IP: net.IPv4(10, byte(i), 240, 0).To4(), Mask: net.CIDRMask(20, 32)}})
				}
				out = append(out, &dns.APL{Hdr: hd(dns.TypeAPL), Prefixes: pf})
			}
			return out
		}
		kinds := map[string][]dns.RR{"apl": mkAll()}
		var amt, n3 []dns.RR
		for i := 0; i < 60; i++ {
			amt = append(amt, &dns.AMTRELAY{Hdr: dns.RR_Header{Name: "rare.example.org.", Rrtype: dns.TypeAMTRELAY, Class: 1, Ttl: 60}, Precedence: 1, GatewayType: 0x82, GatewayAddr: net.ParseIP("2001:db8::15")})
			hl := 1 + i
			hash := strings.Repeat("0", (hl*8+4)/5)
			n3 = append(n3, &dns.NSEC3{Hdr: dns.RR_Header{Name: "rare.example.org.", Rrtype: dns.TypeNSEC3, Class: 1, Ttl: 60}, Hash: 1, Iterations: 1, SaltLength: 2, Salt: "abcd", HashLength: uint8(hl), NextDomain: hash, TypeBitMap: []uint16{1, 2}})
		}
		kinds["amtrelay"], kinds["nsec3"] = amt, n3
		for _, k := range []string{"apl", "amtrelay", "nsec3"} {
			mm := new(dns.Msg)
			mm.Response = true
			mm.SetQuestion("rare.example.org.", dns.TypeANY)
			mm.Answer = kinds[k]
			for _, sz := range []int{512, 600, 700, 1232} {
				checkTruncate(mm.Copy(), sz, false, false)
			}
			st["rare_type_messages"]++
		}
	}
	// TSIG: untouched
	m := new(dns.Msg)
	m.SetQuestion("example.org.", dns.TypeA)
	for i := 0; i < 60; i++ {
		m.Answer = append(m.Answer, &dns.TXT{Hdr: dns.RR_Header{Name: "example.org.", Rrtype: dns.TypeTXT, Class: 1}, Txt: []string{strings.Repeat("z", 100)}})
	}
	m.SetTsig("key.", dns.HmacSHA256, 300, 1700000000)
	b1, _ := MsgText(m)
	m.Truncate(512)
	b2, _ := MsgText(m)
	if b1 != b2 {
		Viol("C09/tsig-touched", "a message with TSIG was modified by Truncate", map[string]string{"msg": b1})
	}
	Emit("truncate", []string{b1, "512"}, b2)
	Stat(st)
}
