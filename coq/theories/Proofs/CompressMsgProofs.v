(* Proofs/CompressMsgProofs.v — lifting the compression-map theorems to records
   and messages (Model/Msg.v).

   packRR patches the two RDLENGTH octets after the RDATA has been written.
   [hinv holes T st] states the invariant for every buffer content that agrees
   with the current one outside [holes] (the RDLENGTH octets written so far):
   facts about laid names are only ever derived from freshly appended octets
   that are not holes and from earlier facts, so the patch cannot disturb them. *)
From Dns Require Import Base.ListX Model.Msg Gen.Layouts Spec.NameSpec Proofs.NameWireProofs
  Proofs.NameRoundtripProofs Proofs.CompressProofs Proofs.CompressFieldsProofs.
From Dns Require Proofs.LenMsgProofs.
From Coq Require Import Lia ZifyN ZifyNat ZifyBool.
Open Scope list_scope.
Open Scope N_scope.

(* ================= holes ================= *)
Definition agree (holes : list N) (a b : bytes) : Prop :=
  lenN a = lenN b /\ forall i, i < lenN a -> ~ In i holes -> nthN a i 0 = nthN b i 0.

Definition hinv (holes : list N) (T : nsites) (st : pn_state) : Prop :=
  opt_all cm_keys (pn_cm st) /\ (forall i, In i holes -> i < lenN (pn_out st)) /\
  forall out', agree holes (pn_out st) out' -> good out' (pn_cm st) T.

Lemma agree_refl holes a : agree holes a a.
Proof. split; auto. Qed.

Lemma nthN_app_r {A} (a b : list A) j d : nthN (a ++ b) (lenN a + j) d = nthN b j d.
Proof.
  unfold nthN, lenN. rewrite app_nth2 by lia. f_equal. lia.
Qed.

Lemma lenN_dropN {A} (l : list A) n : lenN (dropN n l) = lenN l - n.
Proof. unfold lenN, dropN. rewrite skipn_length. lia. Qed.

Lemma nthN_takeN {A} (l : list A) n i d : i < n -> nthN (takeN n l) i d = nthN l i d.
Proof.
  unfold nthN, takeN. intro H. rewrite <- (firstn_skipn (N.to_nat n) l) at 2.
  destruct (Nat.lt_ge_cases (N.to_nat i) (length (firstn (N.to_nat n) l))) as [L|L].
  - now rewrite app_nth1.
  - rewrite firstn_length in L. rewrite !nth_overflow; auto.
    + rewrite app_length, firstn_length, skipn_length. lia.
    + rewrite firstn_length. lia.
Qed.

(* a content that agrees with out ++ b outside holes lying inside out splits as
   pre ++ b with pre agreeing with out *)
Lemma agree_app_inv holes out b out'' :
  (forall i, In i holes -> i < lenN out) -> agree holes (out ++ b) out'' ->
  exists pre, out'' = pre ++ b /\ lenN pre = lenN out /\ agree holes out pre.
Proof.
  intros Hh [Hlen Hag]. rewrite lenN_app in Hlen.
  pose (pre := takeN (lenN out) out''). pose (suf := dropN (lenN out) out'').
  assert (Hsplit : out'' = pre ++ suf) by apply take_drop.
  assert (Hpl : lenN pre = lenN out) by (apply lenN_takeN; lia).
  assert (Hsl : lenN suf = lenN b) by (unfold suf; rewrite lenN_dropN; lia).
  assert (Hpre : forall i, i < lenN out -> nthN pre i 0 = nthN out'' i 0).
  { intros i Hi. unfold pre. now apply nthN_takeN. }
  clearbody pre suf.
  exists pre. split; [|split; [exact Hpl|]].
  - rewrite Hsplit. f_equal. apply (nth_ext _ _ 0 0).
    + unfold lenN in Hsl. lia.
    + intros n Hn.
      assert (E : nthN (out ++ b) (lenN out + N.of_nat n) 0 = nthN out'' (lenN out + N.of_nat n) 0).
      { apply Hag.
        - rewrite lenN_app. unfold lenN in *. lia.
        - intro Hin. apply Hh in Hin. lia. }
      rewrite nthN_app_r in E. rewrite Hsplit, <- Hpl, nthN_app_r in E.
      unfold nthN in E. rewrite Nat2N.id in E. now rewrite E.
  - split; [now rewrite Hpl|]. intros i Hi Hni.
    rewrite Hpre by exact Hi. rewrite <- (nthN_app_l out b) by exact Hi.
    apply Hag; [rewrite lenN_app; lia|exact Hni].
Qed.

(* same, when the appended octets may themselves be holes *)
Lemma agree_app_inv_any holes newholes out b out'' :
  (forall i, In i newholes -> lenN out <= i) ->
  agree (newholes ++ holes) (out ++ b) out'' ->
  exists pre b', out'' = pre ++ b' /\ lenN pre = lenN out /\ agree holes out pre.
Proof.
  intros Hn [Hlen Hag]. rewrite lenN_app in Hlen.
  exists (takeN (lenN out) out''), (dropN (lenN out) out'').
  assert (Hpl : lenN (takeN (lenN out) out'') = lenN out) by (apply lenN_takeN; lia).
  split; [apply take_drop|]. split; [exact Hpl|].
  split; [now rewrite Hpl|]. intros i Hi Hni.
  rewrite nthN_takeN by exact Hi. rewrite <- (nthN_app_l out b) by exact Hi.
  apply Hag; [rewrite lenN_app; lia|].
  intro Hin. apply in_app_or in Hin. destruct Hin as [Hin|Hin]; [apply Hn in Hin; lia|contradiction].
Qed.

Lemma hinv_step holes T st st' new : hinv holes T st -> step st st' new -> hinv holes (T ++ new) st'.
Proof.
  intros [Hk [Hh Hg]] Hs. destruct (Hs Hk) as [Hk' [_ [b [E G]]]].
  split; [exact Hk'|]. split.
  - intros i Hi. rewrite E, lenN_app. specialize (Hh i Hi). lia.
  - intros out'' Hag. rewrite E in Hag.
    destruct (agree_app_inv holes _ b out'' Hh Hag) as [pre [-> [Hl Hap]]].
    apply G; [exact Hl|]. apply Hg, Hap.
Qed.

Lemma hinv_emit_holes holes T st b newholes :
  hinv holes T st ->
  (forall i, In i newholes -> lenN (pn_out st) <= i < lenN (pn_out st) + lenN b) ->
  hinv (newholes ++ holes) T (pemit st b).
Proof.
  intros [Hk [Hh Hg]] Hn. split; [exact Hk|]. cbn [pemit pn_out pn_cm]. split.
  - intros i Hi. rewrite lenN_app. apply in_app_or in Hi. destruct Hi as [Hi|Hi].
    + apply Hn in Hi. lia.
    + apply Hh in Hi. lia.
  - intros out'' Hag.
    destruct (agree_app_inv_any holes newholes (pn_out st) b out'') as [pre [b' [-> [Hl Hap]]]]; [|exact Hag|].
    + intros i Hi. apply Hn in Hi. lia.
    + apply good_app. apply Hg, Hap.
Qed.

Lemma set_at_length l i x : length (set_at l i x) = length l.
Proof. revert i; induction l as [|y l IH]; intros [|i]; cbn; auto. Qed.

Lemma set_at_nth_other l i x j d : j <> i -> nth j (set_at l i x) d = nth j l d.
Proof.
  revert i j; induction l as [|y l IH]; intros [|i] [|j] H; cbn; auto; try congruence.
Qed.

Lemma hinv_patch holes T st i x : hinv holes T st -> In (N.of_nat i) holes ->
  hinv holes T {| pn_out := set_at (pn_out st) i x; pn_cm := pn_cm st |}.
Proof.
  intros [Hk [Hh Hg]] Hin. split; [exact Hk|]. cbn [pn_out pn_cm].
  assert (Hl : lenN (set_at (pn_out st) i x) = lenN (pn_out st)) by (unfold lenN; now rewrite set_at_length).
  split; [intros j Hj; rewrite Hl; auto|].
  intros out'' [Hlen Hag]. apply Hg. split; [now rewrite <- Hl|].
  intros j Hj Hnj. rewrite <- Hag; [|now rewrite Hl|exact Hnj].
  unfold nthN. symmetry. apply set_at_nth_other. intro E. apply Hnj. replace j with (N.of_nat i) by lia. exact Hin.
Qed.

Definition minv (T : nsites) (st : pn_state) : Prop := exists holes, hinv holes T st.

Lemma minv_step T st st' new : minv T st -> step st st' new -> minv (T ++ new) st'.
Proof. intros [holes H] Hs. exists holes. eapply hinv_step; eauto. Qed.

Lemma minv_good T st : minv T st -> good (pn_out st) (pn_cm st) T /\ opt_all cm_keys (pn_cm st).
Proof. intros [holes [Hk [_ Hg]]]. split; [apply Hg, agree_refl|exact Hk]. Qed.

Lemma minv_init out cmo : (cmo = None \/ cmo = Some []) -> minv [] {| pn_out := out; pn_cm := cmo |}.
Proof.
  intro H. exists []. split; [|split].
  - destruct H as [->| ->]; cbn; [exact I|]. intros k p [].
  - intros i [].
  - intros out' _. split; [|constructor]. destruct H as [->| ->]; cbn; [exact I|]. intros k p ls [].
Qed.

Lemma step_mono st st' new : step st st' new -> opt_all cm_keys (pn_cm st) ->
  opt_all cm_keys (pn_cm st') /\ (pn_cm st = None -> pn_cm st' = None) /\
  lenN (pn_out st) <= lenN (pn_out st').
Proof.
  intros Hs Hk. destruct (Hs Hk) as [Hk' [Hn [b [E _]]]]. split; [exact Hk'|]. split; [exact Hn|].
  rewrite E, lenN_app. lia.
Qed.

(* ================= records ================= *)
Lemma pack_fixed_pemit b cap st st' : pack_fixed b cap st = Ok st' -> st' = pemit st b /\ poff st' <= cap.
Proof.
  unfold pack_fixed. destruct (cap <? poff st + lenN b) eqn:E; [discriminate|]. intro H. injection H as <-.
  split; [reflexivity|]. unfold poff, pemit in *. cbn [pn_out]. rewrite lenN_app. lia.
Qed.

(* the header when the buffer is not exactly full: the owner name, eight fixed
   octets, and the two RDLENGTH octets written as zero *)
Lemma pack_header_inv r cap cp st st1 :
  (poff st =? cap) = false -> pack_header r cap cp st = Ok st1 ->
  exists std, step st std (name_site (rr_name r) st) /\ st1 = pemit std (u16 0) /\ poff st1 <= cap.
Proof.
  intros Hc H. unfold pack_header in H. rewrite Hc in H.
  destruct (pack_name (rr_name r) cap cp st) as [sa| | |] eqn:Ea; cbn [bind] in H; try discriminate.
  destruct (pack_fixed (u16 (rr_type r)) cap sa) as [sb| | |] eqn:Eb; cbn [bind] in H; try discriminate.
  destruct (pack_fixed (u16 (rr_class r)) cap sb) as [sc| | |] eqn:Ec; cbn [bind] in H; try discriminate.
  destruct (pack_fixed (u32 (rr_ttl r)) cap sc) as [sd| | |] eqn:Ed; cbn [bind] in H; try discriminate.
  exists sd. destruct (pack_fixed_pemit _ _ _ _ H) as [E Hle]. split; [|split; [exact E|exact Hle]].
  replace (name_site (rr_name r) st) with (((name_site (rr_name r) st ++ []) ++ []) ++ [])
    by (now rewrite !app_nil_r).
  eapply step_trans; [eapply step_trans; [eapply step_trans|]|].
  - exact (step_name _ _ _ _ _ Ea).
  - exact (step_emits _ _ _ _ (emits_fixed _) Eb).
  - exact (step_emits _ _ _ _ (emits_fixed _) Ec).
  - exact (step_emits _ _ _ _ (emits_fixed _) Ed).
Qed.

Definition header_sites (r : rr) (cap : N) (st : pn_state) : nsites :=
  if poff st =? cap then [] else name_site (rr_name r) st.

Lemma step_header r cap cp st st1 : pack_header r cap cp st = Ok st1 -> step st st1 (header_sites r cap st).
Proof.
  intro H. unfold header_sites. destruct (poff st =? cap) eqn:Hc.
  - unfold pack_header in H. rewrite Hc in H. injection H as <-. apply step_refl.
  - destruct (pack_header_inv r cap cp st st1 Hc H) as [std [Hs [-> _]]].
    rewrite <- (app_nil_r (name_site _ _)). eapply step_trans; [exact Hs|apply step_pemit].
Qed.

Definition rr_sites (r : rr) (cap : N) (cp : bool) (st : pn_state) : nsites :=
  match find_layout layouts (rr_kind r) with
  | None => []
  | Some L =>
    header_sites r cap st ++
    match pack_header r cap cp st with
    | Ok st1 => fields_sites (rr_data r) (tl_pack L) cap st1
    | _ => []
    end
  end.

Lemma pack_rr_mono r cap cp st st' : opt_all cm_keys (pn_cm st) -> pack_rr r cap cp st = Ok st' ->
  opt_all cm_keys (pn_cm st') /\ (pn_cm st = None -> pn_cm st' = None) /\
  lenN (pn_out st) <= lenN (pn_out st').
Proof.
  intros Hk H. unfold pack_rr in H. destruct (find_layout layouts (rr_kind r)) as [L|]; [|discriminate].
  destruct (pack_header r cap cp st) as [st1| | |] eqn:E1; cbn [bind] in H; try discriminate.
  destruct (pack_fields (rr_data r) (tl_pack L) cap st1) as [st2| | |] eqn:E2; cbn [bind] in H; try discriminate.
  destruct (65535 <? poff st2 - poff st1); [discriminate|]. destruct (poff st1 <? 2); [discriminate|].
  injection H as <-. cbn [pn_out pn_cm].
  destruct (step_mono _ _ _ (step_header _ _ _ _ _ E1) Hk) as [Hk1 [Hn1 Hl1]].
  destruct (step_mono _ _ _ (step_fields _ _ _ _ _ E2) Hk1) as [Hk2 [Hn2 Hl2]].
  split; [exact Hk2|]. split; [auto|]. unfold lenN in *. rewrite !set_at_length. lia.
Qed.

Lemma pack_rr_minv T r cap cp st st' :
  minv T st -> (poff st =? cap) = false -> pack_rr r cap cp st = Ok st' ->
  minv (T ++ rr_sites r cap cp st) st'.
Proof.
  intros [holes Hi] Hc H. unfold pack_rr in H. unfold rr_sites, header_sites. rewrite Hc.
  destruct (find_layout layouts (rr_kind r)) as [L|]; [|discriminate].
  destruct (pack_header r cap cp st) as [st1| | |] eqn:E1; cbn [bind] in H; try discriminate.
  destruct (pack_fields (rr_data r) (tl_pack L) cap st1) as [st2| | |] eqn:E2; cbn [bind] in H; try discriminate.
  destruct (65535 <? poff st2 - poff st1); [discriminate|]. destruct (poff st1 <? 2) eqn:H2; [discriminate|].
  injection H as <-.
  destruct (pack_header_inv r cap cp st st1 Hc E1) as [std [Hs [E _]]].
  pose proof (hinv_step _ _ _ _ _ Hi Hs) as Hd.
  set (p := lenN (pn_out std)) in *.
  assert (Hholes : hinv ([p; p + 1] ++ holes) (T ++ name_site (rr_name r) st) st1).
  { rewrite E. apply hinv_emit_holes; [exact Hd|].
    intros i [<-|[<-|[]]]; fold p; unfold u16; rewrite !lenN_cons, lenN_nil; lia. }
  assert (Hp1 : poff st1 = p + 2).
  { rewrite E. unfold poff, pemit, u16. cbn [pn_out]. rewrite lenN_app, !lenN_cons, lenN_nil. fold p. lia. }
  pose proof (hinv_step _ _ _ _ _ Hholes (step_fields _ _ _ _ _ E2)) as H2'.
  exists ([p; p + 1] ++ holes). rewrite app_assoc.
  apply (hinv_patch _ _ {| pn_out := set_at (pn_out st2) (N.to_nat (poff st1 - 2)) ((poff st2 - poff st1) / 256);
                           pn_cm := pn_cm st2 |}).
  - apply hinv_patch; [exact H2'|]. rewrite N2Nat.id, Hp1. left. lia.
  - rewrite N2Nat.id, Hp1. right. left. lia.
Qed.

Fixpoint rrs_sites (l : list rr) (cap : N) (cp : bool) (st : pn_state) : nsites :=
  match l with
  | [] => []
  | r :: t => rr_sites r cap cp st ++
              match pack_rr r cap cp st with Ok st' => rrs_sites t cap cp st' | _ => [] end
  end.

Lemma pack_rrs_mono l : forall cap cp st st', opt_all cm_keys (pn_cm st) -> pack_rrs l cap cp st = Ok st' ->
  opt_all cm_keys (pn_cm st') /\ (pn_cm st = None -> pn_cm st' = None) /\
  lenN (pn_out st) <= lenN (pn_out st').
Proof.
  induction l as [|r t IH]; intros cap cp st st' Hk H.
  - cbn in H. injection H as <-. split; [exact Hk|]. split; [auto|lia].
  - cbn [pack_rrs] in H. destruct (pack_rr r cap cp st) as [st1| | |] eqn:E; cbn [bind] in H; try discriminate.
    destruct (pack_rr_mono _ _ _ _ _ Hk E) as [Hk1 [Hn1 Hl1]].
    destruct (IH _ _ _ _ Hk1 H) as [Hk2 [Hn2 Hl2]]. split; [exact Hk2|]. split; [auto|lia].
Qed.

(* the buffer is never exactly full at a record header when the final output is
   shorter than the buffer *)
Lemma pack_rrs_minv l : forall T cap cp st st',
  minv T st -> pack_rrs l cap cp st = Ok st' -> lenN (pn_out st') < cap ->
  minv (T ++ rrs_sites l cap cp st) st'.
Proof.
  induction l as [|r t IH]; intros T cap cp st st' Hi H Hlt.
  - cbn in H. injection H as <-. cbn [rrs_sites]. now rewrite app_nil_r.
  - cbn [pack_rrs] in H. cbn [rrs_sites].
    destruct (pack_rr r cap cp st) as [st1| | |] eqn:E; cbn [bind] in H; try discriminate.
    destruct (minv_good _ _ Hi) as [_ Hk].
    destruct (pack_rr_mono _ _ _ _ _ Hk E) as [Hk1 [_ Hl1]].
    destruct (pack_rrs_mono _ _ _ _ _ Hk1 H) as [_ [_ Hl2]].
    assert (Hc : (poff st =? cap) = false) by (unfold poff; lia).
    rewrite app_assoc. apply (IH _ _ _ st1); [|exact H|exact Hlt].
    exact (pack_rr_minv _ _ _ _ _ _ Hi Hc E).
Qed.

(* ================= questions ================= *)
Lemma step_question q cap cp st st' : pack_question q cap cp st = Ok st' ->
  step st st' (name_site (q_name q) st).
Proof.
  intro H. unfold pack_question in H.
  destruct (pack_name (q_name q) cap cp st) as [sa| | |] eqn:Ea; cbn [bind] in H; try discriminate.
  destruct (pack_fixed (u16 (q_type q)) cap sa) as [sb| | |] eqn:Eb; cbn [bind] in H; try discriminate.
  replace (name_site (q_name q) st) with ((name_site (q_name q) st ++ []) ++ []) by (now rewrite !app_nil_r).
  eapply step_trans; [eapply step_trans|].
  - exact (step_name _ _ _ _ _ Ea).
  - exact (step_emits _ _ _ _ (emits_fixed _) Eb).
  - exact (step_emits _ _ _ _ (emits_fixed _) H).
Qed.

Fixpoint questions_sites (l : list question) (cap : N) (cp : bool) (st : pn_state) : nsites :=
  match l with
  | [] => []
  | q :: t => name_site (q_name q) st ++
              match pack_question q cap cp st with Ok st' => questions_sites t cap cp st' | _ => [] end
  end.

Lemma step_questions l : forall cap cp st st', pack_questions l cap cp st = Ok st' ->
  step st st' (questions_sites l cap cp st).
Proof.
  induction l as [|q t IH]; intros cap cp st st' H.
  - cbn in H. injection H as <-. apply step_refl.
  - cbn [pack_questions] in H. cbn [questions_sites].
    destruct (pack_question q cap cp st) as [st1| | |] eqn:E; cbn [bind] in H; try discriminate.
    eapply step_trans; [exact (step_question _ _ _ _ _ E)|exact (IH _ _ _ _ H)].
Qed.

(* ================= messages ================= *)
Definition msg_cap (m : msg) (buflen : N) : N :=
  if buflen <? msg_len_with m None + 1 then msg_len_with m None + 1 else buflen.
Definition msg_extra (m : msg) : list rr :=
  match last_opt_index (m_extra m) O None with
  | Some i => update_nth (m_extra m) i (fun r => set_ext_rcode r (m_rcode m))
  | None => m_extra m
  end.
Definition msg_cflag (m : msg) : bool := m_compress m && is_compressible m.
Definition msg_hdr (m : msg) : bytes :=
  u16 (m_id m) ++ u16 (hdr_word m) ++ u16 (lenN (m_question m)) ++ u16 (lenN (m_answer m))
  ++ u16 (lenN (m_ns m)) ++ u16 (lenN (msg_extra m)).
Definition msg_st0 (m : msg) : pn_state :=
  {| pn_out := []; pn_cm := if msg_cflag m then Some [] else None |}.

(* pack_msg_buf, keeping the final packer state *)
Definition pack_msg_st (m : msg) (buflen : N) : res pn_state :=
  do st <- pack_fixed (msg_hdr m) (msg_cap m buflen) (msg_st0 m);
  do st <- pack_questions (m_question m) (msg_cap m buflen) (msg_cflag m) st;
  do st <- pack_rrs (m_answer m) (msg_cap m buflen) (msg_cflag m) st;
  do st <- pack_rrs (m_ns m) (msg_cap m buflen) (msg_cflag m) st;
  pack_rrs (msg_extra m) (msg_cap m buflen) (msg_cflag m) st.

Lemma pack_msg_buf_st m buflen w u : pack_msg_buf m buflen = Ok (w, u) ->
  exists st, pack_msg_st m buflen = Ok st /\ w = pn_out st.
Proof.
  unfold pack_msg_buf, pack_msg_st, msg_hdr, msg_st0, msg_extra, msg_cap, msg_cflag.
  destruct (4095 <? m_rcode m); [discriminate|].
  destruct (last_opt_index (m_extra m) 0 None) as [i|]; destruct (15 <? m_rcode m); try discriminate;
    cbv zeta; intro H;
    (destruct (pack_fixed _ _ _) as [s1| | |]; cbn [bind] in *; try discriminate;
     destruct (pack_questions _ _ _ s1) as [s2| | |]; cbn [bind] in *; try discriminate;
     destruct (pack_rrs (m_answer m) _ _ s2) as [s3| | |]; cbn [bind] in *; try discriminate;
     destruct (pack_rrs (m_ns m) _ _ s3) as [s4| | |]; cbn [bind] in *; try discriminate;
     destruct (pack_rrs _ _ _ s4) as [s5| | |]; cbn [bind] in *; try discriminate;
     injection H as <- _; exists s5; split; reflexivity).
Qed.

Definition msg_sites (m : msg) (buflen : N) : nsites :=
  match pack_fixed (msg_hdr m) (msg_cap m buflen) (msg_st0 m) with
  | Ok s1 =>
    questions_sites (m_question m) (msg_cap m buflen) (msg_cflag m) s1 ++
    match pack_questions (m_question m) (msg_cap m buflen) (msg_cflag m) s1 with
    | Ok s2 =>
      rrs_sites (m_answer m) (msg_cap m buflen) (msg_cflag m) s2 ++
      match pack_rrs (m_answer m) (msg_cap m buflen) (msg_cflag m) s2 with
      | Ok s3 =>
        rrs_sites (m_ns m) (msg_cap m buflen) (msg_cflag m) s3 ++
        match pack_rrs (m_ns m) (msg_cap m buflen) (msg_cflag m) s3 with
        | Ok s4 => rrs_sites (msg_extra m) (msg_cap m buflen) (msg_cflag m) s4
        | _ => []
        end
      | _ => []
      end
    | _ => []
    end
  | _ => []
  end.

Lemma pack_msg_st_minv m buflen st :
  pack_msg_st m buflen = Ok st -> lenN (pn_out st) < msg_cap m buflen ->
  minv (msg_sites m buflen) st.
Proof.
  unfold pack_msg_st, msg_sites. intros H Hlt.
  destruct (pack_fixed (msg_hdr m) (msg_cap m buflen) (msg_st0 m)) as [s1| | |] eqn:E1; cbn [bind] in H; try discriminate.
  destruct (pack_questions (m_question m) (msg_cap m buflen) (msg_cflag m) s1) as [s2| | |] eqn:E2; cbn [bind] in H; try discriminate.
  destruct (pack_rrs (m_answer m) (msg_cap m buflen) (msg_cflag m) s2) as [s3| | |] eqn:E3; cbn [bind] in H; try discriminate.
  destruct (pack_rrs (m_ns m) (msg_cap m buflen) (msg_cflag m) s3) as [s4| | |] eqn:E4; cbn [bind] in H; try discriminate.
  assert (I0 : minv [] (msg_st0 m)).
  { apply minv_init. destruct (msg_cflag m); auto. }
  pose proof (minv_step _ _ _ _ I0 (step_emits _ _ _ _ (emits_fixed _) E1)) as I1.
  pose proof (minv_step _ _ _ _ I1 (step_questions _ _ _ _ _ E2)) as I2. cbn [app] in I2.
  destruct (minv_good _ _ I2) as [_ K2].
  destruct (pack_rrs_mono _ _ _ _ _ K2 E3) as [K3 [_ L3]].
  destruct (pack_rrs_mono _ _ _ _ _ K3 E4) as [K4 [_ L4]].
  destruct (pack_rrs_mono _ _ _ _ _ K4 H) as [_ [_ L5]].
  pose proof (pack_rrs_minv _ _ _ _ _ _ I2 E3 ltac:(lia)) as I3.
  pose proof (pack_rrs_minv _ _ _ _ _ _ I3 E4 ltac:(lia)) as I4.
  pose proof (pack_rrs_minv _ _ _ _ _ _ I4 H Hlt) as I5.
  rewrite <- !app_assoc in I5. exact I5.
Qed.

(* D: every name of the message is laid, with its own labels, at the offset
   where it was packed *)
Theorem msg_names_laid m buflen w u :
  pack_msg_buf m buflen = Ok (w, u) -> lenN w < msg_cap m buflen ->
  Forall (site_ok w) (msg_sites m buflen).
Proof.
  intros H Hlt. destruct (pack_msg_buf_st _ _ _ _ H) as [st [Hst ->]].
  exact (proj2 (proj1 (minv_good _ _ (pack_msg_st_minv _ _ _ Hst Hlt)))).
Qed.

(* and the final compression map satisfies the invariant *)
Theorem msg_final_map_inv m buflen st :
  pack_msg_st m buflen = Ok st -> lenN (pn_out st) < msg_cap m buflen -> st_inv st.
Proof.
  intros Hst Hlt. destruct (minv_good _ _ (pack_msg_st_minv _ _ _ Hst Hlt)) as [[Hl _] Hk].
  apply st_inv_split. now split.
Qed.

(* ================= compressed against uncompressed ================= *)
Definition crel (stc stu : pn_state) : Prop :=
  opt_all cm_keys (pn_cm stc) /\ pn_cm stu = None /\ lenN (pn_out stc) <= lenN (pn_out stu).

Lemma crel_post stc stc' stu stu' : crel stc stu -> rel_post stc stc' stu stu' -> crel stc' stu'.
Proof. intros [_ [_ H]] [K [Nn R]]. split; [exact K|]. split; [exact Nn|]. unfold rel_le in R. lia. Qed.

Lemma rel_fixed b cap stc stc' cap2 stu stu' :
  opt_all cm_keys (pn_cm stc) -> pn_cm stu = None ->
  pack_fixed b cap stc = Ok stc' -> pack_fixed b cap2 stu = Ok stu' -> rel_post stc stc' stu stu'.
Proof. apply (rel_emits (pack_fixed b)). apply emits_fixed. Qed.

Lemma crel_header r cap cp cp2 stc stc' stu stu' : crel stc stu ->
  pack_header r cap cp stc = Ok stc' -> pack_header r cap cp2 stu = Ok stu' -> crel stc' stu'.
Proof.
  intros [Hk [Hn Hle]] Hc Hu.
  destruct (poff stu =? cap) eqn:Eu.
  - (* the uncompressed run finds its buffer full and writes no header *)
    assert (stu' = stu) as -> by (unfold pack_header in Hu; rewrite Eu in Hu; now injection Hu).
    destruct (poff stc =? cap) eqn:Ec.
    + assert (stc' = stc) as -> by (unfold pack_header in Hc; rewrite Ec in Hc; now injection Hc).
      repeat split; auto.
    + destruct (pack_header_inv _ _ _ _ _ Ec Hc) as [std [Hs [E Hcap]]].
      destruct (step_mono _ _ _ (step_header _ _ _ _ _ Hc) Hk) as [Hk' _].
      split; [exact Hk'|]. split; [exact Hn|]. unfold poff in *. lia.
  - destruct (poff stc =? cap) eqn:Ec.
    + assert (stc' = stc) as -> by (unfold pack_header in Hc; rewrite Ec in Hc; now injection Hc).
      assert (Hku : opt_all cm_keys (pn_cm stu)) by (rewrite Hn; exact I).
      destruct (step_mono _ _ _ (step_header _ _ _ _ _ Hu) Hku) as [_ [Hn' Hl]].
      split; [exact Hk|]. split; [auto|lia].
    + unfold pack_header in Hc, Hu. rewrite Ec in Hc. rewrite Eu in Hu.
      destruct (pack_name (rr_name r) cap cp stc) as [ca| | |] eqn:Ca; cbn [bind] in Hc; try discriminate.
      destruct (pack_fixed (u16 (rr_type r)) cap ca) as [cb| | |] eqn:Cb; cbn [bind] in Hc; try discriminate.
      destruct (pack_fixed (u16 (rr_class r)) cap cb) as [cc| | |] eqn:Cc; cbn [bind] in Hc; try discriminate.
      destruct (pack_fixed (u32 (rr_ttl r)) cap cc) as [cd| | |] eqn:Cd; cbn [bind] in Hc; try discriminate.
      destruct (pack_name (rr_name r) cap cp2 stu) as [ua| | |] eqn:Ua; cbn [bind] in Hu; try discriminate.
      destruct (pack_fixed (u16 (rr_type r)) cap ua) as [ub| | |] eqn:Ub; cbn [bind] in Hu; try discriminate.
      destruct (pack_fixed (u16 (rr_class r)) cap ub) as [uc| | |] eqn:Uc; cbn [bind] in Hu; try discriminate.
      destruct (pack_fixed (u32 (rr_ttl r)) cap uc) as [ud| | |] eqn:Ud; cbn [bind] in Hu; try discriminate.
      pose proof (rel_name _ _ _ _ _ _ _ _ _ Hk Hn Ca Ua) as Ra.
      pose proof (rel_fixed _ _ _ _ _ _ _ (proj1 Ra) (proj1 (proj2 Ra)) Cb Ub) as Rb.
      pose proof (rel_fixed _ _ _ _ _ _ _ (proj1 Rb) (proj1 (proj2 Rb)) Cc Uc) as Rc.
      pose proof (rel_fixed _ _ _ _ _ _ _ (proj1 Rc) (proj1 (proj2 Rc)) Cd Ud) as Rd.
      pose proof (rel_fixed _ _ _ _ _ _ _ (proj1 Rd) (proj1 (proj2 Rd)) Hc Hu) as Re.
      apply (crel_post stc _ stu _); [repeat split; auto|].
      exact (rel_trans _ _ _ _ _ _ (rel_trans _ _ _ _ _ _ (rel_trans _ _ _ _ _ _ (rel_trans _ _ _ _ _ _ Ra Rb) Rc) Rd) Re).
Qed.

Lemma crel_rr r cap cp cp2 stc stc' stu stu' : crel stc stu ->
  pack_rr r cap cp stc = Ok stc' -> pack_rr r cap cp2 stu = Ok stu' -> crel stc' stu'.
Proof.
  intros Hr Hc Hu. unfold pack_rr in Hc, Hu.
  destruct (find_layout layouts (rr_kind r)) as [L|]; [|discriminate].
  destruct (pack_header r cap cp stc) as [c1| | |] eqn:C1; cbn [bind] in Hc; try discriminate.
  destruct (pack_fields (rr_data r) (tl_pack L) cap c1) as [c2| | |] eqn:C2; cbn [bind] in Hc; try discriminate.
  destruct (65535 <? poff c2 - poff c1); [discriminate|]. destruct (poff c1 <? 2); [discriminate|].
  destruct (pack_header r cap cp2 stu) as [u1| | |] eqn:U1; cbn [bind] in Hu; try discriminate.
  destruct (pack_fields (rr_data r) (tl_pack L) cap u1) as [u2| | |] eqn:U2; cbn [bind] in Hu; try discriminate.
  destruct (65535 <? poff u2 - poff u1); [discriminate|]. destruct (poff u1 <? 2); [discriminate|].
  injection Hc as <-. injection Hu as <-.
  pose proof (crel_header _ _ _ _ _ _ _ _ Hr C1 U1) as R1.
  pose proof (crel_post _ _ _ _ R1 (rel_fields _ _ _ _ _ _ _ _ (proj1 R1) (proj1 (proj2 R1)) C2 U2)) as [K [Nn Hle]].
  split; [exact K|]. split; [exact Nn|]. cbn [pn_out]. unfold lenN in *. rewrite !set_at_length. exact Hle.
Qed.

Lemma crel_rrs l : forall cap cp cp2 stc stc' stu stu', crel stc stu ->
  pack_rrs l cap cp stc = Ok stc' -> pack_rrs l cap cp2 stu = Ok stu' -> crel stc' stu'.
Proof.
  induction l as [|r t IH]; intros cap cp cp2 stc stc' stu stu' Hr Hc Hu.
  - cbn in Hc, Hu. injection Hc as <-. injection Hu as <-. exact Hr.
  - cbn [pack_rrs] in Hc, Hu.
    destruct (pack_rr r cap cp stc) as [c1| | |] eqn:C1; cbn [bind] in Hc; try discriminate.
    destruct (pack_rr r cap cp2 stu) as [u1| | |] eqn:U1; cbn [bind] in Hu; try discriminate.
    exact (IH _ _ _ _ _ _ _ (crel_rr _ _ _ _ _ _ _ _ Hr C1 U1) Hc Hu).
Qed.

Lemma crel_question q cap cp cp2 stc stc' stu stu' : crel stc stu ->
  pack_question q cap cp stc = Ok stc' -> pack_question q cap cp2 stu = Ok stu' -> crel stc' stu'.
Proof.
  intros Hr Hc Hu. destruct Hr as [Hk [Hn Hle]]. unfold pack_question in Hc, Hu.
  destruct (pack_name (q_name q) cap cp stc) as [ca| | |] eqn:Ca; cbn [bind] in Hc; try discriminate.
  destruct (pack_fixed (u16 (q_type q)) cap ca) as [cb| | |] eqn:Cb; cbn [bind] in Hc; try discriminate.
  destruct (pack_name (q_name q) cap cp2 stu) as [ua| | |] eqn:Ua; cbn [bind] in Hu; try discriminate.
  destruct (pack_fixed (u16 (q_type q)) cap ua) as [ub| | |] eqn:Ub; cbn [bind] in Hu; try discriminate.
  pose proof (rel_name _ _ _ _ _ _ _ _ _ Hk Hn Ca Ua) as Ra.
  pose proof (rel_fixed _ _ _ _ _ _ _ (proj1 Ra) (proj1 (proj2 Ra)) Cb Ub) as Rb.
  pose proof (rel_fixed _ _ _ _ _ _ _ (proj1 Rb) (proj1 (proj2 Rb)) Hc Hu) as Rc.
  apply (crel_post stc _ stu _); [repeat split; auto|].
  exact (rel_trans _ _ _ _ _ _ (rel_trans _ _ _ _ _ _ Ra Rb) Rc).
Qed.

Lemma crel_questions l : forall cap cp cp2 stc stc' stu stu', crel stc stu ->
  pack_questions l cap cp stc = Ok stc' -> pack_questions l cap cp2 stu = Ok stu' -> crel stc' stu'.
Proof.
  induction l as [|q t IH]; intros cap cp cp2 stc stc' stu stu' Hr Hc Hu.
  - cbn in Hc, Hu. injection Hc as <-. injection Hu as <-. exact Hr.
  - cbn [pack_questions] in Hc, Hu.
    destruct (pack_question q cap cp stc) as [c1| | |] eqn:C1; cbn [bind] in Hc; try discriminate.
    destruct (pack_question q cap cp2 stu) as [u1| | |] eqn:U1; cbn [bind] in Hu; try discriminate.
    exact (IH _ _ _ _ _ _ _ (crel_question _ _ _ _ _ _ _ _ Hr C1 U1) Hc Hu).
Qed.

(* the same message with Compress switched off *)
Definition uncompressed (m : msg) : msg :=
  {| m_id := m_id m; m_response := m_response m; m_opcode := m_opcode m; m_aa := m_aa m; m_tc := m_tc m;
     m_rd := m_rd m; m_ra := m_ra m; m_z := m_z m; m_ad := m_ad m; m_cd := m_cd m; m_rcode := m_rcode m;
     m_compress := false;
     m_question := m_question m; m_answer := m_answer m; m_ns := m_ns m; m_extra := m_extra m |}.

Lemma uncompressed_cap m buflen : msg_cap (uncompressed m) buflen = msg_cap m buflen.
Proof. reflexivity. Qed.
Lemma uncompressed_extra m : msg_extra (uncompressed m) = msg_extra m.
Proof. reflexivity. Qed.
Lemma uncompressed_hdr m : msg_hdr (uncompressed m) = msg_hdr m.
Proof. reflexivity. Qed.
Lemma uncompressed_cflag m : msg_cflag (uncompressed m) = false.
Proof. reflexivity. Qed.

Lemma pack_msg_st_never_longer m buflen stc stu :
  pack_msg_st m buflen = Ok stc -> pack_msg_st (uncompressed m) buflen = Ok stu ->
  lenN (pn_out stc) <= lenN (pn_out stu).
Proof.
  unfold pack_msg_st. rewrite uncompressed_cap, uncompressed_extra, uncompressed_hdr, uncompressed_cflag.
  cbn [uncompressed m_question m_answer m_ns]. intros Hc Hu.
  destruct (pack_fixed (msg_hdr m) (msg_cap m buflen) (msg_st0 m)) as [c1| | |] eqn:C1; cbn [bind] in Hc; try discriminate.
  destruct (pack_questions (m_question m) (msg_cap m buflen) (msg_cflag m) c1) as [c2| | |] eqn:C2; cbn [bind] in Hc; try discriminate.
  destruct (pack_rrs (m_answer m) (msg_cap m buflen) (msg_cflag m) c2) as [c3| | |] eqn:C3; cbn [bind] in Hc; try discriminate.
  destruct (pack_rrs (m_ns m) (msg_cap m buflen) (msg_cflag m) c3) as [c4| | |] eqn:C4; cbn [bind] in Hc; try discriminate.
  destruct (pack_fixed (msg_hdr m) (msg_cap m buflen) (msg_st0 (uncompressed m))) as [u1| | |] eqn:U1; cbn [bind] in Hu; try discriminate.
  destruct (pack_questions (m_question m) (msg_cap m buflen) false u1) as [u2| | |] eqn:U2; cbn [bind] in Hu; try discriminate.
  destruct (pack_rrs (m_answer m) (msg_cap m buflen) false u2) as [u3| | |] eqn:U3; cbn [bind] in Hu; try discriminate.
  destruct (pack_rrs (m_ns m) (msg_cap m buflen) false u3) as [u4| | |] eqn:U4; cbn [bind] in Hu; try discriminate.
  assert (R0 : crel (msg_st0 m) (msg_st0 (uncompressed m))).
  { unfold crel, msg_st0. rewrite uncompressed_cflag. cbn [pn_out pn_cm]. split; [|split; [reflexivity|lia]].
    destruct (msg_cflag m); cbn; [|exact I]. intros k p []. }
  destruct R0 as [K0 [N0 L0]].
  pose proof (crel_post _ _ _ _ (conj K0 (conj N0 L0)) (rel_fixed _ _ _ _ _ _ _ K0 N0 C1 U1)) as R1.
  pose proof (crel_questions _ _ _ _ _ _ _ _ R1 C2 U2) as R2.
  pose proof (crel_rrs _ _ _ _ _ _ _ _ R2 C3 U3) as R3.
  pose proof (crel_rrs _ _ _ _ _ _ _ _ R3 C4 U4) as R4.
  exact (proj2 (proj2 (crel_rrs _ _ _ _ _ _ _ _ R4 Hc Hu))).
Qed.

(* D: the compressed packing is never longer than the uncompressed one *)
Theorem compressed_never_longer m buflen wc uc wu uu :
  pack_msg_buf m buflen = Ok (wc, uc) -> pack_msg_buf (uncompressed m) buflen = Ok (wu, uu) ->
  lenN wc <= lenN wu.
Proof.
  intros Hc Hu. destruct (pack_msg_buf_st _ _ _ _ Hc) as [stc [Sc ->]].
  destruct (pack_msg_buf_st _ _ _ _ Hu) as [stu [Su ->]].
  exact (pack_msg_st_never_longer _ _ _ _ Sc Su).
Qed.

(* ================= no name is forgotten ================= *)
Definition rr_names (r : rr) : list bytes :=
  match find_layout layouts (rr_kind r) with
  | None => []
  | Some L => rr_name r :: fields_names (rr_data r) (tl_pack L)
  end.
Definition msg_names (m : msg) : list bytes :=
  map q_name (m_question m) ++ flat_map rr_names (m_answer m) ++ flat_map rr_names (m_ns m)
  ++ flat_map rr_names (msg_extra m).

Lemma rr_sites_texts r cap cp st st' :
  (poff st =? cap) = false -> pack_rr r cap cp st = Ok st' ->
  map snd (rr_sites r cap cp st) = filter nonempty (rr_names r).
Proof.
  intros Hc H. unfold pack_rr in H. unfold rr_sites, rr_names, header_sites. rewrite Hc.
  destruct (find_layout layouts (rr_kind r)) as [L|]; [|discriminate].
  destruct (pack_header r cap cp st) as [st1| | |] eqn:E1; cbn [bind] in H; try discriminate.
  destruct (pack_fields (rr_data r) (tl_pack L) cap st1) as [st2| | |] eqn:E2; cbn [bind] in H; try discriminate.
  rewrite map_app, name_site_texts, (fields_sites_texts _ _ _ _ _ E2).
  cbn [filter]. destruct (nonempty (rr_name r)); reflexivity.
Qed.

Lemma rrs_sites_texts l : forall cap cp st st',
  opt_all cm_keys (pn_cm st) -> pack_rrs l cap cp st = Ok st' -> lenN (pn_out st') < cap ->
  map snd (rrs_sites l cap cp st) = filter nonempty (flat_map rr_names l).
Proof.
  induction l as [|r t IH]; intros cap cp st st' Hk H Hlt; [reflexivity|].
  cbn [pack_rrs] in H. cbn [rrs_sites flat_map].
  destruct (pack_rr r cap cp st) as [st1| | |] eqn:E; cbn [bind] in H; try discriminate.
  destruct (pack_rr_mono _ _ _ _ _ Hk E) as [Hk1 [_ Hl1]].
  destruct (pack_rrs_mono _ _ _ _ _ Hk1 H) as [_ [_ Hl2]].
  assert (Hc : (poff st =? cap) = false) by (unfold poff; lia).
  rewrite map_app, filter_app', (rr_sites_texts _ _ _ _ _ Hc E), (IH _ _ _ _ Hk1 H Hlt). reflexivity.
Qed.

Lemma questions_sites_texts l : forall cap cp st st', pack_questions l cap cp st = Ok st' ->
  map snd (questions_sites l cap cp st) = filter nonempty (map q_name l).
Proof.
  induction l as [|q t IH]; intros cap cp st st' H; [reflexivity|].
  cbn [pack_questions] in H. cbn [questions_sites map].
  destruct (pack_question q cap cp st) as [st1| | |] eqn:E; cbn [bind] in H; try discriminate.
  rewrite map_app, name_site_texts, (IH _ _ _ _ H). cbn [filter]. destruct (nonempty (q_name q)); reflexivity.
Qed.

Lemma msg_sites_texts m buflen st :
  pack_msg_st m buflen = Ok st -> lenN (pn_out st) < msg_cap m buflen ->
  map snd (msg_sites m buflen) = filter nonempty (msg_names m).
Proof.
  unfold pack_msg_st, msg_sites, msg_names. intros H Hlt.
  destruct (pack_fixed (msg_hdr m) (msg_cap m buflen) (msg_st0 m)) as [s1| | |] eqn:E1; cbn [bind] in H; try discriminate.
  destruct (pack_questions (m_question m) (msg_cap m buflen) (msg_cflag m) s1) as [s2| | |] eqn:E2; cbn [bind] in H; try discriminate.
  destruct (pack_rrs (m_answer m) (msg_cap m buflen) (msg_cflag m) s2) as [s3| | |] eqn:E3; cbn [bind] in H; try discriminate.
  destruct (pack_rrs (m_ns m) (msg_cap m buflen) (msg_cflag m) s3) as [s4| | |] eqn:E4; cbn [bind] in H; try discriminate.
  assert (K0 : opt_all cm_keys (pn_cm (msg_st0 m))).
  { unfold msg_st0. destruct (msg_cflag m); cbn; [|exact I]. intros k p []. }
  destruct (step_mono _ _ _ (step_emits _ _ _ _ (emits_fixed _) E1) K0) as [K1 _].
  destruct (step_mono _ _ _ (step_questions _ _ _ _ _ E2) K1) as [K2 _].
  destruct (pack_rrs_mono _ _ _ _ _ K2 E3) as [K3 [_ L3]].
  destruct (pack_rrs_mono _ _ _ _ _ K3 E4) as [K4 [_ L4]].
  destruct (pack_rrs_mono _ _ _ _ _ K4 H) as [_ [_ L5]].
  rewrite !map_app, !filter_app'.
  rewrite (questions_sites_texts _ _ _ _ _ E2).
  rewrite (rrs_sites_texts _ _ _ _ _ K2 E3) by lia.
  rewrite (rrs_sites_texts _ _ _ _ _ K3 E4) by lia.
  rewrite (rrs_sites_texts _ _ _ _ _ K4 H) by lia. reflexivity.
Qed.

(* ================= transparency ================= *)
Lemma sites_pairwise wc wu : forall A B,
  map snd A = map snd B -> Forall (site_ok wc) A -> Forall (site_ok wu) B ->
  Forall2 (fun sc su : N * bytes => snd sc = snd su /\
             exists ls, parse_name (snd sc) = Some ls /\ wire_len ls <= 255 /\
                        lays wc (fst sc) ls /\ lays wu (fst su) ls) A B.
Proof.
  induction A as [|a A IH]; intros [|b B] E HA HB; try discriminate; [constructor|].
  cbn [map] in E. injection E as E1 E2. inversion HA as [|? ? Ha HA']; subst. inversion HB as [|? ? Hb HB']; subst.
  constructor; [|now apply IH].
  split; [exact E1|]. destruct Ha as [ls [P1 [P2 P3]]]. destruct Hb as [ls' [Q1 [_ Q3]]].
  rewrite <- E1, P1 in Q1. injection Q1 as <-. exists ls. auto.
Qed.

(* D: with and without compression the same names are packed, in the same
   order, and each of them is laid in both outputs with the labels its text
   denotes: the compressed octets decode, through the pointers, to the labels
   the uncompressed octets spell out *)
Theorem compression_is_transparent m buflen wc uc wu uu :
  pack_msg_buf m buflen = Ok (wc, uc) -> pack_msg_buf (uncompressed m) buflen = Ok (wu, uu) ->
  lenN wu < msg_cap m buflen ->
  map snd (msg_sites m buflen) = filter nonempty (msg_names m) /\
  Forall2 (fun sc su : N * bytes => snd sc = snd su /\
             exists ls, parse_name (snd sc) = Some ls /\ wire_len ls <= 255 /\
                        lays wc (fst sc) ls /\ lays wu (fst su) ls)
          (msg_sites m buflen) (msg_sites (uncompressed m) buflen).
Proof.
  intros Hc Hu Hlt.
  pose proof (compressed_never_longer _ _ _ _ _ _ Hc Hu) as Hle.
  destruct (pack_msg_buf_st _ _ _ _ Hc) as [stc [Sc Ec]]. destruct (pack_msg_buf_st _ _ _ _ Hu) as [stu [Su Eu]].
  assert (Hltc : lenN (pn_out stc) < msg_cap m buflen) by (rewrite <- Ec; lia).
  assert (Hltu : lenN (pn_out stu) < msg_cap (uncompressed m) buflen) by (rewrite <- Eu; exact Hlt).
  pose proof (msg_sites_texts _ _ _ Sc Hltc) as Tc. pose proof (msg_sites_texts _ _ _ Su Hltu) as Tu.
  split; [exact Tc|]. apply sites_pairwise.
  - rewrite Tc, Tu. reflexivity.
  - apply (msg_names_laid _ _ _ _ Hc). lia.
  - apply (msg_names_laid _ _ _ _ Hu). exact Hlt.
Qed.

(* the library's own decoder reads every packed name *)
Theorem msg_names_decode m buflen w u p s :
  pack_msg_buf m buflen = Ok (w, u) -> lenN w < msg_cap m buflen ->
  In (p, s) (msg_sites m buflen) ->
  exists ls, parse_name s = Some ls /\ lays w p ls /\
    exists e, unpack_name w p = Ok (show_name ls, e).
Proof.
  intros H Hlt Hin. pose proof (msg_names_laid _ _ _ _ H Hlt) as HF.
  rewrite Forall_forall in HF. destruct (HF _ Hin) as [ls [P1 [P2 [h [e P3]]]]]. cbn [fst snd] in *.
  exists ls. split; [exact P1|]. split; [now exists h, e|].
  exists e. exact (lays_unpack_labels _ _ _ h _ P3 P2).
Qed.

(* D: every pointer met while reading a name of the packed message targets an
   earlier offset below 16384 that holds a label octet and at which a non-empty
   suffix of that name is laid *)
Theorem msg_pointers_target_earlier_suffixes m buflen w u ps ls p' ls' :
  pack_msg_buf m buflen = Ok (w, u) -> lenN w < msg_cap m buflen ->
  In ps (msg_sites m buflen) -> parse_name (snd ps) = Some ls ->
  reach w (fst ps) ls p' ls' -> 192 <= nthN w p' 0 ->
  (nthN w p' 0 - 192) * 256 + nthN w (p' + 1) 0 < p' /\
  (nthN w p' 0 - 192) * 256 + nthN w (p' + 1) 0 < max_compression_offset /\
  1 <= nthN w ((nthN w p' 0 - 192) * 256 + nthN w (p' + 1) 0) 0 < 64 /\
  ls' <> [] /\ lays w ((nthN w p' 0 - 192) * 256 + nthN w (p' + 1) 0) ls' /\
  exists pre, ls = pre ++ ls'.
Proof.
  intros H Hlt Hin Hp Hr Hc. pose proof (msg_names_laid _ _ _ _ H Hlt) as HF.
  rewrite Forall_forall in HF. destruct (HF _ Hin) as [ls0 [P1 [_ P3]]].
  rewrite Hp in P1. injection P1 as <-. exact (laid_pointers_valid _ _ _ _ _ P3 Hr Hc).
Qed.

(* ================= discharging the buffer-not-full hypothesis ================= *)
(* Len() without a compression map bounds what Pack writes (C08,
   Proofs/LenMsgProofs.v) and the buffer has at least Len+1 octets: for messages
   whose records satisfy msg_okb the packed octets never fill the buffer *)
Lemma msg_okb_room m buflen w u :
  LenMsgProofs.msg_okb m = true -> pack_msg_buf m buflen = Ok (w, u) -> lenN w < msg_cap m buflen.
Proof.
  intros Hok H. pose proof (LenMsgProofs.uncompressed_len_ge_pack m buflen w u Hok H) as Hle.
  pose proof (LenMsgProofs.msg_cap_gt m buflen) as Hgt.
  change (LenMsgProofs.msg_cap m buflen) with (msg_cap m buflen) in Hgt. lia.
Qed.

Lemma uncompressed_okb m : LenMsgProofs.msg_okb (uncompressed m) = LenMsgProofs.msg_okb m.
Proof. reflexivity. Qed.

Theorem msg_names_laid_ok m buflen w u :
  LenMsgProofs.msg_okb m = true -> pack_msg_buf m buflen = Ok (w, u) ->
  map snd (msg_sites m buflen) = filter nonempty (msg_names m) /\
  Forall (site_ok w) (msg_sites m buflen).
Proof.
  intros Hok H. pose proof (msg_okb_room _ _ _ _ Hok H) as Hlt.
  split; [|exact (msg_names_laid m buflen w u H Hlt)].
  destruct (pack_msg_buf_st _ _ _ _ H) as [st [Hst ->]]. exact (msg_sites_texts m buflen st Hst Hlt).
Qed.

Theorem compression_is_transparent_ok m buflen wc uc wu uu :
  LenMsgProofs.msg_okb m = true ->
  pack_msg_buf m buflen = Ok (wc, uc) -> pack_msg_buf (uncompressed m) buflen = Ok (wu, uu) ->
  map snd (msg_sites m buflen) = filter nonempty (msg_names m) /\
  Forall2 (fun sc su : N * bytes => snd sc = snd su /\
             exists ls, parse_name (snd sc) = Some ls /\ wire_len ls <= 255 /\
                        lays wc (fst sc) ls /\ lays wu (fst su) ls)
          (msg_sites m buflen) (msg_sites (uncompressed m) buflen).
Proof.
  intros Hok Hc Hu. apply (compression_is_transparent m buflen wc uc wu uu Hc Hu).
  rewrite <- (uncompressed_cap m buflen). apply (msg_okb_room _ _ _ _ (eq_trans (uncompressed_okb m) Hok) Hu).
Qed.

Theorem msg_names_decode_ok m buflen w u p s :
  LenMsgProofs.msg_okb m = true -> pack_msg_buf m buflen = Ok (w, u) ->
  In (p, s) (msg_sites m buflen) ->
  exists ls, parse_name s = Some ls /\ lays w p ls /\
    exists e, unpack_name w p = Ok (show_name ls, e).
Proof. intros Hok H. exact (msg_names_decode m buflen w u p s H (msg_okb_room _ _ _ _ Hok H)). Qed.

Theorem msg_pointers_ok m buflen w u ps ls p' ls' :
  LenMsgProofs.msg_okb m = true -> pack_msg_buf m buflen = Ok (w, u) ->
  In ps (msg_sites m buflen) -> parse_name (snd ps) = Some ls ->
  reach w (fst ps) ls p' ls' -> 192 <= nthN w p' 0 ->
  (nthN w p' 0 - 192) * 256 + nthN w (p' + 1) 0 < p' /\
  (nthN w p' 0 - 192) * 256 + nthN w (p' + 1) 0 < max_compression_offset /\
  1 <= nthN w ((nthN w p' 0 - 192) * 256 + nthN w (p' + 1) 0) 0 < 64 /\
  ls' <> [] /\ lays w ((nthN w p' 0 - 192) * 256 + nthN w (p' + 1) 0) ls' /\
  exists pre, ls = pre ++ ls'.
Proof.
  intros Hok H. exact (msg_pointers_target_earlier_suffixes m buflen w u ps ls p' ls' H (msg_okb_room _ _ _ _ Hok H)).
Qed.

Theorem msg_final_map_inv_ok m buflen w u :
  LenMsgProofs.msg_okb m = true -> pack_msg_buf m buflen = Ok (w, u) ->
  exists st, pack_msg_st m buflen = Ok st /\ w = pn_out st /\ st_inv st.
Proof.
  intros Hok H. pose proof (msg_okb_room _ _ _ _ Hok H) as Hlt.
  destruct (pack_msg_buf_st _ _ _ _ H) as [st [Hst E]]. exists st. split; [exact Hst|]. split; [exact E|].
  apply (msg_final_map_inv m buflen st Hst). now rewrite <- E.
Qed.

(* ================= non-vacuity and the hop-limit edge at message level ================= *)
Definition ex_rr (name : bytes) (t : N) (kind : string) (d : rdata) : rr :=
  {| rr_name := name; rr_type := t; rr_class := 1; rr_ttl := 300; rr_rdlength := 0; rr_kind := kind; rr_data := d |}.
Definition ex_msg_of (qs : list question) (an ex : list rr) : msg :=
  {| m_id := 1; m_response := true; m_opcode := 0; m_aa := false; m_tc := false; m_rd := false; m_ra := false;
     m_z := false; m_ad := false; m_cd := false; m_rcode := 0; m_compress := true;
     m_question := qs; m_answer := an; m_ns := []; m_extra := ex |}.
(* a question, an NS and an MX record (one owner differs in case only) and an
   additional A record: six names, four of them compressed *)
Definition ex_msg : msg :=
  ex_msg_of [{| q_name := bytes_of_string "Example.com."; q_type := 2; q_class := 1 |}]
    [ex_rr (bytes_of_string "Example.com.") 2 "NS" [("Ns"%string, V_s (bytes_of_string "ns1.Example.com."))];
     ex_rr (bytes_of_string "example.com.") 15 "MX"
       [("Preference"%string, V_n 10); ("Mx"%string, V_s (bytes_of_string "mail.Example.com."))]]
    [ex_rr (bytes_of_string "ns1.Example.com.") 1 "A" [("A"%string, V_b [192; 0; 2; 1])]].

Example msg_example :
  match pack_msg_buf ex_msg 0, pack_msg_buf (uncompressed ex_msg) 0 with
  | Ok (wc, _), Ok (wu, _) =>
    LenMsgProofs.msg_okb ex_msg = true /\
    lenN wc = 92 /\ lenN wu = 143 /\ lenN wu < msg_cap ex_msg 0 /\
    map fst (msg_sites ex_msg 0) = [12; 29; 41; 47; 69; 76] /\
    map fst (msg_sites (uncompressed ex_msg) 0) = [12; 29; 52; 69; 94; 112] /\
    map snd (msg_sites ex_msg 0) = msg_names ex_msg /\
    forallb (fun ps => match parse_name (snd ps) with Some ls => laysb 9 wc (fst ps) ls | None => false end)
            (msg_sites ex_msg 0) = true /\
    forallb (fun ps => match parse_name (snd ps) with Some ls => laysb 9 wu (fst ps) ls | None => false end)
            (msg_sites (uncompressed ex_msg) 0) = true /\
    (* the MX owner differs in case: its first label is written out, the rest points at com *)
    takeN 10 (dropN 47 wc) = 7 :: bytes_of_string "example" ++ [192; 20] /\
    (* the MX exchange is compressed against the question name *)
    takeN 7 (dropN 69 wc) = 4 :: bytes_of_string "mail" ++ [192; 12]
  | _, _ => False
  end.
Proof. vm_compute. repeat split. Qed.

(* The edge of the hop limit at message level (the finding that led to the
   repair): 127 A records owned by a., a.a., ..., (a.)^127 and one more owned by
   (a.)^127, whose owner is a bare pointer read through 127 hops.  With the limit
   at 127 Unpack accepts the octets Pack produced and returns the same owners. *)
Definition chain_msg : msg :=
  ex_msg_of [] (map (fun s => ex_rr s 1 "A" [("A"%string, V_b [192; 0; 2; 1])]) chain_names) [].

Example chain_msg_roundtrip :
  match pack_msg_buf chain_msg 0 return Prop with
  | Ok (w, _) =>
    LenMsgProofs.msg_okb chain_msg = true /\
    forallb (fun s => match parse_name s with Some ls => valid_wire ls | None => false end)
            (msg_names chain_msg) = true /\
    match rev (msg_sites chain_msg 0) return Prop with
    | (p, s) :: _ => s = chain_name 127 /\ laysb 400 w p chain_labels = true /\
                     unpack_name w p = Ok (chain_name 127, p + 2)
    | [] => False
    end /\
    match unpack_msg w return Prop with
    | Ok (m', failed) => failed = false /\ map rr_name (m_answer m') = chain_names
    | _ => False
    end
  | _ => False
  end.
Proof. vm_compute. repeat split. Qed.
