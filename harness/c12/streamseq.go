package main

// C12, three classes of HISTORIES on one long-lived object that the other files
// of this harness never ran (everything else uses one request per TSIG stream
// connection, unpacks every reply at once, and starts every Server value once):
//
//  1. stream-tsig: sequences of requests on ONE stream connection of a server
//     with TSIG configured, the requests differing in their TSIG situation
//     (unsigned, signed, signed and forwarded, signed with another secret, with
//     an unknown key, with a stale time) - every ordered pair of situations
//     occurs back to back, plus longer random sequences, many connections at
//     once. The server keeps ONE response writer per connection, so what it
//     tells the handler about request k+1 must not be what it found out about
//     request k. Oracle (property text: "each handler sees exactly the request
//     its client sent ... no mixing across requests, connections"): the handler of
//     the s-th request of connection c is given that request, TsigStatus() == nil
//     exactly when THAT request is unsigned or correctly signed, and the
//     connection carries, in order, the (signed) echo of each of its requests.
//
//  2. client-read-retained: the raw-reply readers of dns.Conn (ReadMsgHeader,
//     Read into the caller's buffers, ReadMsg) called several times on ONE
//     connection with all earlier results still held (pipelined queries, a
//     forwarder queueing raw replies), over streams (any segmentation) and
//     datagrams, reply sizes shrinking, growing, equal, random. Oracle ("each
//     client receives exactly the reply its handler wrote - no mixing across
//     requests ... or recycled receive buffers"): after the last read every
//     result still is the reply it was when it was returned.
//
//  3. restarted-server: ONE dns.Server value started, shut down, reconfigured
//     (UDPSize up and down, Handler, TsigSecret, MsgAcceptFunc) and started again
//     (the library supports that), 2-4 lives, UDP and TCP. Oracle: in every life
//     each request that fits the UDPSize of THAT life reaches the handler of THAT
//     life intact, exactly once, with the TSIG verdict under the secrets of that
//     life, and its client receives exactly the reply that handler wrote.

import (
	"bytes"
	"crypto/sha1"
	"encoding/base64"
	"fmt"
	"runtime"
	"strings"
	"sync"
	"time"

	"github.com/miekg/dns"
	. "verif/harness/common"
	"verif/harness/netfake"
)

// ------------------------------------------------------------------ 1. stream-tsig

func runStreamTsigOne(r *Rng, provider bool) {
	mode := fmt.Sprintf("scripted-tcp,tsig=%s", map[bool]string{false: "TsigSecret", true: "TsigProvider"}[provider])
	var plans [][]tsKind
	for a := tsKind(0); a < tkKinds; a++ {
		for b := tsKind(0); b < tkKinds; b++ {
			var p []tsKind
			for i := r.Intn(3); i > 0 && r.Intn(2) == 0; i-- {
				p = append(p, tsKind(r.Intn(int(tkKinds))))
			}
			p = append(p, a, b)
			if r.Intn(2) == 0 {
				p = append(p, tsKind(r.Intn(int(tkKinds))))
			}
			plans = append(plans, p)
		}
	}
	for i := 0; i < 4; i++ {
		var p []tsKind
		for j := 5 + r.Intn(8); j > 0; j-- {
			p = append(p, tsKind(r.Intn(int(tkKinds))))
		}
		plans = append(plans, p)
	}
	n := 0
	for _, p := range plans {
		n += len(p)
	}
	run := &tsRun{n: n, reqs: make([]*tsReq, 0, n), fl: &tsFlight{inFlight: map[*byte]int{}, bufOf: map[int]*byte{}}}
	secrets := map[string]string{}
	reqs := make([][]*tsReq, len(plans))
	conns := make([]*netfake.Conn, len(plans))
	hist := make([]string, len(plans))
	l := netfake.NewListener()
	for c, p := range plans {
		var stream []byte
		var bounds []int
		var names []string
		for _, kind := range p {
			k := len(run.reqs)
			limit := []int{500, 1400, 4000}[r.Intn(3)]
			q := mkTsigReq(r, k, kind, tpNone, limit)
			if q == nil {
				q = mkTsigReq(r, k, kind, tpNone, 4000)
			}
			if q == nil {
				stat["streamtsig_gen_failed"]++
				return
			}
			run.reqs = append(run.reqs, q)
			reqs[c] = append(reqs[c], q)
			if q.kind != tkBadKey {
				secrets[q.key] = q.secret
			}
			bounds = append(bounds, len(stream))
			stream = append(stream, frame(q.wire)...)
			names = append(names, tsKindNames[kind])
		}
		hist[c] = strings.Join(names, ",")
		conns[c] = netfake.NewConn(cut(genSizes(r, len(stream), bounds), stream))
		conns[c].Remote = netfake.Addr{N: c}
		l.Add(conns[c])
	}
	x := &badList{}
	add := func(c int, q *tsReq, s string) {
		s = fmt.Sprintf("connection %d [%s]: %s", c, hist[c], s)
		if q != nil {
			x.add(&richRequest{wire: q.wire, kinds: []string{tsKindNames[q.kind]}}, s)
		} else {
			x.add(nil, s)
		}
	}
	var mu sync.Mutex
	pos := make([]int, len(plans))
	h := func(w dns.ResponseWriter, req *dns.Msg) {
		status := w.TsigStatus()
		a, ok := w.RemoteAddr().(netfake.Addr)
		if !ok || a.N < 0 || a.N >= len(plans) {
			x.add(nil, fmt.Sprintf("handler called for unknown peer %v", w.RemoteAddr()))
			return
		}
		c := a.N
		mu.Lock()
		s := pos[c]
		pos[c]++
		mu.Unlock()
		if s >= len(reqs[c]) {
			add(c, nil, fmt.Sprintf("a handler was called for a request number %d, the connection carried %d", s, len(reqs[c])))
			return
		}
		q := reqs[c][s]
		prev := "it is the first request of its connection"
		if s > 0 {
			prev = "the request before it on the same connection was " + tsKindNames[reqs[c][s-1].kind]
		}
		desc := fmt.Sprintf("request %d (%s)", s, tsKindNames[q.kind])
		if d := tsDiff(q.ref, req); d != "" {
			add(c, q, fmt.Sprintf("%s on entry of its handler, which was given ID %d: %s", desc, req.Id, d))
		}
		if q.wantOK() && status != nil {
			add(c, q, fmt.Sprintf("%s: its client signed it correctly (or not at all), the handler is told TsigStatus() = %v; %s", desc, status, prev))
		}
		if !q.wantOK() && status == nil {
			add(c, q, fmt.Sprintf("%s: its client's signature is not valid, the handler is told TsigStatus() = nil; %s", desc, prev))
		}
		rep := echoReply(req)
		if status != nil && rep.IsTsig() != nil {
			rep.Extra = rep.Extra[:len(rep.Extra)-1]
		}
		w.WriteMsg(rep)
		if s2 := w.TsigStatus(); (s2 == nil) != (status == nil) {
			add(c, q, fmt.Sprintf("%s: TsigStatus() changed from %v to %v during its handler", desc, status, s2))
		}
	}
	srv := &dns.Server{Listener: l, Handler: dns.HandlerFunc(h), MsgAcceptFunc: acceptAll, MaxTCPQueries: -1}
	if provider {
		srv.TsigProvider = &tsProvider{run}
	} else {
		srv.TsigSecret = secrets
	}
	done := make(chan error, 1)
	go func() { done <- srv.ActivateAndServe() }()
	complete := true
	for _, c := range conns {
		if !netfake.WaitClosed(c, infraWait) {
			complete = false
			break
		}
	}
	sd := make(chan struct{})
	go func() { srv.Shutdown(); close(sd) }()
	if !netfake.WaitChan(sd, 3*infraWait) {
		stat["infra_timeout"]++
		return
	}
	<-done
	if !complete {
		stat["infra_timeout"]++
	}
	for c, fc := range conns {
		if !complete {
			break
		}
		ms, end := refParse(fc.Written(), -1)
		if end != "eof" || len(ms) != len(reqs[c]) {
			add(c, nil, fmt.Sprintf("%d reply frames (%s) for %d requests", len(ms), end, len(reqs[c])))
			continue
		}
		for s, q := range reqs[c] {
			desc := fmt.Sprintf("request %d (%s)", s, tsKindNames[q.kind])
			if !bytes.Equal(ms[s], q.reply) {
				var rep, want dns.Msg
				why := "reply does not decode"
				if rep.Unpack(append([]byte(nil), ms[s]...)) == nil {
					want.Unpack(append([]byte(nil), q.reply...))
					if why = tsDiff(&want, &rep); why == "" {
						why = "same records, other octets (the signature, if any, is not the one over this request's MAC)"
					}
				}
				add(c, q, fmt.Sprintf("reply %d is not the (signed) echo of %s: %s", s, desc, why))
			} else if q.wantOK() && q.kind != tkPlain {
				if err := dns.TsigVerify(append([]byte(nil), ms[s]...), q.secret, q.ref.IsTsig().MAC, false); err != nil {
					add(c, q, fmt.Sprintf("reply %d: the signature does not verify against %s: %v", s, desc, err))
				}
			}
			stat["streamtsig_kind_"+tsKindNames[q.kind]]++
			if s > 0 {
				stat["streamtsig_pairs"]++
			}
		}
	}
	stat["streamtsig_requests_checked"] += n
	stat["streamtsig_connections"] += len(plans)
	if len(x.bad) > 0 {
		Viol("C12/Crosstalk/stream-tsig", "requests with differing TSIG situations on ONE stream connection: a handler did not see its own request and the truth about ITS signature, or the connection did not carry the (signed) echo of each request in order",
			tsigIn{mode, "per connection, see what", x.wire, x.bad})
	}
}

// ------------------------------------------------------------------ 2. client-read-retained

type heldIn struct {
	Transport string   `json:"transport"`
	Reader    string   `json:"reader"`
	Sizes     []int    `json:"reply_sizes"`
	Chunks    string   `json:"chunk_sizes,omitempty"`
	Replies   []string `json:"replies_hex,omitempty"`
	What      []string `json:"what"`
}

func sizedReply(r *Rng, i, size int) []byte {
	tag := sha1.Sum([]byte(fmt.Sprintf("held/%d/%d", i, r.Next())))
	m := new(dns.Msg)
	m.Id = uint16(r.Next())
	m.Response = true
	name := fmt.Sprintf("r%d.%s.held.c12.", i, tagText(tag[:], 0, 8))
	m.Question = []dns.Question{{Name: name, Qtype: dns.TypeTXT, Qclass: 1}}
	rest := size - 12 - (len(name) + 1 + 4)
	for j := byte(0); rest > 14; j++ {
		// one TXT record: name pointer would need compression, keep full names off: use the root-relative short owner
		n := rest - 13
		if n > 700 {
			n = 700
		}
		var txt []string
		body := tagText(tag[:], 10+j, n)
		for len(body) > 0 {
			k := len(body)
			if k > 255 {
				k = 255
			}
			txt = append(txt, body[:k])
			body = body[k:]
		}
		rr := &dns.TXT{Hdr: dns.RR_Header{Name: ".", Rrtype: dns.TypeTXT, Class: 1, Ttl: uint32(i)}, Txt: txt}
		m.Answer = append(m.Answer, rr)
		rest -= dns.Len(rr)
	}
	b, err := m.Pack()
	if err != nil {
		return nil
	}
	return b
}

func runHeldReadsOne(r *Rng, withHex bool) {
	n := 2 + r.Intn(9)
	sizes := make([]int, n)
	base := 40 + r.Intn(1500)
	pattern := r.Intn(5)
	for i := range sizes {
		switch pattern {
		case 0: // shrinking
			sizes[i] = base + (n-i)*(1+r.Intn(120))
		case 1: // growing
			sizes[i] = base + i*(1+r.Intn(120))
		case 2: // all the same
			sizes[i] = base
		case 3: // a long one first, then short ones
			sizes[i] = 40 + r.Intn(60)
			if i == 0 {
				sizes[i] = 600 + r.Intn(3000)
			}
		default:
			sizes[i] = 40 + r.Intn(3500)
		}
	}
	wires := make([][]byte, n)
	refs := make([]*dns.Msg, n)
	var stream []byte
	var bounds []int
	for i := range wires {
		wires[i] = sizedReply(r, i, sizes[i])
		refs[i] = new(dns.Msg)
		if wires[i] == nil || refs[i].Unpack(append([]byte(nil), wires[i]...)) != nil {
			stat["held_gen_failed"]++
			return
		}
		sizes[i] = len(wires[i])
		bounds = append(bounds, len(stream))
		stream = append(stream, frame(wires[i])...)
	}
	chunkSizes := genSizes(r, len(stream), bounds)
	for _, transport := range []string{"stream", "datagram"} {
		for _, reader := range []string{"ReadMsgHeader", "Read", "ReadMsg"} {
			co := new(dns.Conn)
			if transport == "stream" {
				co.Conn = netfake.NewConn(cut(chunkSizes, stream))
			} else {
				in := make([][]byte, n)
				for i := range in {
					in[i] = append([]byte(nil), wires[i]...)
				}
				co.Conn = netfake.NewDgramConn(in)
				co.UDPSize = 8192
			}
			var bad []string
			addBad := func(s string) {
				if len(bad) < 5 {
					bad = append(bad, s)
				}
			}
			held := make([][]byte, n)
			hdrs := make([]dns.Header, n)
			msgs := make([]*dns.Msg, n)
			atRead := make([]bool, n) // result i was its reply when it was returned
			got := 0
			for i := 0; i < n; i++ {
				var err error
				switch reader {
				case "ReadMsgHeader":
					held[i], err = co.ReadMsgHeader(&hdrs[i])
					atRead[i] = err == nil && bytes.Equal(held[i], wires[i]) && hdrs[i].Id == refs[i].Id
				case "Read":
					buf := make([]byte, sizes[i]+r.Intn(3)*r.Intn(600))
					var k int
					k, err = co.Read(buf)
					if err == nil {
						held[i] = buf[:k]
					}
					atRead[i] = err == nil && bytes.Equal(held[i], wires[i])
				default:
					msgs[i], err = co.ReadMsg()
					atRead[i] = err == nil && msgDiff(refs[i], msgs[i]) == ""
				}
				if err != nil {
					addBad(fmt.Sprintf("read %d of %d failed: %v", i, n, err))
					break
				}
				if !atRead[i] {
					addBad(fmt.Sprintf("read %d returned something else than reply %d", i, i))
				}
				got++
			}
			// all results are still held: each must still be its own reply
			for i := 0; i < got; i++ {
				if !atRead[i] {
					continue
				}
				if reader == "ReadMsg" {
					if d := msgDiff(refs[i], msgs[i]); d != "" {
						addBad(fmt.Sprintf("the message returned by read %d was reply %d when it was returned and changed during the %d later reads on the same connection: %s", i, i, got-1-i, d))
					}
					continue
				}
				if !bytes.Equal(held[i], wires[i]) {
					what := "other octets"
					for j := range wires {
						if j != i && len(wires[j]) >= 12 && len(held[i]) >= 12 && bytes.HasPrefix(held[i], wires[j][:min(len(wires[j]), len(held[i]))]) {
							what = fmt.Sprintf("(the beginning of) reply %d", j)
						}
					}
					addBad(fmt.Sprintf("the octets returned by read %d were reply %d when they were returned; after the %d later reads on the same connection they are %s", i, i, got-1-i, what))
				}
				if reader == "ReadMsgHeader" && hdrs[i].Id != refs[i].Id {
					addBad(fmt.Sprintf("the header returned by read %d changed during later reads", i))
				}
			}
			stat["held_reads_checked"] += got
			stat["held_runs_"+transport+"_"+reader]++
			if len(bad) > 0 {
				in := heldIn{Transport: transport, Reader: "Conn." + reader, Sizes: sizes, What: bad}
				if transport == "stream" {
					in.Chunks = sizesString(chunkSizes)
				}
				if withHex {
					for _, w := range wires {
						in.Replies = append(in.Replies, Hx(w))
					}
				}
				Viol("C12/Crosstalk/client-read-retained", "several replies read from ONE connection with the earlier results still held: a result is not (or no longer) the reply it was returned for",
					in)
			}
		}
	}
}

// ------------------------------------------------------------------ 3. restarted-server

type restartIn struct {
	Transport string   `json:"transport"`
	Lives     []string `json:"lives"`
	Request   string   `json:"request_hex,omitempty"`
	What      []string `json:"what"`
}

const restartKey = "restart.tsig.c12."

type restartReq struct {
	wire   []byte
	ref    *dns.Msg
	reply  []byte
	signed int // 0 unsigned, 1 with the secret of this life, 2 with the secret of another life
	called int
	fits   bool
}

// paddedRequest builds a request whose packed form (signed with secret when that
// is not empty) has exactly size octets where possible (EDNS0 padding with octets
// unique to the request), else the smallest one.
func paddedRequest(r *Rng, life, k, size int, secret string) []byte {
	tag := sha1.Sum([]byte(fmt.Sprintf("restart/%d/%d/%d", life, k, r.Next())))
	name := fmt.Sprintf("l%d-q%d.%s.restart.c12.", life, k, tagText(tag[:], 0, 10))
	now := time.Now().Unix()
	build := func(pad int) []byte {
		m := new(dns.Msg)
		m.SetQuestion(name, dns.TypeTXT)
		m.Id = uint16(k)
		if pad >= 0 {
			opt := &dns.OPT{Hdr: dns.RR_Header{Name: ".", Rrtype: dns.TypeOPT}}
			opt.SetUDPSize(4096)
			opt.Option = append(opt.Option, &dns.EDNS0_PADDING{Padding: tagBytes(tag[:], 'P', pad)})
			m.Extra = append(m.Extra, opt)
		}
		var b []byte
		var err error
		if secret != "" {
			m.SetTsig(restartKey, dns.HmacSHA256, 300, now)
			b, _, err = dns.TsigGenerate(m, secret, "", false)
		} else {
			b, err = m.Pack()
		}
		if err != nil {
			return nil
		}
		return b
	}
	b0 := build(0)
	if b0 == nil || size < len(b0) {
		if r.Bool() {
			return build(-1)
		}
		return b0
	}
	return build(size - len(b0))
}

func lifeReply(life int, req *dns.Msg) *dns.Msg {
	rep := echoReply(req)
	if rep.IsTsig() != nil {
		rep.Extra = rep.Extra[:len(rep.Extra)-1]
	}
	rep.Answer = append([]dns.RR{&dns.TXT{Hdr: dns.RR_Header{Name: req.Question[0].Name, Rrtype: dns.TypeTXT, Class: 1, Ttl: uint32(life)},
		Txt: []string{fmt.Sprintf("answered-by-the-handler-of-life-%d", life)}}}, rep.Answer...)
	return rep
}

// flush: two garbage collections between the lives, which empty every sync.Pool:
// the new life cannot be handed a receive buffer left behind by the life before.
func runRestartOne(r *Rng, udp bool, flush bool) {
	transport := map[bool]string{true: "scripted-udp", false: "scripted-tcp"}[udp]
	if udp && !flush {
		transport += ",no-gc-between-lives"
	}
	lives := 2 + r.Intn(3)
	udpSizes := []int{0, 512, 700, 1232, 4096, 8192}
	srv := &dns.Server{MaxTCPQueries: -1}
	x := &badList{}
	var lifeDesc []string
	prevSize := -1
	prevSecret := ""
	for life := 0; life < lives; life++ {
		size := udpSizes[r.Intn(len(udpSizes))]
		for size == prevSize { // the configuration changes between the lives
			size = udpSizes[r.Intn(len(udpSizes))]
		}
		if life == 1 && r.Bool() && prevSize != 4096 && prevSize != 8192 {
			size = []int{4096, 8192}[r.Intn(2)] // growing is the direction in which a stale size loses requests
			if prevSize == size {
				size = 8192
			}
		}
		eff := size
		if eff == 0 {
			eff = dns.MinMsgSize
		}
		effPrev := prevSize
		if effPrev <= 0 {
			effPrev = dns.MinMsgSize
		}
		stag := sha1.Sum([]byte(fmt.Sprintf("restart-secret/%d/%d", life, r.Next())))
		secret := base64.StdEncoding.EncodeToString(tagBytes(stag[:], 's', 16+8*r.Intn(3)))
		desc := fmt.Sprintf("life %d: UDPSize=%d", life, size)
		lifeDesc = append(lifeDesc, desc)
		nreq := 6 + r.Intn(10)
		reqs := make([]*restartReq, 0, nreq)
		var in [][]byte
		for k := 0; k < nreq; k++ {
			var target int
			switch r.Intn(6) {
			case 0:
				target = 0
			case 1: // both sides of the previous life's size
				target = effPrev - 2 + r.Intn(5)
			case 2: // up to exactly this life's size
				target = eff - r.Intn(3)
			case 3:
				target = eff + 1 + r.Intn(40)
			default:
				target = 30 + r.Intn(eff)
			}
			if !udp {
				target = []int{0, 100, 600, 3000, 20000}[r.Intn(5)] + r.Intn(500)
			}
			q := &restartReq{}
			signed := 0
			s := ""
			if r.Intn(3) == 0 {
				signed, s = 1, secret
				if prevSecret != "" && r.Bool() {
					signed, s = 2, prevSecret
				}
			}
			q.wire = paddedRequest(r, life, k, target, s)
			var err error
			if q.wire == nil {
				stat["restart_gen_failed"]++
				continue
			}
			q.signed = signed
			q.ref = new(dns.Msg)
			ref2 := new(dns.Msg)
			if err != nil || q.ref.Unpack(append([]byte(nil), q.wire...)) != nil || ref2.Unpack(append([]byte(nil), q.wire...)) != nil {
				stat["restart_gen_failed"]++
				continue
			}
			if q.reply, err = lifeReply(life, ref2).Pack(); err != nil {
				stat["restart_gen_failed"]++
				continue
			}
			q.fits = !udp || len(q.wire) <= eff
			if !udp && len(q.wire) > 65535 {
				continue
			}
			reqs = append(reqs, q)
			in = append(in, q.wire)
		}
		add := func(q *restartReq, s string) {
			s = desc + ": " + s
			if q != nil {
				x.add(&richRequest{wire: q.wire, kinds: []string{desc}}, s)
			} else {
				x.add(nil, s)
			}
		}
		myLife := life
		var mu sync.Mutex
		tcpPos := 0
		accepted := 0
		srv.UDPSize = size
		srv.TsigSecret = map[string]string{restartKey: secret}
		srv.MsgAcceptFunc = func(dns.Header) dns.MsgAcceptAction {
			mu.Lock()
			accepted++
			mu.Unlock()
			return dns.MsgAccept
		}
		srv.Handler = dns.HandlerFunc(func(w dns.ResponseWriter, req *dns.Msg) {
			status := w.TsigStatus()
			var k int
			if udp {
				a, ok := w.RemoteAddr().(netfake.Addr)
				if !ok || a.N < 0 || a.N >= len(reqs) {
					add(nil, fmt.Sprintf("handler called for unknown peer %v", w.RemoteAddr()))
					return
				}
				k = a.N
			} else {
				mu.Lock()
				k = tcpPos
				tcpPos++
				mu.Unlock()
				if k >= len(reqs) {
					add(nil, "handler called more often than the connection carried requests")
					return
				}
			}
			q := reqs[k]
			mu.Lock()
			q.called++
			mu.Unlock()
			if q.fits {
				if d := msgDiff(q.ref, req); d != "" {
					add(q, fmt.Sprintf("request %d (%d octets) as its handler was given it: %s", k, len(q.wire), d))
				}
				if (status == nil) != (q.signed != 2) {
					add(q, fmt.Sprintf("request %d (%s): the handler is told TsigStatus() = %v", k,
						[]string{"unsigned", "signed with the secret configured for this life", "signed with the secret of the life before"}[q.signed], status))
				}
			}
			w.WriteMsg(lifeReply(myLife, req))
		})
		var pc *netfake.PacketConn
		var fc *netfake.Conn
		if udp {
			pc = netfake.NewPacketConn(in, nil)
			srv.PacketConn = pc
		} else {
			var stream []byte
			var bounds []int
			for _, w := range in {
				bounds = append(bounds, len(stream))
				stream = append(stream, frame(w)...)
			}
			fc = netfake.NewConn(cut(genSizes(r, len(stream), bounds), stream))
			srv.Listener = netfake.NewListener(fc)
		}
		done := make(chan error, 1)
		go func() { done <- srv.ActivateAndServe() }()
		var ok bool
		if udp {
			ok = netfake.WaitChan(pc.Drained, infraWait)
		} else {
			ok = netfake.WaitClosed(fc, infraWait)
		}
		// Shutdown waits for the handlers that are still running; the server may not have
		// marked itself started yet when the script is short
		sd := make(chan error, 1)
		go func() {
			var err error
			for t0 := time.Now(); time.Since(t0) < infraWait; time.Sleep(time.Millisecond) {
				if err = srv.Shutdown(); err == nil {
					break
				}
			}
			sd <- err
		}()
		select {
		case err := <-sd:
			if err != nil {
				ok = false
			}
		case <-time.After(3 * infraWait):
			stat["infra_timeout"]++
			return
		}
		select {
		case <-done:
		case <-time.After(infraWait):
			stat["infra_timeout"]++
			return
		}
		if !ok {
			stat["infra_timeout"]++
			return
		}
		// the clients' side
		replies := make([][][]byte, len(reqs))
		if udp {
			for _, w := range pc.Writes() {
				if a, isA := w.To.(netfake.Addr); isA && a.N >= 0 && a.N < len(reqs) {
					replies[a.N] = append(replies[a.N], w.Data)
				} else {
					add(nil, fmt.Sprintf("a reply was sent to %v, which is no client of this life", w.To))
				}
			}
		} else {
			ms, end := refParse(fc.Written(), -1)
			if end != "eof" || len(ms) != len(reqs) {
				add(nil, fmt.Sprintf("%d reply frames (%s) for %d requests on the connection", len(ms), end, len(reqs)))
			} else {
				for k := range reqs {
					replies[k] = [][]byte{ms[k]}
				}
			}
		}
		mu.Lock()
		for k, q := range reqs {
			if !q.fits {
				stat["restart_requests_above_udpsize"]++
				continue
			}
			stat["restart_requests_checked"]++
			if life > 0 {
				stat["restart_requests_checked_after_restart"]++
				if udp && len(q.wire) > effPrev {
					stat["restart_requests_above_previous_udpsize"]++
				}
			}
			if q.called != 1 {
				add(q, fmt.Sprintf("request %d (%d octets, within UDPSize %d) reached the handler of this life %d times", k, len(q.wire), eff, q.called))
			}
			if len(replies[k]) != 1 {
				add(q, fmt.Sprintf("client %d (request of %d octets) received %d replies", k, len(q.wire), len(replies[k])))
				continue
			}
			if !bytes.Equal(replies[k][0], q.reply) {
				var rep, want dns.Msg
				why := "reply does not decode"
				if rep.Unpack(append([]byte(nil), replies[k][0]...)) == nil {
					want.Unpack(append([]byte(nil), q.reply...))
					if why = msgDiff(&want, &rep); why == "" {
						why = "same records, other octets"
					}
				}
				add(q, fmt.Sprintf("client %d (request of %d octets, UDPSize of this life %d, of the life before %d) did not receive the reply of this life's handler to its request: %s", k, len(q.wire), eff, effPrev, why))
			}
		}
		mu.Unlock()
		stat["restart_lives"]++
		prevSize, prevSecret = size, secret
		if flush {
			runtime.GC()
			runtime.GC()
		}
	}
	stat["restart_servers_"+transport]++
	if len(x.bad) > 0 && udp && !flush {
		// kept apart: here the later life can also be handed buffers that the earlier life
		// left in the pool
		Viol("C12/Crosstalk/restarted-server-buffers-left-in-pool", "a UDP Server value shut down, reconfigured and started again at once (no garbage collection in between): in its later life a request within the configured size did not reach that life's handler intact, or its client did not receive that handler's reply",
			restartIn{transport, lifeDesc, x.wire, x.bad})
	} else if len(x.bad) > 0 {
		Viol("C12/Crosstalk/restarted-server", "a Server value shut down, reconfigured and started again: in its later life a request within the configured size did not reach that life's handler intact, or its client did not receive that handler's reply",
			restartIn{transport, lifeDesc, x.wire, x.bad})
	}
}

func runStreamSeq(r0 *Rng, tier string) {
	// a private generator: the histories of the other classes stay what they were
	r := &Rng{S: r0.S ^ 0x5e9c12d1a5}
	k := 1
	if tier == "thorough" {
		k = 8
	}
	for i := 0; i < k; i++ {
		runStreamTsigOne(r, false)
		runStreamTsigOne(r, true)
	}
	for i := 0; i < 60*k; i++ {
		runHeldReadsOne(r, i < 10)
	}
	for i := 0; i < 16*k; i++ {
		runRestartOne(r, i%4 != 3, i%4 != 0)
	}
}
