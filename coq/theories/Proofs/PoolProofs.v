(* Proofs/PoolProofs.v — invariant of Model/PoolLts.v: for every interleaving
   each handler sees exactly the octets its client sent. *)
From Dns Require Import Model.PoolLts.
From Coq Require Import Lia Permutation.
Open Scope N_scope.

Definition ok_req (bufs : nat -> bytes) (r : req) : Prop :=
  match r_stage r with
  | Reading b => bufs b = r_sent r
  | Decoded m => m = r_sent r
  | Done m => m = r_sent r
  | Dropped => True
  end.

(* a buffer is in the pool or occupied by at most one undecoded request, never both *)
Definition inv (s : pstate) : Prop :=
  NoDup (free s ++ reading_bids (reqs s)) /\ Forall (ok_req (bufs s)) (reqs s).

Lemma reading_bids_app a b : reading_bids (a ++ b) = reading_bids a ++ reading_bids b.
Proof. unfold reading_bids. apply flat_map_app. Qed.

Lemma NoDup_filter {A} (f : A -> bool) l : NoDup l -> NoDup (filter f l).
Proof.
  induction 1 as [|x l Hx _ IH]; cbn; [constructor|].
  destruct (f x); [constructor; [|exact IH]|exact IH].
  intro Hin. apply filter_In in Hin. tauto.
Qed.

Lemma NoDup_snoc {A} (l : list A) x : NoDup l -> ~ In x l -> NoDup (l ++ [x]).
Proof.
  intros Hnd Hx. induction Hnd as [|y l Hy _ IH]; cbn; [constructor; [intros []|constructor]|].
  constructor.
  - intro Hin. apply in_app_or in Hin. destruct Hin as [Hin|[->|[]]]; [exact (Hy Hin)|].
    apply Hx. left. reflexivity.
  - apply IH. intro Hin. apply Hx. right. exact Hin.
Qed.

Lemma inv_initial s : initial s -> inv s.
Proof. intros [Hf Hr]. unfold inv. rewrite Hf, Hr. split; constructor. Qed.

Lemma inv_step s s' : inv s -> step s s' -> inv s'.
Proof.
  intros [Hnd Hok] Hst. destruct Hst as [s d bid Hfresh|s l1 l2 sent bid Hr|s l1 l2 sent bid Hr|s l1 l2 sent m Hr];
    unfold inv; cbn [free reqs bufs].
  - (* recv *)
    split.
    + rewrite reading_bids_app. cbn [reading_bids flat_map r_stage app].
      rewrite app_assoc.
      assert (Hnd' : NoDup (filter (fun b => negb (Nat.eqb b bid)) (free s) ++ reading_bids (reqs s))).
      { clear Hok. revert Hnd. generalize (reading_bids (reqs s)) as rb. intro rb.
        induction (free s) as [|x l IH]; intro Hnd; [exact Hnd|].
        cbn in *. inversion Hnd as [|? ? Hx Hnd2]; subst.
        destruct (Nat.eqb x bid); cbn; [apply IH; exact Hnd2|].
        constructor; [|apply IH; exact Hnd2].
        intro Hin. apply Hx. apply in_app_or in Hin. apply in_or_app.
        destruct Hin as [Hin|Hin]; [left; apply filter_In in Hin; tauto|right; exact Hin]. }
      apply NoDup_snoc; [exact Hnd'|].
      intro Hin. apply in_app_or in Hin. destruct Hin as [Hin|Hin]; [|exact (Hfresh Hin)].
      apply filter_In in Hin. destruct Hin as [_ Hne]. rewrite Nat.eqb_refl in Hne. discriminate.
    + apply Forall_app. split.
      * rewrite Forall_forall in *. intros r Hin. specialize (Hok r Hin). unfold ok_req in *.
        destruct (r_stage r) as [b| | |] eqn:Es; try exact Hok.
        unfold upd. destruct (Nat.eqb_spec b bid) as [->|Hne]; [|exact Hok].
        exfalso. apply Hfresh. unfold reading_bids. apply in_flat_map. exists r. rewrite Es. split; [exact Hin|left; reflexivity].
      * constructor; [|constructor]. unfold ok_req, upd. cbn. rewrite Nat.eqb_refl. reflexivity.
  - (* decode *)
    rewrite Hr in *. rewrite reading_bids_app in *. cbn [reading_bids flat_map r_stage app] in *.
    split.
    + apply (Permutation_NoDup (l := free s ++ reading_bids l1 ++ bid :: reading_bids l2)); [|exact Hnd].
      cbn. rewrite !app_assoc. symmetry. apply Permutation_middle.
    + apply Forall_app in Hok. destruct Hok as [H1 H2]. inversion H2 as [|? ? Hx H2']; subst.
      apply Forall_app. split; [exact H1|]. constructor; [|exact H2'].
      unfold ok_req in *. cbn in *. exact Hx.
  - (* drop *)
    rewrite Hr in *. rewrite reading_bids_app in *. cbn [reading_bids flat_map r_stage app] in *.
    split.
    + apply (Permutation_NoDup (l := free s ++ reading_bids l1 ++ bid :: reading_bids l2)); [|exact Hnd].
      cbn. rewrite !app_assoc. symmetry. apply Permutation_middle.
    + apply Forall_app in Hok. destruct Hok as [H1 H2]. inversion H2 as [|? ? Hx H2']; subst.
      apply Forall_app. split; [exact H1|]. constructor; [exact I|exact H2'].
  - (* handle *)
    rewrite Hr in *. rewrite reading_bids_app in *. cbn [reading_bids flat_map r_stage app] in *.
    split; [exact Hnd|].
    apply Forall_app in Hok. destruct Hok as [H1 H2]. inversion H2 as [|? ? Hx H2']; subst.
    apply Forall_app. split; [exact H1|]. constructor; [exact Hx|exact H2'].
Qed.

Lemma inv_reachable s0 s : initial s0 -> reachable s0 s -> inv s.
Proof.
  intros Hi Hr. induction Hr as [|s s' _ IH Hst]; [apply inv_initial; exact Hi|].
  exact (inv_step s s' IH Hst).
Qed.

(* For every interleaving of receive / decode / recycle / handle steps of any
   number of requests: a handler that ran saw exactly the octets that request's
   client sent, and a request still waiting in a buffer has its own octets there. *)
Lemma handler_sees_own s0 s r :
  initial s0 -> reachable s0 s -> In r (reqs s) ->
  match r_stage r with
  | Done m => m = r_sent r
  | Decoded m => m = r_sent r
  | Reading b => bufs s b = r_sent r /\ ~ In b (free s)
  | Dropped => True
  end.
Proof.
  intros Hi Hr Hin. destruct (inv_reachable s0 s Hi Hr) as [Hnd Hok].
  rewrite Forall_forall in Hok. specialize (Hok r Hin). unfold ok_req in Hok.
  destruct (r_stage r) as [b| | |] eqn:Es; try exact Hok.
  split; [exact Hok|]. intro Hf.
  assert (Hb : In b (reading_bids (reqs s))).
  { unfold reading_bids. apply in_flat_map. exists r. rewrite Es. split; [exact Hin|left; reflexivity]. }
  clear -Hnd Hf Hb. induction (free s) as [|x l IH]; [destruct Hf|].
  cbn in Hnd. inversion Hnd as [|? ? Hx Hnd']; subst. destruct Hf as [->|Hf].
  - apply Hx. apply in_or_app. right. exact Hb.
  - exact (IH Hnd' Hf).
Qed.

(* a run with two requests whose steps interleave and whose second request
   re-uses the first one's buffer while the first handler has not run yet *)
Example ex_pool_run :
  let s0 := mkP (fun _ => []) [] [] in
  initial s0 /\
  exists s, reachable s0 s /\
            map r_stage (reqs s) = [Done [1; 2]; Reading 0] /\ bufs s 0%nat = [3; 4].
Proof.
  cbv zeta. split; [split; reflexivity|].
  set (s0 := mkP (fun _ => []) [] []).
  assert (R0 : reachable s0 s0) by apply ReachRefl.
  pose proof (ReachStep s0 _ _ R0 (StRecv s0 [1; 2] 0%nat (fun H => H))) as R1. cbn in R1.
  lazymatch type of R1 with reachable _ ?s =>
    pose proof (ReachStep s0 _ _ R1 (StDecode s [] [] [1; 2] 0%nat eq_refl)) as R2 end. cbn in R2.
  lazymatch type of R2 with reachable _ ?s =>
    pose proof (ReachStep s0 _ _ R2 (StRecv s [3; 4] 0%nat (fun H => H))) as R3 end. cbn in R3.
  lazymatch type of R3 with reachable _ ?s =>
    pose proof (ReachStep s0 _ _ R3 (StHandle s [] [mkReq [3; 4] (Reading 0)] [1; 2] [1; 2] eq_refl)) as R4 end.
  cbn in R4.
  eexists. split; [exact R4|]. cbn. auto.
Qed.
