(* Corr/C18.v — case runner for the SIG(0) model. *)
From Dns Require Import Model.Sig0.
Open Scope N_scope.

Fixpoint split_aux (sep : ascii) (s : string) (cur : string) : list string :=
  match s with
  | EmptyString => [cur]
  | String c r =>
    if Ascii.eqb c sep then cur :: split_aux sep r EmptyString
    else split_aux sep r (cur +++ String c EmptyString)
  end.
Definition split_str (sep : ascii) (s : string) : list string :=
  match s with EmptyString => [] | _ => split_aux sep s EmptyString end.

Definition labels_of (w : bytes) : list label :=
  match unpack_name w 0 with Ok (ls, _) => ls | _ => [] end.

(* signing oracle: datahex:ok:sighex or datahex:err:class, filled by the harness
   from the run of the real signer; other data: a signer error *)
Definition sign_inst (desc : string) (alg : N) (data : bytes) : res bytes :=
  match split_str ":" desc with
  | [d; k; v] =>
    if bytes_eqb (unhex d) data then (if String.eqb k "ok" then Ok (unhex v) else Err v)
    else Err "wrongdata"
  | _ => Err "nosigner"
  end.
(* verification oracle: datahex:sighex:class:default with class = ok or an error class,
   computed by the harness with crypto/* called directly on its own digest input;
   anything else does not verify *)
Definition check_inst (desc : string) (alg : N) (data sg : bytes) : res unit :=
  match split_str ":" desc with
  | [d; s; v; dflt] =>
    if bytes_eqb (unhex d) data && bytes_eqb (unhex s) sg && negb (String.eqb v "") then
      (if String.eqb v "ok" then Ok tt else Err v)
    else Err dflt
  | _ => Err "sig"
  end.

Definition boolarg (s : string) : bool := String.eqb s "true".
Definition show_unit (_ : unit) : string := "".

(* alg expire incept keytag named signerwire, starting at i *)
Definition sig_args (args : list string) (i : nat) : sigrr :=
  Build_sigrr (undec (arg args i)) (undec (arg args (i + 1))) (undec (arg args (i + 2)))
              (undec (arg args (i + 3))) (boolarg (arg args (i + 4))) (labels_of (unhex (arg args (i + 5)))).

Definition run (fn : string) (args : list string) : string :=
  if String.eqb fn "sign" then
    show_res hex (sig0_sign (sign_inst (arg args 8)) (undec (arg args 0))
                            (unhex (arg args 1)) (sig_args args 2))
  else if String.eqb fn "verify" then
    show_res show_unit (sig0_verify (check_inst (arg args 9)) (sig_args args 0)
                                    (labels_of (unhex (arg args 6))) (unhex (arg args 7))
                                    (undec (arg args 8)))
  else "unknown-fn"%string.
