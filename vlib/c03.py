from .core import Check


class C03(Check):
    prop = "C03"
    props_rel = "Props/C03"
    corr_module = "Corr.C03"
    corr_rel = "Corr/C03"
    gen_rels = ["Gen/Consts"]
    model_desc = ("Model/NameWire.v: packDomainName (escape reader, label/length checks, 255-octet accounting, "
                  "compression map), UnpackDomainName (budget, pointer-hop limit, escaping printer), IsDomainName, "
                  "IsFqdn modelled statement by statement; Model/Name.v: presentation form of wire labels")
    rule = ("direct oracles: all 256 octet values x first/middle/last position; label shapes with total wire length "
            "248..262 x first label 58..66 octets; labels of 0/63..66 octets; every \\\\c and \\\\DDD spelling (000..999); "
            "dangling escapes; random FQDN/non-FQDN strings (short, around 255, long) checked against an independent "
            "left-to-right reader: IsDomainName <-> PackDomainName accepts <-> (no empty label, labels<=63, wire<=255), "
            "pack octets = denoted labels, unpack(pack) accepted and re-packs identically, non-FQDN refused. Model "
            "cases: a sample of all of these plus wire inputs with pointer chains (125..128 hops), self pointers, "
            "truncations and bit flips, and exact/one-short buffer capacities. Non-trivial: input longer than 2 octets.")
    trusted = ["IsFqdn is modelled octet by octet (since fix a528a12 the implementation counts the backslashes octet by octet too)"]

    def nontrivial(self, c):
        return len(c["args"][0]) > 4


CHECK = C03()
