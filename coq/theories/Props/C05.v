(* Props/C05.v — property C05 (presentation text is a faithful, re-readable
   encoding of every record).  Only statements; each is closed by [exact] of a
   lemma proved in Proofs/Present*.v.  The model is Model/Present.v. *)
From Dns Require Import Model.Present.
From Dns Require Import Proofs.PresentEscProofs Proofs.PresentCodeProofs Proofs.PresentLexProofs Proofs.PresentTxtProofs
     Proofs.PresentWordProofs Proofs.PresentAtomProofs Proofs.PresentGrammarProofs Proofs.PresentRecordProofs.
Open Scope N_scope.

(* ---- character-strings: all 256 octet values, any length ---- *)

(* What unpackString makes of wire octets is read back by packTxtString as
   the same octets. *)
Theorem c05_unpack_pack_string :
  forall w : bytes, wfb w -> unescape (esc_wire w) = w.
Proof. exact unescape_esc_wire. Qed.

(* sprintTxt prints the canonical escaping of what the in-memory string
   denotes, whatever escapes (or raw octets) the string itself uses; so the
   printed text denotes the same octets. *)
Theorem c05_sprint_txt_is_canonical :
  forall s : bytes, wfb s ->
    sprint_txt_body s = esc_wire (unescape s) /\ unescape (sprint_txt_body s) = unescape s.
Proof. intros s H. split; [apply sprint_txt_body_spec|now apply unescape_sprint_txt_body]. Qed.

(* A list of character-strings of at most 255 octets each (any octets, any
   number of strings), as unpacked from the wire, printed by sprintTxt, split
   by the zone lexer and collected by endingToTxtSlice (255-octet chunking
   included), yields the same in-memory strings, which denote the same octets. *)
Theorem c05_txt_escape_roundtrip :
  forall ws : list bytes,
    Forall (fun w => wfb w /\ (length w <= 255)%nat) ws ->
    ending_to_txt_slice (lex_rdata (sprint_txt (map esc_wire ws) ++ [10])) = Ok (map esc_wire ws) /\
    map unescape (map esc_wire ws) = ws.
Proof. exact txt_escape_roundtrip. Qed.

(* The same for strings a caller put into the struct in any spelling. *)
Theorem c05_txt_print_read :
  forall ss : list bytes,
    Forall (fun s => wfb s /\ (length (unescape s) <= 255)%nat) ss ->
    ending_to_txt_slice (lex_rdata (sprint_txt ss ++ [10])) = Ok (map sprint_txt_body ss) /\
    map unescape (map sprint_txt_body ss) = map unescape ss.
Proof. exact txt_print_read. Qed.

(* ---- the lexer on printed RDATA ---- *)

(* Words without unescaped separators and quoted strings whose quotes are all
   escaped, joined by single blanks and ended by a newline, are delivered by
   zlexer.Next as exactly those tokens (quotes, backslash-quote, double
   backslash, \DDD, semicolons, parentheses and blanks inside quotes). *)
Theorem c05_lexer_on_printed :
  forall l : list item, forallb item_ok l = true ->
    lex_rdata (render_items l ++ [10]) = items_toks l ++ [TNewline].
Proof. exact lexer_on_printed. Qed.

(* ---- decimal integers ---- *)

(* strconv.Itoa then strconv.ParseUint: every number that fits the field. *)
Theorem c05_decimal_roundtrip :
  forall n bits : N, n < 2 ^ bits -> parse_uint (dec_bytes n) bits = Some n.
Proof. exact parse_uint_dec. Qed.

(* A TTL printed in decimal is read back by stringToTTL. *)
Theorem c05_ttl_roundtrip :
  forall n : N, n < 4294967296 -> string_to_ttl (dec_bytes n) = Some n.
Proof. exact string_to_ttl_dec. Qed.

(* ---- type and class code points: all 65536 of each ---- *)

(* TYPEnnn in any letter case is read as type nnn, for every code point. *)
Theorem c05_TYPEnnn_all_codes :
  forall t p, t < 65536 -> upper_bytes p = b_TYPE ->
    classify false (p ++ dec_bytes t) = (TRrtype t (p ++ dec_bytes t), true).
Proof. exact classify_TYPEnnn. Qed.

(* CLASSnnn in any letter case is read as class nnn, for every code point. *)
Theorem c05_CLASSnnn_all_codes :
  forall c p, c < 65536 -> upper_bytes p = b_CLASS ->
    classify false (p ++ dec_bytes c) = (TClass c (p ++ dec_bytes c), false).
Proof. exact classify_CLASSnnn. Qed.

(* Type.String() of every code point except 0, 255 and 65535 is read back as
   that type (mnemonic where TypeToString has one, TYPEnnn otherwise). *)
Theorem c05_type_string_reread :
  forall t, t < 65536 -> t <> 0 -> t <> 255 -> t <> 65535 ->
    exists s, classify false (show_type t) = (TRrtype t s, true).
Proof.
  intros t Ht H0 H1 H2. apply type_string_reread; [exact Ht|]. unfold odd_type.
  destruct (N.eqb_spec t 0); [contradiction|]. destruct (N.eqb_spec t 255); [contradiction|].
  destruct (N.eqb_spec t 65535); [contradiction|]. reflexivity.
Qed.

(* The three exceptions, refuted on the faithful model: "None" is read as
   class NONE, "ANY" as class ANY, "Reserved" as an ordinary word. *)
Theorem c05_type_string_refuted :
  classify false (show_type 0) = (TClass 254 (show_type 0), false) /\
  classify false (show_type 255) = (TClass 255 (show_type 255), true) /\
  classify false (show_type 65535) = (TStr (show_type 65535), false).
Proof. exact type_string_refuted. Qed.

(* Class.String() of every code point is read back as that class (ANY is
   printed as CLASS255 because the mnemonic is also a type). *)
Theorem c05_class_string_reread :
  forall c, c < 65536 -> exists s b, classify false (show_class c) = (TClass c s, b).
Proof. exact class_string_reread. Qed.

(* In a type list (NSEC, NSEC3, CSYNC) Type.String() of every code point
   except 0 and 65535 is read back as that type. *)
Theorem c05_bitmap_type_reread :
  forall t, t < 65536 -> t <> 0 -> t <> 65535 -> bitmap_tok (show_type t) = Some t.
Proof. exact bitmap_tok_show. Qed.

(* ---- names ---- *)

(* A name in the form UnpackDomainName produces (any labels of any octets) is
   printed by sprintName unchanged, and it is one word for the lexer. *)
Theorem c05_name_from_wire :
  forall ls : list bytes, Forall wfb ls ->
    sprint_name (show_name ls) = show_name ls /\ word_ok (show_name ls) = true.
Proof. intros ls H. split; [now apply sprint_name_canonical|now apply show_name_word_ok]. Qed.

(* ---- the presentation grammar of the regular types ---- *)

(* Well-formed values (PresentGrammarProofs.wf_val): integers within their
   field width; names whose printed form is one word that toAbsoluteName
   returns as it stands; four address octets; character-strings denoting at
   most 255 octets each; hex/base64 text that is one word; types other than 0
   and 65535 in a type list; for the irregular types: strings printed verbatim
   that are one word (X25, CAA tag, NAPTR replacement) or whose quotes are all
   escaped (NAPTR flags, service, regexp); a salt whose SaltLength is what the
   parser recomputes; NSEC3 HashLength 20; SMIMEA hex text whose 1024-character
   pieces are words; CERT / RRSIG numbers within their width; RRSIG times below
   2^32 printed at a clock reading of 1970 or later; EUI48 below 2^48; EUI64,
   NID, L64 below 2^64.  Layouts (wf_playout): simple fields followed by
   at most one field reading to the end of the line, or a single field.  Then: what present_fields prints, split by the zone lexer, is
   read by parse_fields as the same values in the printer's normal form. *)
Theorem c05_present_roundtrip :
  forall (G : list pfield) (vs : list pval),
    wf_playout G = true -> Forall2 wf_val G vs ->
    parse_fields G (lex_rdata (present_fields G vs ++ [10])) = Ok (norm_all G vs).
Proof. exact present_roundtrip. Qed.

(* The normal form denotes the same octets / numbers / types (names: see
   c05_name_from_wire and c05_norm_from_wire). *)
Theorem c05_norm_denotes_same :
  forall f v, wf_val f v ->
    match f with P_name | P_names => True | _ => meaning f (norm_val f v) = meaning f v end.
Proof. exact norm_meaning. Qed.

(* Values as UnpackRR produces them are already in normal form. *)
Theorem c05_norm_from_wire :
  (forall ls, Forall wfb ls -> norm_val P_name (V_name (show_name ls)) = V_name (show_name ls)) /\
  (forall ws, Forall wfb ws -> norm_val P_qstrs (V_strs (map esc_wire ws)) = V_strs (map esc_wire ws)) /\
  (forall lss, Forall (Forall wfb) lss -> norm_val P_names (V_strs (map show_name lss)) = V_strs (map show_name lss)).
Proof. exact norm_from_wire. Qed.

(* Every layout of the table (70 types; B05b added HIP, IPSECKEY, AMTRELAY, AAAA;
   before: 66 types, the 49 regular ones and HINFO, X25,
   ISDN, SIG, NAPTR, CERT, RRSIG, NSEC3, NSEC3PARAM, SMIMEA, UINFO, NID, L64,
   EUI48, EUI64, CAA) is well-formed and belongs to a registered type. *)
Theorem c05_layouts_wf :
  forall t G, playout t = Some G -> wf_playout G = true /\ is_registered t = true.
Proof. intros t G H. split; [now apply (layouts_wf t)|now apply (proj2 layouts_registered t G)]. Qed.

(* ---- whole records ---- *)

(* The header printed by RR_Header.String (owner, TTL, class, type mnemonics)
   is read back by the lexer and ZoneParser.Next as the same four values; the
   RDATA tokens follow after one blank. *)
Theorem c05_hdr_roundtrip :
  forall h rd, hdr_ok h -> odd_type (h_type h) = false ->
    parse_hdr (lex_line (present_hdr h ++ rd)) = Ok (hdr_norm h, TBlank :: lex_rdata rd).
Proof. exact hdr_roundtrip. Qed.

(* The same with CLASSnnn and TYPEnnn, for every class and type code. *)
Theorem c05_hdr_roundtrip_numeric :
  forall h rd, hdr_ok h ->
    parse_hdr (lex_line (present_hdr_3597 h ++ rd)) = Ok (hdr_norm h, TBlank :: lex_rdata rd).
Proof. exact hdr_roundtrip_numeric. Qed.

(* NewRR (rr.String()) for a record of a regular type: same owner, TTL,
   class, type, and the normal form of every field. *)
Theorem c05_record_roundtrip :
  forall h G vs,
    hdr_ok h -> odd_type (h_type h) = false -> is_registered (h_type h) = true ->
    playout (h_type h) = Some G -> wf_playout G = true -> Forall2 wf_val G vs ->
    first_text (all_items G vs) <> b_generic ->
    parse_rr (present_rr h G vs) = Ok (hdr_norm h, R_fields (norm_all G vs)).
Proof. exact record_roundtrip. Qed.

(* RFC 3597: for every type and class code and every RDATA of up to 65535
   octets, the generic text is accepted and denotes exactly those octets. *)
Theorem c05_generic_roundtrip :
  forall h w, hdr_ok h -> wfb w -> lenN w < 65536 ->
    parse_rr (present_rr_3597 h w) = Ok (hdr_norm h, R_generic (hex_bytes w)) /\
    unhex (string_of_bytes (hex_bytes w)) = w.
Proof. exact generic_roundtrip. Qed.

(* ---- the irregular printers and parsers ---- *)

(* RRSIG / SIG times: TimeToString at any clock reading from 1970 on, then
   StringToTime, for every 32-bit time (the calendar swept day by day over
   1970-01-01 .. 2106-02-07, the serial-number arithmetic included). *)
Theorem c05_time_roundtrip :
  forall (now : Z) (t : N), (0 <= now)%Z -> t < 4294967296 ->
    string_to_time (time_to_string now t) = Some t.
Proof. exact time_roundtrip. Qed.

(* With a clock reading before 1970 the correction TimeToString applies is
   not undone by StringToTime: the hypothesis above is needed. *)
Theorem c05_time_before_1970_refuted :
  string_to_time (time_to_string (-4294967296) 0) = Some 2147483648.
Proof. exact time_before_1970_refuted. Qed.

(* CERT type and algorithm: mnemonic when the table has one, decimal
   otherwise, read back as the same number. *)
Theorem c05_mnemonic_roundtrip :
  forall (m : mtable) (n bits : N) (r : list tok), n < 2 ^ bits ->
    read_single (P_mnem m bits) (TStr (show_mnem m n) :: r) = Ok (V_int n, r).
Proof. exact mnemonic_roundtrip. Qed.

(* EUI48 / EUI64 and NID / L64: the dashed / grouped hexadecimal text is one
   word and is read back as the same number. *)
Theorem c05_eui_roundtrip :
  forall (k : nat) (n : N), eui_ok k n ->
    word_ok (eui_to_string k n) = true /\ parse_eui k (eui_to_string k n) = Some n.
Proof. exact eui_roundtrip. Qed.
Theorem c05_nodeid_roundtrip :
  forall (up : bool) (n : N), n < 18446744073709551616 ->
    word_ok (nodeid_to_string up n) = true /\ parse_nodeid (nodeid_to_string up n) = Some n.
Proof. exact nodeid_roundtrip. Qed.

(* Refuted on the faithful model (known findings of the implementation):
   X25 with an empty address prints nothing and the newline token is read as
   the address; CAA with an empty tag is rejected; NSEC3.parse sets
   HashLength to 20 whatever the record had. *)
Theorem c05_x25_empty_refuted :
  parse_fields [P_word false] (lex_rdata (present_fields [P_word false] [V_word []] ++ [10])) = Ok [V_word [10]].
Proof. exact x25_empty_refuted. Qed.
Theorem c05_caa_empty_tag_refuted :
  parse_fields [P_uint 8; P_word true; P_octet]
    (lex_rdata (present_fields [P_uint 8; P_word true; P_octet] [V_int 0; V_word []; V_octet [120]] ++ [10])) = Err "word".
Proof. exact caa_empty_tag_refuted. Qed.
Theorem c05_nsec3_hash_length_refuted :
  forall (n : N) (w : bytes) (r : list tok), word_ok w = true ->
    read_single P_b32 (TStr w :: r) = Ok (V_sized 20 w, r) /\ (n <> 20 -> V_sized 20 w <> V_sized n w).
Proof. exact nsec3_hash_length_refuted. Qed.

(* ---- B05b: HIP, IPSECKEY, AMTRELAY, AAAA ---- *)

(* The gateway of IPSECKEY / AMTRELAY in the form its type selects (type 0 and
   types above 3: "."; type 1: an IPv4 or IPv4-mapped address, printed as a
   dotted quad; type 2: any other 16-octet address (gw6_ok); type 3: a name printed verbatim that is one
   word toAbsoluteName returns unchanged) is one word and parseAddrHostUnion
   reads it as the selected member, the other member empty. *)
Theorem c05_gateway_roundtrip :
  forall (k : N) (addr host : bytes), gw_wf k addr host ->
    word_ok (gateway_text k addr host) = true /\
    parse_gateway (gateway_text k addr host) k = Ok (gw_addr k addr, gw_host k host).
Proof. exact gateway_roundtrip. Qed.

(* IPv6 text.  For every 16-octet address, the text netip.Addr.AppendTo gives
   (longest run of two or more zero groups compressed, leftmost on ties, lower
   case, no leading zeros) is one word and net.ParseIP (netip.parseIPv6) reads
   it back as the same 16 octets; it contains a colon. *)
Theorem c05_ip6_roundtrip :
  forall a : bytes, length a = 16%nat -> wfb a ->
    parse_ip (present_ip6 a) = Some a /\ word_ok (present_ip6 a) = true /\
    existsb (N.eqb 58) (present_ip6 a) = true.
Proof. exact parse_ip_present_ip6. Qed.

(* AAAA.String / AAAA.parse for every 16-octet address, the IPv4-mapped ones
   ("::ffff:" and the dotted quad) included. *)
Theorem c05_aaaa_roundtrip :
  forall a : bytes, aaaa_ok a ->
    word_ok (present_aaaa a) = true /\ parse_aaaa (present_aaaa a) = Some a.
Proof. exact aaaa_roundtrip. Qed.

(* Refuted on the faithful model (known findings): a type-2 gateway holding an
   IPv4-mapped address is printed as a dotted quad and refused on re-reading
   (the same text is accepted under type 1); HIP with an empty HIT. *)
Theorem c05_ipseckey_v4mapped_refuted :
  present_fields G_ipseckey [V_int 10; V_gw 2 2 (v4mapped [192; 0; 2; 38]) []; V_word [65; 65; 65; 65]]
    = bytes_of_string "10 2 2 192.0.2.38 AAAA" /\
  parse_fields G_ipseckey
    (lex_rdata (present_fields G_ipseckey [V_int 10; V_gw 2 2 (v4mapped [192; 0; 2; 38]) []; V_word [65; 65; 65; 65]] ++ [10]))
    = Err "gateway".
Proof. exact ipseckey_v4mapped_refuted. Qed.
Theorem c05_ipseckey_v4_reread :
  parse_fields G_ipseckey (lex_rdata (bytes_of_string "10 1 2 192.0.2.38 AAAA" ++ [10]))
    = Ok [V_int 10; V_gw 1 2 (v4mapped [192; 0; 2; 38]) []; V_word [65; 65; 65; 65]].
Proof. exact ipseckey_v4_reread. Qed.
Theorem c05_hip_empty_hit_refuted :
  parse_fields G_hip
    (lex_rdata (present_fields G_hip [V_int 2; V_sized 0 []; V_sized 3 [65; 119; 69; 65]; V_strs [[97; 46]]] ++ [10]))
    = Err "pk".
Proof. exact hip_empty_hit_refuted. Qed.
