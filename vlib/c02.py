from .core import Check


class C02(Check):
    prop = "C02"
    props_rel = "Props/C02"
    corr_module = "Corr.C02"
    corr_rel = "Corr/C02"
    gen_rels = ["Gen/Layouts", "Gen/Registry", "Gen/Consts", "Gen/Structs", "Gen/Lens"]
    shard_size = 60
    model_desc = ("Model/Msg.v (Msg.Unpack, unpackRRslice, UnpackRRWithHeader with every bounds check), Model/Rdata.v (field "
                  "decoders with the early exits of the generated unpackers), Model/NameWire.v (UnpackDomainName: budget 255, "
                  "pointer-hop limit), Model/Options.v (EDNS0 option and SVCB parameter decoders)")
    rule = ("corpus: one compressed and one uncompressed message per registered type; every truncation point, lying counts "
            "0xFFFF, bit/byte/+-1 mutations, octets turned into pointers, adversarial pointer graphs (self, mutual, forward, "
            "into the header, chains of 1..200 hops), 2000 records each a 2-octet pointer to a maximal name, random octets; "
            "direct oracles: no panic, < 2 s, allocation <= 1200*len+128 KiB, accepted names pass IsDomainName and pack "
            "within 255 octets, String/Len/Copy/Pack/IsDuplicate on accepted messages do not panic; model cases: the decoded "
            "message or the error outcome for a sample of every class. Non-trivial: input longer than the header.")
    trusted = ["hex/base64/base32 text codecs of Go's encoding/* are outside the model (fields held as the octets they denote)",
               "EDNS0 option and SVCB parameter values are (code, packed value, reported length) triples at this level"]

    def nontrivial(self, c):
        return len(c["args"][0]) > 24


CHECK = C02()
