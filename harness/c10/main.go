package main

import (
	"bytes"
	"crypto"
	"crypto/ecdsa"
	"crypto/ed25519"
	"crypto/elliptic"
	"crypto/rsa"
	"crypto/sha1"
	"crypto/sha256"
	"crypto/sha512"
	"encoding/base64"
	"encoding/binary"
	"encoding/hex"
	"errors"
	"fmt"
	"math/big"
	"net"
	"sort"
	"strings"

	"github.com/miekg/dns"
	. "verif/harness/common"
)

// C10: RRSIG Sign / Verify. The canonical octet string (RFC 4034 3.1.8.1 / 6)
// is assembled here from label lists and field values without miekg/dns, and
// signatures made by the library are verified with Go's crypto/* directly on
// those octets.

func main() { Main(runC10) }

// ---------------------------------------------------------------- semantic records
type fld struct {
	kind byte     // 'N' name, 'B' opaque octets
	name [][]byte // kind N
	bs   []byte   // kind B
}

type rec struct {
	owner [][]byte
	typ   uint16
	class uint16
	ttl   uint32
	flds  []fld
	rr    dns.RR
}

func wireOf(ls [][]byte) []byte {
	var w []byte
	for _, l := range ls {
		w = append(w, byte(len(l)))
		w = append(w, l...)
	}
	return append(w, 0)
}

func lowerASCII(b []byte) []byte {
	o := make([]byte, len(b))
	for i, c := range b {
		if c >= 'A' && c <= 'Z' {
			c += 32
		}
		o[i] = c
	}
	return o
}

func lowerLabels(ls [][]byte) [][]byte {
	o := make([][]byte, len(ls))
	for i, l := range ls {
		o[i] = lowerASCII(l)
	}
	return o
}

// rawMode: octets >= 0x80 are written unescaped (names as a user or a zone file may spell them)
var rawMode bool

func refShowLabel(l []byte) string {
	var sb strings.Builder
	for _, b := range l {
		switch {
		case rawMode && b >= 0x80:
			sb.WriteByte(b)
		case strings.IndexByte(`. '@;()"\`, b) >= 0:
			sb.WriteByte('\\')
			sb.WriteByte(b)
		case b < ' ' || b > '~':
			fmt.Fprintf(&sb, "\\%03d", b)
		default:
			sb.WriteByte(b)
		}
	}
	return sb.String()
}

func showName(ls [][]byte) string {
	if len(ls) == 0 {
		return "."
	}
	var sb strings.Builder
	for _, l := range ls {
		sb.WriteString(refShowLabel(l))
		sb.WriteByte('.')
	}
	return sb.String()
}

func validWire(ls [][]byte) bool {
	for _, l := range ls {
		if len(l) < 1 || len(l) > 63 {
			return false
		}
	}
	return len(wireOf(ls)) <= 255
}

func labelsArg(ls [][]byte) string {
	s := make([]string, len(ls))
	for i, l := range ls {
		s[i] = Hx(l)
	}
	return strings.Join(s, ".")
}

// RFC 4034 6.2 (3) with RFC 6840 5.1: types whose RDATA names are lower-cased
var rfcLower = map[uint16]bool{2: true, 3: true, 4: true, 5: true, 6: true, 7: true, 8: true, 9: true, 12: true, 14: true,
	15: true, 17: true, 18: true, 21: true, 24: true, 26: true, 30: true, 33: true, 35: true, 36: true, 38: true, 39: true, 46: true}

func (r *rec) rdata(lower bool) []byte {
	var w []byte
	for _, f := range r.flds {
		if f.kind == 'N' {
			n := f.name
			if lower {
				n = lowerLabels(n)
			}
			w = append(w, wireOf(n)...)
		} else {
			w = append(w, f.bs...)
		}
	}
	return w
}

func (r *rec) arg() string {
	var fs []string
	for _, f := range r.flds {
		if f.kind == 'N' {
			fs = append(fs, "n"+labelsArg(f.name))
		} else {
			fs = append(fs, "b"+Hx(f.bs))
		}
	}
	return fmt.Sprintf("%s|%d|%d|%d|%s", labelsArg(r.owner), r.typ, r.class, r.ttl, strings.Join(fs, ","))
}

func rrsetArg(rs []*rec) string {
	s := make([]string, len(rs))
	for i, r := range rs {
		s[i] = r.arg()
	}
	return strings.Join(s, ";")
}

func rrsOf(rs []*rec) []dns.RR {
	o := make([]dns.RR, len(rs))
	for i, r := range rs {
		o[i] = r.rr
	}
	return o
}

// ---------------------------------------------------------------- type table
func u16b(v uint16) []byte { return []byte{byte(v >> 8), byte(v)} }
func u32b(v uint32) []byte { return binary.BigEndian.AppendUint32(nil, v) }

var txtAlpha = []byte("abcxyzABCXYZ0189-")

func randTxt(r *Rng, max int) string {
	b := make([]byte, r.Intn(max+1))
	for i := range b {
		b[i] = txtAlpha[r.Intn(len(txtAlpha))]
	}
	return string(b)
}

func cstr(s string) []byte { return append([]byte{byte(len(s))}, s...) }

// NSEC type bitmap (RFC 4034 4.1.2) of a sorted list of types
func bitmap(ts []uint16) []byte {
	var out []byte
	i := 0
	for i < len(ts) {
		win := ts[i] >> 8
		var bits [32]byte
		n := 0
		for i < len(ts) && ts[i]>>8 == win {
			lo := ts[i] & 0xff
			bits[lo/8] |= 0x80 >> (lo % 8)
			if int(lo/8)+1 > n {
				n = int(lo/8) + 1
			}
			i++
		}
		out = append(out, byte(win), byte(n))
		out = append(out, bits[:n]...)
	}
	return out
}

type tdef struct {
	typ uint16
	gen func(r *Rng, h dns.RR_Header, nm func() [][]byte) (dns.RR, []fld)
}

func N(n [][]byte) fld { return fld{kind: 'N', name: n} }
func B(b []byte) fld   { return fld{kind: 'B', bs: b} }
func nameOnly(mk func(h dns.RR_Header, s string) dns.RR) func(r *Rng, h dns.RR_Header, nm func() [][]byte) (dns.RR, []fld) {
	return func(r *Rng, h dns.RR_Header, nm func() [][]byte) (dns.RR, []fld) {
		n := nm()
		return mk(h, showName(n)), []fld{N(n)}
	}
}
func prefName(mk func(h dns.RR_Header, p uint16, s string) dns.RR) func(r *Rng, h dns.RR_Header, nm func() [][]byte) (dns.RR, []fld) {
	return func(r *Rng, h dns.RR_Header, nm func() [][]byte) (dns.RR, []fld) {
		n := nm()
		p := uint16(r.Next())
		return mk(h, p, showName(n)), []fld{B(u16b(p)), N(n)}
	}
}
func twoNames(mk func(h dns.RR_Header, a, b string) dns.RR) func(r *Rng, h dns.RR_Header, nm func() [][]byte) (dns.RR, []fld) {
	return func(r *Rng, h dns.RR_Header, nm func() [][]byte) (dns.RR, []fld) {
		a, b := nm(), nm()
		return mk(h, showName(a), showName(b)), []fld{N(a), N(b)}
	}
}

var tdefs = []tdef{
	{dns.TypeA, func(r *Rng, h dns.RR_Header, nm func() [][]byte) (dns.RR, []fld) {
		ip := r.Bytes(4)
		return &dns.A{Hdr: h, A: net.IP(ip)}, []fld{B(ip)}
	}},
	{dns.TypeAAAA, func(r *Rng, h dns.RR_Header, nm func() [][]byte) (dns.RR, []fld) {
		ip := r.Bytes(16)
		ip[0] = 0x20
		return &dns.AAAA{Hdr: h, AAAA: net.IP(ip)}, []fld{B(ip)}
	}},
	{dns.TypeNS, nameOnly(func(h dns.RR_Header, s string) dns.RR { return &dns.NS{Hdr: h, Ns: s} })},
	{dns.TypeMD, nameOnly(func(h dns.RR_Header, s string) dns.RR { return &dns.MD{Hdr: h, Md: s} })},
	{dns.TypeMF, nameOnly(func(h dns.RR_Header, s string) dns.RR { return &dns.MF{Hdr: h, Mf: s} })},
	{dns.TypeCNAME, nameOnly(func(h dns.RR_Header, s string) dns.RR { return &dns.CNAME{Hdr: h, Target: s} })},
	{dns.TypeMB, nameOnly(func(h dns.RR_Header, s string) dns.RR { return &dns.MB{Hdr: h, Mb: s} })},
	{dns.TypeMG, nameOnly(func(h dns.RR_Header, s string) dns.RR { return &dns.MG{Hdr: h, Mg: s} })},
	{dns.TypeMR, nameOnly(func(h dns.RR_Header, s string) dns.RR { return &dns.MR{Hdr: h, Mr: s} })},
	{dns.TypePTR, nameOnly(func(h dns.RR_Header, s string) dns.RR { return &dns.PTR{Hdr: h, Ptr: s} })},
	{dns.TypeDNAME, nameOnly(func(h dns.RR_Header, s string) dns.RR { return &dns.DNAME{Hdr: h, Target: s} })},
	{dns.TypeNSAPPTR, nameOnly(func(h dns.RR_Header, s string) dns.RR { return &dns.NSAPPTR{Hdr: h, Ptr: s} })},
	{dns.TypeMX, prefName(func(h dns.RR_Header, p uint16, s string) dns.RR { return &dns.MX{Hdr: h, Preference: p, Mx: s} })},
	{dns.TypeAFSDB, prefName(func(h dns.RR_Header, p uint16, s string) dns.RR { return &dns.AFSDB{Hdr: h, Subtype: p, Hostname: s} })},
	{dns.TypeRT, prefName(func(h dns.RR_Header, p uint16, s string) dns.RR { return &dns.RT{Hdr: h, Preference: p, Host: s} })},
	{dns.TypeKX, prefName(func(h dns.RR_Header, p uint16, s string) dns.RR { return &dns.KX{Hdr: h, Preference: p, Exchanger: s} })},
	{dns.TypeLP, prefName(func(h dns.RR_Header, p uint16, s string) dns.RR { return &dns.LP{Hdr: h, Preference: p, Fqdn: s} })},
	{dns.TypeMINFO, twoNames(func(h dns.RR_Header, a, b string) dns.RR { return &dns.MINFO{Hdr: h, Rmail: a, Email: b} })},
	{dns.TypeRP, twoNames(func(h dns.RR_Header, a, b string) dns.RR { return &dns.RP{Hdr: h, Mbox: a, Txt: b} })},
	{dns.TypeTALINK, twoNames(func(h dns.RR_Header, a, b string) dns.RR { return &dns.TALINK{Hdr: h, PreviousName: a, NextName: b} })},
	{dns.TypeSOA, func(r *Rng, h dns.RR_Header, nm func() [][]byte) (dns.RR, []fld) {
		a, b := nm(), nm()
		v := []uint32{uint32(r.Next()), uint32(r.Next()), uint32(r.Next()), uint32(r.Next()), uint32(r.Next())}
		var bs []byte
		for _, x := range v {
			bs = append(bs, u32b(x)...)
		}
		return &dns.SOA{Hdr: h, Ns: showName(a), Mbox: showName(b), Serial: v[0], Refresh: v[1], Retry: v[2], Expire: v[3], Minttl: v[4]},
			[]fld{N(a), N(b), B(bs)}
	}},
	{dns.TypePX, func(r *Rng, h dns.RR_Header, nm func() [][]byte) (dns.RR, []fld) {
		a, b := nm(), nm()
		p := uint16(r.Next())
		return &dns.PX{Hdr: h, Preference: p, Map822: showName(a), Mapx400: showName(b)}, []fld{B(u16b(p)), N(a), N(b)}
	}},
	{dns.TypeSRV, func(r *Rng, h dns.RR_Header, nm func() [][]byte) (dns.RR, []fld) {
		a := nm()
		p, w, port := uint16(r.Next()), uint16(r.Next()), uint16(r.Next())
		return &dns.SRV{Hdr: h, Priority: p, Weight: w, Port: port, Target: showName(a)},
			[]fld{B(append(append(u16b(p), u16b(w)...), u16b(port)...)), N(a)}
	}},
	{dns.TypeNAPTR, func(r *Rng, h dns.RR_Header, nm func() [][]byte) (dns.RR, []fld) {
		a := nm()
		o, p := uint16(r.Next()), uint16(r.Next())
		f, s, re := randTxt(r, 3), randTxt(r, 8), randTxt(r, 10)
		bs := append(u16b(o), u16b(p)...)
		bs = append(append(append(bs, cstr(f)...), cstr(s)...), cstr(re)...)
		return &dns.NAPTR{Hdr: h, Order: o, Preference: p, Flags: f, Service: s, Regexp: re, Replacement: showName(a)}, []fld{B(bs), N(a)}
	}},
	{dns.TypeSIG, func(r *Rng, h dns.RR_Header, nm func() [][]byte) (dns.RR, []fld) {
		a := nm()
		tc, al, lb := uint16(r.Next()), uint8(r.Next()), uint8(r.Next())
		ot, ex, in := uint32(r.Next()), uint32(r.Next()), uint32(r.Next())
		kt := uint16(r.Next())
		sg := r.Bytes(1 + r.Intn(20))
		bs := append(u16b(tc), al, lb)
		bs = append(append(append(append(bs, u32b(ot)...), u32b(ex)...), u32b(in)...), u16b(kt)...)
		rr := &dns.SIG{RRSIG: dns.RRSIG{Hdr: h, TypeCovered: tc, Algorithm: al, Labels: lb, OrigTtl: ot, Expiration: ex, Inception: in,
			KeyTag: kt, SignerName: showName(a), Signature: base64.StdEncoding.EncodeToString(sg)}}
		return rr, []fld{B(bs), N(a), B(sg)}
	}},
	{dns.TypeTXT, func(r *Rng, h dns.RR_Header, nm func() [][]byte) (dns.RR, []fld) {
		n := 1 + r.Intn(3)
		var ss []string
		var bs []byte
		for i := 0; i < n; i++ {
			s := randTxt(r, 12)
			ss = append(ss, s)
			bs = append(bs, cstr(s)...)
		}
		return &dns.TXT{Hdr: h, Txt: ss}, []fld{B(bs)}
	}},
	{dns.TypeHINFO, func(r *Rng, h dns.RR_Header, nm func() [][]byte) (dns.RR, []fld) {
		a, b := randTxt(r, 8), randTxt(r, 8)
		return &dns.HINFO{Hdr: h, Cpu: a, Os: b}, []fld{B(append(cstr(a), cstr(b)...))}
	}},
	{dns.TypeNSEC, func(r *Rng, h dns.RR_Header, nm func() [][]byte) (dns.RR, []fld) {
		a := nm()
		ts := []uint16{1, 2, 15, 46, 47, 257 + uint16(r.Intn(300))}[:1+r.Intn(6)]
		return &dns.NSEC{Hdr: h, NextDomain: showName(a), TypeBitMap: ts}, []fld{N(a), B(bitmap(ts))}
	}},
	{dns.TypeNXT, func(r *Rng, h dns.RR_Header, nm func() [][]byte) (dns.RR, []fld) {
		a := nm()
		ts := []uint16{1, 2, 15, 30}[:1+r.Intn(4)]
		return &dns.NXT{NSEC: dns.NSEC{Hdr: h, NextDomain: showName(a), TypeBitMap: ts}}, []fld{N(a), B(bitmap(ts))}
	}},
	{dns.TypeDS, func(r *Rng, h dns.RR_Header, nm func() [][]byte) (dns.RR, []fld) {
		kt, al, dt := uint16(r.Next()), uint8(r.Next()), uint8(r.Next())
		dg := r.Bytes(20)
		return &dns.DS{Hdr: h, KeyTag: kt, Algorithm: al, DigestType: dt, Digest: hex.EncodeToString(dg)},
			[]fld{B(append(append(u16b(kt), al, dt), dg...))}
	}},
	{dns.TypeDNSKEY, func(r *Rng, h dns.RR_Header, nm func() [][]byte) (dns.RR, []fld) {
		fl, pr, al := uint16(r.Next()), uint8(r.Next()), uint8(r.Next())
		pk := r.Bytes(1 + r.Intn(40))
		return &dns.DNSKEY{Hdr: h, Flags: fl, Protocol: pr, Algorithm: al, PublicKey: base64.StdEncoding.EncodeToString(pk)},
			[]fld{B(append(append(u16b(fl), pr, al), pk...))}
	}},
	{dns.TypeSVCB, func(r *Rng, h dns.RR_Header, nm func() [][]byte) (dns.RR, []fld) {
		a := nm()
		p := uint16(r.Next())
		return &dns.SVCB{Hdr: h, Priority: p, Target: showName(a)}, []fld{B(u16b(p)), N(a)}
	}},
}

// ---------------------------------------------------------------- generators
var lblAlpha = []byte("abcxyzABCXYZ0189-_")
var lblSpecial = []byte(". '@;()\"\\\x00\x7f\xe9*")

func randLabel(r *Rng, n int) []byte {
	b := make([]byte, n)
	for j := range b {
		switch r.Intn(10) {
		case 0:
			b[j] = lblSpecial[r.Intn(len(lblSpecial))]
		case 1:
			b[j] = byte(r.Next())
		default:
			b[j] = lblAlpha[r.Intn(len(lblAlpha))]
		}
	}
	return b
}

func randName(r *Rng, minL, maxL, maxLen int) [][]byte {
	n := minL + r.Intn(maxL-minL+1)
	var ls [][]byte
	for i := 0; i < n; i++ {
		ls = append(ls, randLabel(r, 1+r.Intn(maxLen)))
	}
	return ls
}

func flipCase(r *Rng, ls [][]byte) [][]byte {
	o := make([][]byte, len(ls))
	for i, l := range ls {
		l2 := append([]byte{}, l...)
		for j, c := range l2 {
			if ((c >= 'a' && c <= 'z') || (c >= 'A' && c <= 'Z')) && r.Bool() {
				l2[j] = c ^ 0x20
			}
		}
		o[i] = l2
	}
	return o
}

// one record of type td at owner
func genRec(r *Rng, td tdef, owner [][]byte, class uint16, ttl uint32, nm func() [][]byte) *rec {
	h := dns.RR_Header{Name: showName(owner), Rrtype: td.typ, Class: class, Ttl: ttl}
	rr, f := td.gen(r, h, nm)
	return &rec{owner: owner, typ: td.typ, class: class, ttl: ttl, flds: f, rr: rr}
}

// the same record with another owner spelling / TTL / RDATA name spelling
func (x *rec) variant(r *Rng, owner [][]byte, ttl uint32, flipRdata bool) *rec {
	y := &rec{owner: owner, typ: x.typ, class: x.class, ttl: ttl}
	rr := dns.Copy(x.rr)
	rr.Header().Name = showName(owner)
	rr.Header().Ttl = ttl
	for _, f := range x.flds {
		if f.kind == 'N' && flipRdata {
			f = N(flipCase(r, f.name))
		}
		y.flds = append(y.flds, f)
	}
	y.rr = rr
	if flipRdata {
		setNames(rr, y.flds)
	}
	return y
}

// write the (re-spelled) names of flds back into the Go record
func setNames(rr dns.RR, fs []fld) {
	var ns []string
	for _, f := range fs {
		if f.kind == 'N' {
			ns = append(ns, showName(f.name))
		}
	}
	switch x := rr.(type) {
	case *dns.NS:
		x.Ns = ns[0]
	case *dns.MD:
		x.Md = ns[0]
	case *dns.MF:
		x.Mf = ns[0]
	case *dns.CNAME:
		x.Target = ns[0]
	case *dns.MB:
		x.Mb = ns[0]
	case *dns.MG:
		x.Mg = ns[0]
	case *dns.MR:
		x.Mr = ns[0]
	case *dns.PTR:
		x.Ptr = ns[0]
	case *dns.DNAME:
		x.Target = ns[0]
	case *dns.NSAPPTR:
		x.Ptr = ns[0]
	case *dns.MX:
		x.Mx = ns[0]
	case *dns.AFSDB:
		x.Hostname = ns[0]
	case *dns.RT:
		x.Host = ns[0]
	case *dns.KX:
		x.Exchanger = ns[0]
	case *dns.LP:
		x.Fqdn = ns[0]
	case *dns.MINFO:
		x.Rmail, x.Email = ns[0], ns[1]
	case *dns.RP:
		x.Mbox, x.Txt = ns[0], ns[1]
	case *dns.TALINK:
		x.PreviousName, x.NextName = ns[0], ns[1]
	case *dns.SOA:
		x.Ns, x.Mbox = ns[0], ns[1]
	case *dns.PX:
		x.Map822, x.Mapx400 = ns[0], ns[1]
	case *dns.SRV:
		x.Target = ns[0]
	case *dns.NAPTR:
		x.Replacement = ns[0]
	case *dns.SIG:
		x.SignerName = ns[0]
	case *dns.NSEC:
		x.NextDomain = ns[0]
	case *dns.NXT:
		x.NextDomain = ns[0]
	case *dns.SVCB:
		x.Target = ns[0]
	}
}

// ---------------------------------------------------------------- reference canonical form
type sigF struct {
	owner               [][]byte
	class, covered      uint16
	alg, labels         uint8
	origttl, exp, incep uint32
	keytag              uint16
	signer              [][]byte
}

func (s *sigF) arg() string {
	return fmt.Sprintf("%s|%d|%d|%d|%d|%d|%d|%d|%d|%s", labelsArg(s.owner), s.class, s.covered, s.alg, s.labels, s.origttl, s.exp, s.incep, s.keytag, labelsArg(s.signer))
}

func (s *sigF) rr() *dns.RRSIG {
	return &dns.RRSIG{Hdr: dns.RR_Header{Name: showName(s.owner), Rrtype: dns.TypeRRSIG, Class: s.class, Ttl: s.origttl},
		TypeCovered: s.covered, Algorithm: s.alg, Labels: s.labels, OrigTtl: s.origttl, Expiration: s.exp, Inception: s.incep,
		KeyTag: s.keytag, SignerName: showName(s.signer)}
}

func sigFOf(g *dns.RRSIG, owner, signer [][]byte) *sigF {
	return &sigF{owner: owner, class: g.Hdr.Class, covered: g.TypeCovered, alg: g.Algorithm, labels: g.Labels, origttl: g.OrigTtl,
		exp: g.Expiration, incep: g.Inception, keytag: g.KeyTag, signer: signer}
}

// RFC 4034 3.1.8.1: RRSIG_RDATA (without signature, signer lower-cased)
func refSigPrefix(s *sigF) []byte {
	b := append(u16b(s.covered), s.alg, s.labels)
	b = append(append(append(b, u32b(s.origttl)...), u32b(s.exp)...), u32b(s.incep)...)
	b = append(b, u16b(s.keytag)...)
	return append(b, wireOf(lowerLabels(s.signer))...)
}

// RFC 4034 6.2 / 6.3 canonical RRs, sorted by RDATA, duplicates removed. ok=false when a
// record has no canonical form the library can produce (invalid names, "*." with Labels 0).
func refCanon(s *sigF, rs []*rec, lowerSet map[uint16]bool) ([]byte, bool) {
	type cw struct{ pre, rd []byte }
	var cs []cw
	for _, r := range rs {
		o := r.owner
		if len(o) > int(s.labels) {
			if s.labels == 0 {
				return nil, false // "*." + nothing: the root wildcard
			}
			o = append([][]byte{[]byte("*")}, o[len(o)-int(s.labels):]...)
		}
		if !validWire(o) {
			return nil, false
		}
		for _, f := range r.flds {
			if f.kind == 'N' && !validWire(f.name) {
				return nil, false
			}
		}
		rd := r.rdata(lowerSet[r.typ])
		pre := append(wireOf(lowerLabels(o)), u16b(r.typ)...)
		pre = append(append(append(pre, u16b(r.class)...), u32b(s.origttl)...), u16b(uint16(len(rd)))...)
		cs = append(cs, cw{pre, rd})
	}
	sort.SliceStable(cs, func(i, j int) bool { return bytes.Compare(cs[i].rd, cs[j].rd) < 0 })
	var out, prev []byte
	for i, c := range cs {
		w := append(append([]byte{}, c.pre...), c.rd...)
		if i > 0 && bytes.Equal(w, prev) {
			continue
		}
		out = append(out, w...)
		prev = w
	}
	return out, true
}

var codeLower = map[uint16]bool{}

func init() {
	for t, v := range rfcLower {
		if v && t != 38 && t != 46 { // A6 has no Go type, RRSIG is never the covered type
			codeLower[t] = true
		}
	}
}

// ---------------------------------------------------------------- keys
type keyPair struct {
	k     *dns.DNSKEY
	priv  crypto.Signer
	owner [][]byte
	pub   []byte
}

func newKey(r *Rng, alg uint8, owner [][]byte) *keyPair {
	k := &dns.DNSKEY{Hdr: dns.RR_Header{Name: showName(owner), Rrtype: dns.TypeDNSKEY, Class: dns.ClassINET, Ttl: 3600},
		Flags: 256 + uint16(r.Intn(2)) + uint16(r.Intn(2))<<9, Protocol: 3, Algorithm: alg}
	bits := map[uint8]int{5: 1024, 7: 1024, 8: 1024, 10: 1024, 13: 256, 14: 384, 15: 256}[alg]
	p, err := k.Generate(bits)
	if err != nil {
		panic(err)
	}
	for k.KeyTag() == 0 { // one key in 65536: Sign refuses it (recorded finding C17/Sign/key-tag-zero); take another
		if p, err = k.Generate(bits); err != nil {
			panic(err)
		}
	}
	pub, _ := base64.StdEncoding.DecodeString(k.PublicKey)
	return &keyPair{k: k, priv: p.(crypto.Signer), owner: owner, pub: pub}
}

func (kp *keyPair) arg(k *dns.DNSKEY, owner [][]byte) string {
	pub, _ := base64.StdEncoding.DecodeString(k.PublicKey)
	return fmt.Sprintf("%s|%d|%d|%d|%d|%s", labelsArg(owner), k.Hdr.Class, k.Flags, k.Protocol, k.Algorithm, Hx(pub))
}

// independent verification with Go's crypto on the given octets
func cryptoVerify(alg uint8, pub []byte, msg, sig []byte) bool {
	switch alg {
	case 15:
		return len(pub) == ed25519.PublicKeySize && ed25519.Verify(ed25519.PublicKey(pub), msg, sig)
	case 13, 14:
		curve, hl := elliptic.P256(), 32
		var dg []byte
		if alg == 14 {
			curve, hl = elliptic.P384(), 48
			d := sha512.Sum384(msg)
			dg = d[:]
		} else {
			d := sha256.Sum256(msg)
			dg = d[:]
		}
		if len(pub) != 2*hl || len(sig) != 2*hl {
			return false
		}
		pk := &ecdsa.PublicKey{Curve: curve, X: new(big.Int).SetBytes(pub[:hl]), Y: new(big.Int).SetBytes(pub[hl:])}
		return ecdsa.Verify(pk, dg, new(big.Int).SetBytes(sig[:hl]), new(big.Int).SetBytes(sig[hl:]))
	case 5, 7, 8, 10:
		if len(pub) < 3 {
			return false
		}
		el, off := int(pub[0]), 1
		if el == 0 {
			el, off = int(pub[1])<<8|int(pub[2]), 3
		}
		if off+el >= len(pub) || el > 4 {
			return false
		}
		pk := &rsa.PublicKey{E: int(new(big.Int).SetBytes(pub[off : off+el]).Int64()), N: new(big.Int).SetBytes(pub[off+el:])}
		var h crypto.Hash
		var dg []byte
		switch alg {
		case 5, 7:
			h = crypto.SHA1
			d := sha1.Sum(msg)
			dg = d[:]
		case 8:
			h = crypto.SHA256
			d := sha256.Sum256(msg)
			dg = d[:]
		default:
			h = crypto.SHA512
			d := sha512.Sum512(msg)
			dg = d[:]
		}
		return rsa.VerifyPKCS1v15(pk, h, dg, sig) == nil
	}
	return false
}

func errClass(err error) string {
	switch {
	case err == nil:
		return "ok:"
	case errors.Is(err, dns.ErrRRset):
		return "err:rrset"
	case errors.Is(err, dns.ErrKey):
		return "err:key"
	case errors.Is(err, dns.ErrAlg):
		return "err:alg"
	case errors.Is(err, dns.ErrSig), errors.Is(err, rsa.ErrVerification):
		return "err:sig"
	case errors.Is(err, dns.ErrPrivKey):
		return "err:privkey"
	}
	return "err:pack"
}

// RFC 4034 3.1.3: labels in the owner, not counting the root and a leading "*" label
func refLabels(owner [][]byte) uint8 {
	n := len(owner)
	if n > 0 && string(owner[0]) == "*" {
		n--
	}
	return uint8(n)
}

var st = map[string]int{}

type c10in struct {
	Alg    uint8  `json:"algorithm"`
	Key    string `json:"dnskey"`
	Sig    string `json:"rrsig"`
	RRset  string `json:"rrset"`
	SigArg string `json:"rrsig_fields"`
	RRArg  string `json:"rrset_fields"`
	What   string `json:"what"`
}

func mkIn(kp *keyPair, sig *dns.RRSIG, sf *sigF, rs []*rec, what string) c10in {
	var ss []string
	for _, r := range rs {
		ss = append(ss, r.rr.String())
	}
	in := c10in{RRset: strings.Join(ss, "\n"), RRArg: rrsetArg(rs), What: what}
	if kp != nil {
		in.Alg = kp.k.Algorithm
		in.Key = kp.k.String()
	}
	if sig != nil {
		in.Sig = sig.String()
	}
	if sf != nil {
		in.SigArg = sf.arg()
	}
	return in
}

// ---------------------------------------------------------------- canonical form: model = hook = reference
func canonCase(r *Rng, sf *sigF, rs []*rec, emit bool) {
	g := sf.rr()
	raw, err := dns.VerifRawSignatureData(rrsOf(rs), g)
	pre, perr := dns.VerifPackSigWire(g)
	st["canon_checked"]++
	out := "err:pack"
	if err == nil && perr == nil {
		out = "ok:" + Hx(append(append([]byte{}, pre...), raw...))
	}
	ref, ok := refCanon(sf, rs, rfcLower)
	refCode, _ := refCanon(sf, rs, codeLower)
	okAll := ok && validWire(sf.signer)
	switch {
	case okAll && (err != nil || perr != nil):
		Viol("C10/Canonical/error", fmt.Sprintf("rawSignatureData/packSigWire failed: %v %v", err, perr), mkIn(nil, g, sf, rs, ""))
	case okAll:
		st["canon_ok"]++
		if !bytes.Equal(pre, refSigPrefix(sf)) {
			Viol("C10/Canonical/rrsig-rdata", "RRSIG RDATA prefix differs from RFC 4034 3.1.8.1", mkIn(nil, g, sf, rs, ""))
		}
		if !bytes.Equal(raw, ref) {
			if bytes.Equal(raw, refCode) {
				Viol("C10/Canonical/NXT-not-lowercased", "domain names in NXT RDATA are not lower-cased (RFC 4034 6.2 (3) lists NXT)", mkIn(nil, g, sf, rs, ""))
			} else {
				Viol("C10/Canonical/rr-octets", "canonical RR octets differ from RFC 4034 6.2 / 6.3", mkIn(nil, g, sf, rs, fmt.Sprintf("got %x want %x", raw, ref)))
			}
		}
	case !ok && err == nil:
		Viol("C10/Canonical/accepts-invalid", "rawSignatureData produced octets for a record without canonical form", mkIn(nil, g, sf, rs, ""))
	default:
		st["canon_rejected"]++
		// the root wildcard: owner "*." or a name expanded from it, Labels = 0
		rootWild := sf.labels == 0 && validWire(sf.signer)
		for _, x := range rs {
			if !validWire(x.owner) || len(x.owner) == 0 {
				rootWild = false
			}
			for _, f := range x.flds {
				if f.kind == 'N' && !validWire(f.name) {
					rootWild = false
				}
			}
		}
		if rootWild {
			Viol("C10/Canonical/root-wildcard", "an RRset owned by (or expanded from) the root wildcard \"*.\" (Labels = 0) cannot be put in canonical form: the owner \"*..\" is built", mkIn(nil, g, sf, rs, ""))
		}
	}
	if emit {
		Emit("octets", []string{sf.arg(), rrsetArg(rs)}, out)
	}
}

// ---------------------------------------------------------------- sign / verify
func verifyCase(kp *keyPair, k *dns.DNSKEY, kowner [][]byte, g *dns.RRSIG, sf *sigF, rs []*rec, emit bool) string {
	got := Protect(func() string { return errClass(g.Verify(k, rrsOf(rs))) })
	st["verify_checked"]++
	st["verify_"+got]++
	if emit {
		// verdict of Go's crypto on the REFERENCE octets (code's lower-casing list, so that the model case
		// isolates the pre-checks; the RFC list is covered by the canonical-form oracle)
		ok := false
		if body, cok := refCanon(sf, rs, codeLower); cok {
			sb, _ := base64.StdEncoding.DecodeString(g.Signature)
			pub, _ := base64.StdEncoding.DecodeString(k.PublicKey)
			ok = cryptoVerify(g.Algorithm, pub, append(refSigPrefix(sf), body...), sb)
		}
		Emit("verify", []string{sf.arg(), rrsetArg(rs), kp.arg(k, kowner), Btoa(ok)}, got)
	}
	return got
}

func cloneRecs(rs []*rec) []*rec {
	o := make([]*rec, len(rs))
	for i, x := range rs {
		y := *x
		y.rr = dns.Copy(x.rr)
		y.flds = append([]fld{}, x.flds...)
		o[i] = &y
	}
	return o
}

func signCase(r *Rng, kp *keyPair, td tdef, idx int) {
	zone := kp.owner
	sub := randName(r, 0, 3, 8)
	wild := idx%7 == 3
	if wild {
		sub = append([][]byte{[]byte("*")}, sub...)
	}
	if idx%11 == 5 && len(sub) > 0 {
		sub[0] = append([]byte("*"), sub[0]...) // a label that merely starts with '*'
	}
	owner := append(sub, flipCase(r, zone)...)
	if !validWire(owner) {
		return
	}
	nm := func() [][]byte {
		if r.Intn(4) == 0 {
			return append(randName(r, 0, 2, 6), zone...)
		}
		return randName(r, 0, 4, 8)
	}
	n := 1 + r.Intn(4)
	ttl := uint32(r.Intn(100000))
	var rs []*rec
	for i := 0; i < n; i++ {
		rs = append(rs, genRec(r, td, owner, dns.ClassINET, ttl, nm))
	}
	signer := flipCase(r, zone)
	g := &dns.RRSIG{Hdr: dns.RR_Header{Ttl: ttl}, Algorithm: kp.k.Algorithm, Expiration: uint32(r.Next()), Inception: uint32(r.Next()),
		KeyTag: kp.k.KeyTag(), SignerName: showName(signer)}
	if r.Intn(3) == 0 {
		g.OrigTtl = uint32(1 + r.Intn(5000))
	}
	presetTTL := g.OrigTtl
	err := g.Sign(kp.priv, rrsOf(rs))
	st["sign_checked"]++
	st[fmt.Sprintf("sign_alg%d", kp.k.Algorithm)]++
	st[fmt.Sprintf("sign_type%d", td.typ)]++
	if err != nil {
		key := "C10/Sign/error"
		switch {
		case len(owner) == 1 && string(owner[0]) == "*":
			key = "C10/Canonical/root-wildcard" // owner "*.": Labels = 0, the owner "*.." is built
		case len(owner) == 1 && owner[0][0] == '*':
			key = "C10/Sign/labels-star-prefix" // "*abc.": counted as a wildcard, then as the root wildcard
		}
		Viol(key, "Sign failed: "+err.Error(), mkIn(kp, g, nil, rs, ""))
		return
	}
	sf := sigFOf(g, owner, signer)
	in := mkIn(kp, g, sf, rs, "")
	// fields Sign fills in
	wantTTL := presetTTL
	if wantTTL == 0 {
		wantTTL = ttl
	}
	if g.Hdr.Name != showName(owner) || g.Hdr.Class != dns.ClassINET || g.Hdr.Rrtype != dns.TypeRRSIG || g.TypeCovered != td.typ || g.OrigTtl != wantTTL {
		Viol("C10/Sign/fields", "owner / class / type covered / original TTL not copied from the RRset", in)
	}
	if g.Labels != refLabels(owner) && !(len(owner) > 0 && owner[0][0] == '*' && len(owner[0]) > 1) {
		Viol("C10/Sign/labels", fmt.Sprintf("Labels=%d, RFC 4034 3.1.3 gives %d", g.Labels, refLabels(owner)), in)
	} else if g.Labels != refLabels(owner) {
		Viol("C10/Sign/labels-star-prefix", fmt.Sprintf("Labels=%d, RFC 4034 3.1.3 gives %d (only a label that IS \"*\" is not counted)", g.Labels, refLabels(owner)), in)
	}
	// model: the filled-in fields
	{
		s0 := &sigF{alg: kp.k.Algorithm, origttl: presetTTL, exp: g.Expiration, incep: g.Inception, keytag: g.KeyTag, signer: signer}
		if idx%3 == 0 {
			Emit("signfill", []string{s0.arg(), rrsetArg(rs)}, "ok:"+sf.arg())
		}
	}
	// the signature is valid, per Go's crypto, for the independently assembled RFC octets
	sb, _ := base64.StdEncoding.DecodeString(g.Signature)
	sfRFC := *sf
	sfRFC.labels = g.Labels
	body, ok := refCanon(&sfRFC, rs, rfcLower)
	if !ok {
		Viol("C10/Sign/signed-invalid", "Sign succeeded on an RRset without canonical form", in)
		return
	}
	msg := append(refSigPrefix(&sfRFC), body...)
	st["independent_verify_checked"]++
	if !cryptoVerify(g.Algorithm, kp.pub, msg, sb) {
		if b2, _ := refCanon(&sfRFC, rs, codeLower); cryptoVerify(g.Algorithm, kp.pub, append(refSigPrefix(&sfRFC), b2...), sb) {
			Viol("C10/Canonical/NXT-not-lowercased", "signature is over NXT RDATA names that were not lower-cased", in)
		} else {
			Viol("C10/Sign/signature-not-over-rfc-octets", "the signature does not verify (crypto/* called directly) over the RFC 4034 3.1.8.1 octets", in)
		}
	}
	canonCase(r, sf, rs, idx%2 == 0)
	// Sign output verifies
	if got := verifyCase(kp, kp.k, kp.owner, g, sf, rs, true); got != "ok:" {
		Viol("C10/Verify/sign-output-rejected", "Verify("+got+") on the output of Sign", in)
		return
	}

	// ---- invariances: each variant must verify
	variant := func(name string, rs2 []*rec, g2 *dns.RRSIG, sf2 *sigF) {
		st["invariance_checked"]++
		if got := verifyCase(kp, kp.k, kp.owner, g2, sf2, rs2, idx%4 == 0); got != "ok:" {
			Viol("C10/Verify/invariance-"+name, "Verify("+got+") after a change that must not matter: "+name, mkIn(kp, g2, sf2, rs2, name))
		}
	}
	// order
	{
		rs2 := cloneRecs(rs)
		for i := len(rs2) - 1; i > 0; i-- {
			j := r.Intn(i + 1)
			rs2[i], rs2[j] = rs2[j], rs2[i]
		}
		variant("order", rs2, g, sf)
	}
	// duplicates
	{
		rs2 := cloneRecs(rs)
		rs2 = append(rs2, cloneRecs(rs[:1+r.Intn(len(rs))])...)
		variant("duplicates", rs2, g, sf)
	}
	// TTLs (each record its own)
	{
		var rs2 []*rec
		for _, x := range rs {
			rs2 = append(rs2, x.variant(r, x.owner, uint32(r.Intn(1000000)), false))
		}
		variant("ttl", rs2, g, sf)
	}
	// letter case of the owner (the same spelling in all records and in the RRSIG owner or not)
	{
		o2 := flipCase(r, owner)
		var rs2 []*rec
		for _, x := range rs {
			rs2 = append(rs2, x.variant(r, o2, x.ttl, false))
		}
		variant("owner-case", rs2, g, sf)
		g2 := dns.Copy(g).(*dns.RRSIG)
		g2.Hdr.Name = showName(o2)
		sf2 := *sf
		sf2.owner = o2
		variant("owner-case", rs2, g2, &sf2)
	}
	// records of one set spelled differently: IsRRset compares the owner strings (noted in docs/C10.md, not a violation key)
	if len(rs) > 1 {
		rs2 := cloneRecs(rs)
		o2 := flipCase(r, owner)
		if showName(o2) != showName(owner) {
			rs2[1] = rs2[1].variant(r, o2, rs2[1].ttl, false)
			st["mixed_case_owner_sets"]++
			if got := verifyCase(kp, kp.k, kp.owner, g, sf, rs2, idx%4 == 0); got != "ok:" {
				st["mixed_case_owner_sets_refused_"+got]++
			}
		}
	}
	// letter case of names in RDATA, for the types RFC 4034 6.2 lists
	if rfcLower[td.typ] {
		var rs2 []*rec
		for _, x := range rs {
			rs2 = append(rs2, x.variant(r, x.owner, x.ttl, true))
		}
		st["invariance_checked"]++
		if got := verifyCase(kp, kp.k, kp.owner, g, sf, rs2, idx%4 == 0); got != "ok:" {
			key := "C10/Verify/invariance-rdata-case"
			if td.typ == dns.TypeNXT {
				key = "C10/Canonical/NXT-not-lowercased"
			}
			Viol(key, "Verify("+got+") after changing the letter case of domain names in RDATA", mkIn(kp, g, sf, rs2, "rdata-case"))
		}
	}
	// signer name case
	{
		g2 := dns.Copy(g).(*dns.RRSIG)
		s2 := flipCase(r, signer)
		g2.SignerName = showName(s2)
		sf2 := *sf
		sf2.signer = s2
		variant("signer-case", rs, g2, &sf2)
	}
	// wildcard expansion: the RRset as a resolver sees it, owner = an expansion of the wildcard
	if wild && string(owner[0]) == "*" {
		exp := append(randName(r, 1, 2, 6), owner[1:]...)
		if validWire(exp) {
			var rs2 []*rec
			for _, x := range rs {
				rs2 = append(rs2, x.variant(r, exp, x.ttl, false))
			}
			g2 := dns.Copy(g).(*dns.RRSIG)
			g2.Hdr.Name = showName(exp)
			sf2 := *sf
			sf2.owner = exp
			variant("wildcard-expansion", rs2, g2, &sf2)
		}
	}

	// ---- alterations: each must be rejected
	origBody, _ := refCanon(sf, rs, codeLower)
	origMsg := append(refSigPrefix(sf), origBody...)
	alter := func(name string, k2 *dns.DNSKEY, kowner [][]byte, rs2 []*rec, g2 *dns.RRSIG, sf2 *sigF) {
		if strings.HasPrefix(name, "rrset-record-") || name == "rdata" {
			// adding or removing a repeated record (or re-spelling one) does not alter the RRset
			if b2, ok := refCanon(sf2, rs2, codeLower); ok && bytes.Equal(append(refSigPrefix(sf2), b2...), origMsg) {
				st["alteration_noop_skipped"]++
				return
			}
		}
		st["alteration_checked"]++
		got := verifyCase(kp, k2, kowner, g2, sf2, rs2, idx%3 == 1)
		if got == "ok:" || got == "panic" {
			Viol("C10/Verify/accepts-altered-"+name, "Verify("+got+") after altering "+name, mkIn(&keyPair{k: k2}, g2, sf2, rs2, name))
		}
	}
	cg := func() (*dns.RRSIG, *sigF) { s := *sf; return dns.Copy(g).(*dns.RRSIG), &s }
	// RDATA: one bit of one octet that is not a letter-case bit of a lower-cased name
	{
		rs2 := cloneRecs(rs)
		x := rs2[r.Intn(len(rs2))]
		var opaque []int
		for i, f := range x.flds {
			if f.kind == 'B' && len(f.bs) > 0 {
				opaque = append(opaque, i)
			}
		}
		if len(opaque) > 0 && td.typ != dns.TypeTXT && td.typ != dns.TypeHINFO && td.typ != dns.TypeNAPTR && td.typ != dns.TypeNSEC && td.typ != dns.TypeNXT {
			// rebuild the Go record from altered octets through the wire (type-agnostic)
			i := opaque[r.Intn(len(opaque))]
			nb := append([]byte{}, x.flds[i].bs...)
			nb[r.Intn(len(nb))] ^= byte(1 << r.Intn(8))
			x.flds[i] = B(nb)
			rd := x.rdata(false)
			w := append(wireOf(x.owner), u16b(x.typ)...)
			w = append(append(append(w, u16b(x.class)...), u32b(x.ttl)...), u16b(uint16(len(rd)))...)
			w = append(w, rd...)
			if rr2, _, err := dns.UnpackRR(w, 0); err == nil {
				x.rr = rr2
				g2, s2 := cg()
				alter("rdata", kp.k, kp.owner, rs2, g2, s2)
			}
		} else {
			// a name: replace it
			for i, f := range x.flds {
				if f.kind == 'N' {
					x.flds[i] = N(append([][]byte{[]byte("zz9")}, f.name...))
					if validWire(x.flds[i].name) {
						setNames(x.rr, x.flds)
						g2, s2 := cg()
						alter("rdata", kp.k, kp.owner, rs2, g2, s2)
					}
					break
				}
			}
		}
	}
	// a record removed / added
	if len(rs) > 1 {
		g2, s2 := cg()
		alter("rrset-record-removed", kp.k, kp.owner, cloneRecs(rs[1:]), g2, s2)
	}
	{
		g2, s2 := cg()
		alter("rrset-record-added", kp.k, kp.owner, append(cloneRecs(rs), genRec(r, td, owner, dns.ClassINET, ttl, nm)), g2, s2)
	}
	// owner (RRset and RRSIG owner together, so that only the signature can object): one more octet in
	// the first label that is not the wildcard label; the number of labels is unchanged
	{
		i := 0
		if len(owner) > 0 && string(owner[0]) == "*" {
			i = 1
		}
		if i < len(owner) && len(owner[i]) < 63 {
			o2 := append([][]byte{}, owner...)
			o2[i] = append([]byte("q"), owner[i]...)
			if validWire(o2) {
				var rs2 []*rec
				for _, x := range rs {
					rs2 = append(rs2, x.variant(r, o2, x.ttl, false))
				}
				g2, s2 := cg()
				g2.Hdr.Name = showName(o2)
				s2.owner = o2
				st["alteration_checked"]++
				got := verifyCase(kp, kp.k, kp.owner, g2, s2, rs2, idx%3 == 1)
				if got == "ok:" || got == "panic" {
					key := "C10/Verify/accepts-altered-owner"
					if i == 0 && owner[0][0] == '*' {
						key = "C10/Sign/labels-star-prefix"
					}
					Viol(key, "Verify("+got+") after altering the owner name (RRset and RRSIG owner)", mkIn(kp, g2, s2, rs2, "owner"))
				}
			}
		}
	}
	// type (RRset type and TypeCovered together) — only between types with the same RDATA layout
	if td.typ == dns.TypeNS || td.typ == dns.TypeCNAME {
		t2 := map[uint16]uint16{dns.TypeNS: dns.TypeCNAME, dns.TypeCNAME: dns.TypeNS}[td.typ]
		var rs2 []*rec
		for _, x := range rs {
			y := &rec{owner: x.owner, typ: t2, class: x.class, ttl: x.ttl, flds: x.flds}
			h := dns.RR_Header{Name: showName(x.owner), Rrtype: t2, Class: x.class, Ttl: x.ttl}
			if t2 == dns.TypeNS {
				y.rr = &dns.NS{Hdr: h, Ns: showName(x.flds[0].name)}
			} else {
				y.rr = &dns.CNAME{Hdr: h, Target: showName(x.flds[0].name)}
			}
			rs2 = append(rs2, y)
		}
		g2, s2 := cg()
		g2.TypeCovered, s2.covered = t2, t2
		alter("type", kp.k, kp.owner, rs2, g2, s2)
	}
	{ // type covered alone
		g2, s2 := cg()
		g2.TypeCovered ^= 1 << uint(r.Intn(16))
		s2.covered = g2.TypeCovered
		alter("type-covered", kp.k, kp.owner, rs, g2, s2)
	}
	{ // class: RRset, RRSIG and key together
		var rs2 []*rec
		for _, x := range rs {
			y := x.variant(r, x.owner, x.ttl, false)
			y.class = dns.ClassCHAOS
			y.rr.Header().Class = dns.ClassCHAOS
			rs2 = append(rs2, y)
		}
		g2, s2 := cg()
		g2.Hdr.Class, s2.class = dns.ClassCHAOS, dns.ClassCHAOS
		k2 := dns.Copy(kp.k).(*dns.DNSKEY)
		k2.Hdr.Class = dns.ClassCHAOS
		alter("class", k2, kp.owner, rs2, g2, s2)
		// class of the RRSIG alone, of the key alone
		g3, s3 := cg()
		g3.Hdr.Class, s3.class = dns.ClassCHAOS, dns.ClassCHAOS
		alter("class-rrsig-only", kp.k, kp.owner, rs, g3, s3)
		g4, s4 := cg()
		alter("class-key-only", k2, kp.owner, rs, g4, s4)
	}
	{ // signer: RRSIG signer and key owner together (a parent or sibling zone with the same key material)
		s2n := [][]byte{[]byte("x")}
		if len(zone) > 0 {
			s2n = append([][]byte{}, zone[1:]...)
		}
		g2, s2 := cg()
		g2.SignerName, s2.signer = showName(s2n), s2n
		k2 := dns.Copy(kp.k).(*dns.DNSKEY)
		k2.Hdr.Name = showName(s2n)
		alter("signer", k2, s2n, rs, g2, s2)
		// signer alone
		g3, s3 := cg()
		g3.SignerName, s3.signer = showName(s2n), s2n
		alter("signer-rrsig-only", kp.k, kp.owner, rs, g3, s3)
	}
	{ // key tag in the RRSIG
		g2, s2 := cg()
		g2.KeyTag ^= 1 << uint(r.Intn(16))
		s2.keytag = g2.KeyTag
		alter("key-tag", kp.k, kp.owner, rs, g2, s2)
	}
	{ // labels
		for _, d := range []int{-1, 1} {
			g2, s2 := cg()
			g2.Labels = uint8(int(g2.Labels) + d)
			s2.labels = g2.Labels
			alter("labels", kp.k, kp.owner, rs, g2, s2)
		}
	}
	{ // original TTL, expiration, inception: one bit each
		g2, s2 := cg()
		g2.OrigTtl ^= 1 << uint(r.Intn(32))
		s2.origttl = g2.OrigTtl
		alter("original-ttl", kp.k, kp.owner, rs, g2, s2)
		g3, s3 := cg()
		g3.Expiration ^= 1 << uint(r.Intn(32))
		s3.exp = g3.Expiration
		alter("expiration", kp.k, kp.owner, rs, g3, s3)
		g4, s4 := cg()
		g4.Inception ^= 1 << uint(r.Intn(32))
		s4.incep = g4.Inception
		alter("inception", kp.k, kp.owner, rs, g4, s4)
		// swapped
		if g.Expiration != g.Inception {
			g5, s5 := cg()
			g5.Expiration, g5.Inception = g.Inception, g.Expiration
			s5.exp, s5.incep = g5.Expiration, g5.Inception
			alter("validity-times-swapped", kp.k, kp.owner, rs, g5, s5)
		}
	}
	{ // algorithm in the RRSIG (and key)
		g2, s2 := cg()
		a2 := map[uint8]uint8{5: 7, 7: 5, 8: 10, 10: 8, 13: 14, 14: 13, 15: 13}[g.Algorithm]
		g2.Algorithm, s2.alg = a2, a2
		alter("algorithm-rrsig-only", kp.k, kp.owner, rs, g2, s2)
		k2 := dns.Copy(kp.k).(*dns.DNSKEY)
		k2.Algorithm = a2
		g3, s3 := cg()
		g3.Algorithm, s3.alg = a2, a2
		g3.KeyTag = k2.KeyTag()
		s3.keytag = g3.KeyTag
		alter("algorithm", k2, kp.owner, rs, g3, s3)
	}
	{ // signature: one bit; truncated; empty
		nb := append([]byte{}, sb...)
		nb[r.Intn(len(nb))] ^= byte(1 << r.Intn(8))
		g2, s2 := cg()
		g2.Signature = base64.StdEncoding.EncodeToString(nb)
		alter("signature-bit", kp.k, kp.owner, rs, g2, s2)
		g3, s3 := cg()
		g3.Signature = base64.StdEncoding.EncodeToString(sb[:len(sb)-1])
		alter("signature-truncated", kp.k, kp.owner, rs, g3, s3)
		g4, s4 := cg()
		g4.Signature = ""
		alter("signature-empty", kp.k, kp.owner, rs, g4, s4)
		// every other length of the field: octets appended, prepended, cut (keys_siglen.go)
		emitN := 0
		if idx%3 == 1 {
			emitN = 3
		}
		sigLenCase(r, kp, g, sf, rs, emitN)
		// the TEXT of the field altered: not base64 any more, or base64 of other octets (keys_siglen.go (c))
		sigTextCase(r, kp, g, sf, rs)
	}
	{ // DNSKEY: zone flag, protocol, other flag bits, public key bit (with and without matching key tag)
		k2 := dns.Copy(kp.k).(*dns.DNSKEY)
		k2.Flags &^= 256
		g2, s2 := cg()
		g2.KeyTag = k2.KeyTag()
		s2.keytag = g2.KeyTag
		alter("key-zone-flag", k2, kp.owner, rs, g2, s2)
		k3 := dns.Copy(kp.k).(*dns.DNSKEY)
		k3.Protocol = uint8(r.Intn(3))
		g3, s3 := cg()
		g3.KeyTag = k3.KeyTag()
		s3.keytag = g3.KeyTag
		alter("key-protocol", k3, kp.owner, rs, g3, s3)
		// protocol and flags changed together so that the key tag stays the same (the tag is signed, so a
		// change of flags or protocol alone is already caught by the signature)
		if kp.k.Flags&0x0200 != 0 {
			k8 := dns.Copy(kp.k).(*dns.DNSKEY)
			k8.Flags -= 0x0200
			k8.Protocol = 5
			if k8.KeyTag() == kp.k.KeyTag() {
				g8, s8 := cg()
				alter("key-protocol-same-tag", k8, kp.owner, rs, g8, s8)
			}
		}
		k4 := dns.Copy(kp.k).(*dns.DNSKEY)
		k4.Flags ^= 1 << uint(10+r.Intn(6))
		g4, s4 := cg()
		alter("key-flags", k4, kp.owner, rs, g4, s4)
		pb := append([]byte{}, kp.pub...)
		pb[len(pb)-1-r.Intn(len(pb)/2)] ^= byte(1 << r.Intn(8))
		k5 := dns.Copy(kp.k).(*dns.DNSKEY)
		k5.PublicKey = base64.StdEncoding.EncodeToString(pb)
		g5, s5 := cg()
		alter("key-public-key", k5, kp.owner, rs, g5, s5)
		g6, s6 := cg()
		g6.KeyTag = k5.KeyTag()
		s6.keytag = g6.KeyTag
		alter("key-public-key-and-tag", k5, kp.owner, rs, g6, s6)
		// key owner
		k7 := dns.Copy(kp.k).(*dns.DNSKEY)
		o7 := append([][]byte{[]byte("k")}, kp.owner...)
		k7.Hdr.Name = showName(o7)
		g7, s7 := cg()
		alter("key-owner", k7, o7, rs, g7, s7)
	}
	// ---- signatures that are cryptographically valid but must be refused by the pre-checks
	{
		// made with the library's Sign for a key that is not a zone key / has protocol != 3
		for _, c := range []struct {
			name  string
			flags uint16
			proto uint8
		}{{"signed-by-non-zone-key", kp.k.Flags &^ 256, 3}, {"signed-by-key-with-protocol-2", kp.k.Flags, 2}, {"signed-by-key-with-protocol-0", kp.k.Flags, 0}} {
			k2 := dns.Copy(kp.k).(*dns.DNSKEY)
			k2.Flags, k2.Protocol = c.flags, c.proto
			g2 := &dns.RRSIG{Hdr: dns.RR_Header{Ttl: ttl}, Algorithm: k2.Algorithm, Expiration: g.Expiration, Inception: g.Inception,
				KeyTag: k2.KeyTag(), SignerName: showName(signer)}
			if g2.KeyTag == 0 {
				continue
			}
			if err := g2.Sign(kp.priv, rrsOf(rs)); err == nil {
				alter(c.name, k2, kp.owner, rs, g2, sigFOf(g2, owner, signer))
			}
		}
		// made by the harness with crypto/ed25519 over the reference octets: Labels larger than the owner has
		if ek, ok := kp.priv.(ed25519.PrivateKey); ok && len(owner) < 120 {
			g2, s2 := cg()
			g2.Labels = uint8(len(owner) + 1)
			s2.labels = g2.Labels
			if body, ok := refCanon(s2, rs, codeLower); ok {
				g2.Signature = base64.StdEncoding.EncodeToString(ed25519.Sign(ek, append(refSigPrefix(s2), body...)))
				alter("labels-above-owner-validly-signed", kp.k, kp.owner, rs, g2, s2)
			}
			// and a type covered that is not the RRset's type
			g3, s3 := cg()
			g3.TypeCovered ^= 0x100
			s3.covered = g3.TypeCovered
			if body, ok := refCanon(s3, rs, codeLower); ok {
				g3.Signature = base64.StdEncoding.EncodeToString(ed25519.Sign(ek, append(refSigPrefix(s3), body...)))
				alter("type-covered-validly-signed", kp.k, kp.owner, rs, g3, s3)
			}
		}
	}
	// an RRset whose records differ in owner, type or class is not an RRset
	if len(rs) > 1 {
		rs2 := cloneRecs(rs)
		rs2[1].class = dns.ClassCHAOS
		rs2[1].rr.Header().Class = dns.ClassCHAOS
		g2, s2 := cg()
		alter("rrset-mixed-class", kp.k, kp.owner, rs2, g2, s2)
	}
	{ // empty RRset
		g2, s2 := cg()
		alter("rrset-empty", kp.k, kp.owner, nil, g2, s2)
	}
}

// ---------------------------------------------------------------- raw octets >= 0x80 in owner and embedded names
// Only ASCII A-Z are folded in the canonical form (RFC 4034 6.2 with RFC 4343): a non-ASCII "case" change or
// another non-UTF-8 octet is a different name. Fixed name inputs.
var rawPairs = [][2]string{
	{"\xc3\x89", "\xc3\xa9"}, {"\xc3\x9c", "\xc3\xbc"}, {"\xce\xa9", "\xcf\x89"}, {"\xe2\x84\xaa", "k"}, {"\xc5\xbf", "s"},
	{"\xc3\xa9", "\xc3\x89"}, {"\xff", "\xfe"}, {"\xfe", "\xef\xbf\xbd"}, {"\xc3", "\x80"}, {"\x80", "\xc3"},
}

func replaceLabels(ls [][]byte, a, b string) [][]byte {
	o := make([][]byte, len(ls))
	for i, l := range ls {
		o[i] = bytes.ReplaceAll(l, []byte(a), []byte(b))
	}
	return o
}

func (x *rec) replaced(a, b string, owner, rdata bool) *rec {
	y := &rec{owner: x.owner, typ: x.typ, class: x.class, ttl: x.ttl}
	if owner {
		y.owner = replaceLabels(x.owner, a, b)
	}
	y.rr = dns.Copy(x.rr)
	y.rr.Header().Name = showName(y.owner)
	for _, f := range x.flds {
		if f.kind == 'N' && rdata {
			f = N(replaceLabels(f.name, a, b))
		}
		y.flds = append(y.flds, f)
	}
	setNames(y.rr, y.flds)
	return y
}

func rawCase(r *Rng, kp *keyPair, td tdef, pair [2]string, pos int) {
	rawMode = true
	defer func() { rawMode = false }()
	q := pair[0]
	x := []byte("a" + q + "B")
	owner := append([][]byte{x}, kp.owner...)
	if pos == 1 {
		owner = append([][]byte{[]byte("Www"), []byte(q)}, kp.owner...)
	}
	k := 0
	nm := func() [][]byte {
		k++
		return [][]byte{[]byte(fmt.Sprintf("Ns%d", k)), []byte(q + "Zz"), x, []byte("Org")}[pos:]
	}
	rs := []*rec{genRec(r, td, owner, dns.ClassINET, 300, nm), genRec(r, td, owner, dns.ClassINET, 300, nm)}
	signer := kp.owner
	g := &dns.RRSIG{Hdr: dns.RR_Header{Ttl: 300}, Algorithm: kp.k.Algorithm, Expiration: 2000000000, Inception: 1000000000, KeyTag: kp.k.KeyTag(), SignerName: showName(signer)}
	st["raw_sign_checked"]++
	if err := g.Sign(kp.priv, rrsOf(rs)); err != nil {
		Viol("C10/Sign/error", "Sign failed on names with raw octets >= 0x80: "+err.Error(), mkIn(kp, g, nil, rs, "raw"))
		return
	}
	sf := sigFOf(g, owner, signer)
	in := mkIn(kp, g, sf, rs, "raw octets "+Hx([]byte(q)))
	canonCase(r, sf, rs, true)
	sb, _ := base64.StdEncoding.DecodeString(g.Signature)
	body, ok := refCanon(sf, rs, rfcLower)
	if !ok || !cryptoVerify(g.Algorithm, kp.pub, append(refSigPrefix(sf), body...), sb) {
		Viol("C10/Sign/signature-not-over-rfc-octets", "names with raw octets >= 0x80: the signature does not verify over the octets with only A-Z folded", in)
	}
	if got := verifyCase(kp, kp.k, kp.owner, g, sf, rs, true); got != "ok:" {
		Viol("C10/Verify/sign-output-rejected", "Verify("+got+") on the output of Sign (names with raw octets >= 0x80)", in)
		return
	}
	// ASCII letters re-spelled: still valid
	{
		o2 := flipCase(r, owner)
		var rs2 []*rec
		for _, y := range rs {
			rs2 = append(rs2, y.variant(r, o2, y.ttl, rfcLower[td.typ]))
		}
		if got := verifyCase(kp, kp.k, kp.owner, g, sf, rs2, true); got != "ok:" {
			Viol("C10/Verify/invariance-owner-case", "Verify("+got+") after re-spelling ASCII letters of names that also hold raw octets >= 0x80", mkIn(kp, g, sf, rs2, "raw"))
		}
	}
	// a non-ASCII "case" partner / another non-UTF-8 octet is another name: must be refused
	for _, c := range []struct {
		name         string
		owner, rdata bool
	}{{"owner-nonascii-octets", true, false}, {"rdata-nonascii-octets", false, true}} {
		var rs2 []*rec
		for _, y := range rs {
			rs2 = append(rs2, y.replaced(q, pair[1], c.owner, c.rdata))
		}
		if c.rdata && bytes.Equal(rs2[0].rdata(false), rs[0].rdata(false)) {
			continue // the type has no embedded name
		}
		g2 := dns.Copy(g).(*dns.RRSIG)
		s2 := *sf
		if c.owner {
			s2.owner = rs2[0].owner
			g2.Hdr.Name = showName(s2.owner)
		}
		st["raw_alteration_checked"]++
		got := verifyCase(kp, kp.k, kp.owner, g2, &s2, rs2, true)
		if got == "ok:" || got == "panic" {
			Viol("C10/Verify/accepts-altered-"+c.name, fmt.Sprintf("Verify(%s) after replacing the raw octets %x by %x (not an ASCII case change)", got, q, pair[1]), mkIn(kp, g2, &s2, rs2, c.name))
		}
	}
}

func runC10(r *Rng, tier string, n int) {
	zone := [][]byte{[]byte("eXample"), []byte("org")}
	perKey := 3
	nEd, nEc := 3, 2
	ncanon := 500
	if tier == "thorough" {
		perKey, nEd, nEc, ncanon = 8, 12, 6, 20000
	}
	if n > 0 {
		ncanon = n
	}
	// keys: RSA is slow to generate, one per algorithm; ECDSA / Ed25519 several
	var keys []*keyPair
	for _, a := range []uint8{5, 7, 8, 10} {
		keys = append(keys, newKey(r, a, zone))
	}
	for i := 0; i < nEc; i++ {
		keys = append(keys, newKey(r, 13, zone), newKey(r, 14, [][]byte{[]byte("sub"), []byte("Zone"), []byte("test")}))
	}
	for i := 0; i < nEd; i++ {
		keys = append(keys, newKey(r, 15, [][]byte{[]byte("z")}))
	}
	keys = append(keys, newKey(r, 15, nil)) // the root zone
	// the largest RSA size Generate offers (4096 bits: a modulus of exactly 512 octets), fixed keys
	for _, kv := range [][2]string{{RSA4096Pub8, RSA4096Priv8}, {RSA4096Pub10, RSA4096Priv10}} {
		rr, err := dns.NewRR(kv[0])
		if err != nil {
			panic(err)
		}
		k := rr.(*dns.DNSKEY)
		p, err := k.NewPrivateKey(kv[1])
		if err != nil {
			Viol("C10/key/rsa4096-not-loadable", "a 4096-bit RSA private key exported by the library cannot be read back: "+err.Error(), nil)
			continue
		}
		pub, _ := base64.StdEncoding.DecodeString(k.PublicKey)
		keys = append(keys, &keyPair{k: k, priv: p.(crypto.Signer), owner: [][]byte{[]byte("big"), []byte("example")}, pub: pub})
	}
	idx := 0
	for rep := 0; rep < perKey; rep++ {
		for ti, td := range tdefs {
			// every type with at least two algorithms per round; all keys over the rounds
			for j := 0; j < 2; j++ {
				kp := keys[(ti*2+j+rep*5)%len(keys)]
				signCase(r, kp, td, idx)
				idx++
			}
		}
	}
	// raw high octets in owner and embedded names
	{
		var ed *keyPair
		for _, kp := range keys {
			if kp.k.Algorithm == 15 && len(kp.owner) == 1 {
				ed = kp
				break
			}
		}
		byTyp := map[uint16]tdef{}
		for _, td := range tdefs {
			byTyp[td.typ] = td
		}
		for pi, pair := range rawPairs {
			for ti, t := range []uint16{dns.TypeNS, dns.TypeMX, dns.TypeSOA, dns.TypeNXT, dns.TypeTXT, dns.TypeNSEC} {
				rawCase(r, ed, byTyp[t], pair, (pi+ti)%2)
			}
		}
	}
	// ECDSA signatures are fixed-width r | s: sign often enough to see r or s with leading zero octets
	for _, kp := range keys {
		a := kp.k.Algorithm
		if a != 13 && a != 14 {
			continue
		}
		reps, il := 700, 32
		if a == 14 {
			reps, il = 150, 48
		}
		if tier == "thorough" {
			reps *= 10
		}
		owner := append([][]byte{[]byte("w")}, kp.owner...)
		x := genRec(r, tdefs[0], owner, dns.ClassINET, 300, nil)
		short := 0
		for i := 0; i < reps; i++ {
			g := &dns.RRSIG{Hdr: dns.RR_Header{Ttl: 300}, Algorithm: a, Expiration: uint32(i), Inception: uint32(r.Next()), KeyTag: kp.k.KeyTag(), SignerName: showName(kp.owner)}
			if err := g.Sign(kp.priv, []dns.RR{x.rr}); err != nil {
				Viol("C10/Sign/error", "Sign failed: "+err.Error(), mkIn(kp, g, nil, []*rec{x}, ""))
				break
			}
			sb, _ := base64.StdEncoding.DecodeString(g.Signature)
			st["ecdsa_width_checked"]++
			sf := sigFOf(g, owner, kp.owner)
			if len(sb) == 2*il && (sb[0] == 0 || sb[il] == 0) {
				short++
				sigLenCase(r, kp, g, sf, []*rec{x}, 0) // r or s with a leading zero octet: also the stripped forms
			} else if i%50 == 7 {
				sigLenCase(r, kp, g, sf, []*rec{x}, 0)
			}
			body, _ := refCanon(sf, []*rec{x}, rfcLower)
			if len(sb) != 2*il || !cryptoVerify(a, kp.pub, append(refSigPrefix(sf), body...), sb) || g.Verify(kp.k, []dns.RR{x.rr}) != nil {
				Viol("C10/Sign/ecdsa-signature-width", fmt.Sprintf("ECDSA signature of %d octets (expected r | s of %d) or not verifiable", len(sb), 2*il), mkIn(kp, g, sf, []*rec{x}, ""))
				break
			}
		}
		st["ecdsa_leading_zero_seen"] += short
	}
	// canonical form alone: arbitrary Labels, mixed owner spellings, names at the limits
	for i := 0; i < ncanon; i++ {
		td := tdefs[r.Intn(len(tdefs))]
		owner := randName(r, 0, 5, 8)
		switch {
		case i%17 == 0:
			owner = append([][]byte{[]byte("*")}, owner...)
		case i%19 == 0:
			owner = [][]byte{[]byte("*")}
		case i%23 == 0: // long owner: 250..256 wire octets
			owner = nil
			for w := 1; w < 250+r.Intn(7)-9; w += 10 {
				owner = append(owner, randLabel(r, 9))
			}
		}
		if !validWire(owner) && i%23 != 0 {
			continue
		}
		nm := func() [][]byte {
			if r.Intn(40) == 0 {
				return [][]byte{randLabel(r, 62+r.Intn(3))} // label of 62..64 octets
			}
			return randName(r, 0, 4, 8)
		}
		nrec := 1 + r.Intn(4)
		var rs []*rec
		for j := 0; j < nrec; j++ {
			x := genRec(r, td, owner, []uint16{1, 1, 3, 254}[r.Intn(4)], uint32(r.Intn(5000)), nm)
			rs = append(rs, x)
			if r.Intn(3) == 0 { // a repeat that differs in TTL, owner case and RDATA case
				rs = append(rs, x.variant(r, flipCase(r, owner), uint32(r.Intn(99)), true))
			}
		}
		for j := range rs { // one class per RRset
			rs[j].class = rs[0].class
			rs[j].rr.Header().Class = rs[0].class
		}
		lab := len(owner)
		switch r.Intn(6) {
		case 0:
			lab = r.Intn(len(owner) + 2)
		case 1:
			lab = 0
		case 2:
			if lab > 0 {
				lab--
			}
		}
		sf := &sigF{owner: owner, class: rs[0].class, covered: td.typ, alg: uint8(r.Next()), labels: uint8(lab), origttl: uint32(r.Next()),
			exp: uint32(r.Next()), incep: uint32(r.Next()), keytag: uint16(r.Next()), signer: randName(r, 0, 3, 8)}
		canonCase(r, sf, rs, i < 700)
	}
	// one-octet name pairs in every name comparison of Verify; RRSIG / RRset / DNSKEY values used for several calls
	runRound4(r, tier, keys)
	// keys with one (owner, algorithm, key tag) and different material used in sequences of Verify calls
	runRound5(r, tier, keys)
	for t := uint16(0); t < 70; t++ {
		Emit("lowered", []string{Itoa(int(t))}, Btoa(codeLower[t]))
	}
	Stat(st)
}
