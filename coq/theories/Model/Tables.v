(* Model/Tables.v — the data types of the tables the translator (tools/gotrans)
   regenerates from /repo's generated and table-like sources on every run
   (coq/theories/Gen/*.v).  Definitions only. *)
From Dns Require Export Base.Bytes.
Open Scope N_scope.

(* ---- zmsg.go: per-type pack / unpack field sequences ---- *)
(* where a variable-length text field ends: at the end of the RDATA
   (rdStart+int(rr.Hdr.Rdlength)) or off+int(rr.<F>) *)
Inductive fend := ToEnd | SizedBy (f : string).

Inductive fkind :=
| K_u8 | K_u16 | K_u32 | K_u48 | K_u64
| K_name (compress : bool)          (* packDomainName(rr.X, .., compression, compress|false) / UnpackDomainName *)
| K_string                          (* packString / unpackString: one character-string *)
| K_txt                             (* packStringTxt / unpackStringTxt: []string *)
| K_octet                           (* packStringOctet / unpackStringOctet *)
| K_any                             (* packStringAny / unpackStringAny *)
| K_hex (e : fend)                  (* packStringHex / unpackStringHex(.., end) *)
| K_hexdash (e : fend)              (* pack side only: packed unless the value is a single dash *)
| K_b64 (e : fend)
| K_b32 (e : fend)
| K_a | K_aaaa
| K_nsec | K_opt | K_svcb | K_apl
| K_names (compress : bool)         (* packDataDomainNames / unpackDataDomainNames(.., rdEnd) *)
| K_gateway (tyf addrf hostf : string) (mask : N) (compress : bool).  (* pack/unpackIPSECGateway(.., rr.T & mask, ..) *)

(* pack side: field name (for K_gateway the host field) and kind, in statement order *)
Definition pfield := (string * fkind)%type.
(* unpack side: field, kind, and whether `if off == len(msg) { return off, nil }` follows *)
Record ufield := { uf_name : string; uf_kind : fkind; uf_exit : bool }.
Record tlayout := { tl_name : string; tl_pack : list pfield; tl_unpack : list ufield }.

(* ---- ztypes.go: per-type len() terms, in statement order ---- *)
Inductive lterm :=
| L_const (n : N)                          (* l += n, l++ *)
| L_strlen1 (f : string)                   (* l += len(rr.F) + 1 *)
| L_len (f : string)                       (* l += len(rr.F) *)
| L_half (f : string)                      (* l += len(rr.F) / 2 *)
| L_b64 (f : string)                       (* l += base64.StdEncoding.DecodedLen(len(rr.F)) *)
| L_b32 (f : string)                       (* l += base32HexNoPadEncoding.DecodedLen(len(rr.F)) *)
| L_b32text (f : string)                   (* l += len(rr.F) for a base32 text field *)
| L_name (f : string) (compress : bool)    (* l += domainNameLen(rr.F, off+l, compression, c) *)
| L_txts (f : string)                      (* for x in rr.F { l += len(x) + 1 } *)
| L_names (f : string) (compress : bool)   (* for x in rr.F { l += domainNameLen(x, off+l, compression, c) } *)
| L_elems_len (f : string)                 (* for x in rr.F { l += x.len() } *)
| L_pairs (f : string)                     (* for x in rr.F { l += 4 + int(x.len()) } *)
| L_ifnonempty (f : string) (n : N)        (* if len(rr.F) != 0 { l += n } *)
| L_nsec (f : string)                      (* l += typeBitMapLen(rr.F) *)
| L_gateway (tyf : string) (mask : N) (hostf : string) (v4 v6 host : N).  (* switch rr.T { case v4: +4; case v6: +16; case host: len(rr.H)+1 } *)
Record tlen := { ln_name : string; ln_terms : list lterm }.

(* ---- ztypes.go / edns.go / svcb.go: copy() actions per struct field ---- *)
Inductive caction :=
| C_share                 (* rr.F copied by value *)
| C_clone                 (* cloneSlice(rr.F) *)
| C_copy_each             (* make + for i, e := range rr.F { X[i] = e.copy() } *)
| C_clone_each            (* make + for i, e := range rr.F { X[i] = cloneSlice(e) } *)
| C_deep_fn (fn : string) (* fn(rr.F) with fn a named deep-copy function (copyNet) *)
| C_embedded (t : string) (* the embedded record is copied through its own copy method *)
| C_other (what : string).
Record tcopy := { cp_name : string; cp_fields : list (string * caction) }.

(* Go type of a struct field, as far as aliasing is concerned *)
Inductive gotype :=
| G_scalar                (* integers, bool, string (immutable), RR_Header is handled apart *)
| G_slice_scalar          (* []byte, net.IP, []uint16, []string, []net.IP of immutable elements: cloneSlice suffices *)
| G_slice_slices          (* []net.IP: elements are themselves slices *)
| G_slice_iface (t : string)   (* []EDNS0, []SVCBKeyValue, []APLPrefix: elements need copy() *)
| G_embedded (t : string)
| G_struct (t : string)   (* a struct by value that may hold slices (net.IPNet) *)
| G_header
| G_unknown (t : string).
Record tstruct := { st_name : string; st_fields : list (string * gotype * string (* dns tag *)) }.

(* ---- zduplicate.go: comparisons per field ---- *)
Inductive dcmp :=
| D_eq (f : string)                       (* r1.F != r2.F *)
| D_name (f : string)                     (* !isDuplicateName(r1.F, r2.F) *)
| D_len_eq (f : string)                   (* len(r1.F) != len(r2.F) *)
| D_each_eq (f : string)                  (* for i { r1.F[i] != r2.F[i] } *)
| D_each_name (f : string)
| D_each_equals (f : string)              (* !r1.F[i].equals(&r2.F[i]) *)
| D_ip_equal (f : string)                 (* !r1.F.Equal(r2.F) *)
| D_pairs (f : string)                    (* !areSVCBPairArraysEqual *)
| D_gateway (tyf : string) (mask : N) (addrf hostf : string)
| D_embedded (t : string)                 (* r1.T.isDuplicate(&r2.T) *)
| D_const (b : bool)                      (* return true / return false *)
| D_other (what : string).
Record tdup := { dp_name : string; dp_cmps : list dcmp }.
