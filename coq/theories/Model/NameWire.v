(* Model/NameWire.v — msg.go packDomainName / UnpackDomainName, defaults.go
   IsDomainName, modelled statement by statement.  Definitions only.

   Packing is sequential: the Go code writes at [off] into a buffer of
   [len(msg)] octets and everything before [off] has been written before.  The
   model therefore carries [out], the octets msg[:off] written so far
   (off = length out) and [cap] = len(msg). *)
From Dns Require Export Model.Name.
Open Scope N_scope.

Definition max_compression_offset : N := 16384.   (* maxCompressionOffset = 2 << 13 *)
Definition max_name_wire : N := 255.              (* maxDomainNameWireOctets *)
Definition max_pointers : N := 127.               (* maxCompressionPointers = (255+1)/2 - 1 *)

(* ---------- UnpackDomainName ---------- *)
(* every iteration either consumes a label (budget shrinks by >= 2) or follows a
   pointer (at most 127 times), so 400 iterations always suffice *)
Definition unpack_name_fuel : nat := 400.

Fixpoint un_go (fuel : nat) (msg : bytes) (off : N) (s : bytes) (off1 : N) (budget : Z) (ptr : N)
  : res (bytes * N) :=
  match fuel with
  | O => OutOfFuel
  | S f =>
    if lenN msg <=? off then Err "buf"
    else
      let c := nthN msg off 0 in
      let off := off + 1 in
      if c <? 64 then                              (* c & 0xC0 == 0x00 *)
        if c =? 0 then
          let off1 := if ptr =? 0 then off else off1 in
          Ok (match s with [] => [46] | _ => s end, off1)
        else if lenN msg <? off + c then Err "buf"
        else
          let budget := (budget - (Z.of_N c + 1))%Z in
          if (budget <=? 0)%Z then Err "longdomain"
          else
            let lab := takeN c (dropN off msg) in
            un_go f msg (off + c) (s ++ show_label lab ++ [46]) off1 budget ptr
      else if 192 <=? c then                       (* c & 0xC0 == 0xC0 *)
        if lenN msg <=? off then Err "buf"
        else
          let c1 := nthN msg off 0 in
          let off := off + 1 in
          let off1 := if ptr =? 0 then off else off1 in
          let ptr := ptr + 1 in
          if max_pointers <? ptr then Err "pointers"
          else un_go f msg ((c - 192) * 256 + c1) s off1 budget ptr
      else Err "rdata"                             (* 0x40 and 0x80 are reserved *)
  end.

Definition unpack_name (msg : bytes) (off : N) : res (bytes * N) :=
  un_go unpack_name_fuel msg off [] 0 (Z.of_N max_name_wire) 0.

(* ---------- packDomainName ---------- *)
(* compression map: presentation suffix -> offset of its first occurrence *)
Definition cmap := list (bytes * N).
Fixpoint cm_find (cm : cmap) (k : bytes) : option N :=
  match cm with
  | [] => None
  | (k', v) :: r => if bytes_eqb k' k then Some v else cm_find r k
  end.

(* msg.go escapedNameLen: length of s with every escape counted as one octet *)
Fixpoint escaped_name_len (s : bytes) : N :=
  match s with
  | [] => 0
  | 92 :: r =>
    match r with
    | a :: ((b :: c :: r3) as r1) =>
      if is_digit a && is_digit b && is_digit c then 1 + escaped_name_len r3
      else 1 + escaped_name_len r1
    | a :: r1 => 1 + escaped_name_len r1
    | [] => 0          (* Go: nameLen-- for the backslash itself, then the loop ends *)
    end
  | _ :: r => 1 + escaped_name_len r
  end.

Record pn_state := {
  pn_out : bytes;                (* msg[:off] *)
  pn_cm : option cmap;           (* None: no compression map at all *)
}.

(* result of the scan loop: state, and the pointer target if the loop broke *)
Inductive pn_end := PnDone (st : pn_state) | PnPointer (st : pn_state) (p : N).

(* s: rest of the (escaped) string; first: i == 0; lab: the unescaped label
   collected so far (labelLen = length lab); lstart: s[compBegin:];
   name_len: wire octets of the name emitted so far *)
Fixpoint pn_go (s : bytes) (first : bool) (lab : bytes) (lstart : bytes) (wasdot : bool)
         (name_len : N) (cap : N) (compress : bool) (st : pn_state) : res pn_end :=
  let off := lenN (pn_out st) in
  match s with
  | [] => Ok (PnDone st)
  | 92 :: r =>
    if cap <? off + 1 then Err "buf"
    else
      match r with
      | a :: ((b :: c :: r3) as r1) =>
        if is_digit a && is_digit b && is_digit c
        then pn_go r3 false (lab ++ [ddd_to_byte r]) lstart false name_len cap compress st
        else pn_go r1 false (lab ++ [a]) lstart false name_len cap compress st
      | a :: r1 => pn_go r1 false (lab ++ [a]) lstart false name_len cap compress st
      | [] => Err "unreachable"     (* a name ending in a backslash is not fully qualified *)
      end
  | 46 :: r =>
    if first && negb (match r with [] => true | _ => false end) then Err "rdata"
    else if wasdot then Err "rdata"
    else
      let label_len := lenN lab in
      if 64 <=? label_len then Err "rdata"
      else if cap <? off + 1 + label_len then Err "buf"
      else
        let is_root_here := match lab, r with [], [] => true | _, _ => false end in
        (* compression: look the suffix up; a hit ends the loop when compress is set *)
        let hit :=
          match pn_cm st with
          | Some cm => if is_root_here then None else cm_find cm lstart
          | None => None
          end in
        let st1 :=
          match pn_cm st with
          | Some cm =>
            if is_root_here then st
            else match cm_find cm lstart with
                 | Some _ => st
                 | None => if off <? max_compression_offset
                           then {| pn_out := pn_out st; pn_cm := Some ((lstart, off) :: cm) |}
                           else st
                 end
          | None => st
          end in
        match hit, compress with
        | Some p, true =>
          if max_name_wire <? name_len + escaped_name_len lstart + 1 then Err "longdomain"
          else Ok (PnPointer st p)
        | _, _ =>
          let name_len := name_len + 1 + label_len in
          if max_name_wire <? name_len + 1 then Err "longdomain"
          else
            let st2 := {| pn_out := pn_out st1 ++ label_len :: lab; pn_cm := pn_cm st1 |} in
            pn_go r false [] r true name_len cap compress st2
        end
  | x :: r => pn_go r false (lab ++ [x]) lstart false name_len cap compress st
  end.

Definition pack_name (s : bytes) (cap : N) (compress : bool) (st : pn_state) : res pn_state :=
  match s with
  | [] => Ok st
  | _ =>
    if negb (is_fqdn s) then Err "fqdn"
    else
      do e <- pn_go s true [] s false 0 cap compress st;
      match e with
      | PnDone st' =>
        if bytes_eqb s [46] then Ok st'
        else if lenN (pn_out st') <? cap
             then Ok {| pn_out := pn_out st' ++ [0]; pn_cm := pn_cm st' |}
             else Err "buf"
      | PnPointer st' p =>
        if bytes_eqb s [46] then Ok st'
        else if cap <? lenN (pn_out st') + 2 then Panic     (* PutUint16(msg[off:]) *)
             else Ok {| pn_out := pn_out st' ++ u16 (p + 49152); pn_cm := pn_cm st' |}
      end
  end.

(* PackDomainName(s, make([]byte, cap), 0, nil, false): the plain wire form *)
Definition pack_name_plain (s : bytes) (cap : N) : res bytes :=
  do st <- pack_name s cap false {| pn_out := []; pn_cm := None |};
  Ok (pn_out st).

(* ---------- IsDomainName ---------- *)
Definition idn_lenmsg : N := 254.   (* maxDomainNameWireOctets - 1 *)

(* s: rest of Fqdn(s); first: i == 0 (and len(s) > 1 is r <> []); lab_len: i - begin *)
Fixpoint idn_go (s : bytes) (first : bool) (lab_len : N) (wasdot escape : bool) (off labels : N)
  : N * bool :=
  match s with
  | [] => (labels, negb escape)
  | 92 :: r =>
    if idn_lenmsg <? off + 1 then (labels, false)
    else
      match r with
      | a :: ((b :: c :: r3) as r1) =>
        if is_digit a && is_digit b && is_digit c
        then idn_go r3 false (lab_len + 1) false (negb escape) off labels
        else idn_go r1 false (lab_len + 1) false (negb escape) off labels
      | a :: r1 => idn_go r1 false (lab_len + 1) false (negb escape) off labels
      | [] => (labels, escape)   (* i++ runs past the end; the loop ends with escape toggled *)
      end
  | 46 :: r =>
    if first && negb (match r with [] => true | _ => false end) then (labels, false)
    else if wasdot then (labels, false)
    else if 64 <=? lab_len then (labels, false)
    else
      let off := off + 1 + lab_len in
      if idn_lenmsg <? off then (labels, false)
      else idn_go r false 0 true false off (labels + 1)
  | x :: r => idn_go r false (lab_len + 1) false false off labels
  end.

Definition is_domain_name (s : bytes) : N * bool :=
  match s with
  | [] => (0, false)
  | _ =>
    let s := if is_fqdn s then s else s ++ [46] in
    idn_go s true 0 false false 0 0
  end.
