(* Proofs/PresentLexProofs.v — the zone lexer on printed RDATA (C05):
   a line made of well-formed words and quoted strings separated by single
   blanks is split into exactly those tokens. *)
From Dns Require Import Base.ListX Model.Present Proofs.EscapeProofs Proofs.PresentEscProofs.
From Coq Require Import Lia ZifyN ZifyNat ZifyBool.
Open Scope N_scope.

(* ---- one character inside a quoted string ---- *)
Lemma lex_step_quote st acc esc x r :
  l_quote st = true -> negb esc && (x =? 34) = false ->
  exists sp, lex_go st acc esc (x :: r) =
             lex_go (mkL true sp (l_owner st) (l_rrtype st) (l_brace st)) (x :: acc) (negb esc && (x =? 92)) r.
Proof.
  destruct st as [q sp ow rt br]. cbn [l_quote l_owner l_rrtype l_brace]. intros -> H.
  cbn [lex_go l_quote l_space l_owner l_rrtype l_brace].
  rewrite !orb_true_r.
  destruct ((x =? 32) || (x =? 9)) eqn:E1.
  { exists sp. replace (x =? 92) with false by lia. now rewrite andb_false_r. }
  destruct (x =? 59) eqn:E2.
  { exists sp. replace (x =? 92) with false by lia. now rewrite andb_false_r. }
  destruct (x =? 13) eqn:E3.
  { exists sp. replace (x =? 92) with false by lia. now rewrite andb_false_r. }
  destruct (x =? 10) eqn:E4.
  { exists sp. replace (x =? 92) with false by lia. now rewrite andb_false_r. }
  destruct (x =? 92) eqn:E5.
  { exists sp. destruct esc; reflexivity. }
  destruct (x =? 34) eqn:E6.
  { exists sp. destruct esc; [reflexivity|discriminate]. }
  destruct ((x =? 40) || (x =? 41)) eqn:E7.
  { exists sp. now rewrite andb_false_r. }
  exists false. now rewrite andb_false_r.
Qed.

(* the closing quote *)
Lemma lex_close_quote st acc r :
  l_quote st = true ->
  lex_go st acc false (34 :: r) =
  (if is_nil acc then [] else [TStr (rev acc)]) ++ TQuote ::
  lex_go (mkL false false (l_owner st) (l_rrtype st) (l_brace st)) [] false r.
Proof.
  destruct st as [q sp ow rt br]. cbn [l_quote l_owner l_rrtype l_brace]. intros ->.
  cbn [lex_go l_quote l_space l_owner l_rrtype l_brace]. reflexivity.
Qed.

(* a whole quoted body *)
Lemma lex_quoted q : forall st acc esc rest,
  l_quote st = true -> qbody_ok esc q = true ->
  lex_go st acc esc (q ++ 34 :: rest) =
  (if is_nil (rev q ++ acc) then [] else [TStr (rev (rev q ++ acc))]) ++ TQuote ::
  lex_go (mkL false false (l_owner st) (l_rrtype st) (l_brace st)) [] false rest.
Proof.
  induction q as [|x q IH]; intros st acc esc rest Hq Hok.
  - cbn in Hok. destruct esc; [discriminate|]. cbn [app rev]. now apply lex_close_quote.
  - cbn [app]. cbn [qbody_ok] in Hok.
    assert (Hx : negb esc && (x =? 34) = false).
    { destruct esc; [reflexivity|]. cbn. destruct (x =? 92) eqn:E; [lia|]. destruct (x =? 34); [discriminate|reflexivity]. }
    destruct (lex_step_quote st acc esc x (q ++ 34 :: rest) Hq Hx) as [sp ->].
    rewrite IH.
    + cbn [l_owner l_rrtype l_brace rev]. rewrite <- app_assoc. reflexivity.
    + reflexivity.
    + destruct esc; cbn [negb andb]; [exact Hok|].
      destruct (x =? 92); [exact Hok|]. destruct (x =? 34); [discriminate|exact Hok].
Qed.

(* ---- one character of a word outside quotes ---- *)
Lemma lex_step_word st acc esc x r sp' :
  l_quote st = false -> wscan esc (l_space st) (x :: r) = Some sp' ->
  exists sp1 esc1, wscan esc1 sp1 r = Some sp' /\
    forall rest, lex_go st acc esc (x :: r ++ rest) =
                 lex_go (mkL false sp1 (l_owner st) (l_rrtype st) (l_brace st)) (x :: acc) esc1 (r ++ rest).
Proof.
  destruct st as [q sp ow rt br]. cbn [l_quote l_space l_owner l_rrtype l_brace]. intros -> H.
  cbn [wscan] in H. unfold word_special in H.
  destruct esc.
  - destruct ((x =? 13) || (x =? 10)) eqn:E0; [discriminate|].
    destruct ((x =? 32) || (x =? 9) || (x =? 59) || (x =? 13) || (x =? 10) || (x =? 34) || (x =? 40) || (x =? 41) || (x =? 92)) eqn:E1.
    + exists sp, false. split; [exact H|]. intro rest.
      cbn [lex_go l_quote l_space l_owner l_rrtype l_brace]. cbn [orb].
      destruct ((x =? 32) || (x =? 9)) eqn:A1; [reflexivity|].
      destruct (x =? 59) eqn:A2; [reflexivity|].
      replace (x =? 13) with false by lia. replace (x =? 10) with false by lia.
      destruct (x =? 92) eqn:A5; [reflexivity|].
      destruct (x =? 34) eqn:A6; [reflexivity|].
      destruct ((x =? 40) || (x =? 41)) eqn:A7; [reflexivity|]. lia.
    + exists false, false. split; [exact H|]. intro rest.
      cbn [lex_go l_quote l_space l_owner l_rrtype l_brace].
      replace ((x =? 32) || (x =? 9)) with false by lia. replace (x =? 59) with false by lia.
      replace (x =? 13) with false by lia. replace (x =? 10) with false by lia.
      replace (x =? 92) with false by lia. replace (x =? 34) with false by lia.
      replace ((x =? 40) || (x =? 41)) with false by lia. reflexivity.
  - destruct ((x =? 32) || (x =? 9) || (x =? 59) || (x =? 13) || (x =? 10) || (x =? 34) || (x =? 40) || (x =? 41)) eqn:E1; [discriminate|].
    destruct (x =? 92) eqn:E2.
    + exists sp, true. split; [exact H|]. intro rest.
      cbn [lex_go l_quote l_space l_owner l_rrtype l_brace].
      replace ((x =? 32) || (x =? 9)) with false by lia. replace (x =? 59) with false by lia.
      replace (x =? 13) with false by lia. replace (x =? 10) with false by lia.
      rewrite E2. reflexivity.
    + exists false, false. split; [exact H|]. intro rest.
      cbn [lex_go l_quote l_space l_owner l_rrtype l_brace].
      replace ((x =? 32) || (x =? 9)) with false by lia. replace (x =? 59) with false by lia.
      replace (x =? 13) with false by lia. replace (x =? 10) with false by lia.
      rewrite E2. replace (x =? 34) with false by lia.
      replace ((x =? 40) || (x =? 41)) with false by lia. reflexivity.
Qed.

Lemma lex_word w : forall st acc esc sp' rest,
  l_quote st = false -> wscan esc (l_space st) w = Some sp' ->
  lex_go st acc esc (w ++ rest) =
  lex_go (mkL false sp' (l_owner st) (l_rrtype st) (l_brace st)) (rev w ++ acc) false rest.
Proof.
  induction w as [|x w IH]; intros st acc esc sp' rest Hq H.
  - cbn in H. destruct esc; [discriminate|]. injection H as <-.
    destruct st as [q sp ow rt br]. cbn in Hq. subst. reflexivity.
  - destruct (lex_step_word st acc esc x w sp' Hq H) as (sp1 & esc1 & Hw & Hl).
    cbn [app]. rewrite Hl. rewrite (IH _ (x :: acc) esc1 sp'); [|reflexivity|exact Hw].
    cbn [l_owner l_rrtype l_brace rev]. now rewrite <- app_assoc.
Qed.

Lemma wscan_any_sp w : forall esc sp, wscan esc true w = Some false -> wscan esc sp w = Some false.
Proof.
  induction w as [|x w IH]; intros esc sp H.
  - cbn in *. destruct esc; discriminate.
  - cbn [wscan] in *. destruct esc.
    + destruct ((x =? 13) || (x =? 10)); [discriminate|].
      destruct (word_special x || (x =? 92)); [now apply IH|exact H].
    + destruct (word_special x); [discriminate|]. destruct (x =? 92); [now apply IH|exact H].
Qed.

Lemma word_ok_nonempty w : word_ok w = true -> w <> [].
Proof. intros H ->. discriminate. Qed.

Lemma word_ok_scan w sp : word_ok w = true -> wscan false sp w = Some false.
Proof.
  unfold word_ok. intro H. apply wscan_any_sp.
  destruct (wscan false true w) as [[]|]; try discriminate. reflexivity.
Qed.

(* ---- separators in the state per-type parsers start in ---- *)
Notation rd_state sp := (mkL false sp false true 0).

Lemma lex_blank_after acc sp rest : acc <> [] ->
  lex_go (rd_state sp) acc false (32 :: rest) =
  TStr (rev acc) :: (if sp then [] else [TBlank]) ++ lex_go (rd_state true) [] false rest.
Proof.
  intro Ha. cbn [lex_go l_quote l_space l_owner l_rrtype l_brace].
  cbn [N.eqb Pos.eqb orb]. destruct acc; [congruence|]. reflexivity.
Qed.

Lemma lex_blank_bare sp rest :
  lex_go (rd_state sp) [] false (32 :: rest) =
  (if sp then [] else [TBlank]) ++ lex_go (rd_state true) [] false rest.
Proof. reflexivity. Qed.

Lemma lex_newline acc sp rest :
  lex_go (rd_state sp) acc false (10 :: rest) =
  (if is_nil acc then [] else [TStr (rev acc)]) ++ [TNewline].
Proof. reflexivity. Qed.

Lemma lex_open_quote sp rest :
  lex_go (rd_state sp) [] false (34 :: rest) =
  TQuote :: lex_go (mkL true false false true 0) [] false rest.
Proof. reflexivity. Qed.

(* ---- one item followed by something ---- *)
Lemma rev_nil_iff {A} (l : list A) : rev l = [] -> l = [].
Proof. intro H. apply (f_equal (@rev A)) in H. now rewrite rev_involutive in H. Qed.

Lemma lex_item_blank i sp rest : item_ok i = true ->
  lex_go (rd_state sp) [] false (render_item i ++ 32 :: rest) =
  item_toks i ++ TBlank :: lex_go (rd_state true) [] false rest.
Proof.
  intro H. destruct i as [w|q]; cbn [item_ok render_item item_toks] in *.
  - rewrite (lex_word w (rd_state sp) [] false false); [|reflexivity|now apply word_ok_scan].
    cbn [l_owner l_rrtype l_brace]. rewrite app_nil_r.
    rewrite lex_blank_after.
    + now rewrite rev_involutive.
    + intro E. apply rev_nil_iff in E. now apply word_ok_nonempty in H.
  - cbn [app]. rewrite lex_open_quote. rewrite <- app_assoc. cbn [app].
    rewrite lex_quoted; [|reflexivity|exact H].
    cbn [l_owner l_rrtype l_brace]. rewrite app_nil_r, rev_involutive.
    rewrite lex_blank_bare. cbn [app].
    destruct q; cbn [is_nil rev app]; [reflexivity|].
    destruct (rev q ++ [n]) eqn:E; [now apply app_eq_nil in E; destruct E|]. reflexivity.
Qed.

Lemma lex_item_newline i sp : item_ok i = true ->
  lex_go (rd_state sp) [] false (render_item i ++ [10]) = item_toks i ++ [TNewline].
Proof.
  intro H. destruct i as [w|q]; cbn [item_ok render_item item_toks] in *.
  - rewrite (lex_word w (rd_state sp) [] false false); [|reflexivity|now apply word_ok_scan].
    cbn [l_owner l_rrtype l_brace]. rewrite app_nil_r.
    rewrite lex_newline, rev_involutive.
    destruct (rev w) eqn:E; [apply rev_nil_iff in E; now apply word_ok_nonempty in H|]. reflexivity.
  - cbn [app]. rewrite lex_open_quote. rewrite <- app_assoc. cbn [app].
    rewrite lex_quoted; [|reflexivity|exact H].
    cbn [l_owner l_rrtype l_brace]. rewrite app_nil_r, rev_involutive.
    rewrite lex_newline. cbn [is_nil app].
    destruct q; cbn [is_nil rev app]; [reflexivity|].
    destruct (rev q ++ [n]) eqn:E; [now apply app_eq_nil in E; destruct E|]. reflexivity.
Qed.

(* ---- the printed RDATA of a record: items separated by single blanks ---- *)
Theorem lex_items l : forall sp, forallb item_ok l = true ->
  lex_go (rd_state sp) [] false (render_items l ++ [10]) = items_toks l ++ [TNewline].
Proof.
  induction l as [|i r IH]; intros sp H; [reflexivity|].
  cbn [forallb] in H. apply andb_prop in H. destruct H as [Hi Hr].
  cbn [render_items items_toks]. destruct r as [|i2 r2].
  - now apply lex_item_newline.
  - rewrite <- app_assoc. cbn [app]. rewrite lex_item_blank by exact Hi.
    rewrite IH by exact Hr. now rewrite <- app_assoc.
Qed.

Theorem lexer_on_printed l : forallb item_ok l = true ->
  lex_rdata (render_items l ++ [10]) = items_toks l ++ [TNewline].
Proof. apply (lex_items l true). Qed.

(* ---- the escaped form of any octet string is a good quoted body ---- *)
Ltac kill_eqb :=
  repeat match goal with
         | |- context [?a =? ?b] =>
           first [ replace (a =? b) with false by lia | replace (a =? b) with true by lia ]
         end.

Lemma qbody_write b r : b < 256 -> qbody_ok false (write_txt_byte b ++ r) = qbody_ok false r.
Proof.
  intro Hb. unfold write_txt_byte.
  destruct ((b =? 34) || (b =? 92)) eqn:Hq.
  - cbn [app qbody_ok]. rewrite N.eqb_refl. reflexivity.
  - destruct ((b <? 32) || (126 <? b)) eqn:Hn.
    + unfold ddd. cbn [app qbody_ok]. rewrite N.eqb_refl.
      assert (b / 100 < 3 /\ (b / 10) mod 10 < 10 /\ b mod 10 < 10) as (A1 & A2 & A3) by lia.
      kill_eqb. reflexivity.
    + cbn [app qbody_ok]. kill_eqb. reflexivity.
Qed.

Lemma qbody_esc_wire w : wfb w -> qbody_ok false (esc_wire w) = true.
Proof.
  unfold esc_wire. induction 1 as [|b w Hb _ IH]; [reflexivity|].
  cbn [flat_map]. now rewrite qbody_write.
Qed.

(* non-vacuity: a line with every construct *)
Example lexer_example :
  let l := [IWord (bytes_of_string "10"); IWord (bytes_of_string "a\ b\;c.example."); IQuoted (bytes_of_string "x y;(z)\""\\\010");
            IQuoted []; IWord (bytes_of_string "AQID+/8=")] in
  forallb item_ok l = true /\ lex_rdata (render_items l ++ [10]) = items_toks l ++ [TNewline].
Proof. cbv zeta. split; vm_compute; reflexivity. Qed.
