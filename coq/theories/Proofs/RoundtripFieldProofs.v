(* Proofs/RoundtripFieldProofs.v — value -> wire -> value for the field codecs of
   Model/Rdata.v, one field kind at a time, without compression (pn_cm = None):
   a canonical value that pack_field accepts is written as some octets b after
   the octets already there, and unpack_field of the agreeing kind, run at that
   offset on any message that holds b there, returns the value and the offset
   just after b. *)
From Dns Require Import Base.ListX Model.Rdata Spec.NameSpec
  Proofs.EscapeProofs Proofs.TokenProofs Proofs.LabelsProofs Proofs.NameWireProofs
  Proofs.NameRoundtripProofs Proofs.LayoutProofs Proofs.DecodeFieldsProofs.
From Coq Require Import Lia ZifyN ZifyNat ZifyBool.
Open Scope list_scope.
Open Scope N_scope.

Ltac Zify.zify_post_hook ::= Z.div_mod_to_equations.

(* ------------------------------------------------------------------ *)
(* lists and offsets *)
Lemma lenN_nat {A} (l : list A) : N.to_nat (lenN l) = length l.
Proof. unfold lenN. lia. Qed.
Lemma takeN_all {A} (a : list A) : takeN (lenN a) a = a.
Proof. unfold takeN. rewrite lenN_nat. apply firstn_all. Qed.
Lemma dropN_all {A} (a : list A) : dropN (lenN a) a = [].
Proof. unfold dropN. rewrite lenN_nat. apply skipn_all. Qed.
Lemma lenN_0 {A} (l : list A) : lenN l = 0 -> l = [].
Proof. destruct l; [reflexivity|]. rewrite lenN_cons. lia. Qed.

Lemma take_at_exact (pre b post : bytes) off :
  off = lenN pre -> take_at (pre ++ b ++ post) off (lenN b) = b.
Proof. intros ->. unfold take_at. rewrite dropN_app_exact. apply takeN_app_exact. Qed.
Lemma take_at_exact' (pre b post : bytes) off n :
  off = lenN pre -> n = lenN b -> take_at (pre ++ b ++ post) off n = b.
Proof. intros -> ->. apply take_at_exact. reflexivity. Qed.
Lemma nthN_exact (pre : bytes) x r off : off = lenN pre -> nthN (pre ++ x :: r) off 0 = x.
Proof. intros ->. apply nthN_app_exact. Qed.

Ltac bfalse X := let H := fresh in assert (H : X = false) by lia; rewrite H; clear H.
Ltac btrue X := let H := fresh in assert (H : X = true) by lia; rewrite H; clear H.

Lemma bind_ok {A B} (r : res A) (f : A -> res B) b :
  bind r f = Ok b -> exists a, r = Ok a /\ f a = Ok b.
Proof. destruct r; cbn; intros H; try discriminate. eauto. Qed.
Ltac inv_bind H :=
  let a := fresh "a" in let Ha := fresh "Ha" in
  apply bind_ok in H; destruct H as (a & Ha & H).

(* the packing state without a compression map *)
Definition st0 (out : bytes) : pn_state := {| pn_out := out; pn_cm := None |}.

Lemma pemit_st0 out b : pemit (st0 out) b = st0 (out ++ b).
Proof. reflexivity. Qed.
Lemma poff_st0 out : poff (st0 out) = lenN out.
Proof. reflexivity. Qed.

Lemma pack_fixed_ok b cap out st' :
  pack_fixed b cap (st0 out) = Ok st' -> st' = st0 (out ++ b).
Proof.
  unfold pack_fixed. destruct (cap <? _); [discriminate|]. intro H. injection H as <-. reflexivity.
Qed.

Lemma unpack_fixed_exact (pre b post : bytes) n :
  n = lenN b ->
  unpack_fixed n (pre ++ b ++ post) (lenN pre) = Ok (b, lenN pre + lenN b).
Proof.
  intros ->. unfold unpack_fixed. rewrite !lenN_app.
  bfalse (lenN pre + (lenN b + lenN post) <? lenN pre + lenN b).
  rewrite take_at_exact by reflexivity. reflexivity.
Qed.

(* ------------------------------------------------------------------ *)
(* integers *)
Lemma be_u8 n : n < 256 -> be (u8 n) 0 = n.
Proof. intro H. unfold u8. cbn [be]. lia. Qed.
Lemma be_u16 n : n < 65536 -> be (u16 n) 0 = n.
Proof. intro H. unfold u16. cbn [be]. lia. Qed.
Lemma be_u32 n : n < 4294967296 -> be (u32 n) 0 = n.
Proof. intro H. unfold u32. cbn [be]. lia. Qed.
Lemma be_app a b acc : be (a ++ b) acc = be b (be a acc).
Proof. revert acc. induction a as [|x a IH]; intros acc; cbn; [reflexivity|apply IH]. Qed.
Lemma be_u32_acc v acc : v < 4294967296 -> be (u32 v) acc = acc * 4294967296 + v.
Proof. intro H. unfold u32. cbn [be]. lia. Qed.
Lemma be_u48 n : n < 281474976710656 -> be (u48 n) 0 = n.
Proof.
  intro H. unfold u48. rewrite be_app, be_u16 by lia. rewrite be_u32_acc by lia. lia.
Qed.
Lemma be_u64 n : n < 18446744073709551616 -> be (u64 n) 0 = n.
Proof.
  intro H. unfold u64. rewrite be_app, be_u32 by lia. rewrite be_u32_acc by lia. lia.
Qed.

(* ------------------------------------------------------------------ *)
(* the escape reader of packTxtString / packOctetString, token by token *)
Lemma ptx_go_ddd a b c r3 acc off0 cap : ddd3 a b c = true ->
  ptx_go (92 :: a :: b :: c :: r3) acc off0 cap =
  if cap <=? off0 + lenN acc then Err "buf"
  else ptx_go r3 (acc ++ [ddd_to_byte (a :: b :: c :: r3)]) off0 cap.
Proof. intro H. cbn [ptx_go]. unfold ddd3 in H. rewrite H. reflexivity. Qed.
Lemma ptx_go_esc a r1 acc off0 cap : is_ddd (a :: r1) = false ->
  ptx_go (92 :: a :: r1) acc off0 cap =
  if cap <=? off0 + lenN acc then Err "buf" else ptx_go r1 (acc ++ [a]) off0 cap.
Proof.
  intro H. destruct r1 as [|b [|c r3]]; try reflexivity.
  cbn [ptx_go]. unfold is_ddd in H. rewrite H. reflexivity.
Qed.
Lemma ptx_go_plain x r acc off0 cap : x <> 92 ->
  ptx_go (x :: r) acc off0 cap =
  if cap <=? off0 + lenN acc then Err "buf" else ptx_go r (acc ++ [x]) off0 cap.
Proof.
  intro H. cbn [ptx_go]. destruct (N.eqb_spec x 92); [congruence|]. reflexivity.
Qed.

Lemma is_ddd_nondigit a r : is_digit a = false -> is_ddd (a :: r) = false.
Proof. intro H. destruct r as [|b [|c r]]; cbn; rewrite ?H; reflexivity. Qed.

Lemma ptx_go_show_txt_octet b rest acc off0 cap : b < 256 ->
  ptx_go (show_txt_octet b ++ rest) acc off0 cap =
  if cap <=? off0 + lenN acc then Err "buf" else ptx_go rest (acc ++ [b]) off0 cap.
Proof.
  intro Hb. unfold show_txt_octet.
  destruct ((b =? 34) || (b =? 92)) eqn:Hq.
  - cbn [app]. apply ptx_go_esc. apply is_ddd_nondigit. unfold is_digit. lia.
  - destruct ((b <? 32) || (126 <? b)) eqn:Hnp.
    + unfold ddd. cbn [app].
      rewrite ptx_go_ddd by (unfold ddd3, is_digit; lia).
      destruct (cap <=? off0 + lenN acc); [reflexivity|].
      f_equal. f_equal. f_equal. unfold ddd_to_byte. lia.
    + cbn [app]. apply ptx_go_plain. lia.
Qed.

Lemma show_txt_cons b l : show_txt (b :: l) = show_txt_octet b ++ show_txt l.
Proof. reflexivity. Qed.

Lemma ptx_go_show_txt data : forall acc off0 cap r, wfb data ->
  ptx_go (show_txt data) acc off0 cap = Ok r -> r = acc ++ data.
Proof.
  induction data as [|b data IH]; intros acc off0 cap r Hw H.
  - cbn in H. injection H as <-. now rewrite app_nil_r.
  - inversion Hw as [|? ? Hb Hw']; subst. rewrite show_txt_cons, ptx_go_show_txt_octet in H by exact Hb.
    destruct (cap <=? off0 + lenN acc); [discriminate|].
    apply IH in H; [|exact Hw']. rewrite H, <- app_assoc. reflexivity.
Qed.

(* packStringOctet: only the backslash is escaped by unpackStringOctet *)
Definition esc_bs_octet (b : N) : bytes := if b =? 92 then [92; 92] else [b].
Definition esc_bs (l : bytes) : bytes := flat_map esc_bs_octet l.
Lemma ptx_go_esc_bs data : forall acc off0 cap r,
  ptx_go (esc_bs data) acc off0 cap = Ok r -> r = acc ++ data.
Proof.
  induction data as [|b data IH]; intros acc off0 cap r H.
  - cbn in H. injection H as <-. now rewrite app_nil_r.
  - unfold esc_bs in H. cbn [flat_map] in H. fold (esc_bs data) in H. unfold esc_bs_octet in H.
    destruct (N.eqb_spec b 92) as [->|Hb].
    + cbn [app] in H. rewrite ptx_go_esc in H by (apply is_ddd_nondigit; reflexivity).
      destruct (cap <=? off0 + lenN acc); [discriminate|].
      apply IH in H. rewrite H, <- app_assoc. reflexivity.
    + cbn [app] in H. rewrite ptx_go_plain in H by exact Hb.
      destruct (cap <=? off0 + lenN acc); [discriminate|].
      apply IH in H. rewrite H, <- app_assoc. reflexivity.
Qed.

(* one character-string *)
Definition enc_str (data : bytes) : bytes := lenN data :: data.

Lemma pack_txt_string_show data cap out st' : wfb data ->
  pack_txt_string (show_txt data) cap (st0 out) = Ok st' -> st' = st0 (out ++ enc_str data).
Proof.
  intros Hw H. unfold pack_txt_string in H. rewrite poff_st0 in H.
  destruct (_ || _); [discriminate|]. inv_bind H.
  apply ptx_go_show_txt in Ha; [|exact Hw]. cbn [app] in Ha. subst a.
  destruct (255 <? lenN data); [discriminate|]. injection H as <-. reflexivity.
Qed.

Lemma unpack_string_exact (pre data post : bytes) :
  unpack_string (pre ++ enc_str data ++ post) (lenN pre) = Ok (show_txt data, lenN pre + lenN (enc_str data)).
Proof.
  unfold unpack_string, enc_str. cbn [app]. rewrite lenN_app, !lenN_cons, lenN_app.
  bfalse (lenN pre + (1 + (lenN data + lenN post)) <? lenN pre + 1).
  rewrite nthN_exact by reflexivity.
  bfalse (lenN pre + (1 + (lenN data + lenN post)) <? lenN pre + 1 + lenN data).
  replace (pre ++ lenN data :: data ++ post) with ((pre ++ [lenN data]) ++ data ++ post)
    by (rewrite <- app_assoc; reflexivity).
  rewrite take_at_exact by (rewrite lenN_app, lenN_cons, lenN_nil; lia).
  f_equal. f_equal. lia.
Qed.

(* ------------------------------------------------------------------ *)
(* the repeat-until-exhausted decoders on a concatenation of item encodings *)
Lemma items_length {A} (items : list (A * bytes)) :
  (forall x b, In (x, b) items -> b <> []) ->
  (length items <= length (concat (map snd items)))%nat.
Proof.
  induction items as [|[x b] items IH]; intro H; cbn; [lia|].
  rewrite app_length. assert (b <> []) by (eapply H; left; reflexivity).
  assert (length items <= length (concat (map snd items)))%nat by (apply IH; intros; eapply H; right; eauto).
  destruct b; [congruence|]. cbn. lia.
Qed.

Lemma loop_items {A} (step : bytes -> N -> res (A * N)) (items : list (A * bytes)) :
  forall fuel pre acc,
  (forall x b, In (x, b) items -> b <> [] /\
     forall pre post, step (pre ++ b ++ post) (lenN pre) = Ok (x, lenN pre + lenN b)) ->
  (length items < fuel)%nat ->
  loop step (pre ++ concat (map snd items)) fuel (lenN pre) acc =
    Ok (acc ++ map fst items, lenN pre + lenN (concat (map snd items))).
Proof.
  induction items as [|[x b] items IH]; intros fuel pre acc Hst Hf.
  - destruct fuel as [|f]; [cbn in Hf; lia|]. cbn [map concat loop]. rewrite !app_nil_r.
    bfalse (lenN pre <? lenN pre). f_equal. f_equal. rewrite lenN_nil. lia.
  - destruct fuel as [|f]; [cbn in Hf; lia|]. cbn [map concat loop fst snd].
    destruct (Hst x b (or_introl eq_refl)) as [Hne Hstep].
    assert (Hpos : 1 <= lenN b). { destruct b; [congruence|]. rewrite lenN_cons. lia. }
    rewrite !lenN_app.
    btrue (lenN pre <? lenN pre + (lenN b + lenN (concat (map snd items)))).
    rewrite Hstep. cbn [bind fst snd].
    replace (pre ++ b ++ concat (map snd items)) with ((pre ++ b) ++ concat (map snd items))
      by (rewrite <- app_assoc; reflexivity).
    replace (lenN pre + lenN b) with (lenN (pre ++ b)) by apply lenN_app.
    rewrite IH; [|intros; apply Hst; right; assumption|cbn in Hf; lia].
    rewrite <- app_assoc. cbn [app]. f_equal. f_equal. rewrite lenN_app. lia.
Qed.

Lemma fuel_items {A} (items : list (A * bytes)) (pre : bytes) :
  (forall x b, In (x, b) items -> b <> []) ->
  (length items < S (length (pre ++ concat (map snd items))))%nat.
Proof. intro H. apply items_length in H. rewrite app_length. lia. Qed.

(* ------------------------------------------------------------------ *)
(* names: a larger buffer does not change what packDomainName writes *)
Lemma pn_go_cap_mono s : forall first lab lstart wd nl cap cap' cp out e,
  cap <= cap' ->
  pn_go s first lab lstart wd nl cap cp (st0 out) = Ok e ->
  pn_go s first lab lstart wd nl cap' cp (st0 out) = Ok e.
Proof.
  induction s as [| a b c r3 Hd IH | a r1 Hd IH | | r IH | x r H1 H2 IH] using tok_ind;
    intros first lab lstart wd nl cap cap' cp out e Hle H.
  - exact H.
  - rewrite pn_go_ddd in * by exact Hd. cbn [st0 pn_out] in *.
    destruct (cap <? lenN out + 1) eqn:E; [discriminate|]. bfalse (cap' <? lenN out + 1).
    eapply IH; eauto.
  - rewrite pn_go_esc in * by exact Hd. cbn [st0 pn_out] in *.
    destruct (cap <? lenN out + 1) eqn:E; [discriminate|]. bfalse (cap' <? lenN out + 1).
    eapply IH; eauto.
  - cbn in H. destruct (cap <? _); discriminate.
  - cbn [pn_go st0 pn_out pn_cm] in *.
    destruct (first && negb match r with [] => true | _ :: _ => false end); [discriminate|].
    destruct wd; [discriminate|].
    destruct (64 <=? lenN lab); [discriminate|].
    destruct (cap <? lenN out + 1 + lenN lab) eqn:E; [discriminate|].
    bfalse (cap' <? lenN out + 1 + lenN lab).
    destruct (max_name_wire <? nl + 1 + lenN lab + 1); [discriminate|].
    change {| pn_out := out ++ lenN lab :: lab; pn_cm := None |} with (st0 (out ++ lenN lab :: lab)) in *.
    eapply IH; eauto.
  - rewrite pn_go_plain in * by assumption. eapply IH; eauto.
Qed.

Lemma pack_name_cap_mono s cap cap' c out st' :
  cap <= cap' -> pack_name s cap c (st0 out) = Ok st' -> pack_name s cap' c (st0 out) = Ok st'.
Proof.
  intros Hle H. unfold pack_name in *. destruct s as [|x r]; [exact H|].
  destruct (negb (is_fqdn (x :: r))); [discriminate|].
  inv_bind H. rewrite (pn_go_cap_mono _ _ _ _ _ _ _ _ _ _ _ Hle Ha). cbn [bind].
  destruct a as [s1|s1 p]; destruct (bytes_eqb (x :: r) [46]); try exact H.
  - destruct (lenN (pn_out s1) <? cap) eqn:E; [|discriminate]. btrue (lenN (pn_out s1) <? cap'). exact H.
  - destruct (cap <? lenN (pn_out s1) + 2) eqn:E; [discriminate|]. bfalse (cap' <? lenN (pn_out s1) + 2). exact H.
Qed.

(* packDomainName at any offset, no compression map, in a buffer with room *)
Lemma pack_name_at s ls cap c out :
  is_fqdn s = true -> parse_name s = Some ls -> name_len_ok ls = true -> lenN out + 320 <= cap ->
  pack_name s cap c (st0 out) = Ok (st0 (out ++ wire_name ls)).
Proof.
  intros Hf Hp V Hcap. unfold pack_name. destruct s as [|x r] eqn:Hs; [discriminate|].
  rewrite <- Hs in *. rewrite Hf. cbn [negb].
  destruct (list_eq_dec N.eq_dec s [46]) as [E|E].
  { rewrite E in *. cbn in Hp. injection Hp as <-. cbn [pn_go st0 pn_out pn_cm andb negb lenN length N.of_nat].
    cbn. bfalse (cap <? lenN out + 1 + 0). cbn. reflexivity. }
  rewrite parse_name_nonroot in Hp by congruence.
  rewrite pn_go_first by exact E.
  assert (Hlid : lid s true = true). { apply lid_first_equiv; [exact E|]. now apply is_fqdn_lid. }
  destruct (pn_go_none s [] s true 0 cap c out (lenN out) Hlid wd_nil) as [ls' [Hp' [Hv Hi]]]; try lia.
  rewrite Hp in Hp'. injection Hp' as <-.
  assert (Hb : bytes_eqb s [46] = false).
  { destruct (bytes_eqb s [46]) eqn:B; [|reflexivity]. apply bytes_eqb_eq in B. congruence. }
  assert (V' : valid_from 0 ls).
  { unfold name_len_ok in V. apply andb_prop in V. unfold valid_from. split; [tauto|lia]. }
  unfold st0. rewrite (Hv V'). cbn [bind pn_out pn_cm]. rewrite Hb.
  destruct V' as [_ V']. rewrite lenN_app.
  btrue (lenN out + lenN (wire_labels ls) <? cap). unfold wire_name. rewrite app_assoc. reflexivity.
Qed.

Lemma pack_name_show ls cap c out st' : valid_wire ls = true ->
  pack_name (show_name ls) cap c (st0 out) = Ok st' -> st' = st0 (out ++ wire_name ls).
Proof.
  intros Hv H.
  apply (pack_name_cap_mono _ cap (cap + lenN out + 320)) in H; [|lia].
  rewrite (pack_name_at (show_name ls) ls) in H.
  - injection H as <-. reflexivity.
  - apply is_fqdn_show_name, Hv.
  - apply parse_show_name, Hv.
  - apply valid_wire_len_ok, Hv.
  - lia.
Qed.

Lemma unpack_name_exact pre ls post : valid_wire ls = true ->
  unpack_name (pre ++ wire_name ls ++ post) (lenN pre) = Ok (show_name ls, lenN pre + lenN (wire_name ls)).
Proof.
  intro Hv. pose proof (valid_wire_labels_ok ls Hv) as Hok.
  unfold unpack_name, wire_name. rewrite <- app_assoc. cbn [app].
  pose proof (un_go_labels ls unpack_name_fuel pre post [] 0 (Z.of_N max_name_wire) Hok) as H.
  unfold valid_wire, wire_len, wire_name in Hv. apply andb_prop in Hv. destruct Hv as [_ Hlen].
  rewrite lenN_app in Hlen. cbn in Hlen.
  rewrite H.
  - unfold show_name. rewrite lenN_app. cbn [app].
    destruct ls as [|l ls]; [cbn; f_equal; f_equal; lia|].
    pose proof (show_labels_nonempty l ls). destruct (show_labels (l :: ls)); [congruence|].
    f_equal. f_equal. cbn. lia.
  - pose proof (wire_labels_length_ge ls Hok). unfold unpack_name_fuel. lia.
  - unfold max_name_wire. lia.
Qed.

(* ------------------------------------------------------------------ *)
(* []string *)
Lemma pack_txts_show ds : forall cap out st', Forall (fun d => wfb d /\ lenN d <= 255) ds ->
  pack_txts (map show_txt ds) cap (st0 out) = Ok st' ->
  st' = st0 (out ++ concat (map enc_str ds)).
Proof.
  induction ds as [|d ds IH]; intros cap out st' Hw H.
  - cbn in H. injection H as <-. cbn. now rewrite app_nil_r.
  - inversion Hw as [|? ? [Hd _] Hw']; subst. cbn [map pack_txts] in H. inv_bind H.
    apply pack_txt_string_show in Ha; [|exact Hd]. subst a.
    apply IH in H; [|exact Hw']. rewrite H. cbn [map concat]. now rewrite app_assoc.
Qed.

Lemma map_fst_pair {A B C} (f : A -> B) (g : A -> C) l : map fst (map (fun d => (f d, g d)) l) = map f l.
Proof. rewrite map_map. apply map_ext. reflexivity. Qed.
Lemma map_snd_pair {A B C} (f : A -> B) (g : A -> C) l : map snd (map (fun d => (f d, g d)) l) = map g l.
Proof. rewrite map_map. apply map_ext. reflexivity. Qed.

Lemma unpack_txt_exact pre ds :
  unpack_txt (pre ++ concat (map enc_str ds)) (lenN pre) =
  Ok (map show_txt ds, lenN pre + lenN (concat (map enc_str ds))).
Proof.
  unfold unpack_txt. rewrite unpack_txts_is_loop.
  pose (items := map (fun d => (show_txt d, enc_str d)) ds).
  assert (Hi : forall x b, In (x, b) items -> b <> [] /\
     forall pre post, unpack_string (pre ++ b ++ post) (lenN pre) = Ok (x, lenN pre + lenN b)).
  { intros x b Hin. unfold items in Hin. apply in_map_iff in Hin. destruct Hin as [d [E _]].
    injection E as <- <-. split; [discriminate|]. intros. apply unpack_string_exact. }
  replace (map enc_str ds) with (map snd items) by apply map_snd_pair.
  rewrite loop_items.
  - cbn [app]. unfold items. now rewrite map_fst_pair.
  - exact Hi.
  - apply fuel_items. intros x b Hin. apply (Hi x b Hin).
Qed.

Lemma concat_enc_str_nonempty ds : ds <> [] -> concat (map enc_str ds) <> [].
Proof. destruct ds; [congruence|]. discriminate. Qed.

(* ------------------------------------------------------------------ *)
(* msg[off:end] fields *)
Lemma unpack_to_end_exact (pre b post : bytes) e :
  e = lenN pre + lenN b ->
  unpack_to_end (pre ++ b ++ post) (lenN pre) e = Ok (b, lenN pre + lenN b).
Proof.
  intros ->. unfold unpack_to_end. rewrite !lenN_app.
  bfalse (lenN pre + (lenN b + lenN post) <? lenN pre + lenN b).
  bfalse (lenN pre + lenN b <? lenN pre).
  rewrite take_at_exact' with (b := b); [reflexivity|reflexivity|lia].
Qed.

(* ------------------------------------------------------------------ *)
(* lists of names *)
Lemma pack_names_show lss : forall cap c out st', Forall (fun ls => valid_wire ls = true) lss ->
  pack_names (map show_name lss) cap c (st0 out) = Ok st' ->
  st' = st0 (out ++ concat (map wire_name lss)).
Proof.
  induction lss as [|ls lss IH]; intros cap c out st' Hv H.
  - cbn in H. injection H as <-. cbn. now rewrite app_nil_r.
  - pose proof (Forall_inv Hv) as Hls. apply Forall_inv_tail in Hv.
    cbn [map pack_names] in H. inv_bind H.
    apply pack_name_show in Ha; [|exact Hls]. subst a.
    apply IH in H; [|exact Hv]. rewrite H. cbn [map concat]. now rewrite app_assoc.
Qed.

Lemma wire_name_nonempty ls : wire_name ls <> [].
Proof. unfold wire_name. intro E. apply app_eq_nil in E. destruct E; discriminate. Qed.

Lemma unpack_names_exact pre lss : Forall (fun ls => valid_wire ls = true) lss ->
  unpack_names (pre ++ concat (map wire_name lss)) (lenN pre) =
  Ok (map show_name lss, lenN pre + lenN (concat (map wire_name lss))).
Proof.
  intro Hv. unfold unpack_names. rewrite unpack_names_is_loop.
  pose (items := map (fun ls => (show_name ls, wire_name ls)) lss).
  assert (Hi : forall x b, In (x, b) items -> b <> [] /\
     forall pre post, unpack_name (pre ++ b ++ post) (lenN pre) = Ok (x, lenN pre + lenN b)).
  { intros x b Hin. unfold items in Hin. apply in_map_iff in Hin. destruct Hin as [ls [E Hin]].
    injection E as <- <-. split; [apply wire_name_nonempty|]. intros. apply unpack_name_exact.
    rewrite Forall_forall in Hv. now apply Hv. }
  replace (map wire_name lss) with (map snd items) by apply map_snd_pair.
  rewrite loop_items.
  - cbn [app]. unfold items. now rewrite map_fst_pair.
  - exact Hi.
  - apply fuel_items. intros x b Hin. apply (Hi x b Hin).
Qed.

(* ------------------------------------------------------------------ *)
(* the type bitmap *)
(* what packDataNsec writes, without its error checks *)
Fixpoint nsec_spec (l : list N) (lw : N) (cur : bytes) : bytes :=
  match l with
  | [] => lw :: lenN cur :: cur
  | t :: r =>
    let w := t / 256 in
    let len := (t - w * 256) / 8 + 1 in
    if (lw <? w) && negb (lenN cur =? 0)
    then (lw :: lenN cur :: cur) ++ nsec_spec r w (or_last (pad_to [] (N.to_nat len)) (t mod 8))
    else nsec_spec r w (or_last (pad_to cur (N.to_nat len)) (t mod 8))
  end.

Lemma nsec_go_spec l : forall lw cur cap out st',
  nsec_go l lw cur cap (st0 out) = Ok st' -> st' = st0 (out ++ nsec_spec l lw cur).
Proof.
  induction l as [|t r IH]; intros lw cur cap out st' H.
  - cbn in H. injection H as <-. reflexivity.
  - cbn [nsec_go nsec_spec] in *.
    destruct ((lw <? t / 256) && negb (lenN cur =? 0)).
    + rewrite pemit_st0 in H.
      destruct (_ || _); [discriminate|]. destruct (cap <? _); [discriminate|].
      apply IH in H. rewrite H, <- app_assoc. reflexivity.
    + destruct (_ || _); [discriminate|]. destruct (cap <? _); [discriminate|].
      apply IH in H. exact H.
Qed.

Definition setbits (b : N) : list N := filter (fun k => N.testbit b (7 - k)) [0;1;2;3;4;5;6;7].

Lemma flat_map_filter {A B} (p : A -> bool) (f : A -> B) l :
  flat_map (fun k => if p k then [f k] else []) l = map f (filter p l).
Proof. induction l as [|x l IH]; cbn; [reflexivity|]. destruct (p x); cbn; now rewrite IH. Qed.

Lemma bits_of_map w j b : bits_of w j b = map (fun k => w * 256 + j * 8 + k) (setbits b).
Proof. unfold bits_of, setbits. apply flat_map_filter. Qed.

Definition set_bit_chk (c k : N) : bool :=
  implb (forallb (fun k' => k' <? k) (setbits c))
        (bytes_eqb (setbits (set_bit c k)) (setbits c ++ [k]) && (set_bit c k <? 256)).
Lemma set_bit_sweep : forallb (fun c => forallb (set_bit_chk c) [0;1;2;3;4;5;6;7]) all_octets = true.
Proof. vm_compute. reflexivity. Qed.

Lemma setbits_set_bit c k : c < 256 -> k < 8 ->
  forallb (fun k' => k' <? k) (setbits c) = true ->
  setbits (set_bit c k) = setbits c ++ [k] /\ set_bit c k < 256.
Proof.
  intros Hc Hk Hb. pose proof set_bit_sweep as H. rewrite forallb_forall in H.
  specialize (H c (in_all_octets c Hc)). rewrite forallb_forall in H.
  assert (Hin : In k [0;1;2;3;4;5;6;7]).
  { cbn. assert (k = 0 \/ k = 1 \/ k = 2 \/ k = 3 \/ k = 4 \/ k = 5 \/ k = 6 \/ k = 7) by lia. intuition. }
  specialize (H k Hin). unfold set_bit_chk in H. rewrite Hb in H. cbn [implb] in H.
  apply andb_prop in H. destruct H as [H1 H2]. apply bytes_eqb_eq in H1. split; [exact H1|lia].
Qed.

Lemma block_types_app w a : forall j b,
  block_types w j (a ++ b) = block_types w j a ++ block_types w (j + lenN a) b.
Proof.
  induction a as [|x a IH]; intros j b; cbn [app block_types].
  - rewrite lenN_nil. f_equal. lia.
  - rewrite IH, lenN_cons, <- app_assoc. do 3 f_equal. lia.
Qed.

Lemma block_types_zeros w n : forall j, block_types w j (repeat 0 n) = [].
Proof. induction n as [|n IH]; intro j; cbn [repeat block_types]; [reflexivity|]. rewrite IH. reflexivity. Qed.

Lemma pad_to_spec cur : forall n, (length cur <= n)%nat -> pad_to cur n = cur ++ repeat 0 (n - length cur).
Proof.
  induction cur as [|x cur IH]; intros n H.
  - cbn [length app]. rewrite Nat.sub_0_r. clear H. induction n as [|n IHn]; cbn; [reflexivity|now rewrite IHn].
  - destruct n as [|n]; [cbn in H; lia|]. cbn [pad_to length app]. rewrite IH by (cbn in H; lia). reflexivity.
Qed.

Lemma or_last_snoc l x k : or_last (l ++ [x]) k = l ++ [set_bit x k].
Proof.
  induction l as [|y l IH]; [reflexivity|]. cbn [app].
  destruct (l ++ [x]) as [|n l0] eqn:E; [destruct l; discriminate|].
  change (or_last (y :: n :: l0) k) with (y :: or_last (n :: l0) k). rewrite IH. reflexivity.
Qed.

Lemma wfb_app a b : wfb a -> wfb b -> wfb (a ++ b).
Proof. unfold wfb. intros. apply Forall_app. auto. Qed.
Lemma wfb_repeat0 n : wfb (repeat 0 n).
Proof. unfold wfb. induction n; cbn; constructor; [lia|assumption]. Qed.

(* adding the next, larger type to the block under construction *)
Lemma bitmap_add w cur len k t :
  wfb cur -> (length cur <= len)%nat -> (1 <= len)%nat -> k < 8 ->
  t = w * 256 + (N.of_nat len - 1) * 8 + k ->
  Forall (fun u => u < t) (block_types w 0 cur) ->
  block_types w 0 (or_last (pad_to cur len) k) = block_types w 0 cur ++ [t] /\
  wfb (or_last (pad_to cur len) k) /\ length (or_last (pad_to cur len) k) = len.
Proof.
  intros Hw Hle Hlen Hk Ht Hlt.
  set (P := pad_to cur len).
  assert (HP : P = cur ++ repeat 0 (len - length cur)) by (apply pad_to_spec, Hle).
  assert (HPl : length P = len). { rewrite HP, app_length, repeat_length. lia. }
  assert (HPw : wfb P). { rewrite HP. apply wfb_app; [exact Hw|apply wfb_repeat0]. }
  assert (HPt : block_types w 0 P = block_types w 0 cur).
  { rewrite HP, block_types_app, block_types_zeros, app_nil_r. reflexivity. }
  destruct (exists_last (l := P)) as [init [c E]]. { intro E. rewrite E in HPl. cbn in HPl. lia. }
  rewrite E in *. rewrite or_last_snoc.
  assert (Hil : lenN init = N.of_nat len - 1). { rewrite app_length in HPl. cbn in HPl. unfold lenN. lia. }
  unfold wfb in HPw. apply Forall_app in HPw. destruct HPw as [Hwi Hwc]. apply Forall_inv in Hwc.
  rewrite block_types_app in HPt. cbn [block_types] in HPt. rewrite app_nil_r, N.add_0_l, Hil in HPt.
  assert (Hbits : forallb (fun k' => k' <? k) (setbits c) = true).
  { rewrite <- HPt in Hlt. apply Forall_app in Hlt. destruct Hlt as [_ Hlt]. rewrite bits_of_map in Hlt.
    rewrite forallb_forall. intros k' Hin. rewrite Forall_forall in Hlt.
    specialize (Hlt _ (in_map _ _ _ Hin)). cbn beta in Hlt. lia. }
  destruct (setbits_set_bit c k Hwc Hk Hbits) as [Hsb Hsw].
  split; [|split].
  - rewrite block_types_app. cbn [block_types]. rewrite app_nil_r, N.add_0_l, Hil.
    rewrite <- HPt, <- app_assoc. f_equal. rewrite !bits_of_map, Hsb, map_app. cbn [map]. now rewrite Ht.
  - apply wfb_app; [exact Hwi|]. constructor; [exact Hsw|constructor].
  - rewrite app_length in *. cbn [length] in *. lia.
Qed.

Fixpoint sorted_from (lo : N) (l : list N) : Prop :=
  match l with [] => True | t :: r => lo <= t /\ sorted_from (t + 1) r end.

Lemma unpack_nsec_block fuel pre w cur post lastZ acc :
  (Z.of_N w > lastZ)%Z -> 1 <= lenN cur <= 32 ->
  unpack_nsec_go (S fuel) (pre ++ (w :: lenN cur :: cur) ++ post) (lenN pre) lastZ acc =
  unpack_nsec_go fuel (pre ++ (w :: lenN cur :: cur) ++ post) (lenN pre + 2 + lenN cur) (Z.of_N w)
                 (acc ++ block_types w 0 cur).
Proof.
  intros Hw Hl. cbn [unpack_nsec_go].
  set (msg := pre ++ (w :: lenN cur :: cur) ++ post).
  assert (Hlen : lenN msg = lenN pre + (2 + lenN cur) + lenN post).
  { unfold msg. rewrite !lenN_app, !lenN_cons. lia. }
  rewrite Hlen.
  btrue (lenN pre <? lenN pre + (2 + lenN cur) + lenN post).
  bfalse (lenN pre + (2 + lenN cur) + lenN post <? lenN pre + 2).
  assert (E1 : nthN msg (lenN pre) 0 = w). { unfold msg. cbn [app]. apply nthN_exact. reflexivity. }
  assert (E2 : nthN msg (lenN pre + 1) 0 = lenN cur).
  { unfold msg. cbn [app]. replace (pre ++ w :: lenN cur :: cur ++ post) with ((pre ++ [w]) ++ lenN cur :: cur ++ post)
      by (rewrite <- app_assoc; reflexivity).
    apply nthN_exact. rewrite lenN_app, lenN_cons, lenN_nil. lia. }
  rewrite E1, E2.
  bfalse (Z.of_N w <=? lastZ)%Z. bfalse (lenN cur =? 0). bfalse (32 <? lenN cur).
  bfalse (lenN pre + (2 + lenN cur) + lenN post <? lenN pre + 2 + lenN cur).
  assert (E3 : take_at msg (lenN pre + 2) (lenN cur) = cur).
  { unfold msg. cbn [app]. replace (pre ++ w :: lenN cur :: cur ++ post) with ((pre ++ [w; lenN cur]) ++ cur ++ post)
      by (rewrite <- app_assoc; reflexivity).
    apply take_at_exact. rewrite lenN_app, !lenN_cons, lenN_nil. lia. }
  rewrite E3. reflexivity.
Qed.

Lemma nsec_spec_length l : forall lw cur, (2 <= length (nsec_spec l lw cur))%nat.
Proof.
  induction l as [|t r IH]; intros lw cur; cbn [nsec_spec].
  - cbn. lia.
  - destruct (_ && _); [rewrite app_length; cbn; lia|apply IH].
Qed.

Lemma unpack_nsec_spec l : forall lw cur lo pre acc lastZ fuel,
  sorted_from lo l -> Forall (fun t => t < 65536) l ->
  lw * 256 <= lo -> wfb cur -> lenN cur <= 32 ->
  (cur <> [] -> lw * 256 + (lenN cur - 1) * 8 < lo) ->
  Forall (fun u => u < lo) (block_types lw 0 cur) ->
  (Z.of_N lw > lastZ)%Z -> (l <> [] \/ cur <> []) ->
  (length (nsec_spec l lw cur) < fuel)%nat ->
  unpack_nsec_go fuel (pre ++ nsec_spec l lw cur) (lenN pre) lastZ acc =
  Ok (acc ++ block_types lw 0 cur ++ l, lenN pre + lenN (nsec_spec l lw cur)).
Proof.
  induction l as [|t r IH]; intros lw cur lo pre acc lastZ fuel Hs Hb I1 Hw H32 I3 Hlt I4 I5 Hf.
  - assert (Hc : cur <> []) by (destruct I5; congruence).
    assert (Hc1 : 1 <= lenN cur). { destruct cur; [congruence|]. rewrite lenN_cons. lia. }
    cbn [nsec_spec] in *. destruct fuel as [|fuel]; [lia|].
    pose proof (unpack_nsec_block fuel pre lw cur [] lastZ acc I4 (conj Hc1 H32)) as Hblk.
    rewrite app_nil_r in Hblk. rewrite Hblk.
    destruct fuel as [|fuel]; [cbn in Hf; lia|]. cbn [unpack_nsec_go].
    rewrite lenN_app, !lenN_cons.
    bfalse (lenN pre + 2 + lenN cur <? lenN pre + (1 + (1 + lenN cur))).
    rewrite app_nil_r. f_equal. f_equal. lia.
  - destruct Hs as [Hlo Hs]. pose proof (Forall_inv Hb) as Ht. apply Forall_inv_tail in Hb.
    cbn [nsec_spec] in *.
    set (w := t / 256) in *. set (len := (t - w * 256) / 8 + 1) in *.
    assert (Hw1 : lw <= w) by (unfold w; lia).
    assert (Hlen : 1 <= len <= 32) by (unfold len, w; lia).
    assert (Etk : t = w * 256 + (N.of_nat (N.to_nat len) - 1) * 8 + t mod 8) by (unfold len, w; lia).
    assert (Hk : t mod 8 < 8) by lia.
    destruct ((lw <? w) && negb (lenN cur =? 0)) eqn:Hcase.
    + (* a new window: the finished block is written first *)
      assert (Hc1 : 1 <= lenN cur) by lia.
      destruct (bitmap_add w [] (N.to_nat len) (t mod 8) t) as [B1 [B2 B3]]; try assumption; try constructor; try (cbn; lia).
      set (cur2 := or_last (pad_to [] (N.to_nat len)) (t mod 8)) in *.
      destruct fuel as [|fuel]; [lia|].
      rewrite (unpack_nsec_block fuel pre lw cur _ lastZ acc I4 (conj Hc1 H32)).
      replace (pre ++ (lw :: lenN cur :: cur) ++ nsec_spec r w cur2)
        with ((pre ++ lw :: lenN cur :: cur) ++ nsec_spec r w cur2) by (rewrite <- app_assoc; reflexivity).
      replace (lenN pre + 2 + lenN cur) with (lenN (pre ++ lw :: lenN cur :: cur))
        by (rewrite lenN_app, !lenN_cons; lia).
      rewrite (IH w cur2 (t + 1)); try assumption.
      * rewrite B1. cbn [app]. rewrite <- !app_assoc. cbn [app]. f_equal. f_equal.
        repeat rewrite ?lenN_app, ?lenN_cons. lia.
      * lia.
      * unfold lenN. rewrite B3. lia.
      * intros _. unfold lenN. rewrite B3. lia.
      * rewrite B1. constructor; [lia|constructor].
      * lia.
      * right. intro E. rewrite E in B3. cbn in B3. lia.
      * rewrite app_length in Hf. cbn [length] in Hf. lia.
    + (* same window, or nothing to flush yet *)
      assert (Hor : w = lw \/ cur = []).
      { apply andb_false_iff in Hcase. destruct Hcase as [Hc|Hc]; [left; lia|right; apply lenN_0; lia]. }
      assert (Hcl : (length cur <= N.to_nat len)%nat).
      { destruct cur as [|c0 cur']; [cbn; lia|]. specialize (I3 ltac:(discriminate)).
        destruct Hor as [Hor|Hor]; [|discriminate]. unfold lenN in I3. unfold len. subst lw.
        cbn [length] in *. lia. }
      assert (Hbt : block_types lw 0 cur ++ [t] =
                    block_types w 0 (or_last (pad_to cur (N.to_nat len)) (t mod 8)) /\
                    wfb (or_last (pad_to cur (N.to_nat len)) (t mod 8)) /\
                    length (or_last (pad_to cur (N.to_nat len)) (t mod 8)) = N.to_nat len).
      { destruct (bitmap_add w cur (N.to_nat len) (t mod 8) t) as [B1 [B2 B3]]; try assumption; try lia.
        - destruct Hor as [->| ->]; [|constructor].
          eapply Forall_impl; [|exact Hlt]. cbn beta. intros; lia.
        - split; [|split; assumption]. rewrite B1. destruct Hor as [->| ->]; reflexivity. }
      destruct Hbt as [B1 [B2 B3]].
      set (cur2 := or_last (pad_to cur (N.to_nat len)) (t mod 8)) in *.
      rewrite (IH w cur2 (t + 1)); try assumption.
      * rewrite <- B1, <- !app_assoc. reflexivity.
      * lia.
      * unfold lenN. rewrite B3. lia.
      * intros _. unfold lenN. rewrite B3. lia.
      * rewrite <- B1. apply Forall_app. split; [|constructor; [lia|constructor]].
        eapply Forall_impl; [|exact Hlt]. cbn beta. intros; lia.
      * lia.
      * right. intro E. rewrite E in B3. cbn in B3. lia.
Qed.

Lemma pack_nsec_sorted l cap out st' :
  sorted_from 0 l -> Forall (fun t => t < 65536) l ->
  pack_nsec l cap (st0 out) = Ok st' ->
  exists b, st' = st0 (out ++ b) /\ (b = [] -> l = []) /\
    forall pre, unpack_nsec (pre ++ b) (lenN pre) = Ok (l, lenN pre + lenN b).
Proof.
  intros Hs Hb H. destruct l as [|t r].
  - cbn in H. injection H as <-. exists []. split; [now rewrite app_nil_r|]. split; [reflexivity|].
    intro pre. rewrite app_nil_r. unfold unpack_nsec. cbn [unpack_nsec_go].
    bfalse (lenN pre <? lenN pre). f_equal. f_equal. rewrite lenN_nil. lia.
  - unfold pack_nsec in H. destruct (cap <? _); [discriminate|].
    apply nsec_go_spec in H. subst st'. exists (nsec_spec (t :: r) 0 []).
    split; [reflexivity|]. split.
    { intro E. pose proof (nsec_spec_length (t :: r) 0 []) as Hl. rewrite E in Hl. cbn in Hl. lia. }
    intro pre. unfold unpack_nsec.
    rewrite (unpack_nsec_spec (t :: r) 0 [] 0); try assumption.
    + reflexivity.
    + lia.
    + constructor.
    + cbn. lia.
    + congruence.
    + constructor.
    + lia.
    + left. discriminate.
    + rewrite app_length. lia.
Qed.

(* ------------------------------------------------------------------ *)
(* EDNS0 options and SVCB parameters at the (code, packed value) level *)
Definition enc_pair (p : N * bytes * N) : bytes := u16 (pkey p) ++ u16 (lenN (snd (fst p))) ++ snd (fst p).

Lemma enc_pair_nonempty p : enc_pair p <> [].
Proof. destruct p as [[k b] l]. discriminate. Qed.
Lemma len_enc_pair p : lenN (enc_pair p) = 4 + lenN (snd (fst p)).
Proof.
  destruct p as [[k b] l]. unfold enc_pair, pkey. cbn [fst snd]. rewrite !lenN_app.
  change (lenN (u16 k)) with 2. change (lenN (u16 (lenN b))) with 2. lia.
Qed.

Lemma pack_opts_ok l : forall cap out st',
  pack_opts l cap (st0 out) = Ok st' -> st' = st0 (out ++ concat (map enc_pair l)).
Proof.
  induction l as [|[[k b] n] l IH]; intros cap out st' H.
  - cbn in H. injection H as <-. cbn. now rewrite app_nil_r.
  - cbn [pack_opts] in H. destruct (cap <? _); [discriminate|]. destruct (cap <? _); [discriminate|].
    rewrite pemit_st0 in H. apply IH in H. rewrite H. cbn [map concat]. now rewrite <- app_assoc.
Qed.

Lemma pack_pairs_go_ok l : forall prev cap out st',
  pack_pairs_go l prev cap (st0 out) = Ok st' -> st' = st0 (out ++ concat (map enc_pair l)).
Proof.
  induction l as [|[[k b] n] l IH]; intros prev cap out st' H.
  - cbn in H. injection H as <-. cbn. now rewrite app_nil_r.
  - cbn [pack_pairs_go] in H. destruct (k =? prev); [discriminate|].
    destruct (cap <? _); [discriminate|]. destruct (cap <? _); [discriminate|]. destruct (cap <? _); [discriminate|].
    rewrite pemit_st0 in H. apply IH in H. rewrite H. cbn [map concat]. now rewrite <- app_assoc.
Qed.

(* a list already in strictly increasing key order is what the stable sort returns *)
Lemma ins_pair_last p acc : Forall (fun q => pkey q <= pkey p) acc -> ins_pair p acc = acc ++ [p].
Proof.
  induction acc as [|q acc IH]; intro H; [reflexivity|].
  cbn [ins_pair]. pose proof (Forall_inv H) as Hq. cbn beta in Hq. apply Forall_inv_tail in H.
  btrue (pkey q <=? pkey p). rewrite IH by exact H. reflexivity.
Qed.
Lemma sort_pairs_sorted l : forall lo acc,
  sorted_from lo (map pkey l) -> Forall (fun q => pkey q < lo) acc ->
  fold_left (fun acc p => ins_pair p acc) l acc = acc ++ l.
Proof.
  induction l as [|p l IH]; intros lo acc Hs Ha; cbn [fold_left]; [now rewrite app_nil_r|].
  cbn [map sorted_from] in Hs. destruct Hs as [Hlo Hs].
  rewrite ins_pair_last by (eapply Forall_impl; [|exact Ha]; cbn beta; intros; lia).
  rewrite (IH (pkey p + 1)); [now rewrite <- app_assoc|exact Hs|].
  apply Forall_app. split; [eapply Forall_impl; [|exact Ha]; cbn beta; intros; lia|].
  constructor; [lia|constructor].
Qed.

(* reading one (code, length, value) triple *)
Lemma pair_header pre p post :
  pkey p < 65536 -> lenN (snd (fst p)) < 65536 ->
  let msg := pre ++ enc_pair p ++ post in
  lenN msg = lenN pre + (4 + lenN (snd (fst p))) + lenN post /\
  be (take_at msg (lenN pre) 2) 0 = pkey p /\
  be (take_at msg (lenN pre + 2) 2) 0 = lenN (snd (fst p)) /\
  take_at msg (lenN pre + 4) (lenN (snd (fst p))) = snd (fst p).
Proof.
  intros Hk Hl msg. destruct p as [[k b] n]. unfold msg, enc_pair, pkey in *. cbn [fst snd] in *.
  split; [rewrite !lenN_app; cbn [u16 lenN length N.of_nat]; lia|]. split; [|split].
  - rewrite <- !app_assoc. rewrite take_at_exact' with (b := u16 k) by reflexivity. apply be_u16, Hk.
  - replace (pre ++ (u16 k ++ u16 (lenN b) ++ b) ++ post) with ((pre ++ u16 k) ++ u16 (lenN b) ++ b ++ post)
      by (rewrite <- !app_assoc; reflexivity).
    rewrite take_at_exact' with (b := u16 (lenN b)); [apply be_u16, Hl|rewrite lenN_app; reflexivity|reflexivity].
  - replace (pre ++ (u16 k ++ u16 (lenN b) ++ b) ++ post) with ((pre ++ u16 k ++ u16 (lenN b)) ++ b ++ post)
      by (rewrite <- !app_assoc; reflexivity).
    apply take_at_exact. rewrite !lenN_app. cbn [u16 lenN length N.of_nat]. lia.
Qed.

Definition opt_ok (p : N * bytes * N) : Prop :=
  pkey p < 65536 /\ lenN (snd (fst p)) < 65536 /\ opt_view (pkey p) (snd (fst p)) = Some (snd (fst p), snd p).
Definition svcb_ok (p : N * bytes * N) : Prop :=
  pkey p < 65536 /\ lenN (snd (fst p)) < 65536 /\ svcb_view (pkey p) (snd (fst p)) = Some (snd (fst p), snd p).

Lemma unpack_opts_exact l : forall fuel pre acc,
  Forall opt_ok l -> (length l < fuel)%nat ->
  unpack_opts_go fuel (pre ++ concat (map enc_pair l)) (lenN pre) acc =
  Ok (acc ++ l, lenN pre + lenN (concat (map enc_pair l))).
Proof.
  induction l as [|p l IH]; intros fuel pre acc Hok Hf.
  - destruct fuel as [|f]; [cbn in Hf; lia|]. cbn [map concat unpack_opts_go]. rewrite !app_nil_r.
    bfalse (lenN pre <? lenN pre). f_equal. f_equal. rewrite lenN_nil. lia.
  - destruct fuel as [|f]; [cbn in Hf; lia|]. cbn [map concat unpack_opts_go].
    pose proof (Forall_inv Hok) as [Hk [Hl Hv]]. apply Forall_inv_tail in Hok.
    destruct (pair_header pre p (concat (map enc_pair l)) Hk Hl) as [E0 [E1 [E2 E3]]].
    rewrite E0, E1, E2.
    btrue (lenN pre <? lenN pre + (4 + lenN (snd (fst p))) + lenN (concat (map enc_pair l))).
    bfalse (lenN pre + (4 + lenN (snd (fst p))) + lenN (concat (map enc_pair l)) <? lenN pre + 4).
    bfalse (lenN pre + (4 + lenN (snd (fst p))) + lenN (concat (map enc_pair l)) <? lenN pre + 4 + lenN (snd (fst p))).
    rewrite E3, Hv.
    replace (pre ++ enc_pair p ++ concat (map enc_pair l)) with ((pre ++ enc_pair p) ++ concat (map enc_pair l))
      by (rewrite <- app_assoc; reflexivity).
    replace (lenN pre + 4 + lenN (snd (fst p))) with (lenN (pre ++ enc_pair p)) by (rewrite lenN_app, len_enc_pair; lia).
    rewrite IH; [|exact Hok|cbn in Hf; lia].
    destruct p as [[k b] n]. cbn [pkey fst snd]. rewrite <- app_assoc. cbn [app]. f_equal. f_equal.
    rewrite !lenN_app. lia.
Qed.

Lemma unpack_svcb_exact l : forall fuel pre acc lo last,
  Forall svcb_ok l -> sorted_from lo (map pkey l) -> (Z.of_N lo > last)%Z -> (length l < fuel)%nat ->
  unpack_svcb_go fuel (pre ++ concat (map enc_pair l)) (lenN pre) last acc =
  Ok (acc ++ l, lenN pre + lenN (concat (map enc_pair l))).
Proof.
  induction l as [|p l IH]; intros fuel pre acc lo last Hok Hs Hlast Hf.
  - destruct fuel as [|f]; [cbn in Hf; lia|]. cbn [map concat unpack_svcb_go]. rewrite !app_nil_r.
    bfalse (lenN pre <? lenN pre). f_equal. f_equal. rewrite lenN_nil. lia.
  - destruct fuel as [|f]; [cbn in Hf; lia|]. cbn [map concat unpack_svcb_go].
    pose proof (Forall_inv Hok) as [Hk [Hl Hv]]. apply Forall_inv_tail in Hok.
    cbn [map sorted_from] in Hs. destruct Hs as [Hlo Hs].
    destruct (pair_header pre p (concat (map enc_pair l)) Hk Hl) as [E0 [E1 [E2 E3]]].
    rewrite E0, E1, E2.
    btrue (lenN pre <? lenN pre + (4 + lenN (snd (fst p))) + lenN (concat (map enc_pair l))).
    bfalse (lenN pre + (4 + lenN (snd (fst p))) + lenN (concat (map enc_pair l)) <? lenN pre + 2).
    bfalse (lenN pre + (4 + lenN (snd (fst p))) + lenN (concat (map enc_pair l)) <? lenN pre + 2 + 2).
    bfalse (lenN pre + (4 + lenN (snd (fst p))) + lenN (concat (map enc_pair l)) <? lenN pre + 2 + 2 + lenN (snd (fst p))).
    replace (lenN pre + 2 + 2) with (lenN pre + 4) by lia.
    rewrite E3, Hv. bfalse (Z.of_N (pkey p) <=? last)%Z.
    replace (pre ++ enc_pair p ++ concat (map enc_pair l)) with ((pre ++ enc_pair p) ++ concat (map enc_pair l))
      by (rewrite <- app_assoc; reflexivity).
    replace (lenN pre + 4 + lenN (snd (fst p))) with (lenN (pre ++ enc_pair p)) by (rewrite lenN_app, len_enc_pair; lia).
    rewrite (IH f _ _ (pkey p + 1)); [|exact Hok|exact Hs|lia|cbn in Hf; lia].
    destruct p as [[k b] n]. cbn [pkey fst snd]. rewrite <- app_assoc. cbn [app]. f_equal. f_equal.
    rewrite !lenN_app. lia.
Qed.

Lemma pairs_length (l : list (N * bytes * N)) : (length l <= length (concat (map enc_pair l)))%nat.
Proof.
  induction l as [|p l IH]; cbn; [lia|]. rewrite app_length.
  pose proof (enc_pair_nonempty p). destruct (enc_pair p); [congruence|]. cbn. lia.
Qed.
Lemma concat_enc_pair_nil l : concat (map enc_pair l) = [] -> l = [].
Proof.
  destruct l as [|p l]; [reflexivity|]. cbn [map concat]. intro E. apply app_eq_nil in E. destruct E as [E _].
  now apply enc_pair_nonempty in E.
Qed.

(* ------------------------------------------------------------------ *)
(* APL prefixes *)
Definition apl_addr (prefix : N) (ip : bytes) : bytes :=
  trim_trailing_zeros (takeN ((prefix + 7) / 8) (mask_bytes ip prefix)).
Definition apl_fam (ip : bytes) : N := if lenN ip =? 4 then 1 else 2.
Definition enc_apl (p : bool * N * bytes) : bytes :=
  let '(neg, prefix, ip) := p in
  u16 (apl_fam ip) ++ u8 prefix ++
  u8 ((if neg then 128 else 0) + lenN (apl_addr prefix ip) mod 128) ++ apl_addr prefix ip.
(* the address is what unpacking rebuilds from its own masked, zero-trimmed form *)
Definition apl_ok (p : bool * N * bytes) : Prop :=
  let '(neg, prefix, ip) := p in
  (lenN ip = 4 \/ lenN ip = 16) /\ prefix <= 8 * lenN ip /\
  pad_right (apl_addr prefix ip) (length ip) = ip.

Lemma mask_bytes_length ip : forall p, length (mask_bytes ip p) = length ip.
Proof. induction ip as [|b r IH]; intro p; cbn [mask_bytes]; [reflexivity|]. destruct (8 <=? p); cbn [length]; now rewrite IH. Qed.

Lemma tzr_spec l : (trim_zeros_rev l = [] \/ exists x r, trim_zeros_rev l = x :: r /\ x <> 0) /\
  (length (trim_zeros_rev l) <= length l)%nat.
Proof.
  induction l as [|x l [IH1 IH2]]; [split; [now left|cbn; lia]|].
  destruct x as [|q].
  - cbn [trim_zeros_rev]. split; [exact IH1|cbn [length]; lia].
  - cbn [trim_zeros_rev]. split; [right; exists (Npos q), l; split; [reflexivity|discriminate]|lia].
Qed.

Lemma trim_length l : lenN (trim_trailing_zeros l) <= lenN l.
Proof.
  unfold trim_trailing_zeros, lenN. rewrite rev_length.
  destruct (tzr_spec (rev l)) as [_ H]. rewrite rev_length in H. lia.
Qed.
Lemma trim_last_nonzero l : 0 < lenN (trim_trailing_zeros l) ->
  nthN (trim_trailing_zeros l) (lenN (trim_trailing_zeros l) - 1) 0 <> 0.
Proof.
  unfold trim_trailing_zeros. destruct (tzr_spec (rev l)) as [[E|[x [r [E Hx]]]] _]; rewrite E.
  - cbn. lia.
  - intros _. cbn [rev]. unfold nthN, lenN. rewrite app_length. cbn [length].
    rewrite app_nth2 by lia.
    replace (N.to_nat (N.of_nat (length (rev r) + 1) - 1) - length (rev r))%nat with 0%nat by lia.
    exact Hx.
Qed.

Lemma apl_addr_len prefix ip : lenN (apl_addr prefix ip) <= lenN ip.
Proof.
  unfold apl_addr. pose proof (trim_length (takeN ((prefix + 7) / 8) (mask_bytes ip prefix))) as H.
  assert (lenN (takeN ((prefix + 7) / 8) (mask_bytes ip prefix)) <= lenN ip).
  { unfold lenN, takeN. rewrite firstn_length, mask_bytes_length. lia. }
  lia.
Qed.

Lemma pack_apl_prefix_ok p cap out st' : apl_ok p ->
  pack_apl_prefix p cap (st0 out) = Ok st' -> st' = st0 (out ++ enc_apl p).
Proof.
  destruct p as [[neg prefix] ip]. intros [Hlen _] H. unfold pack_apl_prefix in H.
  assert (Hf : match lenN ip with 4 => Some 1 | 16 => Some 2 | _ => None end = Some (apl_fam ip)).
  { unfold apl_fam. destruct Hlen as [E|E]; rewrite E; reflexivity. }
  rewrite Hf in H. clear Hf.
  inv_bind H. apply pack_fixed_ok in Ha. subst a.
  inv_bind H. apply pack_fixed_ok in Ha. subst a.
  inv_bind H. apply pack_fixed_ok in Ha. subst a.
  apply pack_fixed_ok in H. subst st'. unfold enc_apl, apl_addr. rewrite <- !app_assoc. reflexivity.
Qed.

Lemma unpack_apl_prefix_exact p pre post : apl_ok p ->
  unpack_apl_prefix (pre ++ enc_apl p ++ post) (lenN pre) = Ok (p, lenN pre + lenN (enc_apl p)).
Proof.
  destruct p as [[neg prefix] ip]. intros [Hlen [Hpre Hpad]].
  pose proof (apl_addr_len prefix ip) as Hal.
  set (addr := apl_addr prefix ip) in *.
  set (nl := (if neg then 128 else 0) + lenN addr mod 128).
  assert (Hnl : nl < 256) by (unfold nl; destruct neg; lia).
  assert (Hfam : apl_fam ip < 65536) by (unfold apl_fam; destruct (lenN ip =? 4); lia).
  unfold unpack_apl_prefix.
  set (msg := pre ++ enc_apl (neg, prefix, ip) ++ post).
  assert (Emsg : msg = pre ++ u16 (apl_fam ip) ++ [prefix mod 256] ++ [nl mod 256] ++ addr ++ post).
  { unfold msg, enc_apl. fold addr. fold nl. unfold u8. rewrite <- !app_assoc. reflexivity. }
  assert (Hlm : lenN msg = lenN pre + 4 + lenN addr + lenN post).
  { rewrite Emsg. rewrite !lenN_app. cbn [u16 lenN length N.of_nat]. lia. }
  rewrite Hlm.
  bfalse (lenN pre + 4 + lenN addr + lenN post <? lenN pre + 2).
  assert (E1 : be (take_at msg (lenN pre) 2) 0 = apl_fam ip).
  { rewrite Emsg. rewrite take_at_exact' with (b := u16 (apl_fam ip)) by reflexivity. now apply be_u16. }
  rewrite E1.
  bfalse (lenN pre + 4 + lenN addr + lenN post <? lenN pre + 2 + 1).
  assert (E2 : nthN msg (lenN pre + 2) 0 = prefix).
  { rewrite Emsg. rewrite app_assoc. cbn [app]. rewrite nthN_exact; [lia|]. rewrite lenN_app. reflexivity. }
  rewrite E2.
  bfalse (lenN pre + 4 + lenN addr + lenN post <? lenN pre + 2 + 1 + 1).
  assert (E3 : nthN msg (lenN pre + 2 + 1) 0 = nl).
  { rewrite Emsg. rewrite (app_assoc pre), (app_assoc (pre ++ _)). cbn [app]. rewrite nthN_exact; [lia|].
    rewrite !lenN_app. reflexivity. }
  rewrite E3.
  assert (Eil : (if apl_fam ip =? 1 then Some 4 else if apl_fam ip =? 2 then Some 16 else None) = Some (lenN ip)).
  { unfold apl_fam. destruct Hlen as [E|E]; rewrite E; reflexivity. }
  rewrite Eil.
  bfalse (8 * lenN ip <? prefix).
  assert (Ea : nl mod 128 = lenN addr) by (unfold nl; destruct neg; lia).
  rewrite Ea.
  bfalse (lenN ip <? lenN addr).
  bfalse (lenN pre + 4 + lenN addr + lenN post <? lenN pre + 2 + 1 + 1 + lenN addr).
  assert (E4 : take_at msg (lenN pre + 2 + 1 + 1) (lenN addr) = addr).
  { rewrite Emsg. rewrite (app_assoc pre), (app_assoc (pre ++ _)), (app_assoc ((pre ++ _) ++ _)).
    apply take_at_exact. rewrite !lenN_app. reflexivity. }
  rewrite E4.
  assert (Ez : (0 <? lenN addr) && (nthN addr (lenN addr - 1) 0 =? 0) = false).
  { destruct (0 <? lenN addr) eqn:Hpos; [|reflexivity]. cbn [andb].
    pose proof (trim_last_nonzero (takeN ((prefix + 7) / 8) (mask_bytes ip prefix))) as Hn.
    fold (apl_addr prefix ip) in Hn. fold addr in Hn. specialize (Hn ltac:(lia)). lia. }
  rewrite Ez.
  replace (N.to_nat (lenN ip)) with (length ip) by (unfold lenN; lia). rewrite Hpad.
  f_equal. f_equal.
  - f_equal. f_equal. unfold nl. destruct neg; lia.
  - unfold enc_apl. fold addr. rewrite !lenN_app. cbn [u16 u8 lenN length N.of_nat]. lia.
Qed.

Lemma enc_apl_nonempty p : enc_apl p <> [].
Proof. destruct p as [[neg prefix] ip]. discriminate. Qed.

Lemma pack_apl_ok l : forall cap out st', Forall apl_ok l ->
  pack_apl l cap (st0 out) = Ok st' -> st' = st0 (out ++ concat (map enc_apl l)).
Proof.
  induction l as [|p l IH]; intros cap out st' Hok H.
  - cbn in H. injection H as <-. cbn. now rewrite app_nil_r.
  - pose proof (Forall_inv Hok) as Hp. apply Forall_inv_tail in Hok.
    cbn [pack_apl] in H. inv_bind H. apply pack_apl_prefix_ok in Ha; [|exact Hp]. subst a.
    apply IH in H; [|exact Hok]. rewrite H. cbn [map concat]. now rewrite <- app_assoc.
Qed.

Lemma map_id_pair {A B} (g : A -> B) l : map fst (map (fun d => (d, g d)) l) = l.
Proof. rewrite map_map. cbn. apply map_id. Qed.

Lemma unpack_apl_exact pre l : Forall apl_ok l ->
  unpack_apl (pre ++ concat (map enc_apl l)) (lenN pre) = Ok (l, lenN pre + lenN (concat (map enc_apl l))).
Proof.
  intro Hok. unfold unpack_apl. rewrite unpack_apl_is_loop.
  pose (items := map (fun p => (p, enc_apl p)) l).
  assert (Hi : forall x b, In (x, b) items -> b <> [] /\
     forall pre post, unpack_apl_prefix (pre ++ b ++ post) (lenN pre) = Ok (x, lenN pre + lenN b)).
  { intros x b Hin. unfold items in Hin. apply in_map_iff in Hin. destruct Hin as [p [E Hin]].
    injection E as <- <-. split; [apply enc_apl_nonempty|]. intros. apply unpack_apl_prefix_exact.
    rewrite Forall_forall in Hok. now apply Hok. }
  replace (map enc_apl l) with (map snd items) by apply map_snd_pair.
  rewrite loop_items.
  - cbn [app]. unfold items. now rewrite map_id_pair.
  - exact Hi.
  - apply fuel_items. intros x b Hin. apply (Hi x b Hin).
Qed.

(* ------------------------------------------------------------------ *)
(* canonical values, per field kind *)
Definition str_ok (d : bytes) : Prop := wfb d /\ lenN d <= 255.
Definition size_agrees (v : rdata) (e : fend) (b : bytes) : Prop :=
  match e with ToEnd => True | SizedBy s => lenN b = vget_n v s end.

(* [canon v k x]: x is a value of kind k that the wire format represents
   faithfully.  Kinds not (yet) covered have no canonical values. *)
Definition canon (v : rdata) (k : fkind) (x : fval) : Prop :=
  match k with
  | K_u8 => exists n, x = V_n n /\ n < 256
  | K_u16 => exists n, x = V_n n /\ n < 65536
  | K_u32 => exists n, x = V_n n /\ n < 4294967296
  | K_u48 => exists n, x = V_n n /\ n < 281474976710656
  | K_u64 => exists n, x = V_n n /\ n < 18446744073709551616
  | K_name _ => exists ls, x = V_s (show_name ls) /\ valid_wire ls = true
  | K_string => exists d, x = V_s (show_txt d) /\ str_ok d
  | K_txt => exists ds, x = V_ss (map show_txt ds) /\ Forall str_ok ds
  | K_octet => exists d, x = V_s (esc_bs d)
  | K_any => exists d, x = V_s d
  | K_hex e | K_hexdash e | K_b64 e | K_b32 e => exists d, x = V_enc d /\ size_agrees v e d
  | K_a => exists a, x = V_b a /\ lenN a = 4
  | K_aaaa => exists a, x = V_b a /\ lenN a = 16
  | K_names _ => exists lss, x = V_ss (map show_name lss) /\ Forall (fun ls => valid_wire ls = true) lss
  | K_nsec => exists l, x = V_ns l /\ sorted_from 0 l /\ Forall (fun t => t < 65536) l
  | K_opt => exists l, x = V_pairs l /\ Forall opt_ok l
  | K_svcb => exists l, x = V_pairs l /\ Forall svcb_ok l /\ sorted_from 0 (map pkey l)
  | K_apl => exists l, x = V_apl l /\ Forall apl_ok l
  | K_gateway _ _ _ _ _ => False
  end.

(* the Go zero value of the field: what a record unpacked from a shorter RDATA holds *)
Definition zero_of (k : fkind) : fval :=
  match k with
  | K_u8 | K_u16 | K_u32 | K_u48 | K_u64 => V_n 0
  | K_name _ | K_string | K_octet | K_any => V_s []
  | K_txt | K_names _ => V_ss []
  | K_hex _ | K_hexdash _ | K_b64 _ | K_b32 _ => V_enc []
  | K_a | K_aaaa => V_b []
  | K_nsec => V_ns []
  | K_opt | K_svcb => V_pairs []
  | K_apl => V_apl []
  | K_gateway _ _ _ _ _ => V_s []
  end.

(* fields that extend to the end of the RDATA *)
Definition fend_to_end (e : fend) : bool := match e with ToEnd => true | SizedBy _ => false end.
Definition to_end (k : fkind) : bool :=
  match k with
  | K_txt | K_octet | K_any | K_nsec | K_opt | K_svcb | K_apl | K_names _ => true
  | K_hex e | K_hexdash e | K_b64 e | K_b32 e => fend_to_end e
  | _ => false
  end.
Definition fend_sized (e : fend) : option string := match e with ToEnd => None | SizedBy s => Some s end.
Definition sized_by (k : fkind) : option string :=
  match k with
  | K_hex e | K_hexdash e | K_b64 e | K_b32 e => fend_sized e
  | _ => None
  end.

Definition unpacks_to (k' : fkind) (v : rdata) (k : fkind) (x : fval) (b : bytes) : Prop :=
  forall pre post got,
    (to_end k = true -> post = []) ->
    (forall s, sized_by k = Some s -> vget_n got s = vget_n v s) ->
    unpack_field got k' (pre ++ b ++ post) (lenN pre) = Ok ([x], lenN pre + lenN b).

Lemma fend_eqb_eq a b : fend_eqb a b = true -> a = b.
Proof. destruct a, b; cbn; try discriminate; [reflexivity|]. intro H. apply String.eqb_eq in H. now subst. Qed.

Lemma enc_unpacks e d v got pre post :
  size_agrees v e d ->
  (fend_to_end e = true -> post = []) ->
  (forall s, fend_sized e = Some s -> vget_n got s = vget_n v s) ->
  unpack_to_end (pre ++ d ++ post) (lenN pre) (end_of e got (pre ++ d ++ post) (lenN pre)) =
  Ok (d, lenN pre + lenN d).
Proof.
  intros Hs Hpost Hgot. apply unpack_to_end_exact. destruct e as [|s]; cbn [end_of].
  - rewrite (Hpost eq_refl), app_nil_r, lenN_app. reflexivity.
  - rewrite (Hgot s eq_refl). cbn in Hs. lia.
Qed.

Ltac num_case Hp Hv lem :=
  rewrite Hv in Hp; cbn [as_n] in Hp; apply pack_fixed_ok in Hp; subst;
  eexists; split; [reflexivity|]; split; [discriminate|];
  intros pre post got _ _; cbn [unpack_field]; cbv zeta;
  rewrite unpack_fixed_exact by reflexivity; cbn [bind fst snd]; rewrite lem by assumption; reflexivity.

Lemma field_roundtrip v f k k' x cap out st' :
  kind_agree k k' = true -> vget v f = Some x -> canon v k x ->
  pack_field v f k cap (st0 out) = Ok st' ->
  exists b, st' = st0 (out ++ b) /\ (b = [] -> x = zero_of k) /\ unpacks_to k' v k x b.
Proof.
  intros Ha Hv Hc Hp. unfold unpacks_to.
  destruct k; destruct k'; cbn [kind_agree] in Ha; try discriminate Ha;
    cbn [canon] in Hc; try contradiction; cbn [pack_field] in Hp.
  - destruct Hc as [n [-> Hn]]. num_case Hp Hv be_u8.
  - destruct Hc as [n [-> Hn]]. num_case Hp Hv be_u16.
  - destruct Hc as [n [-> Hn]]. num_case Hp Hv be_u32.
  - destruct Hc as [n [-> Hn]]. num_case Hp Hv be_u48.
  - destruct Hc as [n [-> Hn]]. num_case Hp Hv be_u64.
  - (* name *)
    destruct Hc as [ls [-> Hls]]. rewrite Hv in Hp. cbn [as_s] in Hp.
    apply pack_name_show in Hp; [|exact Hls]. subst st'.
    exists (wire_name ls). split; [reflexivity|]. split.
    { unfold wire_name. intro E. apply app_eq_nil in E. destruct E; discriminate. }
    intros pre post got _ _. cbn [unpack_field]. cbv zeta.
    rewrite unpack_name_exact by exact Hls. reflexivity.
  - (* character-string *)
    destruct Hc as [d [-> [Hd _]]]. rewrite Hv in Hp. cbn [as_s] in Hp.
    unfold pack_string in Hp.
    destruct (pack_txt_string (show_txt d) cap (st0 out)) as [s| | |] eqn:E; try discriminate.
    injection Hp as <-. apply pack_txt_string_show in E; [|exact Hd]. subst s.
    exists (enc_str d). split; [reflexivity|]. split; [discriminate|].
    intros pre post got _ _. cbn [unpack_field]. cbv zeta.
    rewrite unpack_string_exact. reflexivity.
  - (* []string *)
    destruct Hc as [ds [-> Hds]]. rewrite Hv in Hp. cbn [as_ss] in Hp.
    unfold pack_txt in Hp.
    assert (Hp' : st' = st0 (out ++ concat (map enc_str ds))).
    { destruct ds as [|d0 ds'].
      - cbn [map] in Hp. destruct (cap <=? poff (st0 out)); [discriminate|]. injection Hp as <-.
        cbn. now rewrite app_nil_r.
      - apply (pack_txts_show (d0 :: ds') cap); [exact Hds|].
        destruct (pack_txts (map show_txt (d0 :: ds')) cap (st0 out)) as [s| | |]; try discriminate. exact Hp. }
    subst st'.
    exists (concat (map enc_str ds)). split; [reflexivity|]. split.
    { intro E. destruct ds as [|d0 ds']; [reflexivity|]. exfalso. now apply (concat_enc_str_nonempty (d0 :: ds')). }
    intros pre post got Hpost _. cbn [unpack_field]. cbv zeta.
    rewrite (Hpost eq_refl), app_nil_r, unpack_txt_exact. reflexivity.
  - (* octet string *)
    destruct Hc as [d ->]. rewrite Hv in Hp. cbn [as_s] in Hp.
    unfold pack_octet in Hp. rewrite poff_st0 in Hp.
    destruct ((cap <=? lenN out) || (1025 <? lenN (esc_bs d))); [discriminate|].
    destruct (ptx_go (esc_bs d) [] (lenN out) cap) as [data| | |] eqn:E; try discriminate.
    cbn [bind] in Hp. injection Hp as <-. apply ptx_go_esc_bs in E. cbn [app] in E. subst data.
    exists d. split; [reflexivity|]. split; [intros ->; reflexivity|].
    intros pre post got Hpost _. cbn [unpack_field]. cbv zeta.
    rewrite (Hpost eq_refl), app_nil_r, lenN_app.
    bfalse (lenN pre + lenN d <? lenN pre). cbn [bind fst snd].
    rewrite dropN_app_exact. reflexivity.
  - (* any *)
    destruct Hc as [d ->]. rewrite Hv in Hp. cbn [as_s] in Hp. apply pack_fixed_ok in Hp. subst st'.
    exists d. split; [reflexivity|]. split; [intros ->; reflexivity|].
    intros pre post got Hpost _. cbn [unpack_field]. cbv zeta.
    rewrite unpack_to_end_exact; [reflexivity|].
    rewrite (Hpost eq_refl), app_nil_r, lenN_app. reflexivity.
  - (* hex *)
    destruct Hc as [d [-> Hs]]. rewrite Hv in Hp. cbn [as_enc] in Hp. apply pack_fixed_ok in Hp. subst st'.
    apply fend_eqb_eq in Ha. subst e0.
    exists d. split; [reflexivity|]. split; [intros ->; reflexivity|].
    intros pre post got Hpost Hgot. cbn [unpack_field]. cbv zeta.
    rewrite (enc_unpacks e d v) by assumption. reflexivity.
  - (* hexdash / hex *)
    destruct Hc as [d [-> Hs]]. rewrite Hv in Hp. cbn [as_enc] in Hp. apply pack_fixed_ok in Hp. subst st'.
    apply fend_eqb_eq in Ha. subst e0.
    exists d. split; [reflexivity|]. split; [intros ->; reflexivity|].
    intros pre post got Hpost Hgot. cbn [unpack_field]. cbv zeta.
    rewrite (enc_unpacks e d v) by assumption. reflexivity.
  - (* b64 *)
    destruct Hc as [d [-> Hs]]. rewrite Hv in Hp. cbn [as_enc] in Hp. apply pack_fixed_ok in Hp. subst st'.
    apply fend_eqb_eq in Ha. subst e0.
    exists d. split; [reflexivity|]. split; [intros ->; reflexivity|].
    intros pre post got Hpost Hgot. cbn [unpack_field]. cbv zeta.
    rewrite (enc_unpacks e d v) by assumption. reflexivity.
  - (* b32 *)
    destruct Hc as [d [-> Hs]]. rewrite Hv in Hp. cbn [as_enc] in Hp. apply pack_fixed_ok in Hp. subst st'.
    apply fend_eqb_eq in Ha. subst e0.
    exists d. split; [reflexivity|]. split; [intros ->; reflexivity|].
    intros pre post got Hpost Hgot. cbn [unpack_field]. cbv zeta.
    rewrite (enc_unpacks e d v) by assumption. reflexivity.
  - (* A *)
    destruct Hc as [a [-> Hl]]. rewrite Hv in Hp. cbn [as_b] in Hp. unfold pack_a in Hp. rewrite Hl in Hp.
    apply pack_fixed_ok in Hp. subst st'.
    exists a. split; [reflexivity|]. split; [intros ->; discriminate|].
    intros pre post got _ _. cbn [unpack_field]. cbv zeta.
    rewrite unpack_fixed_exact by (symmetry; exact Hl). reflexivity.
  - (* AAAA *)
    destruct Hc as [a [-> Hl]]. rewrite Hv in Hp. cbn [as_b] in Hp. unfold pack_aaaa in Hp. rewrite Hl in Hp.
    apply pack_fixed_ok in Hp. subst st'.
    exists a. split; [reflexivity|]. split; [intros ->; discriminate|].
    intros pre post got _ _. cbn [unpack_field]. cbv zeta.
    rewrite unpack_fixed_exact by (symmetry; exact Hl). reflexivity.
  - (* type bitmap *)
    destruct Hc as [l [-> [Hs Hb]]]. rewrite Hv in Hp. cbn [as_ns] in Hp.
    destruct (pack_nsec_sorted l cap out st' Hs Hb Hp) as [b [-> [Hz Hu]]].
    exists b. split; [reflexivity|]. split; [intro E; now rewrite (Hz E)|].
    intros pre post got Hpost _. cbn [unpack_field]. cbv zeta.
    rewrite (Hpost eq_refl), app_nil_r, Hu. reflexivity.
  - (* EDNS0 options *)
    destruct Hc as [l [-> Hl]]. rewrite Hv in Hp. cbn [as_pairs] in Hp.
    apply pack_opts_ok in Hp. subst st'.
    exists (concat (map enc_pair l)). split; [reflexivity|]. split.
    { intro E. now rewrite (concat_enc_pair_nil l E). }
    intros pre post got Hpost _. cbn [unpack_field]. cbv zeta.
    rewrite (Hpost eq_refl), app_nil_r. unfold unpack_opts. rewrite unpack_opts_exact.
    + reflexivity.
    + exact Hl.
    + rewrite app_length. pose proof (pairs_length l). lia.
  - (* SVCB parameters *)
    destruct Hc as [l [-> [Hl Hs]]]. rewrite Hv in Hp. cbn [as_pairs] in Hp.
    unfold pack_svcb, sort_pairs in Hp.
    rewrite (sort_pairs_sorted l 0 []) in Hp by (exact Hs || constructor). cbn [app] in Hp.
    apply pack_pairs_go_ok in Hp. subst st'.
    exists (concat (map enc_pair l)). split; [reflexivity|]. split.
    { intro E. now rewrite (concat_enc_pair_nil l E). }
    intros pre post got Hpost _. cbn [unpack_field]. cbv zeta.
    rewrite (Hpost eq_refl), app_nil_r. unfold unpack_svcb. rewrite (unpack_svcb_exact l _ _ _ 0).
    + reflexivity.
    + exact Hl.
    + exact Hs.
    + lia.
    + rewrite app_length. pose proof (pairs_length l). lia.
  - (* APL *)
    destruct Hc as [l [-> Hl]]. rewrite Hv in Hp. cbn [as_apl] in Hp.
    apply pack_apl_ok in Hp; [|exact Hl]. subst st'.
    exists (concat (map enc_apl l)). split; [reflexivity|]. split.
    { destruct l as [|p l']; [reflexivity|]. cbn [map concat]. intro E. apply app_eq_nil in E.
      destruct E as [E _]. now apply enc_apl_nonempty in E. }
    intros pre post got Hpost _. cbn [unpack_field]. cbv zeta.
    rewrite (Hpost eq_refl), app_nil_r, unpack_apl_exact by exact Hl. reflexivity.
  - (* list of names *)
    destruct Hc as [lss [-> Hlss]]. rewrite Hv in Hp. cbn [as_ss] in Hp.
    apply pack_names_show in Hp; [|exact Hlss]. subst st'.
    exists (concat (map wire_name lss)). split; [reflexivity|]. split.
    { destruct lss as [|ls lss']; [reflexivity|]. cbn [map concat]. intro E. apply app_eq_nil in E.
      destruct E as [E _]. now apply wire_name_nonempty in E. }
    intros pre post got Hpost _. cbn [unpack_field]. cbv zeta.
    rewrite (Hpost eq_refl), app_nil_r, unpack_names_exact by exact Hlss. reflexivity.
Qed.

(* ------------------------------------------------------------------ *)
(* all kinds, including the IPSECKEY / AMTRELAY gateway union, which assigns two
   struct fields (address and host) and depends on the gateway type field *)
Definition knames (f : string) (k : fkind) : list string :=
  match k with K_gateway _ addrf hostf _ _ => [addrf; hostf] | _ => [f] end.
Definition kzero (k : fkind) (g : string) : fval :=
  match k with
  | K_gateway _ addrf _ _ _ => if String.eqb g addrf then V_b [] else V_s []
  | _ => zero_of k
  end.
Definition depends_on (k : fkind) : option string :=
  match k with K_gateway tyf _ _ _ _ => Some tyf | _ => sized_by k end.

Definition gateway_ok (ty : N) (a h : bytes) : Prop :=
  (ty = gw_v4 /\ lenN a = 4 /\ h = []) \/
  (ty = gw_v6 /\ lenN a = 16 /\ h = []) \/
  (ty = gw_host /\ a = [] /\ exists ls, h = show_name ls /\ valid_wire ls = true) \/
  (ty <> gw_v4 /\ ty <> gw_v6 /\ ty <> gw_host /\ a = [] /\ h = []).

(* [field_canon v f k]: the struct field(s) that the pack statement (f, k) reads
   hold canonical values in v *)
Definition field_canon (v : rdata) (f : string) (k : fkind) : Prop :=
  match k with
  | K_gateway tyf addrf hostf mask _ =>
    addrf <> hostf /\
    exists a h, vget v addrf = Some (V_b a) /\ vget v hostf = Some (V_s h) /\
                gateway_ok (N.land (vget_n v tyf) mask) a h
  | _ => exists x, vget v f = Some x /\ canon v k x
  end.

Lemma field_roundtrip_gen v f k k' cap out st' :
  kind_agree k k' = true -> field_canon v f k ->
  pack_field v f k cap (st0 out) = Ok st' ->
  exists b vals, st' = st0 (out ++ b) /\
    Forall2 (fun g y => vget v g = Some y) (knames f k) vals /\
    (b = [] -> Forall (fun g => vget v g = Some (kzero k g)) (knames f k)) /\
    forall pre post got,
      (to_end k = true -> post = []) ->
      (forall s, depends_on k = Some s -> vget_n got s = vget_n v s) ->
      unpack_field got k' (pre ++ b ++ post) (lenN pre) = Ok (vals, lenN pre + lenN b).
Proof.
  intros Ha Hc Hp.
  destruct k; cbn [field_canon] in Hc;
    try solve [
      destruct Hc as [x [Hv Hcx]];
      destruct (field_roundtrip v f _ k' x cap out st' Ha Hv Hcx Hp) as [b [-> [Hz Hu]]];
      exists b, [x]; split; [reflexivity|]; split; [repeat constructor; exact Hv|];
      split; [intro E; repeat constructor; cbn [kzero]; rewrite Hv, (Hz E); reflexivity|];
      intros pre post got Hpost Hdep; apply Hu; assumption ].
  (* the gateway *)
  destruct k'; cbn [kind_agree] in Ha; try discriminate Ha.
  repeat (apply andb_prop in Ha; destruct Ha as [Ha ?]).
  repeat match goal with H : String.eqb _ _ = true |- _ => apply String.eqb_eq in H end.
  match goal with H : (_ =? _) = true |- _ => apply N.eqb_eq in H end. subst.
  destruct Hc as [Hne [a [h [Hva [Hvh Hg]]]]].
  cbn [pack_field] in Hp. rewrite Hva, Hvh in Hp. cbn [as_b as_s] in Hp.
  cbn [knames kzero depends_on to_end].
  assert (Hne' : String.eqb hostf0 addrf0 = false).
  { destruct (String.eqb_spec hostf0 addrf0); [congruence|reflexivity]. }
  destruct Hg as [[Ety [Hl ->]]|[[Ety [Hl ->]]|[[Ety [-> [ls [-> Hls]]]]|[N1 [N2 [N3 [-> ->]]]]]]].
  - rewrite Ety in Hp. cbn [N.eqb gw_v4 Pos.eqb] in Hp. unfold pack_a in Hp. rewrite Hl in Hp.
    apply pack_fixed_ok in Hp. subst st'.
    exists a, [V_b a; V_s []]. split; [reflexivity|]. split; [repeat constructor; assumption|].
    split; [intros ->; discriminate|].
    intros pre post got _ Hdep. cbn [unpack_field]. rewrite (Hdep _ eq_refl), Ety. cbn [N.eqb gw_v4 Pos.eqb].
    rewrite unpack_fixed_exact by (symmetry; exact Hl). reflexivity.
  - rewrite Ety in Hp. cbn [N.eqb gw_v4 gw_v6 Pos.eqb] in Hp. unfold pack_aaaa in Hp. rewrite Hl in Hp.
    apply pack_fixed_ok in Hp. subst st'.
    exists a, [V_b a; V_s []]. split; [reflexivity|]. split; [repeat constructor; assumption|].
    split; [intros ->; discriminate|].
    intros pre post got _ Hdep. cbn [unpack_field]. rewrite (Hdep _ eq_refl), Ety. cbn [N.eqb gw_v4 gw_v6 Pos.eqb].
    rewrite unpack_fixed_exact by (symmetry; exact Hl). reflexivity.
  - rewrite Ety in Hp. cbn [N.eqb gw_v4 gw_v6 gw_host Pos.eqb] in Hp.
    apply pack_name_show in Hp; [|exact Hls]. subst st'.
    exists (wire_name ls), [V_b []; V_s (show_name ls)]. split; [reflexivity|].
    split; [repeat constructor; assumption|].
    split; [intro E; now apply wire_name_nonempty in E|].
    intros pre post got _ Hdep. cbn [unpack_field]. rewrite (Hdep _ eq_refl), Ety.
    cbn [N.eqb gw_v4 gw_v6 gw_host Pos.eqb].
    rewrite unpack_name_exact by exact Hls. reflexivity.
  - replace (N.land (vget_n v tyf0) mask0 =? gw_v4) with false in Hp by lia.
    replace (N.land (vget_n v tyf0) mask0 =? gw_v6) with false in Hp by lia.
    replace (N.land (vget_n v tyf0) mask0 =? gw_host) with false in Hp by lia.
    injection Hp as <-.
    exists [], [V_b []; V_s []]. split; [now rewrite app_nil_r|].
    split; [repeat constructor; assumption|].
    split. { intros _. repeat constructor; [now rewrite String.eqb_refl|now rewrite Hne']. }
    intros pre post got _ Hdep. cbn [unpack_field]. rewrite (Hdep _ eq_refl).
    bfalse (N.land (vget_n v tyf0) mask0 =? gw_v4).
    bfalse (N.land (vget_n v tyf0) mask0 =? gw_v6).
    bfalse (N.land (vget_n v tyf0) mask0 =? gw_host).
    f_equal. f_equal. rewrite lenN_nil. lia.
Qed.

(* ================================================================== *)
(* wire -> value -> wire *)

(* cutting a message at two offsets *)
Lemma takeN_split (msg : bytes) off n :
  off + n <= lenN msg -> takeN (off + n) msg = takeN off msg ++ take_at msg off n.
Proof.
  intro H. unfold takeN, take_at, dropN.
  replace (N.to_nat (off + n)) with (N.to_nat off + N.to_nat n)%nat by lia.
  rewrite <- (firstn_skipn (N.to_nat off) msg) at 1.
  rewrite firstn_app, firstn_length.
  assert (Hl : (N.to_nat off <= length msg)%nat) by (unfold lenN in H; lia).
  rewrite Nat.min_l by exact Hl.
  replace (N.to_nat off + N.to_nat n - N.to_nat off)%nat with (N.to_nat n) by lia.
  rewrite firstn_firstn. rewrite Nat.min_r by lia. reflexivity.
Qed.
Lemma lenN_take_at (msg : bytes) off n : off + n <= lenN msg -> lenN (take_at msg off n) = n.
Proof. intro H. unfold take_at, takeN, dropN, lenN in *. rewrite firstn_length, skipn_length. lia. Qed.
Lemma wfb_take_at msg off n : wfb msg -> wfb (take_at msg off n).
Proof. intro H. unfold take_at, takeN, dropN. apply Forall_firstn', Forall_skipn', H. Qed.
Lemma lenN_takeN' {A} (l : list A) n : n <= lenN l -> lenN (takeN n l) = n.
Proof. intro H. unfold takeN, lenN in *. rewrite firstn_length. lia. Qed.
Lemma take_at_1 (msg : bytes) off : off < lenN msg -> take_at msg off 1 = [nthN msg off 0].
Proof.
  intro H. unfold take_at, takeN, dropN, nthN. change (N.to_nat 1) with 1%nat.
  assert (Hl : (N.to_nat off < length msg)%nat) by (unfold lenN in H; lia).
  revert Hl. generalize (N.to_nat off). clear. intro n. revert msg.
  induction n as [|n IH]; intros msg Hl; destruct msg as [|x msg]; cbn in *; try lia; [reflexivity|].
  apply IH. lia.
Qed.
Lemma takeN_full {A} (l : list A) : takeN (lenN l) l = l.
Proof. apply takeN_all. Qed.
Lemma take_drop_full (msg : bytes) off : off <= lenN msg -> takeN off msg ++ dropN off msg = msg.
Proof. intros _. apply firstn_skipn. Qed.
Lemma take_at_to_end (msg : bytes) off : take_at msg off (lenN msg - off) = dropN off msg.
Proof.
  unfold take_at, takeN, dropN, lenN. apply firstn_all2. rewrite skipn_length. lia.
Qed.

(* big-endian octets back from their value *)
Lemma u8_be b : wfb b -> lenN b = 1 -> u8 (be b 0) = b.
Proof.
  intros Hw Hl. destruct b as [|a [|? ?]]; try (cbn in Hl; lia).
  inversion Hw; subst. unfold u8. cbn [be]. f_equal. lia.
Qed.
Lemma u16_be b : wfb b -> lenN b = 2 -> u16 (be b 0) = b.
Proof.
  intros Hw Hl. destruct b as [|a [|c [|? ?]]]; try (cbn in Hl; lia).
  inversion Hw as [|? ? Ha Hw1]; subst. inversion Hw1 as [|? ? Hc _]; subst.
  unfold u16. cbn [be]. f_equal; [lia|f_equal; lia].
Qed.
Lemma u32_be b : wfb b -> lenN b = 4 -> u32 (be b 0) = b.
Proof.
  intros Hw Hl. destruct b as [|a [|c [|d [|e [|? ?]]]]]; try (cbn in Hl; lia).
  inversion Hw as [|? ? Ha Hw1]; subst. inversion Hw1 as [|? ? Hc Hw2]; subst.
  inversion Hw2 as [|? ? Hd Hw3]; subst. inversion Hw3 as [|? ? He _]; subst.
  unfold u32. cbn [be]. repeat (f_equal; try lia).
Qed.
Lemma be_acc b : forall acc, be b acc = acc * 256 ^ lenN b + be b 0.
Proof.
  induction b as [|x b IH]; intro acc; cbn [be].
  - rewrite lenN_nil. cbn. lia.
  - rewrite (IH (acc * 256 + x)), (IH (0 * 256 + x)), lenN_cons.
    replace (1 + lenN b) with (N.succ (lenN b)) by lia. rewrite N.pow_succ_r by lia. lia.
Qed.
Lemma be_bound b : wfb b -> be b 0 < 256 ^ lenN b.
Proof.
  induction 1 as [|x b Hx _ IH]; [cbn; lia|]. cbn [be]. rewrite be_acc, lenN_cons.
  replace (1 + lenN b) with (N.succ (lenN b)) by lia. rewrite N.pow_succ_r by lia. nia.
Qed.
Lemma split_bytes (b : bytes) n : n <= lenN b -> b = takeN n b ++ dropN n b /\ lenN (takeN n b) = n /\ lenN (dropN n b) = lenN b - n.
Proof.
  intro H. split; [symmetry; apply firstn_skipn|]. split; [now apply lenN_takeN'|].
  unfold dropN, lenN. rewrite skipn_length. lia.
Qed.
Lemma wfb_split (b : bytes) n : wfb b -> wfb (takeN n b) /\ wfb (dropN n b).
Proof. intro H. split; [apply Forall_firstn', H|apply Forall_skipn', H]. Qed.
Lemma u48_be b : wfb b -> lenN b = 6 -> u48 (be b 0) = b.
Proof.
  intros Hw Hl. destruct (split_bytes b 2 ltac:(lia)) as [E [L1 L2]]. destruct (wfb_split b 2 Hw) as [W1 W2].
  set (hi := takeN 2 b) in *. set (lo := dropN 2 b) in *. rewrite E.
  rewrite be_app, be_acc. rewrite L2, Hl. change (256 ^ (6 - 2)) with 4294967296.
  pose proof (be_bound lo W2) as Hb. rewrite L2, Hl in Hb. change (256 ^ (6 - 2)) with 4294967296 in Hb.
  unfold u48.
  replace ((be hi 0 * 4294967296 + be lo 0) / 4294967296) with (be hi 0) by lia.
  replace ((be hi 0 * 4294967296 + be lo 0) mod 4294967296) with (be lo 0) by lia.
  rewrite u16_be, u32_be by (assumption || lia). reflexivity.
Qed.
Lemma u64_be b : wfb b -> lenN b = 8 -> u64 (be b 0) = b.
Proof.
  intros Hw Hl. destruct (split_bytes b 4 ltac:(lia)) as [E [L1 L2]]. destruct (wfb_split b 4 Hw) as [W1 W2].
  set (hi := takeN 4 b) in *. set (lo := dropN 4 b) in *. rewrite E.
  rewrite be_app, be_acc. rewrite L2, Hl. change (256 ^ (8 - 4)) with 4294967296.
  pose proof (be_bound lo W2) as Hb. rewrite L2, Hl in Hb. change (256 ^ (8 - 4)) with 4294967296 in Hb.
  unfold u64.
  replace ((be hi 0 * 4294967296 + be lo 0) / 4294967296) with (be hi 0) by lia.
  replace ((be hi 0 * 4294967296 + be lo 0) mod 4294967296) with (be lo 0) by lia.
  rewrite !u32_be by (assumption || lia). reflexivity.
Qed.

(* the escape reader accepts what the printers write, given room *)
Lemma ptx_go_show_txt_ok data : forall acc off0 cap, wfb data ->
  off0 + lenN acc + lenN data <= cap ->
  ptx_go (show_txt data) acc off0 cap = Ok (acc ++ data).
Proof.
  induction data as [|b data IH]; intros acc off0 cap Hw Hcap.
  - cbn. now rewrite app_nil_r.
  - inversion Hw as [|? ? Hb Hw']; subst. rewrite show_txt_cons, ptx_go_show_txt_octet by exact Hb.
    rewrite lenN_cons in Hcap. bfalse (cap <=? off0 + lenN acc).
    rewrite IH; [now rewrite <- app_assoc|exact Hw'|]. rewrite lenN_app, lenN_cons, lenN_nil. lia.
Qed.
Lemma ptx_go_esc_bs_ok data : forall acc off0 cap,
  off0 + lenN acc + lenN data <= cap ->
  ptx_go (esc_bs data) acc off0 cap = Ok (acc ++ data).
Proof.
  induction data as [|b data IH]; intros acc off0 cap Hcap.
  - cbn. now rewrite app_nil_r.
  - unfold esc_bs. cbn [flat_map]. fold (esc_bs data). unfold esc_bs_octet. rewrite lenN_cons in Hcap.
    assert (Hn : off0 + lenN (acc ++ [b]) + lenN data <= cap) by (rewrite lenN_app, lenN_cons, lenN_nil; lia).
    destruct (N.eqb_spec b 92) as [->|Hb]; cbn [app].
    + rewrite ptx_go_esc by (apply is_ddd_nondigit; reflexivity). bfalse (cap <=? off0 + lenN acc).
      rewrite IH by exact Hn. now rewrite <- app_assoc.
    + rewrite ptx_go_plain by exact Hb. bfalse (cap <=? off0 + lenN acc).
      rewrite IH by exact Hn. now rewrite <- app_assoc.
Qed.
Lemma show_txt_len data : lenN (show_txt data) <= 4 * lenN data.
Proof.
  induction data as [|b data IH]; [cbn; lia|]. rewrite show_txt_cons, lenN_app, lenN_cons.
  assert (lenN (show_txt_octet b) <= 4).
  { unfold show_txt_octet, ddd. destruct (_ || _); [cbn; lia|]. destruct (_ || _); cbn; lia. }
  lia.
Qed.

Lemma take_at_split (msg : bytes) off a b :
  off + a + b <= lenN msg -> take_at msg off (a + b) = take_at msg off a ++ take_at msg (off + a) b.
Proof.
  intro H. apply (app_inv_head (takeN off msg)).
  rewrite <- takeN_split by lia. rewrite app_assoc, <- takeN_split by lia.
  rewrite <- takeN_split by lia. f_equal. lia.
Qed.

Lemma pack_fixed_room b cap out : lenN out + lenN b <= cap ->
  pack_fixed b cap (st0 out) = Ok (st0 (out ++ b)).
Proof. intro H. unfold pack_fixed. rewrite poff_st0. bfalse (cap <? lenN out + lenN b). reflexivity. Qed.

(* packing the character-string found at off *)
Lemma pack_txt_string_take msg off cap out :
  wfb msg -> off + 1 + nthN msg off 0 <= lenN msg -> lenN msg + 2 <= cap -> lenN out = off ->
  pack_txt_string (show_txt (take_at msg (off + 1) (nthN msg off 0))) cap (st0 out) =
  Ok (st0 (out ++ take_at msg off (1 + nthN msg off 0))).
Proof.
  intros Hw Hl Hc Ho. set (l := nthN msg off 0) in *. set (data := take_at msg (off + 1) l).
  assert (Hdl : lenN data = l) by (apply lenN_take_at; lia).
  assert (Hdw : wfb data) by (apply wfb_take_at, Hw).
  assert (Hl256 : l < 256).
  { unfold l, nthN. unfold wfb in Hw. rewrite Forall_forall in Hw. apply Hw, nth_In. unfold lenN in Hl. lia. }
  unfold pack_txt_string. rewrite poff_st0, Ho.
  pose proof (show_txt_len data).
  bfalse ((cap <=? off) || (1025 <? lenN (show_txt data))).
  rewrite ptx_go_show_txt_ok; [|exact Hdw|rewrite lenN_nil; lia]. cbn [bind app].
  bfalse (255 <? lenN data). rewrite pemit_st0, Hdl. f_equal. f_equal. f_equal.
  rewrite take_at_split by lia. rewrite take_at_1 by lia. reflexivity.
Qed.

Lemma unpack_txts_converse fuel : forall msg off acc l off' cap out,
  wfb msg -> off <= lenN msg -> lenN msg + 2 <= cap -> lenN out = off ->
  unpack_txts fuel msg off acc = Ok (l, off') ->
  off <= off' <= lenN msg /\
  exists l', l = acc ++ l' /\
    pack_txts l' cap (st0 out) = Ok (st0 (out ++ take_at msg off (off' - off))).
Proof.
  induction fuel as [|f IH]; intros msg off acc l off' cap out Hw Hoff Hcap Ho H; [discriminate|].
  cbn [unpack_txts] in H. destruct (off <? lenN msg) eqn:E.
  - unfold unpack_string in H. destruct (lenN msg <? off + 1) eqn:E1; [discriminate|].
    destruct (lenN msg <? off + 1 + nthN msg off 0) eqn:E2; [discriminate|]. cbn [bind fst snd] in H.
    set (n := nthN msg off 0) in *.
    apply IH with (cap := cap) (out := out ++ take_at msg off (1 + n)) in H;
      [|exact Hw|lia|exact Hcap|rewrite lenN_app, lenN_take_at by lia; lia].
    destruct H as [Hr [l'' [-> Hp]]]. split; [lia|].
    exists (show_txt (take_at msg (off + 1) n) :: l''). split; [now rewrite <- app_assoc|].
    cbn [pack_txts]. unfold n at 1. rewrite pack_txt_string_take by (assumption || lia). cbn [bind]. fold n.
    rewrite Hp. f_equal. f_equal. rewrite <- app_assoc. f_equal.
    replace (off' - off) with (1 + n + (off' - (off + 1 + n))) by lia.
    rewrite (take_at_split msg off (1 + n) (off' - (off + 1 + n))) by lia.
    replace (off + (1 + n)) with (off + 1 + n) by lia. reflexivity.
  - injection H as <- <-. split; [lia|]. exists []. split; [now rewrite app_nil_r|].
    cbn [pack_txts]. rewrite N.sub_diag. unfold take_at, takeN. cbn. now rewrite app_nil_r.
Qed.

(* the kinds of the converse theorem, and what plain octets means for them *)
Definition conv_kind (k : fkind) : bool :=
  match k with
  | K_u8 | K_u16 | K_u32 | K_u48 | K_u64 | K_name _ | K_string | K_txt | K_octet | K_any
  | K_hex _ | K_hexdash _ | K_b64 _ | K_b32 _ | K_a | K_aaaa => true
  | _ => false
  end.
(* a name is plain when it is written out in full (no compression pointer); an
   octet string when its text stays within packStringOctet's 1025-octet limit *)
Definition plain_at (k : fkind) (msg : bytes) (off off' : N) : Prop :=
  match k with
  | K_name _ => exists ls, valid_wire ls = true /\ take_at msg off (off' - off) = wire_name ls
  | K_octet => lenN (esc_bs (dropN off msg)) <= 1025
  | _ => True
  end.

Ltac num_conv H lem n :=
  cbn [unpack_field] in H; cbv zeta in H; unfold unpack_fixed in H;
  match type of H with context [lenN ?m <? ?o + ?k] => destruct (lenN m <? o + k) eqn:E; [discriminate|] end;
  cbn [bind fst snd] in H; injection H as <- <-; eexists; split; [reflexivity|];
  intros v f out Hv Ho; cbn [pack_field]; rewrite Hv; cbn [as_n];
  rewrite lem by (try apply wfb_take_at; try apply lenN_take_at; assumption || lia);
  match goal with |- context [?o + n - ?o] => replace (o + n - o) with n by lia end;
  apply pack_fixed_room; rewrite lenN_take_at by lia; lia.

Ltac enc_conv H :=
  cbn [unpack_field] in H; cbv zeta in H; unfold unpack_to_end in H;
  match type of H with context [lenN ?m <? ?x] => destruct (lenN m <? x) eqn:E1; [discriminate|] end;
  match type of H with context [?x <? ?o] => destruct (x <? o) eqn:E2; [discriminate|] end;
  cbn [bind fst snd] in H; injection H as <- <-; eexists; split; [reflexivity|];
  intros v f out Hv Ho; cbn [pack_field]; rewrite Hv; cbn [as_enc as_s];
  apply pack_fixed_room; rewrite lenN_take_at by lia; lia.

(* keep the kernel from unfolding the 400-step name recursion when it re-checks proofs *)
Local Opaque un_go.
Local Strategy opaque [unpack_name_fuel un_go].

(* unpacking the octets msg[off:off'] as kind k' and packing the value as the
   agreeing kind k writes exactly msg[off:off'] again *)
Lemma field_converse got k k' msg off vals off' cap :
  wfb msg -> conv_kind k = true -> kind_agree k k' = true -> off <= lenN msg ->
  unpack_field got k' msg off = Ok (vals, off') -> plain_at k msg off off' ->
  lenN msg + 320 <= cap ->
  off <= off' <= lenN msg /\
  exists x, vals = [x] /\
    forall v f out, vget v f = Some x -> lenN out = off ->
      pack_field v f k cap (st0 out) = Ok (st0 (out ++ take_at msg off (off' - off))).
Proof.
  intros Hw Hck Ha Hoff H Hplain Hcap.
  pose proof (unpack_field_safe got k' msg off Hw Hoff) as Hsafe. rewrite H in Hsafe. cbn in Hsafe.
  split; [exact Hsafe|].
  destruct k; try discriminate Hck; destruct k'; cbn [kind_agree] in Ha; try discriminate Ha; clear Hck.
  - num_conv H u8_be 1.
  - num_conv H u16_be 2.
  - num_conv H u32_be 4.
  - num_conv H u48_be 6.
  - num_conv H u64_be 8.
  - (* name *)
    destruct Hplain as [ls [Hls Ewire]].
    assert (Hlen : lenN (wire_name ls) = off' - off) by (rewrite <- Ewire; apply lenN_take_at; lia).
    assert (Emsg : msg = takeN off msg ++ wire_name ls ++ dropN off' msg).
    { rewrite <- Ewire. rewrite app_assoc. replace off' with (off + (off' - off)) at 2 by lia.
      rewrite <- takeN_split by lia. replace (off + (off' - off)) with off' by lia.
      symmetry. apply firstn_skipn. }
    cbn [unpack_field] in H. cbv zeta in H.
    assert (Hun : unpack_name msg off = Ok (show_name ls, off + lenN (wire_name ls))).
    { set (pre := takeN off msg) in *. set (post := dropN off' msg) in *.
      assert (Eoff : lenN pre = off) by (apply lenN_takeN'; lia).
      rewrite Emsg, <- Eoff. apply unpack_name_exact, Hls. }
    rewrite Hun in H.
    cbn [bind fst snd] in H. injection H as <- _. eexists. split; [reflexivity|].
    intros v f out Hv Ho. cbn [pack_field]. rewrite Hv. cbn [as_s].
    rewrite (pack_name_at (show_name ls) ls).
    + now rewrite Ewire.
    + apply is_fqdn_show_name, Hls.
    + apply parse_show_name, Hls.
    + apply valid_wire_len_ok, Hls.
    + lia.
  - (* character-string *)
    cbn [unpack_field] in H. cbv zeta in H. unfold unpack_string in H.
    destruct (lenN msg <? off + 1) eqn:E1; [discriminate|].
    destruct (lenN msg <? off + 1 + nthN msg off 0) eqn:E2; [discriminate|].
    cbn [bind fst snd] in H. injection H as <- <-. eexists. split; [reflexivity|].
    intros v f out Hv Ho. cbn [pack_field]. rewrite Hv. cbn [as_s]. unfold pack_string.
    rewrite pack_txt_string_take by (assumption || lia).
    f_equal. f_equal. f_equal. f_equal. lia.
  - (* []string *)
    cbn [unpack_field] in H. cbv zeta in H. unfold unpack_txt in H.
    destruct (unpack_txts (S (length msg)) msg off []) as [[l o]| | |] eqn:E; try discriminate.
    cbn [bind fst snd] in H. injection H as <- <-. eexists. split; [reflexivity|].
    intros v f out Hv Ho. cbn [pack_field]. rewrite Hv. cbn [as_ss]. unfold pack_txt.
    apply unpack_txts_converse with (cap := cap) (out := out) in E; [|exact Hw|exact Hoff|lia|exact Ho].
    destruct E as [_ [l' [-> Hp]]]. cbn [app] in *.
    destruct l' as [|s l'].
    + cbn in Hp. injection Hp as Hp. rewrite poff_st0, Ho. bfalse (cap <=? off).
      unfold st0. now rewrite <- Hp.
    + rewrite Hp. reflexivity.
  - (* octet string *)
    cbn [unpack_field plain_at] in *. cbv zeta in H. destruct (lenN msg <? off) eqn:E1; [discriminate|].
    cbn [bind fst snd] in H. injection H as <- <-. eexists. split; [reflexivity|].
    intros v f out Hv Ho. cbn [pack_field]. rewrite Hv. cbn [as_s]. unfold pack_octet.
    rewrite poff_st0, Ho.
    change (flat_map (fun b : N => if b =? 92 then [92; 92] else [b]) (dropN off msg)) with (esc_bs (dropN off msg)).
    bfalse ((cap <=? off) || (1025 <? lenN (esc_bs (dropN off msg)))).
    assert (Hdl : lenN (dropN off msg) = lenN msg - off) by (unfold dropN, lenN; rewrite skipn_length; lia).
    rewrite ptx_go_esc_bs_ok by (rewrite lenN_nil, Hdl; lia).
    cbn [bind app]. rewrite pemit_st0, take_at_to_end. reflexivity.
  - (* any *)
    enc_conv H.
  - enc_conv H.
  - enc_conv H.
  - enc_conv H.
  - enc_conv H.
  - (* A *)
    cbn [unpack_field] in H. cbv zeta in H. unfold unpack_fixed in H.
    destruct (lenN msg <? off + 4) eqn:E; [discriminate|].
    cbn [bind fst snd] in H. injection H as <- <-. eexists. split; [reflexivity|].
    intros v f out Hv Ho. cbn [pack_field]. rewrite Hv. cbn [as_b]. unfold pack_a.
    rewrite lenN_take_at by lia. replace (off + 4 - off) with 4 by lia.
    apply pack_fixed_room. rewrite lenN_take_at by lia. lia.
  - (* AAAA *)
    cbn [unpack_field] in H. cbv zeta in H. unfold unpack_fixed in H.
    destruct (lenN msg <? off + 16) eqn:E; [discriminate|].
    cbn [bind fst snd] in H. injection H as <- <-. eexists. split; [reflexivity|].
    intros v f out Hv Ho. cbn [pack_field]. rewrite Hv. cbn [as_b]. unfold pack_aaaa.
    rewrite lenN_take_at by lia. replace (off + 16 - off) with 16 by lia.
    apply pack_fixed_room. rewrite lenN_take_at by lia. lia.
Qed.

(* ------------------------------------------------------------------ *)
(* APL: an address that is already masked to its prefix is canonical *)
Lemma tzr_repeat l : exists j, l = repeat 0 j ++ trim_zeros_rev l.
Proof.
  induction l as [|x l [j IH]]; [exists 0%nat; reflexivity|].
  destruct x as [|q].
  - cbn [trim_zeros_rev]. exists (S j). cbn [repeat app]. now rewrite <- IH.
  - exists 0%nat. reflexivity.
Qed.
Lemma trim_repeat l : exists j, l = trim_trailing_zeros l ++ repeat 0 j.
Proof.
  unfold trim_trailing_zeros. destruct (tzr_repeat (rev l)) as [j E]. exists j.
  rewrite <- (rev_involutive l) at 1. rewrite E at 1. rewrite rev_app_distr, rev_repeat. reflexivity.
Qed.
Lemma pad_right_spec a : forall n, (length a <= n)%nat -> pad_right a n = a ++ repeat 0 (n - length a).
Proof.
  induction a as [|x a IH]; intros n H.
  - cbn [length app]. rewrite Nat.sub_0_r. clear H. induction n as [|n IHn]; cbn; [reflexivity|now rewrite IHn].
  - destruct n as [|n]; [cbn in H; lia|]. cbn [pad_right length app]. rewrite IH by (cbn in H; lia). reflexivity.
Qed.
Lemma mask_zero r : mask_bytes r 0 = repeat 0 (length r).
Proof. induction r as [|b r IH]; [reflexivity|]. cbn [mask_bytes length repeat]. rewrite IH. cbn. f_equal. apply N.land_0_r. Qed.

(* the octets of a masked address beyond the prefix are zero *)
Lemma masked_tail ip : forall prefix, mask_bytes ip prefix = ip ->
  skipn (N.to_nat ((prefix + 7) / 8)) ip = repeat 0 (length ip - N.to_nat ((prefix + 7) / 8)).
Proof.
  induction ip as [|b r IH]; intros prefix H; [now rewrite skipn_nil|].
  cbn [mask_bytes] in H. destruct (8 <=? prefix) eqn:E8.
  - injection H as H. specialize (IH _ H).
    replace (N.to_nat ((prefix + 7) / 8)) with (S (N.to_nat ((prefix - 8 + 7) / 8))) by lia.
    cbn [skipn length]. rewrite IH. f_equal.
  - injection H as Hb Hr. rewrite mask_zero in Hr.
    destruct (prefix =? 0) eqn:E0.
    + assert (prefix = 0) by lia. subst prefix. cbn in Hb.
      change (N.to_nat ((0 + 7) / 8)) with 0%nat. cbn [skipn]. rewrite Nat.sub_0_r. cbn [length repeat].
      rewrite Hr. f_equal. rewrite <- Hb. apply N.land_0_r.
    + replace (N.to_nat ((prefix + 7) / 8)) with 1%nat by lia. cbn [skipn length].
      rewrite <- Hr at 1. f_equal. lia.
Qed.

Lemma masked_apl_ok neg prefix ip :
  (lenN ip = 4 \/ lenN ip = 16) -> prefix <= 8 * lenN ip -> mask_bytes ip prefix = ip ->
  apl_ok (neg, prefix, ip).
Proof.
  intros Hlen Hpre Hm. unfold apl_ok. split; [exact Hlen|]. split; [exact Hpre|].
  unfold apl_addr. rewrite Hm. set (n := N.to_nat ((prefix + 7) / 8)).
  assert (Hn : (n <= length ip)%nat) by (unfold n, lenN in *; lia).
  unfold takeN. fold n.
  destruct (trim_repeat (firstn n ip)) as [j Ej].
  set (a := trim_trailing_zeros (firstn n ip)) in *.
  assert (Hal : (length a + j = n)%nat).
  { apply (f_equal (@length N)) in Ej. rewrite app_length, repeat_length, firstn_length in Ej. lia. }
  rewrite pad_right_spec by lia.
  pose proof (masked_tail ip prefix Hm) as Ht. fold n in Ht.
  rewrite <- (firstn_skipn n ip) at 2. rewrite Ht.
  rewrite Ej, <- app_assoc. f_equal. rewrite <- repeat_app. f_equal. lia.
Qed.

Example masked_apl_example :
  apl_ok (true, 20, [10; 1; 16; 0]) /\ mask_bytes [10; 1; 16; 0] 20 = [10; 1; 16; 0].
Proof. split; [apply masked_apl_ok; [left; reflexivity|cbn; lia|reflexivity]|reflexivity]. Qed.
