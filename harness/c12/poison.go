package main

// C12, cross-talk histories that contain every NON-ACCEPTED outcome of the
// accept policy: "... no mixing across requests, connections or recycled
// receive buffers".
//
// Class exercised here: a UDP server receives a history in which accepted
// requests (rich, per-request unique payload, see retain.go) are preceded and
// interleaved by datagrams that are not accepted, in every way the server knows:
// rejected with FORMERR (QDCOUNT/ANCOUNT/NSCOUNT/ARCOUNT over the default
// policy's limits, or by a custom policy), rejected with NOTIMP (other opcodes,
// or by policy), ignored (responses, or by policy), accepted by their header but
// with a body that does not decode (header only, truncated, pointer loop), and
// datagrams shorter than a header (0..11 octets). Every accepted request is held
// in MsgAcceptFunc - its header has been decoded, its body not yet - until the
// serve loop has received the next two datagrams, and the serve loop reads
// datagram k only after datagram k-1 has reached the policy, so whatever the
// non-accepted paths put into the buffer pool is what the following reads get.
//
// Oracles: the handler of request k sees what client k sent (on entry, and
// again after having kept it), client k receives the echo of its own request
// exactly once, rejected datagrams are answered with their own ID and the
// documented rcode, ignored and short ones are not answered, and - observed
// through DecorateReader - no receive buffer is returned by a read while an
// earlier datagram read into it has not yet left MsgAcceptFunc.

import (
	"bytes"
	"encoding/binary"
	"fmt"
	"net"
	"runtime"
	"sync"
	"sync/atomic"
	"time"

	"github.com/miekg/dns"
	. "verif/harness/common"
	"verif/harness/netfake"
)

type poisonKind int

const (
	pkAccept    poisonKind = iota
	pkQd2                  // two questions                       -> FORMERR
	pkCounts               // ANCOUNT 2 / NSCOUNT 2 / ARCOUNT 3   -> FORMERR
	pkOpcode               // UPDATE, STATUS, IQUERY, ...         -> NOTIMP
	pkResponse             // QR=1                                -> ignored
	pkBadBody              // header admitted, body undecodable   -> MsgInvalidFunc, not handled
	pkShort                // fewer than 12 octets                -> dropped by the serve loop
	pkPolicyRej            // valid query, custom policy: MsgReject
	pkPolicyNI             // valid query, custom policy: MsgRejectNotImplemented
	pkPolicyIgn            // valid query, custom policy: MsgIgnore
	pkKinds
)

var poisonNames = []string{"accept", "qdcount2", "counts", "opcode", "response", "bad-body", "short", "policy-reject", "policy-notimp", "policy-ignore"}

type poisonDgram struct {
	kind poisonKind
	wire []byte
	rq   *richRequest // accepted ones
}

// withID returns the request with its ID replaced by id.
func (rq *richRequest) withID(id uint16) *richRequest {
	w := append([]byte(nil), rq.wire...)
	binary.BigEndian.PutUint16(w, id)
	return richFromWire(w, rq.kinds)
}

func mkPoison(r *Rng, k int, kind poisonKind, budget int) poisonDgram {
	id := uint16(k)
	plain := func() *dns.Msg {
		m := new(dns.Msg)
		m.SetQuestion(fmt.Sprintf("n%d.%x.poison.", k, r.Next()&0xffffff), dns.TypeA)
		m.Id = id
		return m
	}
	pack := func(m *dns.Msg) []byte { b, _ := m.Pack(); return b }
	switch kind {
	case pkAccept, pkPolicyRej, pkPolicyNI, pkPolicyIgn:
		rq := mkRich(r, k, 0, budget, true, forcedType(r)).withID(id)
		if rq == nil {
			rq = richFromWire(pack(plain()), nil)
		}
		return poisonDgram{kind, rq.wire, rq}
	case pkQd2:
		m := plain()
		m.Question = append(m.Question, dns.Question{Name: "second." + m.Question[0].Name, Qtype: dns.TypeTXT, Qclass: 1})
		return poisonDgram{kind, pack(m), nil}
	case pkCounts:
		m := plain()
		rr := func(i int) dns.RR {
			return &dns.TXT{Hdr: dns.RR_Header{Name: m.Question[0].Name, Rrtype: dns.TypeTXT, Class: 1}, Txt: []string{fmt.Sprintf("x%d-%d", k, i)}}
		}
		switch r.Intn(3) {
		case 0:
			m.Answer = []dns.RR{rr(0), rr(1)}
		case 1:
			m.Ns = []dns.RR{rr(0), rr(1)}
		default:
			m.Extra = []dns.RR{rr(0), rr(1), rr(2)}
		}
		return poisonDgram{kind, pack(m), nil}
	case pkOpcode:
		m := plain()
		m.Opcode = []int{dns.OpcodeUpdate, dns.OpcodeStatus, dns.OpcodeIQuery, 3, 6, 15}[r.Intn(6)]
		return poisonDgram{kind, pack(m), nil}
	case pkResponse:
		m := plain()
		m.Response = true
		if r.Bool() {
			m.Answer = []dns.RR{&dns.A{Hdr: dns.RR_Header{Name: m.Question[0].Name, Rrtype: dns.TypeA, Class: 1}, A: net.IPv4(192, 0, 2, byte(k))}}
		}
		return poisonDgram{kind, pack(m), nil}
	case pkBadBody:
		b := pack(plain())
		switch r.Intn(4) {
		case 0: // header only, QDCOUNT 1
			b = b[:12]
		case 1: // cut inside the question
			b = b[:13+r.Intn(len(b)-14)]
		case 2: // the question name is a pointer to itself
			b = append(b[:12], 0xc0, 0x0c, 0, 1, 0, 1)
		default: // ARCOUNT 1 without the record
			b[11] = 1
		}
		if rq := richFromAnyWire(b, nil); rq != nil { // the decoder takes it after all: then it is an ordinary accepted request
			return poisonDgram{pkAccept, b, rq}
		}
		return poisonDgram{kind, b, nil}
	default: // pkShort: 0..11 octets, the ID in front when there is room
		n := r.Intn(12)
		b := r.Bytes(n)
		if n >= 2 {
			binary.BigEndian.PutUint16(b, id)
		}
		return poisonDgram{pkShort, b, nil}
	}
}

type poisonIn struct {
	Mode    string   `json:"mode"`
	History string   `json:"history"` // kinds of the datagrams in order of arrival
	Request string   `json:"request_hex,omitempty"`
	What    []string `json:"what"`
}

// flightReader: a buffer is in flight from the moment the read returns it until
// the datagram read into it has left MsgAcceptFunc (its body is decoded only
// after that, so the server still needs the octets).
type flightReader struct {
	dns.Reader
	mu       sync.Mutex
	n        int
	inFlight map[*byte]int
	bufOf    map[int]*byte
	shared   []string
}

func (f *flightReader) ReadPacketConn(conn net.PacketConn, t time.Duration) ([]byte, net.Addr, error) {
	m, a, err := f.Reader.(dns.PacketConnReader).ReadPacketConn(conn, t)
	if err != nil {
		return m, a, err
	}
	f.mu.Lock()
	k := f.n
	f.n++
	if cap(m) > 0 {
		p := &m[:1][0]
		if j, busy := f.inFlight[p]; busy && len(f.shared) < 5 {
			f.shared = append(f.shared, fmt.Sprintf("datagram %d was read into the buffer that still holds datagram %d, which has not left MsgAcceptFunc yet", k, j))
		}
		if len(m) >= 12 {
			f.inFlight[p] = k
			f.bufOf[k] = p
		}
	}
	f.mu.Unlock()
	return m, a, err
}

func (f *flightReader) left(k int) {
	f.mu.Lock()
	if p, ok := f.bufOf[k]; ok && f.inFlight[p] == k {
		delete(f.inFlight, p)
	}
	f.mu.Unlock()
}

// runPoisoned: one server, one history of n datagrams. frac/8 of them are not
// accepted; the first few never are (the pool is poisoned before anything is
// accepted).
func runPoisoned(r *Rng, n int, onep bool, udpSize int, frac int, deco *decoSpec) {
	mode := fmt.Sprintf("onep=%v,udpsize=%d,non-accepted=%d/8", onep, udpSize, frac)
	if deco != nil {
		mode += ",decorators=" + deco.name
	}
	if onep {
		old := runtime.GOMAXPROCS(1)
		defer runtime.GOMAXPROCS(old)
	}
	budget := 440
	if udpSize >= 1232 {
		budget = 1100
	}
	eff := udpSize // the size of the server's receive buffers
	if eff == 0 {
		eff = dns.MinMsgSize
	}
	ds := make([]poisonDgram, n)
	var in [][]byte
	var shortQ []int
	history := ""
	parked := make([]bool, n)
	naccept, nparked := 0, 0
	for k := range ds {
		kind := pkAccept
		if k < 1+r.Intn(3) || r.Intn(8) < frac {
			kind = poisonKind(1 + r.Intn(int(pkKinds)-1))
		}
		if k >= n-3 { // the tail is accepted, so that every held request sees two more datagrams arrive
			kind = pkAccept
		}
		ds[k] = mkPoison(r, k, kind, budget)
		kind = ds[k].kind
		if deco != nil && kind == pkAccept {
			// datagrams of every size up to the receive buffer's, the limit itself and its neighbours most of all
			room := eff - deco.pre - deco.suf
			target := room
			switch r.Intn(6) {
			case 0:
				target = room - 1
			case 1:
				target = room - 1 - r.Intn(40)
			case 2:
				target = 60 + r.Intn(room-60)
			}
			ds[k] = sizedRequest(r, k, target)
			stat[fmt.Sprintf("deco_onwire_%s", sizeClass(len(ds[k].wire)+deco.pre+deco.suf, eff))]++
		}
		if deco != nil {
			in = append(in, deco.wrap(r, ds[k].wire))
		} else {
			in = append(in, ds[k].wire)
		}
		if kind == pkShort {
			shortQ = append(shortQ, k)
		}
		if kind == pkAccept {
			naccept++
			if k < n-8 && r.Intn(5) == 0 {
				parked[k] = true
				nparked++
			}
		}
		if k < 60 {
			history += poisonNames[kind] + " "
		}
	}
	pc := netfake.NewPacketConn(in, nil)
	reached := make([]chan struct{}, n)
	for i := range reached {
		reached[i] = make(chan struct{})
	}
	var rmu sync.Mutex
	reach := func(k int) {
		rmu.Lock()
		select {
		case <-reached[k]:
		default:
			close(reached[k])
		}
		rmu.Unlock()
	}
	var infra atomic.Bool
	pc.Hold = func(k int) {
		if k >= 1 && !netfake.WaitChan(reached[k-1], 10*time.Second) {
			infra.Store(true)
		}
		// let the requests whose two further datagrams have arrived go on (decode, hand the
		// buffer back, run the handler) before the next read asks the pool for a buffer; on one
		// P the newest goroutine and this loop would otherwise hand the processor to each other
		if onep {
			for i := 0; i < 8; i++ {
				runtime.Gosched()
			}
		} else {
			time.Sleep(100 * time.Microsecond)
		}
	}
	fr := &flightReader{inFlight: map[*byte]int{}, bufOf: map[int]*byte{}}
	x := &badList{}
	release := make(chan struct{})
	var finished atomic.Int64
	var handledMu sync.Mutex
	handled := make([]int, n)
	accept := func(dh dns.Header) dns.MsgAcceptAction {
		k := int(dh.Id)
		if k >= n {
			x.add(nil, fmt.Sprintf("the accept policy was asked about ID %d, which no client used", k))
			return dns.MsgIgnore
		}
		reach(k)
		defer fr.left(k)
		act := dns.DefaultMsgAcceptFunc(dh)
		switch ds[k].kind {
		case pkAccept:
			if deco != nil {
				act = dns.MsgAccept // sized requests carry a padding record more than the default policy admits
			}
		case pkPolicyRej:
			act = dns.MsgReject
		case pkPolicyNI:
			act = dns.MsgRejectNotImplemented
		case pkPolicyIgn:
			act = dns.MsgIgnore
		}
		if act == dns.MsgAccept {
			// header decoded, body not yet: stay here until two more datagrams have been received
			want := k + 3
			if want > n {
				want = n
			}
			for t0 := time.Now(); pc.Delivered() < want; {
				if time.Since(t0) > 10*time.Second {
					infra.Store(true)
					break
				}
				if onep {
					runtime.Gosched()
				} else {
					time.Sleep(50 * time.Microsecond)
				}
			}
		}
		return act
	}
	invalid := func(m []byte, err error) {
		if len(m) < 12 { // dropped by the serve loop itself, in arrival order
			rmu.Lock()
			k := -1
			if len(shortQ) > 0 {
				k, shortQ = shortQ[0], shortQ[1:]
			}
			rmu.Unlock()
			if k >= 0 {
				reach(k)
			}
		}
	}
	h := func(w dns.ResponseWriter, req *dns.Msg) {
		defer finished.Add(1)
		a, ok := w.RemoteAddr().(netfake.Addr)
		if !ok || a.N < 0 || a.N >= n {
			x.add(nil, fmt.Sprintf("handler called for unknown peer %v", w.RemoteAddr()))
			return
		}
		k := a.N
		handledMu.Lock()
		handled[k]++
		handledMu.Unlock()
		if ds[k].kind != pkAccept {
			x.add(nil, fmt.Sprintf("datagram %d (%s) reached a handler; it saw ID %d, question %v", k, poisonNames[ds[k].kind], req.Id, req.Question))
			return
		}
		if d := msgDiff(ds[k].rq.ref, req); d != "" {
			x.add(ds[k].rq, fmt.Sprintf("request %d (ID %d) on entry of its handler, which was given ID %d: %s", k, k, req.Id, d))
		}
		if parked[k] {
			select {
			case <-release:
			case <-time.After(2 * infraWait):
				infra.Store(true)
			}
			if d := msgDiff(ds[k].rq.ref, req); d != "" {
				x.add(ds[k].rq, fmt.Sprintf("request %d changed while its handler held it: %s", k, d))
			}
		}
		w.WriteMsg(echoReply(req))
	}
	srv := &dns.Server{PacketConn: pc, Handler: dns.HandlerFunc(h), UDPSize: udpSize, MsgAcceptFunc: accept, MsgInvalidFunc: invalid,
		DecorateReader: func(in dns.Reader) dns.Reader { fr.Reader = in; return fr }}
	if deco != nil {
		// the buffer oracle observes what the server is given, i.e. it sits outside the decorator
		srv.DecorateReader = func(in dns.Reader) dns.Reader { fr.Reader = &decoReader{Reader: in, spec: deco, eff: eff}; return fr }
		if deco.writer != "none" {
			srv.DecorateWriter = func(in dns.Writer) dns.Writer { return &decoWriter{in, deco} }
		}
	}
	done := make(chan error, 1)
	go func() { done <- srv.ActivateAndServe() }()
	ok := netfake.WaitChan(pc.Drained, 2*infraWait)
	for t0 := time.Now(); ok && finished.Load() < int64(naccept-nparked) && time.Since(t0) < 2*time.Second; {
		time.Sleep(time.Millisecond) // a lost request is reported below, not waited for for ever
	}
	close(release)
	sd := make(chan struct{})
	go func() { srv.Shutdown(); close(sd) }()
	if !netfake.WaitChan(sd, 3*infraWait) {
		stat["infra_timeout"]++
		return
	}
	<-done
	if !ok || infra.Load() {
		stat["infra_timeout"]++
		return
	}
	// the clients' side
	replies := make([][][]byte, n)
	for _, w := range pc.Writes() {
		k := w.To.(netfake.Addr).N
		replies[k] = append(replies[k], w.Data)
	}
	if deco != nil {
		for k := range replies {
			var why string
			if replies[k], why = deco.undo(replies[k]); why != "" {
				x.add(ds[k].rq, fmt.Sprintf("client %d: %s", k, why))
			}
		}
	}
	for k, d := range ds {
		rs := replies[k]
		desc := fmt.Sprintf("client %d (%s)", k, poisonNames[d.kind])
		wantRcode := -1
		switch d.kind {
		case pkAccept:
			if handled[k] != 1 {
				x.add(d.rq, fmt.Sprintf("%s: its request reached a handler %d times", desc, handled[k]))
			}
			if len(rs) != 1 {
				x.add(d.rq, fmt.Sprintf("%s received %d replies", desc, len(rs)))
			} else if !bytes.Equal(rs[0], d.rq.reply) {
				var rep, want dns.Msg
				why := "reply does not decode"
				if rep.Unpack(rs[0]) == nil {
					want.Unpack(d.rq.reply)
					why = msgDiff(&want, &rep)
				}
				x.add(d.rq, fmt.Sprintf("%s received a reply that does not echo its own request: %s", desc, why))
			}
			continue
		case pkResponse, pkShort, pkPolicyIgn:
			if len(rs) != 0 {
				x.add(nil, fmt.Sprintf("%s: an ignored datagram was answered (%d replies)", desc, len(rs)))
			}
			continue
		case pkQd2, pkCounts, pkPolicyRej:
			wantRcode = dns.RcodeFormatError
		case pkOpcode, pkPolicyNI:
			wantRcode = dns.RcodeNotImplemented
		}
		if len(rs) > 1 || (wantRcode >= 0 && len(rs) != 1) {
			x.add(nil, fmt.Sprintf("%s received %d replies", desc, len(rs)))
			continue
		}
		for _, b := range rs {
			var rep dns.Msg
			if err := rep.Unpack(b); err != nil || rep.Id != uint16(k) || !rep.Response {
				x.add(nil, fmt.Sprintf("%s: the rejection it received is not a response with its own ID (%x)", desc, b[:min(len(b), 12)]))
			} else if wantRcode >= 0 && rep.Rcode != wantRcode {
				x.add(nil, fmt.Sprintf("%s: rejected with rcode %d, documented is %d", desc, rep.Rcode, wantRcode))
			}
		}
	}
	if deco != nil {
		stat["deco_datagrams_checked"] += n
		stat["deco_"+deco.name+"_checked"] += n
	} else {
		stat["poison_datagrams_checked"] += n
		stat["poison_accepted"] += naccept
		for _, d := range ds {
			stat["poison_kind_"+poisonNames[d.kind]]++
		}
	}
	fr.mu.Lock()
	shared := fr.shared
	distinct := map[*byte]bool{}
	for _, p := range fr.bufOf {
		distinct[p] = true
	}
	stat["poison_buffers_distinct"] += len(distinct)
	fr.mu.Unlock()
	if len(shared) > 0 {
		Viol("C12/Pool/buffer-shared-in-flight", "a receive buffer was handed to a read while an earlier datagram in it was still waiting to be decoded", poisonIn{mode, history, "", shared})
	}
	if len(x.bad) > 0 && deco != nil {
		Viol("C12/Crosstalk/udp-decorated", "with a decorated reader/writer a datagram of at most UDPSize octets did not reach its handler intact, or a client did not receive its own reply", poisonIn{mode, history, x.wire, x.bad})
	} else if len(x.bad) > 0 {
		Viol("C12/Crosstalk/udp-after-non-accepted", "after rejected / ignored / undecodable / short datagrams a handler did not see its client's request, or a client did not receive its own reply", poisonIn{mode, history, x.wire, x.bad})
	}
}

func runPoison(r *Rng, tier string) {
	k := 1
	if tier == "thorough" {
		k = 8
	}
	for i := 0; i < 3*k; i++ {
		// one P: what a non-accepted datagram leaves in the pool is what the next reads get
		runPoisoned(r, 150, true, []int{0, 512, 1232, 4096}[r.Intn(4)], 1+r.Intn(4), nil)
		// all Ps (sync.Pool is per P: several rounds, more traffic)
		runPoisoned(r, 250, false, []int{0, 4096}[r.Intn(2)], 1+r.Intn(4), nil)
	}
}

// ---------------------------------------------------------------- decorated readers and writers

// decoSpec: what stands between the wire and the server. On the wire every
// datagram carries pre octets in front of and suf octets behind the DNS message
// (a proxy / routing header, a trailer); the decorated reader removes them and
// hands the server
//
//	"sub"      the sub-slice of the buffer it got from the default reader
//	"sub3"     the same with its capacity cut to its length
//	"copy"     a copy in a buffer of its own
//	"copycap"  a copy in a buffer of its own whose capacity happens to be UDPSize
//
// The decorated writer sends the reply unchanged ("none"), with a header in
// front ("prefix"), with header and trailer ("enlarge"), or as two datagrams
// ("split").
type decoSpec struct {
	name     string
	pre, suf int
	reader   string
	writer   string
}

var decoHeader, decoTrailer = []byte("PROXYv9"), []byte{0xde, 0xc0}

func (d *decoSpec) wrap(r *Rng, wire []byte) []byte {
	b := append(r.Bytes(d.pre), wire...)
	return append(b, r.Bytes(d.suf)...)
}

type decoReader struct {
	dns.Reader
	spec *decoSpec
	eff  int
}

func (d *decoReader) ReadPacketConn(conn net.PacketConn, t time.Duration) ([]byte, net.Addr, error) {
	m, a, err := d.Reader.(dns.PacketConnReader).ReadPacketConn(conn, t)
	if err != nil {
		return m, a, err
	}
	body := m[:0]
	if len(m) >= d.spec.pre+d.spec.suf {
		body = m[d.spec.pre : len(m)-d.spec.suf]
	}
	switch d.spec.reader {
	case "sub3":
		body = body[:len(body):len(body)]
	case "copy":
		body = append([]byte(nil), body...)
	case "copycap":
		c := make([]byte, len(body), d.eff)
		copy(c, body)
		body = c
	}
	return body, a, nil
}

type decoWriter struct {
	dns.Writer
	spec *decoSpec
}

func (d *decoWriter) Write(m []byte) (int, error) {
	switch d.spec.writer {
	case "prefix":
		return d.Writer.Write(append(append([]byte(nil), decoHeader...), m...))
	case "enlarge":
		return d.Writer.Write(append(append(append([]byte(nil), decoHeader...), m...), decoTrailer...))
	case "split":
		h := len(m) / 2
		n1, err := d.Writer.Write(m[:h])
		if err != nil {
			return n1, err
		}
		n2, err := d.Writer.Write(m[h:])
		return n1 + n2, err
	}
	return d.Writer.Write(m)
}

// undo maps the datagrams one client received back to the replies written.
func (d *decoSpec) undo(ws [][]byte) ([][]byte, string) {
	var out [][]byte
	switch d.writer {
	case "prefix", "enlarge":
		for _, w := range ws {
			t := 0
			if d.writer == "enlarge" {
				t = len(decoTrailer)
			}
			if len(w) < len(decoHeader)+t || !bytes.HasPrefix(w, decoHeader) || (t > 0 && !bytes.HasSuffix(w, decoTrailer)) {
				return nil, "received a datagram that is not what the decorated writer wrote"
			}
			out = append(out, w[len(decoHeader):len(w)-t])
		}
		return out, ""
	case "split":
		if len(ws)%2 != 0 {
			return nil, fmt.Sprintf("received %d datagrams from a writer that sends every reply in two", len(ws))
		}
		for i := 0; i < len(ws); i += 2 {
			out = append(out, append(append([]byte(nil), ws[i]...), ws[i+1]...))
		}
		return out, ""
	}
	return ws, ""
}

func sizeClass(n, eff int) string {
	switch {
	case n == eff:
		return "eq_udpsize"
	case n == eff-1:
		return "udpsize_minus_1"
	case n > eff:
		return "ABOVE_udpsize"
	case n >= eff-64:
		return "near_udpsize"
	}
	return "below"
}

// sizedRequest: a rich request with ID k whose packed size is exactly target
// (a NULL record with request-unique data at the end of the additional section
// takes up the difference).
func sizedRequest(r *Rng, k, target int) poisonDgram {
	var m dns.Msg
	for attempt := 0; ; attempt++ {
		rq := mkRich(r, k, 0, target*2/3-40, false, forcedType(r))
		if attempt >= 6 {
			q := new(dns.Msg)
			q.SetQuestion(fmt.Sprintf("c%d.sized.rt.", k), dns.TypeA)
			w, _ := q.Pack()
			rq = richFromWire(w, nil)
		}
		m = dns.Msg{}
		if m.Unpack(append([]byte(nil), rq.wire...)) != nil {
			continue
		}
		if m.Len() <= target-11 || attempt >= 6 {
			break
		}
	}
	m.Id = uint16(k)
	if need := target - m.Len() - 11; need >= 0 {
		tag := r.Bytes(8)
		m.Extra = append(m.Extra, &dns.NULL{Hdr: dns.RR_Header{Name: ".", Rrtype: dns.TypeNULL, Class: 1}, Data: string(tagBytes(tag, 77, need))})
	}
	w, err := m.Pack()
	rq := richFromAnyWire(w, nil)
	if err != nil || rq == nil || len(w) > target {
		stat["deco_sized_fallback"]++
		q := new(dns.Msg)
		q.SetQuestion(fmt.Sprintf("c%d.sized-fallback.rt.", k), dns.TypeA)
		q.Id = uint16(k)
		w, _ = q.Pack()
		rq = richFromWire(w, nil)
	}
	return poisonDgram{pkAccept, rq.wire, rq}
}

var decoSpecs = []decoSpec{
	{"strip-prefix16", 16, 0, "sub", "none"},
	{"strip-prefix1", 1, 0, "sub", "none"},
	{"strip-prefix33-suffix5", 33, 5, "sub", "prefix"},
	{"strip-suffix9", 0, 9, "sub", "none"},
	{"strip-prefix8-cap-cut", 8, 0, "sub3", "enlarge"},
	{"strip-suffix4-cap-cut", 0, 4, "sub3", "none"},
	{"copy-prefix12", 12, 0, "copy", "split"},
	{"copy-full-capacity", 7, 3, "copycap", "none"},
	{"reader-plain-writer-prefix", 0, 0, "sub", "prefix"},
	{"reader-plain-writer-split", 0, 0, "sub", "split"},
	{"reader-plain-writer-enlarge", 0, 0, "sub3", "enlarge"},
}

func runDecorated(r *Rng, tier string) {
	k := 1
	if tier == "thorough" {
		k = 6
	}
	for round := 0; round < k; round++ {
		for i := range decoSpecs {
			d := &decoSpecs[i]
			udp := []int{0, 512, 1232, 4096}[(i+round)%4]
			// one P: the same few buffers go round and round, any drift accumulates quickly
			runPoisoned(r, 140, true, udp, r.Intn(3), d)
			if (i+round)%2 == 0 { // all Ps, handlers concurrent
				runPoisoned(r, 200, false, []int{0, 1232}[r.Intn(2)], r.Intn(2), d)
			}
		}
	}
}
