package main

import (
	"bytes"
	"crypto/ed25519"
	"encoding/base64"
	"fmt"

	"github.com/miekg/dns"
	. "verif/harness/common"
)

// Round-4 strengthening of C10.
//
// (a) namePairCase: every name comparison RRSIG.Verify makes — DNSKEY owner against the signer name, RRSIG owner
//     against the RRset owner, the members of the RRset among themselves, the signer against the tail of the
//     owner — on pairs of names that differ in exactly ONE octet: all 256 octet values against their 0x20-flipped
//     twin, all ordered pairs among the neighbours of the letter ranges (@ A Z [ ` a z {), random single-bit flips
//     and random pairs. Two names are the same name iff the two octets are the same ASCII letter up to case
//     (RFC 4343); everything else is another zone / another owner.
// (b) reuseCase: RRSIG, DNSKEY and RRset VALUES used for several calls. The same *RRSIG is handed to Sign for
//     RRsets with other owners, label counts (growing and shrinking, wildcards, the apex, the root), types, classes
//     and TTLs; every call is compared with a call on a freshly built value and with RFC 4034 3.1; Sign and
//     Verify must leave the RRset, the key and (Verify) the RRSIG untouched.

type octPair struct{ c, d byte }

func ciEq(c, d byte) bool {
	return lowerASCII([]byte{c})[0] == lowerASCII([]byte{d})[0]
}

var edgeOctets = []byte{'@', 'A', 'Z', '[', '`', 'a', 'z', '{'}

func nearLetters(c byte) bool {
	return (c >= 'A'-1 && c <= 'Z'+1) || (c >= 'a'-1 && c <= 'z'+1)
}

func octPairs(r *Rng, extra int) []octPair {
	var ps []octPair
	seen := map[octPair]bool{}
	add := func(c, d byte) {
		p := octPair{c, d}
		if c != d && !seen[p] {
			seen[p] = true
			ps = append(ps, p)
		}
	}
	for c := 0; c < 256; c++ {
		add(byte(c), byte(c)^0x20)
	}
	for _, c := range edgeOctets {
		for _, d := range edgeOctets {
			add(c, d)
		}
	}
	for i := 0; i < extra; i++ {
		c := byte(r.Next())
		add(c, c^byte(1<<r.Intn(8)))
		add(byte(r.Next()), byte(r.Next()))
	}
	return ps
}

var alnum = []byte("abcxyzABCXYZ0189-_")

func alnumName(r *Rng, minL, maxL int) [][]byte {
	n := minL + r.Intn(maxL-minL+1)
	var ls [][]byte
	for i := 0; i < n; i++ {
		l := make([]byte, 2+r.Intn(4))
		for j := range l {
			l[j] = alnum[r.Intn(len(alnum))]
		}
		ls = append(ls, l)
	}
	return ls
}

func putOctet(ls [][]byte, li, oi int, c byte) [][]byte {
	o := make([][]byte, len(ls))
	for i, l := range ls {
		o[i] = append([]byte{}, l...)
	}
	o[li][oi] = c
	return o
}

func cat(a, b [][]byte) [][]byte {
	o := append([][]byte{}, a...)
	return append(o, b...)
}

// the same key material published at another owner / in another class (neither is part of the key tag)
func (kp *keyPair) at(owner [][]byte, class uint16) *keyPair {
	k := dns.Copy(kp.k).(*dns.DNSKEY)
	k.Hdr.Name = showName(owner)
	k.Hdr.Class = class
	return &keyPair{k: k, priv: kp.priv, owner: owner, pub: kp.pub}
}

// an RRSIG made by the harness itself with crypto/ed25519 over the reference octets
func edSign(kp *keyPair, sf *sigF, rs []*rec) (*dns.RRSIG, bool) {
	ek, ok := kp.priv.(ed25519.PrivateKey)
	if !ok || !validWire(sf.signer) {
		return nil, false
	}
	body, ok := refCanon(sf, rs, rfcLower)
	if !ok {
		return nil, false
	}
	g := sf.rr()
	g.Signature = base64.StdEncoding.EncodeToString(ed25519.Sign(ek, append(refSigPrefix(sf), body...)))
	return g, true
}

func distinctRdata(rs []*rec) bool {
	for i := range rs {
		for j := 0; j < i; j++ {
			if bytes.Equal(rs[i].rdata(true), rs[j].rdata(true)) {
				return false
			}
		}
	}
	return true
}

func namePairCase(r *Rng, ed *keyPair, byTyp map[uint16]tdef, p octPair, idx int, raw bool) {
	rawMode = raw
	defer func() { rawMode = false }()
	eq := ciEq(p.c, p.d)
	emit := nearLetters(p.c) || nearLetters(p.d) || idx%8 == 0
	if raw {
		emit = idx%8 == 0
	}
	td := byTyp[[]uint16{dns.TypeA, dns.TypeNS, dns.TypeMX, dns.TypeTXT, dns.TypeSRV, dns.TypeAAAA}[idx%6]]
	nm := func() [][]byte { return alnumName(r, 1, 3) }
	what := fmt.Sprintf("octet 0x%02x against 0x%02x", p.c, p.d)
	verdict := func(name, okKey, badKey string, kp *keyPair, g *dns.RRSIG, sf *sigF, rs []*rec) {
		st["namepair_checked"]++
		got := verifyCase(kp, kp.k, kp.owner, g, sf, rs, emit)
		switch {
		case eq && got != "ok:":
			Viol(okKey, "Verify("+got+") although "+name+" differ only in the case of an ASCII letter: "+what, mkIn(kp, g, sf, rs, name))
		case !eq && (got == "ok:" || got == "panic"):
			Viol(badKey, "Verify("+got+") although "+name+" differ in one octet that is not a letter-case change: "+what, mkIn(kp, g, sf, rs, name))
		}
	}

	// ---- the zone name: DNSKEY owner against the RRSIG signer; signer against the tail of the owner
	{
		base := alnumName(r, 1, 3)
		li := r.Intn(len(base))
		oi := r.Intn(len(base[li]))
		zc, zd := putOctet(base, li, oi, p.c), putOctet(base, li, oi, p.d)
		owner := cat(alnumName(r, 0, 2), zc)
		n := 1 + r.Intn(2)
		var rs []*rec
		for i := 0; i < n; i++ {
			rs = append(rs, genRec(r, td, owner, dns.ClassINET, 600, nm))
		}
		kc, kd := ed.at(zc, dns.ClassINET), ed.at(zd, dns.ClassINET)
		g := &dns.RRSIG{Hdr: dns.RR_Header{Ttl: 600}, Algorithm: 15, Expiration: uint32(r.Next()), Inception: uint32(r.Next()),
			KeyTag: kc.k.KeyTag(), SignerName: showName(zc)}
		if err := g.Sign(ed.priv, rrsOf(rs)); err != nil {
			Viol("C10/Sign/error", "Sign failed: "+err.Error(), mkIn(kc, g, nil, rs, what))
		} else {
			sf := sigFOf(g, owner, zc)
			if got := verifyCase(kc, kc.k, zc, g, sf, rs, false); got != "ok:" {
				Viol("C10/Verify/sign-output-rejected", "Verify("+got+") on the output of Sign", mkIn(kc, g, sf, rs, what))
			} else {
				// the key of the zone whose name has the other octet
				verdict("DNSKEY owner and signer name", "C10/Verify/invariance-key-owner-case", "C10/Verify/accepts-key-of-other-zone", kd, g, sf, rs)
			}
			// a signature validly made by that other zone's key, naming itself as the signer, over this RRset:
			// the signer is not a zone the owner lies in. The property text is silent on the enclosure test
			// (RFC 4035 5.3.1), so only the model decides for names that are not the same; the same name in
			// another spelling must be accepted.
			if !raw {
				s2 := *sf
				s2.signer = zd
				if g2, ok := edSign(kd, &s2, rs); ok {
					st["namepair_checked"]++
					got := verifyCase(kd, kd.k, zd, g2, &s2, rs, emit)
					if eq && got != "ok:" {
						Viol("C10/Verify/invariance-signer-case", "Verify("+got+") although signer and zone part of the owner differ only in letter case: "+what, mkIn(kd, g2, &s2, rs, "signer"))
					}
					if !eq {
						st["signer_not_enclosing_owner_"+got]++
					}
				}
			}
		}
	}

	// ---- the owner name: RRSIG owner against RRset owner, RRset members among themselves
	{
		zone := ed.owner
		base := alnumName(r, 1, 3)
		li := r.Intn(len(base))
		oi := r.Intn(len(base[li]))
		oc, od := cat(putOctet(base, li, oi, p.c), zone), cat(putOctet(base, li, oi, p.d), zone)
		var rs []*rec
		for len(rs) < 3 {
			rs = append(rs, genRec(r, td, oc, dns.ClassINET, 900, nm))
		}
		if !distinctRdata(rs) {
			return
		}
		g := &dns.RRSIG{Hdr: dns.RR_Header{Ttl: 900}, Algorithm: 15, Expiration: uint32(r.Next()), Inception: uint32(r.Next()),
			KeyTag: ed.k.KeyTag(), SignerName: showName(zone)}
		if err := g.Sign(ed.priv, rrsOf(rs)); err != nil {
			Viol("C10/Sign/error", "Sign failed: "+err.Error(), mkIn(ed, g, nil, rs, what))
			return
		}
		sf := sigFOf(g, oc, zone)
		if got := verifyCase(ed, ed.k, ed.owner, g, sf, rs, false); got != "ok:" {
			Viol("C10/Verify/sign-output-rejected", "Verify("+got+") on the output of Sign", mkIn(ed, g, sf, rs, what))
			return
		}
		var rsd []*rec
		for _, x := range rs {
			rsd = append(rsd, x.variant(r, od, x.ttl, false))
		}
		gd := dns.Copy(g).(*dns.RRSIG)
		gd.Hdr.Name = showName(od)
		sd := *sf
		sd.owner = od
		// the RRSIG is attached to the other name (its owner is not part of the signed octets)
		verdict("RRSIG owner and RRset owner", "C10/Verify/invariance-owner-case", "C10/Verify/accepts-rrsig-of-other-owner", ed, gd, &sd, rs)
		// the RRset is at the other name
		verdict("RRset owner and RRSIG owner", "C10/Verify/invariance-owner-case", "C10/Verify/accepts-altered-owner", ed, g, sf, rsd)
		// both
		verdict("signed owner and presented owner", "C10/Verify/invariance-owner-case", "C10/Verify/accepts-altered-owner", ed, gd, &sd, rsd)
		// one record of the set is at the other name: records with two owners are not an RRset. The signature
		// is a valid one (made here, and by Sign, which does not look) over exactly those records.
		j := idx % 3
		mixed := cloneRecs(rs)
		mixed[j] = rsd[j]
		sm := *sf
		sm.owner = mixed[0].owner
		for k, mk := range []func() (*dns.RRSIG, bool){
			func() (*dns.RRSIG, bool) { return edSign(ed, &sm, mixed) },
			func() (*dns.RRSIG, bool) {
				g3 := &dns.RRSIG{Hdr: dns.RR_Header{Ttl: 900}, Algorithm: 15, Expiration: g.Expiration, Inception: g.Inception, KeyTag: g.KeyTag, SignerName: g.SignerName}
				return g3, g3.Sign(ed.priv, rrsOf(mixed)) == nil
			}} {
			gm, ok := mk()
			if !ok {
				continue
			}
			st["namepair_checked"]++
			got := verifyCase(ed, ed.k, ed.owner, gm, sigFOf(gm, sm.owner, zone), mixed, emit && k == 0)
			if !eq && (got == "ok:" || got == "panic") {
				Viol("C10/Verify/accepts-records-of-two-owners", "Verify("+got+") on records whose owners differ in one octet that is not a letter-case change: "+what, mkIn(ed, gm, &sm, mixed, "rrset members"))
			}
			if eq {
				st["mixed_case_owner_sets_onepair_"+got]++ // IsRRset compares strings: noted in docs/C10.md
			}
		}
	}
}

// ---------------------------------------------------------------- re-used values
func sigState(g *dns.RRSIG) string {
	return fmt.Sprintf("name=%q type=%d class=%d covered=%d alg=%d labels=%d origttl=%d exp=%d incep=%d tag=%d signer=%q",
		g.Hdr.Name, g.Hdr.Rrtype, g.Hdr.Class, g.TypeCovered, g.Algorithm, g.Labels, g.OrigTtl, g.Expiration, g.Inception, g.KeyTag, g.SignerName)
}

func rrsState(rs []dns.RR) string {
	var b bytes.Buffer
	for _, x := range rs {
		w := make([]byte, dns.Len(x)+16)
		n, err := dns.PackRR(x, w, 0, nil, false)
		fmt.Fprintf(&b, "%s|%x|%v\n", x.String(), w[:n], err)
	}
	return b.String()
}

func deterministic(alg uint8) bool { return alg == 5 || alg == 7 || alg == 8 || alg == 10 || alg == 15 }

func reuseCase(r *Rng, kp *keyPair, idx int) {
	zone := kp.owner
	signer := flipCase(r, zone)
	mode := idx % 3 // 0: the value is handed on untouched; 1: OrigTtl cleared before each call; 2: re-read from its text before each call
	g := &dns.RRSIG{Algorithm: kp.k.Algorithm, Expiration: uint32(r.Next()), Inception: uint32(r.Next()), KeyTag: kp.k.KeyTag(), SignerName: showName(signer)}
	keys := map[uint16]*keyPair{dns.ClassINET: kp.at(zone, dns.ClassINET), dns.ClassCHAOS: kp.at(zone, dns.ClassCHAOS)}
	keyText := map[uint16]string{dns.ClassINET: keys[dns.ClassINET].k.String(), dns.ClassCHAOS: keys[dns.ClassCHAOS].k.String()}
	// label counts of the sub-zone part: a permutation, so that they grow and shrink along the sequence
	counts := []int{0, 1, 2, 3, 4}
	for i := len(counts) - 1; i > 0; i-- {
		j := r.Intn(i + 1)
		counts[i], counts[j] = counts[j], counts[i]
	}
	nsteps := 3 + r.Intn(3)
	var prevOwner [][]byte
	var prevRS []*rec
	for step := 0; step < nsteps; step++ {
		sub := alnumName(r, counts[step], counts[step])
		wild := r.Intn(4) == 0
		if wild {
			sub = cat([][]byte{[]byte("*")}, sub)
		}
		owner := cat(sub, flipCase(r, zone))
		if len(owner) == 1 && wild {
			owner = cat([][]byte{[]byte("*"), []byte("w")}, owner[1:]) // "*." alone is the listed root-wildcard finding
		}
		td := tdefs[r.Intn(len(tdefs))]
		class := uint16(dns.ClassINET)
		if r.Intn(4) == 0 {
			class = dns.ClassCHAOS
		}
		ttl := uint32(1 + r.Intn(100000))
		nm := func() [][]byte { return alnumName(r, 0, 3) }
		var rs []*rec
		for i, n := 0, 1+r.Intn(3); i < n; i++ {
			rs = append(rs, genRec(r, td, owner, class, ttl, nm))
		}
		rrs := rrsOf(rs)
		kk := keys[class]
		switch {
		case mode == 1:
			g.OrigTtl = 0
		case mode == 2 && step > 0:
			rr, err := dns.NewRR(g.String())
			if err != nil {
				Viol("C10/Sign/rrsig-text-not-readable", "the RRSIG made by Sign cannot be read back: "+err.Error(), mkIn(kk, g, nil, prevRS, ""))
				return
			}
			g = rr.(*dns.RRSIG)
		}
		pre := dns.Copy(g).(*dns.RRSIG)
		// what a caller who builds a new value for every RRset passes: the documented pre-set fields only
		fresh := &dns.RRSIG{Hdr: dns.RR_Header{Ttl: pre.Hdr.Ttl}, Algorithm: pre.Algorithm, Expiration: pre.Expiration, Inception: pre.Inception,
			KeyTag: pre.KeyTag, SignerName: pre.SignerName, OrigTtl: pre.OrigTtl}
		before := rrsState(rrs)
		e1 := Protect(func() string { return errClass(g.Sign(kp.priv, rrs)) })
		e2 := Protect(func() string { return errClass(fresh.Sign(kp.priv, rrs)) })
		st["reuse_sign_checked"]++
		what := fmt.Sprintf("call %d on the same *RRSIG (mode %d); before the call: %s", step+1, mode, sigState(pre))
		sf := sigFOf(g, owner, signer)
		in := mkIn(kk, g, sf, rs, what)
		if rrsState(rrs) != before {
			Viol("C10/Sign/modifies-rrset", "Sign changed the records it was given", in)
		}
		if e1 != e2 || sigState(g) != sigState(fresh) || (deterministic(g.Algorithm) && g.Signature != fresh.Signature) {
			Viol("C10/Sign/reused-rrsig-differs-from-fresh", fmt.Sprintf("Sign on a re-used RRSIG value gives (%s) %s, on a new value with the same Inception, Expiration, KeyTag, SignerName, Algorithm and OrigTtl (%s) %s",
				e1, sigState(g), e2, sigState(fresh)), in)
		}
		if e1 != "ok:" {
			Viol("C10/Sign/error", "Sign("+e1+") on a re-used RRSIG value", in)
			return
		}
		// RFC 4034 3.1 / the doc comment of Sign: everything but OrigTtl (kept when non-zero) comes from the RRset
		wantTTL := pre.OrigTtl
		if wantTTL == 0 {
			wantTTL = ttl
		}
		if g.Hdr.Name != showName(owner) || g.Hdr.Rrtype != dns.TypeRRSIG || g.Hdr.Class != class || g.TypeCovered != td.typ || g.OrigTtl != wantTTL ||
			g.Algorithm != pre.Algorithm || g.Expiration != pre.Expiration || g.Inception != pre.Inception || g.KeyTag != pre.KeyTag || g.SignerName != pre.SignerName {
			Viol("C10/Sign/fields", fmt.Sprintf("owner / class / type covered / original TTL not taken from the RRset (want owner %q class %d covered %d origttl %d), or a caller's field changed", showName(owner), class, td.typ, wantTTL), in)
		}
		if g.Labels != refLabels(owner) {
			Viol("C10/Sign/labels", fmt.Sprintf("Labels=%d, RFC 4034 3.1.3 gives %d for %q", g.Labels, refLabels(owner), showName(owner)), in)
		}
		{
			s0 := sigFOf(pre, prevOwner, signer)
			Emit("signfill", []string{s0.arg(), rrsetArg(rs)}, "ok:"+sf.arg())
		}
		// the signature is over the RFC octets of THIS RRset with the RFC label count
		sfR := *sf
		sfR.labels, sfR.covered, sfR.class, sfR.origttl = refLabels(owner), td.typ, class, wantTTL
		sb, _ := base64.StdEncoding.DecodeString(g.Signature)
		if body, ok := refCanon(&sfR, rs, rfcLower); !ok || !cryptoVerify(g.Algorithm, kp.pub, append(refSigPrefix(&sfR), body...), sb) {
			Viol("C10/Sign/signature-not-over-rfc-octets", "re-used RRSIG value: the signature does not verify (crypto/* called directly) over the RFC 4034 3.1.8.1 octets of the RRset just signed", in)
		}
		// Verify accepts it, twice, and changes none of its arguments
		gText, rText := sigState(g)+g.Signature, rrsState(rrs)
		for rep := 0; rep < 2; rep++ {
			if got := verifyCase(kk, kk.k, zone, g, sf, rs, rep == 0); got != "ok:" {
				Viol("C10/Verify/sign-output-rejected", fmt.Sprintf("Verify(%s) on the output of Sign on a re-used RRSIG value (Verify call %d)", got, rep+1), in)
				break
			}
		}
		// what it must not verify: the RRset moved to a sibling / a deeper name (RRset and RRSIG owner together),
		// the RRset of the previous call
		if i := len(owner) - len(zone) - 1; i >= 0 && string(owner[i]) != "*" {
			o2 := putOctet(owner, i, 0, owner[i][0])
			o2[i] = append([]byte("q"), o2[i]...)
			o3 := cat([][]byte{[]byte("x"), []byte("y")}, o2)
			for _, o := range [][][]byte{o2, o3} {
				var rs2 []*rec
				for _, x := range rs {
					rs2 = append(rs2, x.variant(r, o, x.ttl, false))
				}
				g2 := dns.Copy(g).(*dns.RRSIG)
				g2.Hdr.Name = showName(o)
				s2 := *sf
				s2.owner = o
				st["reuse_alteration_checked"]++
				if got := verifyCase(kk, kk.k, zone, g2, &s2, rs2, false); got == "ok:" || got == "panic" {
					Viol("C10/Verify/accepts-altered-owner", "Verify("+got+") after moving the RRset and its RRSIG (made on a re-used value) to another name", mkIn(kk, g2, &s2, rs2, what))
				}
			}
		}
		if prevRS != nil {
			st["reuse_alteration_checked"]++
			s2 := *sf
			pk := keys[prevRS[0].class]
			if got := verifyCase(pk, pk.k, zone, g, &s2, prevRS, step%2 == 0); got == "ok:" || got == "panic" {
				Viol("C10/Verify/accepts-previous-rrset", "Verify("+got+") of the RRset signed by the previous call with the RRSIG value after the next Sign", mkIn(pk, g, &s2, prevRS, what))
			}
		}
		// the same slice signed once more with the same value
		{
			pre2 := sigState(g)
			e3 := Protect(func() string { return errClass(g.Sign(kp.priv, rrs)) })
			st["reuse_sign_checked"]++
			sb2, _ := base64.StdEncoding.DecodeString(g.Signature)
			body, _ := refCanon(&sfR, rs, rfcLower)
			if e3 != "ok:" || sigState(g) != pre2 || (deterministic(g.Algorithm) && !bytes.Equal(sb, sb2)) ||
				!cryptoVerify(g.Algorithm, kp.pub, append(refSigPrefix(&sfR), body...), sb2) || errClass(g.Verify(kk.k, rrs)) != "ok:" {
				Viol("C10/Sign/second-sign-of-same-rrset", fmt.Sprintf("signing the same slice again with the same RRSIG value: (%s) %s, first call gave %s", e3, sigState(g), pre2), in)
			}
			gText = sigState(g) + g.Signature
			_ = g.Verify(kk.k, rrs)
		}
		if sigState(g)+g.Signature != gText || rrsState(rrs) != rText || kk.k.String() != keyText[class] {
			Viol("C10/Verify/modifies-arguments", "Verify (or Sign, for the RRset and key) changed the RRSIG, the RRset or the DNSKEY it was given", in)
		}
		prevOwner, prevRS = owner, rs
	}
}

func runRound4(r *Rng, tier string, keys []*keyPair) {
	byTyp := map[uint16]tdef{}
	for _, td := range tdefs {
		byTyp[td.typ] = td
	}
	var ed *keyPair
	for _, kp := range keys {
		if kp.k.Algorithm == 15 && len(kp.owner) == 1 {
			ed = kp
			break
		}
	}
	extra, seqs := 40, 2
	if tier == "thorough" {
		extra, seqs = 2000, 12
	}
	for i, p := range octPairs(r, extra) {
		namePairCase(r, ed, byTyp, p, i, false)
		if p.c >= 0x80 || p.d >= 0x80 {
			namePairCase(r, ed, byTyp, p, i, true)
		}
	}
	idx := 0
	for s := 0; s < seqs; s++ {
		for _, kp := range keys {
			if len(kp.pub) > 300 { // the 4096-bit keys: slow, nothing key-specific here
				continue
			}
			reuseCase(r, kp, idx)
			idx++
		}
	}
}
