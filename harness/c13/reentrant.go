package main

// reentrant.go - NotifyStartedFunc callbacks that call back into the Server.
//
// The property: "Starting a server that is already started or shutting down one that is
// not returns an error instead of blocking", and Shutdown returns once the handlers have
// returned "or its context expired".  NotifyStartedFunc runs on the serve goroutine of a
// started server, so it is one more point of every schedule at which a second start or a
// Shutdown can be issued: by the callback itself, or by another goroutine while the
// callback has not returned yet (the callback waits for that call).  For TCP, TLS and UDP
// servers on real loopback sockets:
//
//   activate-in-callback / listen-in-callback      the callback calls ActivateAndServe /
//                                                  ListenAndServe on its own Server
//   activate-beside-callback / listen-beside-..    another goroutine does, the callback waits for it
//   shutdown-in-callback / shutdown-beside-..      ShutdownContext with a context of 500 ms
//
// Oracles: the second start returns an error (it never blocks, never serves); the
// ShutdownContext call returns (nil, or the context's error: the serve goroutine is inside
// the callback and cannot finish before); afterwards Shutdown of the started server
// returns nil, the serve call returns nil, Shutdown of the stopped server returns the
// not-started error.  Every call into the Server runs in its own goroutine under a 10 s
// watchdog; a call that has not returned by then is reported with its scenario, and the
// remaining scenarios (they would cost 10 s each) are skipped.

import (
	"context"
	"crypto/tls"
	"fmt"
	"net"
	"time"

	"github.com/miekg/dns"
	. "verif/harness/common"
)

const reentrantWatchdog = 10 * time.Second

// watched runs f in its own goroutine; ok = false when it has not returned after the watchdog
func watched(f func() error) (err error, ok bool) {
	ch := make(chan error, 1)
	go func() { ch <- f() }()
	select {
	case err = <-ch:
		return err, true
	case <-time.After(reentrantWatchdog):
		return nil, false
	}
}

func reentrantNotify() {
	for _, network := range []string{"tcp", "tls", "udp"} {
		for _, what := range []string{"activate", "listen", "shutdown"} {
			for _, where := range []string{"in-callback", "beside-callback"} {
				if !reentrantOne(network, what, where) {
					return
				}
			}
		}
	}
}

// reentrantOne returns false after a hang
func reentrantOne(network, what, where string) bool {
	scenario := fmt.Sprintf("%s server, NotifyStartedFunc: %s %s", network, what, where)
	in := map[string]any{"scenario": scenario}
	srv := &dns.Server{Handler: dns.HandlerFunc(func(w dns.ResponseWriter, m *dns.Msg) {}), Addr: "127.0.0.1:0"}
	var closeSock func()
	switch network {
	case "udp":
		pc, err := net.ListenPacket("udp", "127.0.0.1:0")
		if err != nil {
			st["reentrant_skipped_no_socket"]++
			return true
		}
		srv.PacketConn, srv.Net, closeSock = pc, "udp", func() { pc.Close() }
	default:
		l, err := net.Listen("tcp", "127.0.0.1:0")
		if err != nil {
			st["reentrant_skipped_no_socket"]++
			return true
		}
		srv.Net, closeSock = "tcp", func() { l.Close() }
		if network == "tls" {
			cfg := serverTLS()
			if cfg == nil {
				l.Close()
				return true
			}
			l = tls.NewListener(l, cfg)
			srv.Net, srv.TLSConfig = "tcp-tls", cfg
		}
		srv.Listener = l
	}
	call := func() error {
		switch what {
		case "activate":
			return srv.ActivateAndServe()
		case "listen":
			return srv.ListenAndServe()
		}
		ctx, cancel := context.WithTimeout(context.Background(), 500*time.Millisecond)
		defer cancel()
		return srv.ShutdownContext(ctx)
	}
	type result struct {
		err  error
		ok   bool
		addr string
	}
	res := make(chan result, 1)
	srv.NotifyStartedFunc = func() {
		// the callback may look at the Server it was installed on
		var r result
		if srv.PacketConn != nil {
			r.addr = srv.PacketConn.LocalAddr().String()
		} else {
			r.addr = srv.Listener.Addr().String()
		}
		if where == "in-callback" {
			r.err, r.ok = call(), true
		} else {
			r.err, r.ok = watched(call)
		}
		res <- r
	}
	serveRet := make(chan error, 1)
	go func() { serveRet <- srv.ActivateAndServe() }()
	var r result
	select {
	case r = <-res:
	case <-time.After(reentrantWatchdog + 2*time.Second):
	}
	st["reentrant_callbacks_checked"]++
	if !r.ok {
		Viol("C13/reentrant-call-blocks", scenario+": the call into the started Server has not returned after 10 s (a second start must return an error, a ShutdownContext must return when its context ends, instead of blocking)", in)
		closeSock()
		return false
	}
	in["call_returned"] = fmt.Sprint(r.err)
	if what == "shutdown" {
		if r.err != nil && r.err != context.DeadlineExceeded {
			Viol("C13/reentrant-shutdown-error", scenario+": ShutdownContext of the started server returned "+r.err.Error(), in)
		}
	} else {
		if r.err == nil {
			Viol("C13/double-start-no-error", scenario+": starting the started server returned nil", in)
		}
		err, ok := watched(srv.Shutdown)
		if !ok {
			Viol("C13/reentrant-call-blocks", scenario+": Shutdown after the callback has not returned after 10 s", in)
			closeSock()
			return false
		}
		if err != nil {
			in["shutdown_error"] = err.Error()
			Viol("C13/reentrant-shutdown-error", scenario+": Shutdown of the started server after the refused second start returned "+err.Error(), in)
		}
	}
	select {
	case err := <-serveRet:
		if err != nil {
			in["serve_error"] = err.Error()
			Viol("C13/serve-return-not-nil", scenario+": the serve call returned "+err.Error()+" after the shutdown", in)
		}
	case <-time.After(reentrantWatchdog):
		Viol("C13/stuck", scenario+": the serve call has not returned 10 s after the shutdown", in)
		closeSock()
		return false
	}
	err, ok := watched(srv.Shutdown)
	if !ok {
		Viol("C13/reentrant-call-blocks", scenario+": Shutdown of the stopped server has not returned after 10 s", in)
		return false
	}
	if err == nil {
		Viol("C13/shutdown-unstarted-no-error", scenario+": Shutdown of the stopped server returned nil", in)
	}
	closeSock()
	return true
}
