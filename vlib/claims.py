"""Which properties MANIFEST.json claims, with the level text and technique."""
CLAIMED = {
    "C19": dict(
        text="Coq theorems for all printed names (any number of labels, any octets): CountLabel, Split, NextLabel, Fqdn, "
             "CanonicalName, IsFqdn agree with the wire label sequence; model of labels.go/dnsutil tied to /repo by "
             "vm_compute correspondence on bounded-exhaustive and random names each run; remaining helpers by "
             "correspondence and direct oracle",
        technique="machine-checked proof in Coq (induction over label lists, escape-parity automaton) + model/implementation correspondence by vm_compute"),
    "C03": dict(
        text="Coq theorems about an executable model of packDomainName/UnpackDomainName/IsDomainName; model tied to /repo "
             "by vm_compute correspondence (limits 63/255, all octets, all escape spellings, pointer chains) each run",
        technique="machine-checked proof in Coq (structural induction on presentation strings and label lists) + model/implementation correspondence by vm_compute"),
}
CLAIMED["C01"] = dict(
    text="Per-type field sequences regenerated from zmsg.go on every run and interpreted by a Coq model of the field "
         "codecs; Coq theorems over all layouts/values (see Props/C01.v); model tied to /repo by the translator plus "
         "vm_compute correspondence of pack octets, unpacked values and lengths for every registered type each run",
    technique="machine-checked proof in Coq over translator-regenerated layout tables + model/implementation correspondence by vm_compute")
CLAIMED["C09"] = dict(
    text="Coq theorems about an executable model of Msg.Truncate/truncateLoop/popEdns0 (section prefixes, OPT retained, TC "
         "iff dropped, no later section after a drop, fitting and TSIG messages untouched); the fit clause rests on C08; "
         "model tied to /repo by vm_compute correspondence at the exact packed length of every prefix +-1 each run",
    technique="machine-checked proof in Coq (case analysis over truncateLoop, induction over record lists) + model/implementation correspondence by vm_compute")
CLAIMED["C17"] = dict(
    text="Coq theorems (hash functions as section variables): key tag = RFC 4034 App. B for RDATA of any length, DS digest "
         "input, NSEC3 hash recursion and case independence, Match/Cover iff (circular strict betweenness, only inside the "
         "zone), ValidityPeriod = plain comparison, RSA/ECDSA key encodings and BIND private-key text round trip; model tied "
         "to /repo by vm_compute correspondence incl. an executable SHA-1/SHA-256 in Coq; recorded findings in known_findings.json",
    technique="machine-checked proof in Coq (loop invariants, induction over iterations/labels) + model/implementation correspondence by vm_compute")
CLAIMED["C10"] = dict(
    text="Coq theorems over an executable model of rawSignatureData/Sign/Verify with the signature primitive as a section "
         "variable: canonical form invariance (order, duplicates, TTL, case, wildcard), sign-verify, verify soundness with all "
         "pre-checks, injectivity of the signed octets (any alteration fails under the stated idealisation); model tied to /repo "
         "by vm_compute correspondence on the hooked rawSignatureData and independent crypto on the model's octets",
    technique="machine-checked proof in Coq (permutation/sorting lemmas, unique parsing of the signed octets) + model/implementation correspondence by vm_compute")
CLAIMED["C16"] = dict(
    text="Coq theorem: a copy procedure that is deep for the shape of a value leaves no cell of the original in the copy "
         "(trees of mutable memory, any size); the copy() body and struct definition of every record, EDNS0 option and SVCB "
         "parameter type are regenerated from /repo each run and checked deep by the kernel; dynamic address-range and "
         "write-visibility oracles on the implementation; unpack-aliasing and read-only clauses by harness observation (partial)",
    technique="machine-checked proof in Coq (nested induction over shapes) over translator-regenerated copy tables + reflect/unsafe aliasing oracle")
CLAIMED["C14"] = dict(
    text="Coq theorems over executable models of serveDNS (any accept policy, decoder outcome, transport), defaultMsgAcceptFunc "
         "(case analysis over the whole header space), ServeMux.match (longest suffix on label boundaries, DS rule as coded, root "
         "last resort, REFUSED) and the reply skeletons; models tied to /repo by vm_compute correspondence through the hooked "
         "serveDNS/match on exhaustive header combinations and pattern sets each run",
    technique="machine-checked proof in Coq (case analysis, induction over label boundaries) + model/implementation correspondence by vm_compute")
CLAIMED["C12"] = dict(
    text="Coq theorems: stream re-framing for every list of messages and EVERY segmentation (induction, no size bound), oversize "
         "refused, short streams never yield partial messages, ID matching over stream and datagram exchanges, buffer-pool "
         "transition system never lets a handler see another request's octets; models tied to /repo by scripted net.Conn / "
         "PacketConn correspondence; cross-talk under real concurrency by runtime observation (partial)",
    technique="machine-checked proof in Coq (induction over chunkings, invariant over the pool LTS) + model/implementation correspondence by vm_compute")
CLAIMED["C05"] = dict(
    text="Coq theorems over models of the printers, the one-line lexer, type/class mnemonic tables (every code point), the "
         "RFC 3597 generic form and a presentation grammar with layouts for 49 regular types: printed text is re-read to the "
         "same fields (any octets, any length); 25 irregular types by direct oracle only (partial); models tied to /repo by "
         "vm_compute correspondence and NewRR(String()) oracles on records from wire and from text for every type each run; "
         "48 recorded findings in known_findings.json",
    technique="machine-checked proof in Coq (induction over octet strings and grammars, exhaustive code-point sweeps) + model/implementation correspondence by vm_compute")
NOT_YET = {}
