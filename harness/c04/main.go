// C04: name compression is transparent, always valid, applied only where allowed.
package main

import (
	"bytes"
	"net"
	"sort"
	"strings"

	"github.com/miekg/dns"
	. "verif/harness/common"
)

func main() { Main(run) }

var st = map[string]int{}

// RFC 1035 types whose RDATA names may be compressed (RFC 3597 section 4)
var rfc1035 = map[uint16]bool{dns.TypeNS: true, dns.TypeMD: true, dns.TypeMF: true, dns.TypeCNAME: true, dns.TypeSOA: true,
	dns.TypeMB: true, dns.TypeMG: true, dns.TypeMR: true, dns.TypePTR: true, dns.TypeMINFO: true, dns.TypeMX: true}

// walkName is an independent wire reader: it returns the offset after the name
// at off, the label-start offsets it passes (before following any pointer), and
// the pointers (position, target) met in this name's own encoding.
func walkName(w []byte, off int) (next int, starts []int, ptrs [][2]int, ok bool) {
	for {
		if off >= len(w) {
			return 0, nil, nil, false
		}
		c := int(w[off])
		switch c & 0xC0 {
		case 0x00:
			if c == 0 {
				return off + 1, starts, ptrs, true
			}
			starts = append(starts, off)
			off += 1 + c
		case 0xC0:
			if off+1 >= len(w) {
				return 0, nil, nil, false
			}
			t := (c&0x3F)<<8 | int(w[off+1])
			ptrs = append(ptrs, [2]int{off, t})
			return off + 2, starts, ptrs, true
		default:
			return 0, nil, nil, false
		}
	}
}

// expand decodes the full name at off (following pointers) as raw labels.
func expand(w []byte, off int) ([][]byte, bool) {
	var ls [][]byte
	hops := 0
	for {
		if off >= len(w) {
			return nil, false
		}
		c := int(w[off])
		switch c & 0xC0 {
		case 0x00:
			if c == 0 {
				return ls, true
			}
			if off+1+c > len(w) {
				return nil, false
			}
			ls = append(ls, w[off+1:off+1+c])
			off += 1 + c
		case 0xC0:
			if off+1 >= len(w) || hops > 200 {
				return nil, false
			}
			off = (c&0x3F)<<8 | int(w[off+1])
			hops++
		default:
			return nil, false
		}
	}
}

type rrSpan struct{ typ, nameOff, rdOff, rdLen int }

// sections walks header, questions and records of a packed message.
func spans(w []byte) (qnames []int, rrs []rrSpan, ok bool) {
	if len(w) < 12 {
		return nil, nil, false
	}
	qd := int(w[4])<<8 | int(w[5])
	n := (int(w[6])<<8 | int(w[7])) + (int(w[8])<<8 | int(w[9])) + (int(w[10])<<8 | int(w[11]))
	off := 12
	for i := 0; i < qd; i++ {
		qnames = append(qnames, off)
		next, _, _, ok := walkName(w, off)
		if !ok {
			return nil, nil, false
		}
		off = next + 4
	}
	for i := 0; i < n; i++ {
		no := off
		next, _, _, ok := walkName(w, off)
		if !ok || next+10 > len(w) {
			return nil, nil, false
		}
		typ := int(w[next])<<8 | int(w[next+1])
		rdl := int(w[next+8])<<8 | int(w[next+9])
		rrs = append(rrs, rrSpan{typ, no, next + 10, rdl})
		off = next + 10 + rdl
		if off > len(w) {
			return nil, nil, false
		}
	}
	return qnames, rrs, off == len(w)
}

func labelsEq(a, b [][]byte) bool {
	if len(a) != len(b) {
		return false
	}
	for i := range a {
		if !bytes.Equal(a[i], b[i]) {
			return false
		}
	}
	return true
}

func checkMsg(m *dns.Msg, emit bool, what string) {
	st["msg_checked"]++
	mc := m.Copy()
	mc.Compress = true
	mu := m.Copy()
	mu.Compress = false
	text, canon := MsgText(mc)
	wc, err1 := mc.Pack()
	wu, err2 := mu.Pack()
	in := map[string]string{"msg": text}
	if (err1 == nil) != (err2 == nil) {
		Viol("C04/"+what+"/pack-differs", "compressed and uncompressed packing disagree on success", in)
		return
	}
	if err1 != nil {
		st["pack_error"]++
		return
	}
	in["compressed"] = Hx(wc)
	if emit && canon && len(text) < 5000 {
		Emit("pack_msg", []string{text}, "ok:"+Hx(wc))
		st["model_pack_msg"]++
	}
	if len(wc) > len(wu) {
		Viol("C04/"+what+"/compressed-longer", "compressed form is longer than the uncompressed form", in)
	}
	// transparency: both decode to exactly the same message
	var a, b dns.Msg
	ea, eb := a.Unpack(wc), b.Unpack(wu)
	if ea != nil || eb != nil {
		Viol("C04/"+what+"/unpack-fails", "a packed message does not unpack", in)
		return
	}
	for _, mm := range []*dns.Msg{&a, &b} {
		for _, sec := range [][]dns.RR{mm.Answer, mm.Ns, mm.Extra} {
			for _, rr := range sec {
				rr.Header().Rdlength = 0 // RDLENGTH legitimately differs between the two forms
			}
		}
	}
	ta, _ := MsgText(&a)
	tb, _ := MsgText(&b)
	if ta != tb {
		in["got"] = ta
		in["want"] = tb
		Viol("C04/"+what+"/not-transparent", "compressed and uncompressed forms decode to different messages", in)
	}
	// pointers: walk the compressed form with the independent reader
	qn, rrs, ok := spans(wc)
	_, rru, oku := spans(wu)
	if !ok || !oku || len(rrs) != len(rru) {
		Viol("C04/"+what+"/malformed", "the independent reader cannot walk the packed message", in)
		return
	}
	known := map[int]bool{} // label starts of names written so far
	var opaque [][2]int     // RDATA spans of types outside RFC 1035: their names may be pointer targets too
	inOpaque := func(t int) bool {
		for _, sp := range opaque {
			if t >= sp[0] && t < sp[1] {
				return true
			}
		}
		return false
	}
	checkName := func(off int) {
		_, starts, ptrs, ok := walkName(wc, off)
		if !ok {
			Viol("C04/"+what+"/malformed-name", "bad name encoding at "+Itoa(off), in)
			return
		}
		for _, p := range ptrs {
			st["pointers_checked"]++
			if p[1] >= p[0] || p[1] >= 16384 || !(known[p[1]] || inOpaque(p[1])) {
				Viol("C04/"+what+"/bad-pointer", "pointer at "+Itoa(p[0])+" targets "+Itoa(p[1])+" which is not an earlier label start below 16384", in)
			}
		}
		for _, s := range starts {
			known[s] = true
		}
	}
	for _, q := range qn {
		checkName(q)
	}
	for i, r := range rrs {
		checkName(r.nameOff)
		rd := wc[r.rdOff : r.rdOff+r.rdLen]
		rdu := wu[rru[i].rdOff : rru[i].rdOff+rru[i].rdLen]
		if !rfc1035[uint16(r.typ)] {
			// RFC 3597 section 4: no compression inside RDATA of other types
			if !bytes.Equal(rd, rdu) {
				Viol("C04/"+what+"/compressed-rdata-outside-rfc1035/"+dns.TypeToString[uint16(r.typ)], "RDATA of a type outside the RFC 1035 set differs between compressed and uncompressed packing", in)
			}
			// its names are registered by the packer as targets for later pointers
			opaque = append(opaque, [2]int{r.rdOff, r.rdOff + r.rdLen})
			continue
		}
		// RFC 1035 types: names sit at known places
		switch uint16(r.typ) {
		case dns.TypeMX:
			checkName(r.rdOff + 2)
		case dns.TypeSOA, dns.TypeMINFO:
			checkName(r.rdOff)
			next, _, _, ok := walkName(wc, r.rdOff)
			if ok {
				checkName(next)
			}
		default:
			if r.rdLen > 0 {
				checkName(r.rdOff)
			}
		}
	}
	// owner names and question names expand to the same labels in both forms
	qnu, _, _ := spans(wu)
	for i := range qn {
		la, oka := expand(wc, qn[i])
		lb, okb := expand(wu, qnu[i])
		if !oka || !okb || !labelsEq(la, lb) {
			Viol("C04/"+what+"/name-changed", "a question name expands differently", in)
		}
	}
	for i := range rrs {
		la, oka := expand(wc, rrs[i].nameOff)
		lb, okb := expand(wu, rru[i].nameOff)
		if !oka || !okb || !labelsEq(la, lb) {
			Viol("C04/"+what+"/name-changed", "an owner name expands differently (case must be preserved)", in)
		}
	}
}

// names differing only in case or escaping
func variants(r *Rng, n string) string {
	switch r.Intn(4) {
	case 0:
		return strings.ToUpper(n)
	case 1:
		return strings.ToLower(n)
	case 2: // spell the first plain letter as \DDD
		b := []byte(n)
		for i, c := range b {
			if c >= 'a' && c <= 'z' && (i == 0 || b[i-1] != '\\') {
				d := []byte{'\\', '0' + c/100, '0' + c/10%10, '0' + c%10}
				return string(b[:i]) + string(d) + string(b[i+1:])
			}
		}
	}
	return n
}

func nameSeq(r *Rng, pool *NamePool, pad int, emit bool) {
	st["name_sequences"]++
	k := 2 + r.Intn(6)
	var names []string
	var flags []bool
	for i := 0; i < k; i++ {
		n := pool.Name()
		if r.Intn(3) == 0 && len(names) > 0 {
			n = variants(r, names[r.Intn(len(names))])
		}
		names = append(names, n)
		flags = append(flags, r.Intn(4) != 0)
	}
	capN := pad + 300*k
	buf := make([]byte, capN)
	comp := map[string]uint16{}
	off := pad
	var items []string
	okAll := true
	for i, n := range names {
		f := "0"
		if flags[i] {
			f = "1"
		}
		items = append(items, Hs(n)+":"+f)
		var err error
		off, err = dns.VerifPackDomainName(n, buf, off, comp, flags[i])
		if err != nil {
			okAll = false
			break
		}
	}
	if !emit {
		return
	}
	out := "err"
	if okAll {
		var es []string
		for k, v := range comp {
			es = append(es, Hs(k)+"="+Itoa(int(v)))
		}
		sort.Strings(es)
		out = "ok:" + Hx(buf[pad:off]) + "#" + strings.Join(es, ";")
	}
	Emit("pack_names", []string{Itoa(pad), Itoa(capN), strings.Join(items, ",")}, out)
}

func run(r *Rng, tier string, n int) {
	nmsg := 400
	if tier == "thorough" {
		nmsg = 15000
	}
	if n > 0 {
		nmsg = n
	}
	types := AllTypes()
	pool := &NamePool{R: r}
	for i := 0; i < nmsg; i++ {
		nq := 1
		if r.Intn(4) == 0 {
			nq = 2 + r.Intn(3)
		}
		m, _ := GenMsg(r, pool, types, nq, r.Intn(6), r.Intn(4), r.Intn(4), r.Intn(4) == 0, false)
		// names differing only in case or escaping
		if r.Intn(3) == 0 && len(m.Answer) > 0 {
			for _, rr := range m.Answer {
				if r.Bool() {
					rr.Header().Name = variants(r, m.Question[0%len(m.Question)].Name)
				}
			}
		}
		if i%3 == 0 && len(m.Question) > 0 {
			// a compressed Pack that fails after some names were written must leave nothing behind
			// that a later Pack of a message sharing those names could pick up
			bad := new(dns.Msg)
			bad.Compress = true
			bad.Question = append(bad.Question, m.Question...)
			for _, rr := range m.Answer {
				bad.Answer = append(bad.Answer, dns.Copy(rr))
			}
			bad.Answer = append(bad.Answer, &dns.A{Hdr: dns.RR_Header{Name: strings.Repeat("x", 64) + "." + m.Question[0].Name, Rrtype: dns.TypeA, Class: 1}, A: []byte{1, 2, 3, 4}})
			if _, err := bad.Pack(); err == nil {
				Viol("C04/any/overlong-label-packed", "a 64-octet label was packed", nil)
			}
			st["failed_pack_then_pack"]++
		}
		checkMsg(m, i < 120 || i%40 == 0, "any")
	}
	// one record of every type whose RDATA repeats the question name: nothing outside RFC 1035 may be compressed
	for _, t := range types {
		if t == dns.TypeOPT || t == dns.TypeTSIG {
			continue
		}
		for k := 0; k < 3; k++ {
			rr, info := GenRR(r, pool, t, false)
			if !info.WellFormed {
				continue
			}
			qn := "shared.suffix.example."
			rr.Header().Name = "owner." + qn
			setNames(rr, qn)
			m := new(dns.Msg)
			m.SetQuestion(qn, t)
			m.Answer = []dns.RR{rr}
			checkMsg(m, k == 0, "per-type")
			compressedInput(m)
		}
	}
	// the 255-octet limit reached THROUGH a pointer: the suffix is already in the message (as question name, as an
	// earlier owner), the new name is prefix + suffix with 253..258 wire octets in all; several label shapes, the
	// name as owner and inside RDATA. Compressed and uncompressed packing must agree on success (checkMsg) and an
	// accepted message must decode
	for _, sufLabels := range [][]int{{63, 63, 63}, {63, 63}, {63}, {1, 63, 63, 61}, {10, 20, 30}} {
		var suf string
		sufWire := 1
		for i, n := range sufLabels {
			suf += strings.Repeat(string(rune('b'+i)), n) + "."
			sufWire += n + 1
		}
		for total := 253; total <= 258; total++ {
			rest := total - sufWire // wire octets of the prefix labels (each label: length octet + content)
			var shapes [][]int
			if rest >= 2 && rest <= 64 {
				shapes = append(shapes, []int{rest - 1})
			}
			if rest >= 4 {
				a := (rest - 2) / 2
				b := rest - 2 - a
				if a >= 1 && a <= 63 && b >= 1 && b <= 63 {
					shapes = append(shapes, []int{a, b})
				}
			}
			for _, sh := range shapes {
				pre := ""
				for i, n := range sh {
					pre += strings.Repeat(string(rune('p'+i)), n) + "."
				}
				name := pre + suf
				for variant := 0; variant < 3; variant++ {
					m := new(dns.Msg)
					m.SetQuestion(suf, dns.TypeNS)
					switch variant {
					case 0:
						m.Answer = []dns.RR{&dns.A{Hdr: dns.RR_Header{Name: name, Rrtype: dns.TypeA, Class: 1}, A: net.IPv4(192, 0, 2, 1).To4()}}
					case 1:
						m.Answer = []dns.RR{&dns.NS{Hdr: dns.RR_Header{Name: suf, Rrtype: dns.TypeNS, Class: 1}, Ns: name}}
					case 2:
						m.Answer = []dns.RR{&dns.NS{Hdr: dns.RR_Header{Name: suf, Rrtype: dns.TypeNS, Class: 1}, Ns: name}, &dns.A{Hdr: dns.RR_Header{Name: name, Rrtype: dns.TypeA, Class: 1}, A: net.IPv4(192, 0, 2, 1).To4()}}
					}
					checkMsg(m, false, "limit-255-through-pointer")
					st["limit_through_pointer_messages"]++
					_, valid := dns.IsDomainName(name)
					mc := m.Copy()
					mc.Compress = true
					if _, err := mc.Pack(); (err == nil) != valid {
						Viol("C04/limit-255-through-pointer/accepts-iff-valid", "compressed Pack of a message holding a name of "+Itoa(total)+" wire octets (valid: "+Btoa(valid)+") returns err="+Btoa(err != nil), map[string]string{"name": name})
					}
				}
			}
		}
	}
	// messages crossing the 16384-octet pointer limit
	big := 4
	if tier == "thorough" {
		big = 40
	}
	for i := 0; i < big; i++ {
		m := new(dns.Msg)
		m.SetQuestion("q.example.org.", dns.TypeTXT)
		for j := 0; j < 62+r.Intn(8); j++ {
			m.Answer = append(m.Answer, &dns.TXT{Hdr: dns.RR_Header{Name: pool.Name(), Rrtype: dns.TypeTXT, Class: 1}, Txt: []string{strings.Repeat("x", 200+r.Intn(55))}})
		}
		for j := 0; j < 30; j++ {
			m.Ns = append(m.Ns, &dns.NS{Hdr: dns.RR_Header{Name: pool.Name(), Rrtype: dns.TypeNS, Class: 1}, Ns: pool.Name()})
		}
		checkMsg(m, false, "beyond-16384")
	}
	// deepest pointer nesting: every suffix of a name of k one-octet labels packed first (shortest
	// first, so each is a label plus a pointer to the previous one), then the full name again, which
	// is emitted as a bare pointer and needs one hop per label when decoded (k = 127 is the maximum
	// a 255-octet name allows)
	for _, k := range []int{2, 3, 64, 125, 126, 127} {
		for _, lab := range []string{"a.", "\\000."} {
			m := new(dns.Msg)
			m.SetQuestion("q.", dns.TypeA)
			for i := 1; i <= k; i++ {
				m.Answer = append(m.Answer, &dns.A{Hdr: dns.RR_Header{Name: strings.Repeat(lab, i), Rrtype: dns.TypeA, Class: 1}, A: []byte{1, 2, 3, 4}})
			}
			m.Ns = append(m.Ns, &dns.NS{Hdr: dns.RR_Header{Name: strings.Repeat(lab, k), Rrtype: dns.TypeNS, Class: 1}, Ns: strings.Repeat(lab, k)})
			checkMsg(m, k <= 64 && lab == "a.", "pointer-nesting")
		}
	}
	// compressed input, the corner of it: a name that consists of a pointer only, ending at a ROOT octet (what
	// another encoder may send for a null MX, an SRV with target "."), or labels followed by a pointer to a
	// root octet; followed by a further record, so that the offset after the name matters
	{
		// header: 1 question, 2 answers; question "q." at 12 (01 71 00), its root octet at offset 14
		type shape struct {
			typ  uint16
			pre  []byte // RDATA before the name
			post []byte // RDATA after the name
		}
		shapes := []shape{{dns.TypeNS, nil, nil}, {dns.TypeCNAME, nil, nil}, {dns.TypePTR, nil, nil}, {dns.TypeDNAME, nil, nil},
			{dns.TypeMX, []byte{0, 0}, nil}, {dns.TypeKX, []byte{0, 1}, nil}, {dns.TypeAFSDB, []byte{0, 1}, nil}, {dns.TypeRT, []byte{0, 1}, nil},
			{dns.TypeSRV, []byte{0, 0, 0, 0, 0, 0}, nil}, {dns.TypeSVCB, []byte{0, 0}, nil}, {dns.TypeHTTPS, []byte{0, 1}, nil},
			{dns.TypeNSEC, nil, []byte{0, 1, 0x40}}, {dns.TypeSOA, nil, append([]byte{0}, make([]byte, 20)...)},
			{dns.TypeRRSIG, []byte{0, 1, 8, 0, 0, 0, 0, 60, 0x6b, 0x49, 0xd2, 0, 0x65, 0x53, 0xf1, 0, 0, 7}, []byte{1, 2, 3}},
			{dns.TypeNAPTR, []byte{0, 1, 0, 1, 1, 'u', 0, 0}, nil}, {dns.TypeHIP, []byte{0, 2, 0, 0}, nil}}
		for _, sh := range shapes {
			for _, nameForm := range [][]byte{{0xC0, 14}, {1, 'x', 0xC0, 14}} {
				build := func(name []byte) []byte {
					w := []byte{0, 1, 0x80, 0, 0, 1, 0, 2, 0, 0, 0, 0, 1, 'q', 0, 0, byte(sh.typ), 0, 1}
					rd := append(append(append([]byte{}, sh.pre...), name...), sh.post...)
					if sh.typ == dns.TypeHIP {
						rd = append(append([]byte{}, sh.pre...), name...) // rendezvous servers run to the end
					}
					w = append(w, 0xC0, 12, byte(sh.typ>>8), byte(sh.typ), 0, 1, 0, 0, 0, 9, byte(len(rd)>>8), byte(len(rd)))
					w = append(w, rd...)
					w = append(w, 0xC0, 12, 0, 1, 0, 1, 0, 0, 0, 9, 0, 4, 192, 0, 2, 1) // a following A record
					return w
				}
				plainName := []byte{0}
				if len(nameForm) > 2 {
					plainName = []byte{1, 'x', 0}
				}
				cw, uw := build(nameForm), build(plainName)
				var a, b dns.Msg
				if a.Unpack(uw) != nil {
					st["root_pointer_shape_not_decodable"]++
					continue
				}
				st["root_pointer_input_checked"]++
				in := map[string]string{"wire": Hx(cw), "uncompressed": Hx(uw)}
				tn := dns.TypeToString[sh.typ]
				if err := b.Unpack(cw); err != nil {
					Viol("C04/compressed-input-rejected/"+tn, "a name written as a pointer to a root octet is not accepted: "+err.Error(), in)
					continue
				}
				for _, rr := range b.Answer {
					rr.Header().Rdlength = 0
				}
				for _, rr := range a.Answer {
					rr.Header().Rdlength = 0
				}
				ta, _ := MsgText(&a)
				tb, _ := MsgText(&b)
				if ta != tb {
					Viol("C04/compressed-input-differs/"+tn, "a name written as a pointer to a root octet decodes to a different message", in)
				}
			}
		}
	}
	// PackBuffer into caller buffers of EVERY length: the same octets as Pack (or the same refusal), compressed
	for i := 0; i < 8; i++ {
		qn := pool.Name()
		m := new(dns.Msg)
		m.Compress = true
		m.SetQuestion(qn, dns.TypeNS)
		h := func(t uint16) dns.RR_Header { return dns.RR_Header{Name: qn, Rrtype: t, Class: 1, Ttl: 60} }
		m.Answer = []dns.RR{&dns.CNAME{Hdr: h(dns.TypeCNAME), Target: "alias." + qn}, &dns.A{Hdr: h(dns.TypeA), A: []byte{192, 0, 2, 1}}}
		// the message ENDS in a name that is written as a pointer
		switch i % 4 {
		case 0:
			m.Ns = []dns.RR{&dns.NS{Hdr: h(dns.TypeNS), Ns: "ns1." + qn}, &dns.NS{Hdr: h(dns.TypeNS), Ns: qn}}
		case 1:
			m.Answer = append(m.Answer, &dns.MX{Hdr: h(dns.TypeMX), Preference: 10, Mx: qn})
		case 2:
			m.Extra = []dns.RR{&dns.PTR{Hdr: h(dns.TypePTR), Ptr: "alias." + qn}}
		case 3:
			m.Ns = []dns.RR{&dns.SOA{Hdr: h(dns.TypeSOA), Ns: qn, Mbox: "hostmaster." + qn, Serial: 1}}
		}
		if _, ok := dns.IsDomainName("hostmaster." + qn); !ok {
			continue
		}
		want, err := m.Copy().Pack()
		if err != nil {
			continue
		}
		uc := m.Copy()
		uc.Compress = false
		for n := 0; n <= uc.Len()+6; n++ {
			got, err := m.Copy().PackBuffer(make([]byte, n))
			st["packbuffer_lengths_checked"]++
			if err != nil || !bytes.Equal(got, want) {
				t, _ := MsgText(m)
				Viol("C04/packbuffer-depends-on-buffer", "PackBuffer into a caller buffer of "+Itoa(n)+" octets differs from Pack() ("+Itoa(len(want))+" octets compressed): err="+Btoa(err != nil), map[string]string{"msg": t})
				break
			}
		}
	}
	// sequences of packDomainName calls sharing one map, also starting near offset 16384
	nseq := 120
	if tier == "thorough" {
		nseq = 3000
	}
	for i := 0; i < nseq; i++ {
		pad := 0
		if i%6 == 0 {
			pad = 16384 - 40 + r.Intn(60)
		}
		nameSeq(r, pool, pad, true)
	}
	Stat(st)
}

// compressedInput: compressed names are accepted on input for EVERY type. The message (one question,
// one answer whose RDATA names all equal the question name) is packed without compression; then every
// occurrence of that name inside the RDATA is replaced by a pointer to the question (what another
// implementation may send), RDLENGTH adjusted: the result must unpack to the same message.
func compressedInput(m *dns.Msg) {
	c := m.Copy()
	c.Compress = false
	w, err := c.Pack()
	if err != nil {
		return
	}
	_, rrs, ok := spans(w)
	if !ok || len(rrs) != 1 {
		return
	}
	qend, _, _, _ := walkName(w, 12)
	qw := w[12:qend]
	rd := w[rrs[0].rdOff : rrs[0].rdOff+rrs[0].rdLen]
	var nrd []byte
	hits := 0
	for i := 0; i < len(rd); {
		if bytes.HasPrefix(rd[i:], qw) {
			nrd = append(nrd, 0xC0, 12)
			i += len(qw)
			hits++
		} else {
			nrd = append(nrd, rd[i])
			i++
		}
	}
	if hits == 0 {
		return
	}
	nw := append([]byte{}, w[:rrs[0].rdOff]...)
	nw[rrs[0].rdOff-2], nw[rrs[0].rdOff-1] = byte(len(nrd)>>8), byte(len(nrd))
	nw = append(nw, nrd...)
	st["compressed_input_checked"]++
	var a, b dns.Msg
	if a.Unpack(w) != nil {
		return
	}
	in := map[string]string{"wire": Hx(nw), "uncompressed": Hx(w)}
	tn := dns.TypeToString[m.Answer[0].Header().Rrtype]
	if err := b.Unpack(nw); err != nil {
		Viol("C04/compressed-input-rejected/"+tn, "a message with compression pointers inside the RDATA is not accepted: "+err.Error(), in)
		return
	}
	ta, _ := MsgText(&a)
	for _, r := range b.Answer {
		r.Header().Rdlength = a.Answer[0].Header().Rdlength
	}
	tb, _ := MsgText(&b)
	if ta != tb {
		Viol("C04/compressed-input-differs/"+tn, "a message with compression pointers inside the RDATA decodes to a different message", in)
	}
}

// setNames puts qn into every domain-name field of the record
func setNames(rr dns.RR, qn string) {
	if h, ok := rr.(*dns.HIP); ok && len(h.RendezvousServers) == 0 {
		h.RendezvousServers = []string{"."}
	}
	ForEachNameField(rr, func(get func() string, set func(string)) { set(qn) })
}
