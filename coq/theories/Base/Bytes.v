(* Base/Bytes.v — octet strings, results, hex/decimal rendering used by the
   correspondence runner.  Definitions only (no proofs) so that the model keeps
   running when a proof breaks. *)
From Coq Require Export String Ascii.
From Coq Require Export List NArith ZArith Bool.
Export ListNotations.
Open Scope N_scope.

(* An octet is an N below 256; Go's []byte and string are both [bytes]. *)
Definition bytes := list N.
Definition wfb (l : bytes) : Prop := Forall (fun b => b < 256) l.
Definition wfbb (l : bytes) : bool := forallb (fun b => b <? 256) l.

(* Outcome of a modelled Go function.  [Err c] is a returned error of class c,
   [Panic] is a Go run-time panic (index out of range, nil map ...),
   [OutOfFuel] is the model's own recursion budget running out and is always
   excluded by the theorems. *)
Inductive res (A : Type) : Type :=
| Ok (a : A)
| Err (c : string)
| Panic
| OutOfFuel.
Arguments Ok {A} a.
Arguments Err {A} c.
Arguments Panic {A}.
Arguments OutOfFuel {A}.

Definition bind {A B} (r : res A) (f : A -> res B) : res B :=
  match r with
  | Ok a => f a
  | Err c => Err c
  | Panic => Panic
  | OutOfFuel => OutOfFuel
  end.
Notation "'do' x <- r ; k" := (bind r (fun x => k))
  (at level 200, x pattern, r at level 100, k at level 200, right associativity).

Definition is_ok {A} (r : res A) : bool := match r with Ok _ => true | _ => false end.

(* ---------- lists ---------- *)
Definition nthN {A} (l : list A) (i : N) (d : A) : A := nth (N.to_nat i) l d.
Definition lenN {A} (l : list A) : N := N.of_nat (length l).
Definition takeN {A} (n : N) (l : list A) := firstn (N.to_nat n) l.
Definition dropN {A} (n : N) (l : list A) := skipn (N.to_nat n) l.

(* Go's l[a:b]: panics unless a <= b <= len l. *)
Definition slice {A} (l : list A) (a b : N) : res (list A) :=
  if (a <=? b) && (b <=? lenN l) then Ok (takeN (b - a) (dropN a l)) else Panic.
(* Go's l[i] *)
Definition index (l : bytes) (i : N) : res N :=
  if i <? lenN l then Ok (nthN l i 0) else Panic.

Fixpoint list_eqb {A} (eqb : A -> A -> bool) (a b : list A) : bool :=
  match a, b with
  | [], [] => true
  | x :: a', y :: b' => eqb x y && list_eqb eqb a' b'
  | _, _ => false
  end.
Definition bytes_eqb := list_eqb N.eqb.

(* ---------- big endian integers ---------- *)
Definition u8 (n : N) : bytes := [n mod 256].
Definition u16 (n : N) : bytes := [(n / 256) mod 256; n mod 256].
Definition u32 (n : N) : bytes :=
  [(n / 16777216) mod 256; (n / 65536) mod 256; (n / 256) mod 256; n mod 256].
Definition u48 (n : N) : bytes := u16 (n / 4294967296) ++ u32 (n mod 4294967296).
Definition u64 (n : N) : bytes := u32 (n / 4294967296) ++ u32 (n mod 4294967296).
Fixpoint be (l : bytes) (acc : N) : N :=
  match l with [] => acc | b :: r => be r (acc * 256 + b) end.

(* ---------- hex / decimal strings for the case runner ---------- *)
Definition hexdigit (n : N) : ascii :=
  ascii_of_N (if n <? 10 then 48 + n else 87 + n).
Definition unhexdigit (c : ascii) : N :=
  let n := N_of_ascii c in
  if (48 <=? n) && (n <=? 57) then n - 48
  else if (97 <=? n) && (n <=? 102) then n - 87
  else if (65 <=? n) && (n <=? 70) then n - 55 else 0.
Infix "+++" := String.append (at level 60, right associativity).

Fixpoint hex (l : bytes) : string :=
  match l with
  | [] => EmptyString
  | b :: r => String (hexdigit (b / 16)) (String (hexdigit (b mod 16)) (hex r))
  end.
Fixpoint unhex (s : string) : bytes :=
  match s with
  | String a (String b r) => (unhexdigit a * 16 + unhexdigit b) :: unhex r
  | _ => []
  end.

Fixpoint undec_aux (s : string) (acc : N) : N :=
  match s with
  | EmptyString => acc
  | String c r => undec_aux r (acc * 10 + (N_of_ascii c - 48))
  end.
Definition undec (s : string) : N := undec_aux s 0.
Definition undecn (s : string) : nat := N.to_nat (undec s).

Fixpoint dec_aux (fuel : nat) (n : N) (acc : string) : string :=
  match fuel with
  | O => acc
  | S f =>
    let acc' := String (ascii_of_N (48 + n mod 10)) acc in
    if n <? 10 then acc' else dec_aux f (n / 10) acc'
  end.
Definition dec (n : N) : string := dec_aux (S (N.to_nat (N.log2 n))) n EmptyString.
Definition decn (n : nat) : string := dec (N.of_nat n).

Definition decZ (z : Z) : string :=
  match z with
  | Z0 => "0"%string
  | Zpos p => dec (Npos p)
  | Zneg p => "-"%string +++ dec (Npos p)
  end.
Definition undecZ (s : string) : Z :=
  match s with
  | String c r => if (N_of_ascii c =? 45) then Z.opp (Z.of_N (undec r)) else Z.of_N (undec s)
  | _ => 0%Z
  end.

Definition showb (b : bool) : string := if b then "true"%string else "false"%string.
Fixpoint join (sep : string) (l : list string) : string :=
  match l with
  | [] => EmptyString
  | [x] => x
  | x :: r => x +++ sep +++ join sep r
  end.
Definition show_ns (l : list N) : string := join ","%string (map dec l).
Definition show_nats (l : list nat) : string := join ","%string (map decn l).

(* bytes <-> Coq string (for readable constants in models) *)
Fixpoint bytes_of_string (s : string) : bytes :=
  match s with EmptyString => [] | String c r => N_of_ascii c :: bytes_of_string r end.
Fixpoint string_of_bytes (l : bytes) : string :=
  match l with [] => EmptyString | b :: r => String (ascii_of_N b) (string_of_bytes r) end.

(* ---------- the correspondence runner ---------- *)
Definition ccase := (string * list string * string)%type.
Fixpoint mism_aux (run : string -> list string -> string) (i : N) (cs : list ccase)
  : list (N * string) :=
  match cs with
  | [] => []
  | (fn, args, want) :: r =>
    let got := run fn args in
    if String.eqb got want then mism_aux run (i + 1) r
    else (i, got) :: mism_aux run (i + 1) r
  end.
Definition mismatches run cs := mism_aux run 0 cs.
Definition arg (args : list string) (i : nat) : string := nth i args EmptyString.
Definition show_res {A} (f : A -> string) (r : res A) : string :=
  match r with
  | Ok a => "ok:"%string +++ f a
  | Err c => "err:"%string +++ c
  | Panic => "panic"%string
  | OutOfFuel => "outoffuel"%string
  end.
