(* Proofs/SortProofs.v — sorting octet strings in Go's bytes.Compare order and
   removing adjacent duplicates gives a result that depends only on the SET of
   strings (used for rawSignatureData: RFC 4034 6.3 canonical RR ordering). *)
From Dns Require Import Base.ListX Model.Nsec3 Proofs.Nsec3Proofs.
From Coq Require Import Lia Permutation Sorted.
Open Scope N_scope.

Definition ble (a b : bytes) : bool := match lex_cmp a b with Gt => false | _ => true end.
Definition le (a b : bytes) : Prop := ble a b = true.

Lemma ble_total a b : ble a b = false -> ble b a = true.
Proof.
  unfold ble. rewrite (lex_cmp_antisym a b). destruct (lex_cmp a b); cbn; congruence.
Qed.

Lemma le_antisym a b : le a b -> le b a -> a = b.
Proof.
  unfold le, ble. rewrite (lex_cmp_antisym a b).
  destruct (lex_cmp a b) eqn:E; cbn; try congruence.
  intros _ _. now apply lex_cmp_eq.
Qed.

Lemma le_trans a b c : le a b -> le b c -> le a c.
Proof.
  unfold le, ble.
  destruct (lex_cmp a b) eqn:E1; try congruence; destruct (lex_cmp b c) eqn:E2; try congruence; intros _ _.
  - apply lex_cmp_eq in E1, E2. subst. now rewrite lex_cmp_refl.
  - apply lex_cmp_eq in E1. subst. now rewrite E2.
  - apply lex_cmp_eq in E2. subst. now rewrite E1.
  - now rewrite (lex_cmp_trans a b c E1 E2).
Qed.

Lemma le_refl a : le a a.
Proof. unfold le, ble. now rewrite lex_cmp_refl. Qed.

Lemma slt_irrefl a : ~ slt a a.
Proof. unfold slt. rewrite lex_cmp_refl. discriminate. Qed.

Lemma slt_asym a b : slt a b -> slt b a -> False.
Proof. unfold slt. rewrite (lex_cmp_antisym a b). intros ->. discriminate. Qed.

Lemma le_neq_slt a b : le a b -> a <> b -> slt a b.
Proof.
  unfold le, ble, slt. destruct (lex_cmp a b) eqn:E; try congruence.
  apply lex_cmp_eq in E. congruence.
Qed.

Lemma slt_le a b : slt a b -> le a b.
Proof. unfold slt, le, ble. now intros ->. Qed.

(* ---------- insertion sort on octet strings ---------- *)
Fixpoint insert_b (x : bytes) (l : list bytes) : list bytes :=
  match l with
  | [] => [x]
  | y :: r => if ble x y then x :: l else y :: insert_b x r
  end.
Fixpoint isort_b (l : list bytes) : list bytes :=
  match l with [] => [] | x :: r => insert_b x (isort_b r) end.

Lemma insert_b_perm x l : Permutation (insert_b x l) (x :: l).
Proof.
  induction l as [|y r IH]; cbn; [reflexivity|].
  destruct (ble x y); [reflexivity|].
  rewrite IH. apply perm_swap.
Qed.

Lemma isort_b_perm l : Permutation (isort_b l) l.
Proof.
  induction l as [|x r IH]; cbn; [reflexivity|].
  rewrite insert_b_perm. now constructor.
Qed.

Lemma insert_b_sorted x l : StronglySorted le l -> StronglySorted le (insert_b x l).
Proof.
  induction l as [|y r IH]; intros S; cbn.
  - constructor; constructor.
  - apply StronglySorted_inv in S as [S F].
    destruct (ble x y) eqn:E.
    + constructor; [constructor; assumption|].
      constructor; [exact E|].
      eapply Forall_impl; [|exact F]. intros z Hz. eapply le_trans; eassumption.
    + constructor; [now apply IH|].
      eapply Permutation_Forall; [symmetry; apply insert_b_perm|].
      constructor; [now apply ble_total|exact F].
Qed.

Lemma isort_b_sorted l : StronglySorted le (isort_b l).
Proof.
  induction l as [|x r IH]; cbn; [constructor|]. now apply insert_b_sorted.
Qed.

(* ---------- dropping adjacent duplicates ---------- *)
Fixpoint dedup_b (prev : option bytes) (l : list bytes) : list bytes :=
  match l with
  | [] => []
  | w :: r =>
    match prev with
    | Some p => if bytes_eqb w p then dedup_b (Some w) r else w :: dedup_b (Some w) r
    | None => w :: dedup_b (Some w) r
    end
  end.

Lemma bytes_eqb_true a b : bytes_eqb a b = true <-> a = b.
Proof.
  unfold bytes_eqb. revert b; induction a as [|x a IHa]; intros [|y b]; cbn; split; try congruence.
  - intros E. apply andb_prop in E as [E1 E2]. apply N.eqb_eq in E1. apply IHa in E2. congruence.
  - intros E. injection E as -> ->. rewrite N.eqb_refl. now apply IHa.
Qed.

Lemma dedup_some_spec l : forall p,
  StronglySorted le l -> Forall (le p) l ->
  StronglySorted slt (dedup_b (Some p) l) /\
  (forall x, In x (dedup_b (Some p) l) <-> In x l /\ x <> p).
Proof.
  induction l as [|w r IH]; intros p S F.
  - cbn. split; [constructor|]. intros x. tauto.
  - apply StronglySorted_inv in S as [S Fw]. inversion F as [|? ? Hpw Fp]; subst.
    cbn [dedup_b]. destruct (bytes_eqb w p) eqn:E.
    + apply bytes_eqb_true in E. subst w.
      destruct (IH p S Fp) as [A B]. split; [exact A|].
      intros x. rewrite B. cbn. intuition congruence.
    + assert (Hne : w <> p) by (intros ->; rewrite (proj2 (bytes_eqb_true p p) eq_refl) in E; discriminate).
      destruct (IH w S Fw) as [A B]. split.
      * constructor; [exact A|]. apply Forall_forall. intros x Hx. apply B in Hx as [Hx Hxw].
        rewrite Forall_forall in Fw. apply le_neq_slt; [now apply Fw|congruence].
      * intros x. cbn [In]. rewrite B. split.
        -- intros [<-|[Hx Hxw]]; [split; [now left|exact Hne]|].
           split; [now right|]. intros ->.
           rewrite Forall_forall in Fw. apply Hne. apply le_antisym; [now apply Fw|exact Hpw].
        -- intros [[<-|Hx] Hxp]; [now left|].
           destruct (bytes_eqb x w) eqn:Exw.
           ++ apply bytes_eqb_true in Exw. now left.
           ++ right. split; [exact Hx|]. intros ->.
              rewrite (proj2 (bytes_eqb_true w w) eq_refl) in Exw. discriminate.
Qed.

Lemma dedup_none_spec l :
  StronglySorted le l ->
  StronglySorted slt (dedup_b None l) /\ (forall x, In x (dedup_b None l) <-> In x l).
Proof.
  destruct l as [|w r]; intros S; cbn [dedup_b].
  - split; [constructor|tauto].
  - apply StronglySorted_inv in S as [S Fw].
    destruct (dedup_some_spec r w S Fw) as [A B]. split.
    + constructor; [exact A|]. apply Forall_forall. intros x Hx. apply B in Hx as [Hx Hxw].
      rewrite Forall_forall in Fw. apply le_neq_slt; [now apply Fw|congruence].
    + intros x. cbn [In]. rewrite B. split.
      * intros [<-|[Hx _]]; [now left|now right].
      * intros [<-|Hx]; [now left|].
        destruct (bytes_eqb x w) eqn:Exw.
        -- apply bytes_eqb_true in Exw. now left.
        -- right. split; [exact Hx|]. intros ->.
           rewrite (proj2 (bytes_eqb_true w w) eq_refl) in Exw. discriminate.
Qed.

Lemma strict_sorted_unique l1 : forall l2,
  StronglySorted slt l1 -> StronglySorted slt l2 ->
  (forall x, In x l1 <-> In x l2) -> l1 = l2.
Proof.
  induction l1 as [|x l1 IH]; intros [|y l2] S1 S2 HS.
  - reflexivity.
  - exfalso. apply (proj2 (HS y)). now left.
  - exfalso. apply (proj1 (HS x)). now left.
  - apply StronglySorted_inv in S1 as [S1 F1]. apply StronglySorted_inv in S2 as [S2 F2].
    rewrite Forall_forall in F1, F2.
    assert (x = y).
    { destruct (proj1 (HS x) (or_introl eq_refl)) as [->|Hx]; [reflexivity|].
      destruct (proj2 (HS y) (or_introl eq_refl)) as [->|Hy]; [reflexivity|].
      exfalso. exact (slt_asym x y (F1 y Hy) (F2 x Hx)). }
    subst y. f_equal. apply IH; try assumption.
    intros z. split; intros Hz.
    + destruct (proj1 (HS z) (or_intror Hz)) as [->|H']; [|exact H'].
      exfalso. exact (slt_irrefl z (F1 z Hz)).
    + destruct (proj2 (HS z) (or_intror Hz)) as [->|H']; [|exact H'].
      exfalso. exact (slt_irrefl z (F2 z Hz)).
Qed.

(* the canonical list of a multiset of octet strings depends only on its set *)
Definition canon_list (l : list bytes) : list bytes := dedup_b None (isort_b l).

Lemma canon_list_set l1 l2 :
  (forall x, In x l1 <-> In x l2) -> canon_list l1 = canon_list l2.
Proof.
  intros HS. unfold canon_list.
  destruct (dedup_none_spec _ (isort_b_sorted l1)) as [A1 B1].
  destruct (dedup_none_spec _ (isort_b_sorted l2)) as [A2 B2].
  apply strict_sorted_unique; try assumption.
  intros x. rewrite B1, B2. split; intros Hx.
  - eapply Permutation_in; [symmetry; apply isort_b_perm|].
    apply HS. eapply Permutation_in; [apply isort_b_perm|exact Hx].
  - eapply Permutation_in; [symmetry; apply isort_b_perm|].
    apply HS. eapply Permutation_in; [apply isort_b_perm|exact Hx].
Qed.

Lemma canon_list_in l x : In x (canon_list l) <-> In x l.
Proof.
  unfold canon_list. destruct (dedup_none_spec _ (isort_b_sorted l)) as [_ B]. rewrite B.
  split; intros Hx.
  - eapply Permutation_in; [apply isort_b_perm|exact Hx].
  - eapply Permutation_in; [symmetry; apply isort_b_perm|exact Hx].
Qed.

Lemma canon_list_sorted l : StronglySorted slt (canon_list l).
Proof. unfold canon_list. now destruct (dedup_none_spec _ (isort_b_sorted l)). Qed.
