(* Model/Mux.v — serve_mux.go: ServeMux.Handle / HandleRemove / match / ServeDNS
   (property C14).  The map from canonical pattern to handler is an association
   list in which a newer binding shadows older ones and removal deletes every
   binding of the key, which is observationally Go's map.  Names are octet
   strings in presentation form; CanonicalName and NextLabel come from
   Model/Labels.v.  Definitions only. *)
From Dns Require Export Model.Labels Model.Serve.
Open Scope N_scope.

Definition TypeDS : N := 43.

Section Mux.
  Context {H : Type}.
  Definition mux := list (bytes * H).

  Fixpoint lookup (z : mux) (k : bytes) : option H :=
    match z with
    | [] => None
    | (p, h) :: r => if bytes_eqb p k then Some h else lookup r k
    end.

  (* Handle: panics on the empty pattern, else z[CanonicalName(pattern)] = handler *)
  Definition mux_handle (z : mux) (pattern : bytes) (h : H) : res mux :=
    match pattern with
    | [] => Panic
    | _ => Ok ((canonical_name pattern, h) :: z)
    end.
  (* HandleRemove: delete(z, CanonicalName(pattern)) *)
  Definition mux_remove (z : mux) (pattern : bytes) : res mux :=
    match pattern with
    | [] => Panic
    | _ => Ok (filter (fun e => negb (bytes_eqb (fst e) (canonical_name pattern))) z)
    end.

  (* after the loop: the root zone as a last resort, else what the loop kept *)
  Definition match_finish (z : mux) (handler : option H) : option H :=
    match lookup z [46] with
    | Some h => Some h
    | None => handler
    end.

  (* for off, end := 0, false; !end; off, end = NextLabel(q, off) { ... }
     One unfolding per loop iteration; q[off:] panics when off > len(q). *)
  Fixpoint match_go (fuel : nat) (z : mux) (q : bytes) (t : N) (off : nat) (handler : option H)
    : res (option H) :=
    match fuel with
    | O => OutOfFuel
    | S f =>
      if Nat.ltb (length q) off then Panic
      else
        let continue (handler' : option H) :=
          let '(off', fin) := next_label q off in
          if fin then Ok (match_finish z handler') else match_go f z q t off' handler' in
        match lookup z (skipn off q) with
        | Some h => if negb (t =? TypeDS) then Ok (Some h) else continue (Some h)
        | None => continue handler
        end
    end.

  (* ServeMux.match (mux.z == nil behaves as the empty map) *)
  Definition mux_match (z : mux) (q : bytes) (t : N) : res (option H) :=
    let q' := canonical_name q in
    match_go (S (length q')) z q' t 0 None.

  (* What ServeMux.ServeDNS does with a request whose question section is qs
     (name, qtype): dispatch to a handler or answer REFUSED itself. *)
  Inductive dispatch :=
  | ToHandler (h : H)
  | Refused.

  Definition mux_serve (z : mux) (qs : list (bytes * N)) : res dispatch :=
    match qs with
    | (name, qtype) :: _ =>
      do r <- mux_match z name qtype;
      match r with
      | Some h => Ok (ToHandler h)
      | None => Ok Refused
      end
    | [] => Ok Refused
    end.
End Mux.
Arguments mux H : clear implicits.
Arguments dispatch H : clear implicits.

(* ---- specification vocabulary (independent of the loop above) ---- *)

(* s[i] is a dot that separates labels: preceded by an even number of backslashes *)
Definition sep_at (s : bytes) (i : nat) : Prop :=
  nth_error s i = Some 46 /\ Nat.even (bs_run (rev (firstn i s))) = true.

(* p is the offset of the first octet of a label of the (fully qualified,
   non-empty) name s: offset 0, or just after a separating dot other than the
   final one *)
Definition label_start (s : bytes) (p : nat) : Prop :=
  p = O \/ exists i, p = S i /\ sep_at s i /\ (S i < length s)%nat.

(* the list of all offsets the loop of match visits *)
Fixpoint walk (fuel : nat) (q : bytes) (off : nat) : option (list nat) :=
  match fuel with
  | O => None
  | S f =>
    let '(off', fin) := next_label q off in
    if fin then Some [off]
    else match walk f q off' with Some w => Some (off :: w) | None => None end
  end.
