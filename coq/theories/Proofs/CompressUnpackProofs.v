(* Proofs/CompressUnpackProofs.v — transparency of compression at the level of
   Msg.Unpack: the octets Pack produces with compression and the octets it
   produces without are both accepted by unpack_msg, without error flag, and
   decode to the same header, the same questions and, record by record, to
   records that agree with the packed message field by field (rr_same of C01;
   Hdr.Rdlength necessarily differs, it is the length of the RDATA on the wire). *)
From Dns Require Import Gen.Layouts.
From Dns Require Import Base.ListX Model.Msg Spec.NameSpec Proofs.EscapeProofs Proofs.LabelsProofs
  Proofs.NameWireProofs Proofs.NameRoundtripProofs Proofs.LayoutProofs Proofs.DecodeFieldsProofs
  Proofs.RoundtripFieldProofs Proofs.RoundtripRRProofs
  Proofs.CompressProofs Proofs.CompressFieldsProofs Proofs.CompressMsgProofs Proofs.CompressRoundtripProofs.
From Dns Require Proofs.LenMsgProofs.
From Coq Require Import Lia ZifyN ZifyNat ZifyBool.
Open Scope list_scope.
Open Scope N_scope.

(* ================= the plain invariant along the packer ================= *)
Lemma agree_nil_eq a b : agree [] a b -> a = b.
Proof.
  intros [Hl H]. apply (nth_ext _ _ 0 0); [unfold lenN in Hl; lia|].
  intros n Hn. specialize (H (N.of_nat n)). unfold nthN in H. rewrite Nat2N.id in H.
  apply H; [unfold lenN; lia|intros []].
Qed.

Lemma minv_of_st_inv st : st_inv st -> minv [] st.
Proof.
  intro H. apply st_inv_split in H. destruct H as [Hk Hl]. exists [].
  split; [exact Hk|]. split; [intros i []|].
  intros out' Ha. apply agree_nil_eq in Ha. subst out'. split; [exact Hl|constructor].
Qed.

Lemma st_inv_of_minv T st : minv T st -> st_inv st.
Proof. intro H. destruct (minv_good _ _ H) as [[Hl _] Hk]. apply st_inv_split. now split. Qed.

Lemma step_st_inv st st' new : step st st' new -> st_inv st -> st_inv st'.
Proof. intros Hs Hi. exact (st_inv_of_minv _ _ (minv_step _ _ _ _ (minv_of_st_inv _ Hi) Hs)). Qed.

Lemma pack_rr_st_inv r cap cp st st' :
  st_inv st -> lenN (pn_out st) < cap -> pack_rr r cap cp st = Ok st' -> st_inv st'.
Proof.
  intros Hi Hlt H. assert (Hc : (poff st =? cap) = false) by (unfold poff; lia).
  exact (st_inv_of_minv _ _ (pack_rr_minv _ _ _ _ _ _ (minv_of_st_inv _ Hi) Hc H)).
Qed.

(* ================= questions ================= *)
Definition q_canon (q : question) : Prop :=
  exists ls, q_name q = show_name ls /\ valid_wire ls = true /\ q_type q < 65536 /\ q_class q < 65536.

Lemma cquestion_roundtrip q cap cp st st' :
  q_canon q -> st_inv st -> pack_question q cap cp st = Ok st' ->
  st_inv st' /\ exists b, pn_out st' = pn_out st ++ b /\ 5 <= lenN b /\
    forall post, unpack_question (pn_out st' ++ post) (lenN (pn_out st)) = Ok (q, lenN (pn_out st')).
Proof.
  intros [ls [Hname [Hls [Ht Hc]]]] Hinv H.
  split; [exact (step_st_inv _ _ _ (step_question _ _ _ _ _ H) Hinv)|].
  apply st_inv_split in Hinv. destruct Hinv as [Hk Hl].
  unfold pack_question in H. inv_bind H. rewrite Hname in Ha.
  destruct (cname_roundtrip ls cap cp st a Hls Hk Ha) as [bn [Hbn [Ea [_ [_ Cn]]]]].
  inv_bind H. apply pack_fixed_pemit in Ha0. destruct Ha0 as [-> _].
  apply pack_fixed_pemit in H. destruct H as [-> _].
  assert (Hbn1 : 1 <= lenN bn). { destruct bn; [congruence|]. rewrite lenN_cons. lia. }
  set (out := pn_out st) in *. set (T := u16 (q_type q)). set (C := u16 (q_class q)).
  exists (bn ++ T ++ C). unfold pemit. cbn [pn_out]. rewrite Ea.
  split; [now rewrite <- !app_assoc|].
  split; [rewrite !lenN_app; unfold T, C; cbn [u16 lenN length N.of_nat]; lia|].
  intro post. unfold unpack_question.
  set (msg := (((out ++ bn) ++ T) ++ C) ++ post).
  assert (Emsg : msg = out ++ bn ++ T ++ C ++ post) by (unfold msg; rewrite <- !app_assoc; reflexivity).
  assert (Hlen : lenN msg = lenN out + lenN bn + 4 + lenN post).
  { rewrite Emsg, !lenN_app. unfold T, C. cbn [u16 lenN length N.of_nat]. lia. }
  destruct (Cn out (T ++ C ++ post) eq_refl Hl) as [Hn _]. rewrite <- Emsg in Hn. rewrite Hn.
  rewrite Hlen. bfalse (lenN out + lenN bn =? lenN out + lenN bn + 4 + lenN post).
  rewrite (unpack_fixed_at msg (out ++ bn) T (C ++ post));
    [|rewrite Emsg, <- !app_assoc; reflexivity|now rewrite lenN_app|reflexivity].
  cbn [bind fst snd].
  bfalse (lenN out + lenN bn + 2 =? lenN out + lenN bn + 4 + lenN post).
  rewrite (unpack_fixed_at msg (out ++ bn ++ T) C post);
    [|rewrite Emsg, <- !app_assoc; reflexivity|rewrite !lenN_app; unfold T; cbn [u16 lenN length N.of_nat]; lia|reflexivity].
  cbn [bind fst snd]. unfold T, C. rewrite !be_u16 by assumption.
  f_equal. f_equal.
  - destruct q as [qn qt qc]. cbn [q_name q_type q_class] in *. now rewrite Hname.
  - rewrite !lenN_app. cbn [u16 lenN length N.of_nat]. lia.
Qed.

Lemma cquestions_roundtrip l : forall cap cp st st' acc,
  Forall q_canon l -> st_inv st -> pack_questions l cap cp st = Ok st' ->
  st_inv st' /\ exists b, pn_out st' = pn_out st ++ b /\ (l <> [] -> 1 <= lenN b) /\
    forall post, unpack_questions (length l) (pn_out st' ++ post) (lenN (pn_out st)) acc =
                 Ok (acc ++ l, lenN (pn_out st')).
Proof.
  induction l as [|q t IH]; intros cap cp st st' acc Hc Hinv H.
  - cbn in H. injection H as <-. split; [exact Hinv|]. exists []. split; [now rewrite app_nil_r|].
    split; [congruence|]. intro post. cbn. now rewrite app_nil_r.
  - inversion Hc as [|? ? Hq Hc']; subst. cbn [pack_questions] in H. inv_bind H.
    destruct (cquestion_roundtrip q cap cp st a Hq Hinv Ha) as [Hinv1 [b1 [E1 [Hb1 Hu1]]]].
    destruct (IH cap cp a st' (acc ++ [q]) Hc' Hinv1 H) as [Hinv2 [b2 [E2 [_ Hu2]]]].
    split; [exact Hinv2|]. exists (b1 ++ b2). split; [now rewrite E2, E1, app_assoc|].
    split; [intros _; rewrite lenN_app; lia|].
    intro post. cbn [length unpack_questions].
    rewrite E2, <- app_assoc, Hu1. cbn [bind fst snd].
    assert (Hadv : (lenN (pn_out a) =? lenN (pn_out st)) = false) by (rewrite E1, lenN_app; lia).
    rewrite Hadv.
    rewrite app_assoc, <- E2, Hu2, <- app_assoc. reflexivity.
Qed.

(* ================= record sections ================= *)
Definition rr_canon (r : rr) : Prop :=
  exists L ls, find_layout layouts (rr_kind r) = Some L /\ rr_ok r ls /\ fields_canon (rr_data r) (tl_pack L).
Definition rr_agrees (r' r : rr) : Prop :=
  exists L, find_layout layouts (rr_kind r) = Some L /\ rr_same L r' r.

Lemma layout_ok_of_find k L : find_layout layouts k = Some L -> layout_ok [] (tl_pack L) = true.
Proof.
  intro H. pose proof all_layouts_supported as A. rewrite forallb_forall in A.
  exact (A L (find_layout_in _ _ _ H)).
Qed.

Lemma crrs_roundtrip l : forall capc cpc stc stc' capu outu stu' acc,
  Forall rr_canon l -> st_inv stc ->
  pack_rrs l capc cpc stc = Ok stc' -> pack_rrs l capu false (st0 outu) = Ok stu' ->
  lenN (pn_out stc') < capc -> lenN (pn_out stu') < capu ->
  st_inv stc' /\ (exists bu, stu' = st0 (outu ++ bu)) /\
  exists b, pn_out stc' = pn_out stc ++ b /\ (l <> [] -> 1 <= lenN b) /\
    forall post, exists rs',
      unpack_rr_slice (length l) (pn_out stc' ++ post) (lenN (pn_out stc)) acc =
        Ok (acc ++ rs', lenN (pn_out stc')) /\
      Forall2 rr_agrees rs' l.
Proof.
  induction l as [|r t IH]; intros capc cpc stc stc' capu outu stu' acc Hc Hinv Hpc Hpu Hltc Hltu.
  - cbn in Hpc, Hpu. injection Hpc as <-. injection Hpu as <-. split; [exact Hinv|].
    split; [exists []; now rewrite app_nil_r|]. exists []. split; [now rewrite app_nil_r|].
    split; [congruence|]. intro post. exists []. cbn. rewrite app_nil_r. split; [reflexivity|constructor].
  - inversion Hc as [|? ? [L [ls [Hfind [Hrok Hcanon]]]] Hc']; subst.
    cbn [pack_rrs] in Hpc, Hpu. inv_bind Hpc. inv_bind Hpu. rename a into c1. rename a0 into u1.
    pose proof (proj1 (proj1 (st_inv_split stc) Hinv)) as Hk.
    destruct (pack_rr_mono _ _ _ _ _ Hk Ha) as [Hk1 [_ Hm1]].
    destruct (pack_rrs_mono _ _ _ _ _ Hk1 Hpc) as [_ [_ Hm2]].
    destruct (pack_rr_mono r capu false (st0 outu) u1 I Ha0) as [Hku1 [_ Hmu1]].
    destruct (pack_rrs_mono _ _ _ _ _ Hku1 Hpu) as [_ [_ Hmu2]].
    cbn [st0 pn_out] in Hmu1.
    assert (Hcapc : lenN (pn_out stc) < capc) by lia.
    assert (Hcapu : lenN outu < capu) by lia.
    pose proof (layout_ok_of_find _ _ Hfind) as Hlok.
    destruct (crr_roundtrip r L ls capc cpc stc c1 capu outu u1 [] Hfind Hlok Hrok Hcanon Hinv Hcapc Hcapu Ha Ha0)
      as [bn0 [rd0 [_ [Hbn0 [E1 [_ [_ [_ [bu1 ->]]]]]]]]].
    pose proof (pack_rr_st_inv _ _ _ _ _ Hinv Hcapc Ha) as Hinv1.
    destruct (IH capc cpc c1 stc' capu (outu ++ bu1) stu' (acc ++ []) Hc' Hinv1 Hpc Hpu Hltc Hltu)
      as [Hinv2 [[bu2 ->] [b2 [E2 _]]]].
    split; [exact Hinv2|]. split; [exists (bu1 ++ bu2); now rewrite app_assoc|].
    exists (crr_wire bn0 r rd0 ++ b2). split; [now rewrite E2, E1, app_assoc|].
    split; [intros _; rewrite lenN_app, len_crr_wire; lia|].
    intro post.
    destruct (crr_roundtrip r L ls capc cpc stc c1 capu outu (st0 (outu ++ bu1)) (b2 ++ post)
                Hfind Hlok Hrok Hcanon Hinv Hcapc Hcapu Ha Ha0)
      as [bn [rd [r' [Hbn [E1' [Hun [_ [Hsame _]]]]]]]].
    destruct (IH capc cpc c1 stc' capu (outu ++ bu1) (st0 ((outu ++ bu1) ++ bu2)) (acc ++ [r']) Hc' Hinv1 Hpc Hpu Hltc Hltu)
      as [_ [_ [b2' [E2' [_ Hsl]]]]].
    destruct (Hsl post) as [rs' [Hs Hag]].
    exists (r' :: rs'). split; [|constructor; [now exists L|exact Hag]].
    cbn [length unpack_rr_slice]. rewrite E2, <- app_assoc, Hun.
    assert (Hadv : (lenN (pn_out c1) =? lenN (pn_out stc)) = false).
    { rewrite E1', lenN_app, len_crr_wire. lia. }
    rewrite Hadv, app_assoc, <- E2, Hs, <- app_assoc. reflexivity.
Qed.

(* ================= the message ================= *)
Lemma take_at_app_l (a b : bytes) off n : off + n <= lenN a -> take_at (a ++ b) off n = take_at a off n.
Proof.
  intro H. unfold take_at, takeN, dropN. rewrite skipn_app, firstn_app.
  replace (N.to_nat n - length (skipn (N.to_nat off) a))%nat with O
    by (rewrite skipn_length; unfold lenN in H; lia).
  cbn [firstn]. now rewrite app_nil_r.
Qed.

(* the six 16-bit words of the header Pack writes *)
Definition hword (m : msg) (i : N) : N := be (take_at (msg_hdr m) (2 * i) 2) 0.

Lemma hword_at m rest i : i < 6 -> be (take_at (msg_hdr m ++ rest) (2 * i) 2) 0 = hword m i.
Proof. intro H. unfold hword. rewrite take_at_app_l; [reflexivity|]. change (lenN (msg_hdr m)) with 12. lia. Qed.

Lemma hword_2 m : lenN (m_question m) < 65536 -> hword m 2 = lenN (m_question m).
Proof. intro H. unfold hword. change (take_at (msg_hdr m) (2 * 2) 2) with (u16 (lenN (m_question m))). now apply be_u16. Qed.
Lemma hword_3 m : lenN (m_answer m) < 65536 -> hword m 3 = lenN (m_answer m).
Proof. intro H. unfold hword. change (take_at (msg_hdr m) (2 * 3) 2) with (u16 (lenN (m_answer m))). now apply be_u16. Qed.
Lemma hword_4 m : lenN (m_ns m) < 65536 -> hword m 4 = lenN (m_ns m).
Proof. intro H. unfold hword. change (take_at (msg_hdr m) (2 * 4) 2) with (u16 (lenN (m_ns m))). now apply be_u16. Qed.
Lemma hword_5 m : lenN (msg_extra m) < 65536 -> hword m 5 = lenN (msg_extra m).
Proof. intro H. unfold hword. change (take_at (msg_hdr m) (2 * 5) 2) with (u16 (lenN (msg_extra m))). now apply be_u16. Qed.

Definition rr_dflt : rr :=
  {| rr_name := []; rr_type := 0; rr_class := 0; rr_ttl := 0; rr_rdlength := 0; rr_kind := ""; rr_data := [] |}.
(* the RCODE Unpack reports: the low four header bits joined with the upper
   eight bits held in the TTL of the last OPT record *)
Definition ext_of (rc0 : N) (ex : list rr) : N :=
  match last_opt_index ex O None with
  | Some i => N.lor rc0 (ext_rcode_of_ttl (rr_ttl (nth i ex rr_dflt)))
  | None => rc0
  end.

Lemma unpack_msg_assemble m rest qs' an' ns' ex' o1 o2 o3 o4 :
  lenN (m_question m) < 65536 -> lenN (m_answer m) < 65536 -> lenN (m_ns m) < 65536 ->
  lenN (msg_extra m) < 65536 -> rest <> [] ->
  unpack_questions (length (m_question m)) (msg_hdr m ++ rest) 12 [] = Ok (qs', o1) ->
  unpack_rr_slice (length (m_answer m)) (msg_hdr m ++ rest) o1 [] = Ok (an', o2) ->
  unpack_rr_slice (length (m_ns m)) (msg_hdr m ++ rest) o2 [] = Ok (ns', o3) ->
  unpack_rr_slice (length (msg_extra m)) (msg_hdr m ++ rest) o3 [] = Ok (ex', o4) ->
  unpack_msg (msg_hdr m ++ rest) =
  Ok (msg_of_bits (hword m 0) (hword m 1) qs' an' ns' ex' (ext_of (hword m 1 mod 16) ex'), false).
Proof.
  intros C2 C3 C4 C5 Hrest Hq Han Hns Hex. unfold unpack_msg.
  assert (Hlen : lenN (msg_hdr m ++ rest) = 12 + lenN rest) by (rewrite lenN_app; reflexivity).
  assert (Hr1 : 1 <= lenN rest). { destruct rest; [congruence|]. rewrite lenN_cons. lia. }
  unfold unpack_fixed. rewrite Hlen. bfalse (12 + lenN rest <? 0 + 12). cbn [bind].
  bfalse (12 + lenN rest =? 12).
  rewrite !hword_at by lia.
  rewrite (hword_2 m C2), (hword_3 m C3), (hword_4 m C4), (hword_5 m C5), !lenN_nat.
  rewrite Hq, Han, Hns, Hex. reflexivity.
Qed.

Lemma unpack_msg_header_only m :
  unpack_msg (msg_hdr m) = Ok (msg_of_bits (hword m 0) (hword m 1) [] [] [] [] (hword m 1 mod 16), false).
Proof. reflexivity. Qed.

Lemma rr_agrees_type_ttl r' r : rr_agrees r' r -> rr_type r' = rr_type r /\ rr_ttl r' = rr_ttl r.
Proof. intros [L [_ [_ [Ht [_ [Httl _]]]]]]. auto. Qed.

Lemma last_opt_index_agrees ex' ex : Forall2 rr_agrees ex' ex ->
  forall i acc, last_opt_index ex' i acc = last_opt_index ex i acc.
Proof.
  induction 1 as [|r' r ex' ex Hr _ IH]; intros i acc; [reflexivity|]. cbn [last_opt_index].
  unfold is_opt. rewrite (proj1 (rr_agrees_type_ttl _ _ Hr)). apply IH.
Qed.

Lemma nth_ttl_agrees ex' ex : Forall2 rr_agrees ex' ex ->
  forall i, rr_ttl (nth i ex' rr_dflt) = rr_ttl (nth i ex rr_dflt).
Proof.
  induction 1 as [|r' r ex' ex Hr _ IH]; intros [|i]; cbn [nth]; auto.
  exact (proj2 (rr_agrees_type_ttl _ _ Hr)).
Qed.

Lemma ext_of_agrees rc0 ex' ex : Forall2 rr_agrees ex' ex -> ext_of rc0 ex' = ext_of rc0 ex.
Proof.
  intro H. unfold ext_of. rewrite (last_opt_index_agrees _ _ H).
  destruct (last_opt_index ex 0 None); [|reflexivity]. now rewrite (nth_ttl_agrees _ _ H).
Qed.

Lemma st0_of_none st : pn_cm st = None -> st = st0 (pn_out st).
Proof. destruct st as [o c]. cbn. intros ->. reflexivity. Qed.

(* canonical messages: the C01 conditions on every question and record (the
   additional section as Pack writes it, i.e. with the extended RCODE set into
   the OPT TTL), and section counts that fit the 16-bit header fields *)
Definition msg_canon (m : msg) : Prop :=
  Forall q_canon (m_question m) /\ Forall rr_canon (m_answer m) /\ Forall rr_canon (m_ns m) /\
  Forall rr_canon (msg_extra m) /\
  lenN (m_question m) < 65536 /\ lenN (m_answer m) < 65536 /\ lenN (m_ns m) < 65536 /\
  lenN (msg_extra m) < 65536.

(* Unpack of what Pack wrote, compressed or not: no error, the header words, the
   questions, the RCODE, and records that agree with the packed ones *)
Theorem unpack_of_pack m buflen w u wu uu :
  LenMsgProofs.msg_okb m = true -> msg_canon m ->
  pack_msg_buf m buflen = Ok (w, u) -> pack_msg_buf (uncompressed m) buflen = Ok (wu, uu) ->
  exists an' ns' ex',
    unpack_msg w = Ok (msg_of_bits (hword m 0) (hword m 1) (m_question m) an' ns' ex'
                         (ext_of (hword m 1 mod 16) (msg_extra m)), false) /\
    Forall2 rr_agrees an' (m_answer m) /\ Forall2 rr_agrees ns' (m_ns m) /\
    Forall2 rr_agrees ex' (msg_extra m).
Proof.
  intros Hok [Cq [Can [Cns [Cex [N2 [N3 [N4 N5]]]]]]] Hc Hu.
  pose proof (msg_okb_room _ _ _ _ Hok Hc) as Hltc.
  pose proof (msg_okb_room _ _ _ _ (eq_trans (uncompressed_okb m) Hok) Hu) as Hltu.
  rewrite uncompressed_cap in Hltu.
  destruct (pack_msg_buf_st _ _ _ _ Hc) as [stc [Sc ->]]. destruct (pack_msg_buf_st _ _ _ _ Hu) as [stu [Su ->]].
  unfold pack_msg_st in Sc, Su.
  rewrite uncompressed_cap, uncompressed_extra, uncompressed_hdr, uncompressed_cflag in Su.
  cbn [uncompressed m_question m_answer m_ns] in Su.
  set (cap := msg_cap m buflen) in *.
  inv_bind Sc. rename a into c1. apply pack_fixed_pemit in Ha. destruct Ha as [-> _].
  inv_bind Sc. rename a into c2. rename Ha into Qc.
  inv_bind Sc. rename a into c3. rename Ha into Ac.
  inv_bind Sc. rename a into c4. rename Ha into Nc.
  inv_bind Su. rename a into u1. apply pack_fixed_pemit in Ha. destruct Ha as [-> _].
  inv_bind Su. rename a into u2. rename Ha into Qu.
  inv_bind Su. rename a into u3. rename Ha into Au.
  inv_bind Su. rename a into u4. rename Ha into Nu.
  (* monotone lengths *)
  assert (I0 : st_inv (msg_st0 m)).
  { unfold msg_st0. destruct (msg_cflag m); [apply st_inv_empty_map|apply st_inv_no_map]. }
  pose proof (step_st_inv _ _ _ (step_pemit (msg_st0 m) (msg_hdr m)) I0) as I1.
  set (c1 := pemit (msg_st0 m) (msg_hdr m)) in *.
  assert (Ec1 : pn_out c1 = msg_hdr m) by reflexivity.
  destruct (cquestions_roundtrip _ _ _ _ _ [] Cq I1 Qc) as [I2 [bq [Eq [Hbq Uq]]]].
  pose proof (proj1 (proj1 (st_inv_split c2) I2)) as K2.
  destruct (pack_rrs_mono _ _ _ _ _ K2 Ac) as [K3 [_ M3]].
  destruct (pack_rrs_mono _ _ _ _ _ K3 Nc) as [K4 [_ M4]].
  destruct (pack_rrs_mono _ _ _ _ _ K4 Sc) as [_ [_ M5]].
  (* the uncompressed run stays map-less *)
  set (u1 := pemit (msg_st0 (uncompressed m)) (msg_hdr m)) in *.
  assert (Ku1 : opt_all cm_keys (pn_cm u1)) by exact I.
  assert (Nu1 : pn_cm u1 = None) by reflexivity.
  destruct (step_mono _ _ _ (step_questions _ _ _ _ _ Qu) Ku1) as [Ku2 [Nn2 _]].
  specialize (Nn2 Nu1). rewrite (st0_of_none u2 Nn2) in Au.
  assert (Ku2' : opt_all cm_keys (pn_cm (st0 (pn_out u2)))) by exact I.
  destruct (pack_rrs_mono _ _ _ _ _ Ku2' Au) as [Ku3 [_ Mu3]].
  destruct (pack_rrs_mono _ _ _ _ _ Ku3 Nu) as [Ku4 [_ Mu4]].
  destruct (pack_rrs_mono _ _ _ _ _ Ku4 Su) as [_ [_ Mu5]].
  (* the three record sections *)
  destruct (crrs_roundtrip _ cap (msg_cflag m) c2 c3 cap (pn_out u2) u3 [] Can I2 Ac Au ltac:(lia) ltac:(lia))
    as [I3 [[bu3 Eu3] [ba [Ea [Hba Ua]]]]].
  subst u3.
  destruct (crrs_roundtrip _ cap (msg_cflag m) c3 c4 cap _ u4 [] Cns I3 Nc Nu ltac:(lia) ltac:(lia))
    as [I4 [[bu4 Eu4] [bn [En [Hbn Un]]]]].
  subst u4.
  destruct (crrs_roundtrip _ cap (msg_cflag m) c4 stc cap _ stu [] Cex I4 Sc Su ltac:(lia) ltac:(lia))
    as [_ [_ [be [Ee [Hbe Ue]]]]].
  (* the octets *)
  assert (Ew : pn_out stc = msg_hdr m ++ (bq ++ ba ++ bn ++ be)).
  { rewrite Ee, En, Ea, Eq, Ec1, <- !app_assoc. reflexivity. }
  destruct (Ua (bn ++ be)) as [an' [Uan Fan]]. destruct (Un be) as [ns' [Uns Fns]].
  destruct (Ue []) as [ex' [Uex Fex]].
  specialize (Uq (ba ++ bn ++ be)).
  assert (W2 : pn_out c2 ++ ba ++ bn ++ be = pn_out stc) by (rewrite Ee, En, Ea, <- !app_assoc; reflexivity).
  assert (W3 : pn_out c3 ++ bn ++ be = pn_out stc) by (rewrite Ee, En, <- !app_assoc; reflexivity).
  assert (W4 : pn_out c4 ++ be = pn_out stc) by (rewrite Ee; reflexivity).
  rewrite W2 in Uq. rewrite W3 in Uan. rewrite W4 in Uns. rewrite app_nil_r in Uex.
  assert (L1 : lenN (pn_out c1) = 12) by reflexivity. rewrite L1 in Uq. cbn [app] in Uq, Uan, Uns, Uex.
  exists an', ns', ex'. split; [|auto].
  rewrite <- (ext_of_agrees _ _ _ Fex).
  destruct (list_eq_dec N.eq_dec (bq ++ ba ++ bn ++ be) []) as [Enil|Hne].
  - (* nothing but the header: every section is empty *)
    apply app_eq_nil in Enil. destruct Enil as [Eq0 Enil]. apply app_eq_nil in Enil. destruct Enil as [Ea0 Enil].
    apply app_eq_nil in Enil. destruct Enil as [En0 Ee0].
    assert (Q0 : m_question m = []).
    { destruct (m_question m); [reflexivity|]. subst bq. specialize (Hbq ltac:(discriminate)). cbn in Hbq. lia. }
    assert (A0 : m_answer m = []).
    { destruct (m_answer m); [reflexivity|]. subst ba. specialize (Hba ltac:(discriminate)). cbn in Hba. lia. }
    assert (S0 : m_ns m = []).
    { destruct (m_ns m); [reflexivity|]. subst bn. specialize (Hbn ltac:(discriminate)). cbn in Hbn. lia. }
    assert (X0 : msg_extra m = []).
    { destruct (msg_extra m); [reflexivity|]. subst be. specialize (Hbe ltac:(discriminate)). cbn in Hbe. lia. }
    rewrite A0 in Fan. rewrite S0 in Fns. rewrite X0 in Fex.
    assert (Ean : an' = []) by (inversion Fan; reflexivity).
    assert (Ens : ns' = []) by (inversion Fns; reflexivity).
    assert (Eex : ex' = []) by (inversion Fex; reflexivity).
    rewrite Ean, Ens, Eex.
    rewrite Ew, Eq0, Ea0, En0, Ee0, app_nil_r, Q0. apply unpack_msg_header_only.
  - rewrite Ew in *.
    exact (unpack_msg_assemble m _ _ _ _ _ _ _ _ _ N2 N3 N4 N5 Hne Uq Uan Uns Uex).
Qed.

(* ================= transparency at the level of Unpack ================= *)
Definition rr_hdr_eq (a b : rr) : Prop :=
  rr_name a = rr_name b /\ rr_type a = rr_type b /\ rr_class a = rr_class b /\ rr_ttl a = rr_ttl b /\
  rr_kind a = rr_kind b.

Lemma agrees_hdr_eq : forall lc lu l, Forall2 rr_agrees lc l -> Forall2 rr_agrees lu l -> Forall2 rr_hdr_eq lc lu.
Proof.
  induction lc as [|a lc IH]; intros lu l Hc Hu.
  - inversion Hc; subst. inversion Hu; subst. constructor.
  - inversion Hc as [|? r ? l' Ha Hc']; subst. inversion Hu as [|b ? lu' ? Hb Hu']; subst. constructor.
    + destruct Ha as [L [_ [A1 [A2 [A3 [A4 [A5 _]]]]]]]. destruct Hb as [L' [_ [B1 [B2 [B3 [B4 [B5 _]]]]]]].
      unfold rr_hdr_eq. repeat split; congruence.
    + eapply IH; eauto.
Qed.

(* Pack with compression and Pack without: Unpack accepts both without error
   and returns the same header words, the same questions, the same RCODE, and
   section by section records that agree with the packed message field by field
   (hence with each other on owner, TYPE, CLASS, TTL and struct type; the decoded
   RDATA fields of both are those of the packed record, Hdr.Rdlength is the
   wire length of the RDATA and is the one thing that legitimately differs) *)
Theorem compression_is_transparent_unpack m buflen wc uc wu uu :
  LenMsgProofs.msg_okb m = true -> msg_canon m ->
  pack_msg_buf m buflen = Ok (wc, uc) -> pack_msg_buf (uncompressed m) buflen = Ok (wu, uu) ->
  exists anc nsc exc anu nsu exu,
    unpack_msg wc = Ok (msg_of_bits (hword m 0) (hword m 1) (m_question m) anc nsc exc
                          (ext_of (hword m 1 mod 16) (msg_extra m)), false) /\
    unpack_msg wu = Ok (msg_of_bits (hword m 0) (hword m 1) (m_question m) anu nsu exu
                          (ext_of (hword m 1 mod 16) (msg_extra m)), false) /\
    Forall2 rr_agrees anc (m_answer m) /\ Forall2 rr_agrees anu (m_answer m) /\
    Forall2 rr_agrees nsc (m_ns m) /\ Forall2 rr_agrees nsu (m_ns m) /\
    Forall2 rr_agrees exc (msg_extra m) /\ Forall2 rr_agrees exu (msg_extra m) /\
    Forall2 rr_hdr_eq anc anu /\ Forall2 rr_hdr_eq nsc nsu /\ Forall2 rr_hdr_eq exc exu.
Proof.
  intros Hok Hcan Hc Hu.
  destruct (unpack_of_pack m buflen wc uc wu uu Hok Hcan Hc Hu) as [anc [nsc [exc [Uc [A1 [A2 A3]]]]]].
  destruct (unpack_of_pack (uncompressed m) buflen wu uu wu uu Hok Hcan Hu Hu) as [anu [nsu [exu [Uu [B1 [B2 B3]]]]]].
  exists anc, nsc, exc, anu, nsu, exu. split; [exact Uc|]. split; [exact Uu|].
  repeat split; auto; eapply agrees_hdr_eq; eauto.
Qed.

(* ================= non-vacuity ================= *)
Lemma ex_name_canon : forall s ls, s = show_name ls -> valid_wire ls = true ->
  exists ls0, V_s s = V_s (show_name ls0) /\ valid_wire ls0 = true.
Proof. intros s ls -> H. now exists ls. Qed.

Example ex_msg_canon : msg_canon ex_msg /\ LenMsgProofs.msg_okb ex_msg = true.
Proof.
  split; [|vm_compute; reflexivity].
  pose (exl := [ex_l "Example"; ex_l "com"]). pose (nsl := ex_l "ns1" :: exl).
  pose (lxl := [ex_l "example"; ex_l "com"]). pose (mxl := ex_l "mail" :: exl).
  unfold msg_canon. change (msg_extra ex_msg) with (m_extra ex_msg).
  cbn [ex_msg ex_msg_of m_question m_answer m_ns m_extra].
  split; [|split; [|split; [|split; [|repeat split; vm_compute; reflexivity]]]].
  - constructor; [|constructor]. exists exl. repeat split; vm_compute; reflexivity.
  - constructor; [|constructor; [|constructor]].
    + eexists. exists exl. split; [reflexivity|]. split; [repeat split; vm_compute; reflexivity|].
      constructor; [|constructor]. cbn [fst snd field_canon]. eexists. split; [reflexivity|].
      apply (ex_name_canon _ nsl); vm_compute; reflexivity.
    + eexists. exists lxl. split; [reflexivity|]. split; [repeat split; vm_compute; reflexivity|].
      constructor; [|constructor; [|constructor]]; cbn [fst snd field_canon]; (eexists; split; [reflexivity|]).
      * exists 10. split; [reflexivity|]. vm_compute. reflexivity.
      * apply (ex_name_canon _ mxl); vm_compute; reflexivity.
  - constructor.
  - constructor; [|constructor].
    eexists. exists nsl. split; [reflexivity|]. split; [repeat split; vm_compute; reflexivity|].
    constructor; [|constructor]. cbn [fst snd field_canon]. eexists. split; [reflexivity|].
    exists [192; 0; 2; 1]. split; reflexivity.
Qed.

(* and computed: both packings of that message unpack without error to the same
   questions and to records that differ in Rdlength only *)
Definition rr_no_len (r : rr) : rr :=
  {| rr_name := rr_name r; rr_type := rr_type r; rr_class := rr_class r; rr_ttl := rr_ttl r;
     rr_rdlength := 0; rr_kind := rr_kind r; rr_data := rr_data r |}.

Example ex_msg_unpacks :
  match pack_msg_buf ex_msg 0, pack_msg_buf (uncompressed ex_msg) 0 return Prop with
  | Ok (wc, _), Ok (wu, _) =>
    match unpack_msg wc, unpack_msg wu return Prop with
    | Ok (mc, fc), Ok (mu, fu) =>
      fc = false /\ fu = false /\ m_question mc = m_question ex_msg /\ m_question mu = m_question ex_msg /\
      map rr_no_len (m_answer mc) = map rr_no_len (m_answer mu) /\
      map rr_no_len (m_extra mc) = map rr_no_len (m_extra mu) /\
      map rr_rdlength (m_answer mc) = [6; 9] /\ map rr_rdlength (m_answer mu) = [17; 20] /\
      map rr_name (m_answer mc) = map rr_name (m_answer ex_msg) /\
      map rr_data (m_answer mc) = map rr_data (m_answer ex_msg)
    | _, _ => False
    end
  | _, _ => False
  end.
Proof. vm_compute. repeat split. Qed.
