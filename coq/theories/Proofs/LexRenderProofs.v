(* Proofs/LexRenderProofs.v — from zone TEXT to the denotation (C06): the plain
   rendering of an abstract zone, the side conditions under which a text is
   such a rendering, and the proof that the lexer model (Model/Lexer.v) turns
   the rendering into a token list that realizes the zone's skeleton. *)
From Dns Require Import Base.ListX Model.ZoneSpec Proofs.LexerProofs Proofs.ZoneProofs
     Proofs.ZoneSpecProofs Proofs.HeaderProofs.
From Coq Require Import Lia ZifyN ZifyNat ZifyBool.
Open Scope list_scope.
Open Scope N_scope.

Local Arguments frev : simpl never.

(* ---------- the state between octets, positions aside ---------- *)
(* what [step] looks at in the lexer state when there are no comments and no
   parentheses: the quote, space, rrtype and owner flags *)
Definition sinv (s : lst) (b : N) (q sp rr ow : bool) : Prop :=
  z_brace s = b /\ z_quote s = q /\ z_space s = sp /\ z_commt s = false /\
  z_rrtype s = rr /\ z_owner s = ow /\ z_combuf s = [].
(* the call-local buffers: [acc] is the gathered string, reversed *)
Definition linv (lc : loc) (acc : bytes) (e : bool) : Prop :=
  c_str lc = acc /\ c_stri lc = lenN acc /\ c_stri lc <= c_scap lc /\ c_comi lc = 0 /\ c_esc lc = e.
Definition linvg (lc : loc) (acc : bytes) (e : bool) : Prop :=
  c_str lc = acc /\ c_stri lc = lenN acc /\ c_stri lc < c_scap lc /\ c_comi lc = 0 /\ c_esc lc = e.

Lemma grow_linvg lc acc e : linv lc acc e -> linvg (grow lc) acc e.
Proof.
  intros [A [B0 [C [D E]]]]. unfold linvg, grow, maxTok. cbn [c_str c_stri c_scap c_comi c_esc].
  repeat split; auto. destruct (c_scap lc <=? c_stri lc) eqn:X; lia.
Qed.

Lemma read_byte_pos s x : exists l c b, read_byte s x = set_pos s l c b.
Proof. unfold read_byte. destruct (x =? 10); eauto. Qed.
Lemma sinv_read_byte b s x q sp rr ow : sinv s b q sp rr ow -> sinv (read_byte s x) b q sp rr ow.
Proof. destruct (read_byte_pos s x) as [l [c [eol ->]]]. unfold sinv. cbn. intros [A [B0 [C [D [E [F G]]]]]]. repeat split; assumption. Qed.

Lemma fresh_sinv b s q sp rr ow :
  sinv s b q sp rr ow -> sinv (fst (fresh s)) b q sp rr ow /\ linv (snd (fresh s)) [] false.
Proof.
  intros [A [B0 [C [D [E [F G]]]]]]. unfold fresh. rewrite G. cbn. unfold sinv, linv. cbn.
  repeat split; auto. apply N.le_0_l.
Qed.

(* the tokens a text yields from a state, as a predicate transformer: from
   every concrete state with these flags and this gathered string, lexing [inp]
   gives tokens realizing [K] *)
Definition LexTo (b : N) (q sp rr ow : bool) (acc : bytes) (e : bool) (inp : bytes) (K : list stok) : Prop :=
  forall s lc, sinv s b q sp rr ow -> linv lc acc e ->
    Forall2 realizes (fst (lex_go s lc inp false)) K.

Lemma LexTo_cont b q sp rr ow acc e x inp K b' q' sp' rr' ow' acc' e' :
  (forall s lc, sinv s b q sp rr ow -> linvg lc acc e ->
     exists s' lc', step s lc x = SCont s' lc' /\ sinv s' b' q' sp' rr' ow' /\ linv lc' acc' e') ->
  LexTo b' q' sp' rr' ow' acc' e' inp K ->
  LexTo b q sp rr ow acc e (x :: inp) K.
Proof.
  intros S H s lc Hs Hl. cbn [lex_go].
  destruct (S _ _ (sinv_read_byte _ s x _ _ _ _ Hs) (grow_linvg _ _ _ Hl)) as [s' [lc' [-> [Hs' Hl']]]].
  now apply H.
Qed.

Lemma LexTo_emit b q sp rr ow acc e x inp ks K q' sp' rr' ow' :
  (forall s lc, sinv s b q sp rr ow -> linvg lc acc e ->
     exists ts s', step s lc x = SEmit ts s' /\ Forall2 realizes ts ks /\ sinv s' b q' sp' rr' ow') ->
  LexTo b q' sp' rr' ow' [] false inp K ->
  LexTo b q sp rr ow acc e (x :: inp) (ks ++ K).
Proof.
  intros S H s lc Hs Hl. cbn [lex_go].
  destruct (S _ _ (sinv_read_byte _ s x _ _ _ _ Hs) (grow_linvg _ _ _ Hl)) as [ts [s' [-> [Ht Hs']]]].
  destruct (fresh_sinv _ _ _ _ _ _ Hs') as [F1 F2].
  destruct (fresh s') as [s2 lc2]. cbn [fst snd] in F1, F2.
  specialize (H s2 lc2 F1 F2).
  destruct (lex_go s2 lc2 inp false) as [l p]. cbn [fst] in *.
  apply Forall2_app; assumption.
Qed.

Lemma LexTo_end sp rr ow e : LexTo 0 false sp rr ow [] e [] [].
Proof.
  intros s lc [A _] [_ [B0 [_ [D _]]]]. cbn [lex_go fst].
  rewrite lex_eof_empty; [constructor|exact B0|exact D|exact A].
Qed.

(* ---------- octet classes ---------- *)
(* the octets [step] has a case for *)
Definition special (x : N) : bool :=
  (x =? 32) || (x =? 9) || (x =? 59) || (x =? 13) || (x =? 10) || (x =? 92) || (x =? 34) ||
  (x =? 40) || (x =? 41).
Definition regular (x : N) : bool := negb (special x).

Lemma regular_neq x : regular x = true ->
  (x =? 32) = false /\ (x =? 9) = false /\ (x =? 59) = false /\ (x =? 13) = false /\ (x =? 10) = false /\
  (x =? 92) = false /\ (x =? 34) = false /\ (x =? 40) = false /\ (x =? 41) = false.
Proof. unfold regular, special. intro H. repeat split; lia. Qed.

Lemma put_str_ok s lc x e acc e0 : linvg lc acc e0 ->
  exists lc', put_str s lc x e = SCont s lc' /\ linv lc' (x :: acc) e.
Proof.
  intros [A [B0 [C [D E]]]]. unfold put_str.
  destruct (c_stri lc <? c_scap lc) eqn:X; [|lia].
  eexists. split; [reflexivity|]. unfold linv. cbn [c_str c_stri c_scap c_comi c_esc].
  rewrite A. repeat split; auto; unfold lenN in *; cbn [length]; lia.
Qed.

(* an ordinary octet is appended, and clears the space flag *)
Lemma step_regular b s lc x q sp rr ow acc e :
  regular x = true -> sinv s b q sp rr ow -> linvg lc acc e ->
  exists s' lc', step s lc x = SCont s' lc' /\ sinv s' b q false rr ow /\ linv lc' (x :: acc) false.
Proof.
  intros R Hs Hl. destruct (regular_neq x R) as [R1 [R2 [R3 [R4 [R5 [R6 [R7 [R8 R9]]]]]]]].
  destruct Hs as [A [B0 [C [D [E [F G]]]]]].
  unfold step. rewrite R1, R2, R3, R4, R5, R6, R7, R8, R9, D. cbn [orb].
  destruct (put_str_ok s lc x false acc e Hl) as [lc' [-> L]].
  eexists. eexists. split; [reflexivity|]. split; [|exact L].
  unfold sinv. cbn. repeat split; assumption.
Qed.

(* the backslash is kept and sets the escape flag *)
Lemma step_backslash b s lc q sp rr ow acc :
  sinv s b q sp rr ow -> linvg lc acc false ->
  exists s' lc', step s lc 92 = SCont s' lc' /\ sinv s' b q sp rr ow /\ linv lc' (92 :: acc) true.
Proof.
  intros Hs Hl. destruct Hs as [A [B0 [C [D [E [F G]]]]]].
  unfold step. change (92 =? 32) with false. change (92 =? 9) with false. change (92 =? 59) with false.
  change (92 =? 13) with false. change (92 =? 10) with false. change (92 =? 92) with true.
  cbn [orb]. rewrite D. destruct Hl as [L1 [L2 [L3 [L4 L5]]]]. rewrite L5.
  destruct (put_str_ok s lc 92 true acc false (conj L1 (conj L2 (conj L3 (conj L4 L5))))) as [lc' [-> L]].
  eexists. eexists. split; [reflexivity|]. split; [|exact L]. unfold sinv. repeat split; assumption.
Qed.

(* a special octet that is kept: escaped (CR and LF only within quotes), or
   within quotes anything but the quote and the backslash *)
Definition kept (q e : bool) (x : N) : bool :=
  if e then q || (negb (x =? 13) && negb (x =? 10))
  else q && negb (x =? 92) && negb (x =? 34).

Lemma step_kept b s lc x q sp rr ow acc e :
  special x = true -> kept q e x = true -> sinv s b q sp rr ow -> linvg lc acc e ->
  exists s' lc', step s lc x = SCont s' lc' /\ sinv s' b q sp rr ow /\ linv lc' (x :: acc) false.
Proof.
  intros S K Hs Hl. pose proof Hs as [A [B0 [C [D [E [F G]]]]]].
  pose proof Hl as [L1 [L2 [L3 [L4 L5]]]].
  destruct (put_str_ok s lc x false acc e Hl) as [lc' [P L]].
  assert (Fin : put_str s lc x false = SCont s lc' ->
                exists s' lc'0, put_str s lc x false = SCont s' lc'0 /\ sinv s' b q sp rr ow /\ linv lc'0 (x :: acc) false).
  { intros _. eauto. }
  unfold step. rewrite L5, B0, D.
  unfold special in S. unfold kept in K. revert S K.
  destruct (x =? 32) eqn:X32; [intros S K; destruct e, q; cbn [orb] in *; try discriminate; now apply Fin|].
  destruct (x =? 9) eqn:X9; [intros S K; destruct e, q; cbn [orb] in *; try discriminate; now apply Fin|].
  cbn [orb].
  destruct (x =? 59) eqn:X59; [intros S K; destruct e, q; cbn [orb] in *; try discriminate; now apply Fin|].
  destruct (x =? 13) eqn:X13.
  { intros S K. destruct q; [now apply Fin|]. destruct e; cbn in K; discriminate K. }
  destruct (x =? 10) eqn:X10.
  { intros S K. destruct q; [now apply Fin|]. destruct e; cbn in K; discriminate K. }
  destruct (x =? 92) eqn:X92.
  { intros S K. destruct e; [now apply Fin|]. destruct q; cbn in K; discriminate K. }
  destruct (x =? 34) eqn:X34.
  { intros S K. destruct e; [now apply Fin|]. destruct q; cbn in K; discriminate K. }
  cbn [orb]. intros S K. rewrite S.
  destruct e, q; cbn [orb andb negb] in *; try discriminate; now apply Fin.
Qed.

(* ---------- words ---------- *)
(* a text the lexer gathers octet by octet without leaving the current token,
   from escape state [e], within quotes or not, ending unescaped *)
Fixpoint wok (q e : bool) (w : bytes) : bool :=
  match w with
  | [] => negb e
  | c :: r =>
    if regular c then wok q false r
    else if e then kept q true c && wok q false r
    else if c =? 92 then wok q true r
    else kept q false c && wok q false r
  end.

Lemma lex_word b q rr ow inp K : forall w sp e acc,
  wok q e w = true ->
  LexTo b q (sp && negb (existsb regular w)) rr ow (rev w ++ acc) false inp K ->
  LexTo b q sp rr ow acc e (w ++ inp) K.
Proof.
  induction w as [|c w IH]; intros sp e acc W H.
  - cbn in W. destruct e; [discriminate|]. cbn in H. rewrite andb_true_r in H. exact H.
  - cbn [wok] in W. cbn [app]. cbn [existsb rev] in H. rewrite <- app_assoc in H. cbn [app] in H.
    destruct (regular c) eqn:R.
    + eapply LexTo_cont; [intros s lc Hs Hl; exact (step_regular _ s lc c _ _ _ _ _ _ R Hs Hl)|].
      apply IH; [exact W|]. cbn [orb negb andb] in *. rewrite andb_false_r in H. exact H.
    + cbn [orb] in H.
      assert (S : special c = true) by (unfold regular in R; destruct (special c); [reflexivity|discriminate]).
      destruct e.
      * apply andb_true_iff in W. destruct W as [W1 W2].
        eapply LexTo_cont; [intros s lc Hs Hl; exact (step_kept _ s lc c _ _ _ _ _ _ S W1 Hs Hl)|].
        apply IH; assumption.
      * destruct (c =? 92) eqn:X.
        -- apply N.eqb_eq in X. subst c.
           eapply LexTo_cont; [intros s lc Hs Hl; exact (step_backslash _ s lc _ _ _ _ _ Hs Hl)|].
           apply IH; assumption.
        -- apply andb_true_iff in W. destruct W as [W1 W2].
           eapply LexTo_cont; [intros s lc Hs Hl; exact (step_kept _ s lc c _ _ _ _ _ _ S W1 Hs Hl)|].
           apply IH; assumption.
Qed.

(* ---------- token boundaries ---------- *)
Ltac rz := unfold realizes; cbn; repeat split; try discriminate; try reflexivity; auto.

Lemma lenN_cons_eqb0 {A} (a : A) l : (lenN (a :: l) =? 0) = false.
Proof. unfold lenN. cbn [length]. lia. Qed.
Lemma rev_nonnil {A} (l : list A) : l <> [] -> rev l <> [].
Proof. destruct l as [|a l]; [contradiction|]. intros _ E. apply (f_equal (@length A)) in E.
  cbn in E. rewrite app_length in E. cbn in E. lia. Qed.

(* how a blank-terminated word is classified when no type has been seen *)
Inductive wkind := KPlain | KClass (c : N) | KType (t : N).
Definition kind_sk (k : wkind) (text : bytes) : stok :=
  match k with KPlain => sk_str text | KClass c => mkSk ZClass [] c | KType t => mkSk ZRrtpe [] t end.
Definition kind_rr (k : wkind) : bool := match k with KType _ => true | _ => false end.
Definition not_class (tu : bytes) : bool :=
  match lookup class_table tu with Some _ => false | None => negb (has_prefix (B "CLASS") tu) end.
(* None: the word is a lexer error, or is both a type and a class *)
Definition word_kind (text : bytes) : option wkind :=
  let tu := upper text in
  match lookup type_table tu with
  | Some t => if not_class tu then Some (KType t) else None
  | None =>
    if has_prefix (B "TYPE") tu then
      match type_to_int text with
      | Some t => if not_class tu then Some (KType t) else None
      | None => None
      end
    else match lookup class_table tu with
         | Some c => Some (KClass c)
         | None => if has_prefix (B "CLASS") tu then
                     match class_to_int text with Some c => Some (KClass c) | None => None end
                   else Some KPlain
         end
  end.
Definition apply_kind (s : lst) (k : wkind) : lst :=
  match k with
  | KPlain => s
  | KClass c => set_torc s ZClass c
  | KType t => set_rrtype (set_torc s ZRrtpe t) true
  end.
Lemma classify_kind s text k : word_kind text = Some k -> classify s text = (apply_kind s k, None).
Proof.
  unfold word_kind, classify, not_class. cbv zeta.
  destruct (lookup type_table (upper text)) as [t|].
  - destruct (lookup class_table (upper text)); [discriminate|].
    destruct (has_prefix (B "CLASS") (upper text)); [discriminate|].
    intro E. injection E as <-. reflexivity.
  - destruct (has_prefix (B "TYPE") (upper text)).
    + destruct (type_to_int text) as [t|]; [|discriminate].
      destruct (lookup class_table (upper text)); [discriminate|].
      destruct (has_prefix (B "CLASS") (upper text)); [discriminate|].
      intro E. injection E as <-. reflexivity.
    + destruct (lookup class_table (upper text)) as [c|].
      * intro E. injection E as <-. reflexivity.
      * destruct (has_prefix (B "CLASS") (upper text)).
        -- destruct (class_to_int text) as [c|]; [|discriminate]. intro E. injection E as <-. reflexivity.
        -- intro E. injection E as <-. reflexivity.
Qed.

Ltac step32 :=
  unfold step; change (32 =? 32) with true; cbn [orb].

(* a blank where no string has been gathered and no blank was just delivered *)
Lemma step_blank_bare b s lc rr ow :
  sinv s b false false rr ow -> linvg lc [] false ->
  exists ts s', step s lc 32 = SEmit ts s' /\ Forall2 realizes ts [sk_blank] /\ sinv s' b false true rr false.
Proof.
  intros [A [B0 [C [D [E [F G]]]]]] [L1 [L2 [L3 [L4 L5]]]].
  step32. rewrite L5, B0, D. cbn [orb]. unfold step_blank. rewrite L2.
  change (lenN [] =? 0) with true. cbv zeta. cbn [z_space set_owner]. rewrite C. cbn [negb].
  unfold emit. eexists. eexists. split; [reflexivity|]. split.
  - repeat constructor; rz.
  - unfold sinv. cbn. repeat split; assumption.
Qed.

(* the blank after the first word of a line: an owner or a directive *)
Lemma step_blank_owner b s lc rr acc :
  acc <> [] -> sinv s b false false rr true -> linvg lc acc false ->
  exists ts s', step s lc 32 = SEmit ts s' /\
    Forall2 realizes ts [mkSk (match dir_of (upper (rev acc)) with Some d => d | None => ZOwner end) (rev acc) 0;
                         sk_blank] /\
    sinv s' b false true rr false.
Proof.
  intros N [A [B0 [C [D [E [F G]]]]]] [L1 [L2 [L3 [L4 L5]]]].
  step32. rewrite L5, B0, D. cbn [orb]. unfold step_blank. rewrite L2.
  destruct acc as [|a acc]; [contradiction|]. rewrite lenN_cons_eqb0. rewrite F. cbv zeta.
  unfold str_of. rewrite L1, frev_rev.
  pose proof (rev_nonnil (a :: acc) N) as NN. set (w := rev (a :: acc)) in *. clearbody w.
  cbn [z_space set_owner set_l]. rewrite C. cbn [negb].
  unfold emit. eexists. eexists. split; [reflexivity|]. split.
  - unfold dir_of.
    repeat match goal with |- context [if ?b then _ else _] => destruct b end; repeat constructor; rz.
  - unfold sinv. cbn. repeat split; assumption.
Qed.

(* the blank after a later word: classified while no type has been seen *)
Lemma step_blank_word b s lc rr acc k :
  acc <> [] -> (rr = true -> k = KPlain) -> (rr = false -> word_kind (rev acc) = Some k) ->
  sinv s b false false rr false -> linvg lc acc false ->
  exists ts s', step s lc 32 = SEmit ts s' /\
    Forall2 realizes ts [kind_sk k (rev acc); sk_blank] /\
    sinv s' b false true (rr || kind_rr k) false.
Proof.
  intros N HK1 HK [A [B0 [C [D [E [F G]]]]]] [L1 [L2 [L3 [L4 L5]]]].
  step32. rewrite L5, B0, D. cbn [orb]. unfold step_blank. rewrite L2.
  destruct acc as [|a acc]; [contradiction|]. rewrite lenN_cons_eqb0. rewrite F. cbv zeta.
  unfold str_of. rewrite L1, frev_rev.
  pose proof (rev_nonnil (a :: acc) N) as NN. set (w := rev (a :: acc)) in *. clearbody w.
  cbn [z_rrtype set_l]. rewrite E.
  destruct rr.
  - rewrite (HK1 eq_refl). cbn [z_space set_owner set_l]. rewrite C. cbn [negb].
    unfold emit. eexists. eexists. split; [reflexivity|]. split.
    + repeat constructor; rz.
    + unfold sinv. cbn. repeat split; assumption.
  - rewrite (classify_kind _ _ _ (HK eq_refl)).
    destruct k as [|c|t]; cbn [apply_kind z_space set_owner set_l set_torc set_rrtype]; rewrite C; cbn [negb];
      unfold emit; (eexists; eexists; split; [reflexivity|]; split;
        [repeat constructor; rz|unfold sinv; cbn; repeat split; assumption]).
Qed.

Ltac step10 :=
  unfold step; change (10 =? 32) with false; change (10 =? 9) with false; change (10 =? 59) with false;
  change (10 =? 13) with false; change (10 =? 10) with true; cbn [orb].

(* the newline after a word: the word (a type mnemonic is recognised even here
   when no type has been seen) and the newline; the line state is reset *)
Lemma step_nl_word s lc sp rr ow acc e :
  acc <> [] -> (rr = false -> lookup type_table (upper (rev acc)) = None) ->
  sinv s 0 false sp rr ow -> linvg lc acc e ->
  exists ts s', step s lc 10 = SEmit ts s' /\
    Forall2 realizes ts [sk_str (rev acc); sk_nl] /\ sinv s' 0 false sp false true.
Proof.
  intros N HT [A [B0 [C [D [E [F G]]]]]] [L1 [L2 [L3 [L4 L5]]]].
  step10. rewrite B0, D, A. change (0 =? 0) with true. cbv zeta.
  unfold str_of. cbn [set_esc c_stri c_str]. rewrite L2, L1, frev_rev.
  destruct acc as [|a acc]; [contradiction|]. rewrite lenN_cons_eqb0. cbn [negb].
  pose proof (rev_nonnil (a :: acc) N) as NN. set (w := rev (a :: acc)) in *. clearbody w.
  cbn [z_rrtype set_l]. rewrite E.
  destruct rr.
  - unfold emit. eexists. eexists. split; [reflexivity|]. split.
    + repeat constructor; rz.
    + unfold sinv. cbn. repeat split; assumption.
  - rewrite (HT eq_refl).
    unfold emit. eexists. eexists. split; [reflexivity|]. split.
    + repeat constructor; rz.
    + unfold sinv. cbn. repeat split; assumption.
Qed.

(* the newline where no string has been gathered (after a closing quote) *)
Lemma step_nl_bare s lc sp rr ow e :
  sinv s 0 false sp rr ow -> linvg lc [] e ->
  exists ts s', step s lc 10 = SEmit ts s' /\ Forall2 realizes ts [sk_nl] /\ sinv s' 0 false sp false true.
Proof.
  intros [A [B0 [C [D [E [F G]]]]]] [L1 [L2 [L3 [L4 L5]]]].
  step10. rewrite B0, D, A. change (0 =? 0) with true. cbv zeta.
  cbn [set_esc c_stri c_str]. rewrite L2. change (lenN [] =? 0) with true. cbn [negb].
  unfold emit. eexists. eexists. split; [reflexivity|]. split.
  - repeat constructor; rz.
  - unfold sinv. cbn. repeat split; assumption.
Qed.

Ltac step34 :=
  unfold step; change (34 =? 32) with false; change (34 =? 9) with false; change (34 =? 59) with false;
  change (34 =? 13) with false; change (34 =? 10) with false; change (34 =? 92) with false;
  change (34 =? 34) with true; cbn [orb].

(* the opening quote, where no string has been gathered *)
Lemma step_quote_open b s lc sp rr ow :
  sinv s b false sp rr ow -> linvg lc [] false ->
  exists ts s', step s lc 34 = SEmit ts s' /\ Forall2 realizes ts [sk_quote] /\ sinv s' b true false rr ow.
Proof.
  intros [A [B0 [C [D [E [F G]]]]]] [L1 [L2 [L3 [L4 L5]]]].
  step34. rewrite D, L5, L2. change (lenN [] =? 0) with true. cbn [negb]. cbv zeta.
  cbn [z_quote set_space set_l]. rewrite B0. cbn [negb].
  unfold emit. eexists. eexists. split; [reflexivity|]. split.
  - repeat constructor; rz.
  - unfold sinv. cbn. repeat split; assumption.
Qed.

(* the closing quote: the string, if any, and the quote *)
Lemma step_quote_close b s lc sp rr ow acc :
  sinv s b true sp rr ow -> linvg lc acc false ->
  exists ts s', step s lc 34 = SEmit ts s' /\
    Forall2 realizes ts ((match rev acc with [] => [] | _ => [sk_str (rev acc)] end) ++ [sk_quote]) /\
    sinv s' b false false rr ow.
Proof.
  intros [A [B0 [C [D [E [F G]]]]]] [L1 [L2 [L3 [L4 L5]]]].
  step34. rewrite D, L5, L2.
  destruct acc as [|a acc].
  - change (lenN [] =? 0) with true. cbn [negb]. cbv zeta.
    cbn [z_quote set_space set_l]. rewrite B0. cbn [negb].
    unfold emit. eexists. eexists. split; [reflexivity|]. split.
    + cbn [rev app]. repeat constructor; rz.
    + unfold sinv. cbn. repeat split; assumption.
  - rewrite lenN_cons_eqb0. cbn [negb]. cbv zeta. unfold str_of. rewrite L1, frev_rev.
    assert (NN : rev (a :: acc) <> []) by (apply rev_nonnil; discriminate).
    set (w := rev (a :: acc)) in *. clearbody w.
    cbn [z_quote set_space set_l]. rewrite B0. cbn [negb].
    unfold emit. eexists. eexists. split; [reflexivity|]. split.
    + destruct w; [contradiction|]. cbn [app]. repeat constructor; rz.
    + unfold sinv. cbn. repeat split; assumption.
Qed.

(* ---------- from octets to tokens: words and quoted strings ---------- *)
(* an unquoted word: gathered as one string, and containing at least one
   ordinary octet (only those clear the space flag: a word made of escaped
   special octets alone would not be followed by a blank token) *)
Definition uw_ok (w : bytes) : bool := wok false false w && existsb regular w.
(* the inside of a quoted string: no unescaped quote, not ending in a backslash *)
Definition qs_ok (s : bytes) : bool := wok true false s.

Lemma uw_ok_nonnil w : uw_ok w = true -> rev w <> [].
Proof.
  unfold uw_ok. intro H. apply andb_true_iff in H. destruct H as [_ H].
  apply rev_nonnil. destruct w; [discriminate|discriminate].
Qed.

Lemma lex_uword w sp rr ow inp K :
  uw_ok w = true ->
  LexTo 0 false false rr ow (rev w) false inp K ->
  LexTo 0 false sp rr ow [] false (w ++ inp) K.
Proof.
  unfold uw_ok. intros H L. apply andb_true_iff in H. destruct H as [H1 H2].
  apply lex_word; [exact H1|]. rewrite H2, app_nil_r. cbn [negb]. rewrite andb_false_r. exact L.
Qed.

(* the state at the start of a line *)
Definition LineStart (inp : bytes) (K : list stok) : Prop := LexTo 0 false false false true [] false inp K.
(* the state after a blank token *)
Definition AfterBlank (rr : bool) (inp : bytes) (K : list stok) : Prop := LexTo 0 false true rr false [] false inp K.

Definition first_val (w : bytes) : tval :=
  match dir_of (upper w) with Some d => d | None => ZOwner end.

(* the first word of a line and its blank *)
Lemma lex_first_word w rr inp K :
  uw_ok w = true -> AfterBlank rr inp K ->
  LexTo 0 false false rr true [] false (w ++ 32 :: inp) (mkSk (first_val w) w 0 :: sk_blank :: K).
Proof.
  intros U H. apply lex_uword; [exact U|].
  change (mkSk (first_val w) w 0 :: sk_blank :: K) with ([mkSk (first_val w) w 0; sk_blank] ++ K).
  eapply LexTo_emit; [|exact H].
  intros s lc Hs Hl. pose proof (step_blank_owner 0 s lc rr (rev w) (uw_ok_nonnil w U) Hs Hl) as G.
  rewrite rev_involutive in G. exact G.
Qed.

(* a line that starts with a blank *)
Lemma lex_bare_blank rr ow inp K :
  AfterBlank rr inp K -> LexTo 0 false false rr ow [] false (32 :: inp) (sk_blank :: K).
Proof.
  intro H. change (sk_blank :: K) with ([sk_blank] ++ K).
  eapply LexTo_emit; [|exact H]. intros s lc Hs Hl. exact (step_blank_bare 0 s lc rr ow Hs Hl).
Qed.

(* a later word and its blank *)
Lemma lex_mid_word w k sp rr inp K :
  uw_ok w = true -> (rr = true -> k = KPlain) -> (rr = false -> word_kind w = Some k) ->
  AfterBlank (rr || kind_rr k) inp K ->
  LexTo 0 false sp rr false [] false (w ++ 32 :: inp) (kind_sk k w :: sk_blank :: K).
Proof.
  intros U K1 K2 H. apply lex_uword; [exact U|].
  change (kind_sk k w :: sk_blank :: K) with ([kind_sk k w; sk_blank] ++ K).
  eapply LexTo_emit; [|exact H].
  intros s lc Hs Hl.
  assert (K2' : rr = false -> word_kind (rev (rev w)) = Some k) by (rewrite rev_involutive; exact K2).
  pose proof (step_blank_word 0 s lc rr (rev w) k (uw_ok_nonnil w U) K1 K2' Hs Hl) as G.
  rewrite rev_involutive in G. exact G.
Qed.

(* the last word of a line and the newline *)
Lemma lex_last_word w sp rr ow inp K :
  uw_ok w = true -> (rr = false -> lookup type_table (upper w) = None) ->
  LineStart inp K ->
  LexTo 0 false sp rr ow [] false (w ++ 10 :: inp) (sk_str w :: sk_nl :: K).
Proof.
  intros U HT H. apply lex_uword; [exact U|].
  change (sk_str w :: sk_nl :: K) with ([sk_str w; sk_nl] ++ K).
  eapply LexTo_emit; [|exact H].
  intros s lc Hs Hl.
  assert (HT' : rr = false -> lookup type_table (upper (rev (rev w))) = None) by (rewrite rev_involutive; exact HT).
  pose proof (step_nl_word s lc false rr ow (rev w) false (uw_ok_nonnil w U) HT' Hs Hl) as G.
  rewrite rev_involutive in G. exact G.
Qed.

(* the newline right after a closing quote *)
Lemma lex_bare_nl rr ow inp K :
  LineStart inp K -> LexTo 0 false false rr ow [] false (10 :: inp) (sk_nl :: K).
Proof.
  intro H. change (sk_nl :: K) with ([sk_nl] ++ K).
  eapply LexTo_emit; [|exact H]. intros s lc Hs Hl. exact (step_nl_bare s lc false rr ow false Hs Hl).
Qed.

(* a quoted string *)
Lemma lex_qstr str sp rr ow inp K :
  qs_ok str = true ->
  LexTo 0 false false rr ow [] false inp K ->
  LexTo 0 false sp rr ow [] false (34 :: str ++ 34 :: inp) (sk_qstr str ++ K).
Proof.
  intros Q H. unfold sk_qstr. change ((sk_quote :: ?a ++ [sk_quote]) ++ K) with ([sk_quote] ++ (a ++ [sk_quote]) ++ K).
  eapply LexTo_emit; [intros s lc Hs Hl; exact (step_quote_open 0 s lc sp rr ow Hs Hl)|].
  apply lex_word; [exact Q|]. cbn [andb]. rewrite app_nil_r.
  eapply LexTo_emit; [|exact H].
  intros s lc Hs Hl. pose proof (step_quote_close 0 s lc false rr ow (rev str) Hs Hl) as G.
  rewrite rev_involutive in G. exact G.
Qed.

(* ---------- the plain rendering of an abstract zone ---------- *)
Fixpoint rlookup (tab : list (bytes * N)) (v : N) : option bytes :=
  match tab with
  | [] => None
  | (k, v') :: r => if v' =? v then Some k else rlookup r v
  end.
Definition dec_bytes (n : N) : bytes := B (dec n).
(* the class as text: its mnemonic, else CLASSnnn.  Class 255 is written
   CLASS255: the lexer takes ANY for a type first (see class_any_refuted). *)
Definition class_text (c : N) : bytes :=
  if c =? 255 then B "CLASS" ++ dec_bytes c
  else match rlookup class_table c with Some m => m | None => B "CLASS" ++ dec_bytes c end.
(* the type as text: its mnemonic, else TYPEnnn.  255 (ANY is also a class), 0
   and 65535 (the table spells them None and Reserved, which the lexer's
   upper-cased lookup never finds) are written TYPEnnn. *)
Definition type_text (t : N) : bytes :=
  if (t =? 255) || (t =? 0) || (t =? 65535) then B "TYPE" ++ dec_bytes t
  else match rlookup type_table t with Some m => m | None => B "TYPE" ++ dec_bytes t end.

(* words joined by one blank *)
Fixpoint render_words (l : list bytes) : bytes :=
  match l with
  | [] => []
  | [s] => s
  | s :: r => s ++ 32 :: render_words r
  end.
(* character-strings, each between double quotes, joined by one blank *)
Fixpoint render_txt (l : list bytes) : bytes :=
  match l with
  | [] => []
  | [s] => 34 :: s ++ [34]
  | s :: r => 34 :: s ++ 34 :: 32 :: render_txt r
  end.
Definition render_rd (w : rdw) : bytes :=
  match w with
  | WName n => n
  | WAddr t => t
  | WTxt l => render_txt l
  | WGen len hs => render_words ([92; 35] :: len :: hs)
  end.
(* an optional field, preceded by its blank *)
Definition fld (w : option bytes) (rest : bytes) : bytes :=
  match w with Some x => 32 :: x ++ rest | None => rest end.
Definition render_rec (r : recd) : bytes :=
  let ttl := d_ttl r in
  let cls := match d_class r with Some c => Some (class_text c) | None => None end in
  let tail := 32 :: type_text (d_type r) ++ 32 :: render_rd (d_rd r) ++ [10] in
  (match d_owner r with Some n => n | None => [] end) ++
  (if d_ttl_first r then fld ttl (fld cls tail) else fld cls (fld ttl tail)).
Definition render_entry (e : entry) : bytes :=
  match e with
  | DRec r => render_rec r
  | DOrigin n => B "$ORIGIN" ++ 32 :: n ++ [10]
  | DTtl t => B "$TTL" ++ 32 :: t ++ [10]
  end.
Definition render_zone (es : list entry) : bytes := flat_map render_entry es.

(* ---------- when a text IS such a rendering ---------- *)
Definition is_plain (w : bytes) : bool :=
  match word_kind w with Some KPlain => true | _ => false end.
Definition no_type (w : bytes) : bool :=
  match lookup type_table (upper w) with None => true | Some _ => false end.
Definition no_dir (w : bytes) : bool :=
  match dir_of (upper w) with None => true | Some _ => false end.
Definition opt_ok {A} (f : A -> bool) (o : option A) : bool :=
  match o with Some a => f a | None => true end.
Definition rd_render_ok (w : rdw) : bool :=
  match w with
  | WName n => uw_ok n
  | WAddr t => uw_ok t
  | WTxt l => negb (match l with [] => true | _ => false end) && forallb qs_ok l
  | WGen len hs => uw_ok len && forallb uw_ok hs
  end.
Definition render_ok (e : entry) : bool :=
  match e with
  | DRec r =>
    opt_ok (fun n => uw_ok n && no_dir n) (d_owner r) &&
    opt_ok (fun t => uw_ok t && is_plain t) (d_ttl r) &&
    opt_ok (fun c => c <? 65536) (d_class r) &&
    (d_type r <? 65536) &&
    rd_render_ok (d_rd r)
  | DOrigin n => uw_ok n && no_type n
  | DTtl t => uw_ok t && no_type t
  end.

(* every class and type code is written as a word the lexer classifies back
   to that code *)
Definition class_word_ok (c : N) : bool :=
  let w := class_text c in
  uw_ok w && match word_kind w with Some (KClass c') => c' =? c | _ => false end.
Definition type_word_ok (t : N) : bool :=
  let w := type_text t in
  uw_ok w && match word_kind w with Some (KType t') => t' =? t | _ => false end.
(* (the cast is checked by the kernel at Qed: one evaluation instead of two) *)
Lemma class_sweep : forallb class_word_ok (upto 65536) = true.
Proof. vm_cast_no_check (eq_refl true). Qed.
Lemma type_sweep : forallb type_word_ok (upto 65536) = true.
Proof. vm_cast_no_check (eq_refl true). Qed.
Lemma class_text_ok c : c < 65536 ->
  uw_ok (class_text c) = true /\ word_kind (class_text c) = Some (KClass c).
Proof.
  intro H. pose proof class_sweep as S. rewrite forallb_forall in S.
  specialize (S c (in_upto _ _ H)). unfold class_word_ok in S. cbv zeta in S.
  apply andb_true_iff in S. destruct S as [S1 S2]. split; [exact S1|].
  destruct (word_kind (class_text c)) as [[|c'|]|]; try discriminate.
  apply N.eqb_eq in S2. now subst.
Qed.
Lemma type_text_ok t : t < 65536 ->
  uw_ok (type_text t) = true /\ word_kind (type_text t) = Some (KType t).
Proof.
  intro H. pose proof type_sweep as S. rewrite forallb_forall in S.
  specialize (S t (in_upto _ _ H)). unfold type_word_ok in S. cbv zeta in S.
  apply andb_true_iff in S. destruct S as [S1 S2]. split; [exact S1|].
  destruct (word_kind (type_text t)) as [[| |t']|]; try discriminate.
  apply N.eqb_eq in S2. now subst.
Qed.


(* ---------- lines ---------- *)
Lemma lex_owner n inp K :
  uw_ok n = true -> no_dir n = true -> AfterBlank false inp K ->
  LineStart (n ++ 32 :: inp) (mkSk ZOwner n 0 :: sk_blank :: K).
Proof.
  intros U D H. pose proof (lex_first_word n false inp K U H) as G.
  unfold first_val in G. unfold no_dir in D. destruct (dir_of (upper n)); [discriminate|]. exact G.
Qed.
Lemma lex_dir w v inp K :
  uw_ok w = true -> dir_of (upper w) = Some v -> AfterBlank false inp K ->
  LineStart (w ++ 32 :: inp) (mkSk v [] 0 :: sk_blank :: K).
Proof.
  intros U D H s lc Hs Hl. pose proof (lex_first_word w false inp K U H s lc Hs Hl) as G.
  unfold first_val in G. rewrite D in G.
  inversion G as [|t k ts ks R RS]; subst. constructor; [|exact RS].
  destruct R as [R1 [R2 [R3 [R4 R5]]]]. cbn [k_val k_text k_torc] in *.
  unfold realizes. cbn [k_val k_text k_torc]. repeat split; auto.
  unfold dir_of in D.
  repeat match type of D with (if ?b then _ else _) = _ => destruct b end;
    try discriminate; injection D as <-; cbn; intro; discriminate.
Qed.
Lemma lex_ttl_field t inp K :
  uw_ok t = true -> is_plain t = true -> AfterBlank false inp K ->
  AfterBlank false (t ++ 32 :: inp) (sk_str t :: sk_blank :: K).
Proof.
  intros U P H. unfold is_plain in P.
  destruct (word_kind t) as [[| |]|] eqn:E; try discriminate.
  apply (lex_mid_word t KPlain true false inp K U); [discriminate|intros _; exact E|exact H].
Qed.
Lemma lex_class_field c inp K :
  c < 65536 -> AfterBlank false inp K ->
  AfterBlank false (class_text c ++ 32 :: inp) (mkSk ZClass [] c :: sk_blank :: K).
Proof.
  intros L H. destruct (class_text_ok c L) as [U E].
  apply (lex_mid_word (class_text c) (KClass c) true false inp K U); [discriminate|intros _; exact E|exact H].
Qed.
Lemma lex_type_field t inp K :
  t < 65536 -> AfterBlank true inp K ->
  AfterBlank false (type_text t ++ 32 :: inp) (mkSk ZRrtpe [] t :: sk_blank :: K).
Proof.
  intros L H. destruct (type_text_ok t L) as [U E].
  apply (lex_mid_word (type_text t) (KType t) true false inp K U); [discriminate|intros _; exact E|exact H].
Qed.

Lemma lex_words inp K : LineStart inp K -> forall l sp,
  l <> [] -> forallb uw_ok l = true ->
  LexTo 0 false sp true false [] false (render_words l ++ 10 :: inp) (sk_words l ++ sk_nl :: K).
Proof.
  intros H. induction l as [|w l IH]; intros sp N F; [contradiction|].
  cbn [forallb] in F. apply andb_true_iff in F. destruct F as [F1 F2].
  destruct l as [|w2 l].
  - cbn [render_words sk_words app]. apply lex_last_word; [exact F1|discriminate|exact H].
  - change (render_words (w :: w2 :: l)) with (w ++ 32 :: render_words (w2 :: l)).
    change (sk_words (w :: w2 :: l)) with (sk_str w :: sk_blank :: sk_words (w2 :: l)).
    rewrite <- app_assoc. cbn [app].
    apply (lex_mid_word w KPlain sp true); [exact F1|reflexivity|discriminate|].
    apply IH; [discriminate|exact F2].
Qed.

Lemma lex_txt inp K : LineStart inp K -> forall l sp,
  l <> [] -> forallb qs_ok l = true ->
  LexTo 0 false sp true false [] false (render_txt l ++ 10 :: inp) (sk_txt l ++ sk_nl :: K).
Proof.
  intros H. induction l as [|w l IH]; intros sp N F; [contradiction|].
  cbn [forallb] in F. apply andb_true_iff in F. destruct F as [F1 F2].
  destruct l as [|w2 l].
  - cbn [render_txt sk_txt app]. rewrite <- app_assoc. cbn [app].
    apply lex_qstr; [exact F1|]. apply lex_bare_nl. exact H.
  - change (render_txt (w :: w2 :: l)) with (34 :: w ++ 34 :: 32 :: render_txt (w2 :: l)).
    change (sk_txt (w :: w2 :: l)) with (sk_qstr w ++ sk_blank :: sk_txt (w2 :: l)).
    cbn [app]. rewrite <- !app_assoc. cbn [app].
    apply lex_qstr; [exact F1|]. apply lex_bare_blank.
    apply IH; [discriminate|exact F2].
Qed.

Lemma sk_rd_gen len hs : sk_rd (WGen len hs) = sk_words ([92; 35] :: len :: hs).
Proof. destruct hs; reflexivity. Qed.

Lemma lex_rd w inp K :
  rd_render_ok w = true -> LineStart inp K ->
  AfterBlank true (render_rd w ++ 10 :: inp) (sk_rd w ++ sk_nl :: K).
Proof.
  intros R H. destruct w as [n|t|l|len hs]; cbn [rd_render_ok render_rd] in *.
  - cbn [sk_rd app]. apply lex_last_word; [exact R|discriminate|exact H].
  - cbn [sk_rd app]. apply lex_last_word; [exact R|discriminate|exact H].
  - apply andb_true_iff in R. destruct R as [R1 R2]. cbn [sk_rd].
    apply lex_txt; [exact H| |exact R2]. destruct l; [discriminate|discriminate].
  - rewrite sk_rd_gen. apply lex_words; [exact H|discriminate|].
    cbn [forallb]. apply andb_true_iff in R. destruct R as [R1 R2]. rewrite R1, R2. reflexivity.
Qed.

Lemma lex_rec r inp K :
  render_ok (DRec r) = true -> LineStart inp K -> LineStart (render_rec r ++ inp) (sk_rec r ++ K).
Proof.
  intros R H. destruct r as [own ttl cls tf ty rd]. cbn [render_ok d_owner d_ttl d_class d_type d_rd] in R.
  repeat (apply andb_true_iff in R; destruct R as [R ?]).
  apply N.ltb_lt in H1.
  unfold render_rec, sk_rec. cbn [d_owner d_ttl d_class d_ttl_first d_type d_rd]. cbv zeta.
  destruct own as [n|]; destruct ttl as [t|]; destruct cls as [c|]; destruct tf;
    cbn [opt_ok] in *; cbn [fld app];
    repeat (rewrite <- !app_assoc; cbn [app]);
    repeat match goal with
           | X : (_ && _) = true |- _ => apply andb_true_iff in X; destruct X
           | X : (_ <? _) = true |- _ => apply N.ltb_lt in X
           end;
    repeat first [ apply lex_owner | apply lex_bare_blank | apply lex_ttl_field | apply lex_class_field
                 | apply lex_type_field | apply lex_rd ]; assumption.
Qed.

Lemma lex_directive w v arg inp K :
  uw_ok w = true -> dir_of (upper w) = Some v -> uw_ok arg = true -> no_type arg = true ->
  LineStart inp K ->
  LineStart (w ++ 32 :: arg ++ [10] ++ inp) (mkSk v [] 0 :: sk_blank :: sk_str arg :: sk_nl :: K).
Proof.
  intros U D UA NT H. apply lex_dir; [exact U|exact D|]. cbn [app].
  apply lex_last_word; [exact UA| |exact H].
  intros _. unfold no_type in NT. destruct (lookup type_table (upper arg)); [discriminate|reflexivity].
Qed.

Lemma lex_entry e inp K :
  render_ok e = true -> LineStart inp K -> LineStart (render_entry e ++ inp) (sk_entry e ++ K).
Proof.
  intros R H. destruct e as [r|n|t].
  - now apply lex_rec.
  - cbn [render_ok] in R. apply andb_true_iff in R. destruct R as [R1 R2].
    cbn [render_entry sk_entry]. rewrite <- app_assoc. cbn [app]. rewrite <- app_assoc.
    apply (lex_directive (B "$ORIGIN") ZDirOrigin n inp K); auto.
  - cbn [render_ok] in R. apply andb_true_iff in R. destruct R as [R1 R2].
    cbn [render_entry sk_entry]. rewrite <- app_assoc. cbn [app]. rewrite <- app_assoc.
    apply (lex_directive (B "$TTL") ZDirTTL t inp K); auto.
Qed.

Lemma lex_zone es : forallb render_ok es = true -> LineStart (render_zone es) (sk_zone es).
Proof.
  induction es as [|e es IH]; intro R.
  - apply LexTo_end.
  - cbn [forallb] in R. apply andb_true_iff in R. destruct R as [R1 R2].
    cbn [render_zone sk_zone flat_map]. apply lex_entry; [exact R1|]. apply IH. exact R2.
Qed.

(* the lexer turns the plain rendering of a zone into tokens that realize the
   zone's skeleton: exactly, nothing follows the last newline *)
Theorem lex_render_plain_proved es :
  forallb render_ok es = true -> Forall2 realizes (lex (render_zone es)) (sk_zone es).
Proof.
  intro R. unfold lex, lex_full.
  assert (I : sinv init_lst 0 false false false true) by (unfold sinv; cbn; repeat split; reflexivity).
  destruct (fresh_sinv _ _ _ _ _ _ I) as [F1 F2].
  destruct (fresh init_lst) as [s lc]. cbn [fst snd] in F1, F2.
  exact (lex_zone es R s lc F1 F2).
Qed.

(* composed with the parser: the parser applied to the lexer's output on the
   zone's text yields exactly the records the zone denotes *)
Theorem zone_text_denotes_proved fs_open os_open d cf origin default es recs :
  origin <> [] -> is_fqdn origin = true -> is_domain_name origin = true ->
  Forall wf_entry es -> forallb render_ok es = true ->
  denote origin default es = Some recs ->
  run_d fs_open os_open d cf origin
        (match default with Some t => Some (mkTtl t false) | None => None end)
        (lex (render_zone es)) None
  = map ERec recs.
Proof.
  intros Ho Hf Hd W R D.
  apply (zp_refines_tokens fs_open os_open d cf origin default es); auto.
  now apply lex_render_plain_proved.
Qed.


(* ---------- a worked zone ---------- *)
Definition ex2_zone : list entry :=
  [ DOrigin (B "example.org."); DTtl (B "1h30m");
    DRec (mkRecd (Some (B "@")) None (Some 1) false 2 (WName (B "ns1")));
    DRec (mkRecd (Some (B "ns1")) (Some (B "300")) (Some 1) true 1 (WAddr (B "192.0.2.1")));
    DRec (mkRecd None (Some (B "2h")) (Some 3) false 16 (WTxt [B "a b"; B "c\""d;("]));
    DRec (mkRecd (Some (B "a\.b")) None (Some 255) false 65280 (WGen (B "2") [B "ab"; B "cd"])) ].
Definition ex2_text : bytes :=
  B ("$ORIGIN example.org." +++ nl1 +++ "$TTL 1h30m" +++ nl1 +++ "@ IN NS ns1" +++ nl1 +++
     "ns1 300 IN A 192.0.2.1" +++ nl1 +++ " CH 2h TXT ""a b"" ""c\""d;(""" +++ nl1 +++
     "a\.b CLASS255 TYPE65280 \# 2 ab cd" +++ nl1).
Example ex2_render : render_zone ex2_zone = ex2_text.
Proof. vm_compute. reflexivity. Qed.
Example ex2_render_ok : forallb render_ok ex2_zone = true.
Proof. vm_compute. reflexivity. Qed.
Example ex2_wf : Forall wf_entry ex2_zone.
Proof.
  unfold ex2_zone. repeat apply Forall_cons; try apply Forall_nil.
  - apply wf_name_b. vm_compute. reflexivity.
  - apply (wf_ttl_b _ 5400); vm_compute; reflexivity.
  - split; [apply wf_name_b; vm_compute; reflexivity|]. split; [exact I|].
    cbn [wf_rd d_type d_rd]. split; [eexists; vm_compute; reflexivity|].
    split; [apply wf_name_b; vm_compute; reflexivity|]. split; discriminate.
  - split; [apply wf_name_b; vm_compute; reflexivity|].
    split; [apply (wf_ttl_b _ 300); vm_compute; reflexivity|].
    cbn [wf_rd d_type d_rd]. split; [split; discriminate|left; reflexivity].
  - split; [exact I|]. split; [apply (wf_ttl_b _ 7200); vm_compute; reflexivity|].
    cbn [wf_rd d_type d_rd]. split; [eexists; vm_compute; reflexivity|].
    split; [discriminate|].
    constructor; [right; vm_compute; reflexivity|]. constructor; [right; vm_compute; reflexivity|constructor].
  - split; [apply wf_name_b; vm_compute; reflexivity|].
    split; [exact I|].
    cbn [wf_rd d_type d_rd]. split; [vm_compute; reflexivity|].
    split; [exists 2; split; vm_compute; reflexivity|].
    constructor; [discriminate|]. constructor; [discriminate|constructor].
Qed.
Definition ex2_recs : list rr :=
  [ mkRR (mkHdr (B "example.org.") 2 1 5400) (RName (B "ns1.example.org.")) 0;
    mkRR (mkHdr (B "ns1.example.org.") 1 1 300) (RAddr [192; 0; 2; 1]) 0;
    mkRR (mkHdr (B "ns1.example.org.") 16 3 7200) (RTxt [B "a b"; B "c\""d;("]) 0;
    mkRR (mkHdr (B "a\.b.example.org.") 65280 255 5400) (RGen (B "abcd")) 0 ].
Example ex2_denotes : denote (B "test.") None ex2_zone = Some ex2_recs.
Proof. vm_compute. reflexivity. Qed.
(* both sides evaluated: the parser on the lexer's tokens of the text *)
Example ex2_parses :
  run_d no_files no_files maxIncludeDepth (mkCfg [] false false false O) (B "test.") None
        (lex ex2_text) None = map ERec ex2_recs.
Proof. vm_compute. reflexivity. Qed.

(* ---------- what the side conditions exclude: witnesses ---------- *)
Lemma realizes_b_complete t k : realizes t k -> realizes_b t k = true.
Proof.
  intros [A [B0 [C [D E]]]]. unfold realizes_b.
  rewrite A, B0. unfold tval_eqb. rewrite N.eqb_refl. rewrite (bytes_eqb_neq _ _ C). cbn [negb andb].
  destruct (text_matters (k_val k)); [rewrite (D eq_refl), bytes_eqb_refl|];
    (destruct (torc_matters (k_val k)); [rewrite (E eq_refl), N.eqb_refl|]); reflexivity.
Qed.
Lemma forall2b_complete ts ks : Forall2 realizes ts ks -> forall2b realizes_b ts ks = true.
Proof.
  induction 1 as [|t k ts ks R _ IH]; [reflexivity|]. cbn [forall2b].
  now rewrite (realizes_b_complete _ _ R), IH.
Qed.
Lemma not_realized ts ks : forall2b realizes_b ts ks = false -> ~ Forall2 realizes ts ks.
Proof. intros H F. apply forall2b_complete in F. congruence. Qed.

Definition ex_cfg : cfg := mkCfg [] false false false O.
Definition ex_run (text : bytes) : list ev :=
  run_d no_files no_files maxIncludeDepth ex_cfg (B "test.") (Some (mkTtl 5 false)) (lex text) None.

(* the class mnemonic ANY: the lexer takes the word for a type first, marks the
   type as seen, then makes the token a class; the type that follows is then a
   plain string and the parser gives up.  Class 255 has to be written CLASS255. *)
Theorem class_any_refuted :
  let z := [DRec (mkRecd (Some (B "x")) None (Some 255) false 1 (WAddr (B "192.0.2.1")))] in
  let text := B ("x ANY A 192.0.2.1" +++ nl1) in
  ~ Forall2 realizes (lex text) (sk_zone z) /\ failed (ex_run text) = true /\
  ex_run (render_zone z) = [ERec (mkRR (mkHdr (B "x.test.") 1 255 5) (RAddr [192; 0; 2; 1]) 0)].
Proof. cbv zeta. split; [apply not_realized; vm_compute; reflexivity|split; vm_compute; reflexivity]. Qed.

(* the type mnemonics None (0) and Reserved (65535) are never found: the lexer
   looks the upper-cased word up in a table that spells them in mixed case;
   NONE is then a class *)
Theorem type_none_refuted :
  let z := [DRec (mkRecd (Some (B "x")) None None false 0 (WGen (B "0") []))] in
  let text := B ("x None \# 0" +++ nl1) in
  ~ Forall2 realizes (lex text) (sk_zone z) /\ failed (ex_run text) = true /\
  rlookup type_table 0 = Some (B "None") /\ rlookup type_table 65535 = Some (B "Reserved") /\
  word_kind (B "None") = Some (KClass 254) /\ word_kind (B "Reserved") = Some KPlain.
Proof.
  cbv zeta. split; [apply not_realized; vm_compute; reflexivity|].
  repeat split; vm_compute; reflexivity.
Qed.

(* a word made of escaped special octets only does not clear the lexer's space
   flag: the blank that starts the next line is not delivered (here the parser
   still reads the line, as one starting with the type) *)
Theorem escaped_only_word_refuted :
  let z := [DRec (mkRecd (Some (B "x")) None None false 2 (WName (B "\(")));
            DRec (mkRecd None None None false 2 (WName (B "a")))] in
  render_zone z = B ("x NS \(" +++ nl1 +++ " NS a" +++ nl1) /\
  forallb render_ok z = false /\
  ~ Forall2 realizes (lex (render_zone z)) (sk_zone z).
Proof.
  cbv zeta. split; [vm_compute; reflexivity|]. split; [vm_compute; reflexivity|].
  apply not_realized. vm_compute. reflexivity.
Qed.

(* a TTL text that spells a mnemonic (hs is zero hours zero seconds, and the
   class Hesiod), and a directive argument that spells a type *)
Theorem ttl_mnemonic_refuted :
  let z := [DRec (mkRecd (Some (B "x")) (Some (B "hs")) None false 1 (WAddr (B "192.0.2.1")))] in
  ttl_of_text (B "hs") = Some 0 /\ forallb render_ok z = false /\
  ~ Forall2 realizes (lex (render_zone z)) (sk_zone z).
Proof.
  cbv zeta. split; [vm_compute; reflexivity|]. split; [vm_compute; reflexivity|].
  apply not_realized. vm_compute. reflexivity.
Qed.
Theorem origin_mnemonic_refuted :
  let z := [DOrigin (B "mx")] in
  forallb render_ok z = false /\ ~ Forall2 realizes (lex (render_zone z)) (sk_zone z).
Proof.
  cbv zeta. split; [vm_compute; reflexivity|]. apply not_realized. vm_compute. reflexivity.
Qed.


(* ====================================================================== *)
(* robustness: tabs, runs of blanks, parentheses, CR, trailing comments    *)
(* ====================================================================== *)
Definition is_blank (x : N) : bool := (x =? 32) || (x =? 9).

Lemma linvg_linv lc acc e : linvg lc acc e -> linv lc acc e.
Proof. intros [A [B0 [C [D E]]]]. unfold linv. repeat split; auto. now apply N.lt_le_incl. Qed.

(* outside quotes and escapes a tab is a blank *)
Lemma step_tab s lc : c_esc lc = false -> z_quote s = false -> z_commt s = false ->
  step s lc 9 = step s lc 32.
Proof.
  intros E Q Cm. unfold step. change ((9 =? 32) || (9 =? 9)) with true. change ((32 =? 32) || (32 =? 9)) with true.
  cbv iota. rewrite E, Q, Cm. reflexivity.
Qed.
Lemma step_blank_any x s lc : is_blank x = true -> c_esc lc = false -> z_quote s = false ->
  z_commt s = false -> step s lc x = step s lc 32.
Proof.
  unfold is_blank. intros H E Q Cm. destruct (x =? 32) eqn:X.
  - apply N.eqb_eq in X. now subst.
  - cbn [orb] in H. apply N.eqb_eq in H. subst. now apply step_tab.
Qed.

(* a blank after a blank token, nothing gathered: nothing is delivered *)
Lemma step_blank_again b s lc rr ow :
  sinv s b false true rr ow -> linvg lc [] false ->
  exists s' lc', step s lc 32 = SCont s' lc' /\ sinv s' b false true rr false /\ linv lc' [] false.
Proof.
  intros [A [B0 [C [D [E [F G]]]]]] Hl. pose proof Hl as [L1 [L2 [L3 [L4 L5]]]].
  unfold step. change (32 =? 32) with true. cbn [orb]. rewrite L5, B0, D. cbn [orb]. unfold step_blank. rewrite L2.
  change (lenN [] =? 0) with true. cbv zeta. cbn [z_space set_owner]. rewrite C. cbn [negb].
  eexists. eexists. split; [reflexivity|]. split; [|now apply linvg_linv].
  unfold sinv. cbn. repeat split; assumption.
Qed.

(* parentheses only count *)
Lemma step_paren_open b s lc sp rr ow acc :
  sinv s b false sp rr ow -> linvg lc acc false ->
  exists s' lc', step s lc 40 = SCont s' lc' /\ sinv s' (b + 1) false sp rr ow /\ linv lc' acc false.
Proof.
  intros [A [B0 [C [D [E [F G]]]]]] Hl. pose proof Hl as [L1 [L2 [L3 [L4 L5]]]].
  unfold step. change (40 =? 32) with false. change (40 =? 9) with false. change (40 =? 59) with false.
  change (40 =? 13) with false. change (40 =? 10) with false. change (40 =? 92) with false.
  change (40 =? 34) with false. change (40 =? 40) with true. change (40 =? 41) with false.
  cbn [orb]. rewrite D, L5, B0. cbn [orb].
  eexists. eexists. split; [reflexivity|]. split; [|now apply linvg_linv].
  unfold sinv. cbn. rewrite A. repeat split; assumption.
Qed.
Lemma step_paren_close b s lc sp rr ow acc :
  sinv s (b + 1) false sp rr ow -> linvg lc acc false ->
  exists s' lc', step s lc 41 = SCont s' lc' /\ sinv s' b false sp rr ow /\ linv lc' acc false.
Proof.
  intros [A [B0 [C [D [E [F G]]]]]] Hl. pose proof Hl as [L1 [L2 [L3 [L4 L5]]]].
  unfold step. change (41 =? 32) with false. change (41 =? 9) with false. change (41 =? 59) with false.
  change (41 =? 13) with false. change (41 =? 10) with false. change (41 =? 92) with false.
  change (41 =? 34) with false. change (41 =? 40) with false. change (41 =? 41) with true.
  cbn [orb]. rewrite D, L5, B0. cbn [orb].
  replace (z_brace s =? 0) with false by (clear - A; lia).
  eexists. eexists. split; [reflexivity|]. split; [|now apply linvg_linv].
  unfold sinv. cbn. repeat split; try assumption. clear - A. lia.
Qed.
(* a newline within parentheses is dropped: not even a blank *)
Lemma step_nl_inside b s lc sp rr ow acc e :
  b <> 0 -> sinv s b false sp rr ow -> linvg lc acc e ->
  exists s' lc', step s lc 10 = SCont s' lc' /\ sinv s' b false sp rr ow /\ linv lc' acc false.
Proof.
  intros NB Hs Hl. pose proof Hs as [A [B0 [C [D [E [F G]]]]]]. pose proof Hl as [L1 [L2 [L3 [L4 L5]]]].
  unfold step. change (10 =? 32) with false. change (10 =? 9) with false. change (10 =? 59) with false.
  change (10 =? 13) with false. change (10 =? 10) with true. cbn [orb]. rewrite B0, D. cbv zeta.
  replace (z_brace s =? 0) with false by (clear - A NB; lia).
  eexists. eexists. split; [reflexivity|]. split; [exact Hs|].
  unfold linv, set_esc. cbn. repeat split; auto. now apply N.lt_le_incl.
Qed.
(* a carriage return outside quotes is dropped *)
Lemma step_cr b s lc sp rr ow acc e :
  sinv s b false sp rr ow -> linvg lc acc e ->
  exists s' lc', step s lc 13 = SCont s' lc' /\ sinv s' b false sp rr ow /\ linv lc' acc false.
Proof.
  intros Hs Hl. pose proof Hs as [A [B0 [C [D [E [F G]]]]]]. pose proof Hl as [L1 [L2 [L3 [L4 L5]]]].
  unfold step. change (13 =? 32) with false. change (13 =? 9) with false. change (13 =? 59) with false.
  change (13 =? 13) with true. cbn [orb]. rewrite B0.
  eexists. eexists. split; [reflexivity|]. split; [exact Hs|].
  unfold linv, set_esc. cbn. repeat split; auto. now apply N.lt_le_incl.
Qed.

(* ---------- comments (outside parentheses) ---------- *)
Definition sinvC (s : lst) (sp : bool) : Prop :=
  z_brace s = 0 /\ z_quote s = false /\ z_space s = sp /\ z_commt s = true /\ z_combuf s = [].
Definition linvC (lc : loc) : Prop := c_stri lc = 0 /\ c_comi lc <= c_ccap lc /\ c_esc lc = false.
Definition linvCg (lc : loc) : Prop := c_stri lc = 0 /\ c_comi lc < c_ccap lc /\ c_esc lc = false.
Definition LexToC (sp : bool) (inp : bytes) (K : list stok) : Prop :=
  forall s lc, sinvC s sp -> linvC lc -> Forall2 realizes (fst (lex_go s lc inp false)) K.

Lemma grow_linvCg lc : linvC lc -> linvCg (grow lc).
Proof.
  intros [A [B0 C]]. unfold linvCg, grow, maxTok. cbn [c_stri c_comi c_ccap c_esc].
  repeat split; auto. clear - B0. destruct (c_ccap lc <=? c_comi lc) eqn:X; lia.
Qed.
Lemma sinvC_read_byte s x sp : sinvC s sp -> sinvC (read_byte s x) sp.
Proof.
  destruct (read_byte_pos s x) as [l [c [eol ->]]]. unfold sinvC. cbn.
  intros [A [B0 [C [D E]]]]. repeat split; assumption.
Qed.
Lemma put_com_ok s lc x : linvCg lc -> exists lc', put_com s lc x = SCont s lc' /\ linvC lc'.
Proof.
  intros [A [B0 C]]. unfold put_com, put_com_loc.
  replace (c_comi lc <? c_ccap lc) with true by (clear - B0; lia).
  eexists. split; [reflexivity|]. unfold linvC. cbn. repeat split; auto. clear - B0. lia.
Qed.

(* an octet of a comment (not the newline; a second semicolon is left out) *)
Lemma step_com s lc x sp :
  x <> 10 -> x <> 59 -> sinvC s sp -> linvCg lc ->
  exists s' lc', step s lc x = SCont s' lc' /\ sinvC s' sp /\ linvC lc'.
Proof.
  intros N10 N59 Hs Hl. pose proof Hs as [A [B0 [C [D E]]]]. pose proof Hl as [L1 [L2 L3]].
  assert (P : forall lc0, linvCg lc0 -> exists s' lc', put_com s lc0 x = SCont s' lc' /\ sinvC s' sp /\ linvC lc').
  { intros lc0 H0. destruct (put_com_ok s lc0 x H0) as [lc' [-> L]]. eauto. }
  unfold step. rewrite L3, B0, D. cbn [orb].
  destruct ((x =? 32) || (x =? 9)); [now apply P|].
  replace (x =? 59) with false by (clear - N59; lia).
  destruct (x =? 13).
  { eexists. eexists. split; [reflexivity|]. split; [exact Hs|].
    unfold linvC, set_esc. cbn. repeat split; auto. now apply N.lt_le_incl. }
  replace (x =? 10) with false by (clear - N10; lia).
  destruct (x =? 92); [now apply P|].
  destruct (x =? 34); [now apply P|].
  destruct ((x =? 40) || (x =? 41)); [now apply P|].
  apply P. unfold linvCg, set_esc. cbn. repeat split; auto.
Qed.

(* the newline that ends a comment *)
Lemma step_com_nl s lc sp :
  sinvC s sp -> linvCg lc ->
  exists ts s', step s lc 10 = SEmit ts s' /\ Forall2 realizes ts [sk_nl] /\ sinv s' 0 false sp false true.
Proof.
  intros [A [B0 [C [D E]]]] [L1 [L2 L3]].
  unfold step. change (10 =? 32) with false. change (10 =? 9) with false. change (10 =? 59) with false.
  change (10 =? 13) with false. change (10 =? 10) with true. cbn [orb]. rewrite B0, D. cbv zeta.
  cbn [z_brace set_rrtype set_commt]. rewrite A. change (0 =? 0) with true. cbv iota.
  unfold emit. eexists. eexists. split; [reflexivity|]. split.
  - repeat constructor; rz.
  - unfold sinv. cbn. repeat split; assumption.
Qed.

Lemma LexToC_cont sp x inp K :
  x <> 10 -> x <> 59 -> LexToC sp inp K -> LexToC sp (x :: inp) K.
Proof.
  intros N10 N59 H s lc Hs Hl. cbn [lex_go].
  destruct (step_com _ _ x sp N10 N59 (sinvC_read_byte s x sp Hs) (grow_linvCg lc Hl)) as [s' [lc' [-> [Hs' Hl']]]].
  now apply H.
Qed.

Definition com_char (x : N) : bool := negb (x =? 10) && negb (x =? 59).
Lemma lex_com_body cm inp K :
  forallb com_char cm = true -> LexTo 0 false false false true [] false inp K ->
  LexToC false (cm ++ 10 :: inp) (sk_nl :: K).
Proof.
  intros F H. induction cm as [|c cm IH].
  - cbn [app]. intros s lc Hs Hl. cbn [lex_go].
    destruct (step_com_nl _ _ false (sinvC_read_byte s 10 false Hs) (grow_linvCg lc Hl)) as [ts [s' [-> [Ht Hs']]]].
    destruct (fresh_sinv _ _ _ _ _ _ Hs') as [F1 F2].
    destruct (fresh s') as [s2 lc2]. cbn [fst snd] in F1, F2.
    specialize (H s2 lc2 F1 F2).
    destruct (lex_go s2 lc2 inp false) as [l p]. cbn [fst] in *.
    change (sk_nl :: K) with ([sk_nl] ++ K). apply Forall2_app; assumption.
  - cbn [forallb] in F. apply andb_true_iff in F. destruct F as [F1 F2].
    unfold com_char in F1. cbn [app]. apply LexToC_cont; [clear - F1; lia|clear - F1; lia|]. now apply IH.
Qed.

(* the semicolon: the gathered string, if any, is delivered as it is *)
Lemma lex_com_start sp rr ow acc inp K :
  LexToC sp inp K ->
  LexTo 0 false sp rr ow acc false (59 :: inp) ((match rev acc with [] => [] | _ => [sk_str (rev acc)] end) ++ K).
Proof.
  intros H s lc Hs Hl. cbn [lex_go].
  pose proof (sinv_read_byte _ s 59 _ _ _ _ Hs) as [A [B0 [C [D [E [F G]]]]]].
  pose proof (grow_linvg _ _ _ Hl) as [L1 [L2 [L3 [L4 L5]]]].
  assert (L6 : c_comi (grow lc) < c_ccap (grow lc)).
  { destruct Hl as [_ [_ [_ [X _]]]]. unfold grow, maxTok. cbn [c_comi c_ccap]. rewrite X. clear.
    destruct (c_ccap lc <=? 0) eqn:Y; lia. }
  set (s0 := read_byte s 59) in *. set (lc0 := grow lc) in *. clearbody s0 lc0.
  unfold step. change (59 =? 32) with false. change (59 =? 9) with false. change (59 =? 59) with true.
  cbn [orb]. rewrite L5, B0. cbn [orb]. rewrite L4. change (1 <? 0) with false. cbv iota.
  unfold put_com_loc. replace (c_comi lc0 <? c_ccap lc0) with true by (clear - L6; lia).
  cbn [c_stri]. rewrite L2.
  destruct acc as [|a acc].
  - change (0 <? lenN []) with false. cbv iota. cbn [rev app].
    apply H.
    + unfold sinvC. cbn. repeat split; assumption.
    + unfold linvC. cbn. repeat split; auto. clear - L6. lia.
  - replace (0 <? lenN (a :: acc)) with true by (clear; unfold lenN; cbn [length]; lia).
    cbv zeta. unfold emit.
    match goal with |- context [fresh ?st] => set (s1 := st) end.
    assert (HC : sinvC (fst (fresh s1)) sp /\ linvC (snd (fresh s1))).
    { unfold fresh. cbn [fst snd]. split.
      - unfold sinvC, s1. cbn. repeat split; assumption.
      - unfold linvC, maxTok. cbn. repeat split; auto. apply N.le_min_l. }
    destruct HC as [H1 H2]. destruct (fresh s1) as [s2 lc2] eqn:Fr. cbn [fst snd] in H1, H2.
    specialize (H s2 lc2 H1 H2). destruct (lex_go s2 lc2 inp false) as [l p]. cbn [fst] in *.
    clear Fr. subst s1. unfold str_of. cbn [c_str]. rewrite L1, frev_rev.
    assert (NN : rev (a :: acc) <> []) by (apply rev_nonnil; discriminate).
    set (w := rev (a :: acc)) in *. clearbody w. destruct w as [|w0 w]; [contradiction|].
    cbn [app map]. constructor; [|exact H]. rz.
Qed.

(* ---------- separators and line ends ---------- *)
(* a separator: blanks and tabs, parentheses (counted; a closing one only after
   an opening one), CR, and newlines within parentheses; the result is the
   parenthesis count after it *)
Fixpoint sep_scan (b : N) (s : bytes) : option N :=
  match s with
  | [] => Some b
  | c :: r =>
    if is_blank c then sep_scan b r
    else if c =? 40 then sep_scan (b + 1) r
    else if c =? 41 then (if b =? 0 then None else sep_scan (b - 1) r)
    else if c =? 13 then sep_scan b r
    else if c =? 10 then (if b =? 0 then None else sep_scan b r)
    else None
  end.

Lemma step_blank_as32 b x s lc sp rr ow acc :
  is_blank x = true -> sinv s b false sp rr ow -> linvg lc acc false -> step s lc x = step s lc 32.
Proof.
  intros H [A [B0 [C [D [E [F G]]]]]] [L1 [L2 [L3 [L4 L5]]]]. now apply step_blank_any.
Qed.

(* after a blank token a separator delivers nothing *)
Lemma lex_sep_silent rr inp K : forall sep b b',
  sep_scan b sep = Some b' ->
  LexTo b' false true rr false [] false inp K -> LexTo b false true rr false [] false (sep ++ inp) K.
Proof.
  induction sep as [|c sep IH]; intros b b' S H; cbn [sep_scan app] in *.
  - injection S as <-. exact H.
  - destruct (is_blank c) eqn:Bc.
    { eapply LexTo_cont; [|exact (IH _ _ S H)].
      intros s lc Hs Hl. rewrite (step_blank_as32 _ _ _ _ _ _ _ _ Bc Hs Hl).
      exact (step_blank_again _ s lc rr false Hs Hl). }
    destruct (c =? 40) eqn:C40.
    { apply N.eqb_eq in C40. subst c.
      eapply LexTo_cont; [|exact (IH _ _ S H)].
      intros s lc Hs Hl. exact (step_paren_open _ s lc _ _ _ _ Hs Hl). }
    destruct (c =? 41) eqn:C41.
    { apply N.eqb_eq in C41. subst c. destruct (b =? 0) eqn:B0; [discriminate|].
      eapply LexTo_cont; [|exact (IH _ _ S H)].
      intros s lc Hs Hl. apply (step_paren_close (b - 1) s lc true rr false []); [|exact Hl].
      replace (b - 1 + 1) with b by (clear - B0; lia). exact Hs. }
    destruct (c =? 13) eqn:C13.
    { apply N.eqb_eq in C13. subst c.
      eapply LexTo_cont; [|exact (IH _ _ S H)].
      intros s lc Hs Hl. exact (step_cr _ s lc _ _ _ _ _ Hs Hl). }
    destruct (c =? 10) eqn:C10; [|discriminate].
    apply N.eqb_eq in C10. subst c. destruct (b =? 0) eqn:B0; [discriminate|].
    eapply LexTo_cont; [|exact (IH _ _ S H)].
    intros s lc Hs Hl. eapply step_nl_inside; [clear - B0; lia|exact Hs|exact Hl].
Qed.

(* a separator where no blank was just delivered: its first blank or tab
   delivers what a single blank would (passed as [E]), the rest nothing *)
Lemma lex_sep_emit rr ow acc rr' ks inp K :
  (forall b1 s lc, sinv s b1 false false rr ow -> linvg lc acc false ->
     exists ts s', step s lc 32 = SEmit ts s' /\ Forall2 realizes ts ks /\ sinv s' b1 false true rr' false) ->
  forall sep b b', sep_scan b sep = Some b' -> existsb is_blank sep = true ->
  LexTo b' false true rr' false [] false inp K ->
  LexTo b false false rr ow acc false (sep ++ inp) (ks ++ K).
Proof.
  intros Em. induction sep as [|c sep IH]; intros b b' S X H; cbn [sep_scan app existsb] in *; [discriminate|].
  destruct (is_blank c) eqn:Bc.
  { eapply LexTo_emit; [|exact (lex_sep_silent rr' inp K sep _ _ S H)].
    intros s lc Hs Hl. rewrite (step_blank_as32 _ _ _ _ _ _ _ _ Bc Hs Hl). exact (Em _ s lc Hs Hl). }
  cbn [orb] in X.
  destruct (c =? 40) eqn:C40.
  { apply N.eqb_eq in C40. subst c.
    eapply LexTo_cont; [|exact (IH _ _ S X H)].
    intros s lc Hs Hl. exact (step_paren_open _ s lc _ _ _ _ Hs Hl). }
  destruct (c =? 41) eqn:C41.
  { apply N.eqb_eq in C41. subst c. destruct (b =? 0) eqn:B0; [discriminate|].
    eapply LexTo_cont; [|exact (IH _ _ S X H)].
    intros s lc Hs Hl. apply (step_paren_close (b - 1) s lc false rr ow acc); [|exact Hl].
    replace (b - 1 + 1) with b by (clear - B0; lia). exact Hs. }
  destruct (c =? 13) eqn:C13.
  { apply N.eqb_eq in C13. subst c.
    eapply LexTo_cont; [|exact (IH _ _ S X H)].
    intros s lc Hs Hl. exact (step_cr _ s lc _ _ _ _ _ Hs Hl). }
  destruct (c =? 10) eqn:C10; [|discriminate].
  apply N.eqb_eq in C10. subst c. destruct (b =? 0) eqn:B0; [discriminate|].
  eapply LexTo_cont; [|exact (IH _ _ S X H)].
  intros s lc Hs Hl. eapply step_nl_inside; [clear - B0; lia|exact Hs|exact Hl].
Qed.

(* a line end: closing (and opening) parentheses and CR, then the newline at
   count zero, possibly after a comment that has no second semicolon; no blank *)
Fixpoint com_ok (r : bytes) : bool :=
  match r with
  | [] => false
  | c :: r' => if c =? 10 then match r' with [] => true | _ => false end
               else negb (c =? 59) && com_ok r'
  end.
Fixpoint eol_scan (b : N) (s : bytes) : bool :=
  match s with
  | [] => false
  | c :: r =>
    if c =? 40 then eol_scan (b + 1) r
    else if c =? 41 then negb (b =? 0) && eol_scan (b - 1) r
    else if c =? 13 then eol_scan b r
    else if c =? 10 then (if b =? 0 then match r with [] => true | _ => false end else eol_scan b r)
    else if c =? 59 then (b =? 0) && com_ok r
    else false
  end.
Lemma com_ok_split r : com_ok r = true -> exists cm, r = cm ++ [10] /\ forallb com_char cm = true.
Proof.
  induction r as [|c r IH]; cbn [com_ok]; [discriminate|].
  destruct (c =? 10) eqn:C10.
  - destruct r; [|discriminate]. intros _. apply N.eqb_eq in C10. subst. exists []. split; reflexivity.
  - intro H. apply andb_true_iff in H. destruct H as [H1 H2]. destruct (IH H2) as [cm [-> F]].
    exists (c :: cm). split; [reflexivity|]. cbn [forallb]. unfold com_char at 1. now rewrite C10, H1, F.
Qed.

Definition pend (acc : bytes) : list stok := match rev acc with [] => [] | _ => [sk_str (rev acc)] end.

Lemma lex_eol rr ow acc inp K :
  (acc <> [] -> rr = false -> lookup type_table (upper (rev acc)) = None) ->
  LexTo 0 false false false true [] false inp K ->
  forall eol b, eol_scan b eol = true ->
  LexTo b false false rr ow acc false (eol ++ inp) (pend acc ++ sk_nl :: K).
Proof.
  intros HT H. induction eol as [|c eol IH]; intros b S; cbn [eol_scan app] in *; [discriminate|].
  destruct (c =? 40) eqn:C40.
  { apply N.eqb_eq in C40. subst c.
    eapply LexTo_cont; [|exact (IH _ S)].
    intros s lc Hs Hl. exact (step_paren_open _ s lc _ _ _ _ Hs Hl). }
  destruct (c =? 41) eqn:C41.
  { apply N.eqb_eq in C41. subst c. apply andb_true_iff in S. destruct S as [B0 S].
    eapply LexTo_cont; [|exact (IH _ S)].
    intros s lc Hs Hl. apply (step_paren_close (b - 1) s lc false rr ow acc); [|exact Hl].
    replace (b - 1 + 1) with b by (clear - B0; lia). exact Hs. }
  destruct (c =? 13) eqn:C13.
  { apply N.eqb_eq in C13. subst c.
    eapply LexTo_cont; [|exact (IH _ S)].
    intros s lc Hs Hl. exact (step_cr _ s lc _ _ _ _ _ Hs Hl). }
  destruct (c =? 10) eqn:C10.
  { apply N.eqb_eq in C10. subst c. destruct (b =? 0) eqn:B0.
    - apply N.eqb_eq in B0. subst b. destruct eol; [|discriminate]. cbn [app].
      unfold pend. destruct acc as [|a acc].
      + cbn [rev app]. change (sk_nl :: K) with ([sk_nl] ++ K).
        eapply LexTo_emit; [|exact H]. intros s lc Hs Hl. exact (step_nl_bare s lc false rr ow false Hs Hl).
      + assert (NN : rev (a :: acc) <> []) by (apply rev_nonnil; discriminate).
        destruct (rev (a :: acc)) as [|w0 w] eqn:EW; [contradiction|]. rewrite <- EW in *.
        change ([sk_str (rev (a :: acc))] ++ sk_nl :: K) with ([sk_str (rev (a :: acc)); sk_nl] ++ K).
        eapply LexTo_emit; [|exact H]. intros s lc Hs Hl.
        apply (step_nl_word s lc false rr ow (a :: acc) false); [discriminate| |exact Hs|exact Hl].
        apply HT. discriminate.
    - eapply LexTo_cont; [|exact (IH _ S)].
      intros s lc Hs Hl. eapply step_nl_inside; [clear - B0; lia|exact Hs|exact Hl]. }
  destruct (c =? 59) eqn:C59; [|discriminate].
  apply N.eqb_eq in C59. subst c. apply andb_true_iff in S. destruct S as [B0 S].
  apply N.eqb_eq in B0. subst b.
  destruct (com_ok_split _ S) as [cm [-> F]]. rewrite <- app_assoc. cbn [app].
  apply lex_com_start. now apply lex_com_body.
Qed.

(* ---------- words with separators and line ends ---------- *)
Lemma lex_uword_b b w sp rr ow inp K :
  uw_ok w = true ->
  LexTo b false false rr ow (rev w) false inp K ->
  LexTo b false sp rr ow [] false (w ++ inp) K.
Proof.
  unfold uw_ok. intros H L. apply andb_true_iff in H. destruct H as [H1 H2].
  apply lex_word; [exact H1|]. rewrite H2, app_nil_r. cbn [negb]. rewrite andb_false_r. exact L.
Qed.

Definition SepOK (b : N) (sep : bytes) (b' : N) : Prop :=
  sep_scan b sep = Some b' /\ existsb is_blank sep = true.

Lemma lex_first_word_L b b' w sep rr inp K :
  uw_ok w = true -> SepOK b sep b' -> LexTo b' false true rr false [] false inp K ->
  LexTo b false false rr true [] false (w ++ sep ++ inp) (mkSk (first_val w) w 0 :: sk_blank :: K).
Proof.
  intros U [S X] H. apply lex_uword_b; [exact U|].
  change (mkSk (first_val w) w 0 :: sk_blank :: K) with ([mkSk (first_val w) w 0; sk_blank] ++ K).
  eapply lex_sep_emit; [|exact S|exact X|exact H].
  intros b1 s lc Hs Hl. pose proof (step_blank_owner b1 s lc rr (rev w) (uw_ok_nonnil w U) Hs Hl) as G.
  rewrite rev_involutive in G. exact G.
Qed.
Lemma lex_bare_sep_L b b' sep rr ow inp K :
  SepOK b sep b' -> LexTo b' false true rr false [] false inp K ->
  LexTo b false false rr ow [] false (sep ++ inp) (sk_blank :: K).
Proof.
  intros [S X] H. change (sk_blank :: K) with ([sk_blank] ++ K).
  eapply lex_sep_emit; [|exact S|exact X|exact H].
  intros b1 s lc Hs Hl. exact (step_blank_bare b1 s lc rr ow Hs Hl).
Qed.
Lemma lex_mid_word_L b b' w sep k sp rr inp K :
  uw_ok w = true -> (rr = true -> k = KPlain) -> (rr = false -> word_kind w = Some k) ->
  SepOK b sep b' -> LexTo b' false true (rr || kind_rr k) false [] false inp K ->
  LexTo b false sp rr false [] false (w ++ sep ++ inp) (kind_sk k w :: sk_blank :: K).
Proof.
  intros U K1 K2 [S X] H. apply lex_uword_b; [exact U|].
  change (kind_sk k w :: sk_blank :: K) with ([kind_sk k w; sk_blank] ++ K).
  eapply lex_sep_emit; [|exact S|exact X|exact H].
  intros b1 s lc Hs Hl.
  assert (K2' : rr = false -> word_kind (rev (rev w)) = Some k) by (rewrite rev_involutive; exact K2).
  pose proof (step_blank_word b1 s lc rr (rev w) k (uw_ok_nonnil w U) K1 K2' Hs Hl) as G.
  rewrite rev_involutive in G. exact G.
Qed.
Lemma lex_last_word_L b w eol sp rr ow inp K :
  uw_ok w = true -> (rr = false -> lookup type_table (upper w) = None) ->
  eol_scan b eol = true -> LineStart inp K ->
  LexTo b false sp rr ow [] false (w ++ eol ++ inp) (sk_str w :: sk_nl :: K).
Proof.
  intros U HT S H. apply lex_uword_b; [exact U|].
  pose proof (lex_eol rr ow (rev w) inp K) as G. unfold pend in G. rewrite rev_involutive in G.
  pose proof (uw_ok_nonnil w U) as NN.
  assert (W : w <> []) by (intro E; subst; apply NN; reflexivity).
  destruct w as [|w0 w]; [contradiction|]. cbn [app] in G.
  apply G; [intros _; exact HT|exact H|exact S].
Qed.
Lemma lex_bare_eol_L b eol rr ow inp K :
  eol_scan b eol = true -> LineStart inp K ->
  LexTo b false false rr ow [] false (eol ++ inp) (sk_nl :: K).
Proof.
  intros S H. pose proof (lex_eol rr ow [] inp K) as G. unfold pend in G. cbn [rev app] in G.
  apply G; [intro C; contradiction|exact H|exact S].
Qed.
Lemma lex_qstr_b b str sp rr ow inp K :
  qs_ok str = true ->
  LexTo b false false rr ow [] false inp K ->
  LexTo b false sp rr ow [] false (34 :: str ++ 34 :: inp) (sk_qstr str ++ K).
Proof.
  intros Q H. unfold sk_qstr. change ((sk_quote :: ?a ++ [sk_quote]) ++ K) with ([sk_quote] ++ (a ++ [sk_quote]) ++ K).
  eapply LexTo_emit; [intros s lc Hs Hl; exact (step_quote_open b s lc sp rr ow Hs Hl)|].
  apply lex_word; [exact Q|]. cbn [andb]. rewrite app_nil_r.
  eapply LexTo_emit; [|exact H].
  intros s lc Hs Hl. pose proof (step_quote_close b s lc false rr ow (rev str) Hs Hl) as G.
  rewrite rev_involutive in G. exact G.
Qed.

(* ---------- the rendering with a layout ---------- *)
(* a layout gives, per entry, the separators in the order of the text (a
   missing one is a single blank) and the line end *)
Record layout := mkLay { l_seps : list bytes; l_eol : bytes }.
Definition plain_layout : layout := mkLay [] [10].
Definition nxt (seps : list bytes) : bytes := match seps with s :: _ => s | [] => [32] end.

Fixpoint words_with (seps : list bytes) (l : list bytes) : bytes :=
  match l with
  | [] => []
  | [s] => s
  | s :: r => s ++ nxt seps ++ words_with (tl seps) r
  end.
Fixpoint txt_with (seps : list bytes) (l : list bytes) : bytes :=
  match l with
  | [] => []
  | [s] => 34 :: s ++ [34]
  | s :: r => 34 :: s ++ 34 :: nxt seps ++ txt_with (tl seps) r
  end.
Definition rd_with (seps : list bytes) (w : rdw) : bytes :=
  match w with
  | WName n => n
  | WAddr t => t
  | WTxt l => txt_with seps l
  | WGen len hs => words_with seps ([92; 35] :: len :: hs)
  end.
(* every word followed by its separator *)
Fixpoint sepd (ws : list bytes) (seps : list bytes) : bytes :=
  match ws with [] => [] | w :: r => w ++ nxt seps ++ sepd r (tl seps) end.
(* the fields between owner and RDATA, with what the lexer makes of them *)
Definition kfields (r : recd) : list (bytes * wkind) :=
  let t := match d_ttl r with Some t => [(t, KPlain)] | None => [] end in
  let c := match d_class r with Some c => [(class_text c, KClass c)] | None => [] end in
  (if d_ttl_first r then t ++ c else c ++ t) ++ [(type_text (d_type r), KType (d_type r))].
Definition rec_with (L : layout) (r : recd) : bytes :=
  let fl := map fst (kfields r) in
  (match d_owner r with Some n => n | None => [] end) ++ nxt (l_seps L) ++
  sepd fl (tl (l_seps L)) ++ rd_with (skipn (S (length fl)) (l_seps L)) (d_rd r) ++ l_eol L.
Definition entry_with (L : layout) (e : entry) : bytes :=
  match e with
  | DRec r => rec_with L r
  | DOrigin n => B "$ORIGIN" ++ nxt (l_seps L) ++ n ++ l_eol L
  | DTtl t => B "$TTL" ++ nxt (l_seps L) ++ t ++ l_eol L
  end.
Fixpoint zone_with (Ls : list layout) (es : list entry) : bytes :=
  match es with
  | [] => []
  | e :: r => entry_with (hd plain_layout Ls) e ++ zone_with (tl Ls) r
  end.

(* the separators an entry uses, and the layouts that are admissible: every
   separator has a blank or tab, parentheses are balanced within the line and
   closed before the line end *)
Definition rd_nseps (w : rdw) : nat :=
  match w with WName _ => O | WAddr _ => O | WTxt l => pred (length l) | WGen _ hs => S (length hs) end.
Definition nseps (e : entry) : nat :=
  match e with DRec r => S (length (kfields r)) + rd_nseps (d_rd r) | _ => 1%nat end.
Fixpoint seps_scan (b : N) (k : nat) (seps : list bytes) : option N :=
  match k with
  | O => Some b
  | S k' => match sep_scan b (nxt seps) with
            | Some b' => if existsb is_blank (nxt seps) then seps_scan b' k' (tl seps) else None
            | None => None
            end
  end.
Definition lay_ok (L : layout) (e : entry) : bool :=
  match seps_scan 0 (nseps e) (l_seps L) with Some b => eol_scan b (l_eol L) | None => false end.
Fixpoint lays_ok (Ls : list layout) (es : list entry) : bool :=
  match es with
  | [] => true
  | e :: r => lay_ok (hd plain_layout Ls) e && lays_ok (tl Ls) r
  end.

Lemma seps_scan_S b k seps b' :
  seps_scan b (S k) seps = Some b' ->
  exists b1, SepOK b (nxt seps) b1 /\ seps_scan b1 k (tl seps) = Some b'.
Proof.
  cbn [seps_scan]. destruct (sep_scan b (nxt seps)) as [b1|] eqn:E; [|discriminate].
  destruct (existsb is_blank (nxt seps)) eqn:X; [|discriminate].
  intro H. exists b1. repeat split; assumption.
Qed.
Lemma skipn_tl {A} n (l : list A) : skipn n (tl l) = skipn (S n) l.
Proof. destruct l; [now rewrite !skipn_nil|reflexivity]. Qed.
Lemma seps_scan_add n m : forall seps b b',
  seps_scan b (n + m) seps = Some b' ->
  exists b1, seps_scan b n seps = Some b1 /\ seps_scan b1 m (skipn n seps) = Some b'.
Proof.
  induction n as [|n IH]; intros seps b b' H.
  - exists b. split; [reflexivity|exact H].
  - change (S n + m)%nat with (S (n + m)) in H.
    destruct (seps_scan_S _ _ _ _ H) as [b1 [[S1 X1] H1]].
    destruct (IH _ _ _ H1) as [b2 [H2 H3]].
    exists b2. split.
    + cbn [seps_scan]. now rewrite S1, X1.
    + now rewrite <- skipn_tl.
Qed.

(* the fields: each word and the separator after it *)
Fixpoint fl_ok (rr : bool) (fl : list (bytes * wkind)) : Prop :=
  match fl with
  | [] => True
  | p :: r => uw_ok (fst p) = true /\ (rr = true -> snd p = KPlain) /\
              (rr = false -> word_kind (fst p) = Some (snd p)) /\ fl_ok (rr || kind_rr (snd p)) r
  end.
Fixpoint rr_after (rr : bool) (fl : list (bytes * wkind)) : bool :=
  match fl with [] => rr | p :: r => rr_after (rr || kind_rr (snd p)) r end.
Definition fl_sk (fl : list (bytes * wkind)) : list stok :=
  flat_map (fun p => [kind_sk (snd p) (fst p); sk_blank]) fl.

Lemma lex_sepd inp K : forall fl p seps b b' sp rr,
  fl_ok rr (p :: fl) -> seps_scan b (length (p :: fl)) seps = Some b' ->
  LexTo b' false true (rr_after rr (p :: fl)) false [] false inp K ->
  LexTo b false sp rr false [] false (sepd (map fst (p :: fl)) seps ++ inp) (fl_sk (p :: fl) ++ K).
Proof.
  induction fl as [|q fl IH]; intros p seps b b' sp rr F S H.
  - cbn [length] in S. destruct (seps_scan_S _ _ _ _ S) as [b1 [S1 S2]]. cbn in S2. injection S2 as <-.
    destruct F as [F1 [F2 [F3 _]]].
    cbn [map sepd fl_sk flat_map app rr_after] in *. rewrite app_nil_r, <- !app_assoc.
    cbn [app]. apply (lex_mid_word_L b b1 (fst p) (nxt seps) (snd p) sp rr); assumption.
  - cbn [length] in S. destruct (seps_scan_S _ _ _ _ S) as [b1 [S1 S2]].
    destruct F as [F1 [F2 [F3 F4]]].
    change (sepd (map fst (p :: q :: fl)) seps) with (fst p ++ nxt seps ++ sepd (map fst (q :: fl)) (tl seps)).
    change (fl_sk (p :: q :: fl)) with ([kind_sk (snd p) (fst p); sk_blank] ++ fl_sk (q :: fl)).
    rewrite <- !app_assoc. cbn [app].
    apply (lex_mid_word_L b b1 (fst p) (nxt seps) (snd p) sp rr); try assumption.
    apply (IH q (tl seps) b1 b' true); assumption.
Qed.

Lemma lex_words_L eol inp K : LineStart inp K -> forall l seps b b' sp,
  l <> [] -> forallb uw_ok l = true ->
  seps_scan b (pred (length l)) seps = Some b' -> eol_scan b' eol = true ->
  LexTo b false sp true false [] false (words_with seps l ++ eol ++ inp) (sk_words l ++ sk_nl :: K).
Proof.
  intros H. induction l as [|w l IH]; intros seps b b' sp N F S E; [contradiction|].
  cbn [forallb] in F. apply andb_true_iff in F. destruct F as [F1 F2].
  destruct l as [|w2 l].
  - cbn in S. injection S as <-. cbn [words_with sk_words app].
    apply lex_last_word_L; [exact F1|discriminate|exact E|exact H].
  - change (words_with seps (w :: w2 :: l)) with (w ++ nxt seps ++ words_with (tl seps) (w2 :: l)).
    change (sk_words (w :: w2 :: l)) with (sk_str w :: sk_blank :: sk_words (w2 :: l)).
    cbn [length pred] in S. destruct (seps_scan_S _ _ _ _ S) as [b1 [S1 S2]].
    rewrite <- !app_assoc. cbn [app].
    apply (lex_mid_word_L b b1 w (nxt seps) KPlain sp true); [exact F1|reflexivity|discriminate|exact S1|].
    apply (IH (tl seps) b1 b' true); [discriminate|exact F2|exact S2|exact E].
Qed.

Lemma lex_txt_L eol inp K : LineStart inp K -> forall l seps b b' sp,
  l <> [] -> forallb qs_ok l = true ->
  seps_scan b (pred (length l)) seps = Some b' -> eol_scan b' eol = true ->
  LexTo b false sp true false [] false (txt_with seps l ++ eol ++ inp) (sk_txt l ++ sk_nl :: K).
Proof.
  intros H. induction l as [|w l IH]; intros seps b b' sp N F S E; [contradiction|].
  cbn [forallb] in F. apply andb_true_iff in F. destruct F as [F1 F2].
  destruct l as [|w2 l].
  - cbn in S. injection S as <-. cbn [txt_with sk_txt app]. rewrite <- app_assoc. cbn [app].
    apply lex_qstr_b; [exact F1|]. apply lex_bare_eol_L; [exact E|exact H].
  - change (txt_with seps (w :: w2 :: l)) with (34 :: w ++ 34 :: nxt seps ++ txt_with (tl seps) (w2 :: l)).
    change (sk_txt (w :: w2 :: l)) with (sk_qstr w ++ sk_blank :: sk_txt (w2 :: l)).
    cbn [length pred] in S. destruct (seps_scan_S _ _ _ _ S) as [b1 [S1 S2]].
    cbn [app]. rewrite <- !app_assoc. cbn [app]. rewrite <- !app_assoc.
    apply lex_qstr_b; [exact F1|]. apply (lex_bare_sep_L b b1); [exact S1|].
    apply (IH (tl seps) b1 b' true); [discriminate|exact F2|exact S2|exact E].
Qed.

Lemma lex_rd_L w seps eol b b' inp K :
  rd_render_ok w = true -> seps_scan b (rd_nseps w) seps = Some b' -> eol_scan b' eol = true ->
  LineStart inp K ->
  LexTo b false true true false [] false (rd_with seps w ++ eol ++ inp) (sk_rd w ++ sk_nl :: K).
Proof.
  intros R S E H. destruct w as [n|t|l|len hs]; cbn [rd_render_ok rd_with rd_nseps] in *.
  - cbn in S. injection S as <-. cbn [sk_rd app]. apply lex_last_word_L; [exact R|discriminate|exact E|exact H].
  - cbn in S. injection S as <-. cbn [sk_rd app]. apply lex_last_word_L; [exact R|discriminate|exact E|exact H].
  - apply andb_true_iff in R. destruct R as [R1 R2]. cbn [sk_rd].
    apply (lex_txt_L eol inp K H l seps b b'); [destruct l; discriminate|exact R2|exact S|exact E].
  - rewrite sk_rd_gen.
    apply (lex_words_L eol inp K H _ seps b b'); [discriminate| |exact S|exact E].
    cbn [forallb]. apply andb_true_iff in R. destruct R as [R1 R2]. rewrite R1, R2. reflexivity.
Qed.

Lemma sk_rec_fields r :
  sk_rec r = (match d_owner r with Some n => [mkSk ZOwner n 0] | None => [] end) ++
             sk_blank :: fl_sk (kfields r) ++ sk_rd (d_rd r) ++ [sk_nl].
Proof.
  destruct r as [own ttl cls tf ty rd]. unfold sk_rec, kfields, fl_sk.
  cbn [d_owner d_ttl d_class d_ttl_first d_type d_rd].
  destruct own, ttl, cls, tf; reflexivity.
Qed.

Lemma kfields_ok r : render_ok (DRec r) = true -> fl_ok false (kfields r) /\ rr_after false (kfields r) = true.
Proof.
  destruct r as [own ttl cls tf ty rd]. cbn [render_ok d_owner d_ttl d_class d_type d_rd]. intro R.
  repeat (apply andb_true_iff in R; destruct R as [R ?]).
  assert (HT : ty < 65536) by (apply N.ltb_lt; assumption).
  destruct (type_text_ok ty HT) as [T1 T2].
  assert (PT : forall t, opt_ok (fun t => uw_ok t && is_plain t) (Some t) = true ->
               uw_ok t = true /\ word_kind t = Some KPlain).
  { intros t X. cbn in X. apply andb_true_iff in X. destruct X as [X1 X2]. split; [exact X1|].
    unfold is_plain in X2. destruct (word_kind t) as [[| |]|]; try discriminate. reflexivity. }
  assert (PC : forall c, opt_ok (fun c => c <? 65536) (Some c) = true ->
               uw_ok (class_text c) = true /\ word_kind (class_text c) = Some (KClass c)).
  { intros c X. cbn in X. apply N.ltb_lt in X. now apply class_text_ok. }
  unfold kfields. cbn [d_ttl d_class d_ttl_first d_type].
  destruct ttl as [t|]; destruct cls as [c|]; destruct tf; cbn [app fl_ok rr_after fst snd kind_rr orb];
    repeat match goal with
           | X : opt_ok _ (Some _) = true |- _ => first [apply PT in X | apply PC in X]; destruct X
           end;
    repeat split; auto; try discriminate.
Qed.

Lemma lex_rec_L L r inp K :
  render_ok (DRec r) = true -> lay_ok L (DRec r) = true -> LineStart inp K ->
  LineStart (rec_with L r ++ inp) (sk_rec r ++ K).
Proof.
  intros R Y H. destruct (kfields_ok r R) as [FO RA].
  unfold lay_ok in Y. cbn [nseps] in Y.
  destruct (seps_scan 0 (S (length (kfields r)) + rd_nseps (d_rd r)) (l_seps L)) as [bE|] eqn:SS; [|discriminate].
  change (S (length (kfields r)) + rd_nseps (d_rd r))%nat with (S (length (kfields r) + rd_nseps (d_rd r))) in SS.
  destruct (seps_scan_S _ _ _ _ SS) as [b1 [S1 S2]].
  destruct (seps_scan_add _ _ _ _ _ S2) as [b2 [S3 S4]].
  rewrite skipn_tl in S4.
  assert (RD : rd_render_ok (d_rd r) = true).
  { destruct r as [own ttl cls tf ty rd]. cbn [render_ok d_owner d_ttl d_class d_type d_rd] in *.
    apply andb_true_iff in R. destruct R as [_ R]. exact R. }
  assert (OW : opt_ok (fun n => uw_ok n && no_dir n) (d_owner r) = true).
  { destruct r as [own ttl cls tf ty rd]. cbn [render_ok d_owner d_ttl d_class d_type d_rd] in *.
    repeat (apply andb_true_iff in R; destruct R as [R ?]). exact R. }
  rewrite sk_rec_fields. unfold rec_with. cbv zeta. rewrite map_length.
  assert (FL : exists p fl, kfields r = p :: fl).
  { unfold kfields. destruct (d_ttl r), (d_class r), (d_ttl_first r); cbn; eauto. }
  destruct FL as [p [fl EF]]. rewrite EF in *.
  assert (Tail : LexTo b1 false true false false [] false
            (sepd (map fst (p :: fl)) (tl (l_seps L)) ++
             rd_with (skipn (S (length (p :: fl))) (l_seps L)) (d_rd r) ++ l_eol L ++ inp)
            (fl_sk (p :: fl) ++ sk_rd (d_rd r) ++ sk_nl :: K)).
  { apply (lex_sepd _ _ fl p (tl (l_seps L)) b1 b2 true false FO S3). rewrite RA.
    apply (lex_rd_L _ _ _ b2 bE); assumption. }
  destruct (d_owner r) as [n|].
  - cbn [opt_ok] in OW. apply andb_true_iff in OW. destruct OW as [O1 O2].
    repeat (rewrite <- !app_assoc; cbn [app]).
    pose proof (lex_first_word_L 0 b1 n (nxt (l_seps L)) false _ _ O1 S1 Tail) as G.
    unfold first_val in G. unfold no_dir in O2. destruct (dir_of (upper n)); [discriminate|]. exact G.
  - cbn [app]. repeat (rewrite <- !app_assoc; cbn [app]).
    apply (lex_bare_sep_L 0 b1); [exact S1|exact Tail].
Qed.

Lemma lex_directive_L L w v arg inp K :
  uw_ok w = true -> dir_of (upper w) = Some v -> uw_ok arg = true -> no_type arg = true ->
  (match seps_scan 0 1 (l_seps L) with Some b => eol_scan b (l_eol L) | None => false end) = true ->
  LineStart inp K ->
  LineStart (w ++ nxt (l_seps L) ++ arg ++ l_eol L ++ inp) (mkSk v [] 0 :: sk_blank :: sk_str arg :: sk_nl :: K).
Proof.
  intros U D UA NT Y H.
  destruct (seps_scan 0 1 (l_seps L)) as [bE|] eqn:SS; [|discriminate].
  destruct (seps_scan_S _ _ _ _ SS) as [b1 [S1 S2]]. cbn in S2. injection S2 as <-.
  assert (T : LexTo b1 false true false false [] false (arg ++ l_eol L ++ inp) (sk_str arg :: sk_nl :: K)).
  { apply lex_last_word_L; [exact UA| |exact Y|exact H].
    intros _. unfold no_type in NT. destruct (lookup type_table (upper arg)); [discriminate|reflexivity]. }
  intros s lc Hs Hl.
  pose proof (lex_first_word_L 0 b1 w (nxt (l_seps L)) false _ _ U S1 T s lc Hs Hl) as G.
  unfold first_val in G. rewrite D in G.
  inversion G as [|t k ts ks R RS]; subst. constructor; [|exact RS].
  destruct R as [R1 [R2 [R3 [R4 R5]]]]. cbn [k_val k_text k_torc] in *.
  unfold realizes. cbn [k_val k_text k_torc]. repeat split; auto.
  unfold dir_of in D.
  repeat match type of D with (if ?c then _ else _) = _ => destruct c end;
    try discriminate; injection D as <-; cbn; intro; discriminate.
Qed.

Lemma lex_entry_L L e inp K :
  render_ok e = true -> lay_ok L e = true -> LineStart inp K ->
  LineStart (entry_with L e ++ inp) (sk_entry e ++ K).
Proof.
  intros R Y H. destruct e as [r|n|t].
  - now apply lex_rec_L.
  - cbn [render_ok] in R. apply andb_true_iff in R. destruct R as [R1 R2].
    cbn [entry_with sk_entry]. repeat (rewrite <- !app_assoc; cbn [app]).
    apply (lex_directive_L L (B "$ORIGIN") ZDirOrigin n inp K); auto.
  - cbn [render_ok] in R. apply andb_true_iff in R. destruct R as [R1 R2].
    cbn [entry_with sk_entry]. repeat (rewrite <- !app_assoc; cbn [app]).
    apply (lex_directive_L L (B "$TTL") ZDirTTL t inp K); auto.
Qed.

Lemma lex_zone_L : forall es Ls,
  forallb render_ok es = true -> lays_ok Ls es = true -> LineStart (zone_with Ls es) (sk_zone es).
Proof.
  induction es as [|e es IH]; intros Ls R Y.
  - apply LexTo_end.
  - cbn [forallb] in R. apply andb_true_iff in R. destruct R as [R1 R2].
    cbn [lays_ok] in Y. apply andb_true_iff in Y. destruct Y as [Y1 Y2].
    cbn [zone_with sk_zone flat_map]. apply lex_entry_L; [exact R1|exact Y1|]. now apply IH.
Qed.

(* the lexer delivers the same skeleton for every admissible layout: tabs and
   runs of blanks, parentheses with newlines inside them, CR before LF, a
   comment right after the last word or string *)
Theorem lex_render_layout_proved Ls es :
  forallb render_ok es = true -> lays_ok Ls es = true ->
  Forall2 realizes (lex (zone_with Ls es)) (sk_zone es).
Proof.
  intros R Y. unfold lex, lex_full.
  assert (I : sinv init_lst 0 false false false true) by (unfold sinv; cbn; repeat split; reflexivity).
  destruct (fresh_sinv _ _ _ _ _ _ I) as [F1 F2].
  destruct (fresh init_lst) as [s lc]. cbn [fst snd] in F1, F2.
  exact (lex_zone_L es Ls R Y s lc F1 F2).
Qed.

(* the plain rendering is the one with no layout given, and it is admissible *)
Lemma words_with_plain l : words_with [] l = render_words l.
Proof.
  induction l as [|w l IH]; [reflexivity|]. destruct l as [|w2 l]; [reflexivity|].
  change (words_with [] (w :: w2 :: l)) with (w ++ [32] ++ words_with [] (w2 :: l)).
  rewrite IH. reflexivity.
Qed.
Lemma txt_with_plain l : txt_with [] l = render_txt l.
Proof.
  induction l as [|w l IH]; [reflexivity|]. destruct l as [|w2 l]; [reflexivity|].
  change (txt_with [] (w :: w2 :: l)) with (34 :: w ++ 34 :: [32] ++ txt_with [] (w2 :: l)).
  rewrite IH. reflexivity.
Qed.
Lemma zone_with_plain es : zone_with [] es = render_zone es.
Proof.
  induction es as [|e es IH]; [reflexivity|].
  cbn [zone_with hd tl render_zone flat_map]. fold (render_zone es). rewrite IH. f_equal.
  destruct e as [r|n|t]; [|reflexivity|reflexivity].
  destruct r as [own ttl cls tf ty rd]. unfold entry_with, rec_with, render_entry, render_rec, kfields, plain_layout.
  cbn [d_owner d_ttl d_class d_ttl_first d_type d_rd l_seps l_eol]. cbv zeta.
  rewrite skipn_nil.
  assert (RD : rd_with [] rd = render_rd rd).
  { destruct rd; cbn [rd_with render_rd]; [reflexivity|reflexivity|apply txt_with_plain|apply words_with_plain]. }
  rewrite RD.
  destruct own, ttl, cls, tf; cbn [map fst app sepd tl nxt fld]; repeat (rewrite <- ?app_assoc; cbn [app]); reflexivity.
Qed.
Lemma seps_scan_plain k : seps_scan 0 k [] = Some 0.
Proof. induction k as [|k IH]; [reflexivity|]. cbn [seps_scan nxt tl]. exact IH. Qed.
Lemma lays_ok_plain es : lays_ok [] es = true.
Proof.
  induction es as [|e es IH]; [reflexivity|]. cbn [lays_ok hd tl]. rewrite IH.
  unfold lay_ok, plain_layout. cbn [l_seps l_eol]. rewrite seps_scan_plain. reflexivity.
Qed.

Theorem zone_text_layout_denotes_proved fs_open os_open d cf origin default Ls es recs :
  origin <> [] -> is_fqdn origin = true -> is_domain_name origin = true ->
  Forall wf_entry es -> forallb render_ok es = true -> lays_ok Ls es = true ->
  denote origin default es = Some recs ->
  run_d fs_open os_open d cf origin
        (match default with Some t => Some (mkTtl t false) | None => None end)
        (lex (zone_with Ls es)) None
  = map ERec recs.
Proof.
  intros Ho Hf Hd W R Y D.
  apply (zp_refines_tokens fs_open os_open d cf origin default es); auto.
  now apply lex_render_layout_proved.
Qed.

(* a laid-out text of the worked zone *)
Definition cr1 : string := String (ascii_of_N 13) EmptyString.
Definition tab1 : string := String (ascii_of_N 9) EmptyString.
Definition ex2_layouts : list layout :=
  [ mkLay [B (tab1 +++ " ")] (B (cr1 +++ nl1));
    mkLay [] (B (";default TTL" +++ nl1));
    mkLay [B "   "; B tab1; B (" (" +++ nl1 +++ tab1)] (B (")" +++ nl1));
    mkLay [B " "; B "  "; B " ( "; B " ) "] (B (";the name server" +++ cr1 +++ nl1));
    mkLay [B tab1; B " "; B " "; B (tab1 +++ "(" +++ nl1 +++ " "); B (nl1 +++ " ")] (B (nl1 +++ ")" +++ nl1));
    mkLay [B " "; B " "; B " "; B "( "; B " "; B " ) "] (B (";generic" +++ nl1)) ].
Definition ex2_laid : bytes :=
  B ("$ORIGIN" +++ tab1 +++ " example.org." +++ cr1 +++ nl1 +++
     "$TTL 1h30m;default TTL" +++ nl1 +++
     "@   IN" +++ tab1 +++ "NS (" +++ nl1 +++ tab1 +++ "ns1)" +++ nl1 +++
     "ns1 300  IN ( A ) 192.0.2.1;the name server" +++ cr1 +++ nl1 +++
     tab1 +++ "CH 2h TXT" +++ tab1 +++ "(" +++ nl1 +++ " ""a b""" +++ nl1 +++ " ""c\""d;(""" +++ nl1 +++ ")" +++ nl1 +++
     "a\.b CLASS255 TYPE65280 \#( 2 ab ) cd;generic" +++ nl1).
Example ex2_laid_text : zone_with ex2_layouts ex2_zone = ex2_laid.
Proof. vm_compute. reflexivity. Qed.
Example ex2_lays_ok : lays_ok ex2_layouts ex2_zone = true.
Proof. vm_compute. reflexivity. Qed.
Example ex2_plain_layout : zone_with [] ex2_zone = render_zone ex2_zone /\ lays_ok [] ex2_zone = true.
Proof. vm_compute. split; reflexivity. Qed.
Example ex2_laid_parses :
  run_d no_files no_files maxIncludeDepth (mkCfg [] false false false O) (B "test.") None
        (lex ex2_laid) None = map ERec ex2_recs.
Proof. vm_compute. reflexivity. Qed.

(* ---------- layouts that do NOT give the same skeleton ---------- *)
(* a blank before the line end (or before a comment) delivers one more blank
   token, an empty line or a comment line one more newline token: the skeleton
   is not the zone's; on these texts the parser still reads the same record *)
Theorem extra_token_layouts_refuted :
  let z := [DRec (mkRecd (Some (B "x")) None None false 1 (WAddr (B "192.0.2.1")))] in
  let rec1 := [ERec (mkRR (mkHdr (B "x.test.") 1 1 5) (RAddr [192; 0; 2; 1]) 0)] in
  let t1 := B ("x A 192.0.2.1 " +++ nl1) in
  let t2 := B ("x A 192.0.2.1 ;c" +++ nl1) in
  let t3 := B (nl1 +++ "x A 192.0.2.1" +++ nl1) in
  let t4 := B (";c" +++ nl1 +++ "x A 192.0.2.1" +++ nl1) in
  Forall (fun t => ~ Forall2 realizes (lex t) (sk_zone z) /\ ex_run t = rec1) [t1; t2; t3; t4] /\
  ex_run (render_zone z) = rec1.
Proof.
  cbv zeta. split; [|vm_compute; reflexivity].
  repeat constructor; try (apply not_realized; vm_compute; reflexivity); vm_compute; reflexivity.
Qed.
