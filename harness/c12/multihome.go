package main

// C12, servers that are reached through several local addresses: "each client
// receives exactly the reply its handler wrote - no mixing across requests".
//
// Class exercised here: real UDP servers bound to a wildcard address (0.0.0.0,
// [::] IPv6-only and [::] dual-stack, whatever the machine offers), clients that
// reach them through DIFFERENT local addresses at the same time (127.0.0.1,
// 127.0.0.2, ... - all of 127/8 is local on Linux -, the addresses of the other
// interfaces, ::1), and handlers that write one to three replies for a request,
// the later ones after other requests have been served in between. Every reply
// must arrive at the client that asked, FROM the address and port that client
// sent its request to (a connected socket would silently drop anything else;
// the clients here use unconnected sockets so that the actual source is seen),
// and must be the echo of that client's own request (kept-request oracle on the
// handler's side before every write). Which addresses are usable is probed at
// run time; with fewer than two the server kind is skipped (stat
// multihome_skipped_*).

import (
	"bytes"
	"fmt"
	"net"
	"strconv"
	"sync"
	"sync/atomic"
	"time"

	"github.com/miekg/dns"
	. "verif/harness/common"
)

type mhKind struct {
	name    string
	network string // of the server socket
	bind    string
	v4, v6  bool // which client address families reach it
}

var mhKinds = []mhKind{
	{"udp4-wildcard", "udp4", "0.0.0.0:0", true, false},
	{"udp6-wildcard", "udp6", "[::]:0", false, true},
	{"dual-stack-wildcard", "udp", "[::]:0", true, true},
}

// localCandidates: addresses that might be local here.
func localCandidates() (v4, v6 []net.IP) {
	for _, s := range []string{"127.0.0.1", "127.0.0.2", "127.0.0.3", "127.53.7.9"} {
		v4 = append(v4, net.ParseIP(s))
	}
	v6 = append(v6, net.ParseIP("::1"))
	if as, err := net.InterfaceAddrs(); err == nil {
		for _, a := range as {
			n, ok := a.(*net.IPNet)
			if !ok || n.IP.IsLoopback() || n.IP.IsLinkLocalUnicast() || n.IP.IsMulticast() {
				continue
			}
			if n.IP.To4() != nil {
				v4 = append(v4, n.IP)
			} else {
				v6 = append(v6, n.IP)
			}
		}
	}
	return
}

// reaches: does a datagram sent to ip:port arrive at the wildcard socket pc?
// (plain kernel sockets, nothing of the library involved)
func reaches(pc net.PacketConn, ip net.IP, port int) bool {
	network := "udp4"
	if ip.To4() == nil {
		network = "udp6"
	}
	c, err := net.ListenUDP(network, nil)
	if err != nil {
		return false
	}
	defer c.Close()
	token := []byte(fmt.Sprintf("probe-%s-%d", ip, time.Now().UnixNano()))
	for try := 0; try < 3; try++ {
		if _, err := c.WriteToUDP(token, &net.UDPAddr{IP: ip, Port: port}); err != nil {
			return false
		}
		pc.SetReadDeadline(time.Now().Add(150 * time.Millisecond))
		b := make([]byte, 256)
		for {
			n, _, err := pc.ReadFrom(b)
			if err != nil {
				break
			}
			if bytes.Equal(b[:n], token) {
				pc.SetReadDeadline(time.Time{})
				return true
			}
		}
	}
	pc.SetReadDeadline(time.Time{})
	return false
}

type mhReq struct {
	rq     *richRequest
	parts  int
	expect [][]byte // reply i
}

func partRR(name string, i, n int) dns.RR {
	return &dns.TXT{Hdr: dns.RR_Header{Name: name, Rrtype: dns.TypeTXT, Class: 1}, Txt: []string{"part", strconv.Itoa(i), "of", strconv.Itoa(n)}}
}

func partReply(req *dns.Msg, i, n int) *dns.Msg {
	rep := echoReply(req)
	rep.Answer = append([]dns.RR{partRR(req.Question[0].Name, i, n)}, rep.Answer...)
	return rep
}

type mhIn struct {
	Server  string   `json:"server"`
	Locals  []string `json:"local_addresses_used"`
	Request string   `json:"request_hex,omitempty"`
	What    []string `json:"what"`
}

func runMultiHomedKind(k mhKind, seed uint64, nclients, per int, st map[string]int, viol func(mhIn)) {
	pc, err := net.ListenPacket(k.network, k.bind)
	if err != nil {
		st["multihome_skipped_"+k.name+"_no_listener"]++
		return
	}
	port := pc.LocalAddr().(*net.UDPAddr).Port
	c4, c6 := localCandidates()
	var locals []net.IP
	if k.v4 {
		for _, ip := range c4 {
			if reaches(pc, ip, port) {
				locals = append(locals, ip)
			}
		}
	}
	if k.v6 {
		for _, ip := range c6 {
			if reaches(pc, ip, port) {
				locals = append(locals, ip)
			}
		}
	}
	st["multihome_"+k.name+"_local_addresses"] = len(locals)
	if len(locals) < 2 {
		pc.Close()
		st["multihome_skipped_"+k.name+"_single_address"]++
		return
	}
	var localNames []string
	for _, ip := range locals {
		localNames = append(localNames, ip.String())
	}
	x := &badList{}
	var mu sync.Mutex
	sent := map[string]*mhReq{}
	var handled atomic.Int64
	var werrs atomic.Int64
	h := func(w dns.ResponseWriter, req *dns.Msg) {
		if len(req.Question) != 1 {
			x.add(nil, "handler saw a request without its question")
			return
		}
		mu.Lock()
		mr := sent[req.Question[0].Name]
		mu.Unlock()
		if mr == nil {
			x.add(nil, "handler saw a request no client sent: "+req.Question[0].Name)
			return
		}
		me := handled.Add(1)
		for i := 0; i < mr.parts; i++ {
			if i > 0 { // the later replies are written after other requests have been served
				for t0 := time.Now(); handled.Load() < me+5 && time.Since(t0) < 80*time.Millisecond; {
					time.Sleep(time.Millisecond)
				}
			}
			if d := msgDiff(mr.rq.ref, req); d != "" {
				x.add(mr.rq, fmt.Sprintf("request as its handler holds it before reply %d: %s", i, d))
			}
			if err := w.WriteMsg(partReply(req, i, mr.parts)); err != nil {
				werrs.Add(1)
			}
		}
	}
	srv := &dns.Server{PacketConn: pc, Handler: dns.HandlerFunc(h), UDPSize: 4096, MsgAcceptFunc: acceptAll}
	started := make(chan struct{})
	srv.NotifyStartedFunc = func() { close(started) }
	go srv.ActivateAndServe()
	select {
	case <-started:
	case <-time.After(infraWait):
		st["infra_timeout"]++
		pc.Close()
		return
	}
	var wg sync.WaitGroup
	var smu sync.Mutex
	for c := 0; c < nclients; c++ {
		wg.Add(1)
		go func(c int) {
			defer wg.Done()
			rr := &Rng{S: seed + uint64(c)*7919}
			dst := locals[c%len(locals)]
			network := "udp4"
			if dst.To4() == nil {
				network = "udp6"
			}
			sock, err := net.ListenUDP(network, nil)
			if err != nil {
				smu.Lock()
				st["infra_timeout"]++
				smu.Unlock()
				return
			}
			defer sock.Close()
			to := &net.UDPAddr{IP: dst, Port: port}
			buf := make([]byte, 16384)
			for s := 0; s < per; s++ {
				rq := mkRich(rr, c, s, 500, false, 0)
				mr := &mhReq{rq: rq, parts: 1 + int(rr.Next()%3)}
				var model dns.Msg
				model.Unpack(append([]byte(nil), rq.wire...))
				for i := 0; i < mr.parts; i++ {
					b, _ := partReply(&model, i, mr.parts).Pack()
					mr.expect = append(mr.expect, b)
				}
				mu.Lock()
				sent[rq.ref.Question[0].Name] = mr
				mu.Unlock()
				if _, err := sock.WriteToUDP(rq.wire, to); err != nil {
					smu.Lock()
					st["infra_timeout"]++
					smu.Unlock()
					continue
				}
				got := make([]bool, mr.parts)
				ngot := 0
				sock.SetReadDeadline(time.Now().Add(8 * time.Second))
				for ngot < mr.parts {
					n, from, err := sock.ReadFromUDP(buf)
					if err != nil {
						smu.Lock()
						st["infra_timeout"]++ // a lost datagram is not a finding
						smu.Unlock()
						break
					}
					if !from.IP.Equal(dst) || from.Port != port {
						x.add(rq, fmt.Sprintf("client %d sent its request to %s and received a datagram from %s (a connected socket never sees it)", c, to, from))
					}
					idx := -1
					for i, e := range mr.expect {
						if bytes.Equal(buf[:n], e) {
							idx = i
						}
					}
					switch {
					case idx < 0:
						var rep, want dns.Msg
						why := "does not decode"
						if rep.Unpack(append([]byte(nil), buf[:n]...)) == nil {
							want.Unpack(mr.expect[0])
							why = msgDiff(&want, &rep)
						}
						x.add(rq, fmt.Sprintf("client %d request %d received a datagram that is none of the %d replies its handler writes: %s", c, s, mr.parts, why))
						ngot++ // counts as one of them, the exchange goes on
					case got[idx]:
						x.add(rq, fmt.Sprintf("client %d request %d received reply %d twice", c, s, idx))
					default:
						got[idx] = true
						ngot++
					}
					smu.Lock()
					st["multihome_replies_checked"]++
					smu.Unlock()
				}
			}
		}(c)
	}
	wg.Wait()
	sd := make(chan struct{})
	go func() { srv.Shutdown(); close(sd) }()
	select {
	case <-sd:
	case <-time.After(infraWait):
		st["infra_timeout"]++
	}
	st["multihome_write_errors"] += int(werrs.Load())
	if len(x.bad) > 0 {
		viol(mhIn{k.name, localNames, x.wire, x.bad})
	}
}

func runMultiHomed(r *Rng, tier string) {
	rounds := 1
	if tier == "thorough" {
		rounds = 4
	}
	for round := 0; round < rounds; round++ {
		var wg sync.WaitGroup
		var mu sync.Mutex
		stats := make([]map[string]int, len(mhKinds))
		var viols []mhIn
		for i, k := range mhKinds {
			stats[i] = map[string]int{}
			seed := r.Next()
			wg.Add(1)
			go func(i int, k mhKind) {
				defer wg.Done()
				runMultiHomedKind(k, seed, 12, 6, stats[i], func(v mhIn) {
					mu.Lock()
					viols = append(viols, v)
					mu.Unlock()
				})
			}(i, k)
		}
		wg.Wait()
		for _, st := range stats {
			for k, v := range st {
				if len(k) > 16 && k[len(k)-16:] == "_local_addresses" {
					stat[k] = v
				} else {
					stat[k] += v
				}
			}
		}
		for _, k := range mhKinds { // report in a fixed order
			for _, v := range viols {
				if v.Server == k.name {
					Viol("C12/Crosstalk/multihomed-udp", "a client that reached the server through one of its local addresses did not receive every reply its handler wrote from that address", v)
				}
			}
		}
	}
}
