(* Model/Serve.v — server admission (property C14): acceptfunc.go
   defaultMsgAcceptFunc, msg.go unpackMsgHdr / setHdr / header bit packing,
   defaults.go SetReply / SetRcode / SetRcodeFormatError, server.go
   handleRefused, serveUDP's short-packet test and serveDNS, modelled function
   by function.  Definitions only. *)
From Dns Require Export Base.Bytes.
Open Scope N_scope.

(* ---------- wire header (msg.go Header) ---------- *)
Record header := mkHeader {
  h_id : N; h_bits : N; h_qd : N; h_an : N; h_ns : N; h_ar : N }.

(* msg_helpers.go unpackUint16: error when off+2 > len(msg) *)
Definition unpack_u16 (m : bytes) (off : nat) : option N :=
  if Nat.ltb (length m) (off + 2) then None
  else Some (nth off m 0 * 256 + nth (S off) m 0).

(* msg.go unpackMsgHdr: six unpackUint16 in a row, each with its own error *)
Definition unpack_hdr (m : bytes) : res header :=
  match unpack_u16 m 0 with None => Err "hdr-id" | Some id =>
  match unpack_u16 m 2 with None => Err "hdr-bits" | Some bits =>
  match unpack_u16 m 4 with None => Err "hdr-qd" | Some qd =>
  match unpack_u16 m 6 with None => Err "hdr-an" | Some an =>
  match unpack_u16 m 8 with None => Err "hdr-ns" | Some ns =>
  match unpack_u16 m 10 with None => Err "hdr-ar" | Some ar =>
    Ok (mkHeader id bits qd an ns ar)
  end end end end end end.

(* ---------- accept policy (acceptfunc.go) ---------- *)
Inductive action := MsgAccept | MsgReject | MsgIgnore | MsgRejectNotImplemented.

Definition bit (w : N) (k : N) : bool := (w / 2 ^ k) mod 2 =? 1.
Definition hdr_qr (dh : header) : bool := bit (h_bits dh) 15.
Definition hdr_opcode (dh : header) : N := (h_bits dh / 2048) mod 16.

Definition OpcodeQuery : N := 0.
Definition OpcodeNotify : N := 4.

(* defaultMsgAcceptFunc, line by line *)
Definition accept_default (dh : header) : action :=
  if hdr_qr dh then MsgIgnore
  else
    let opcode := hdr_opcode dh in
    if negb (opcode =? OpcodeQuery) && negb (opcode =? OpcodeNotify) then MsgRejectNotImplemented
    else if negb (h_qd dh =? 1) then MsgReject
    else if 1 <? h_an dh then MsgReject
    else if 1 <? h_ns dh then MsgReject
    else if 2 <? h_ar dh then MsgReject
    else MsgAccept.

(* ---------- Msg header in convenient form (msg.go MsgHdr) ---------- *)
Record mhdr := mkMhdr {
  m_id : N; m_response : bool; m_opcode : N; m_aa : bool; m_tc : bool; m_rd : bool;
  m_ra : bool; m_z : bool; m_ad : bool; m_cd : bool; m_rcode : N }.

(* new(Msg) *)
Definition mhdr_zero : mhdr := mkMhdr 0 false 0 false false false false false false false 0.

(* msg.go setHdr *)
Definition set_hdr (dh : header) : mhdr :=
  let b := h_bits dh in
  mkMhdr (h_id dh) (bit b 15) ((b / 2048) mod 16) (bit b 10) (bit b 9) (bit b 8)
         (bit b 7) (bit b 6) (bit b 5) (bit b 4) (b mod 16).

Definition b2n (b : bool) : N := if b then 1 else 0.

(* msg.go packBufferWithCompressionMap: dh.Bits = uint16(Opcode)<<11 | uint16(Rcode&0xF)
   | flags.  For Opcode < 16 the fields are disjoint and OR is +.  (Opcode is
   an int in Go; values >= 16 are outside the model's domain.) *)
Definition pack_bits (h : mhdr) : N :=
  b2n (m_response h) * 32768 + (m_opcode h mod 16) * 2048 + b2n (m_aa h) * 1024 +
  b2n (m_tc h) * 512 + b2n (m_rd h) * 256 + b2n (m_ra h) * 128 + b2n (m_z h) * 64 +
  b2n (m_ad h) * 32 + b2n (m_cd h) * 16 + m_rcode h mod 16.

(* A message as far as the skeletons are concerned: header, question section
   (elements of an arbitrary type Q) and the three record sections. *)
Record smsg (Q RR : Type) := mkSmsg {
  s_hdr : mhdr; s_question : list Q; s_answer : list RR; s_ns : list RR; s_extra : list RR }.
Arguments mkSmsg {Q RR}.
Arguments s_hdr {Q RR}. Arguments s_question {Q RR}. Arguments s_answer {Q RR}.
Arguments s_ns {Q RR}. Arguments s_extra {Q RR}.

Definition smsg_zero {Q RR} : smsg Q RR := mkSmsg mhdr_zero [] [] [] [].

Definition with_hdr {Q RR} (m : smsg Q RR) (h : mhdr) : smsg Q RR :=
  mkSmsg h (s_question m) (s_answer m) (s_ns m) (s_extra m).

(* defaults.go SetReply *)
Definition set_reply {Q RR} (dns request : smsg Q RR) : smsg Q RR :=
  let h := s_hdr dns in let r := s_hdr request in
  let opcode := m_opcode r in
  let rd := if opcode =? OpcodeQuery then m_rd r else m_rd h in
  let cd := if opcode =? OpcodeQuery then m_cd r else m_cd h in
  let h' := mkMhdr (m_id r) true opcode (m_aa h) (m_tc h) rd (m_ra h) (m_z h) (m_ad h) cd 0 in
  let q := match s_question request with
           | q0 :: _ => [q0]
           | [] => s_question dns
           end in
  mkSmsg h' q (s_answer dns) (s_ns dns) (s_extra dns).

(* defaults.go SetRcode *)
Definition set_rcode {Q RR} (dns request : smsg Q RR) (rcode : N) : smsg Q RR :=
  let m := set_reply dns request in
  let h := s_hdr m in
  with_hdr m (mkMhdr (m_id h) (m_response h) (m_opcode h) (m_aa h) (m_tc h) (m_rd h) (m_ra h)
                     (m_z h) (m_ad h) (m_cd h) rcode).

Definition RcodeFormatError : N := 1.
Definition RcodeNotImplemented : N := 4.
Definition RcodeRefused : N := 5.

(* defaults.go SetRcodeFormatError *)
Definition set_rcode_format_error {Q RR} (dns request : smsg Q RR) : smsg Q RR :=
  let h := s_hdr dns in
  with_hdr dns (mkMhdr (m_id (s_hdr request)) true OpcodeQuery false (m_tc h) (m_rd h) (m_ra h)
                       (m_z h) (m_ad h) (m_cd h) RcodeFormatError).

(* server.go handleRefused: the message handed to w.WriteMsg *)
Definition handle_refused {Q RR} (r : smsg Q RR) : smsg Q RR :=
  set_rcode smsg_zero r RcodeRefused.

(* ---------- serveDNS ---------- *)
Inductive transport := Udp | Tcp.

(* What unpack is to serveDNS: either the decoded request, or an error
   that leaves the questions decoded so far in the message (given here in wire
   form, one octet string per question, as the reject reply re-packs them). *)
Inductive unpack_result (R : Type) :=
| UOk (r : R)
| UErr (qs : list bytes).
Arguments UOk {R} r.
Arguments UErr {R} qs.

(* Events in the order the server produces them for ONE inbound message. *)
Inductive event (R : Type) :=
| EvInvalid (cls : string) (m : bytes)   (* srv.MsgInvalidFunc(m, err) *)
| EvWrite (b : bytes)                    (* w.WriteMsg: the packed reply *)
| EvHandler (r : R).                     (* srv.Handler.ServeDNS(w, req) *)
Arguments EvInvalid {R} cls m.
Arguments EvWrite {R} b.
Arguments EvHandler {R} r.

(* The reply built in serveDNS for MsgReject / MsgRejectNotImplemented and for
   a message that was accepted but did not decode: req carries only setHdr(dh)
   (plus the questions decoded before the error). *)
Definition reject_hdr (dh : header) (notimp : bool) : mhdr :=
  let req : smsg bytes unit := mkSmsg (set_hdr dh) [] [] [] [] in
  let opcode := m_opcode (s_hdr req) in
  let r := s_hdr (set_rcode_format_error req req) in
  (* req.Zero = false *)
  let r := mkMhdr (m_id r) (m_response r) (m_opcode r) (m_aa r) (m_tc r) (m_rd r) (m_ra r)
                  false (m_ad r) (m_cd r) (m_rcode r) in
  if notimp then
    mkMhdr (m_id r) (m_response r) opcode (m_aa r) (m_tc r) (m_rd r) (m_ra r)
           (m_z r) (m_ad r) (m_cd r) RcodeNotImplemented
  else r.

(* Pack of a message with the given header, questions already in wire form, and
   req.Ns, req.Answer, req.Extra = nil. *)
Definition pack_reply (h : mhdr) (qs : list bytes) : bytes :=
  u16 (m_id h) ++ u16 (pack_bits h) ++ u16 (lenN qs) ++ u16 0 ++ u16 0 ++ u16 0 ++ concat qs.

Definition reject_reply (dh : header) (notimp : bool) (qs : list bytes) : bytes :=
  pack_reply (reject_hdr dh notimp) qs.

Section Serve.
  Context {R : Type}.
  Variable accept : header -> action.            (* srv.MsgAcceptFunc *)
  Variable unpack : bytes -> unpack_result R.    (* req.unpack(dh, m, off) *)

  Definition serve_dns (m : bytes) : list (event R) :=
    match unpack_hdr m with
    | Ok dh =>
      match accept dh with
      | MsgAccept =>
        match unpack m with
        | UOk r => [EvHandler r]
        | UErr qs => [EvInvalid "unpack" m; EvWrite (reject_reply dh false qs)]
        end
      | MsgReject => [EvWrite (reject_reply dh false [])]
      | MsgRejectNotImplemented => [EvWrite (reject_reply dh true [])]
      | MsgIgnore => []
      end
    | Err c => [EvInvalid c m]
    | _ => []
    end.

  (* serveUDP tests len(m) < headerSize before serveUDPPacket; serveTCPConn
     hands every frame to serveDNS. *)
  Definition serve (tr : transport) (m : bytes) : list (event R) :=
    match tr with
    | Udp => if Nat.ltb (length m) 12 then [EvInvalid "short-read" m] else serve_dns m
    | Tcp => serve_dns m
    end.
End Serve.

(* projections of an event list *)
Definition handler_calls {R} (es : list (event R)) : list R :=
  flat_map (fun e => match e with EvHandler r => [r] | _ => [] end) es.
Definition invalid_calls {R} (es : list (event R)) : list (string * bytes) :=
  flat_map (fun e => match e with EvInvalid c m => [(c, m)] | _ => [] end) es.
Definition writes {R} (es : list (event R)) : list bytes :=
  flat_map (fun e => match e with EvWrite b => [b] | _ => [] end) es.

(* reading a reply back (independent of pack_reply: plain big-endian fields) *)
Definition reply_id (b : bytes) : N := nth 0 b 0 * 256 + nth 1 b 0.
Definition reply_bits (b : bytes) : N := nth 2 b 0 * 256 + nth 3 b 0.
Definition reply_qr (b : bytes) : bool := bit (reply_bits b) 15.
Definition reply_opcode (b : bytes) : N := (reply_bits b / 2048) mod 16.
Definition reply_rcode (b : bytes) : N := reply_bits b mod 16.
Definition reply_an (b : bytes) : N := nth 6 b 0 * 256 + nth 7 b 0.
Definition reply_ns (b : bytes) : N := nth 8 b 0 * 256 + nth 9 b 0.
Definition reply_ar (b : bytes) : N := nth 10 b 0 * 256 + nth 11 b 0.

(* ---------- stream framing: server.go serveTCPConn / readTCP ----------
   A stream message is a two-octet big-endian length followed by that many
   octets.  readTCP reads both with full reads (binary.Read / io.ReadFull), so
   what it returns is a function of the octet stream alone, not of the way the
   transport cuts the stream into reads: the model therefore takes the stream.
   serveTCPConn serves at most [limit] messages per connection (MaxTCPQueries,
   128 when unset) and stops at the first frame the stream does not complete. *)
Definition frame (m : bytes) : bytes := u16 (lenN m) ++ m.

Fixpoint read_frames (limit : nat) (s : bytes) : list bytes :=
  match limit with
  | O => []
  | S k =>
    match s with
    | hi :: lo :: r =>
      let n := N.to_nat (hi * 256 + lo) in
      if Nat.ltb (length r) n then [] else firstn n r :: read_frames k (skipn n r)
    | _ => []
    end
  end.

(* what can follow the last complete frame: nothing, half a length prefix, or a
   prefix announcing more octets than the stream still has *)
Definition incomplete_frame (t : bytes) : Prop :=
  match t with
  | hi :: lo :: r => lenN r < hi * 256 + lo
  | _ => True
  end.

Definition serve_stream {R} (accept : header -> action) (unpack : bytes -> unpack_result R)
           (limit : nat) (s : bytes) : list (event R) :=
  flat_map (serve accept unpack Tcp) (read_frames limit s).
