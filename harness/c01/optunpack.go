// C01, struct level: EDNS0 option / SVCB parameter VALUES as Go structs (Model/OptValUnpack.v).
// Model cases "optunpack" / "svcbunpack": option code (SVCB key) and value octets -> the error class, or
// the decoded value in the encoding of the optval / svcbval cases followed by what pack() of that value
// returns.  Direct oracle: unpack(pack(v)) succeeds and packs to the same octets.
// The generators and encoders are those of harness/c08/optval.go (copied: each harness is its own package).
package main

import (
	"bytes"
	"encoding/hex"
	"errors"
	"net"
	"strconv"
	"strings"

	"github.com/miekg/dns"
	. "verif/harness/common"
)

func u64s(x uint64) string { return strconv.FormatUint(x, 10) }

func xlist(l [][]byte) string {
	s := make([]string, len(l))
	for i, e := range l {
		s[i] = "x" + Hx(e)
	}
	return strings.Join(s, ",")
}

func optErrClass(err error) string {
	var ib hex.InvalidByteError
	if strings.Contains(err.Error(), "bad agent domain") { // wraps the name decoder's error (often ErrBuf)
		return "agent"
	}
	switch {
	case errors.Is(err, hex.ErrLength):
		return "hexlen"
	case errors.As(err, &ib):
		return "hexbyte"
	case errors.Is(err, dns.ErrBuf):
		return "buf"
	}
	m := err.Error()
	for _, p := range [][2]string{{"bad address family", "family"}, {"bad netmask", "netmask"}, {"bad address", "address"},
		{"bad agent domain", "agent"}, {"empty alpn-id", "alpnempty"}, {"alpn-id too long", "alpnlong"},
		{"alpn array overflowing", "alpnoverflow"}, {"length mismatch, want 0/2", "length"},
		{"bad svcbmandatory", "mandatory"}, {"bad svcbnodefaultalpn", "nodefaultalpn"}, {"bad svcbport", "port"},
		{"bad svcbipv4hint", "v4hint"}, {"bas svcbipv6hint", "v6hintlen"}, {"bad svcbipv6hint", "v6hint"},
		{"bad svcbotthp", "ohttp"}, {"bad SVCB key", "key"}} {
		if strings.Contains(m, p[0]) {
			return p[1]
		}
	}
	return "other"
}

func encOpt(o dns.EDNS0) string {
	switch e := o.(type) {
	case *dns.EDNS0_LLQ:
		return "LLQ:" + Itoa(int(e.Version)) + ":" + Itoa(int(e.Opcode)) + ":" + Itoa(int(e.Error)) + ":" + u64s(e.Id) + ":" + u64s(uint64(e.LeaseLife))
	case *dns.EDNS0_UL:
		return "UL:" + u64s(uint64(e.Lease)) + ":" + u64s(uint64(e.KeyLease))
	case *dns.EDNS0_NSID:
		return "NSID:" + Hs(e.Nsid)
	case *dns.EDNS0_ESU:
		return "ESU:" + Hs(e.Uri)
	case *dns.EDNS0_DAU:
		return "DAU:" + Hx(e.AlgCode)
	case *dns.EDNS0_DHU:
		return "DHU:" + Hx(e.AlgCode)
	case *dns.EDNS0_N3U:
		return "N3U:" + Hx(e.AlgCode)
	case *dns.EDNS0_SUBNET:
		return "SUBNET:" + Itoa(int(e.Family)) + ":" + Itoa(int(e.SourceNetmask)) + ":" + Itoa(int(e.SourceScope)) + ":" + Hx(e.Address)
	case *dns.EDNS0_EXPIRE:
		b := "0"
		if e.Empty {
			b = "1"
		}
		return "EXPIRE:" + u64s(uint64(e.Expire)) + ":" + b
	case *dns.EDNS0_COOKIE:
		return "COOKIE:" + Hs(e.Cookie)
	case *dns.EDNS0_TCP_KEEPALIVE:
		return "KEEPALIVE:" + Itoa(int(e.Timeout))
	case *dns.EDNS0_PADDING:
		return "PADDING:" + Hx(e.Padding)
	case *dns.EDNS0_EDE:
		return "EDE:" + Itoa(int(e.InfoCode)) + ":" + Hs(e.ExtraText)
	case *dns.EDNS0_REPORTING:
		return "REPORTING:" + Hs(e.AgentDomain)
	case *dns.EDNS0_ZONEVERSION:
		return "ZONEVERSION:" + Itoa(int(e.LabelCount)) + ":" + Itoa(int(e.Type)) + ":" + Hs(e.Version)
	case *dns.EDNS0_LOCAL:
		return "LOCAL:" + Itoa(int(e.Code)) + ":" + Hx(e.Data)
	}
	return "unknown"
}

func ipList(l []net.IP) string {
	b := make([][]byte, len(l))
	for i, e := range l {
		b[i] = e
	}
	return xlist(b)
}

func encSVCB(kv dns.SVCBKeyValue) string {
	switch e := kv.(type) {
	case *dns.SVCBMandatory:
		s := make([]string, len(e.Code))
		for i, c := range e.Code {
			s[i] = Itoa(int(c))
		}
		return "MANDATORY:" + strings.Join(s, ",")
	case *dns.SVCBAlpn:
		b := make([][]byte, len(e.Alpn))
		for i, a := range e.Alpn {
			b[i] = []byte(a)
		}
		return "ALPN:" + xlist(b)
	case *dns.SVCBNoDefaultAlpn:
		return "NODEFAULTALPN"
	case *dns.SVCBPort:
		return "PORT:" + Itoa(int(e.Port))
	case *dns.SVCBIPv4Hint:
		return "IPV4HINT:" + ipList(e.Hint)
	case *dns.SVCBECHConfig:
		return "ECH:" + Hx(e.ECH)
	case *dns.SVCBIPv6Hint:
		return "IPV6HINT:" + ipList(e.Hint)
	case *dns.SVCBDoHPath:
		return "DOHPATH:" + Hs(e.Template)
	case *dns.SVCBOhttp:
		return "OHTTP"
	case *dns.SVCBLocal:
		return "SLOCAL:" + Itoa(int(e.KeyCode)) + ":" + Hx(e.Data)
	}
	return "unknown"
}

// ---- generators: boundary-biased fields, inconsistent on purpose ----
func pickInt(r *Rng, xs ...int) int { return xs[r.Intn(len(xs))] }

func genIP(r *Rng) net.IP {
	switch r.Intn(8) {
	case 0:
		return nil
	case 1:
		return net.IP(r.Bytes(pickInt(r, 0, 1, 3, 5, 12, 15, 17, 32)))
	case 2, 3:
		return net.IP(r.Bytes(4))
	case 4: // v4-in-v6
		return net.IP(r.Bytes(4)).To16()
	case 5: // nearly the v4-in-v6 prefix
		ip := net.IP(r.Bytes(4)).To16()
		ip[r.Intn(12)] ^= byte(1 << uint(r.Intn(8)))
		return ip
	default:
		ip := net.IP(r.Bytes(16))
		if r.Bool() {
			ip[0] = 0x20
		}
		return ip
	}
}

func genHexText(r *Rng) string {
	s := hex.EncodeToString(r.Bytes(pickInt(r, 0, 1, 2, 8, 16, 24, 40)))
	switch r.Intn(8) {
	case 0: // odd length
		if len(s) > 0 {
			s = s[1:]
		} else {
			s = "a"
		}
	case 1: // a non-hex digit somewhere
		b := []byte(s + "00")
		b[r.Intn(len(b))] = "gG/:@`xz -\x00\xff"[r.Intn(12)]
		s = string(b)
	case 2: // odd AND bad last digit
		s += "q"
	case 3:
		s = strings.ToUpper(s)
	case 4: // bad digit before an odd tail
		s = "0z" + s + "1"
	}
	return s
}

func genText(r *Rng) string {
	switch r.Intn(5) {
	case 0:
		return ""
	case 1:
		return string(r.Bytes(pickInt(r, 1, 2, 255, 256, 300)))
	default:
		return string(r.Bytes(r.Intn(20)))
	}
}

func genAgent(r *Rng, pool *NamePool) string {
	switch r.Intn(8) {
	case 0:
		return ""
	case 1:
		return "."
	case 2:
		return "agent.example" // not fully qualified: Fqdn adds the dot
	case 3:
		return pool.LongName(pickInt(r, 250, 253, 254, 255, 256, 300))
	case 4:
		return `a\.b.c\\d.e\046f.zone.`
	case 5:
		return "a..b."
	case 6:
		return strings.Repeat("l", pickInt(r, 63, 64)) + ".x."
	default:
		return pool.Name()
	}
}

func genOptValue(r *Rng, pool *NamePool, kind int) dns.EDNS0 {
	switch kind {
	case 0:
		return &dns.EDNS0_LLQ{Code: dns.EDNS0LLQ, Version: uint16(pickInt(r, 0, 1, 65535)), Opcode: uint16(r.Next()), Error: uint16(r.Next()), Id: []uint64{0, 1, 1 << 32, ^uint64(0), r.Next()}[r.Intn(5)], LeaseLife: uint32(r.Next())}
	case 1:
		return &dns.EDNS0_UL{Code: dns.EDNS0UL, Lease: uint32(r.Next()), KeyLease: []uint32{0, 0, 1, 0xffffffff, uint32(r.Next())}[r.Intn(5)]}
	case 2:
		return &dns.EDNS0_NSID{Code: dns.EDNS0NSID, Nsid: genHexText(r)}
	case 3:
		return &dns.EDNS0_ESU{Code: dns.EDNS0ESU, Uri: genText(r)}
	case 4:
		return &dns.EDNS0_DAU{Code: dns.EDNS0DAU, AlgCode: r.Bytes(r.Intn(6))}
	case 5:
		return &dns.EDNS0_DHU{Code: dns.EDNS0DHU, AlgCode: r.Bytes(r.Intn(6))}
	case 6:
		return &dns.EDNS0_N3U{Code: dns.EDNS0N3U, AlgCode: r.Bytes(r.Intn(6))}
	case 7:
		fam := uint16(pickInt(r, 0, 1, 1, 1, 2, 2, 2, 3, 256, 65535))
		mask := uint8(pickInt(r, 0, 0, 1, 7, 8, 9, 24, 31, 32, 33, 56, 64, 127, 128, 129, 248, 249, 255, r.Intn(256)))
		if r.Intn(3) > 0 { // nearly valid: the family's own netmask range, addresses of both forms
			fam = uint16(1 + r.Intn(2))
			var ip net.IP
			if fam == 1 {
				mask = uint8(pickInt(r, 0, 1, 7, 8, 9, 23, 24, 25, 31, 32, 32, 33))
				ip = [](net.IP){net.IP(r.Bytes(4)), net.IP(r.Bytes(4)).To16(), net.IP(r.Bytes(4)).To16(), genIP(r)}[r.Intn(4)]
			} else {
				mask = uint8(pickInt(r, 0, 1, 8, 9, 48, 56, 63, 64, 65, 96, 97, 127, 128, 128, 129))
				ip = [](net.IP){net.IP(r.Bytes(16)), net.IP(r.Bytes(16)), net.IP(r.Bytes(4)).To16(), genIP(r)}[r.Intn(4)]
			}
			return &dns.EDNS0_SUBNET{Code: dns.EDNS0SUBNET, Family: fam, SourceNetmask: mask, SourceScope: uint8(pickInt(r, 0, int(mask), 255)), Address: ip}
		}
		return &dns.EDNS0_SUBNET{Code: dns.EDNS0SUBNET, Family: fam, SourceNetmask: mask, SourceScope: uint8(pickInt(r, 0, 24, 255, r.Intn(256))), Address: genIP(r)}
	case 8:
		return &dns.EDNS0_EXPIRE{Code: dns.EDNS0EXPIRE, Expire: uint32(pickInt(r, 0, 1, 1<<31)) + uint32(r.Intn(3)), Empty: r.Intn(3) == 0}
	case 9:
		return &dns.EDNS0_COOKIE{Code: dns.EDNS0COOKIE, Cookie: genHexText(r)}
	case 10:
		return &dns.EDNS0_TCP_KEEPALIVE{Code: dns.EDNS0TCPKEEPALIVE, Timeout: uint16(pickInt(r, 0, 0, 1, 255, 256, 65535)), Length: uint16(r.Intn(3))}
	case 11:
		return &dns.EDNS0_PADDING{Padding: r.Bytes(pickInt(r, 0, 1, 31, 468))}
	case 12:
		return &dns.EDNS0_EDE{InfoCode: uint16(pickInt(r, 0, 18, 65535)), ExtraText: genText(r)}
	case 13:
		return &dns.EDNS0_REPORTING{Code: dns.EDNS0REPORTING, AgentDomain: genAgent(r, pool)}
	case 14:
		return &dns.EDNS0_ZONEVERSION{Code: dns.EDNS0ZONEVERSION, LabelCount: uint8(r.Intn(256)), Type: uint8(pickInt(r, 0, 1, 255)), Version: genText(r)}
	default:
		var d []byte
		if r.Intn(4) > 0 {
			d = r.Bytes(pickInt(r, 0, 1, 30, 300))
		}
		return &dns.EDNS0_LOCAL{Code: uint16(pickInt(r, 0, 3, 8, 20, 65001, 65534, 65535)), Data: d}
	}
}

func genAlpnID(r *Rng) string {
	switch r.Intn(8) {
	case 0:
		return ""
	case 1:
		return strings.Repeat("a", 255)
	case 2:
		return strings.Repeat("b", 256)
	case 3:
		return string(r.Bytes(1 + r.Intn(4)))
	default:
		return []string{"h2", "h3", "http/1.1", "a,b", `a\b`}[r.Intn(5)]
	}
}

func genSVCBValue(r *Rng, kind int) dns.SVCBKeyValue {
	switch kind {
	case 0:
		n := pickInt(r, 0, 1, 2, 3, 6)
		c := make([]dns.SVCBKey, n)
		for i := range c {
			c[i] = dns.SVCBKey(pickInt(r, 0, 1, 1, 3, 4, 6, 7, 255, 256, 65280, 65534, 65535))
		}
		if r.Intn(4) == 0 {
			c = nil
		}
		return &dns.SVCBMandatory{Code: c}
	case 1:
		n := pickInt(r, 0, 1, 1, 2, 3, 5)
		a := make([]string, n)
		for i := range a {
			a[i] = genAlpnID(r)
		}
		return &dns.SVCBAlpn{Alpn: a}
	case 2:
		return &dns.SVCBNoDefaultAlpn{}
	case 3:
		return &dns.SVCBPort{Port: uint16(pickInt(r, 0, 1, 255, 256, 443, 65535))}
	case 4, 6:
		n := pickInt(r, 0, 1, 1, 2, 3)
		h := make([]net.IP, n)
		for i := range h {
			switch {
			case kind == 4 && r.Intn(3) > 0:
				h[i] = net.IP(r.Bytes(4))
				if r.Bool() {
					h[i] = h[i].To16()
				}
			case kind == 6 && r.Intn(3) > 0:
				h[i] = net.IP(r.Bytes(16))
				h[i][0] = 0x20
			default:
				h[i] = genIP(r)
			}
		}
		if kind == 4 {
			return &dns.SVCBIPv4Hint{Hint: h}
		}
		return &dns.SVCBIPv6Hint{Hint: h}
	case 5:
		return &dns.SVCBECHConfig{ECH: r.Bytes(pickInt(r, 0, 1, 2, 64, 300))}
	case 7:
		return &dns.SVCBDoHPath{Template: []string{"", "/dns-query{?dns}", genText(r)}[r.Intn(3)]}
	case 8:
		return &dns.SVCBOhttp{}
	default:
		var d []byte
		if r.Intn(4) > 0 {
			d = r.Bytes(pickInt(r, 0, 1, 30, 300))
		}
		return &dns.SVCBLocal{KeyCode: dns.SVCBKey(pickInt(r, 9, 100, 65280, 65534, 65535, 0, 1)), Data: d}
	}
}

// ---- struct-level unpack cases and the round-trip oracle ----

func optUnpackCase(code uint16, b []byte) (dns.EDNS0, error, bool) {
	var o dns.EDNS0
	var err error
	out := Protect(func() string {
		o, err = dns.VerifOptUnpack(code, b)
		if err != nil {
			st["optunpack_err_"+optErrClass(err)]++
			return "err:" + optErrClass(err)
		}
		st["optunpack_ok"]++
		b2, err2 := dns.VerifOptPack(o)
		if err2 != nil {
			return "ok:" + encOpt(o) + ";err:" + optErrClass(err2)
		}
		return "ok:" + encOpt(o) + ";ok:" + Hx(b2)
	})
	Emit("optunpack", []string{Itoa(int(code)), Hx(b)}, out)
	st["optunpack_checked"]++
	return o, err, out != "panic"
}

func svcbUnpackCase(key uint16, b []byte) (dns.SVCBKeyValue, error, bool) {
	var kv dns.SVCBKeyValue
	var err error
	out := Protect(func() string {
		kv, err = dns.VerifSVCBUnpack(key, b)
		if err != nil {
			st["svcbunpack_err_"+optErrClass(err)]++
			return "err:" + optErrClass(err)
		}
		st["svcbunpack_ok"]++
		b2, err2 := dns.VerifSVCBPack(kv)
		if err2 != nil {
			return "ok:" + encSVCB(kv) + ";err:" + optErrClass(err2)
		}
		return "ok:" + encSVCB(kv) + ";ok:" + Hx(b2)
	})
	Emit("svcbunpack", []string{Itoa(int(key)), Hx(b)}, out)
	st["svcbunpack_checked"]++
	return kv, err, out != "panic"
}

var optKnown = map[uint16]bool{1: true, 2: true, 3: true, 4: true, 5: true, 6: true, 7: true, 8: true, 9: true, 10: true, 11: true, 12: true, 15: true, 18: true, 19: true}

// the values Model/OptValUnpack.v's opt_rt_ok excludes from the round trip, each with a _refuted theorem:
// an EDNS0_LOCAL carrying a code makeDataOpt knows (decoded as that type), a SUBNET whose SourceScope is
// above the address width (pack writes it, unpack answers bad netmask)
func optRtExcluded(o dns.EDNS0) string {
	switch e := o.(type) {
	case *dns.EDNS0_LOCAL:
		if optKnown[e.Code] {
			return "local_known_code"
		}
	case *dns.EDNS0_SUBNET:
		if (e.Family == 1 && e.SourceScope > 32) || (e.Family == 2 && e.SourceScope > 128) {
			return "subnet_scope_above_width"
		}
	}
	return ""
}

func svcbRtExcluded(kv dns.SVCBKeyValue) string {
	switch e := kv.(type) {
	case *dns.SVCBLocal:
		if e.KeyCode <= 8 || e.KeyCode == 65535 {
			return "local_known_key"
		}
	case *dns.SVCBIPv4Hint:
		if len(e.Hint) == 0 {
			return "empty_hint"
		}
	case *dns.SVCBIPv6Hint:
		if len(e.Hint) == 0 {
			return "empty_hint"
		}
	}
	return ""
}

func mut1(r *Rng, b []byte) [][]byte {
	l := [][]byte{append(append([]byte{}, b...), byte(r.Next()))}
	if len(b) > 0 {
		l = append(l, append([]byte{}, b[:len(b)-1]...))
	}
	return l
}

func runOptUnpack(r *Rng, tier string) {
	per, rawPer := 4, 1
	if tier == "thorough" {
		per, rawPer = 200, 30
	}
	pool := &NamePool{R: r}
	// (a) generated values: pack, unpack, pack again
	for kind := 0; kind < 16; kind++ {
		mult := map[int]int{2: 2, 7: 6, 9: 2, 13: 3}[kind]
		if mult == 0 {
			mult = 1
		}
		for i := 0; i < per*mult; i++ {
			o := genOptValue(r, pool, kind)
			enc := encOpt(o)
			kname := strings.SplitN(enc, ":", 2)[0]
			b, err := dns.VerifOptPack(o)
			if err != nil {
				st["optval_pack_err"]++
				continue
			}
			o2, err2, ok := optUnpackCase(o.Option(), b)
			st["optval_roundtrip_checked"]++
			if ex := optRtExcluded(o); ex != "" {
				st["optval_roundtrip_excluded_"+ex]++
				if err2 != nil {
					st["optval_roundtrip_excluded_"+ex+"_unpack_rejects"]++
				}
			} else if !ok {
				Viol("C01/optval-roundtrip/"+kname+"/panic", "unpack of the octets pack() returned panics", map[string]string{"optval": enc, "packed": Hx(b)})
			} else if err2 != nil {
				Viol("C01/optval-roundtrip/"+kname+"/unpack-rejects-packed", "unpack rejects the octets pack() returned: "+err2.Error(), map[string]string{"optval": enc, "packed": Hx(b)})
			} else if b2, err3 := dns.VerifOptPack(o2); err3 != nil || !bytes.Equal(b, b2) {
				Viol("C01/optval-roundtrip/"+kname+"/repack-differs", "pack(unpack(pack(v))) != pack(v): "+Hx(b2), map[string]string{"optval": enc, "packed": Hx(b), "decoded": encOpt(o2)})
			} else if encOpt(o2) != enc {
				st["optval_roundtrip_normalised"]++
			} else {
				st["optval_roundtrip_identical"]++
			}
			if i < 2 {
				for _, m := range mut1(r, b) {
					optUnpackCase(o.Option(), m)
				}
			}
		}
	}
	// (b) raw octets per code: every length 0..20
	for _, code := range []uint16{0, 1, 2, 3, 4, 5, 6, 7, 8, 9, 10, 11, 12, 13, 15, 18, 19, 20, 65001, 65535} {
		for n := 0; n <= 20; n++ {
			for k := 0; k < rawPer; k++ {
				b := r.Bytes(n)
				if code == 8 && n >= 2 && r.Intn(4) > 0 {
					b[0], b[1] = 0, byte(r.Intn(3))
				}
				if (code == 2 || code == 11) && r.Intn(3) == 0 {
					for i := len(b) / 2; i < len(b); i++ {
						b[i] = 0
					}
				}
				optUnpackCase(code, b)
			}
		}
	}
	// SUBNET: both sides of every limit
	for i := 0; i < 40*rawPer; i++ {
		fam := pickInt(r, 0, 0, 1, 1, 1, 2, 2, 2, 3, 256)
		b := []byte{byte(fam >> 8), byte(fam), byte(pickInt(r, 0, 0, 1, 7, 8, 24, 32, 33, 64, 127, 128, 129, 255)), byte(pickInt(r, 0, 0, 24, 32, 33, 128, 129, 255))}
		b = append(b, r.Bytes(pickInt(r, 0, 1, 3, 4, 5, 15, 16, 17, 20))...)
		optUnpackCase(8, b)
	}
	// REPORTING: names in wire form, whole, cut, followed by octets, with compression pointers
	for i := 0; i < 30*rawPer; i++ {
		buf := make([]byte, 300)
		name := []string{pool.Name(), pool.Name(), ".", `a\.b.c\\d.e\046f.zone.`, pool.LongName(pickInt(r, 200, 253, 254))}[r.Intn(5)]
		off, err := dns.PackDomainName(name, buf, 0, nil, false)
		if err != nil {
			continue
		}
		b := buf[:off]
		switch r.Intn(6) {
		case 0:
			b = b[:r.Intn(len(b))]
		case 1:
			b = append(append([]byte{}, b...), r.Bytes(1+r.Intn(4))...)
		case 2: // pointer to the start: a loop
			b = append(append([]byte{}, b[:len(b)-1]...), 0xc0, 0)
		case 3: // forward pointer
			b = append([]byte{0xc0, 2}, b...)
		}
		optUnpackCase(18, b)
	}
	// ---- SVCB ----
	for kind := 0; kind < 10; kind++ {
		mult := map[int]int{0: 2, 1: 3, 4: 3, 6: 3}[kind]
		if mult == 0 {
			mult = 1
		}
		for i := 0; i < per*mult; i++ {
			kv := genSVCBValue(r, kind)
			enc := encSVCB(kv)
			kname := strings.SplitN(enc, ":", 2)[0]
			b, err := dns.VerifSVCBPack(kv)
			if err != nil {
				st["svcbval_pack_err"]++
				continue
			}
			kv2, err2, ok := svcbUnpackCase(uint16(kv.Key()), b)
			st["svcbval_roundtrip_checked"]++
			if ex := svcbRtExcluded(kv); ex != "" {
				st["svcbval_roundtrip_excluded_"+ex]++
			} else if !ok {
				Viol("C01/svcbval-roundtrip/"+kname+"/panic", "unpack of the octets pack() returned panics", map[string]string{"svcbval": enc, "packed": Hx(b)})
			} else if err2 != nil {
				Viol("C01/svcbval-roundtrip/"+kname+"/unpack-rejects-packed", "unpack rejects the octets pack() returned: "+err2.Error(), map[string]string{"svcbval": enc, "packed": Hx(b)})
			} else if b2, err3 := dns.VerifSVCBPack(kv2); err3 != nil || !bytes.Equal(b, b2) {
				Viol("C01/svcbval-roundtrip/"+kname+"/repack-differs", "pack(unpack(pack(v))) != pack(v): "+Hx(b2), map[string]string{"svcbval": enc, "packed": Hx(b), "decoded": encSVCB(kv2)})
			} else if encSVCB(kv2) != enc {
				st["svcbval_roundtrip_normalised"]++
			} else {
				st["svcbval_roundtrip_identical"]++
			}
			if i < 2 {
				for _, m := range mut1(r, b) {
					svcbUnpackCase(uint16(kv.Key()), m)
				}
			}
		}
	}
	for _, key := range []uint16{0, 1, 2, 3, 4, 5, 6, 7, 8, 9, 100, 65280, 65534, 65535} {
		for n := 0; n <= 20; n++ {
			for k := 0; k < rawPer; k++ {
				svcbUnpackCase(key, r.Bytes(n))
			}
		}
	}
	for i := 0; i < 12*rawPer; i++ {
		// alpn: well-formed lists, an empty id, an overflowing last id
		var b []byte
		for j := r.Intn(4); j >= 0; j-- {
			id := r.Bytes(pickInt(r, 1, 2, 3, 8))
			b = append(append(b, byte(len(id))), id...)
		}
		switch r.Intn(4) {
		case 0:
			b = append(b, 0)
		case 1:
			b = append(b, byte(1+r.Intn(5)))
		}
		svcbUnpackCase(1, b)
		// ipv6hint: 16 octet groups, some of them v4-in-v6
		var h []byte
		for j := r.Intn(3); j >= 0; j-- {
			if r.Intn(3) == 0 {
				h = append(h, net.IP(r.Bytes(4)).To16()...)
			} else {
				h = append(h, r.Bytes(16)...)
			}
		}
		svcbUnpackCase(6, h)
		svcbUnpackCase(4, r.Bytes(4*(1+r.Intn(3))))
		// mandatory: unsorted, repeated keys
		svcbUnpackCase(0, r.Bytes(2*r.Intn(5)))
	}
}
