(* Spec/NameSpec.v — what a presentation-format name denotes (RFC 1035 5.1):
   read left to right, an unescaped dot ends a label, \DDD is the octet with
   that decimal value (the library reduces it mod 256), \c is the octet c.
   Written independently of the packer models. *)
From Dns Require Export Model.Name.
Open Scope N_scope.

(* lab: the label being collected; acc: completed labels, most recent first *)
Fixpoint parse_go (s : bytes) (lab : label) (acc : list label) : option (list label) :=
  match s with
  | [] => match lab with [] => Some (rev acc) | _ => None end   (* must end right after a dot *)
  | 92 :: r =>
    match r with
    | a :: ((b :: c :: r3) as r1) =>
      if is_digit a && is_digit b && is_digit c
      then parse_go r3 (lab ++ [ddd_to_byte r]) acc
      else parse_go r1 (lab ++ [a]) acc
    | a :: r1 => parse_go r1 (lab ++ [a]) acc
    | [] => None                                                (* dangling backslash *)
    end
  | 46 :: r => parse_go r [] (lab :: acc)
  | x :: r => parse_go r (lab ++ [x]) acc
  end.

(* the labels a fully-qualified text denotes; "." denotes the root (no labels) *)
Definition parse_name (s : bytes) : option (list label) :=
  match s with
  | [] => None
  | [46] => Some []
  | _ => parse_go s [] []
  end.

(* RFC 1035 limits: labels of 1..63 octets, at most 255 octets on the wire *)
Definition label_len_ok (l : label) : bool := (1 <=? lenN l) && (lenN l <=? 63).
Definition name_len_ok (ls : list label) : bool :=
  forallb label_len_ok ls && (lenN (wire_labels ls) + 1 <=? 255).
