(* Proofs/DecodeMsgProofs.v — UnpackRR, unpackRRslice, Msg.Unpack on ARBITRARY
   octets: never a panic, never an exhausted budget; the number of records
   accepted is bounded by the number of input octets whatever the header counts
   claim; every accepted record ends inside the message. *)
From Dns Require Import Base.ListX Model.Msg Proofs.NameWireProofs Proofs.DecodeNameProofs Proofs.DecodeFieldsProofs.
From Coq Require Import Lia ZifyN ZifyNat ZifyBool.
Open Scope N_scope.

Local Opaque un_go.
Local Strategy opaque [unpack_name_fuel un_go].

Lemma wfb_takeN n (msg : bytes) : wfb msg -> wfb (takeN n msg).
Proof. unfold wfb, takeN. apply Forall_firstn'. Qed.
Lemma lenN_takeN n (msg : bytes) : n <= lenN msg -> lenN (takeN n msg) = n.
Proof. unfold lenN, takeN. rewrite firstn_length. lia. Qed.

(* UnpackRRWithHeader on the message cut at the end of the RDATA *)
Lemma unpack_rr_with_header_safe h msg off :
  wfb msg -> safe off (lenN msg) (unpack_rr_with_header h msg off).
Proof.
  intro Hm. unfold unpack_rr_with_header.
  destruct (lenN msg <? off) eqn:E1; [exact I|].
  destruct (lenN msg <? off + h_rdlength h) eqn:E2; [exact I|].
  destruct (h_rdlength h =? 0); [cbn; lia|].
  destruct (find_layout _ _) as [L|]; [|exact I].
  pose proof (unpack_fields_safe (tl_unpack L) [] msg off Hm ltac:(lia)) as H.
  destruct (unpack_fields (tl_unpack L) [] msg off) as [[d o]| | |]; cbn in *; auto.
  destruct (o =? off + h_rdlength h); cbn; [lia|exact I].
Qed.

Lemma unpack_rr_safe msg off : wfb msg -> off <= lenN msg -> safe off (lenN msg) (unpack_rr msg off).
Proof.
  intros Hm Hoff. unfold unpack_rr, unpack_rr_header.
  destruct (off =? lenN msg) eqn:E0.
  { cbn [bind]. pose proof (unpack_rr_with_header_safe
      {| h_name := []; h_type := 0; h_class := 0; h_ttl := 0; h_rdlength := 0 |} msg off Hm) as H. exact H. }
  pose proof (unpack_name_safe msg off Hm) as Hn.
  destruct (unpack_name msg off) as [[n o1]| | |]; cbn [bind fst snd] in *; cbn in Hn; auto.
  pose proof (unpack_fixed_safe 2 msg o1) as H2.
  destruct (unpack_fixed 2 msg o1) as [[t o2]| | |]; cbn [bind fst snd] in *; cbn in H2; auto.
  pose proof (unpack_fixed_safe 2 msg o2) as H3.
  destruct (unpack_fixed 2 msg o2) as [[c o3]| | |]; cbn [bind fst snd] in *; cbn in H3; auto.
  pose proof (unpack_fixed_safe 4 msg o3) as H4.
  destruct (unpack_fixed 4 msg o3) as [[ttl o4]| | |]; cbn [bind fst snd] in *; cbn in H4; auto.
  pose proof (unpack_fixed_safe 2 msg o4) as H5.
  destruct (unpack_fixed 2 msg o4) as [[rdl o5]| | |]; cbn [bind fst snd] in *; cbn in H5; auto.
  cbn [fst snd].
  destruct (lenN msg <? o5 + be rdl 0) eqn:E6; [cbn; exact I|]. cbn [bind].
  set (h := {| h_name := n; h_type := be t 0; h_class := be c 0; h_ttl := be ttl 0; h_rdlength := be rdl 0 |}).
  pose proof (unpack_rr_with_header_safe h (takeN (o5 + be rdl 0) msg) o5 (wfb_takeN _ msg Hm)) as H.
  rewrite lenN_takeN in H by lia.
  destruct (unpack_rr_with_header h (takeN (o5 + be rdl 0) msg) o5) as [[r o]| | |]; cbn in *; auto. lia.
Qed.

(* unpackRRslice: whatever count the header claims, every record kept consumed at
   least one octet, so at most |msg| - off records come back *)
Lemma unpack_rr_slice_safe l : forall msg off acc,
  wfb msg -> off <= lenN msg ->
  match unpack_rr_slice l msg off acc with
  | Ok (rs, off') => off <= off' <= lenN msg /\ N.of_nat (length rs) <= N.of_nat (length acc) + (off' - off)
  | Err _ => True
  | Panic => False
  | OutOfFuel => False
  end.
Proof.
  induction l as [|l IH]; intros msg off acc Hm Hoff; cbn [unpack_rr_slice]; [lia|].
  pose proof (unpack_rr_safe msg off Hm Hoff) as H.
  destruct (unpack_rr msg off) as [[r o]| | |]; cbn in H; auto.
  destruct (o =? off) eqn:E; [lia|].
  specialize (IH msg o (acc ++ [r]) Hm ltac:(lia)).
  destruct (unpack_rr_slice l msg o (acc ++ [r])) as [[rs o']| | |]; auto.
  rewrite app_length in IH. cbn [length] in IH. lia.
Qed.

Lemma unpack_question_safe msg off : wfb msg -> safe_progress off (lenN msg) (unpack_question msg off).
Proof.
  intro Hm. unfold unpack_question.
  pose proof (unpack_name_safe msg off Hm) as Hn.
  destruct (unpack_name msg off) as [[n o1]| | |]; cbn in *; auto.
  destruct (o1 =? lenN msg) eqn:E1; [cbn; lia|].
  pose proof (unpack_fixed_safe 2 msg o1) as H2.
  destruct (unpack_fixed 2 msg o1) as [[t o2]| | |]; cbn in *; auto.
  destruct (o2 =? lenN msg) eqn:E2; [cbn; lia|].
  pose proof (unpack_fixed_safe 2 msg o2) as H3.
  destruct (unpack_fixed 2 msg o2) as [[c o3]| | |]; cbn in *; auto. lia.
Qed.

Lemma unpack_questions_safe l : forall msg off acc,
  wfb msg -> off <= lenN msg ->
  match unpack_questions l msg off acc with
  | Ok (qs, off') => off <= off' <= lenN msg /\ N.of_nat (length qs) <= N.of_nat (length acc) + (off' - off)
  | Err _ => True
  | Panic => False
  | OutOfFuel => False
  end.
Proof.
  induction l as [|l IH]; intros msg off acc Hm Hoff; cbn [unpack_questions]; [lia|].
  pose proof (unpack_question_safe msg off Hm) as H.
  destruct (unpack_question msg off) as [[q o]| | |]; cbn in *; auto.
  destruct (o =? off) eqn:E; [lia|].
  specialize (IH msg o (acc ++ [q]) Hm ltac:(lia)).
  destruct (unpack_questions l msg o (acc ++ [q])) as [[qs o']| | |]; auto.
  rewrite app_length in IH. cbn [length] in IH. lia.
Qed.

(* Msg.Unpack *)
Theorem unpack_msg_total bs : wfb bs -> unpack_msg bs <> Panic /\ unpack_msg bs <> OutOfFuel.
Proof.
  intro Hm. unfold unpack_msg.
  destruct (unpack_fixed 12 bs 0) as [[h o]| | |] eqn:Eh; cbn [bind]; try (split; discriminate).
  assert (Hlen : 12 <= lenN bs).
  { unfold unpack_fixed in Eh. destruct (lenN bs <? 0 + 12) eqn:E; [discriminate|lia]. }
  destruct (lenN bs =? 12); [split; discriminate|].
  pose proof (unpack_questions_safe (N.to_nat (be (take_at bs (2 * 2) 2) 0)) bs 12 [] Hm Hlen) as Hq.
  destruct (unpack_questions _ bs 12 []) as [[qs o1]| | |]; try (split; discriminate); try contradiction.
  destruct Hq as [Hq _].
  pose proof (unpack_rr_slice_safe (N.to_nat (be (take_at bs (2 * 3) 2) 0)) bs o1 [] Hm ltac:(lia)) as Ha.
  destruct (unpack_rr_slice _ bs o1 []) as [[an o2]| | |]; try (split; discriminate); try contradiction.
  destruct Ha as [Ha _].
  pose proof (unpack_rr_slice_safe (N.to_nat (be (take_at bs (2 * 4) 2) 0)) bs o2 [] Hm ltac:(lia)) as Hn.
  destruct (unpack_rr_slice _ bs o2 []) as [[ns o3]| | |]; try (split; discriminate); try contradiction.
  destruct Hn as [Hn _].
  pose proof (unpack_rr_slice_safe (N.to_nat (be (take_at bs (2 * 5) 2) 0)) bs o3 [] Hm ltac:(lia)) as He.
  destruct (unpack_rr_slice _ bs o3 []) as [[ex o4]| | |]; try (split; discriminate); try contradiction.
Qed.

(* the sections of an accepted message hold at most as many records as there are
   octets after the header — section counts of 65535 notwithstanding *)
Theorem accepted_sections_bounded bs m :
  wfb bs -> unpack_msg bs = Ok (m, false) ->
  N.of_nat (length (m_question m) + length (m_answer m) + length (m_ns m) + length (m_extra m)) <= lenN bs - 12.
Proof.
  intros Hm H. unfold unpack_msg in H.
  destruct (unpack_fixed 12 bs 0) as [[h o]| | |] eqn:Eh; cbn [bind] in H; try discriminate.
  assert (Hlen : 12 <= lenN bs).
  { unfold unpack_fixed in Eh. destruct (lenN bs <? 0 + 12) eqn:E; [discriminate|lia]. }
  destruct (lenN bs =? 12) eqn:E12.
  { injection H as <-. cbn. lia. }
  pose proof (unpack_questions_safe (N.to_nat (be (take_at bs (2 * 2) 2) 0)) bs 12 [] Hm Hlen) as Hq.
  destruct (unpack_questions _ bs 12 []) as [[qs o1]| | |]; try discriminate.
  destruct Hq as [Hq1 Hq2].
  pose proof (unpack_rr_slice_safe (N.to_nat (be (take_at bs (2 * 3) 2) 0)) bs o1 [] Hm ltac:(lia)) as Ha.
  destruct (unpack_rr_slice _ bs o1 []) as [[an o2]| | |]; try discriminate.
  destruct Ha as [Ha1 Ha2].
  pose proof (unpack_rr_slice_safe (N.to_nat (be (take_at bs (2 * 4) 2) 0)) bs o2 [] Hm ltac:(lia)) as Hn.
  destruct (unpack_rr_slice _ bs o2 []) as [[ns o3]| | |]; try discriminate.
  destruct Hn as [Hn1 Hn2].
  pose proof (unpack_rr_slice_safe (N.to_nat (be (take_at bs (2 * 5) 2) 0)) bs o3 [] Hm ltac:(lia)) as He.
  destruct (unpack_rr_slice _ bs o3 []) as [[ex o4]| | |]; try discriminate.
  destruct He as [He1 He2].
  injection H as <-. cbn [m_question m_answer m_ns m_extra msg_of_bits length] in *. lia.
Qed.
