From Dns Require Import Model.Dup.
(* placeholder until Proofs/DupProofs.v lands *)
Theorem placeholder_C20 : dedup [] = [].
Proof. reflexivity. Qed.
