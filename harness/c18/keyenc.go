package main

import (
	"crypto"
	"crypto/ecdsa"
	"crypto/rand"
	"crypto/rsa"
	"encoding/asn1"
	"encoding/base64"
	"errors"
	"io"
	"math/big"
	"strconv"
	"time"

	"github.com/miekg/dns"
	. "verif/harness/common"
)

// ---------------------------------------------------------------------------
// (1i) the public key FIELD of the KEY, not only the key it came from.
//
//  (a) key material that is the genuine key plus or minus octets: a KEY whose
//      public key field has an octet appended or its last octet removed is a
//      different KEY (other RDATA, other key tag, and for the fixed-width
//      algorithms not a key at all): nothing signed by the genuine key may
//      verify against it, whichever of the two KEYs the SIG names.
//  (b) every legal encoding of the same RSA key (RFC 3110, section 2): the
//      exponent length in its one-octet and in its three-octet form (0, then
//      16 bits, high octet first), for exponents of 1, 3 and 4 octets: a
//      message signed with the private key verifies against each encoding.
//  (c) ECDSA signatures whose r or s has leading zero octets, made on purpose
//      by a crypto.Signer that signs again until such a value turns up: the
//      signed octets have the same size as for any other signature (r and s
//      are fixed-width, RFC 6605 section 4) and verify.
// All oracles are direct (the verdict of Sign/Verify only); nothing depends on
// time beyond the +-3000 s window.
// ---------------------------------------------------------------------------

func keyWithMaterial(kp keyPair, owner string, material []byte) *dns.KEY {
	k := new(dns.KEY)
	*k = *kp.key
	if owner != "" {
		k.Hdr.Name = owner
	}
	k.PublicKey = base64.StdEncoding.EncodeToString(material)
	return k
}

func oracleKeyMaterial(r *Rng, keys []keyPair) {
	t0 := time.Now()
	defer func() { st["wall_ms_keymaterial"] = int(time.Since(t0).Milliseconds()) }()
	for ki, kp := range keys {
		kb, err := base64.StdEncoding.DecodeString(kp.key.PublicKey)
		if err != nil || len(kb) < 2 {
			continue
		}
		m := genMsg(r, 2)
		m.Compress = ki%2 == 0
		genuine := signAs(kp.key, kp.priv, m)
		type variant struct {
			what string
			kb   []byte
		}
		vs := []variant{
			{"one zero octet appended", catb(kb, []byte{0})},
			{"one octet 0x5a appended", catb(kb, []byte{0x5a})},
			{"its first octet appended", catb(kb, kb[:1])},
			{"two octets appended", catb(kb, []byte{byte(r.Intn(256)), byte(r.Intn(256))})},
			{"the last octet removed", kb[:len(kb)-1]},
			{"the last two octets removed", kb[:len(kb)-2]},
			{"the key material twice", catb(kb, kb)},
		}
		for _, v := range vs {
			kv := keyWithMaterial(kp, "", v.kb)
			if kv.KeyTag() == 0 {
				continue
			}
			named := signAs(kv, kp.priv, m) // the SIG carries the tag of the altered KEY
			for i, sm := range []*signedMsg{genuine, named} {
				if sm == nil {
					continue
				}
				got, _, _, _ := receive(sm.out, sm.s, kv)
				st["key_material_checked"]++
				if got == "ok:" || got == "panic" {
					Viol("C18/KeyMaterial/other-key-accepted", "KEY whose public key field is the genuine one with "+v.what+
						" ("+strconv.Itoa(len(v.kb))+" octets instead of "+strconv.Itoa(len(kb))+"), SIG naming "+[]string{"the genuine", "the altered"}[i]+" KEY: "+got,
						c18in{Signed: Hx(sm.out), Alg: kp.name, KeyRR: kv.String(), Detail: "genuine key: " + kp.key.String()})
				}
			}
		}
	}
}

// rsaKeyWith: a 1024-bit RSA key with public exponent e (nil when none was found).
func rsaKeyWith(e int) *rsa.PrivateKey {
	E, one := big.NewInt(int64(e)), big.NewInt(1)
	for tries := 0; tries < 60; tries++ {
		p, err1 := rand.Prime(rand.Reader, 512)
		q, err2 := rand.Prime(rand.Reader, 512)
		if err1 != nil || err2 != nil || p.Cmp(q) == 0 {
			continue
		}
		n := new(big.Int).Mul(p, q)
		phi := new(big.Int).Mul(new(big.Int).Sub(p, one), new(big.Int).Sub(q, one))
		d := new(big.Int).ModInverse(E, phi)
		if n.BitLen() != 1024 || d == nil {
			continue
		}
		k := &rsa.PrivateKey{PublicKey: rsa.PublicKey{N: n, E: e}, D: d, Primes: []*big.Int{p, q}}
		k.Precompute()
		if k.Validate() != nil {
			continue
		}
		return k
	}
	return nil
}

// rsaEncodings: the RFC 3110 encodings of (e, n): exponent length in one octet, in three.
func rsaEncodings(pub *rsa.PublicKey) (short, long []byte) {
	eb := big.NewInt(int64(pub.E)).Bytes()
	nb := pub.N.Bytes()
	short = catb([]byte{byte(len(eb))}, eb, nb)
	long = catb([]byte{0, byte(len(eb) >> 8), byte(len(eb))}, eb, nb)
	return
}

func oracleKeyEncodings(r *Rng, keys []keyPair) {
	t0 := time.Now()
	defer func() { st["wall_ms_keyencodings"] = int(time.Since(t0).Milliseconds()) }()
	var cand []keyPair
	for _, kp := range keys {
		if _, ok := kp.priv.Public().(*rsa.PublicKey); ok {
			cand = append(cand, kp)
		}
	}
	// exponents of 1, 2, 3 and 4 octets (the library reads up to 2^31-1)
	for i, e := range []int{3, 17, 257, 65537, 0x01000001, 1<<31 - 1} {
		if priv := rsaKeyWith(e); priv != nil {
			alg := []uint8{dns.RSASHA256, dns.RSASHA512, dns.RSASHA1}[i%3]
			k := new(dns.KEY)
			k.Hdr = dns.RR_Header{Name: "e" + strconv.Itoa(e) + ".rsa.example.", Rrtype: dns.TypeKEY, Class: dns.ClassINET, Ttl: 300}
			k.Flags, k.Protocol, k.Algorithm = 0x0200, 3, alg
			cand = append(cand, keyPair{k, priv, dns.AlgorithmToString[alg]})
		} else {
			st["rsa_exponent_key_not_made"]++
		}
	}
	for ci, kp := range cand {
		pub := kp.priv.Public().(*rsa.PublicKey)
		short, long := rsaEncodings(pub)
		if kp.key.PublicKey != "" && kp.key.PublicKey != base64.StdEncoding.EncodeToString(short) {
			st["rsa_library_encoding_differs"]++ // not judged: the short form is what RFC 3110 describes
		}
		m := genMsg(r, 2)
		m.Compress = ci%2 == 1
		for fi, enc := range [][]byte{short, long} {
			form := []string{"one-octet", "three-octet"}[fi]
			kv := keyWithMaterial(kp, "", enc)
			if kv.KeyTag() == 0 {
				continue
			}
			sm := signAs(kv, kp.priv, m)
			if sm == nil {
				Viol("C18/KeyEncoding/sign-failed", "Sign fails with an RSA key of exponent "+strconv.Itoa(pub.E)+" ("+form+" exponent length)",
					c18in{Alg: kp.name, KeyRR: kv.String()})
				continue
			}
			got, _, _, _ := receive(sm.out, sm.s, kv)
			st["key_encoding_checked"]++
			if got != "ok:" {
				Viol("C18/KeyEncoding/matching-key-rejected", "RSA KEY with exponent "+strconv.Itoa(pub.E)+" and "+form+" exponent length (RFC 3110, section 2): message signed with its private key does not verify: "+got,
					c18in{Signed: Hx(sm.out), Alg: kp.name, KeyRR: kv.String()})
			}
			// and one altered bit still fails under this encoding
			// (a bit of the message proper: the SIG record's own header is not signed)
			rs, ok := refSig0(sm.out)
			if !ok || rs.rr.start <= 12 {
				continue
			}
			mut := append([]byte(nil), sm.out...)
			mut[12+r.Intn(rs.rr.start-12)] ^= 1 << uint(r.Intn(8))
			if got, _, _, _ := receive(mut, sm.s, kv); got == "ok:" || got == "panic" {
				Viol("C18/KeyEncoding/altered-accepted", "RSA KEY with "+form+" exponent length: altered message: "+got,
					c18in{Signed: Hx(mut), Alg: kp.name, KeyRR: kv.String()})
			}
		}
	}
}

// lzSigner signs again until r (which 0), s (1) or either (2) has at least
// `octets` leading zero octets at the curve's width.
type lzSigner struct {
	inner  *ecdsa.PrivateKey
	which  int
	octets int
	tries  int
	r, s   *big.Int
}

func (z *lzSigner) Public() crypto.PublicKey { return z.inner.Public() }
func (z *lzSigner) Sign(_ io.Reader, digest []byte, opts crypto.SignerOpts) ([]byte, error) {
	lim := (z.inner.Curve.Params().BitSize+7)/8*8 - 8*z.octets
	for z.tries = 1; z.tries <= 3000000; z.tries++ {
		sig, err := z.inner.Sign(rand.Reader, digest, opts)
		if err != nil {
			return nil, err
		}
		var rs struct{ R, S *big.Int }
		if _, err := asn1.Unmarshal(sig, &rs); err != nil {
			return nil, err
		}
		if (z.which != 1 && rs.R.BitLen() <= lim) || (z.which != 0 && rs.S.BitLen() <= lim) {
			z.r, z.s = rs.R, rs.S
			return sig, nil
		}
	}
	return nil, errors.New("no signature with leading zero octets found")
}

func oracleEcdsaLeadingZeros(r *Rng, keys []keyPair) {
	t0 := time.Now()
	defer func() { st["wall_ms_ecdsa_leading_zeros"] = int(time.Since(t0).Milliseconds()) }()
	for _, kp := range keys {
		priv, ok := kp.priv.(*ecdsa.PrivateKey)
		if !ok {
			continue
		}
		m := genMsg(r, 2)
		m.Compress = false
		plain := signAs(kp.key, kp.priv, m)
		if plain == nil {
			continue
		}
		type want struct{ which, octets int }
		ws := []want{{0, 1}, {1, 1}}
		if priv.Curve.Params().BitSize == 256 {
			ws = append(ws, want{2, 2}) // one signing in 32768
		}
		for _, w := range ws {
			z := &lzSigner{inner: priv, which: w.which, octets: w.octets}
			zp := keyPair{key: kp.key, priv: z, name: kp.name}
			now := uint32(time.Now().Unix())
			s := newSig(zp, now-3000, now+3000)
			out, err := doSign(s, zp, m)
			if z.r == nil {
				st["ecdsa_leading_zero_not_found"]++
				continue
			}
			st["ecdsa_leading_zero_signings"] += z.tries
			st["ecdsa_leading_zero_checked"]++
			desc := "ECDSA signature with " + strconv.Itoa(w.octets) + " leading zero octet(s) in " + []string{"r", "s", "r or s"}[w.which] +
				" (r=" + z.r.Text(16) + " s=" + z.s.Text(16) + ")"
			if err != nil {
				Viol("C18/EcdsaZeros/sign-failed", desc+": Sign: "+err.Error(), c18in{Alg: kp.name, KeyRR: kp.key.String()})
				continue
			}
			in := c18in{Signed: Hx(out), Alg: kp.name, KeyRR: kp.key.String()}
			if len(out) != len(plain.out) {
				Viol("C18/EcdsaZeros/signed-size", desc+": signed message has "+strconv.Itoa(len(out))+" octets, any other signature of the same message gives "+strconv.Itoa(len(plain.out)), in)
			}
			if got, _, _, _ := receive(out, s, kp.key); got != "ok:" {
				Viol("C18/EcdsaZeros/not-verified", desc+": the signed message does not verify against the matching KEY: "+got, in)
			}
		}
	}
}
