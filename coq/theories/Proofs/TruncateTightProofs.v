(* Proofs/TruncateTightProofs.v — Msg.Truncate is tight: the first record it
   drops would not have fitted.  The counting form on truncateLoop (where exactly
   the loop stops and what the running length is at that point), its lift through
   the three sections, and the statement on the message made of the kept records,
   the first dropped record and the OPT record that was set aside. *)
From Dns Require Import Gen.Layouts Gen.Lens Gen.Registry Gen.Structs Gen.Consts.
From Dns Require Import Base.ListX Model.Truncate Proofs.EscapeProofs Proofs.TokenProofs Proofs.NameWireProofs
  Proofs.LenNameProofs Proofs.LenFieldProofs Proofs.LenRRProofs Proofs.LenMsgProofs Proofs.LenCompressProofs
  Proofs.LenCompressMsgProofs Proofs.TruncateProofs Proofs.TruncateFitProofs.
From Coq Require Import Lia ZifyN ZifyNat ZifyBool.
Open Scope list_scope.
Open Scope N_scope.

(* ================================================================== *)
(* 1. every record adds to the running length                           *)
(* ================================================================== *)
Lemma names_fold_ge l off cp : forall (a : N * option lset),
  fst a <= fst (fold_left (fun (a : N * option lset) x =>
                  let '(n, c') := domain_name_len x (off + fst a) (snd a) cp in (fst a + n, c')) l a).
Proof.
  induction l as [|x r IH]; intro a; cbn [fold_left]; [lia|].
  destruct (domain_name_len x (off + fst a) (snd a) cp) as [n c'].
  pose proof (IH (fst a + n, c')) as H. change (fst (fst a + n, c')) with (fst a + n) in H. lia.
Qed.

Lemma len_term_ge v t off l c : l <= fst (len_term v t off l c).
Proof.
  destruct t; cbn [len_term]; try (cbn [fst]; lia).
  - destruct (domain_name_len _ _ _ _) as [n c']. cbn [fst]. lia.
  - rewrite txts_fold. cbn [fst]. lia.
  - apply (names_fold_ge _ off compress (l, c)).
  - rewrite apl_fold. cbn [fst]. lia.
  - rewrite pairs_fold. cbn [fst]. lia.
  - cbn [fst]. destruct (_ =? 0); lia.
  - cbv zeta. cbn [fst]. destruct (_ =? v4); [lia|]. destruct (_ =? v6); [lia|]. destruct (_ =? host); lia.
Qed.

Lemma len_terms_ge v ts : forall off l c, l <= fst (len_terms v ts off l c).
Proof.
  induction ts as [|t r IH]; intros off l c; cbn [len_terms]; [cbn [fst]; lia|].
  pose proof (len_term_ge v t off l c) as H1.
  destruct (len_term v t off l c) as [l1 c1]. cbn [fst] in H1.
  pose proof (IH off l1 c1). lia.
Qed.

(* RR_Header.len alone is at least 11 octets (name, type, class, TTL, RDLENGTH) *)
Lemma len_rr_pos r L c : 10 < fst (len_rr r L c).
Proof.
  unfold len_rr. destruct (domain_name_len (rr_name r) L c true) as [hl c1] eqn:E.
  assert (Hhl : 1 <= hl).
  { unfold domain_name_len in E. destruct (bytes_eqb _ _ || bytes_eqb _ _); [injection E as <- _; lia|].
    destruct c as [cs|].
    - destruct (true || _); [|destruct (has_backslash _); injection E as <- _; lia].
      destruct (compression_len_search cs (rr_name r) L) as [cs' [h|]];
        destruct (has_backslash _); injection E as <- _; lia.
    - destruct (has_backslash _); injection E as <- _; lia. }
  destruct (len_terms_of (rr_kind r)) as [ts|]; [|cbn [fst]; lia].
  pose proof (len_terms_ge (rr_data r) ts L (hl + 10) c1). lia.
Qed.

Lemma step_r_gt a r : fst a < fst (step_r a r).
Proof.
  unfold step_r. pose proof (len_rr_pos r (fst a) (snd a)) as H.
  destruct (len_rr r (fst a) (snd a)) as [n c']. cbn [fst] in *. lia.
Qed.

(* ================================================================== *)
(* 2. the counting form: where truncateLoop stops                       *)
(* ================================================================== *)
(* the running state of Msg.Len after the first j records of a section *)
Definition run (rrs : list rr) (j : nat) (a : N * option lset) : N * option lset :=
  fold_left step_r (firstn j rrs) a.

Lemma run_0 rrs a : run rrs 0 a = a.
Proof. reflexivity. Qed.
Lemma run_cons r t j a : run (r :: t) (S j) a = run t j (step_r a r).
Proof. reflexivity. Qed.
Lemma run_all rrs a : run rrs (length rrs) a = fold_left step_r rrs a.
Proof. unfold run. now rewrite firstn_all. Qed.
Lemma run_S rrs : forall j a, (j < length rrs)%nat ->
  exists r, nth_error rrs j = Some r /\ run rrs (S j) a = step_r (run rrs j a) r.
Proof.
  induction rrs as [|x t IH]; intros j a H; [cbn in H; lia|].
  destruct j as [|j].
  - exists x. split; reflexivity.
  - cbn [length] in H. destruct (IH j (step_r a x) ltac:(lia)) as [r [E1 E2]].
    exists r. split; [exact E1|]. rewrite !run_cons. exact E2.
Qed.
Lemma run_lt_S rrs j a : (j < length rrs)%nat -> fst (run rrs j a) < fst (run rrs (S j) a).
Proof. intro H. destruct (run_S rrs j a H) as [r [_ ->]]. apply step_r_gt. Qed.

(* truncateLoop(rrs, size, L, c) = (l', k): with j = k - i records kept,
   - the loop went past each of the first j - 1 records: the running length
     after each of them was strictly below size;
   and exactly one of
   (over)  record j exists, the running length INCLUDING record j (offsets and
           suffix set as Msg.Len has them after the first j records) exceeds
           size, and the loop returns size: no slack, no off-by-one;
   (equal) the running length including record j - 1 is exactly size; that
           record IS kept and the loop returns that length;
   (end)   every record was kept and the loop returns the running length. *)
Theorem truncate_loop_stop rrs : forall size L c i l' k c',
  truncate_loop rrs size (Z.of_N L) c i = (l', k, c') ->
  exists j, k = (i + j)%nat /\ (j <= length rrs)%nat /\
    (forall j', (0 < j' < j)%nat -> (Z.of_N (fst (run rrs j' (L, c))) < size)%Z) /\
    ( ((j < length rrs)%nat /\ ((0 < j)%nat -> (Z.of_N (fst (run rrs j (L, c))) < size)%Z) /\
       (size < Z.of_N (fst (run rrs (S j) (L, c))))%Z /\ l' = size /\ c' = snd (run rrs (S j) (L, c)))
    \/ ((0 < j)%nat /\ Z.of_N (fst (run rrs j (L, c))) = size /\ l' = size /\ c' = snd (run rrs j (L, c)))
    \/ (j = length rrs /\ ((0 < j)%nat -> (Z.of_N (fst (run rrs j (L, c))) < size)%Z) /\
        l' = Z.of_N (fst (run rrs j (L, c))) /\ c' = snd (run rrs j (L, c))) ).
Proof.
  induction rrs as [|r t IH]; intros size L c i l' k c' H.
  - cbn [truncate_loop] in H. injection H as <- <- <-. exists 0%nat.
    split; [lia|]. split; [cbn [length]; lia|]. split; [intros j' Hj; lia|].
    right; right. rewrite run_0. cbn [fst snd length]. split; [reflexivity|]. split; [lia|]. split; reflexivity.
  - cbn [truncate_loop] in H. rewrite N2Z.id in H.
    destruct (len_rr r L c) as [n c1] eqn:En.
    assert (Hstep : step_r (L, c) r = (L + n, c1)) by (unfold step_r; cbn [fst snd]; now rewrite En).
    assert (Hrun1 : run (r :: t) 1 (L, c) = (L + n, c1)) by (rewrite run_cons, run_0; exact Hstep).
    destruct (size <? Z.of_N L + Z.of_N n)%Z eqn:E1.
    + injection H as <- <- <-. exists 0%nat.
      split; [lia|]. split; [cbn [length]; lia|]. split; [intros j' Hj; lia|].
      left. rewrite Hrun1. cbn [fst snd length]. split; [lia|]. split; [lia|]. split; [lia|]. split; reflexivity.
    + destruct (Z.of_N L + Z.of_N n =? size)%Z eqn:E2.
      * injection H as <- <- <-. exists 1%nat.
        split; [lia|]. split; [cbn [length]; lia|]. split; [intros j' Hj; lia|].
        right; left. rewrite Hrun1. cbn [fst snd]. split; [lia|]. split; [lia|]. split; [lia|reflexivity].
      * replace (Z.of_N L + Z.of_N n)%Z with (Z.of_N (L + n)) in H by lia.
        destruct (IH size (L + n) c1 (S i) l' k c' H) as [j [Hk [Hj [Hpre Hcase]]]].
        exists (S j). split; [lia|]. split; [cbn [length]; lia|].
        assert (Hpre' : forall j', (0 < j' < S (S j))%nat -> (j' <= j)%nat \/ j' = S j) by (intros; lia).
        split.
        { intros j' Hj'. destruct j' as [|j'']; [lia|]. rewrite run_cons, Hstep.
          destruct j'' as [|j3]; [rewrite run_0; cbn [fst]; lia|]. apply Hpre. lia. }
        rewrite !run_cons, Hstep. cbn [length].
        destruct Hcase as [[A1 [A2 [A3 [A4 A5]]]]|[[B1 [B2 [B3 B4]]]|[C1 [C2 [C3 C4]]]]].
        -- left. split; [lia|]. split; [|split; [exact A3|split; [exact A4|exact A5]]].
           intros _. destruct j as [|j0]; [rewrite run_0; cbn [fst]; lia|apply A2; lia].
        -- right; left. split; [lia|]. split; [exact B2|]. split; [exact B3|exact B4].
        -- right; right. split; [lia|]. split; [|split; [exact C3|exact C4]].
           intros _. destruct j as [|j0]; [rewrite run_0; cbn [fst]; lia|apply C2; lia].
Qed.

(* ================================================================== *)
(* 3. one section, as long as nothing was dropped before                *)
(* ================================================================== *)
(* as long as no record was dropped, the state Truncate carries IS the state of
   Msg.Len over the records kept so far (also when it has reached size) *)
Definition exact_st (a : N * option lset) (l : Z) (ct : option lset) : Prop :=
  l = Z.of_N (fst a) /\ ct = snd a.

Lemma sec_all rrs size a l ct l' k c' :
  exact_st a l ct -> trunc_section rrs size (l, ct) = (l', k, c') -> k = length rrs ->
  exact_st (fold_left step_r rrs a) l' c'.
Proof.
  intros [-> ->] H Hk. unfold trunc_section in H. cbn [fst snd] in H. destruct a as [L c]. cbn [fst snd] in *.
  destruct (Z.of_N L <? size)%Z eqn:E.
  - destruct (truncate_loop_stop rrs size L c 0 l' k c' H) as [j [Hj [_ [_ Hcase]]]]. cbn [Nat.add] in Hj. subst j.
    rewrite Hk in Hcase. rewrite run_all in Hcase.
    destruct Hcase as [[A1 _]|[[_ [B2 [B3 B4]]]|[_ [_ [C3 C4]]]]]; [lia| |].
    + split; [lia|exact B4].
    + split; [exact C3|exact C4].
  - injection H as <- <- <-. destruct rrs; [|discriminate]. cbn [fold_left fst snd]. split; reflexivity.
Qed.

(* the first drop: the running length including the first dropped record
   exceeds the budget *)
Lemma sec_drop rrs size a l ct l' k c' :
  exact_st a l ct -> trunc_section rrs size (l, ct) = (l', k, c') -> (k < length rrs)%nat ->
  (size < Z.of_N (fst (run rrs (S k) a)))%Z.
Proof.
  intros [-> ->] H Hk. unfold trunc_section in H. cbn [fst snd] in H. destruct a as [L c]. cbn [fst snd] in *.
  destruct (Z.of_N L <? size)%Z eqn:E.
  - destruct (truncate_loop_stop rrs size L c 0 l' k c' H) as [j [Hj [_ [_ Hcase]]]]. cbn [Nat.add] in Hj. subst j.
    destruct Hcase as [[_ [_ [A3 _]]]|[[_ [B2 _]]|[C1 _]]]; [exact A3| |lia].
    pose proof (run_lt_S rrs k (L, c) Hk). lia.
  - injection H as <- <- <-. pose proof (run_lt_S rrs 0 (L, c) Hk) as H. rewrite run_0 in H. cbn [fst] in H. lia.
Qed.

(* ================================================================== *)
(* 4. Truncate, unfolded                                                *)
(* ================================================================== *)
Definition opt_list (o : option rr) : list rr := match o with Some x => [x] | None => [] end.
Definition rest_extra (m : msg) : list rr := snd (pop_edns0 (m_extra m)).
(* the budget of the walk: max(size, 512) minus Len(OPT) *)
Definition trunc_budget (m : msg) (size0 : Z) : Z := (trunc_size size0 - set_aside_len m)%Z.

Lemma truncate_shape m size0 :
  has_tsig m = false -> (trunc_size size0 < Z.of_N (msg_len_with m None))%Z ->
  exists l1 na c1 l2 nn c2 l3 ne c3,
    let a := questions_len (m_question m) in
    trunc_section (m_answer m) (trunc_budget m size0) (Z.of_N (fst a), snd a) = (l1, na, c1) /\
    trunc_section (m_ns m) (trunc_budget m size0) (l1, c1) = (l2, nn, c2) /\
    trunc_section (rest_extra m) (trunc_budget m size0) (l2, c2) = (l3, ne, c3) /\
    truncate m size0 =
      set_sections m (m_tc m || Nat.ltb na (length (m_answer m)) || Nat.ltb nn (length (m_ns m))
                      || Nat.ltb ne (length (rest_extra m)))
                   true (firstn na (m_answer m)) (firstn nn (m_ns m))
                   (firstn ne (rest_extra m) ++ opt_list (set_aside m)).
Proof.
  intros Ht Hl. unfold truncate. rewrite Ht.
  set (sz := if (size0 <? Z.of_N c_MinMsgSize)%Z then Z.of_N c_MinMsgSize else size0).
  assert (Hsz : sz = trunc_size size0) by (unfold sz, trunc_size; destruct (size0 <? _)%Z eqn:E; lia).
  replace (Z.of_N (msg_len_with m None) <=? sz)%Z with false by lia.
  unfold trunc_budget, set_aside_len, set_aside, rest_extra.
  destruct (pop_edns0 (m_extra m)) as [opt extra] eqn:Hpop. cbn [fst snd].
  set (sz' := match opt with Some o => (sz - Z.of_N (rr_len o))%Z | None => sz end).
  replace (trunc_size size0 - match opt with Some o => Z.of_N (rr_len o) | None => 0 end)%Z with sz'
    by (unfold sz'; destruct opt; lia).
  set (a := questions_len (m_question m)).
  destruct (trunc_section (m_answer m) sz' (Z.of_N (fst a), snd a)) as [[l1 na] c1] eqn:S1.
  destruct (trunc_section (m_ns m) sz' (l1, c1)) as [[l2 nn] c2] eqn:S2.
  destruct (trunc_section extra sz' (l2, c2)) as [[l3 ne] c3] eqn:S3.
  exists l1, na, c1, l2, nn, c2, l3, ne, c3. cbv zeta.
  split; [reflexivity|]. split; [exact S2|]. split; [exact S3|].
  destruct opt; reflexivity.
Qed.

(* ================================================================== *)
(* 5. the first dropped record does not fit                             *)
(* ================================================================== *)
(* the running length of Msg.Len (offsets and suffix set as Truncate carries
   them) after header, questions, the kept records and the first dropped one *)
Definition all_len (m : msg) (an ns ex : list rr) : N :=
  fst (fold_left step_r ex (fold_left step_r ns (fold_left step_r an (questions_len (m_question m))))).

Theorem first_dropped_over_budget m size0 :
  has_tsig m = false -> (trunc_size size0 < Z.of_N (msg_len_with m None))%Z ->
  let t := truncate m size0 in
  exists na nn ne,
    t = set_sections m (m_tc t) true (firstn na (m_answer m)) (firstn nn (m_ns m))
                     (firstn ne (rest_extra m) ++ opt_list (set_aside m)) /\
    (na <= length (m_answer m))%nat /\ (nn <= length (m_ns m))%nat /\ (ne <= length (rest_extra m))%nat /\
    ((na < length (m_answer m))%nat ->
       nn = 0%nat /\ ne = 0%nat /\
       (trunc_budget m size0 < Z.of_N (all_len m (firstn (S na) (m_answer m)) [] []))%Z) /\
    (na = length (m_answer m) -> (nn < length (m_ns m))%nat ->
       ne = 0%nat /\
       (trunc_budget m size0 < Z.of_N (all_len m (m_answer m) (firstn (S nn) (m_ns m)) []))%Z) /\
    (na = length (m_answer m) -> nn = length (m_ns m) -> (ne < length (rest_extra m))%nat ->
       (trunc_budget m size0 < Z.of_N (all_len m (m_answer m) (m_ns m) (firstn (S ne) (rest_extra m))))%Z).
Proof.
  intros Ht Hl. cbv zeta.
  destruct (truncate_shape m size0 Ht Hl) as [l1 [na [c1 [l2 [nn [c2 [l3 [ne [c3 [S1 [S2 [S3 Heq]]]]]]]]]]]].
  cbv zeta in *. set (a := questions_len (m_question m)) in *. set (B := trunc_budget m size0) in *.
  pose proof (trunc_section_count (m_answer m) B (Z.of_N (fst a), snd a)) as HA. rewrite S1 in HA.
  pose proof (trunc_section_count (m_ns m) B (l1, c1)) as HN. rewrite S2 in HN.
  pose proof (trunc_section_count (rest_extra m) B (l2, c2)) as HE. rewrite S3 in HE.
  cbn [fst snd] in *.
  destruct HA as [HA1 [HA2 _]]. destruct HN as [HN1 [HN2 HN3]]. destruct HE as [HE1 [_ HE3]].
  assert (X0 : exact_st a (Z.of_N (fst a)) (snd a)) by (split; reflexivity).
  exists na, nn, ne. split; [rewrite Heq at 1; rewrite Heq; reflexivity|].
  split; [exact HA1|]. split; [exact HN1|]. split; [exact HE1|]. unfold all_len. fold a. split; [|split].
  - intro H. specialize (HA2 H). destruct (HN3 HA2) as [-> ->]. destruct (HE3 HA2) as [-> _].
    split; [reflexivity|]. split; [reflexivity|]. cbn [fold_left].
    exact (sec_drop _ _ _ _ _ _ _ _ X0 S1 H).
  - intros Hna H. pose proof (sec_all _ _ _ _ _ _ _ _ X0 S1 Hna) as X1.
    specialize (HN2 H). destruct (HE3 HN2) as [-> _]. split; [reflexivity|]. cbn [fold_left].
    exact (sec_drop _ _ _ _ _ _ _ _ X1 S2 H).
  - intros Hna Hnn H. pose proof (sec_all _ _ _ _ _ _ _ _ X0 S1 Hna) as X1.
    pose proof (sec_all _ _ _ _ _ _ _ _ X1 S2 Hnn) as X2.
    exact (sec_drop _ _ _ _ _ _ _ _ X2 S3 H).
Qed.

(* ================================================================== *)
(* 6. the message: kept records + first dropped record + OPT            *)
(* ================================================================== *)
(* the OPT record measures the same wherever it stands: its len() walks no name
   but the owner's and the owner is the root (RFC 6891; Truncate's own comment
   relies on it) *)
Definition opt_exact (o : rr) : bool :=
  nowalk_kind (rr_kind o) && (bytes_eqb (rr_name o) [] || bytes_eqb (rr_name o) [46]).
Definition set_aside_exact (m : msg) : bool := match set_aside m with Some o => opt_exact o | None => true end.

Lemma len_rr_opt_exact o L c : opt_exact o = true -> fst (len_rr o L c) = rr_len o.
Proof.
  unfold opt_exact, nowalk_kind. intro H. apply andb_prop in H. destruct H as [Hk Hn].
  rewrite rr_len_est. unfold len_rr, rr_est, domain_name_len, name_est. rewrite Hn.
  destruct (len_terms_of (rr_kind o)) as [ts|]; [|reflexivity].
  rewrite len_terms_nowalk by exact Hk. cbn [fst]. lia.
Qed.

Lemma opt_exact_side_ok o : opt_exact o = true -> side_ok o = true.
Proof.
  unfold opt_exact, side_ok. intro H. apply andb_prop in H. destruct H as [Hk Hn]. rewrite Hk. cbn [andb].
  apply orb_prop in Hn. destruct Hn as [Hn|Hn]; apply bytes_eqb_eq in Hn; rewrite Hn; reflexivity.
Qed.

Lemma msg_len_plus_opt m tc an ns ex :
  set_aside_exact m = true -> (an <> [] \/ ns <> [] \/ ex <> []) ->
  Z.of_N (msg_len (set_sections m tc true an ns (ex ++ opt_list (set_aside m)))) =
  (Z.of_N (all_len m an ns ex) + set_aside_len m)%Z.
Proof.
  intros Hx Hne. unfold msg_len. cbn [m_compress set_sections andb].
  assert (Hc : is_compressible (set_sections m tc true an ns (ex ++ opt_list (set_aside m))) = true).
  { unfold is_compressible. cbn [m_question m_answer m_ns m_extra set_sections].
    destruct an as [|x an]; [destruct ns as [|y ns]; [destruct ex as [|z ex]; [exfalso; tauto|]|]|];
      cbn [length app Nat.eqb negb]; rewrite ?orb_true_r; reflexivity. }
  rewrite Hc, msg_len_with_sections, fold_step_r_app. unfold all_len. rewrite questions_len_steps.
  set (a3 := fold_left step_r ex _).
  unfold set_aside_exact, set_aside_len in *. destruct (set_aside m) as [o|]; cbn [opt_list fold_left]; [|lia].
  unfold step_r. pose proof (len_rr_opt_exact o (fst a3) (snd a3) Hx) as Ho.
  destruct (len_rr o (fst a3) (snd a3)) as [n c']. cbn [fst] in *. lia.
Qed.

(* the message Truncate leaves, with one more record: the first one it dropped *)
Definition next_dropped (m : msg) (size0 : Z) : option msg :=
  let t := truncate m size0 in
  let na := length (m_answer t) in
  let nn := length (m_ns t) in
  let ne := (length (m_extra t) - length (opt_list (set_aside m)))%nat in
  let mk an ns ex := set_sections t (m_tc t) (m_compress t) an ns (ex ++ opt_list (set_aside m)) in
  if (na <? length (m_answer m))%nat then
    Some (mk (firstn (S na) (m_answer m)) (m_ns t) (firstn ne (m_extra t)))
  else if (nn <? length (m_ns m))%nat then
    Some (mk (m_answer t) (firstn (S nn) (m_ns m)) (firstn ne (m_extra t)))
  else if (ne <? length (rest_extra m))%nat then
    Some (mk (m_answer t) (m_ns t) (firstn (S ne) (rest_extra m)))
  else None.

Lemma pop_lengths m :
  (length (rest_extra m) + length (opt_list (set_aside m)) = length (m_extra m))%nat.
Proof.
  unfold rest_extra, set_aside.
  destruct (pop_edns0_spec (m_extra m)) as [[-> _]|[pre [o [post [E [_ [_ ->]]]]]]]; cbn [fst snd opt_list length]; [lia|].
  rewrite E, !app_length. cbn [length]. lia.
Qed.

Lemma firstn_firstn_app {A} n (l r : list A) : (n <= length l)%nat -> firstn n (firstn n l ++ r) = firstn n l.
Proof.
  intro H. rewrite <- (firstn_length_le l H) at 1. apply firstn_app_exact.
Qed.

(* the three counts of a truncation that dropped something, read off the result *)
Lemma truncate_counts m size0 :
  has_tsig m = false -> (trunc_size size0 < Z.of_N (msg_len_with m None))%Z ->
  let t := truncate m size0 in
  exists na nn ne,
    t = set_sections m (m_tc t) true (firstn na (m_answer m)) (firstn nn (m_ns m))
                     (firstn ne (rest_extra m) ++ opt_list (set_aside m)) /\
    (na <= length (m_answer m))%nat /\ (nn <= length (m_ns m))%nat /\ (ne <= length (rest_extra m))%nat /\
    length (m_answer t) = na /\ length (m_ns t) = nn /\
    (length (m_extra t) - length (opt_list (set_aside m)))%nat = ne /\
    firstn ne (m_extra t) = firstn ne (rest_extra m).
Proof.
  intros Ht Hl. cbv zeta.
  destruct (first_dropped_over_budget m size0 Ht Hl) as [na [nn [ne [Heq [H1 [H2 [H3 _]]]]]]].
  exists na, nn, ne. split; [exact Heq|]. split; [exact H1|]. split; [exact H2|]. split; [exact H3|].
  rewrite Heq. cbn [m_answer m_ns m_extra set_sections].
  rewrite app_length, !firstn_length_le by assumption.
  split; [reflexivity|]. split; [reflexivity|]. split; [lia|]. now apply firstn_firstn_app.
Qed.

Lemma set_sections_twice m tc cp an ns ex tc' cp' an' ns' ex' :
  set_sections (set_sections m tc cp an ns ex) tc' cp' an' ns' ex' = set_sections m tc' cp' an' ns' ex'.
Proof. reflexivity. Qed.

Lemma Some_inj {A} (x y : A) : Some x = Some y -> x = y.
Proof. intro H. now injection H. Qed.

(* a message that fits loses nothing: there is no first dropped record *)
Lemma next_dropped_fits m size0 :
  has_tsig m = false -> (Z.of_N (msg_len_with m None) <= trunc_size size0)%Z -> next_dropped m size0 = None.
Proof.
  intros Ht Hl. unfold next_dropped. rewrite (truncate_fits m size0 Ht) by (unfold trunc_size in Hl; lia).
  cbn [m_answer m_ns m_extra set_sections]. pose proof (pop_lengths m).
  rewrite !Nat.ltb_irrefl. replace (_ <? _)%nat with false by lia. reflexivity.
Qed.

(* THE CLAUSE, on Len(): the message made of the records Truncate kept, the
   first record it dropped, and the OPT record measures more than
   max(size, 512) *)
Theorem first_dropped_does_not_fit m size0 m' :
  has_tsig m = false -> set_aside_exact m = true -> next_dropped m size0 = Some m' ->
  (trunc_size size0 < Z.of_N (msg_len m'))%Z.
Proof.
  intros Ht Hx Hnd.
  destruct (Z_le_gt_dec (Z.of_N (msg_len_with m None)) (trunc_size size0)) as [Hfit|Hl].
  { rewrite (next_dropped_fits m size0 Ht Hfit) in Hnd. discriminate. }
  apply Z.gt_lt in Hl.
  destruct (first_dropped_over_budget m size0 Ht Hl) as [na [nn [ne [Heq [H1 [H2 [H3 [DA [DN DE]]]]]]]]].
  destruct (truncate_counts m size0 Ht Hl) as [na' [nn' [ne' [Heq' [_ [_ [_ [La [Ln [Le Lf]]]]]]]]]].
  cbv zeta in *.
  assert (Ena : na' = na).
  { rewrite <- La. rewrite Heq. cbn [m_answer set_sections]. now apply firstn_length_le. }
  assert (Enn : nn' = nn).
  { rewrite <- Ln. rewrite Heq. cbn [m_ns set_sections]. now apply firstn_length_le. }
  assert (Ene : ne' = ne).
  { rewrite <- Le. rewrite Heq. cbn [m_extra set_sections]. rewrite app_length, firstn_length_le by assumption. lia. }
  rewrite Ena in La. rewrite Enn in Ln. rewrite Ene in Le, Lf. clear Heq' Ena Enn Ene na' nn' ne'.
  unfold next_dropped in Hnd. rewrite La, Ln, Le, Lf in Hnd.
  assert (Hcp : m_compress (truncate m size0) = true) by (rewrite Heq; reflexivity).
  assert (Han : m_answer (truncate m size0) = firstn na (m_answer m)) by (rewrite Heq; reflexivity).
  assert (Hns : m_ns (truncate m size0) = firstn nn (m_ns m)) by (rewrite Heq; reflexivity).
  rewrite Hcp, Han, Hns in Hnd.
  set (tc := m_tc (truncate m size0)) in *.
  assert (Hss : forall an ns ex,
    set_sections (truncate m size0) tc true an ns ex = set_sections m tc true an ns ex).
  { intros. rewrite Heq. apply set_sections_twice. }
  rewrite !Hss in Hnd. unfold trunc_budget in *.
  destruct (na <? length (m_answer m))%nat eqn:EA.
  - apply Some_inj in Hnd. subst m'. destruct (DA ltac:(lia)) as [-> [-> D]]. rewrite !firstn_O.
    rewrite msg_len_plus_opt; [lia|exact Hx|]. left. destruct (m_answer m); [cbn in EA; lia|discriminate].
  - assert (Hna : na = length (m_answer m)) by lia.
    destruct (nn <? length (m_ns m))%nat eqn:EN.
    + apply Some_inj in Hnd. subst m'. destruct (DN Hna ltac:(lia)) as [-> D]. rewrite !firstn_O.
      rewrite Hna, firstn_all. rewrite msg_len_plus_opt; [lia|exact Hx|].
      right; left. destruct (m_ns m); [cbn in EN; lia|discriminate].
    + assert (Hnn : nn = length (m_ns m)) by lia.
      destruct (ne <? length (rest_extra m))%nat eqn:EE; [|discriminate].
      apply Some_inj in Hnd. subst m'. pose proof (DE Hna Hnn ltac:(lia)) as D.
      rewrite Hna, Hnn, !firstn_all. rewrite msg_len_plus_opt; [lia|exact Hx|].
      right; right. destruct (rest_extra m); [cbn in EE; lia|discriminate].
Qed.

(* next_dropped is None only when nothing was dropped *)
Lemma next_dropped_none m size0 :
  has_tsig m = false -> next_dropped m size0 = None ->
  m_answer (truncate m size0) = m_answer m /\ m_ns (truncate m size0) = m_ns m /\
  length (m_extra (truncate m size0)) = length (m_extra m).
Proof.
  intros Ht Hnd.
  destruct (Z_le_gt_dec (Z.of_N (msg_len_with m None)) (trunc_size size0)) as [Hfit|Hl].
  { rewrite (truncate_fits m size0 Ht) by (unfold trunc_size in Hfit; lia). auto. }
  apply Z.gt_lt in Hl.
  destruct (truncate_counts m size0 Ht Hl) as [na [nn [ne [Heq [H1 [H2 [H3 [La [Ln [Le Lf]]]]]]]]]].
  cbv zeta in *. unfold next_dropped in Hnd. rewrite La, Ln, Le in Hnd.
  destruct (na <? length (m_answer m))%nat eqn:EA; [discriminate|].
  destruct (nn <? length (m_ns m))%nat eqn:EN; [discriminate|].
  destruct (ne <? length (rest_extra m))%nat eqn:EE; [discriminate|].
  pose proof (pop_lengths m) as Hp.
  assert (Han : m_answer (truncate m size0) = firstn na (m_answer m)) by (rewrite Heq; reflexivity).
  assert (Hns : m_ns (truncate m size0) = firstn nn (m_ns m)) by (rewrite Heq; reflexivity).
  assert (Hex : length (m_extra (truncate m size0)) = (ne + length (opt_list (set_aside m)))%nat).
  { rewrite Heq. cbn [m_extra set_sections]. rewrite app_length, firstn_length_le by assumption. reflexivity. }
  rewrite Han, Hns, Hex. replace na with (length (m_answer m)) by lia. replace nn with (length (m_ns m)) by lia.
  rewrite !firstn_all. split; [reflexivity|]. split; [reflexivity|lia].
Qed.

(* ... and on the packed octets, given exactness of Len() for the message (C08
   proves it for plain messages packed WITHOUT compression; what Truncate leaves
   is packed WITH compression) *)
Definition len_exact_compressed (m' : msg) : Prop := forall w, pack_msg m' = Ok w -> lenN w = msg_len m'.

Theorem first_dropped_does_not_fit_packed m size0 m' w :
  has_tsig m = false -> set_aside_exact m = true -> next_dropped m size0 = Some m' ->
  len_exact_compressed m' -> pack_msg m' = Ok w ->
  (trunc_size size0 < Z.of_N (lenN w))%Z.
Proof.
  intros Ht Hx Hnd Hex Hp. rewrite (Hex w Hp). now apply (first_dropped_does_not_fit m size0).
Qed.

(* ================================================================== *)
(* 7. witnesses                                                         *)
(* ================================================================== *)
Definition the_next (m : msg) (size0 : Z) : msg := match next_dropped m size0 with Some x => x | None => m end.
Definition packed_len (m : msg) : option N := match pack_msg m with Ok w => Some (lenN w) | _ => None end.

(* three 200-octet TXT answers and an OPT, Truncate(512): the third answer is the
   first dropped record; with it the message measures and packs to 689 > 512 *)
Definition t_three_next : msg := the_next t_three 512.
Lemma t_three_next_facts :
  has_tsig t_three = false /\ set_aside_exact t_three = true /\
  next_dropped t_three 512 = Some t_three_next /\
  length (m_answer (truncate t_three 512)) = 2%nat /\
  m_answer t_three_next = m_answer t_three /\ m_extra t_three_next = m_extra t_three /\
  msg_len t_three_next = 689 /\ packed_len t_three_next = Some 689 /\
  trunc_budget t_three 512 = 497%Z.
Proof. vm_compute. repeat split; reflexivity. Qed.
Lemma t_three_next_exact : len_exact_compressed t_three_next.
Proof. intros w H. vm_compute in H. injection H as <-. reflexivity. Qed.

(* the early stop: two answers and the OPT measure exactly 512; the loop stops at
   the second answer, which is kept, the third is never measured — and would not
   have fitted *)
Definition t_exact : msg :=
  t_msg [t_txt "a.example.org." 200; t_txt "b.example.org." 238; t_txt "c.example.org." 200] [t_opt 0].
Definition t_exact_next : msg := the_next t_exact 512.
Lemma t_exact_facts :
  has_tsig t_exact = false /\ set_aside_exact t_exact = true /\
  msg_len (truncate t_exact 512) = 512 /\ packed_len (truncate t_exact 512) = Some 512 /\
  length (m_answer (truncate t_exact 512)) = 2%nat /\
  next_dropped t_exact 512 = Some t_exact_next /\
  msg_len t_exact_next = 727 /\ packed_len t_exact_next = Some 727.
Proof. vm_compute. repeat split; reflexivity. Qed.
Lemma t_exact_next_exact : len_exact_compressed t_exact_next.
Proof. intros w H. vm_compute in H. injection H as <-. reflexivity. Qed.

(* the hypothesis on the OPT record cannot be dropped.  An OPT record owned by
   example.org. (not the root) is budgeted at its uncompressed Len, 23, but takes
   12 octets behind the question: Truncate(512) drops the third answer although
   the message with it measures — and packs to — 511 octets.  (The weaker
   condition set_aside_ok, enough for the fit clause, holds here.) *)
Definition t_optn (nm : string) : rr := t_rr nm 41 "OPT" [("Option"%string, V_pairs [])].
Definition t_named : msg :=
  t_msg [t_txt "a.example.org." 200; t_txt "b.example.org." 200; t_txt "c.example.org." 25] [t_optn "example.org."].
Definition t_named_next : msg := the_next t_named 512.
Theorem first_dropped_does_not_fit_refuted :
  has_tsig t_named = false /\ set_aside_ok t_named = true /\ set_aside_exact t_named = false /\
  msg_okb2 t_named = true /\
  length (m_answer (truncate t_named 512)) = 2%nat /\
  next_dropped t_named 512 = Some t_named_next /\
  m_answer t_named_next = m_answer t_named /\ m_extra t_named_next = m_extra t_named /\
  msg_len t_named_next = 511 /\ packed_len t_named_next = Some 511 /\ trunc_size 512 = 512%Z.
Proof. vm_compute. repeat split; reflexivity. Qed.

(* the clause is about the FIRST dropped record only.  Reading it as: no dropped
   record would have fitted — is false twice over:
   (a) a later record of the same section: after the third answer (200 octets
       of text) is dropped, the fourth (5 octets) is dropped too although the two
       kept answers, the fourth and the OPT measure and pack to 494 <= 512;
   (b) a record of a later section: once the answer section lost a record, the
       additional section is not walked at all, so its small TXT record goes
       although the two kept answers, that record and the OPT take 494 octets *)
Definition t_four : msg :=
  t_msg [t_txt "a.example.org." 200; t_txt "b.example.org." 200; t_txt "c.example.org." 200; t_txt "d.example.org." 5]
        [t_opt 0].
Definition t_four_alt : msg :=
  set_sections t_four true true [t_txt "a.example.org." 200; t_txt "b.example.org." 200; t_txt "d.example.org." 5] []
               [t_opt 0].
Definition t_later : msg :=
  t_msg [t_txt "a.example.org." 200; t_txt "b.example.org." 200; t_txt "c.example.org." 200]
        [t_txt "d.example.org." 5; t_opt 0].
Definition t_later_alt : msg :=
  set_sections t_later true true [t_txt "a.example.org." 200; t_txt "b.example.org." 200] []
               [t_txt "d.example.org." 5; t_opt 0].
Theorem every_dropped_record_does_not_fit_refuted :
  (has_tsig t_four = false /\ set_aside_exact t_four = true /\
   length (m_answer (truncate t_four 512)) = 2%nat /\
   msg_len t_four_alt = 494 /\ packed_len t_four_alt = Some 494) /\
  (has_tsig t_later = false /\ set_aside_exact t_later = true /\
   length (m_answer (truncate t_later 512)) = 2%nat /\ m_extra (truncate t_later 512) = [t_opt 0] /\
   msg_len t_later_alt = 494 /\ packed_len t_later_alt = Some 494).
Proof. vm_compute. repeat split; reflexivity. Qed.
