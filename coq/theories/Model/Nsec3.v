(* Model/Nsec3.v — nsecx.go: HashName (RFC 5155 section 5 iterated salted hash
   of the lower-cased owner name in wire form, printed in base32hex), and the
   comparison chains of NSEC3.Cover / NSEC3.Match.  Names are label lists
   (Model/Name.v); Go strings are octet lists compared as Go compares strings.
   The hash function is a Section variable.  Definitions only. *)
From Dns Require Export Base.Bytes Model.Name.
Open Scope N_scope.

(* ---------- Go string comparison (lexicographic on octets) ---------- *)
Fixpoint lex_cmp (a b : bytes) : comparison :=
  match a, b with
  | [], [] => Eq
  | [], _ :: _ => Lt
  | _ :: _, [] => Gt
  | x :: a', y :: b' => match x ?= y with Eq => lex_cmp a' b' | c => c end
  end.
Definition str_lt (a b : bytes) : bool := match lex_cmp a b with Lt => true | _ => false end.
Definition str_gt (a b : bytes) : bool := match lex_cmp a b with Gt => true | _ => false end.
Definition str_eq (a b : bytes) : bool := match lex_cmp a b with Eq => true | _ => false end.

Definition upper (b : N) : N := if (97 <=? b) && (b <=? 122) then b - 32 else b.
Definition upper_bytes (s : bytes) : bytes := map upper s.

(* ---------- base32hex, no padding (RFC 4648 section 7; msg_helpers.go toBase32) ---------- *)
Fixpoint bits_msb (n : nat) (x : N) : list bool :=
  match n with O => [] | S k => N.testbit x (N.of_nat k) :: bits_msb k x end.
Definition bits_of_bytes (l : bytes) : list bool := flat_map (bits_msb 8) l.
Fixpoint val_bits (l : list bool) (acc : N) : N :=
  match l with [] => acc | b :: r => val_bits r (2 * acc + (if b then 1 else 0)) end.
Definition b32char (v : N) : N := if v <? 10 then 48 + v else 55 + v.
Fixpoint group5 (fuel : nat) (l : list bool) : list N :=
  match fuel with
  | O => []
  | S f =>
    match l with
    | [] => []
    | _ => val_bits (firstn 5 (l ++ repeat false 4)) 0 :: group5 f (skipn 5 l)
    end
  end.
Definition b32hex (l : bytes) : bytes :=
  let bs := bits_of_bytes l in map b32char (group5 (length bs) bs).

Section Hash.
  Variable H : bytes -> bytes.    (* SHA-1 in the implementation *)

  (* RFC 5155 section 5:  IH(salt, x, 0) = H(x || salt);
                          IH(salt, x, k) = H(IH(salt, x, k-1) || salt) *)
  Fixpoint IH (salt x : bytes) (k : nat) : bytes :=
    match k with
    | O => H (x ++ salt)
    | S k' => H (IH salt x k' ++ salt)
    end.

  (* the loop of HashName: first digest, then iter more rounds on the accumulator *)
  Fixpoint hash_loop (salt : bytes) (k : nat) (acc : bytes) : bytes :=
    match k with
    | O => acc
    | S k' => hash_loop salt k' (H (acc ++ salt))
    end.
  Definition nsec3_hash (salt : bytes) (iter : N) (name : list label) : bytes :=
    hash_loop salt (N.to_nat iter) (H (wire_name (map lower_bytes name) ++ salt)).

  (* HashName(label, ha, iter, salt): the empty string for another hash
     algorithm, an undecodable salt (None) or a name PackDomainName rejects
     (255-octet buffer). *)
  Definition hash_name (name : list label) (ha iter : N) (salt : option bytes) : bytes :=
    if negb (ha =? 1) then []
    else match salt with
         | None => []
         | Some s => if valid_wire name then b32hex (nsec3_hash s iter name) else []
         end.

  (* ---------- NSEC3 record, Cover, Match ---------- *)
  Record nsec3 := {
    n3_owner : list label;       (* owner name: hash label :: zone labels *)
    n3_alg   : N;
    n3_iter  : N;
    n3_salt  : option bytes;     (* None: salt text that is not valid hex *)
    n3_next  : bytes             (* NextDomain as stored: base32hex text *)
  }.

  Definition label_eq_ci (a b : label) : bool := bytes_eqb (lower_bytes a) (lower_bytes b).
  (* IsSubDomain(zone, name): the zone's labels are the last labels of name, ASCII case-insensitively *)
  Definition in_zone (zone name : list label) : bool :=
    (length zone <=? length name)%nat &&
    list_eqb label_eq_ci zone (skipn (length name - length zone) name).

  (* the text of the first owner label, upper-cased, as Cover/Match cut it out *)
  Definition owner_hash_text (l : label) : bytes := upper_bytes (show_label l).

  Definition match_chain (oh xh : bytes) : bool := str_eq oh xh.

  (* the chain of Cover (after fix be6eb2f: a name hash equal to the owner hash is not covered) *)
  Definition cover_chain (oh nh xh : bytes) : bool :=
    if str_eq oh nh && negb (str_eq xh oh) then true         (* empty interval *)
    else if str_gt oh nh then                                 (* end of zone *)
      (if str_gt xh oh then true else str_lt xh nh)
    else if negb (str_gt xh oh) then false                    (* nameHash <= ownerHash *)
    else str_lt xh nh.

  (* NextDomain is compared in upper case (fix c605f43) *)
  Definition next_hash_text (r : nsec3) : bytes := upper_bytes (n3_next r).

  Definition nsec3_match (r : nsec3) (name : list label) : bool :=
    let xh := hash_name name (n3_alg r) (n3_iter r) (n3_salt r) in
    match n3_owner r with
    | [] | [_] => false                                      (* len(Split(owner)) < 2 *)
    | oh :: zone => if in_zone zone name then match_chain (owner_hash_text oh) xh else false
    end.

  (* Cover is false when the name has no hash (fix 17b14b3) *)
  Definition nsec3_cover (r : nsec3) (name : list label) : bool :=
    let xh := hash_name name (n3_alg r) (n3_iter r) (n3_salt r) in
    match xh with
    | [] => false
    | _ =>
      match n3_owner r with
      | [] | [_] => false
      | oh :: zone => if in_zone zone name then cover_chain (owner_hash_text oh) (next_hash_text r) xh else false
      end
    end.
End Hash.

(* ---------- the specification side ---------- *)
Definition slt (a b : bytes) : Prop := lex_cmp a b = Lt.

(* x lies strictly between o and n going round the circle of hash values; when
   o = n the interval is the whole circle except o itself (RFC 5155 7.1: the
   single NSEC3 RR of a zone with one name). *)
Definition strictly_between_circular (o x n : bytes) : Prop :=
  (slt o n /\ slt o x /\ slt x n) \/
  (slt n o /\ (slt o x \/ slt x n)) \/
  (o = n /\ x <> o).
