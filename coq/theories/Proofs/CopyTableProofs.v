(* Proofs/CopyTableProofs.v — the copy() bodies translated from ztypes.go, edns.go,
   svcb.go and types.go (Gen/Copies.v) are deep for the field types translated
   from the struct definitions (Gen/Structs.v).  Re-checked against the
   regenerated tables on every run. *)
From Dns Require Import Model.Heap Proofs.CopyProofs Gen.Copies Gen.Structs.
Open Scope N_scope.

(* complete check of the finite tables *)
Lemma all_copies_deep : forallb (fun k => deep (proc_of k) (shape_of k)) copy_kinds = true.
Proof. vm_compute. reflexivity. Qed.

Lemma all_dyn_deep :
  forallb (fun k => negb (is_dyn_type k) || deep_nd (proc_of k) (shape_of k)) (map cp_name copies) = true.
Proof. vm_compute. reflexivity. Qed.

Lemma in_copies_In k : in_copies k = true -> In k (map cp_name copies).
Proof.
  unfold in_copies. rewrite existsb_exists. intros [t [Ht He]]. apply String.eqb_eq in He. subst k.
  apply in_map, Ht.
Qed.

Lemma dyn_env_deep : forall t, deep_nd (dyn_env t) (dyn_shape t) = true.
Proof.
  intro t. unfold dyn_env, dyn_shape.
  destruct (is_dyn_type t && in_copies t) eqn:E; [|reflexivity].
  apply andb_prop in E. destruct E as [E1 E2].
  pose proof all_dyn_deep as H. rewrite forallb_forall in H.
  specialize (H t (in_copies_In t E2)). rewrite E1 in H. exact H.
Qed.

(* every record type, EDNS0 option type and SVCB parameter type: the value copy()
   returns contains no cell of the original *)
Theorem copy_is_deep {A} (k : string) (v : hval A) :
  In k copy_kinds -> shape dyn_shape v (shape_of k) ->
  fresh_only (apply dyn_env (proc_of k) v).
Proof.
  intros Hk Hs. apply (deep_fresh dyn_shape dyn_env dyn_env_deep (shape_of k)); [|exact Hs].
  pose proof all_copies_deep as H. rewrite forallb_forall in H. apply H, Hk.
Qed.

(* non-vacuity: an OPT record holding a SUBNET option (address slice), and an
   SVCB record holding an ipv4hint parameter ([]net.IP), with every cell
   numbered; after copy() only fresh cells remain *)
Example copy_example :
  let subnet := HDyn "EDNS0_SUBNET" (HCell 3%nat [HLeaf; HLeaf; HLeaf; HLeaf; HCell 4%nat [HLeaf; HLeaf; HLeaf; HLeaf]]) in
  let opt := HCell 1%nat [HLeaf; HCell 2%nat [subnet]] in
  In "OPT"%string copy_kinds /\ shape dyn_shape opt (shape_of "OPT") /\
  ids (apply dyn_env (proc_of "OPT") opt) = [inr tt; inr tt; inr tt; inr tt].
Proof.
  cbn zeta. split; [vm_compute; tauto|]. split.
  - vm_compute. repeat constructor.
  - vm_compute. reflexivity.
Qed.
