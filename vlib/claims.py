"""Which properties MANIFEST.json claims, with the level text and technique."""
CLAIMED = {
    "C19": dict(
        text="Coq theorems for all printed names (any number of labels, any octets): CountLabel, Split, NextLabel, Fqdn, "
             "CanonicalName, IsFqdn agree with the wire label sequence; model of labels.go/dnsutil tied to /repo by "
             "vm_compute correspondence on bounded-exhaustive and random names each run; remaining helpers by "
             "correspondence and direct oracle",
        technique="machine-checked proof in Coq (induction over label lists, escape-parity automaton) + model/implementation correspondence by vm_compute"),
    "C03": dict(
        text="Coq theorems about an executable model of packDomainName/UnpackDomainName/IsDomainName; model tied to /repo "
             "by vm_compute correspondence (limits 63/255, all octets, all escape spellings, pointer chains) each run",
        technique="machine-checked proof in Coq (structural induction on presentation strings and label lists) + model/implementation correspondence by vm_compute"),
}
CLAIMED["C01"] = dict(
    text="Per-type field sequences regenerated from zmsg.go on every run and interpreted by a Coq model of the field "
         "codecs; Coq theorems over all layouts/values (see Props/C01.v), incl. value->wire->value for every field kind, every field sequence and every record of all 81 translated layouts (RFC 1035 record octets made explicit) and wire->value->wire for 70 types (partial); model tied to /repo by the translator plus "
         "vm_compute correspondence of pack octets, unpacked values and lengths for every registered type each run; EDNS0 option and "
         "SVCB parameter codecs additionally modelled at Go struct level (Model/OptVal.v, OptValUnpack.v): value->wire->value up to the "
         "decoder's normal form, agreement with the octet-level views, refuted witnesses for the non-canonical values; compared with the "
         "real unpack()/pack() on generated values and raw octets every run",
    technique="machine-checked proof in Coq over translator-regenerated layout tables + model/implementation correspondence by vm_compute")
CLAIMED["C09"] = dict(
    text="Coq theorems about an executable model of Msg.Truncate/truncateLoop/popEdns0 (section prefixes, OPT retained, TC "
         "iff dropped, no later section after a drop, fitting and TSIG messages untouched); the fit clause rests on C08; "
         "model tied to /repo by vm_compute correspondence at the exact packed length of every prefix +-1 each run",
    technique="machine-checked proof in Coq (case analysis over truncateLoop, induction over record lists) + model/implementation correspondence by vm_compute")
CLAIMED["C17"] = dict(
    text="Coq theorems (hash functions as section variables): key tag = RFC 4034 App. B for RDATA of any length, DS digest "
         "input, NSEC3 hash recursion and case independence, Match/Cover iff (circular strict betweenness, only inside the "
         "zone), ValidityPeriod = plain comparison, RSA/ECDSA key encodings and BIND private-key text round trip; model tied "
         "to /repo by vm_compute correspondence incl. an executable SHA-1/SHA-256 in Coq; recorded findings in known_findings.json",
    technique="machine-checked proof in Coq (loop invariants, induction over iterations/labels) + model/implementation correspondence by vm_compute")
CLAIMED["C10"] = dict(
    text="Coq theorems over an executable model of rawSignatureData/Sign/Verify with the signature primitive as a section "
         "variable: canonical form invariance (order, duplicates, TTL, case, wildcard), sign-verify, verify soundness with all "
         "pre-checks, injectivity of the signed octets (any alteration fails under the stated idealisation); model tied to /repo "
         "by vm_compute correspondence on the hooked rawSignatureData and independent crypto on the model's octets",
    technique="machine-checked proof in Coq (permutation/sorting lemmas, unique parsing of the signed octets) + model/implementation correspondence by vm_compute")
CLAIMED["C16"] = dict(
    text="Coq theorem: a copy procedure that is deep for the shape of a value leaves no cell of the original in the copy "
         "(trees of mutable memory, any size); the copy() body and struct definition of every record, EDNS0 option and SVCB "
         "parameter type are regenerated from /repo each run and checked deep by the kernel; dynamic address-range and "
         "write-visibility oracles on the implementation; unpack-aliasing and read-only clauses by harness observation (partial)",
    technique="machine-checked proof in Coq (nested induction over shapes) over translator-regenerated copy tables + reflect/unsafe aliasing oracle")
CLAIMED["C14"] = dict(
    text="Coq theorems over executable models of serveDNS (any accept policy, decoder outcome, transport), defaultMsgAcceptFunc "
         "(case analysis over the whole header space), ServeMux.match (longest suffix on label boundaries, DS rule as coded, root "
         "last resort, REFUSED) and the reply skeletons; models tied to /repo by vm_compute correspondence through the hooked "
         "serveDNS/match on exhaustive header combinations and pattern sets each run",
    technique="machine-checked proof in Coq (case analysis, induction over label boundaries) + model/implementation correspondence by vm_compute")
CLAIMED["C12"] = dict(
    text="Coq theorems: stream re-framing for every list of messages and EVERY segmentation (induction, no size bound), oversize "
         "refused, short streams never yield partial messages, ID matching over stream and datagram exchanges, buffer-pool "
         "transition system never lets a handler see another request's octets; models tied to /repo by scripted net.Conn / "
         "PacketConn correspondence; cross-talk under real concurrency by runtime observation (partial)",
    technique="machine-checked proof in Coq (induction over chunkings, invariant over the pool LTS) + model/implementation correspondence by vm_compute")
CLAIMED["C05"] = dict(
    text="Coq theorems over models of the printers, the one-line lexer, type/class mnemonic tables (every code point), the "
         "RFC 3597 generic form and a presentation grammar with layouts for 70 of the 74 presentable types (RRSIG/SIG times with the "
         "clock as a parameter, NSEC3, CAA, NAPTR, CERT mnemonics, EUI/NID spellings, AAAA with the full net.IP.String / netip "
         "IPv6 text model, HIP, IPSECKEY / AMTRELAY with their type-dependent gateway included): printed text is re-read to the "
         "same fields (any octets, any length); 4 types (LOC, APL, SVCB, HTTPS) by direct oracle only (partial); models tied to /repo by "
         "vm_compute correspondence and NewRR(String()) oracles on records from wire and from text for every type each run; "
         "48 recorded findings in known_findings.json",
    technique="machine-checked proof in Coq (induction over octet strings and grammars, exhaustive code-point sweeps) + model/implementation correspondence by vm_compute")
CLAIMED["C11"] = dict(
    text="Coq theorems over an octet-level model of TsigGenerate/tsigVerify/tsigBuffer/stripTsig with HMAC as a section variable: "
         "digest input = RFC 8945 4.3 layout, generate-verify, verify succeeds iff MAC/key/algorithm/time conditions, "
         "no-TSIG never verified, digest injectivity, envelope chains; model tied to /repo by vm_compute correspondence on the "
         "hooked tsigBuffer and independent crypto/hmac over the model's octets",
    technique="machine-checked proof in Coq (octet walkers with checked slicing, injectivity of the digest layout) + model/implementation correspondence by vm_compute")
CLAIMED["C18"] = dict(
    text="Coq theorems over an octet-level model of SIG.Sign/SIG.Verify with the signature scheme as a section variable: "
         "sign layout, sign succeeds for any compression setting, sign-verify for any ARCOUNT, verify soundness, no panic on any "
         "input of at least header size, injectivity of the signed data; model tied to /repo by vm_compute correspondence incl. all "
         "truncations and bit flips of signed messages",
    technique="machine-checked proof in Coq (checked slicing, case analysis of every offset computation) + model/implementation correspondence by vm_compute")
CLAIMED["C15"] = dict(
    text="Coq theorems over state-machine models of inAxfr/inIxfr: exact delivery for EVERY split of the record stream into envelopes "
         "(RFC 5936 / RFC 1995 incl. up-to-date and AXFR fallback), error cases, TSIG chain as a section variable (complete implies "
         "all verified); models tied to /repo by scripted Transfer.In correspondence over all compositions of small zones with faults",
    technique="machine-checked proof in Coq (induction over envelope splits) + model/implementation correspondence by vm_compute")
CLAIMED["C13"] = dict(
    text="Coq invariants over a labelled transition system of Server start/serve/shutdown (any number of connections, requests, "
         "callers): shutdown returns only after handlers, no handler after shutdown returned, serve returns nil, double start / "
         "unstarted shutdown error, no stuck reader, progress; tied to /repo by trace acceptance of real event logs from scripted "
         "listeners; goroutine leaks and data races are runtime facts (partial)",
    technique="machine-checked proof in Coq (invariant preserved by every LTS step) + trace acceptance of implementation event logs by vm_compute")
CLAIMED["C07"] = dict(
    text="Coq theorems over models of zlexer and ZoneParser: buffer writes in range for every text, linear token count, sticky first "
         "error, $GENERATE range bound, nested $GENERATE rejected, no file opened unless includes are allowed, include depth bound "
         "(any file system, self-including files); models tied to /repo by token-stream and parse-event correspondence on hostile "
         "text; allocation measured, not proved (partial)",
    technique="machine-checked proof in Coq (structural recursion on the input, include-depth measure) + model/implementation correspondence by vm_compute")
CLAIMED["C06"] = dict(
    text="Coq theorems: the parser model refines the RFC 1035 5.1 denotation of abstract zones (owner/TTL/class inheritance, $ORIGIN, "
         "$TTL, name completion, TTL units), $GENERATE expansion, $INCLUDE splice keeps the includer's origin; from TEXT: the lexer "
         "model turns every rendering of a zone (single blanks, or any layout of blanks, tabs, parentheses over several lines, CR, "
         "trailing comments) into tokens realizing the zone's skeleton, hence parser(lexer(text)) = the denoted records; richer "
         "layouts by equivalence oracle; models tied to /repo by vm_compute correspondence over random zones x equivalent renderings",
    technique="machine-checked proof in Coq (refinement of a denotational fold by the parser state machine) + model/implementation correspondence by vm_compute")
CLAIMED["C02"] = dict(
    text="Coq theorems for EVERY octet string (no length bound): the name decoder, every generated RDATA decoder (any field "
         "sequence), UnpackRR and Msg.Unpack never panic and never exhaust iteration budgets that are fixed multiples of the "
         "input length; accepted names respect 63/255; accepted sections hold at most one record per input octet whatever the "
         "counts claim; model tied to /repo by vm_compute correspondence on truncations, mutations, pointer graphs, lying counts; "
         "real allocation and time measured by the harness (partial)",
    technique="machine-checked proof in Coq (termination measures, checked slicing, induction over layouts) + model/implementation correspondence by vm_compute")
CLAIMED["C04"] = dict(
    text="Coq theorems about the packer's compression map (every entry is the text of a suffix laid, through valid pointers, at an "
         "earlier offset below 16384 that holds a label octet), for every state and every message: packDomainName only appends, lays "
         "exactly the labels of its argument (any laid name of at most 255 octets needs at most 127 hops and is decoded by "
         "UnpackDomainName), emits pointers only to such suffixes, is never longer than the plain form; lifted through every field "
         "codec, packRR with its RDLENGTH patch and Pack: compressed output never longer, all names laid, and Msg.Unpack of the "
         "compressed and of the uncompressed packing accepts both and returns the same header, questions and records (modulo "
         "Rdlength); compress flags of the tables regenerated from zmsg.go: only and all RFC 1035 types compress RDATA names; "
         "model tied to /repo by the translator plus vm_compute correspondence (octets AND final map contents)",
    technique="machine-checked proof in Coq (compression-map invariant, holes device for the RDLENGTH patch) over translator-regenerated layouts + model/implementation correspondence by vm_compute")
CLAIMED["C20"] = dict(
    text="Coq theorems, generic in the comparison lists regenerated from zduplicate.go on every run: the lists are well formed "
         "(vm_compute over the whole table), hence IsDuplicate never panics and is symmetric and transitive on all records, reflexive "
         "on every type except OPT and private types (refuted there: known findings), ignores TTL, owner case and the case of every "
         "embedded wire name, compares every packed field (cross-check against the zmsg.go layouts), and two names are equal iff their "
         "lower-cased wire forms are; Dedup = first occurrence per key, in order, with the minimum TTL of the group; normalizedString "
         "cuts the TTL and lower-cases the owner; for records from the wire with complete, canonically encoded RDATA (every type but OPT) "
         "IsDuplicate holds exactly when type, class, lower-cased owner and name-lower-cased uncompressed RDATA octets are equal, with "
         "refuting octets for each lenient encoding; model tied to /repo by the translator plus vm_compute correspondence",
    technique="machine-checked proof in Coq over translator-regenerated comparison tables + model/implementation correspondence by vm_compute")
CLAIMED["C08"] = dict(
    text="Coq theorems for ALL records and messages over the pack sequences and len() terms regenerated from zmsg.go/ztypes.go on "
         "every run: the two tables are aligned for every type (vm_compute over the whole tables), hence Len(rr) >= octets packRR "
         "writes; Msg.Len() >= len(Pack()) uncompressed and, through a joint invariant between compressionLenSearch's suffix set "
         "and the packer's compression map, compressed; equality for escape-free records/messages of the 16 common types; "
         "PackBuffer's result does not depend on the buffer length, never fails for lack of room (classes buf/overflow excluded, "
         "no panic), and uses the caller's buffer exactly when it is larger than the uncompressed length; option / parameter len() >= pack() "
         "is PROVED (with equality) for the 16 EDNS0 option types and 10 SVCB value types modelled at Go struct level "
         "(Model/OptVal.v, compared with the real pack()/len() on generated values every run) and remains a harness-checked "
         "hypothesis only for user-defined implementations of those interfaces; model tied to /repo by the translator plus vm_compute "
         "correspondence of Len and PackBuffer results",
    technique="machine-checked proof in Coq (alignment of translator-regenerated tables + compression-map invariant) + model/implementation correspondence by vm_compute")
NOT_YET = {}
