(* Proofs/ServerLtsProofs.v — invariants of the server life-cycle LTS for all
   reachable states (any number of connections, requests, callers), and what
   they give: Shutdown returns only after every handler returned, no handler
   after Shutdown returned, serve returns nil, double start / shutdown of an
   unstarted server fail without blocking, no reader stays blocked, progress. *)
From Coq Require Import Lia.
From Dns Require Import Model.ServerLts.
Open Scope nat_scope.

(* ------------------------------------------------------------ list helpers *)
Definition active (l : list worker) : nat := length (filter (fun w => negb (wdone w)) l).
Definition reading (w : worker) : bool := match w_pc w with CSetDl | CRead => true | _ => false end.
Definition serve_closed (p : spc) : bool := match p with SClosing _ | SReturned _ => true | _ => false end.
Definition serve_val (p : spc) : option retv :=
  match p with SDrain v | SClosing v | SReturned v => Some v | _ => None end.

Lemma is_running_true s : is_running s = true -> ph s = Running.
Proof. unfold is_running. destruct (ph s); congruence. Qed.
Lemma is_running_false s : is_running s = false -> ph s <> Running.
Proof. unfold is_running. destruct (ph s); congruence. Qed.

Lemma wstep_inv s c from g f s' :
  wstep s c from g f = Some s' ->
  exists w, find_w c (workers s) = Some w /\ w_pc w = from /\ g w = true /\
            s' = set_workers s (upd_w c f (workers s)) /\ from <> CDone.
Proof.
  unfold wstep. destruct (find_w c (workers s)) as [w|]; [|discriminate].
  destruct (w_pc w) eqn:Hp, from; try discriminate;
    (destruct (g w) eqn:Hg; [|discriminate]); intros H; inversion H; exists w; repeat split; congruence.
Qed.

Lemma find_w_some c l w : find_w c l = Some w -> In w l /\ w_id w = c.
Proof.
  induction l as [|x l IH]; cbn; [discriminate|].
  destruct (Nat.eqb (w_id x) c) eqn:E.
  - intros H; inversion H; subst. apply Nat.eqb_eq in E. auto.
  - intros H. destruct (IH H). auto.
Qed.

Lemma find_w_none c l : find_w c l = None -> ~ In c (map w_id l).
Proof.
  induction l as [|x l IH]; cbn; [auto|].
  destruct (Nat.eqb (w_id x) c) eqn:E; [discriminate|].
  intros H [H1|H1]; [apply Nat.eqb_neq in E; congruence|]. apply IH; assumption.
Qed.

Lemma find_w_in l w : NoDup (map w_id l) -> In w l -> find_w (w_id w) l = Some w.
Proof.
  induction l as [|x l IH]; cbn; intros Hn Hi; [contradiction|].
  inversion Hn; subst. destruct Hi as [->|Hi]; [rewrite Nat.eqb_refl; reflexivity|].
  destruct (Nat.eqb (w_id x) (w_id w)) eqn:E.
  - apply Nat.eqb_eq in E. exfalso. apply H1. rewrite E. apply in_map. assumption.
  - apply IH; assumption.
Qed.

Definition keeps_id (f : worker -> worker) : Prop := forall w, w_id (f w) = w_id w.

Lemma upd_w_ids c f l : keeps_id f -> map w_id (upd_w c f l) = map w_id l.
Proof.
  intros Hf. induction l as [|x l IH]; cbn; [reflexivity|].
  destruct (Nat.eqb (w_id x) c); cbn; [rewrite Hf; reflexivity|rewrite IH; reflexivity].
Qed.

Lemma upd_w_forall (P : worker -> Prop) c f l :
  Forall P l -> (forall w, find_w c l = Some w -> P w -> P (f w)) -> Forall P (upd_w c f l).
Proof.
  induction l as [|x l IH]; cbn; intros HF Hf; [constructor|].
  inversion HF; subst. destruct (Nat.eqb (w_id x) c) eqn:E.
  - constructor; [apply Hf; [reflexivity|assumption]|assumption].
  - constructor; [assumption|]. apply IH; [assumption|]. intros w Hw. apply Hf. assumption.
Qed.

Lemma upd_w_find_other c c' f l : keeps_id f -> c' <> c -> find_w c' (upd_w c f l) = find_w c' l.
Proof.
  intros Hf Hn. induction l as [|x l IH]; cbn; [reflexivity|].
  destruct (Nat.eqb (w_id x) c) eqn:E; cbn.
  - rewrite Hf. apply Nat.eqb_eq in E. replace (Nat.eqb (w_id x) c') with false; [reflexivity|].
    symmetry. apply Nat.eqb_neq. congruence.
  - destruct (Nat.eqb (w_id x) c'); [reflexivity|apply IH].
Qed.

Lemma upd_w_find_none c c' f l : keeps_id f -> find_w c' l = None -> find_w c' (upd_w c f l) = None.
Proof.
  intros Hf. induction l as [|x l IH]; cbn; [reflexivity|].
  destruct (Nat.eqb (w_id x) c') eqn:E'; [discriminate|]. intros H.
  destruct (Nat.eqb (w_id x) c) eqn:E; cbn; [rewrite Hf, E'; assumption|rewrite E'; apply IH; assumption].
Qed.

Lemma upd_w_find_same c f l w : keeps_id f -> find_w c l = Some w -> find_w c (upd_w c f l) = Some (f w).
Proof.
  intros Hf. induction l as [|x l IH]; cbn; [discriminate|].
  destruct (Nat.eqb (w_id x) c) eqn:E; cbn.
  - intros H; inversion H; subst. rewrite Hf, E. reflexivity.
  - rewrite E. apply IH.
Qed.

Lemma active_upd_same c f l w :
  find_w c l = Some w -> wdone (f w) = wdone w -> active (upd_w c f l) = active l.
Proof.
  unfold active. induction l as [|x l IH]; cbn; [discriminate|].
  destruct (Nat.eqb (w_id x) c) eqn:E; cbn.
  - intros H Hd; inversion H; subst. rewrite Hd. destruct (negb (wdone w)); reflexivity.
  - intros H Hd. destruct (negb (wdone x)); cbn; rewrite (IH H Hd); reflexivity.
Qed.

Lemma active_upd_done c f l w :
  find_w c l = Some w -> wdone w = false -> wdone (f w) = true -> active l = S (active (upd_w c f l)).
Proof.
  unfold active. induction l as [|x l IH]; cbn; [discriminate|].
  destruct (Nat.eqb (w_id x) c) eqn:E; cbn.
  - intros H H1 H2; inversion H; subst. rewrite H1, H2. reflexivity.
  - intros H H1 H2. destruct (negb (wdone x)); cbn; rewrite (IH H H1 H2); reflexivity.
Qed.

Lemma active_app l w : active (l ++ [w]) = active l + (if wdone w then 0 else 1).
Proof.
  unfold active. rewrite filter_app, app_length. cbn. destruct (wdone w); reflexivity.
Qed.

Lemma active_map_dl l : active (map (fun w => mkW (w_id w) (w_pc w) true) l) = active l.
Proof.
  unfold active. induction l as [|x l IH]; cbn [map filter]; [reflexivity|].
  replace (wdone (mkW (w_id x) (w_pc x) true)) with (wdone x) by reflexivity.
  destruct (negb (wdone x)); cbn [length]; rewrite IH; reflexivity.
Qed.

Lemma active_zero l : active l = 0 -> Forall (fun w => wdone w = true) l.
Proof.
  unfold active. induction l as [|x l IH]; cbn; [constructor|].
  destruct (wdone x) eqn:E; cbn; [|discriminate]. intros H. constructor; auto.
Qed.

Lemma active_pos l : active l <> 0 -> exists w, In w l /\ wdone w = false.
Proof.
  unfold active. induction l as [|x l IH]; cbn; [congruence|].
  destruct (wdone x) eqn:E; cbn.
  - intros H. destruct (IH H) as [w [Hi Hd]]. eauto.
  - intros _. eauto.
Qed.

Lemma NoDup_app_snoc {A} (l : list A) x : NoDup l -> ~ In x l -> NoDup (l ++ [x]).
Proof.
  intros Hn Hx. induction l as [|y l IH]; cbn; [constructor; [auto|constructor]|].
  inversion Hn; subst. constructor.
  - intros Hi. apply in_app_or in Hi. destruct Hi as [Hi|[Hi|[]]]; [auto|]. subst. apply Hx. left. reflexivity.
  - apply IH; [assumption|]. intros Hi. apply Hx. right. assumption.
Qed.
Lemma map_id_w (l : list worker) : map (fun x => w_id x) l = map w_id l.
Proof. reflexivity. Qed.
Lemma find_w_map_dl c l : find_w c (map (fun w => mkW (w_id w) (w_pc w) true) l) = None <-> find_w c l = None.
Proof.
  induction l as [|x l IH]; cbn; [tauto|].
  destruct (Nat.eqb (w_id x) c); [split; discriminate|exact IH].
Qed.

(* association lists *)
Lemma upd_a_in {A} k (a : A) l x : In x (upd_a k a l) -> x = (k, a) \/ In x l.
Proof.
  induction l as [|[k' a'] l IH]; cbn; [auto|].
  destruct (Nat.eqb k' k) eqn:E; cbn.
  - apply Nat.eqb_eq in E. subst. intros [H|H]; auto.
  - intros [H|H]; auto. destruct (IH H); auto.
Qed.
Lemma find_a_in {A} k (l : list (nat * A)) a : find_a k l = Some a -> In (k, a) l.
Proof.
  induction l as [|[k' a'] l IH]; cbn; [discriminate|].
  destruct (Nat.eqb k' k) eqn:E; [apply Nat.eqb_eq in E; intros H; inversion H; subst; auto|auto].
Qed.
Lemma find_a_upd {A} k (a a0 : A) l : find_a k l = Some a0 -> find_a k (upd_a k a l) = Some a.
Proof.
  induction l as [|[k' a'] l IH]; cbn; [discriminate|].
  destruct (Nat.eqb k' k) eqn:E; cbn; rewrite E; [reflexivity|assumption].
Qed.
(* an entry that is not the one being updated stays *)
Lemma upd_a_keeps {A} k (a : A) l x a0 :
  In x l -> find_a k l = Some a0 -> x <> (k, a0) -> In x (upd_a k a l).
Proof.
  induction l as [|[k' a'] l IH]; cbn; [contradiction|].
  destruct (Nat.eqb k' k) eqn:E; cbn.
  - apply Nat.eqb_eq in E. subst. intros [H|H] Hf Hn; [inversion Hf; subst; congruence|auto].
  - intros [H|H] Hf Hn; [auto|right; apply IH; assumption].
Qed.

(* --------------------------------------------------------------- case tactic *)
Ltac inv_step H :=
  match type of H with
  | step ?s ?l = Some ?s' =>
    destruct l; cbn [step] in H;
    repeat match type of H with
    | wstep _ _ _ _ _ = Some _ =>
      apply wstep_inv in H;
      let w := fresh "w" in let Hf := fresh "Hf" in let Hpc := fresh "Hpc" in
      let Hg := fresh "Hg" in let Hs := fresh "Hs" in let Hnd := fresh "Hnd" in
      destruct H as (w & Hf & Hpc & Hg & Hs & Hnd); subst s'
    | match wstep ?a ?b ?c ?d ?e with _ => _ end = Some _ =>
      let Hw := fresh "Hw" in
      destruct (wstep a b c d e) eqn:Hw; [|discriminate];
      apply wstep_inv in Hw;
      let w := fresh "w" in let Hf := fresh "Hf" in let Hpc := fresh "Hpc" in
      let Hg := fresh "Hg" in let Hs := fresh "Hs" in let Hnd := fresh "Hnd" in
      destruct Hw as (w & Hf & Hpc & Hg & Hs & Hnd)
    | match ?x with _ => _ end = Some _ => let E := fresh "E" in destruct x eqn:E; try discriminate
    | (if ?x then _ else _) = Some _ => let E := fresh "E" in destruct x eqn:E; try discriminate
    | Some _ = Some _ => inversion H; subst; clear H
    end
  end.

(* ------------------------------------------------------------- the invariant *)
Record Inv (s : state) : Prop := mkInv {
  i_wg : wg s = active (workers s);
  i_nodup : NoDup (map w_id (workers s));
  i_got : forall c, serve s = SGot c -> find_w c (workers s) = None;
  i_none : serve s = SNone -> ph s = Fresh;
  i_fresh : ph s = Fresh -> serve s = SNone;
  i_stop_l : ph s = Stopping -> lclosed s = true;
  i_stop_w : ph s = Stopping -> Forall (fun w => reading w = true -> w_dl w = true) (workers s);
  i_stop_u : ph s = Stopping -> (serve s = SSetDl \/ serve s = SRead) -> pcdl s = true;
  i_val : forall v, serve_val (serve s) = Some v -> v = RErr -> fatal s = true;
  i_exit : forall v, serve_val (serve s) = Some v -> ph s = Running -> fatal s = true;
  i_shut : shut s = serve_closed (serve s);
  i_shut_w : shut s = true -> Forall (fun w => wdone w = true) (workers s);
  i_sd_wait : forall j, In (j, SdWaiting) (sds s) \/ In (j, SdExpired) (sds s) -> ph s = Stopping;
  i_sd_done : forall j, In (j, SdDone ResNil) (sds s) -> shut s = true;
  i_chkf : serve s = SErrChkF -> fatal s = true
}.

Lemma inv_init m : Inv (init m).
Proof.
  constructor; cbn; try congruence; try constructor; try (intros; discriminate).
  - intros j [[]|[]].
  - intros j [].
Qed.

(* ------------------------------------------------------------ preservation *)
Ltac norm :=
  repeat match goal with
  | H : context [if is_running ?s then _ else _] |- _ => let E := fresh "Er" in destruct (is_running s) eqn:E
  | |- context [if is_running ?s then _ else _] => let E := fresh "Er" in destruct (is_running s) eqn:E
  | |- context [match md ?s with TCP => _ | UDP => _ end] => let E := fresh "Em" in destruct (md s) eqn:E
  end;
  cbn [md ph lclosed pcdl serve workers wg shut sds sts fatal set_serve set_workers set_wg set_sds set_sts
       set_pcdl set_shut set_fatal set_ph do_shutdown serve_val serve_closed] in *.

Ltac running_facts :=
  repeat match goal with
  | H : is_running ?s = true |- _ => apply is_running_true in H
  | H : is_running ?s = false |- _ => apply is_running_false in H
  end.

Ltac triv :=
  try solve [ assumption | congruence | discriminate | intros; discriminate | intros; congruence
            | intros ? ?; discriminate | auto ].

Ltac kid := let w := fresh in intros w; reflexivity.

Section Pres.
  Variables (s s' : state) (l : label).
  Hypothesis HI : Inv s.
  Hypothesis H : step s l = Some s'.

  Lemma pres_wg : wg s' = active (workers s').
  Proof.
    destruct HI as [Iwg Ind Igot Inone Ifresh Istopl Istopw Istopu Ival Iexit Ishut Ishutw Isdw Isdd Ichkf].
    revert H. intros H0. inv_step H0; norm; triv.
    all: try solve [ rewrite (active_upd_same _ _ _ _ Hf); [exact Iwg | unfold wdone; cbn; rewrite Hpc; reflexivity] ].
    - (* SSpawn TCP *) rewrite active_app. cbn. lia.
    - rewrite active_app. cbn. lia.
    - (* WFinish *) rewrite Iwg, (active_upd_done _ (set_pc CDone) _ _ Hf); [reflexivity| unfold wdone; rewrite Hpc; reflexivity | reflexivity].
    - (* SdAtomic *) rewrite active_map_dl. exact Iwg.
  Qed.

  Ltac start_pres H0 :=
    destruct HI as [Iwg Ind Igot Inone Ifresh Istopl Istopw Istopu Ival Iexit Ishut Ishutw Isdw Isdd Ichkf];
    revert H; intros H0; inv_step H0; norm; running_facts; triv.

  Lemma pres_nodup : NoDup (map w_id (workers s')).
  Proof.
    start_pres H0.
    all: try solve [ rewrite upd_w_ids; [assumption|kid] ].
    - rewrite map_app. cbn. apply NoDup_app_snoc; [assumption|]. apply find_w_none, Igot. reflexivity.
    - rewrite map_app. cbn. apply NoDup_app_snoc; [assumption|]. apply find_w_none, Igot. reflexivity.
    - rewrite map_map. cbn. rewrite map_id_w. assumption.
  Qed.

  Lemma pres_got : forall c, serve s' = SGot c -> find_w c (workers s') = None.
  Proof.
    start_pres H0.
    all: try solve [ intros c0 Hc0; apply upd_w_find_none; [kid|apply Igot; first [assumption|reflexivity|congruence]] ].
    all: try solve [ intros c0 Hc0; inversion Hc0; subst; assumption ].
    all: try solve [ intros c0 Hc0; rewrite find_w_map_dl; apply Igot; first [assumption|reflexivity|congruence] ].
  Qed.

  Lemma pres_none : serve s' = SNone -> ph s' = Fresh.
  Proof. start_pres H0. all: try solve [intros Hx; specialize (Inone Hx); congruence].
  Qed.

  Lemma pres_fresh : ph s' = Fresh -> serve s' = SNone.
  Proof.
    start_pres H0.
    all: try solve [ intros Hp; apply Ifresh in Hp; congruence ].
  Qed.

  Lemma pres_stop_l : ph s' = Stopping -> lclosed s' = true.
  Proof. start_pres H0. Qed.

  Lemma pres_stop_w : ph s' = Stopping -> Forall (fun w => reading w = true -> w_dl w = true) (workers s').
  Proof.
    start_pres H0.
    all: try solve [ intros Hp; apply upd_w_forall; [apply Istopw; assumption|];
                     let w' := fresh "w'" in let Hw' := fresh "Hw'" in let HP := fresh "HP" in
                     intros w' Hw' HP; try exact HP; unfold reading; cbn; try discriminate; try congruence;
                     (try (intros _; assert (w' = w) by congruence; subst w'; apply HP; unfold reading; rewrite Hpc; reflexivity)) ].
    all: try solve [ intros Hp; apply Forall_app; split; [apply Istopw; assumption|]; constructor; [|constructor]; cbn; discriminate ].
    all: try solve [ intros _; apply Forall_forall; intros x Hx; apply in_map_iff in Hx; destruct Hx as [y [<- _]]; reflexivity ].
  Qed.

  Lemma pres_stop_u : ph s' = Stopping -> (serve s' = SSetDl \/ serve s' = SRead) -> pcdl s' = true.
  Proof.
    start_pres H0; running_facts.
    all: try solve [ intros Hp [Hx|Hx]; try discriminate; try congruence; apply Istopu; auto ].
    all: try solve [ intros Hp Hx; apply Istopu; auto ].
  Qed.

  Lemma pres_val : forall v, serve_val (serve s') = Some v -> v = RErr -> fatal s' = true.
  Proof.
    start_pres H0.
    all: try solve [ intros v0 Hv He; inversion Hv; subst; try discriminate; eapply Ival; eauto; rewrite ?E; reflexivity ].
    all: try solve [ intros v0 Hv He; apply Ichkf; reflexivity ].
  Qed.

  Lemma pres_exit : forall v, serve_val (serve s') = Some v -> ph s' = Running -> fatal s' = true.
  Proof.
    start_pres H0; running_facts.
    all: try solve [ intros v0 Hv He; try discriminate; try congruence; eapply Iexit; eauto; rewrite ?E; reflexivity ].
    all: try solve [ intros v0 Hv He; apply Ifresh in E1; congruence ].
  Qed.

  Lemma pres_shut : shut s' = serve_closed (serve s').
  Proof.
    start_pres H0. all: try solve [ rewrite Ishut, ?E; reflexivity ].
    all: try solve [ rewrite Ishut, (Ifresh eq_refl); reflexivity ].
  Qed.

  Lemma pres_shut_w : shut s' = true -> Forall (fun w => wdone w = true) (workers s').
  Proof.
    start_pres H0.
    all: try solve [ intros Hs; exfalso; pose proof (Ishutw Hs) as HF; rewrite Forall_forall in HF;
                     apply find_w_some in Hf; destruct Hf as [Hin _]; specialize (HF _ Hin);
                     unfold wdone in HF; rewrite Hpc in HF; discriminate ].
    all: try solve [ intros Hs; rewrite Ishut, ?E in Hs; discriminate ].
    - (* SWaitDone *) intros _. apply active_zero. apply Nat.eqb_eq in E0. congruence.
    - (* SdAtomic *) intros Hs. specialize (Ishutw Hs). apply Forall_forall. intros x Hx.
      apply in_map_iff in Hx. destruct Hx as [y [<- Hy]]. rewrite Forall_forall in Ishutw. apply (Ishutw _ Hy).
  Qed.

  Lemma pres_sd_wait : forall j, In (j, SdWaiting) (sds s') \/ In (j, SdExpired) (sds s') -> ph s' = Stopping.
  Proof.
    start_pres H0.
    all: try solve [ intros j0 Hj; specialize (Isdw _ Hj); congruence ].
    all: try solve [ intros j0 [Hj|Hj]; (apply in_app_or in Hj; destruct Hj as [Hj|[Hj|[]]]; [|discriminate]); eapply Isdw; eauto ].
    all: try solve [ intros j0 [Hj|Hj]; apply upd_a_in in Hj; destruct Hj as [Hj|Hj];
                     first [ discriminate | solve [eapply Isdw; eauto]
                           | solve [apply find_a_in in E; eapply Isdw; eauto] ] ].
  Qed.

  Lemma pres_sd_done : forall j, In (j, SdDone ResNil) (sds s') -> shut s' = true.
  Proof.
    start_pres H0.
    all: try solve [ intros j0 Hj; apply in_app_or in Hj; destruct Hj as [Hj|[Hj|[]]]; [|discriminate]; eapply Isdd; eauto ].
    all: try solve [ intros j0 Hj; apply upd_a_in in Hj; destruct Hj as [Hj|Hj]; try discriminate; try assumption; eapply Isdd; eauto ].
    all: try solve [ intros j0 Hj; rewrite ?Ishut, ?E; try reflexivity; eapply Isdd; eauto ].
  Qed.

  Lemma pres_chkf : serve s' = SErrChkF -> fatal s' = true.
  Proof. start_pres H0. Qed.

  Lemma inv_step : Inv s'.
  Proof.
    constructor.
    - apply pres_wg. - apply pres_nodup. - apply pres_got. - apply pres_none. - apply pres_fresh.
    - apply pres_stop_l. - apply pres_stop_w. - apply pres_stop_u. - apply pres_val. - apply pres_exit.
    - apply pres_shut. - apply pres_shut_w. - apply pres_sd_wait. - apply pres_sd_done. - apply pres_chkf.
  Qed.
End Pres.

(* --------------------------------------------------------- reachable states *)
Lemma inv_run ls : forall s s', Inv s -> run s ls = Some s' -> Inv s'.
Proof.
  induction ls as [|l ls IH]; cbn; intros s s' HI H.
  - inversion H; subst; assumption.
  - destruct (step s l) as [s1|] eqn:E; [|discriminate]. apply (IH s1); [|assumption].
    apply (inv_step s s1 l); assumption.
Qed.

Lemma inv_reachable m s : reachable m s -> Inv s.
Proof. intros [ls H]. apply (inv_run ls (init m)); [apply inv_init|assumption]. Qed.

Lemma run_app a : forall s b, run s (a ++ b) = match run s a with Some s1 => run s1 b | None => None end.
Proof.
  induction a as [|l a IH]; cbn; intros s b; [reflexivity|].
  destruct (step s l); [apply IH|reflexivity].
Qed.

Lemma wdone_pc w : wdone w = true <-> w_pc w = CDone.
Proof. unfold wdone. destruct (w_pc w); split; congruence. Qed.

Lemma wstep_some s c from g f w :
  find_w c (workers s) = Some w -> w_pc w = from -> from <> CDone -> g w = true ->
  wstep s c from g f = Some (set_workers s (upd_w c f (workers s))).
Proof.
  intros Hf Hp Hn Hg. unfold wstep. rewrite Hf, Hp, Hg. destruct from; congruence.
Qed.

(* srv.shutdown is closed only once every worker is finished *)
Lemma closed_implies_drained m s :
  reachable m s -> shut s = true ->
  Forall (fun w => w_pc w = CDone) (workers s) /\ wg s = 0 /\
  (exists v, serve s = SClosing v \/ serve s = SReturned v).
Proof.
  intros Hr Hs. pose proof (inv_reachable m s Hr) as HI. destruct HI.
  pose proof (i_shut_w0 Hs) as HF. split; [|split].
  - eapply Forall_impl; [|exact HF]. intros w. apply wdone_pc.
  - rewrite i_wg0. clear - HF. unfold active. induction HF as [|x l Hx HF IH]; cbn; [reflexivity|].
    rewrite Hx. cbn. exact IH.
  - rewrite i_shut0 in Hs. destruct (serve s); try discriminate; eauto.
Qed.

Lemma returns_after_handlers m s j :
  reachable m s -> In (j, SdDone ResNil) (sds s) ->
  Forall (fun w => w_pc w = CDone) (workers s) /\ wg s = 0 /\
  (exists v, serve s = SClosing v \/ serve s = SReturned v).
Proof.
  intros Hr Hj. apply (closed_implies_drained m); [assumption|].
  apply (i_sd_done s (inv_reachable m s Hr) j Hj).
Qed.

Lemma shut_stable s l s' : shut s = true -> step s l = Some s' -> shut s' = true.
Proof.
  intros Hs H. inv_step H; norm; try assumption; try reflexivity.
Qed.

Lemma no_henter_when_shut s c : Inv s -> shut s = true -> step s (HEnter c) = None.
Proof.
  intros HI Hs. destruct (step s (HEnter c)) as [s'|] eqn:E; [|reflexivity]. exfalso.
  cbn [step] in E. apply wstep_inv in E. destruct E as (w & Hf & Hpc & _).
  pose proof (i_shut_w s HI Hs) as HF. rewrite Forall_forall in HF.
  apply find_w_some in Hf. destruct Hf as [Hin _]. specialize (HF _ Hin).
  apply wdone_pc in HF. congruence.
Qed.

Lemma no_henter_in_run ls : forall s s' c, Inv s -> shut s = true -> run s ls = Some s' -> ~ In (HEnter c) ls.
Proof.
  induction ls as [|l ls IH]; cbn; intros s s' c HI Hs H; [tauto|].
  destruct (step s l) as [s1|] eqn:E; [|discriminate].
  intros [Hl|Hl].
  - subst l. rewrite (no_henter_when_shut s c HI Hs) in E. discriminate.
  - revert Hl. apply (IH s1 s'); [apply (inv_step s s1 l); assumption|eapply shut_stable; eassumption|assumption].
Qed.

Lemma no_handler_after_return m ls1 j ls2 s c :
  run (init m) (ls1 ++ SdReturn j ResNil :: ls2) = Some s -> ~ In (HEnter c) ls2.
Proof.
  rewrite run_app. destruct (run (init m) ls1) as [s1|] eqn:E1; [|discriminate].
  cbn [run]. destruct (step s1 (SdReturn j ResNil)) as [s2|] eqn:E2; [|discriminate]. intros H.
  assert (HI1 : Inv s1) by (apply (inv_run ls1 (init m)); [apply inv_init|assumption]).
  assert (Hs1 : shut s1 = true).
  { cbn [step] in E2. destruct (find_a j (sds s1)) as [[]|]; try discriminate; destruct (shut s1); congruence. }
  apply (no_henter_in_run ls2 s2 s c); [apply (inv_step s1 s2 _ HI1 E2)|eapply shut_stable; eassumption|assumption].
Qed.

Lemma serve_nil m s v :
  reachable m s -> serve_val (serve s) = Some v -> fatal s = false -> v = RNil.
Proof.
  intros Hr Hv Hf. destruct v; [reflexivity|].
  rewrite (i_val s (inv_reachable m s Hr) RErr Hv eq_refl) in Hf. discriminate.
Qed.

Lemma serve_return_enabled s v : serve s = SClosing v -> exists s', step s (SReturn v) = Some s' /\ serve s' = SReturned v.
Proof. intros H. cbn [step]. rewrite H. destruct v; eexists; split; reflexivity. Qed.

Lemma double_start s i :
  ph s = Running -> find_a i (sts s) = Some StPending ->
  exists s1 s2, step s (StAtomic i) = Some s1 /\ find_a i (sts s1) = Some StFailed /\
                step s1 (StReturnErr i) = Some s2 /\ find_a i (sts s2) = Some StDone /\
                ph s2 = Running /\ serve s2 = serve s /\ workers s2 = workers s.
Proof.
  intros Hp Hf. cbn [step]. rewrite Hf, Hp.
  eexists. eexists. split; [reflexivity|]. cbn [sts set_sts step].
  rewrite (find_a_upd i StFailed StPending _ Hf). split; [reflexivity|]. split; [reflexivity|].
  cbn. rewrite (find_a_upd i StDone StFailed); [auto|]. apply (find_a_upd i StFailed StPending _ Hf).
Qed.

Lemma shutdown_unstarted s j :
  ph s <> Running -> find_a j (sds s) = Some SdPending ->
  exists s1 s2, step s (SdAtomic j) = Some s1 /\ step s1 (SdReturn j ResNotStarted) = Some s2 /\
                find_a j (sds s2) = Some (SdDone ResNotStarted) /\
                ph s2 = ph s /\ serve s2 = serve s /\ workers s2 = workers s /\ shut s2 = shut s.
Proof.
  intros Hp Hf. cbn [step]. rewrite Hf.
  assert (Hr : is_running s = false) by (unfold is_running; destruct (ph s); congruence).
  rewrite Hr. eexists. eexists. split; [reflexivity|]. cbn [sds set_sds step].
  rewrite (find_a_upd j SdFailed SdPending _ Hf). split; [reflexivity|].
  cbn. rewrite (find_a_upd j (SdDone ResNotStarted) SdFailed); [auto 10|]. apply (find_a_upd j SdFailed SdPending _ Hf).
Qed.

(* after the lock region of Shutdown nobody can stay blocked in a read or in Accept *)
Lemma no_stuck_reader m s :
  reachable m s -> ph s = Stopping ->
  lclosed s = true /\
  (serve s = SAccept -> internal s SAcceptErr = true /\ exists s', step s SAcceptErr = Some s') /\
  (serve s = SRead -> internal s SReadErr = true /\ exists s', step s SReadErr = Some s') /\
  (forall w, In w (workers s) -> w_pc w = CRead ->
             w_dl w = true /\ internal s (ReadErr (w_id w)) = true /\ exists s', step s (ReadErr (w_id w)) = Some s') /\
  (forall w, In w (workers s) -> w_pc w = CSetDl -> w_dl w = true).
Proof.
  intros Hr Hp. pose proof (inv_reachable m s Hr) as HI. destruct HI.
  pose proof (i_stop_w0 Hp) as HW. rewrite Forall_forall in HW.
  split; [auto|]. split; [|split; [|split]].
  - intros Hs. cbn [internal step]. rewrite Hs. split; [auto|eauto].
  - intros Hs. cbn [internal step]. rewrite Hs. split; [auto|eauto].
  - intros w Hin Hpc. assert (Hd : w_dl w = true) by (apply HW; [assumption|unfold reading; rewrite Hpc; reflexivity]).
    pose proof (find_w_in _ _ i_nodup0 Hin) as Hf.
    split; [assumption|]. cbn [internal step]. rewrite Hf. split; [assumption|].
    rewrite (wstep_some s (w_id w) CRead _ _ w Hf Hpc); [eauto|discriminate|reflexivity].
  - intros w Hin Hpc. apply HW; [assumption|unfold reading; rewrite Hpc; reflexivity].
Qed.

(* progress: while a Shutdown caller waits and the channel is not yet closed,
   either a handler is still running (user code) or the server itself can move *)
Lemma progress m s :
  reachable m s ->
  (exists j, In (j, SdWaiting) (sds s) \/ In (j, SdExpired) (sds s)) -> shut s = false ->
  (exists w, In w (workers s) /\ w_pc w = CHandler) \/
  (exists l s', internal s l = true /\ step s l = Some s').
Proof.
  intros Hr [j Hj] Hs. pose proof (inv_reachable m s Hr) as HI.
  pose proof (i_sd_wait s HI j Hj) as Hp.
  destruct (no_stuck_reader m s Hr Hp) as [Hl [Hacc [Hrd [Hwr _]]]].
  destruct HI.
  destruct (serve s) eqn:Es.
  - specialize (i_none0 eq_refl). congruence.
  - right. exists Notify. cbn [internal step]. rewrite Es. eauto.
  - right. exists SCheck. cbn [internal step]. rewrite Es. destruct (is_running s); eauto.
  - right. exists SAcceptErr. destruct (Hacc eq_refl) as [Hi [s' Hs']]. exists s'. split; assumption.
  - right. exists SSpawn. cbn [internal step]. rewrite Es. eauto.
  - right. exists SErrCheck. cbn [internal step]. rewrite Es. destruct (is_running s); eauto.
  - right. exists SErrCheck. cbn [internal step]. rewrite Es. destruct (is_running s); eauto.
  - right. exists SSetDlL. cbn [internal step]. rewrite Es. eauto.
  - right. exists SReadErr. destruct (Hrd eq_refl) as [Hi [s' Hs']]. exists s'. split; assumption.
  - (* draining *)
    destruct (Nat.eqb (wg s) 0) eqn:Ew.
    + right. exists SWaitDone. cbn [internal step]. rewrite Es, Ew. eauto.
    + apply Nat.eqb_neq in Ew. rewrite i_wg0 in Ew. destruct (active_pos _ Ew) as [w [Hin Hd]].
      pose proof (find_w_in _ _ i_nodup0 Hin) as Hf.
      destruct (w_pc w) eqn:Hpc.
      * right. exists (WCheck (w_id w)). cbn [internal step]. eexists. split; [reflexivity|].
        rewrite (wstep_some s _ CCheck _ _ w Hf Hpc); [reflexivity|discriminate|reflexivity].
      * right. exists (WSetDl (w_id w)). cbn [internal step]. eexists. split; [reflexivity|].
        rewrite (wstep_some s _ CSetDl _ _ w Hf Hpc); [reflexivity|discriminate|reflexivity].
      * right. exists (ReadErr (w_id w)). destruct (Hwr w Hin Hpc) as [_ [Hi [s' Hs']]]. exists s'. split; assumption.
      * right. exists (HEnter (w_id w)). cbn [internal step]. eexists. split; [reflexivity|].
        rewrite (wstep_some s _ CGot _ _ w Hf Hpc); [reflexivity|discriminate|reflexivity].
      * left. eauto.
      * right. exists (WClose (w_id w)). cbn [internal step]. eexists. split; [reflexivity|].
        rewrite (wstep_some s _ CClosing _ _ w Hf Hpc); [reflexivity|discriminate|reflexivity].
      * right. exists (WFinish (w_id w)). cbn [internal step]. eexists. split; [reflexivity|].
        rewrite (wstep_some s _ CFin _ _ w Hf Hpc); [reflexivity|discriminate|reflexivity].
      * unfold wdone in Hd. rewrite Hpc in Hd. discriminate.
  - rewrite i_shut0 in Hs. discriminate.
  - rewrite i_shut0 in Hs. discriminate.
Qed.

(* once the channel is closed a waiting caller can return nil at once *)
Lemma shutdown_return_enabled s j :
  shut s = true -> (find_a j (sds s) = Some SdWaiting \/ find_a j (sds s) = Some SdExpired) ->
  exists s', step s (SdReturn j ResNil) = Some s' /\ find_a j (sds s') = Some (SdDone ResNil).
Proof.
  intros Hs [Hf|Hf]; cbn [step]; rewrite Hf, Hs; eexists; (split; [reflexivity|]); cbn;
    eapply find_a_upd; eassumption.
Qed.
(* and an expired context lets it return without waiting for the handlers *)
Lemma shutdown_ctx_return_enabled s j :
  find_a j (sds s) = Some SdExpired ->
  exists s', step s (SdReturn j ResCtx) = Some s' /\ find_a j (sds s') = Some (SdDone ResCtx).
Proof.
  intros Hf; cbn [step]; rewrite Hf; eexists; (split; [reflexivity|]); cbn; eapply find_a_upd; eassumption.
Qed.

(* a start that failed before the serve loop leaves the server unstarted:
   Shutdown returns the not-started error at once, a new start succeeds *)
Lemma failed_start_unstarted s s' j i :
  step s SFailStart = Some s' ->
  ph s' = Fresh /\ serve s' = SNone /\ shut s' = shut s /\ workers s' = workers s /\
  (find_a j (sds s') = Some SdPending ->
   exists s1 s2, step s' (SdAtomic j) = Some s1 /\ step s1 (SdReturn j ResNotStarted) = Some s2 /\
                 find_a j (sds s2) = Some (SdDone ResNotStarted)) /\
  (find_a i (sts s') = Some StPending ->
   exists s1, step s' (StAtomic i) = Some s1 /\ ph s1 = Running /\ serve s1 = SInit).
Proof.
  intros H. cbn [step] in H.
  destruct (serve s) eqn:Es; try discriminate. destruct (md s) eqn:Em; try discriminate.
  destruct (ph s) eqn:Ep; try discriminate. inversion H; subst; clear H. cbn.
  repeat split.
  - intros Hf. assert (Hp : ph (set_sts (set_serve (set_ph s Fresh) SNone)
        (map (fun x => match snd x with StServing => (fst x, StDone) | _ => x end) (sts s))) <> Running) by (cbn; discriminate).
    destruct (shutdown_unstarted _ j Hp Hf) as [s1 [s2 [A [B [C _]]]]]. eauto.
  - intros Hf. cbn [step sts set_sts]. rewrite Hf. cbn. eexists. repeat split.
Qed.

(* a start call that fails before srv.started is set (bad network, no TLS
   certificates, listen error, no listeners) leaves the server as it was: not
   started; Shutdown gets the not-started error at once; a retry can start *)
Lemma failed_listen_unstarted s s' i :
  step s (StFail i) = Some s' ->
  ph s <> Running /\ ph s' = ph s /\ serve s' = serve s /\ workers s' = workers s /\ wg s' = wg s /\
  shut s' = shut s /\ sds s' = sds s /\ lclosed s' = lclosed s /\ pcdl s' = pcdl s /\
  find_a i (sts s') = Some StDone /\
  (forall j, find_a j (sds s') = Some SdPending ->
     exists s1 s2, step s' (SdAtomic j) = Some s1 /\ step s1 (SdReturn j ResNotStarted) = Some s2 /\
                   find_a j (sds s2) = Some (SdDone ResNotStarted)) /\
  (forall k, ph s = Fresh -> find_a k (sts s') = Some StPending ->
     exists s1, step s' (StAtomic k) = Some s1 /\ ph s1 = Running /\ serve s1 = SInit).
Proof.
  intros H. cbn [step] in H.
  destruct (find_a i (sts s)) as [[]|] eqn:Ef; try discriminate.
  destruct (is_running s) eqn:Er; [discriminate|]. inversion H; subst; clear H.
  pose proof (is_running_false s Er) as Hp. cbn.
  repeat split; try assumption.
  - apply (find_a_upd i StDone StPending _ Ef).
  - intros j Hj.
    assert (Hp' : ph (set_sts s (upd_a i StDone (sts s))) <> Running) by (cbn; assumption).
    destruct (shutdown_unstarted _ j Hp' Hj) as [s1 [s2 [A [B [C _]]]]]. eauto.
  - intros k Hfr Hk. cbn [step sts set_sts]. rewrite Hk. cbn [ph set_sts]. rewrite Hfr. eexists. repeat split.
Qed.

(* a handler that hijacked its TCP connection returns: the only thing the
   server still does with that connection is to deregister it (WFinish: delete
   from srv.conns, wg.Done); it never closes it and never reads from it again *)
Lemma keeps_id_set_pc p : keeps_id (set_pc p).
Proof. intros w. reflexivity. Qed.

Lemma hijack_exit_releases s s' c :
  step s (HExitHj c) = Some s' ->
  md s = TCP /\
  (exists w, find_w c (workers s) = Some w /\ w_pc w = CHandler) /\
  (exists w', find_w c (workers s') = Some w' /\ w_pc w' = CFin) /\
  step s' (WClose c) = None /\ step s' (WCheck c) = None /\ step s' (WSetDl c) = None /\
  step s' (Req c) = None /\ step s' (ReadErr c) = None /\ step s' (HEnter c) = None /\
  exists s'', step s' (WFinish c) = Some s'' /\ wg s'' = pred (wg s') /\
              exists w'', find_w c (workers s'') = Some w'' /\ w_pc w'' = CDone.
Proof.
  intros H. cbn [step] in H. destruct (md s) eqn:Em; [|discriminate].
  apply wstep_inv in H. destruct H as (w & Hf & Hpc & _ & Hs & _). subst s'.
  pose proof (upd_w_find_same c (set_pc CFin) _ w (keeps_id_set_pc CFin) Hf) as Hf'.
  split; [reflexivity|]. split; [eauto|]. split; [eexists; split; [exact Hf'|reflexivity]|].
  assert (Hno : forall from g f, from <> CFin ->
            wstep (set_workers s (upd_w c (set_pc CFin) (workers s))) c from g f = None).
  { intros from g f Hn. unfold wstep. cbn [workers set_workers]. rewrite Hf'. cbn. destruct from; congruence. }
  repeat split; try (cbn [step]; apply Hno; discriminate).
  cbn [step].
  rewrite (wstep_some _ c CFin (fun _ => true) (set_pc CDone) (set_pc CFin w)); [|exact Hf'|reflexivity|discriminate|reflexivity].
  eexists. split; [reflexivity|]. split; [reflexivity|].
  exists (set_pc CDone (set_pc CFin w)). split; [|reflexivity]. cbn [workers set_wg set_workers].
  apply (upd_w_find_same c (set_pc CDone) _ _ (keeps_id_set_pc CDone) Hf').
Qed.

(* ---------------------------------------------------------- non-vacuity *)
Definition ex_tcp_trace : list label :=
  [StInvoke 0; StAtomic 0; Notify; SCheck; SAcceptOk 1; SSpawn; WCheck 1; WSetDl 1; Req 1; HEnter 1;
   SdInvoke 0; SdAtomic 0; SCheck; Reply 1; HExit 1; WCheck 1; WClose 1; WFinish 1; SWaitDone;
   SdReturn 0 ResNil; SReturn RNil].
Example ex_tcp_run :
  exists s, run (init TCP) ex_tcp_trace = Some s /\ In (0, SdDone ResNil) (sds s) /\
            serve s = SReturned RNil /\ fatal s = false /\ shut s = true.
Proof. match goal with |- exists s, ?r = Some s /\ _ => remember r as rr eqn:E; vm_compute in E; subst rr end. eexists. split; [reflexivity|]. cbn. auto. Qed.

Definition ex_udp_trace : list label :=
  [StInvoke 0; StAtomic 0; Notify; SCheck; SSetDlL; SPacket 7; SSpawn; SCheck; SSetDlL; HEnter 7;
   SdInvoke 3; SdAtomic 3; SReadErr; SErrCheck; SdCtx 3; SdReturn 3 ResCtx; Reply 7; HExit 7; WFinish 7; SWaitDone; SReturn RNil].
Example ex_udp_run :
  exists s, run (init UDP) ex_udp_trace = Some s /\ In (3, SdDone ResCtx) (sds s) /\ serve s = SReturned RNil.
Proof. match goal with |- exists s, ?r = Some s /\ _ => remember r as rr eqn:E; vm_compute in E; subst rr end. eexists. split; [reflexivity|]. cbn. auto. Qed.

(* a reader blocked when Shutdown runs; a Shutdown caller waiting *)
Definition ex_blocked : list label :=
  [StInvoke 0; StAtomic 0; Notify; SCheck; SAcceptOk 1; SSpawn; SCheck; WCheck 1; WSetDl 1; SdInvoke 0; SdAtomic 0].
Example ex_blocked_run :
  exists s, run (init TCP) ex_blocked = Some s /\ ph s = Stopping /\ shut s = false /\
            In (0, SdWaiting) (sds s) /\ serve s = SAccept /\
            exists w, In w (workers s) /\ w_pc w = CRead.
Proof. match goal with |- exists s, ?r = Some s /\ _ => remember r as rr eqn:E; vm_compute in E; subst rr end. eexists. split; [reflexivity|]. cbn. repeat split; auto. eexists. split; [left; reflexivity|reflexivity]. Qed.

Example ex_double_start :
  exists s, run (init TCP) [StInvoke 0; StAtomic 0; StInvoke 1] = Some s /\
            ph s = Running /\ find_a 1 (sts s) = Some StPending.
Proof. match goal with |- exists s, ?r = Some s /\ _ => remember r as rr eqn:E; vm_compute in E; subst rr end. eexists. split; [reflexivity|]. cbn. auto. Qed.

Example ex_unstarted :
  exists s, run (init UDP) [SdInvoke 5] = Some s /\ ph s <> Running /\ find_a 5 (sds s) = Some SdPending.
Proof. match goal with |- exists s, ?r = Some s /\ _ => remember r as rr eqn:E; vm_compute in E; subst rr end. eexists. split; [reflexivity|]. cbn. split; [discriminate|reflexivity]. Qed.

(* the acceptor: the observable projection of the run above is accepted, the
   same events with the handler entered after Shutdown returned are not *)
Example ex_accepts :
  accepts TCP [StInvoke 0; Notify; SAcceptOk 1; Req 1; HEnter 1; SdInvoke 0; Reply 1; HExit 1; WClose 1;
               SdReturn 0 ResNil; SReturn RNil] = inr (Some 1).
Proof. vm_compute. reflexivity. Qed.
Example ex_rejects :
  accepts TCP [StInvoke 0; Notify; SAcceptOk 1; Req 1; SdInvoke 0; SdReturn 0 ResNil; HEnter 1] = inl 5.
Proof. vm_compute. reflexivity. Qed.
Example ex_rejects_early_return :
  accepts UDP [StInvoke 0; Notify; SPacket 1; HEnter 1; SdInvoke 0; SdReturn 0 ResNil] = inl 5.
Proof. vm_compute. reflexivity. Qed.

Example ex_failed_start :
  exists s, run (init UDP) [StInvoke 0; StAtomic 0; SFailStart; SdInvoke 1; SdAtomic 1; SdReturn 1 ResNotStarted;
                            StInvoke 2; StAtomic 2; Notify] = Some s /\
            ph s = Running /\ serve s = SLoop /\ In (1, SdDone ResNotStarted) (sds s).
Proof. match goal with |- exists s, ?r = Some s /\ _ => remember r as rr eqn:E; vm_compute in E; subst rr end. eexists. split; [reflexivity|]. cbn. auto. Qed.
Example ex_accepts_failed_start :
  (exists n, accepts UDP [StInvoke 0; SFailStart; SdInvoke 1; SdReturn 1 ResNotStarted; StInvoke 2; Notify] = inr (Some n))
  /\ (exists n, accepts_red UDP [StInvoke 0; SFailStart; SdInvoke 1; SdReturn 1 ResNotStarted; StInvoke 2; Notify] = inr (Some n))
  /\ accepts UDP [StInvoke 0; SFailStart; SdInvoke 1; SdReturn 1 ResNil] = inl 3.
Proof. vm_compute. repeat split; eexists; reflexivity. Qed.

(* ------------------------------------------------- lives of one Server value *)
(* a life that is over has left nothing behind: the next start (Server.init)
   begins from the initial state without losing anything *)
Lemma epoch_over_inv s :
  epoch_over s = true ->
  ph s = Stopping /\ (exists v, serve s = SReturned v) /\
  (forall j p, In (j, p) (sds s) -> exists r, p = SdDone r) /\
  (forall i p, In (i, p) (sts s) -> p = StServing \/ p = StDone).
Proof.
  unfold epoch_over. intros H.
  apply andb_prop in H. destruct H as [H Hst]. apply andb_prop in H. destruct H as [H Hsd].
  destruct (ph s) eqn:Ep; try discriminate. destruct (serve s) eqn:Es; try discriminate.
  split; [reflexivity|]. split; [eauto|]. split.
  - intros j p Hin. rewrite forallb_forall in Hsd. specialize (Hsd _ Hin). cbn in Hsd.
    destruct p; try discriminate. eauto.
  - intros i p Hin. rewrite forallb_forall in Hst. specialize (Hst _ Hin). cbn in Hst.
    destruct p; try discriminate; auto.
Qed.

Lemma epoch_over_quiescent m s :
  reachable m s -> epoch_over s = true ->
  ph s = Stopping /\ shut s = true /\ lclosed s = true /\
  Forall (fun w => w_pc w = CDone) (workers s) /\ wg s = 0 /\
  (forall j p, In (j, p) (sds s) -> exists r, p = SdDone r).
Proof.
  intros Hr Ho. destruct (epoch_over_inv s Ho) as (Hp & [v Hv] & Hsd & _).
  pose proof (inv_reachable m s Hr) as HI.
  assert (Hs : shut s = true) by (rewrite (i_shut s HI), Hv; reflexivity).
  destruct (closed_implies_drained m s Hr Hs) as (HF & Hwg & _).
  repeat split; try assumption. apply (i_stop_l s HI Hp).
Qed.

Lemma reachable_step m s l s' : reachable m s -> step s l = Some s' -> reachable m s'.
Proof.
  intros [ls H] Hs. exists (ls ++ [l]). rewrite run_app, H. cbn. rewrite Hs. reflexivity.
Qed.

(* every state reached with any number of restarts is a reachable state of a
   single life: all the theorems about reachable states hold in every life *)
Lemma reachable_r_reachable m s : reachable_r m s -> exists m', reachable m' s.
Proof.
  induction 1 as [|s l s' _ [m' IH] Hs|s _ _ _].
  - exists m. exists []. reflexivity.
  - exists m'. eapply reachable_step; eassumption.
  - exists (md s). exists []. reflexivity.
Qed.

Lemma returns_after_handlers_r m s j :
  reachable_r m s -> In (j, SdDone ResNil) (sds s) ->
  Forall (fun w => w_pc w = CDone) (workers s) /\ wg s = 0 /\
  (exists v, serve s = SClosing v \/ serve s = SReturned v).
Proof.
  intros Hr Hj. destruct (reachable_r_reachable m s Hr) as [m' Hr']. exact (returns_after_handlers m' s j Hr' Hj).
Qed.

Lemma run_lives_reachable_r m : forall lives s s',
  reachable_r m s -> run_lives s lives = Some s' -> reachable_r m s'.
Proof.
  assert (Hrun : forall ls s s', reachable_r m s -> run s ls = Some s' -> reachable_r m s').
  { induction ls as [|l ls IH]; cbn; intros s s' Hr H; [inversion H; subst; assumption|].
    destruct (step s l) as [s1|] eqn:E; [|discriminate]. apply (IH s1); [eapply rr_step; eassumption|assumption]. }
  induction lives as [|e t IH]; cbn; intros s s' Hr H; [inversion H; subst; assumption|].
  destruct (run s e) as [s1|] eqn:E; [|discriminate].
  pose proof (Hrun e s s1 Hr E) as Hr1.
  destruct t as [|e2 t2]; [inversion H; subst; assumption|].
  destruct (epoch_over s1) eqn:Eo; [|discriminate].
  apply (IH (restart s1)); [apply rr_restart; assumption|assumption].
Qed.

(* in no life is a handler entered after a Shutdown call of THAT life returned nil *)
Lemma no_handler_after_return_lives m lives ls1 j ls2 s s' c :
  run_lives (init m) lives = Some s -> epoch_over s = true ->
  run (restart s) (ls1 ++ SdReturn j ResNil :: ls2) = Some s' -> ~ In (HEnter c) ls2.
Proof. intros _ _ H. exact (no_handler_after_return (md s) ls1 j ls2 s' c H). Qed.

(* after a restart a start call succeeds and the new life has nothing of the old one *)
Lemma restart_startable s i :
  exists s1 s2, step (restart s) (StInvoke i) = Some s1 /\ step s1 (StAtomic i) = Some s2 /\
                ph s2 = Running /\ serve s2 = SInit /\ workers s2 = [] /\ wg s2 = 0 /\ shut s2 = false /\
                sds s2 = [] /\ lclosed s2 = false /\ pcdl s2 = false.
Proof.
  unfold restart. cbn [step init sts find_a]. eexists. eexists. split; [reflexivity|].
  cbn. rewrite Nat.eqb_refl. cbn. repeat split.
Qed.

(* two lives of a UDP server, a handler in flight at each Shutdown *)
Definition ex_life (p : nat) : list label :=
  [StInvoke 0; StAtomic 0; Notify; SCheck; SSetDlL; SPacket p; SSpawn; SCheck; SSetDlL; HEnter p;
   SdInvoke 0; SdAtomic 0; SReadErr; SErrCheck; Reply p; HExit p; WFinish p; SWaitDone; SdReturn 0 ResNil; SReturn RNil].
Example ex_two_lives :
  exists s, run_lives (init UDP) [ex_life 1; ex_life 1] = Some s /\ epoch_over s = true /\
            In (0, SdDone ResNil) (sds s) /\ length (workers s) = 1.
Proof. match goal with |- exists s, ?r = Some s /\ _ => remember r as rr eqn:E; vm_compute in E; subst rr end. eexists. split; [reflexivity|]. cbn. auto. Qed.
Example ex_epoch_over :
  exists s, run (init UDP) (ex_life 1) = Some s /\ epoch_over s = true.
Proof. match goal with |- exists s, ?r = Some s /\ _ => remember r as rr eqn:E; vm_compute in E; subst rr end. eexists. split; reflexivity. Qed.
(* the acceptor for lives: two lives are accepted; a second life whose Shutdown
   returns while its handler runs is rejected at that event; a restart while
   the first life's Shutdown call has not returned is refused *)
Example ex_accepts_lives :
  accepts_lives UDP [[StInvoke 0; Notify; SPacket 1; HEnter 1; SdInvoke 0; Reply 1; SReadErr; HExit 1; SdReturn 0 ResNil; SReturn RNil];
                     [StInvoke 0; Notify; SPacket 1; HEnter 1; SdInvoke 0; SReadErr; Reply 1; HExit 1; SdReturn 0 ResNil; SReturn RNil]] 0 = LOk
  /\ accepts_lives UDP [[StInvoke 0; Notify; SdInvoke 0; SReadErr; SdReturn 0 ResNil; SReturn RNil];
                        [StInvoke 0; Notify; SPacket 1; HEnter 1; SdInvoke 0; SdReturn 0 ResNil]] 0 = LRej 1 5
  /\ accepts_lives TCP [[StInvoke 0; Notify; SdInvoke 0; SAcceptErr; SReturn RNil]; [StInvoke 0; Notify]] 0 = LNotOver 0.
Proof. vm_compute. repeat split. Qed.

(* failed starts (no listeners / bad network), Shutdown of the unstarted server, retry *)
Example ex_failed_listen :
  exists s, run (init TCP) [StInvoke 0; StFail 0; SdInvoke 1; SdAtomic 1; SdReturn 1 ResNotStarted;
                            StInvoke 2; StFail 2; StInvoke 3; StAtomic 3; Notify] = Some s /\
            ph s = Running /\ serve s = SLoop /\ In (1, SdDone ResNotStarted) (sds s) /\ find_a 0 (sts s) = Some StDone.
Proof. match goal with |- exists s, ?r = Some s /\ _ => remember r as rr eqn:E; vm_compute in E; subst rr end. eexists. split; [reflexivity|]. cbn. auto. Qed.
Example ex_accepts_failed_listen :
  (exists n, accepts TCP [StInvoke 0; StFail 0; SdInvoke 1; SdReturn 1 ResNotStarted; StInvoke 2; Notify] = inr (Some n))
  /\ accepts TCP [StInvoke 0; StFail 0; SdInvoke 1; SdCtx 1] = inl 3
  /\ accepts TCP [StInvoke 0; StFail 0; StInvoke 2; StReturnErr 2] = inl 3
  /\ accepts TCP [StInvoke 0; Notify; StInvoke 1; StFail 1] = inl 3.
Proof. vm_compute. repeat split. eexists; reflexivity. Qed.

(* a handler hijacks its connection: no WClose; Shutdown afterwards does not wait for it *)
Example ex_hijack_run :
  exists s, run (init TCP) [StInvoke 0; StAtomic 0; Notify; SCheck; SAcceptOk 1; SSpawn; WCheck 1; WSetDl 1; Req 1; HEnter 1;
                            Reply 1; HExitHj 1; WFinish 1; SCheck; SdInvoke 0; SdAtomic 0; SAcceptErr; SErrCheck; SWaitDone;
                            SdReturn 0 ResNil; SReturn RNil] = Some s /\
            In (0, SdDone ResNil) (sds s) /\ serve s = SReturned RNil /\ wg s = 0.
Proof. match goal with |- exists s, ?r = Some s /\ _ => remember r as rr eqn:E; vm_compute in E; subst rr end. eexists. split; [reflexivity|]. cbn. auto. Qed.
Example ex_accepts_hijack :
  (exists n, accepts TCP [StInvoke 0; Notify; SAcceptOk 1; Req 1; HEnter 1; Reply 1; HExitHj 1; SdInvoke 0; SAcceptErr;
                          SdReturn 0 ResNil; SReturn RNil] = inr (Some n))
  /\ accepts TCP [StInvoke 0; Notify; SAcceptOk 1; Req 1; HEnter 1; HExitHj 1; WClose 1] = inl 6
  /\ accepts TCP [StInvoke 0; Notify; SAcceptOk 1; Req 1; HEnter 1; HExitHj 1; Req 1] = inl 6
  /\ accepts UDP [StInvoke 0; Notify; SPacket 1; HEnter 1; HExitHj 1] = inl 4.
Proof. vm_compute. repeat split. eexists; reflexivity. Qed.

(* ------------------------------------------- input that never reaches a handler *)
(* a datagram shorter than a DNS header: the serve loop goes on, no worker, the
   WaitGroup untouched - nothing Shutdown would have to wait for *)
Lemma short_datagram_no_worker s s' p :
  step s (SPacketShort p) = Some s' ->
  md s = UDP /\ serve s = SRead /\ serve s' = SLoop /\ workers s' = workers s /\ wg s' = wg s /\
  ph s' = ph s /\ shut s' = shut s /\ sds s' = sds s /\ pcdl s' = pcdl s.
Proof.
  intros H. cbn [step] in H. destruct (serve s) eqn:Es; try discriminate.
  destruct (md s) eqn:Em; try discriminate. destruct (negb (pcdl s)); [|discriminate].
  inversion H; subst; clear H. cbn. repeat split.
Qed.

(* a message the server drops or rejects by itself: the worker had a request in
   hand (handler not entered); afterwards no handler can be entered for it and
   no handler reply written; on UDP its only step is to finish (wg.Done), on TCP
   the connection loop goes on with its srv.isStarted() test *)
Lemma dropped_message_no_handler s s' c :
  step s (WDrop c) = Some s' ->
  (exists w, find_w c (workers s) = Some w /\ w_pc w = CGot) /\
  step s' (HEnter c) = None /\ step s' (Reply c) = None /\ step s' (HExit c) = None /\
  wg s' = wg s /\ ph s' = ph s /\ shut s' = shut s /\
  (md s = UDP -> exists s'', step s' (WFinish c) = Some s'' /\ wg s'' = pred (wg s') /\
                 exists w'', find_w c (workers s'') = Some w'' /\ w_pc w'' = CDone) /\
  (md s = TCP -> exists s'', step s' (WCheck c) = Some s'').
Proof.
  intros H. cbn [step] in H.
  apply wstep_inv in H. destruct H as (w & Hf & Hpc & _ & Hs & _). subst s'.
  set (p := match md s with TCP => CCheck | UDP => CFin end) in *.
  pose proof (upd_w_find_same c (set_pc p) _ w (keeps_id_set_pc p) Hf) as Hf'.
  split; [eauto|].
  assert (Hno : forall from g f, from <> p ->
            wstep (set_workers s (upd_w c (set_pc p) (workers s))) c from g f = None).
  { intros from g f Hn. unfold wstep. cbn [workers set_workers]. rewrite Hf'. cbn [w_pc set_pc].
    destruct p, from; try reflexivity; congruence. }
  assert (Hp : p <> CGot /\ p <> CHandler) by (unfold p; destruct (md s); split; discriminate).
  destruct Hp as [Hp1 Hp2].
  repeat split; try (cbn [step]; apply Hno; congruence).
  - intros Em. unfold p in *. rewrite Em in *. cbn [step].
    rewrite (wstep_some _ c CFin (fun _ => true) (set_pc CDone) (set_pc CFin w)); [|exact Hf'|reflexivity|discriminate|reflexivity].
    eexists. split; [reflexivity|]. split; [reflexivity|].
    exists (set_pc CDone (set_pc CFin w)). split; [|reflexivity]. cbn [workers set_wg set_workers].
    apply (upd_w_find_same c (set_pc CDone) _ _ (keeps_id_set_pc CDone) Hf').
  - intros Em. unfold p in *. rewrite Em in *. cbn [step].
    rewrite (wstep_some _ c CCheck (fun _ => true) _ (set_pc CCheck w)); [|exact Hf'|reflexivity|discriminate|reflexivity].
    eexists. reflexivity.
Qed.

(* short datagrams and dropped / rejected messages next to an ordinary query:
   Shutdown returns nil after the one handler that was started *)
Example ex_ignored_input_run :
  exists s, run (init UDP) [StInvoke 0; StAtomic 0; Notify; SCheck; SSetDlL; SPacketShort 1; SCheck; SSetDlL;
                            SPacket 2; SSpawn; WDrop 2; WFinish 2; SCheck; SSetDlL; SPacket 3; SSpawn; HEnter 3;
                            SCheck; SSetDlL; SPacketShort 4; SdInvoke 0; SdAtomic 0; SCheck; Reply 3; HExit 3; WFinish 3;
                            SWaitDone; SdReturn 0 ResNil; SReturn RNil] = Some s /\
            In (0, SdDone ResNil) (sds s) /\ serve s = SReturned RNil /\ wg s = 0 /\ length (workers s) = 2.
Proof. match goal with |- exists s, ?r = Some s /\ _ => remember r as rr eqn:E; vm_compute in E; subst rr end. eexists. split; [reflexivity|]. cbn. auto. Qed.
Example ex_accepts_ignored_input :
  (exists n, accepts UDP [StInvoke 0; Notify; SPacketShort 1; SPacket 2; WDrop 2; SPacket 3; HEnter 3; SPacketShort 4;
                          SdInvoke 0; SReadErr; Reply 3; HExit 3; SdReturn 0 ResNil; SReturn RNil] = inr (Some n))
  /\ (exists n, accepts TCP [StInvoke 0; Notify; SAcceptOk 1; Req 1; WDrop 1; Req 1; HEnter 1; Reply 1; HExit 1; Req 1; WDrop 1;
                             SdInvoke 0; ReadErr 1; WClose 1; SdReturn 0 ResNil; SReturn RNil] = inr (Some n))
  /\ accepts UDP [StInvoke 0; Notify; SPacketShort 1; HEnter 1] = inl 3
  /\ accepts UDP [StInvoke 0; Notify; SPacket 1; WDrop 1; HEnter 1] = inl 4
  /\ accepts UDP [StInvoke 0; Notify; SPacket 1; SdInvoke 0; SReadErr; SdReturn 0 ResNil] = inl 5
  /\ accepts TCP [StInvoke 0; Notify; SAcceptOk 1; SPacketShort 1] = inl 3
  /\ accepts TCP [StInvoke 0; Notify; SAcceptOk 1; Req 1; WDrop 1; Reply 1] = inl 5.
Proof. vm_compute. repeat split; eexists; reflexivity. Qed.
