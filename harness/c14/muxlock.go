package main

// C14, handlers that change the ServeMux that dispatched them, and
// registrations that arrive while a handler is running.
//
// "the multiplexer passes accepted requests to the handler registered for the
// longest suffix of the question name ..., REFUSED is returned when nothing
// matches", quantified over "concurrent Handle/HandleRemove/ServeDNS". The other
// mux generators build a pattern table first and ask afterwards (runMux,
// runMuxCaseSweep), or change scratch patterns from goroutines that are NOT
// handlers while other goroutines only look names up (runConcurrent, handlers
// that return at once). Never exercised: a Handle / HandleFunc / HandleRemove
// call made from INSIDE a handler the mux is dispatching (a one-shot handler that
// removes itself, installs its successor, adds a zone it has just learned about,
// through the mux or through the package-level functions on DefaultServeMux), a
// handler that forwards to the mux again, and a registration or another request
// that arrives while a handler of some zone is still running.
//
// Histories (each on its own mux; every call into the mux runs on its own
// goroutine under a watchdog, so a call that never returns is reported with the
// history instead of hanging the harness; after one hang the remaining
// histories of this file are skipped):
//   1. self-modifying handlers: random pattern tables whose handlers carry a
//      script of Handle / HandleFunc / HandleRemove calls on their own mux (own
//      pattern, ancestors, children, unrelated ones; other case, no final dot;
//      the new handlers carry scripts again), and a sequence of questions. The
//      oracle keeps an independent table (map keyed by the lower-cased
//      presentation) that is updated with what the dispatched handler's script
//      says, and every question must go to the handler that table designates at
//      that moment (muxOracle) or be REFUSED. Each question is also a model
//      case (`muxserve`: the history of operations so far, the question).
//   2. a parked handler: request 1 sits in its handler (channel), then
//      Handle / HandleFunc / HandleRemove is called from another goroutine and
//      must return, then request 2 (another zone / the zone just registered /
//      the same zone / a name nobody serves) must be dispatched or refused,
//      all while request 1 is still parked; then request 1 is released.
//   3. eight goroutines x 300 requests whose handlers add and remove scratch
//      patterns of the mux that dispatched them.
//   4. the package-level Handle / HandleFunc / HandleRemove on DefaultServeMux
//      from inside a handler DefaultServeMux dispatched.
//   5. through the real serveUDP loop (scripted PacketConn, Server.Handler = the
//      mux): a one-shot handler that replaces itself; datagram k+1 is released
//      when the reply to datagram k has been written.

import (
	"fmt"
	"net"
	"strings"
	"sync"
	"sync/atomic"
	"time"

	"github.com/miekg/dns"
	. "verif/harness/common"
	"verif/harness/netfake"
)

// muxWatchdog bounds calls that take microseconds.
const muxWatchdog = 15 * time.Second

var muxHung bool

// returnsInTime runs f on its own goroutine and reports whether it returned
// within the watchdog ("panic" is a return).
func returnsInTime(f func()) bool {
	done := make(chan struct{})
	go func() {
		defer close(done)
		Protect(func() string { f(); return "" })
	}()
	select {
	case <-done:
		return true
	case <-time.After(muxWatchdog):
		return false
	}
}

// ------------------------------------------------------------------ 1. self-modifying handlers

type muxAct struct {
	op      string // "handle", "handlefunc", "remove"
	pattern string
	h       *scriptH // the handler installed by handle / handlefunc
}

// scriptH reports its id through the recWriter, then runs its script on the
// mux that dispatched it, then replies.
type scriptH struct {
	id   int
	mux  *dns.ServeMux
	acts []muxAct
	ran  *[]muxAct // what was executed, in order (shared by the history)
	mu   *sync.Mutex
}

func (s *scriptH) ServeDNS(w dns.ResponseWriter, req *dns.Msg) {
	if rw, ok := w.(*recWriter); ok {
		rw.handler = s.id
	}
	for _, a := range s.acts {
		switch a.op {
		case "handle":
			s.mux.Handle(a.pattern, a.h)
		case "handlefunc":
			s.mux.HandleFunc(a.pattern, a.h.ServeDNS)
		default:
			s.mux.HandleRemove(a.pattern)
		}
		s.mu.Lock()
		*s.ran = append(*s.ran, a)
		s.mu.Unlock()
	}
	m := new(dns.Msg)
	m.SetReply(req)
	w.WriteMsg(m)
}

var reZones = [][]string{{"a", "example"}, {"example"}, {"b", "example"}, {"other"}, {}, {"x", "a", "example"}, {"Z", "org"}}

func labs(ss []string) [][]byte {
	var o [][]byte
	for _, s := range ss {
		o = append(o, []byte(s))
	}
	return o
}

func regKey(pattern string) string {
	k := lowerASCII(pattern)
	if !endsInUnescapedDot(k) {
		k += "."
	}
	return k
}

type reIn struct {
	History string `json:"operations_so_far"`
	Inside  string `json:"operations_made_by_the_dispatched_handler,omitempty"`
	Name    string `json:"question"`
	Qtype   uint16 `json:"qtype"`
	What    string `json:"scenario,omitempty"`
}

func actsString(as []muxAct) string {
	var s []string
	for _, a := range as {
		if a.op == "remove" {
			s = append(s, "HandleRemove("+a.pattern+")")
		} else {
			s = append(s, fmt.Sprintf("%s(%s, handler %d)", map[string]string{"handle": "Handle", "handlefunc": "HandleFunc"}[a.op], a.pattern, a.h.id))
		}
	}
	return strings.Join(s, "; ")
}

func runSelfModifying(r *Rng, rounds int) {
	for round := 0; round < rounds && !muxHung; round++ {
		mux := dns.NewServeMux()
		var ran []muxAct
		var mu sync.Mutex
		nextID := 1
		byID := map[int]*scriptH{}
		pat := func() string {
			p := flipCase(r, showLabels(labs(reZones[r.Intn(len(reZones))])))
			if len(p) > 1 && r.Intn(4) == 0 {
				p = p[:len(p)-1]
			}
			return p
		}
		var mk func(depth int, own string) *scriptH
		mk = func(depth int, own string) *scriptH {
			h := &scriptH{id: nextID, mux: mux, ran: &ran, mu: &mu}
			byID[h.id] = h
			nextID++
			if depth >= 3 {
				return h
			}
			for k := r.Intn(4); k > 0; k-- {
				p := pat()
				if r.Intn(3) == 0 {
					p = flipCase(r, own) // its own pattern
				}
				switch r.Intn(5) {
				case 0, 1:
					h.acts = append(h.acts, muxAct{"handle", p, mk(depth+1, p)})
				case 2:
					h.acts = append(h.acts, muxAct{"handlefunc", p, mk(depth+1, p)})
				default:
					h.acts = append(h.acts, muxAct{"remove", p, nil})
				}
			}
			return h
		}
		var ops []muxOp
		reg := map[string]int{}
		for k := 1 + r.Intn(4); k > 0; k-- {
			p := pat()
			h := mk(0, p)
			mux.Handle(p, h)
			ops = append(ops, muxOp{true, p, h.id})
			reg[regKey(p)] = h.id
		}
		for q := 0; q < 6 && !muxHung; q++ {
			ls := labs(reZones[r.Intn(len(reZones))])
			for k := r.Intn(3); k > 0; k-- {
				ls = append([][]byte{[]byte([]string{"www", "Q", "_tcp"}[r.Intn(3)])}, ls...)
			}
			qn := flipCase(r, showLabels(ls))
			t := []uint16{dns.TypeA, dns.TypeNS, dns.TypeTXT, dns.TypeANY}[r.Intn(4)]
			req := new(dns.Msg)
			req.SetQuestion(qn, t)
			req.Id = uint16(r.Next())
			w := &recWriter{handler: -1}
			before := len(ran)
			in := reIn{History: opsString(ops), Name: qn, Qtype: t, What: "handlers that call Handle/HandleFunc/HandleRemove on the mux dispatching them"}
			exp := muxExpected(reg, ls, t)
			if exp > 0 {
				in.Inside = actsString(byID[exp].acts)
			}
			res := ""
			if !returnsInTime(func() { res = Protect(func() string { mux.ServeDNS(w, req); return "" }) }) {
				muxHung = true
				Viol("C14/Mux/handler-registration-blocked", fmt.Sprintf("ServeMux.ServeDNS did not return within %v: the dispatched handler calls Handle/HandleFunc/HandleRemove on its own mux and never gets out of that call; the request is neither answered nor refused", muxWatchdog), in)
				return
			}
			stat["mux_reentrant_checked"]++
			out := "refused"
			got := "none"
			if res == "panic" {
				Viol("C14/Mux/match-panic", "ServeDNS panicked", in)
				break
			} else if w.handler >= 0 {
				out = "handler:" + Itoa(w.handler)
				got = "some:" + Itoa(w.handler)
			}
			Emit("muxserve", []string{opsString(ops), Hs(qn) + ":" + Itoa(int(t))}, out)
			stat["muxserve_cases"]++
			muxOracle(ops, reg, ls, qn, t, got)
			if w.handler < 0 {
				if len(w.msgs) != 1 {
					Viol("C14/Mux/refused-missing", "no handler matched but no single REFUSED reply was written", in)
				} else {
					refusedOracle(req, w.msgs[0], in)
				}
			} else if len(w.msgs) != 1 {
				Viol("C14/Mux/dispatch-and-reply", fmt.Sprintf("the dispatched handler wrote one reply, the writer saw %d", len(w.msgs)), in)
			}
			if w.handler != exp && !(exp == 0 && w.handler < 0) {
				break // the reference no longer knows which script ran
			}
			// the dispatched handler's script, applied to the reference
			mu.Lock()
			done := append([]muxAct(nil), ran[before:]...)
			mu.Unlock()
			if exp > 0 && len(done) != len(byID[exp].acts) {
				Viol("C14/Mux/handler-script", "the dispatched handler did not run its whole script", in)
				break
			}
			for _, a := range done {
				if a.op == "remove" {
					ops = append(ops, muxOp{false, a.pattern, 0})
					delete(reg, regKey(a.pattern))
				} else {
					ops = append(ops, muxOp{true, a.pattern, a.h.id})
					reg[regKey(a.pattern)] = a.h.id
				}
			}
		}
	}
}

// ------------------------------------------------------------------ 2. a parked handler

type parkH struct {
	id      int
	entered chan struct{}
	release chan struct{}
	first   atomic.Bool
}

func (p *parkH) ServeDNS(w dns.ResponseWriter, req *dns.Msg) {
	if rw, ok := w.(*recWriter); ok {
		rw.handler = p.id
	}
	if p.first.CompareAndSwap(false, true) { // only the first request parks
		close(p.entered)
		<-p.release
	}
	m := new(dns.Msg)
	m.SetReply(req)
	w.WriteMsg(m)
}

func runParked(r *Rng) {
	type scen struct {
		op      string // Handle / HandleFunc / HandleRemove
		pattern string
		then    string // question asked while request 1 is parked
		want    int    // handler that must get it (0: REFUSED)
	}
	const slowID, fastID, newID = 1, 2, 3
	scens := []scen{
		{"Handle", "new.example.", "www.fast.example.", fastID},
		{"Handle", "new.example.", "www.new.example.", newID},
		{"HandleFunc", "NEW.example", "a.b.new.example.", newID},
		{"Handle", "new.example.", "again.slow.example.", slowID},
		{"Handle", "new.example.", "nobody.invalid.", 0},
		{"Handle", "slow.example.", "x.slow.example.", newID}, // replaces the running handler
		{"Handle", "sub.slow.example.", "x.sub.slow.example.", newID},
		{"Handle", ".", "nobody.invalid.", newID},
		{"HandleRemove", "fast.example.", "www.fast.example.", 0},
		{"HandleRemove", "slow.example.", "y.slow.example.", 0}, // removes the running handler
		{"HandleRemove", "never.registered.", "www.fast.example.", fastID},
		{"HandleFunc", "fast.example.", "www.FAST.example.", newID},
	}
	for _, s := range scens {
		if muxHung {
			return
		}
		mux := dns.NewServeMux()
		slow := &parkH{id: slowID, entered: make(chan struct{}), release: make(chan struct{})}
		mux.Handle("slow.example.", slow)
		mux.Handle("fast.example.", hid(fastID))
		ops := []muxOp{{true, "slow.example.", slowID}, {true, "fast.example.", fastID}}
		in := reIn{History: opsString(ops), Name: s.then, Qtype: dns.TypeA,
			What: "request 1 (q.slow.example. A) is parked in its handler; then " + s.op + "(" + s.pattern + ") from another goroutine; then the question; then request 1 is released"}
		w1 := &recWriter{handler: -1}
		req1 := new(dns.Msg)
		req1.SetQuestion("q.slow.example.", dns.TypeA)
		g1 := make(chan struct{})
		go func() {
			defer close(g1)
			Protect(func() string { mux.ServeDNS(w1, req1); return "" })
		}()
		released := false
		release := func() {
			if !released {
				released = true
				close(slow.release)
			}
		}
		if !netfake.WaitChan(slow.entered, muxWatchdog) {
			muxHung = true
			Viol("C14/Mux/dispatch-blocked", "request 1 never reached its handler", in)
			release()
			return
		}
		// the registration, while request 1 is parked
		if !returnsInTime(func() {
			switch s.op {
			case "Handle":
				mux.Handle(s.pattern, hid(newID))
			case "HandleFunc":
				mux.HandleFunc(s.pattern, hid(newID).ServeDNS)
			default:
				mux.HandleRemove(s.pattern)
			}
		}) {
			muxHung = true
			Viol("C14/Mux/handle-blocked-by-running-handler", fmt.Sprintf("%s(%s) did not return within %v while a handler of another request was still running", s.op, s.pattern, muxWatchdog), in)
			release()
			return
		}
		if s.op == "HandleRemove" {
			ops = append(ops, muxOp{false, s.pattern, 0})
		} else {
			ops = append(ops, muxOp{true, s.pattern, newID})
		}
		// request 2, while request 1 is still parked
		w2 := &recWriter{handler: -1}
		req2 := new(dns.Msg)
		req2.SetQuestion(s.then, dns.TypeA)
		if !returnsInTime(func() { mux.ServeDNS(w2, req2) }) {
			muxHung = true
			Viol("C14/Mux/dispatch-blocked-by-running-handler", fmt.Sprintf("after %s(%s): the request was not passed to a handler (nor refused) within %v while the handler of another request was still running", s.op, s.pattern, muxWatchdog), in)
			release()
			return
		}
		stat["mux_parked_checked"]++
		got := 0
		out := "refused"
		if w2.handler >= 0 {
			got = w2.handler
			out = "handler:" + Itoa(got)
		}
		Emit("muxserve", []string{opsString(ops), Hs(s.then) + ":1"}, out)
		stat["muxserve_cases"]++
		if got != s.want {
			Viol("C14/Mux/longest-suffix", fmt.Sprintf("after %s(%s) made while another handler was running: %s went to handler %d, want %d (0 = REFUSED)", s.op, s.pattern, s.then, got, s.want), in)
		}
		if got == 0 {
			if len(w2.msgs) != 1 {
				Viol("C14/Mux/refused-missing", "no handler matched but no single REFUSED reply was written", in)
			} else {
				refusedOracle(req2, w2.msgs[0], in)
			}
		}
		release()
		if !netfake.WaitChan(g1, muxWatchdog) {
			muxHung = true
			Viol("C14/Mux/dispatch-blocked", "request 1 did not complete after its handler was released", in)
			return
		}
		if w1.handler != slowID || len(w1.msgs) != 1 {
			Viol("C14/Mux/longest-suffix", fmt.Sprintf("request 1 (q.slow.example.) went to handler %d and got %d replies", w1.handler, len(w1.msgs)), in)
		}
	}
}

// ------------------------------------------------------------------ 3. many at once

func runSelfModifyingConcurrent(tier string) {
	if muxHung {
		return
	}
	iters := 300
	if tier == "thorough" {
		iters = 5000
	}
	mux := dns.NewServeMux()
	var wrong atomic.Int64
	for g := 0; g < 8; g++ {
		g := g
		mux.HandleFunc(fmt.Sprintf("g%d.test.", g), func(w dns.ResponseWriter, req *dns.Msg) {
			if rw, ok := w.(*recWriter); ok {
				rw.handler = 100 + g
			}
			p := fmt.Sprintf("scratch%d.test.", g)
			mux.Handle(p, hid(200+g))
			w2 := &recWriter{handler: -1}
			q := new(dns.Msg)
			q.SetQuestion("in."+p, dns.TypeA)
			mux.ServeDNS(w2, q) // forwarded to the pattern just added
			if w2.handler != 200+g {
				wrong.Add(1)
			}
			mux.HandleRemove(p)
		})
	}
	ok := returnsInTime(func() {
		var wg sync.WaitGroup
		for g := 0; g < 8; g++ {
			wg.Add(1)
			go func(g int) {
				defer wg.Done()
				for i := 0; i < iters; i++ {
					w := &recWriter{handler: -1}
					q := new(dns.Msg)
					q.SetQuestion(fmt.Sprintf("n%d.g%d.test.", i, g), dns.TypeA)
					mux.ServeDNS(w, q)
					if w.handler != 100+g {
						wrong.Add(1)
					}
				}
			}(g)
		}
		wg.Wait()
	})
	in := map[string]any{"scenario": "8 goroutines x ServeDNS(n<i>.g<k>.test.), each handler: Handle(scratch<k>.test.), ServeDNS(in.scratch<k>.test.), HandleRemove(scratch<k>.test.) on the same mux"}
	if !ok {
		muxHung = true
		Viol("C14/Mux/handler-registration-blocked", fmt.Sprintf("concurrent requests whose handlers add and remove patterns of their own mux did not complete within %v", muxWatchdog), in)
		return
	}
	stat["mux_reentrant_concurrent_checked"] = 8 * iters
	if n := wrong.Load(); n != 0 {
		Viol("C14/Mux/concurrent", fmt.Sprintf("%d requests went to another handler than the one registered for their zone", n), in)
	}
}

// ------------------------------------------------------------------ 4. DefaultServeMux through the package-level functions

func runDefaultMuxReentrant() {
	if muxHung {
		return
	}
	const zone = "once.c14-harness.test."
	in := map[string]any{"scenario": "dns.HandleFunc(" + zone + ", first); first calls dns.HandleRemove(" + zone + ") and dns.HandleFunc(" + zone + ", second); two requests through dns.DefaultServeMux.ServeDNS"}
	second := func(w dns.ResponseWriter, req *dns.Msg) {
		if rw, ok := w.(*recWriter); ok {
			rw.handler = 2
		}
	}
	dns.HandleFunc(zone, func(w dns.ResponseWriter, req *dns.Msg) {
		if rw, ok := w.(*recWriter); ok {
			rw.handler = 1
		}
		dns.HandleRemove(zone)
		dns.HandleFunc(zone, second)
		dns.Handle("learned."+zone, hid(3))
	})
	var got []int
	ok := returnsInTime(func() {
		for _, n := range []string{"a." + zone, "b." + zone, "x.learned." + zone} {
			w := &recWriter{handler: -1}
			q := new(dns.Msg)
			q.SetQuestion(n, dns.TypeA)
			dns.DefaultServeMux.ServeDNS(w, q)
			got = append(got, w.handler)
		}
	})
	if !ok {
		muxHung = true
		Viol("C14/Mux/handler-registration-blocked", fmt.Sprintf("DefaultServeMux.ServeDNS did not return within %v: its handler calls dns.HandleRemove/dns.HandleFunc", muxWatchdog), in)
		return
	}
	stat["mux_reentrant_checked"] += 3
	if fmt.Sprint(got) != "[1 2 3]" {
		Viol("C14/Mux/longest-suffix", "dispatch order "+fmt.Sprint(got)+", want [1 2 3]", in)
	}
	dns.HandleRemove(zone)
	dns.HandleRemove("learned." + zone)
}

// ------------------------------------------------------------------ 5. through the real UDP loop

func runServerReentrant(r *Rng) {
	if muxHung {
		return
	}
	mux := dns.NewServeMux()
	reply := func(w dns.ResponseWriter, req *dns.Msg, who string) {
		m := new(dns.Msg)
		m.SetReply(req)
		m.Answer = []dns.RR{&dns.TXT{Hdr: dns.RR_Header{Name: req.Question[0].Name, Rrtype: dns.TypeTXT, Class: 1}, Txt: []string{who}}}
		w.WriteMsg(m)
	}
	mux.HandleFunc("once.example.", func(w dns.ResponseWriter, req *dns.Msg) {
		mux.HandleRemove("once.example.")
		mux.HandleFunc("ONCE.example", func(w dns.ResponseWriter, req *dns.Msg) { reply(w, req, "second") })
		mux.HandleFunc("learned.example.", func(w dns.ResponseWriter, req *dns.Msg) { reply(w, req, "learned") })
		reply(w, req, "first")
	})
	names := []string{"a.once.example.", "b.Once.Example.", "c.learned.example.", "d.unknown.example."}
	want := []string{"first", "second", "learned", "REFUSED"}
	var ms [][]byte
	for i, n := range names {
		q := new(dns.Msg)
		q.SetQuestion(n, dns.TypeTXT)
		q.Id = uint16(100 + i)
		ms = append(ms, mustPack(q))
	}
	pc := netfake.NewPacketConn(ms, nil)
	var mu sync.Mutex
	got := map[uint16]string{}
	written := make([]chan struct{}, len(ms))
	for i := range written {
		written[i] = make(chan struct{})
	}
	pc.OnWrite = func(_ net.Addr, b []byte) {
		var m dns.Msg
		if m.Unpack(b) != nil {
			return
		}
		s := "rcode" + Itoa(m.Rcode)
		if m.Rcode == dns.RcodeRefused {
			s = "REFUSED"
		} else if len(m.Answer) == 1 {
			s = m.Answer[0].(*dns.TXT).Txt[0]
		}
		mu.Lock()
		_, dup := got[m.Id]
		got[m.Id] += s
		mu.Unlock()
		if k := int(m.Id) - 100; k >= 0 && k < len(written) && !dup {
			close(written[k])
		}
	}
	var orderLost atomic.Bool
	pc.Hold = func(k int) { // datagram k is delivered when datagram k-1 has been answered
		if k > 0 && !netfake.WaitChan(written[k-1], infraWait) {
			orderLost.Store(true)
		}
	}
	srv := &dns.Server{Handler: mux, PacketConn: pc}
	done := make(chan error, 1)
	go func() { done <- srv.ActivateAndServe() }()
	if !netfake.WaitChan(pc.Drained, 5*infraWait) || !netfake.WaitChan(written[len(ms)-1], infraWait) {
		stat["infra_timeout"]++
		go finishServe(srv, done)
		return
	}
	if !finishServe(srv, done) {
		stat["infra_timeout"]++
		return
	}
	if orderLost.Load() { // a reply did not show up in time: the order of the history was not enforced
		stat["infra_timeout"]++
		return
	}
	stat["mux_reentrant_server_checked"] += len(ms)
	mu.Lock()
	defer mu.Unlock()
	for i := range ms {
		if got[uint16(100+i)] != want[i] {
			Viol("C14/Mux/longest-suffix", fmt.Sprintf("through serveUDP with Handler = mux, handler of once.example. replaces itself: %s answered by %q, want %q", names[i], got[uint16(100+i)], want[i]),
				map[string]any{"questions": names, "answered_by": fmt.Sprint(got)})
		}
	}
}

func runMuxReentrant(r *Rng, tier string) {
	rounds := 60
	if tier == "thorough" {
		rounds = 1500
	}
	runSelfModifying(r, rounds)
	runParked(r)
	runSelfModifyingConcurrent(tier)
	runDefaultMuxReentrant()
	runServerReentrant(r)
	if muxHung {
		stat["mux_hang_detected"] = 1
	}
}
