(* Proofs/WireProofs.v — lemmas about the octet walkers of Model/Wire.v:
   list/offset arithmetic, big-endian fields, prefix stability of the strict
   walkers, decoding of explicitly built names and records, fuel sufficiency. *)
From Coq Require Import Lia ZifyN ZifyNat ZifyBool.
From Dns Require Import Base.ListX Model.Wire.
Open Scope N_scope.

Ltac Zify.zify_post_hook ::= Z.div_mod_to_equations.

(* ---------- N-indexed list operations ---------- *)
Lemma lenN_app {A} (a b : list A) : lenN (a ++ b) = lenN a + lenN b.
Proof. unfold lenN. rewrite app_length. lia. Qed.
Lemma lenN_nil {A} : lenN (@nil A) = 0.
Proof. reflexivity. Qed.
Lemma lenN_cons {A} (x : A) l : lenN (x :: l) = 1 + lenN l.
Proof. unfold lenN. cbn [length]. lia. Qed.
Lemma lenN_nat {A} (l : list A) : N.to_nat (lenN l) = length l.
Proof. unfold lenN. lia. Qed.

Lemma takeN_app_le {A} n (a b : list A) : n <= lenN a -> takeN n (a ++ b) = takeN n a.
Proof.
  intros H. unfold takeN. rewrite firstn_app.
  replace (N.to_nat n - length a)%nat with 0%nat by (unfold lenN in H; lia).
  cbn. apply app_nil_r.
Qed.
Lemma takeN_all {A} (a : list A) : takeN (lenN a) a = a.
Proof. unfold takeN. rewrite lenN_nat. apply firstn_all. Qed.
Lemma takeN_app_exact {A} (a b : list A) : takeN (lenN a) (a ++ b) = a.
Proof. rewrite takeN_app_le by lia. apply takeN_all. Qed.
Lemma lenN_takeN {A} n (a : list A) : n <= lenN a -> lenN (takeN n a) = n.
Proof. intros H. unfold lenN, takeN in *. rewrite firstn_length. lia. Qed.
Lemma dropN_app_exact {A} (a b : list A) : dropN (lenN a) (a ++ b) = b.
Proof. unfold dropN. rewrite lenN_nat. apply skipn_app_exact. Qed.
Lemma dropN_app_le {A} n (a b : list A) : n <= lenN a -> dropN n (a ++ b) = dropN n a ++ b.
Proof.
  intros H. unfold dropN. rewrite skipn_app.
  replace (N.to_nat n - length a)%nat with 0%nat by (unfold lenN in H; lia). reflexivity.
Qed.
Lemma dropN_app_ge {A} n (a b : list A) : lenN a <= n -> dropN n (a ++ b) = dropN (n - lenN a) b.
Proof.
  intros H. unfold dropN. rewrite skipn_app.
  rewrite skipn_all2 by (unfold lenN in H; lia). cbn.
  f_equal. unfold lenN in *. lia.
Qed.
Lemma lenN_dropN {A} n (a : list A) : lenN (dropN n a) = lenN a - n.
Proof. unfold lenN, dropN. rewrite skipn_length. lia. Qed.
Lemma dropN_0 {A} (a : list A) : dropN 0 a = a.
Proof. reflexivity. Qed.
Lemma take_drop {A} n (a : list A) : takeN n a ++ dropN n a = a.
Proof. apply firstn_skipn. Qed.

Lemma nthN_app_l (a b : bytes) i d : i < lenN a -> nthN (a ++ b) i d = nthN a i d.
Proof. intros H. unfold nthN. apply app_nth1. unfold lenN in H. lia. Qed.
Lemma nthN_app_r (a b : bytes) i d : lenN a <= i -> nthN (a ++ b) i d = nthN b (i - lenN a) d.
Proof.
  intros H. unfold nthN. rewrite app_nth2 by (unfold lenN in H; lia).
  f_equal. unfold lenN in *. lia.
Qed.

Lemma get_app_l (a b : bytes) off n : off + n <= lenN a -> get (a ++ b) off n = get a off n.
Proof.
  intros H. unfold get. rewrite dropN_app_le by lia.
  apply takeN_app_le. rewrite lenN_dropN. lia.
Qed.
Lemma get_app_r (a b : bytes) off n : lenN a <= off -> get (a ++ b) off n = get b (off - lenN a) n.
Proof. intros H. unfold get. now rewrite dropN_app_ge. Qed.
Lemma get_exact (pre x post : bytes) : get (pre ++ x ++ post) (lenN pre) (lenN x) = x.
Proof. unfold get. rewrite dropN_app_exact. apply takeN_app_exact. Qed.
Lemma lenN_get (m : bytes) off n : off + n <= lenN m -> lenN (get m off n) = n.
Proof. intros H. unfold get. apply lenN_takeN. rewrite lenN_dropN. lia. Qed.

(* ---------- results ---------- *)
Lemma bind_ok {A B} (r : res A) (f : A -> res B) b :
  bind r f = Ok b -> exists a, r = Ok a /\ f a = Ok b.
Proof. destruct r; cbn; intros H; try discriminate. eauto. Qed.

Ltac inv_bind H :=
  let a := fresh "a" in let Ha := fresh "Ha" in
  apply bind_ok in H; destruct H as (a & Ha & H).

(* ---------- UnpackDomainName: prefix stability ---------- *)
Lemma name_loop_app f : forall msg s off b p o1 acc r,
  name_loop f msg off b p o1 acc = Ok r -> name_loop f (msg ++ s) off b p o1 acc = Ok r.
Proof.
  induction f as [|f IH]; intros msg s off b p o1 acc r H; [discriminate|].
  cbn [name_loop] in *.
  destruct (lenN msg <=? off) eqn:E1; [discriminate|].
  apply N.leb_gt in E1.
  assert (L : lenN (msg ++ s) = lenN msg + lenN s) by apply lenN_app.
  replace (lenN (msg ++ s) <=? off) with false by (symmetry; apply N.leb_gt; lia).
  rewrite nthN_app_l by lia.
  set (c := nthN msg off 0) in *.
  destruct (c <? 64) eqn:E2.
  - destruct (c =? 0) eqn:E3; [exact H|].
    destruct (lenN msg <? off + 1 + c) eqn:E4; [discriminate|].
    apply N.ltb_ge in E4.
    replace (lenN (msg ++ s) <? off + 1 + c) with false by (symmetry; apply N.ltb_ge; lia).
    destruct (b <=? c + 1) eqn:E5; [discriminate|].
    rewrite get_app_l by lia. now apply IH.
  - destruct ((192 <=? c) && (c <? 256)) eqn:E3; [|discriminate].
    destruct (lenN msg <=? off + 1) eqn:E4; [discriminate|].
    apply N.leb_gt in E4.
    replace (lenN (msg ++ s) <=? off + 1) with false by (symmetry; apply N.leb_gt; lia).
    rewrite nthN_app_l by lia.
    destruct (max_ptrs <? p + 1) eqn:E5; [discriminate|].
    now apply IH.
Qed.

Lemma unpack_name_app msg s off r :
  unpack_name msg off = Ok r -> unpack_name (msg ++ s) off = Ok r.
Proof. unfold unpack_name. apply name_loop_app. Qed.

(* a successful decode starts inside the message and ends inside it *)
Lemma name_loop_bounds f : forall msg off b p o1 acc ls o,
  name_loop f msg off b p o1 acc = Ok (ls, o) ->
  off < lenN msg /\ (p = 0 -> off < o <= lenN msg) /\ (p <> 0 -> o = o1).
Proof.
  induction f as [|f IH]; intros msg off b p o1 acc ls o H; [discriminate|].
  cbn [name_loop] in H.
  destruct (lenN msg <=? off) eqn:E1; [discriminate|]. apply N.leb_gt in E1.
  set (c := nthN msg off 0) in *.
  destruct (c <? 64) eqn:E2.
  - destruct (c =? 0) eqn:E3.
    + inversion H; subst. destruct (p =? 0) eqn:Ep.
      * apply N.eqb_eq in Ep. split; [lia|]. split; intros; lia.
      * apply N.eqb_neq in Ep. split; [lia|]. split; intros; [lia|reflexivity].
    + destruct (lenN msg <? off + 1 + c) eqn:E4; [discriminate|]. apply N.ltb_ge in E4.
      destruct (b <=? c + 1) eqn:E5; [discriminate|].
      apply IH in H. destruct H as (H1 & H2 & H3). split; [lia|]. split.
      * intros Hp. specialize (H2 Hp). lia.
      * intros Hp. now apply H3.
  - destruct ((192 <=? c) && (c <? 256)) eqn:E3; [|discriminate].
    destruct (lenN msg <=? off + 1) eqn:E4; [discriminate|]. apply N.leb_gt in E4.
    destruct (max_ptrs <? p + 1) eqn:E5; [discriminate|].
    apply IH in H. destruct H as (H1 & H2 & H3).
    assert (Hn : p + 1 <> 0) by lia. specialize (H3 Hn).
    destruct (p =? 0) eqn:Ep.
    + apply N.eqb_eq in Ep. subst o. split; [lia|]. split; intros; lia.
    + apply N.eqb_neq in Ep. split; [lia|]. split; intros; [lia|exact H3].
Qed.

Lemma unpack_name_bounds msg off ls o :
  unpack_name msg off = Ok (ls, o) -> off < o <= lenN msg.
Proof.
  unfold unpack_name. intros H. apply name_loop_bounds in H. destruct H as (_ & H & _). now apply H.
Qed.

(* ---------- decoding an explicitly built (uncompressed) name ---------- *)
Lemma label_ok_len l : label_ok l = true -> 1 <= lenN l <= 63.
Proof.
  unfold label_ok. intros H. apply andb_prop in H. destruct H as [H _].
  apply andb_prop in H. destruct H as [H1 H2].
  apply N.leb_le in H1. apply N.leb_le in H2. lia.
Qed.

Lemma name_loop_wire ls : forall f pre post b o1 acc,
  labels_ok ls = true -> lenN (wire_labels ls) < b -> (length ls < f)%nat ->
  name_loop f (pre ++ wire_labels ls ++ 0 :: post) (lenN pre) b 0 o1 acc =
  Ok (rev acc ++ ls, lenN pre + lenN (wire_labels ls) + 1).
Proof.
  induction ls as [|l ls IH]; intros f pre post b o1 acc Hok Hb Hf.
  - destruct f as [|f]; [cbn in Hf; lia|]. cbn [wire_labels flat_map app name_loop].
    rewrite lenN_app, lenN_cons.
    replace (lenN pre + (1 + lenN post) <=? lenN pre) with false by (symmetry; apply N.leb_gt; lia).
    rewrite nthN_app_r by lia. rewrite N.sub_diag. cbn [nthN N.to_nat nth].
    cbn. rewrite app_nil_r. f_equal. f_equal. cbn. lia.
  - destruct f as [|f]; [cbn in Hf; lia|].
    cbn [labels_ok forallb] in Hok. apply andb_prop in Hok. destruct Hok as [Hl Hok].
    pose proof (label_ok_len _ Hl) as Hlen.
    cbn [wire_labels flat_map] in *. fold (wire_labels ls) in *.
    rewrite lenN_app, lenN_cons in Hb.
    cbn [name_loop].
    set (msg := pre ++ ((lenN l :: l) ++ wire_labels ls) ++ 0 :: post).
    assert (Hmsg : msg = (pre ++ lenN l :: l) ++ wire_labels ls ++ 0 :: post).
    { unfold msg. rewrite <- !app_assoc. reflexivity. }
    assert (Hlm : lenN msg = lenN pre + (1 + lenN l) + lenN (wire_labels ls) + 1 + lenN post).
    { rewrite Hmsg. rewrite !lenN_app, !lenN_cons. lia. }
    replace (lenN msg <=? lenN pre) with false by (symmetry; apply N.leb_gt; lia).
    assert (Hc : nthN msg (lenN pre) 0 = lenN l).
    { unfold msg. rewrite nthN_app_r by lia. rewrite N.sub_diag. reflexivity. }
    rewrite Hc.
    replace (lenN l <? 64) with true by (symmetry; apply N.ltb_lt; lia).
    replace (lenN l =? 0) with false by (symmetry; apply N.eqb_neq; lia).
    replace (lenN msg <? lenN pre + 1 + lenN l) with false by (symmetry; apply N.ltb_ge; lia).
    replace (b <=? lenN l + 1) with false by (symmetry; apply N.leb_gt; lia).
    assert (Hg : get msg (lenN pre + 1) (lenN l) = l).
    { unfold msg. replace (pre ++ ((lenN l :: l) ++ wire_labels ls) ++ 0 :: post)
        with ((pre ++ [lenN l]) ++ l ++ (wire_labels ls ++ 0 :: post)).
      - replace (lenN pre + 1) with (lenN (pre ++ [lenN l])) by (rewrite lenN_app; reflexivity).
        apply get_exact.
      - rewrite <- !app_assoc. reflexivity. }
    rewrite Hg. rewrite Hmsg.
    replace (lenN pre + 1 + lenN l) with (lenN (pre ++ lenN l :: l)) by (rewrite lenN_app, lenN_cons; lia).
    rewrite IH; [|assumption|lia|cbn in Hf; lia].
    cbn [rev]. rewrite <- app_assoc. cbn [app]. f_equal. f_equal.
    repeat (rewrite lenN_app || rewrite lenN_cons). lia.
Qed.

Lemma wire_len_labels ls : wire_len ls = lenN (wire_labels ls) + 1.
Proof. unfold wire_len, wire_name. rewrite lenN_app. reflexivity. Qed.

Lemma valid_wire_parts ls :
  valid_wire ls = true -> labels_ok ls = true /\ lenN (wire_labels ls) <= 254.
Proof.
  unfold valid_wire. intros H. apply andb_prop in H. destruct H as [H1 H2].
  apply N.leb_le in H2. rewrite wire_len_labels in H2. split; [assumption|lia].
Qed.

Lemma wire_labels_count ls : labels_ok ls = true -> (2 * N.of_nat (length ls) <= lenN (wire_labels ls)).
Proof.
  induction ls as [|l ls IH]; intros H; [cbn; lia|].
  cbn [labels_ok forallb] in H. apply andb_prop in H. destruct H as [Hl H].
  pose proof (label_ok_len _ Hl). specialize (IH H).
  cbn [wire_labels flat_map]. fold (wire_labels ls).
  rewrite lenN_app, lenN_cons. cbn [length]. lia.
Qed.

(* UnpackDomainName gives back the labels of a valid name packed without compression *)
Lemma unpack_name_wire pre ls post :
  valid_wire ls = true ->
  unpack_name (pre ++ wire_name ls ++ post) (lenN pre) = Ok (ls, lenN pre + lenN (wire_name ls)).
Proof.
  intros H. apply valid_wire_parts in H. destruct H as [H1 H2].
  unfold unpack_name, wire_name. rewrite <- app_assoc. cbn [app].
  pose proof (wire_labels_count _ H1) as Hc.
  rewrite name_loop_wire; try assumption.
  - cbn [rev app]. f_equal. f_equal. rewrite lenN_app. cbn. lia.
  - unfold name_budget. lia.
  - unfold name_fuel. lia.
Qed.

(* ---------- big-endian fields ---------- *)
Lemma be_u16 v : be (u16 v) 0 = v mod 65536.
Proof. unfold u16. cbn [be]. lia. Qed.
Lemma be_u32 v : be (u32 v) 0 = v mod 4294967296.
Proof. unfold u32. cbn [be]. lia. Qed.
Lemma be_app a b acc : be (a ++ b) acc = be b (be a acc).
Proof. revert acc. induction a as [|x a IH]; intros acc; cbn; [reflexivity|apply IH]. Qed.
Lemma be_u32_acc v acc : be (u32 v) acc = acc * 4294967296 + v mod 4294967296.
Proof. unfold u32. cbn [be]. lia. Qed.
Lemma be_u48 v : be (u48 v) 0 = v mod 281474976710656.
Proof.
  unfold u48. rewrite be_app, be_u16, be_u32_acc.
  assert (H : v mod 4294967296 mod 4294967296 = v mod 4294967296) by (apply N.mod_mod; lia).
  rewrite H. lia.
Qed.
Lemma len_u16 v : lenN (u16 v) = 2. Proof. reflexivity. Qed.
Lemma len_u32 v : lenN (u32 v) = 4. Proof. reflexivity. Qed.
Lemma len_u48 v : lenN (u48 v) = 6. Proof. reflexivity. Qed.

(* ---------- the cursor view: what lies at offset off ---------- *)
Lemma split_at (msg : bytes) off :
  off <= lenN msg -> msg = takeN off msg ++ dropN off msg /\ lenN (takeN off msg) = off.
Proof. intros H. split; [symmetry; apply take_drop|now apply lenN_takeN]. Qed.

Lemma dropN_add {A} (l : list A) a b : dropN (a + b) l = dropN b (dropN a l).
Proof.
  unfold dropN. rewrite skipn_skipn. f_equal. lia.
Qed.

Lemma rd_view n msg off enc rest :
  off <= lenN msg -> dropN off msg = enc ++ rest -> lenN enc = n ->
  rd n msg off = Ok (be enc 0, off + n) /\ off + n <= lenN msg /\ dropN (off + n) msg = rest.
Proof.
  intros Hoff Hd Hn.
  assert (Hl : lenN msg - off = n + lenN rest).
  { rewrite <- lenN_dropN, Hd, lenN_app. lia. }
  unfold rd, get. rewrite Hd.
  replace (lenN msg <? off + n) with false by (symmetry; apply N.ltb_ge; lia).
  subst n. rewrite takeN_app_exact. split; [reflexivity|]. split; [lia|].
  rewrite dropN_add, Hd. apply dropN_app_exact.
Qed.

Lemma rd_hex_view n m off enc rest :
  off <= lenN m -> dropN off m = enc ++ rest -> lenN enc = n ->
  rd_hex m off n = Ok (enc, off + n) /\ off + n <= lenN m /\ dropN (off + n) m = rest.
Proof.
  intros Hoff Hd Hn.
  assert (Hl : lenN m - off = n + lenN rest).
  { rewrite <- lenN_dropN, Hd, lenN_app. lia. }
  unfold rd_hex, get. rewrite Hd.
  replace (lenN m <? off + n) with false by (symmetry; apply N.ltb_ge; lia).
  subst n. rewrite takeN_app_exact. split; [reflexivity|]. split; [lia|].
  rewrite dropN_add, Hd. apply dropN_app_exact.
Qed.

Lemma name_view msg off ls rest :
  off <= lenN msg -> dropN off msg = wire_name ls ++ rest -> valid_wire ls = true ->
  unpack_name msg off = Ok (ls, off + lenN (wire_name ls)) /\
  off + lenN (wire_name ls) <= lenN msg /\ dropN (off + lenN (wire_name ls)) msg = rest.
Proof.
  intros Hoff Hd Hv.
  destruct (split_at msg off Hoff) as [Hs Hl].
  assert (Hll : lenN msg - off = lenN (wire_name ls) + lenN rest).
  { rewrite <- lenN_dropN, Hd, lenN_app. lia. }
  split; [|split; [lia|]].
  - rewrite Hs, Hd. rewrite <- Hl at 2 3. now apply unpack_name_wire.
  - rewrite dropN_add, Hd. apply dropN_app_exact.
Qed.

(* prefix stability of the field readers *)
Lemma rd_app n msg s off r : rd n msg off = Ok r -> rd n (msg ++ s) off = Ok r.
Proof.
  unfold rd. destruct (lenN msg <? off + n) eqn:E; [discriminate|]. apply N.ltb_ge in E.
  rewrite lenN_app. replace (lenN msg + lenN s <? off + n) with false by (symmetry; apply N.ltb_ge; lia).
  now rewrite get_app_l by lia.
Qed.
Lemma rd_bounds n msg off v o : rd n msg off = Ok (v, o) -> o = off + n /\ o <= lenN msg.
Proof.
  unfold rd. destruct (lenN msg <? off + n) eqn:E; [discriminate|]. apply N.ltb_ge in E.
  intros H. inversion H. lia.
Qed.

(* ---------- strict framing is stable under appending octets, and the
   lenient walkers of the Go code agree with it ---------- *)
Lemma unpack_question_ext st msg s off o :
  unpack_question true msg off = Ok o ->
  unpack_question st (msg ++ s) off = Ok o /\ off < o <= lenN msg.
Proof.
  unfold unpack_question. intros H.
  inv_bind H. destruct a as [ls o1].
  cbn [negb andb] in H.
  inv_bind H. destruct a as [ty o2].
  inv_bind H. destruct a as [cl o3]. inversion H; subst o3; clear H.
  pose proof (unpack_name_bounds _ _ _ _ Ha) as B1.
  pose proof (rd_bounds _ _ _ _ _ Ha0) as B2. pose proof (rd_bounds _ _ _ _ _ Ha1) as B3.
  split; [|lia].
  rewrite (unpack_name_app _ s _ _ Ha). cbn [bind].
  rewrite lenN_app.
  replace (o1 =? lenN msg + lenN s) with false by (symmetry; apply N.eqb_neq; lia).
  rewrite andb_false_r.
  rewrite (rd_app _ _ s _ _ Ha0). cbn [bind].
  replace (o2 =? lenN msg + lenN s) with false by (symmetry; apply N.eqb_neq; lia).
  rewrite andb_false_r.
  rewrite (rd_app _ _ s _ _ Ha1). reflexivity.
Qed.

Lemma skip_questions_S n strict msg off :
  skip_questions (S n) strict msg off =
  bind (unpack_question strict msg off) (fun o => skip_questions n strict msg o).
Proof. reflexivity. Qed.

Lemma skip_questions_ext st n : forall msg s off o,
  skip_questions n true msg off = Ok o -> skip_questions n st (msg ++ s) off = Ok o.
Proof.
  induction n as [|n IH]; intros msg s off o H; [exact H|].
  rewrite skip_questions_S in H. inv_bind H.
  destruct (unpack_question_ext st _ s _ _ Ha) as [E _].
  rewrite skip_questions_S, E. cbn [bind]. now apply IH.
Qed.

Section RdataFacts.
  Variable chk : N -> bytes -> N -> res N.

  (* a record decoded in strict mode lies inside the message; appending octets
     changes nothing, and the Go (lenient) decoder returns the same *)
  Lemma unpack_rr_ext st msg s off r o :
    unpack_rr chk true msg off = Ok (r, o) ->
    unpack_rr chk st (msg ++ s) off = Ok (r, o) /\ off < o <= lenN msg.
  Proof.
    unfold unpack_rr. cbn [negb andb]. intros H.
    inv_bind H. destruct a as [name o1].
    inv_bind H. destruct a as [ty o2].
    inv_bind H. destruct a as [cl o3].
    inv_bind H. destruct a as [ttl o4].
    inv_bind H. destruct a as [rdlen o5].
    pose proof (unpack_name_bounds _ _ _ _ Ha) as B1.
    pose proof (rd_bounds _ _ _ _ _ Ha0) as B2. pose proof (rd_bounds _ _ _ _ _ Ha1) as B3.
    pose proof (rd_bounds _ _ _ _ _ Ha2) as B4. pose proof (rd_bounds _ _ _ _ _ Ha3) as B5.
    destruct (lenN msg <? o5 + rdlen) eqn:E; [discriminate|]. apply N.ltb_ge in E.
    assert (Ho : off < o <= lenN msg).
    { destruct (rdlen =? 0) eqn:E0; [inversion H; subst; lia|].
      destruct (ty =? TypeTSIG) eqn:Et.
      - inv_bind H. destruct a as [t o']. destruct (o' =? o5 + rdlen) eqn:Eo; [|discriminate].
        apply N.eqb_eq in Eo. inversion H; subst. lia.
      - inv_bind H. destruct (a =? o5 + rdlen) eqn:Eo; [|discriminate].
        apply N.eqb_eq in Eo. inversion H; subst. lia. }
    split; [|exact Ho].
    rewrite lenN_app.
    replace (off =? lenN msg + lenN s) with false by (symmetry; apply N.eqb_neq; lia).
    rewrite andb_false_r.
    rewrite (unpack_name_app _ s _ _ Ha). cbn [bind].
    rewrite (rd_app _ _ s _ _ Ha0). cbn [bind].
    rewrite (rd_app _ _ s _ _ Ha1). cbn [bind].
    rewrite (rd_app _ _ s _ _ Ha2). cbn [bind].
    rewrite (rd_app _ _ s _ _ Ha3). cbn [bind].
    replace (lenN msg + lenN s <? o5 + rdlen) with false by (symmetry; apply N.ltb_ge; lia).
    rewrite takeN_app_le by lia. exact H.
  Qed.

  Lemma skip_rrs_S n strict msg off :
    skip_rrs chk (S n) strict msg off =
    bind (unpack_rr chk strict msg off)
         (fun p => let '(_, o) := p in if o =? off then Ok off else skip_rrs chk n strict msg o).
  Proof. reflexivity. Qed.

  Lemma skip_rrs_ext st n : forall msg s off o,
    skip_rrs chk n true msg off = Ok o ->
    skip_rrs chk n st (msg ++ s) off = Ok o.
  Proof.
    induction n as [|n IH]; intros msg s off o H; [exact H|].
    rewrite skip_rrs_S in H. inv_bind H. destruct a as [r o1].
    destruct (unpack_rr_ext st _ s _ _ _ Ha) as [E B]. rewrite skip_rrs_S, E. cbn [bind].
    replace (o1 =? off) with false in * by (symmetry; apply N.eqb_neq; lia).
    now apply IH.
  Qed.
End RdataFacts.

(* ---------- the recursion budget of the name decoder is never exhausted ---------- *)
Lemma name_loop_fuel f : forall msg off b p o1 acc,
  (N.to_nat b + (127 - N.to_nat p) + 1 <= f)%nat -> p <= 127 ->
  name_loop f msg off b p o1 acc <> OutOfFuel.
Proof.
  induction f as [|f IH]; intros msg off b p o1 acc Hf Hp; [lia|].
  cbn [name_loop].
  destruct (lenN msg <=? off); [discriminate|].
  set (c := nthN msg off 0).
  destruct (c <? 64) eqn:E2.
  - destruct (c =? 0) eqn:E3; [discriminate|]. apply N.eqb_neq in E3.
    destruct (lenN msg <? off + 1 + c); [discriminate|].
    destruct (b <=? c + 1) eqn:E5; [discriminate|]. apply N.leb_gt in E5.
    apply IH; lia.
  - destruct ((192 <=? c) && (c <? 256)); [|discriminate].
    destruct (lenN msg <=? off + 1); [discriminate|].
    destruct (max_ptrs <? p + 1) eqn:E5; [discriminate|]. apply N.ltb_ge in E5. unfold max_ptrs in E5.
    apply IH; lia.
Qed.

Theorem unpack_name_total msg off : unpack_name msg off <> OutOfFuel.
Proof. unfold unpack_name. apply name_loop_fuel; unfold name_budget, name_fuel; lia. Qed.
