(* Corr/C18.v — case runner for the SIG(0) model. *)
From Dns Require Import Model.Sig0.
Open Scope N_scope.

(* linear-time split (the tables hold thousands of hex digits) *)
Fixpoint split_rev (sep : ascii) (s : string) (cur : list ascii) (acc : list string) : list string :=
  match s with
  | EmptyString => rev (string_of_list_ascii (rev cur) :: acc)
  | String c r =>
    if Ascii.eqb c sep then split_rev sep r [] (string_of_list_ascii (rev cur) :: acc)
    else split_rev sep r (c :: cur) acc
  end.
Definition split_lin (sep : ascii) (s : string) : list string :=
  match s with EmptyString => [] | _ => split_rev sep s [] [] end.

Definition split_str := split_lin.

Definition labels_of (w : bytes) : list label :=
  match unpack_name w 0 with Ok (ls, _) => ls | _ => [] end.

(* signing oracle: datahex:ok:sighex or datahex:err:class, filled by the harness
   from the run of the real signer; other data: a signer error *)
Definition sign_inst (desc : string) (alg : N) (data : bytes) : res bytes :=
  match split_str ":" desc with
  | [d; k; v] =>
    if bytes_eqb (unhex d) data then (if String.eqb k "ok" then Ok (unhex v) else Err v)
    else Err "wrongdata"
  | _ => Err "nosigner"
  end.
(* verification oracle: datahex:sighex:class:default with class = ok or an error class,
   computed by the harness with crypto/* called directly on its own digest input;
   anything else does not verify *)
Definition check_inst (desc : string) (alg : N) (data sg : bytes) : res unit :=
  match split_str ":" desc with
  | [d; s; v; dflt] =>
    if bytes_eqb (unhex d) data && bytes_eqb (unhex s) sg && negb (String.eqb v "") then
      (if String.eqb v "ok" then Ok tt else Err v)
    else Err dflt
  | _ => Err "sig"
  end.

Definition boolarg (s : string) : bool := String.eqb s "true".
Definition show_unit (_ : unit) : string := "".

(* alg expire incept keytag named signerwire, starting at i *)
Definition sig_args (args : list string) (i : nat) : sigrr :=
  Build_sigrr (undec (arg args i)) (undec (arg args (i + 1))) (undec (arg args (i + 2)))
              (undec (arg args (i + 3))) (boolarg (arg args (i + 4))) (labels_of (unhex (arg args (i + 5)))).

(* ---------- large messages (size boundaries): described by a recipe ----------
   A 64 KiB literal is too much for the parser, so the harness run-length encodes
   the octets: recipe = seg,seg,... with seg = hex (literal) or hex*count (the
   chunk repeated count times); both sides expand it.  Long octet strings are
   rendered as length.sum.sum-of-prefix-sums (Fletcher without modulus: below 2^41). *)
Fixpoint rep_bytes (n : nat) (c acc : bytes) : bytes :=
  match n with O => acc | S k => rep_bytes k c (c ++ acc) end.
Definition expand_seg (s : string) : bytes :=
  match split_lin "*" s with
  | [h; n] => rep_bytes (N.to_nat (undec n)) (unhex h) []
  | [h] => unhex h
  | _ => []
  end.
Definition expand (s : string) : bytes := concat (map expand_seg (split_lin "," s)).

Fixpoint dig_go (b : bytes) (s1 s2 : N) : N * N :=
  match b with
  | [] => (s1, s2)
  | x :: r => let s1 := s1 + x in dig_go r s1 (s2 + s1)
  end.
Definition digest (b : bytes) : string :=
  let '(s1, s2) := dig_go b 0 0 in dec (lenN b) +++ "." +++ dec s1 +++ "." +++ dec s2.

(* signing oracle for large inputs: digest:ok:sighex / digest:err:class *)
Definition sign_inst_big (desc : string) (alg : N) (data : bytes) : res bytes :=
  match split_lin ":" desc with
  | [d; k; v] =>
    if String.eqb d (digest data) then (if String.eqb k "ok" then Ok (unhex v) else Err v)
    else Err "wrongdata"
  | _ => Err "nosigner"
  end.
(* verification oracle for large inputs: digest:sighex:class:default *)
Definition check_inst_big (desc : string) (alg : N) (data sg : bytes) : res unit :=
  match split_lin ":" desc with
  | [d; s; v; dflt] =>
    if String.eqb d (digest data) && bytes_eqb (unhex s) sg && negb (String.eqb v "") then
      (if String.eqb v "ok" then Ok tt else Err v)
    else Err dflt
  | _ => Err "sig"
  end.
(* a signed message: digest, the header, everything from the SIG record on *)
Definition show_big (mlen : N) (out : bytes) : string :=
  digest out +++ ":" +++ hex (takeN 12 out) +++ ":" +++ hex (dropN mlen out).

Definition run (fn : string) (args : list string) : string :=
  if String.eqb fn "sign" then
    show_res hex (sig0_sign (sign_inst (arg args 8)) (undec (arg args 0))
                            (unhex (arg args 1)) (sig_args args 2))
  else if String.eqb fn "verify" then
    show_res show_unit (sig0_verify (check_inst (arg args 9)) (sig_args args 0)
                                    (labels_of (unhex (arg args 6))) (unhex (arg args 7))
                                    (undec (arg args 8)))
  else if String.eqb fn "signbig" then
    let mbuf := expand (arg args 1) in
    show_res (show_big (lenN mbuf))
             (sig0_sign (sign_inst_big (arg args 8)) (undec (arg args 0)) mbuf (sig_args args 2))
  else if String.eqb fn "verifybig" then
    show_res show_unit (sig0_verify (check_inst_big (arg args 9)) (sig_args args 0)
                                    (labels_of (unhex (arg args 6))) (expand (arg args 7))
                                    (undec (arg args 8)))
  else "unknown-fn"%string.
