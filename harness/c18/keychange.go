package main

import (
	"crypto"
	"strconv"
	"time"

	"github.com/miekg/dns"
	. "verif/harness/common"
)

// ---------------------------------------------------------------------------
// (a) KEY objects that change between calls. Verify must decide by the key
// material, algorithm and owner name the KEY holds at the time of the call:
// the same *KEY value re-generated, its PublicKey replaced, its algorithm or
// owner changed and changed back; two different KEY objects with equal key
// tag, owner and algorithm used alternately. Every call is also a model case
// (the model is a function of the KEY's current content, so any memory of an
// earlier call shows as a mismatch).
// ---------------------------------------------------------------------------

type signedMsg struct {
	out []byte
	s   *dns.SIG
}

// signAs: sign m with priv, the SIG naming kobj as it is now.
func signAs(kobj *dns.KEY, priv crypto.Signer, m *dns.Msg) *signedMsg {
	now := uint32(time.Now().Unix())
	s := newSig(keyPair{key: kobj, priv: priv}, now-3000, now+3000)
	out, err := doSign(s, keyPair{key: kobj, priv: priv}, m)
	if err != nil {
		return nil
	}
	return &signedMsg{out, s}
}

// verifyStep: one Verify on the key object as it is now; cur is the private key
// matching the material kobj holds (for the model's signature table).
func verifyStep(history string, kobj *dns.KEY, cur crypto.Signer, sm *signedMsg, wantOK bool) {
	if sm == nil {
		return
	}
	kp := keyPair{key: kobj, priv: cur, name: dns.AlgorithmToString[kobj.Algorithm]}
	var got string
	if cur != nil {
		got = emitVerify(sm.out, sm.s, kp, kobj)
	} else {
		// algorithm and material do not fit each other: no private key describes
		// what the KEY holds, so there is no signature table for the model
		got, _, _, _ = receive(sm.out, sm.s, kobj)
	}
	st["key_change_checked"]++
	in := c18in{Signed: Hx(sm.out), Alg: kp.name, Detail: history, KeyRR: kobj.String()}
	switch {
	case wantOK && got != "ok:":
		Viol("C18/KeyChange/current-key-rejected", "message signed with the key the KEY object holds now does not verify: "+got+" ("+history+")", in)
	case !wantOK && (got == "ok:" || got == "panic"):
		Viol("C18/KeyChange/other-key-accepted", "message not signed with the key the KEY object holds now: "+got+" ("+history+")", in)
	}
}

// sameTag: give k2 the key tag of k1 by choosing its flags (Verify ignores them).
func sameTag(k1, k2 *dns.KEY) bool {
	want := k1.KeyTag()
	for f := 0; f < 65536; f++ {
		k2.Flags = uint16(f)
		if k2.KeyTag() == want {
			return true
		}
	}
	return false
}

func oracleKeyChange(r *Rng, keys []keyPair) {
	t0 := time.Now()
	defer func() { st["wall_ms_keychange"] = int(time.Since(t0).Milliseconds()) }()
	fams := []struct {
		alg  uint8
		bits int
	}{{dns.ED25519, 256}, {dns.ECDSAP256SHA256, 256}, {dns.ECDSAP384SHA384, 384}, {dns.RSASHA256, 1024}, {dns.RSASHA512, 1024}}
	for fi, f := range fams {
		name := "changing" + strconv.Itoa(fi) + ".example."
		m := genMsg(r, 3)
		m.Compress = fi%2 == 0
		kobj := new(dns.KEY)
		kobj.Hdr = dns.RR_Header{Name: name, Rrtype: dns.TypeKEY, Class: dns.ClassINET, Ttl: 300}
		kobj.Flags, kobj.Protocol, kobj.Algorithm = 0x0200, 3, f.alg
		gen := func(k *dns.KEY) crypto.Signer {
			p, err := k.Generate(f.bits)
			if err != nil {
				panic(err)
			}
			for k.KeyTag() == 0 { // recorded finding C17/Sign/key-tag-zero: take another key
				if p, err = k.Generate(f.bits); err != nil {
					panic(err)
				}
			}
			return p.(crypto.Signer)
		}
		privA := gen(kobj)
		pubA := kobj.PublicKey
		mA := signAs(kobj, privA, m)
		verifyStep("fresh key A", kobj, privA, mA, true)
		verifyStep("fresh key A, again", kobj, privA, mA, true)

		// the same object generated again
		privB := gen(kobj)
		pubB := kobj.PublicKey
		mB := signAs(kobj, privB, m)
		verifyStep("Generate again (A then B): signed by B", kobj, privB, mB, true)
		verifyStep("Generate again (A then B): signed by A", kobj, privB, mA, false)
		// PublicKey assigned
		kobj.PublicKey = pubA
		verifyStep("PublicKey set back to A: signed by A", kobj, privA, mA, true)
		verifyStep("PublicKey set back to A: signed by B", kobj, privA, mB, false)
		kobj.PublicKey = pubB
		verifyStep("PublicKey set to B: signed by B", kobj, privB, mB, true)
		verifyStep("PublicKey set to B: signed by A", kobj, privB, mA, false)
		kobj.PublicKey = pubA

		// owner changed and changed back
		kobj.Hdr.Name = "moved." + name
		verifyStep("owner changed: signer names the old owner", kobj, privA, mA, false)
		mA2 := signAs(kobj, privA, m)
		verifyStep("owner changed: signer names the new owner", kobj, privA, mA2, true)
		kobj.Hdr.Name = name
		verifyStep("owner changed back: signer names the old owner", kobj, privA, mA, true)
		verifyStep("owner changed back: signer names the other owner", kobj, privA, mA2, false)

		// algorithm and key material of another family, and back
		o := keys[(fi+1)%3] // ED25519, P-256, P-384 in turn
		if o.key.Algorithm == f.alg {
			o = keys[(fi+2)%3]
		}
		kobj.Algorithm, kobj.PublicKey = o.key.Algorithm, o.key.PublicKey
		mO := signAs(kobj, o.priv, m)
		verifyStep("algorithm and key replaced by "+o.name+": signed by it", kobj, o.priv, mO, true)
		verifyStep("algorithm and key replaced by "+o.name+": signed by A", kobj, o.priv, mA, false)
		// the algorithm alone (the material no longer fits it): nothing verifies
		kobj.PublicKey = pubA
		verifyStep("algorithm "+o.name+" with the material of A: signed by A", kobj, nil, mA, false)
		verifyStep("algorithm "+o.name+" with the material of A: signed by "+o.name, kobj, nil, mO, false)
		kobj.Algorithm = f.alg
		verifyStep("algorithm and key restored: signed by A", kobj, privA, mA, true)
		verifyStep("algorithm and key restored: signed by "+o.name, kobj, privA, mO, false)

		// two KEY objects with equal key tag, owner and algorithm, used alternately
		k2 := new(dns.KEY)
		k2.Hdr, k2.Protocol, k2.Algorithm = kobj.Hdr, 3, f.alg
		privC := gen(k2)
		if !sameTag(kobj, k2) {
			st["key_tag_not_matched"]++
			continue
		}
		mC := signAs(k2, privC, m)
		if mA == nil || mC == nil || mA.s.KeyTag != mC.s.KeyTag {
			continue
		}
		st["equal_tag_pairs"]++
		for round := 0; round < 2; round++ {
			verifyStep("two keys, equal tag/owner/algorithm: key 1, signed by 1", kobj, privA, mA, true)
			verifyStep("two keys, equal tag/owner/algorithm: key 2, signed by 1", k2, privC, mA, false)
			verifyStep("two keys, equal tag/owner/algorithm: key 2, signed by 2", k2, privC, mC, true)
			verifyStep("two keys, equal tag/owner/algorithm: key 1, signed by 2", kobj, privA, mC, false)
		}
		// and the content of the two objects exchanged
		*kobj, *k2 = *k2, *kobj
		verifyStep("contents of the two KEY objects exchanged: object 1, signed by 2", kobj, privC, mC, true)
		verifyStep("contents of the two KEY objects exchanged: object 1, signed by 1", kobj, privC, mA, false)
		verifyStep("contents of the two KEY objects exchanged: object 2, signed by 1", k2, privA, mA, true)
		verifyStep("contents of the two KEY objects exchanged: object 2, signed by 2", k2, privA, mC, false)
	}
}

// ---------------------------------------------------------------------------
// (b) the validity window at its exact boundaries. The clock cannot be set:
// the window is built from the second read just before signing, the clock is
// read again around Verify, a verdict is judged only when both readings agree
// (against that second, by plain unsigned comparison), and the call is repeated
// until Verify ran in the very second the window was built from.
// ---------------------------------------------------------------------------

func oracleWindowExact(r *Rng, keys []keyPair) {
	t0w := time.Now()
	defer func() { st["wall_ms_window_exact"] = int(time.Since(t0w).Milliseconds()) }()
	m := new(dns.Msg)
	m.SetQuestion("example.org.", dns.TypeSOA)
	m.Id = uint16(r.Next())
	// rel: a bound relative to the second read before signing; abs: a fixed one
	type bound struct {
		rel bool
		v   int64
	}
	at := func(b bound, base uint32) uint32 {
		if b.rel {
			return base + uint32(b.v)
		}
		return uint32(b.v)
	}
	show := func(b bound) string {
		if b.rel {
			return "now" + strconv.FormatInt(b.v, 10)
		}
		return strconv.FormatInt(b.v, 10)
	}
	try := func(kp keyPair, inc, exp bound) {
		for attempt := 0; attempt < 8; attempt++ {
			base := uint32(time.Now().Unix())
			s := newSig(kp, at(inc, base), at(exp, base))
			out, err := doSign(s, kp, m)
			if err != nil {
				return
			}
			got, used, t0, t1 := receive(out, s, kp.key)
			if t0 != t1 {
				st["window_clock_ticked"]++
				continue
			}
			want := "ok:"
			if t0 < s.Inception || t0 > s.Expiration {
				want = "err:time"
			}
			st["window_exact_checked"]++
			if t0 == s.Inception || t0 == s.Expiration {
				st["window_on_a_bound"]++
			}
			if got != want {
				Viol("C18/Verify/time-window", "inception "+show(inc)+" expiration "+show(exp)+", verified at "+u(uint64(t0))+
					" (inception "+u(uint64(s.Inception))+", expiration "+u(uint64(s.Expiration))+"): got "+got+" want "+want,
					c18in{Signed: Hx(out), Alg: kp.name, KeyRR: kp.key.String()})
			}
			emitVerifyResult(out, used, kp, kp.key, got, t0)
			if t0 == base || (!inc.rel && !exp.rel) {
				return // Verify ran in the second the window was built from
			}
			st["window_retry_second_passed"]++
		}
	}
	// every key: inception and expiration one below, at, one above the current second
	for _, kp := range keys {
		for _, di := range []int64{-1, 0, 1} {
			for _, de := range []int64{-1, 0, 1} {
				try(kp, bound{true, di}, bound{true, de})
			}
		}
	}
	// far bounds, plain comparison (no serial arithmetic): all pairs, keys rotating
	bs := []bound{{false, 0}, {false, 1}, {false, 1<<31 - 1}, {false, 1 << 31}, {false, 1<<32 - 1}, {true, -1}, {true, 0}, {true, 1}}
	i := 0
	for _, inc := range bs {
		for _, exp := range bs {
			if inc.rel && exp.rel {
				continue // done above
			}
			try(keys[i%len(keys)], inc, exp)
			i++
		}
	}
}
