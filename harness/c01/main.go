// C01: wire encoding is lossless and matches the RFC layouts for every record type.
package main

import (
	"bytes"
	"encoding/hex"
	"net"
	"reflect"
	"strings"

	"github.com/miekg/dns"
	. "verif/harness/common"
)

func main() { Main(run) }

var st = map[string]int{}

type inRR struct {
	Type string `json:"type"`
	RR   string `json:"rr_text"`
	Wire string `json:"wire_hex,omitempty"`
	Note string `json:"note,omitempty"`
}

func packRR(rr dns.RR, capN int) (string, []byte) {
	var outb []byte
	r := Protect(func() string {
		buf := make([]byte, capN)
		off, err := dns.PackRR(rr, buf, 0, nil, false)
		if err != nil {
			return "err"
		}
		outb = buf[:off]
		return "ok:" + Hx(outb)
	})
	return r, outb
}

func unpackRR(w []byte, off int) (string, dns.RR) {
	var rr dns.RR
	r := Protect(func() string {
		x, o, err := dns.UnpackRR(w, off)
		if err != nil {
			return "err"
		}
		rr = x
		t, _ := RRText(x)
		return "ok:" + t + "@" + Itoa(o)
	})
	return r, rr
}

// one record: pack, unpack, compare; emit model cases for a sample
func checkRR(rr dns.RR, info GenInfo, emit bool) {
	tname := dns.TypeToString[rr.Header().Rrtype]
	if tname == "" {
		tname = "TYPE" + Itoa(int(rr.Header().Rrtype))
	}
	st["rr_checked"]++
	capN := dns.Len(rr) + 10
	if capN < 64 {
		capN = 64
	}
	before, canon := RRText(rr)
	pr, w := packRR(rr, capN)
	if emit && canon {
		// the record text after PackRR carries the Rdlength bookkeeping; the model packs the same value
		Emit("pack_rr", []string{before, Itoa(capN)}, pr)
		Emit("len_rr", []string{before}, Itoa(dns.Len(rr)))
		st["model_pack_rr"]++
	}
	if !strings.HasPrefix(pr, "ok:") {
		if info.WellFormed {
			Viol("C01/"+tname+"/pack-fails", "PackRR fails on a well-formed record: "+pr, inRR{tname, before, "", info.Note})
		}
		st["pack_error"]++
		return
	}
	ur, rr2 := unpackRR(w, 0)
	if emit {
		Emit("unpack_rr", []string{Hx(w), "0"}, ur)
		st["model_unpack_rr"]++
	}
	if !info.WellFormed {
		st["illformed_packed"]++
		return
	}
	if rr2 == nil {
		Viol("C01/"+tname+"/unpack-fails", "UnpackRR fails on the octets PackRR produced: "+ur, inRR{tname, before, Hx(w), ""})
		return
	}
	after, _ := RRText(rr) // Rdlength now set by PackRR
	got, _ := RRText(rr2)
	if got != after {
		key := "C01/" + tname + "/roundtrip"
		if a, ok := rr.(*dns.AMTRELAY); ok && a.GatewayType&0x80 != 0 {
			key = "C01/AMTRELAY/discovery-bit-drops-gateway"
		}
		Viol(key, "Unpack(Pack(rr)) != rr: got "+got, inRR{tname, after, Hx(w), ""})
		return
	}
	// and the converse: re-packing the unpacked record reproduces the octets
	pr2, w2 := packRR(rr2, capN)
	if !strings.HasPrefix(pr2, "ok:") || !bytes.Equal(w, w2) {
		Viol("C01/"+tname+"/repack", "Pack(Unpack(octets)) != octets", inRR{tname, after, Hx(w), ""})
	}
	st["rr_roundtrip_ok"]++
}

// msgEq compares every header bit, count, name and field; Rdlength is
// bookkeeping that Pack() does not write back into the records and Compress is a
// packing option, so both are left out.
func msgEq(a, b *dns.Msg) (bool, string) {
	text := func(m *dns.Msg) string {
		c := m.Copy()
		c.Compress = false
		for _, sec := range [][]dns.RR{c.Answer, c.Ns, c.Extra} {
			for _, r := range sec {
				r.Header().Rdlength = 0
			}
		}
		t, _ := MsgText(c)
		return t
	}
	ta, tb := text(a), text(b)
	return ta == tb, tb
}

func checkMsg(m *dns.Msg, wf bool, emit bool) {
	st["msg_checked"]++
	before, canon := MsgText(m)
	var w []byte
	pr := Protect(func() string {
		b, err := m.Pack()
		if err != nil {
			return "err"
		}
		w = b
		return "ok:" + Hx(b)
	})
	if emit && canon && len(before) < 6000 {
		Emit("pack_msg", []string{before}, pr)
		Emit("len_msg", []string{before}, Itoa(m.Len()))
		st["model_pack_msg"]++
	}
	if !strings.HasPrefix(pr, "ok:") {
		if wf && !(m.Rcode > 15 && m.IsEdns0() == nil) {
			Viol("C01/msg/pack-fails", "Pack fails on a well-formed message", map[string]string{"msg": before})
		}
		return
	}
	m2 := new(dns.Msg)
	ur := Protect(func() string {
		if err := m2.Unpack(w); err != nil {
			return "err"
		}
		t, _ := MsgText(m2)
		return "ok:" + t
	})
	if emit && len(w) < 2500 {
		Emit("unpack_msg", []string{Hx(w)}, ur)
		st["model_unpack_msg"]++
	}
	if !wf {
		return
	}
	if !strings.HasPrefix(ur, "ok:") {
		Viol("C01/msg/unpack-fails", "Unpack fails on the octets Pack produced", map[string]string{"msg": before, "wire": Hx(w)})
		return
	}
	if ok, got := msgEq(m, m2); !ok {
		after, _ := MsgText(m)
		key := "C01/msg/roundtrip"
		for _, sec := range [][]dns.RR{m.Answer, m.Ns, m.Extra} {
			for _, r := range sec {
				if a, ok := r.(*dns.AMTRELAY); ok && a.GatewayType&0x80 != 0 {
					key = "C01/AMTRELAY/discovery-bit-drops-gateway"
				}
			}
		}
		Viol(key, "Unpack(Pack(m)) != m", map[string]string{"msg": after, "got": got, "wire": Hx(w)})
		return
	}
	// the decoded message is a value of its own: the receive buffer may be reused afterwards
	{
		t1, _ := MsgText(m2)
		wc := append([]byte{}, w...)
		for i := range w {
			w[i] = 0xAA
		}
		if t2, _ := MsgText(m2); t2 != t1 {
			Viol("C01/msg/unpacked-fields-alias-the-buffer", "overwriting the input buffer after Unpack changes the decoded message", map[string]string{"msg": t1, "after": t2, "wire": Hx(wc)})
		}
		copy(w, wc)
	}
	// the octets do not depend on what the caller's buffer held before (a pooled, reused buffer)
	for _, fill := range []byte{0x7e, 0xff} {
		dirty := bytes.Repeat([]byte{fill}, len(w)+300)
		var w3 []byte
		if Protect(func() string {
			b, err := m.PackBuffer(dirty)
			if err != nil {
				return "err"
			}
			w3 = b
			return "ok"
		}) == "ok" && !bytes.Equal(w3, w) {
			Viol("C01/msg/pack-depends-on-buffer-content", "PackBuffer into a buffer that is not zeroed gives other octets than Pack", map[string]string{"msg": before, "pack": Hx(w), "packbuffer": Hx(w3)})
		}
		for _, sec := range [][]dns.RR{m.Answer, m.Ns, m.Extra} {
			for _, rr := range sec {
				clean, dirt := make([]byte, 70000), bytes.Repeat([]byte{fill}, 70000)
				o1, e1 := dns.PackRR(rr, clean, 0, nil, false)
				o2, e2 := dns.PackRR(rr, dirt, 0, nil, false)
				if e1 == nil && e2 == nil && !bytes.Equal(clean[:o1], dirt[:o2]) {
					t, _ := RRText(rr)
					Viol("C01/rr/pack-depends-on-buffer-content", "PackRR into a buffer that is not zeroed gives other octets", map[string]string{"rr": t, "clean": Hx(clean[:o1]), "dirty": Hx(dirt[:o2])})
				}
			}
		}
	}
	// converse on canonical uncompressed octets
	if !m.Compress {
		m2.Compress = false
		w2, err := m2.Pack()
		if err != nil || !bytes.Equal(w, w2) {
			Viol("C01/msg/repack", "Pack(Unpack(octets)) != octets for a canonical uncompressed message", map[string]string{"wire": Hx(w)})
		}
	}
	st["msg_roundtrip_ok"]++
}

func run(r *Rng, tier string, n int) {
	per, nmsg := 6, 250
	if tier == "thorough" {
		per, nmsg = 150, 8000
	}
	if n > 0 {
		per = n
	}
	pool := &NamePool{R: r}
	types := AllTypes()
	// (1) every registered type, plus unknown types held as RFC 3597 data
	for _, t := range append(types, 65280, 1234, 0xFFFE) {
		if t == dns.TypeTSIG && false {
			continue
		}
		for i := 0; i < per; i++ {
			rr, info := GenRR(r, pool, t, false)
			checkRR(rr, info, i < 3)
		}
		for i := 0; i < per/2+1; i++ {
			rr, info := GenRR(r, pool, t, true)
			checkRR(rr, info, i < 2)
		}
		// RDATA-less record of this type (dynamic update)
		if _, ok := dns.TypeToRR[t]; ok && t != dns.TypeOPT {
			// the way update.go builds them: an ANY struct carrying the type in its header
			rr := &dns.ANY{Hdr: dns.RR_Header{Name: pool.Name(), Rrtype: t, Class: dns.ClassANY, Ttl: 0}}
			pr, w := packRR(rr, 300)
			before, _ := RRText(rr)
			Emit("pack_rr", []string{before, "300"}, pr)
			if w != nil {
				ur, rr2 := unpackRR(w, 0)
				Emit("unpack_rr", []string{Hx(w), "0"}, ur)
				if rr2 == nil || rr2.Header().Rdlength != 0 || rr2.Header().Rrtype != t || !strings.EqualFold(rr2.Header().Name, rr.Header().Name) {
					Viol("C01/"+dns.TypeToString[t]+"/no-rdata", "RDATA-less record does not round-trip: "+ur, inRR{dns.TypeToString[t], before, Hx(w), ""})
				}
				st["nordata_checked"]++
			}
		}
	}
	// (1b) RDATA-less records (RFC 2136) of every type, starting from the wire: RDLENGTH 0, unpack, pack
	// again: the same octets must come back ("unpacking any canonical message and packing the result
	// reproduces the same octets")
	for _, t := range types {
		if t == dns.TypeOPT {
			continue
		}
		for _, class := range []uint16{dns.ClassANY, dns.ClassNONE} {
			w := []byte{1, 'x', 0, byte(t >> 8), byte(t), byte(class >> 8), byte(class), 0, 0, 0, 0, 0, 0}
			ur, rr2 := unpackRR(w, 0)
			if rr2 == nil {
				Viol("C01/"+dns.TypeToString[t]+"/no-rdata", "an RDATA-less record is not accepted: "+ur, inRR{dns.TypeToString[t], "", Hx(w), ""})
				continue
			}
			st["nordata_wire_checked"]++
			pr, w2 := packRR(rr2, 300)
			if !strings.HasPrefix(pr, "ok:") || !bytes.Equal(w, w2) {
				Viol("C01/rdataless-repack/"+dns.TypeToString[t], "Pack(Unpack(octets)) != octets for an RDATA-less record: "+pr, inRR{dns.TypeToString[t], "", Hx(w), ""})
			}
			// ... and as the LAST record of a message that Msg.Pack sizes itself (a dynamic update): whatever
			// PackRR accepts with room to spare, Pack accepts too
			if strings.HasPrefix(pr, "ok:") {
				um := new(dns.Msg)
				um.SetUpdate("example.org.")
				um.Ns = []dns.RR{dns.Copy(rr2)}
				if _, err := um.Pack(); err != nil {
					Viol("C01/msg/pack-fails-on-trailing-empty-record", "Msg.Pack fails on an update whose last record is an RDATA-less "+dns.TypeToString[t]+": "+err.Error(), inRR{dns.TypeToString[t], "", Hx(w), ""})
				}
				st["nordata_msg_checked"]++
			}
		}
	}
	// (1c) empty collections and strings: generated records with one non-name string or slice field
	// emptied (nil, and empty with spare capacity) at a time. When such a record packs at all, it must
	// round-trip like any other.
	for _, t := range types {
		if t == dns.TypeOPT {
			continue
		}
		var cands []dns.RR
		for k := 0; k < 2; k++ {
			rr, info := GenRR(r, pool, t, false)
			if !info.WellFormed {
				continue
			}
			v := Flatten(reflect.ValueOf(rr).Elem())
			for i := 0; i < v.NumField(); i++ {
				f := v.Field(i)
				tag := v.Type().Field(i).Tag.Get("dns")
				if v.Type().Field(i).Name == "Hdr" || !f.CanSet() || (f.Kind() != reflect.Slice && f.Kind() != reflect.String) ||
					strings.Contains(tag, "domain-name") || strings.Contains(tag, "size-") || strings.Contains(tag, "host") || v.Type().Field(i).Name == "GatewayAddr" {
					continue
				}
				c := dns.Copy(rr)
				cf := Flatten(reflect.ValueOf(c).Elem()).Field(i)
				if k == 0 || cf.Kind() == reflect.String {
					cf.Set(reflect.Zero(cf.Type()))
				} else {
					cf.Set(reflect.MakeSlice(cf.Type(), 0, 4)) // empty, not nil
				}
				cands = append(cands, c)
			}
		}
		for _, c := range cands {
			capN := dns.Len(c) + 64
			if pr, _ := packRR(dns.Copy(c), capN); !strings.HasPrefix(pr, "ok:") {
				st["empty_value_does_not_pack"]++
				continue
			}
			st["empty_value_checked"]++
			checkRR(c, GenInfo{WellFormed: true, Note: "empty value"}, false)
			em := new(dns.Msg)
			em.SetQuestion("example.org.", t)
			em.Answer = []dns.RR{dns.Copy(c)}
			if _, err := em.Pack(); err != nil {
				tx, _ := RRText(c)
				Viol("C01/msg/pack-fails-on-trailing-empty-record", "Msg.Pack fails on a message whose last record has an empty field although PackRR packs it: "+err.Error(), inRR{dns.TypeToString[t], tx, "", ""})
			}
		}
	}
	// (1d) EDNS0 Client Subnet: every prefix length of both families, address canonical (no bits beyond
	// the prefix), scope 0 and = prefix: RFC 7871 layout (ceil(prefix/8) address octets) and round trip
	for fam, bits := range map[uint16]int{1: 32, 2: 128} {
		for plen := 0; plen <= bits; plen++ {
			addr := r.Bytes(bits / 8)
			for i := range addr {
				switch {
				case i*8 >= plen:
					addr[i] = 0
				case i*8+8 > plen:
					addr[i] &= byte(0xff) << uint(8-plen%8)
					addr[i] |= 1 << uint(8-plen%8) // the last transmitted bit is set: the final octet matters
				}
			}
			for _, scope := range []uint8{0, uint8(plen)} {
				o := &dns.OPT{Hdr: dns.RR_Header{Name: ".", Rrtype: dns.TypeOPT, Class: 4096}}
				o.Option = []dns.EDNS0{&dns.EDNS0_SUBNET{Code: dns.EDNS0SUBNET, Family: fam, SourceNetmask: uint8(plen), SourceScope: scope, Address: net.IP(addr)}}
				want := 4 + 4 + (plen+7)/8
				buf := make([]byte, 64)
				if off, err := dns.PackRR(o, buf, 0, nil, false); err != nil || off != 11+want {
					Viol("C01/OPT/subnet-layout", "EDNS0_SUBNET /"+Itoa(plen)+" family "+Itoa(int(fam))+" packs to "+Itoa(off-11)+" RDATA octets, RFC 7871 prescribes "+Itoa(want), inRR{"OPT", o.String(), Hx(buf[:off]), ""})
				}
				checkRR(o, GenInfo{WellFormed: true, Note: "subnet"}, plen%16 == 1)
				st["subnet_checked"]++
			}
		}
	}
	// (1e) every SVCB parameter kind alone, every pair of kinds (keys ascending), and all together; every
	// EDNS0 option kind alone with small and boundary values
	{
		mk := []func() dns.SVCBKeyValue{
			func() dns.SVCBKeyValue { return &dns.SVCBMandatory{Code: []dns.SVCBKey{dns.SVCB_ALPN, dns.SVCB_PORT}} },
			func() dns.SVCBKeyValue { return &dns.SVCBAlpn{Alpn: []string{"h2", "h3"}} },
			func() dns.SVCBKeyValue { return &dns.SVCBNoDefaultAlpn{} },
			func() dns.SVCBKeyValue { return &dns.SVCBPort{Port: uint16(r.Intn(65536))} },
			func() dns.SVCBKeyValue { return &dns.SVCBIPv4Hint{Hint: []net.IP{net.IP(r.Bytes(4))}} },
			func() dns.SVCBKeyValue { return &dns.SVCBECHConfig{ECH: r.Bytes(1 + r.Intn(20))} },
			func() dns.SVCBKeyValue {
				return &dns.SVCBIPv6Hint{Hint: []net.IP{net.IP(append([]byte{0x20, 1}, r.Bytes(14)...))}}
			},
			func() dns.SVCBKeyValue { return &dns.SVCBDoHPath{Template: "/dns-query{?dns}"} },
			func() dns.SVCBKeyValue { return &dns.SVCBOhttp{} },
			func() dns.SVCBKeyValue { return &dns.SVCBLocal{KeyCode: 65400, Data: r.Bytes(r.Intn(10))} },
		}
		rec := func(vals []dns.SVCBKeyValue, https bool) dns.RR {
			sv := dns.SVCB{Hdr: dns.RR_Header{Name: "svc.example.", Rrtype: dns.TypeSVCB, Class: 1, Ttl: 60}, Priority: 1, Target: "t.example.", Value: vals}
			if https {
				sv.Hdr.Rrtype = dns.TypeHTTPS
				return &dns.HTTPS{SVCB: sv}
			}
			return &sv
		}
		for i := range mk {
			checkRR(rec([]dns.SVCBKeyValue{mk[i]()}, i%2 == 0), GenInfo{WellFormed: true, Note: "svcb-single"}, true)
			for j := i + 1; j < len(mk); j++ {
				checkRR(rec([]dns.SVCBKeyValue{mk[i](), mk[j]()}, j%2 == 0), GenInfo{WellFormed: true, Note: "svcb-pair"}, false)
				st["svcb_kinds_checked"]++
			}
		}
		var all []dns.SVCBKeyValue
		for i := range mk {
			all = append(all, mk[i]())
		}
		checkRR(rec(all, false), GenInfo{WellFormed: true, Note: "svcb-all"}, true)
		opts := []func() dns.EDNS0{
			func() dns.EDNS0 { return &dns.EDNS0_NSID{Code: dns.EDNS0NSID, Nsid: "a1b2"} },
			func() dns.EDNS0 { return &dns.EDNS0_COOKIE{Code: dns.EDNS0COOKIE, Cookie: "0011223344556677"} },
			func() dns.EDNS0 {
				return &dns.EDNS0_COOKIE{Code: dns.EDNS0COOKIE, Cookie: "00112233445566778899aabbccddeeff0011223344556677"}
			},
			func() dns.EDNS0 { return &dns.EDNS0_UL{Code: dns.EDNS0UL, Lease: uint32(r.Next())} },
			func() dns.EDNS0 { return &dns.EDNS0_UL{Code: dns.EDNS0UL, Lease: 7, KeyLease: uint32(r.Next()) | 1} },
			func() dns.EDNS0 {
				return &dns.EDNS0_LLQ{Code: dns.EDNS0LLQ, Version: 1, Opcode: 2, Error: 3, Id: r.Next(), LeaseLife: uint32(r.Next())}
			},
			func() dns.EDNS0 { return &dns.EDNS0_DAU{Code: dns.EDNS0DAU, AlgCode: r.Bytes(1 + r.Intn(5))} },
			func() dns.EDNS0 { return &dns.EDNS0_DHU{Code: dns.EDNS0DHU, AlgCode: r.Bytes(1 + r.Intn(5))} },
			func() dns.EDNS0 { return &dns.EDNS0_N3U{Code: dns.EDNS0N3U, AlgCode: r.Bytes(1 + r.Intn(5))} },
			func() dns.EDNS0 { return &dns.EDNS0_EXPIRE{Code: dns.EDNS0EXPIRE, Expire: uint32(r.Next())} },
			func() dns.EDNS0 { return &dns.EDNS0_EXPIRE{Code: dns.EDNS0EXPIRE, Expire: 0} }, // the value zero, not the empty query form
			func() dns.EDNS0 { return &dns.EDNS0_EXPIRE{Code: dns.EDNS0EXPIRE, Expire: 1<<32 - 1} },
			func() dns.EDNS0 { return &dns.EDNS0_UL{Code: dns.EDNS0UL, Lease: 0} },
			func() dns.EDNS0 { return &dns.EDNS0_UL{Code: dns.EDNS0UL, Lease: 1<<32 - 1, KeyLease: 1<<32 - 1} },
			func() dns.EDNS0 { return &dns.EDNS0_LLQ{Code: dns.EDNS0LLQ} },
			func() dns.EDNS0 { return &dns.EDNS0_TCP_KEEPALIVE{Code: dns.EDNS0TCPKEEPALIVE, Timeout: 65535} },
			func() dns.EDNS0 { return &dns.EDNS0_EDE{InfoCode: 0} },
			func() dns.EDNS0 {
				return &dns.EDNS0_ZONEVERSION{Code: dns.EDNS0ZONEVERSION, LabelCount: 0, Type: 0, Version: ""}
			},
			func() dns.EDNS0 { return &dns.EDNS0_NSID{Code: dns.EDNS0NSID, Nsid: ""} },
			func() dns.EDNS0 { return &dns.EDNS0_PADDING{Padding: []byte{}} },
			func() dns.EDNS0 { return &dns.EDNS0_LOCAL{Code: 65001, Data: []byte{}} },
			func() dns.EDNS0 { return &dns.EDNS0_EXPIRE{Code: dns.EDNS0EXPIRE, Empty: true} },
			func() dns.EDNS0 {
				return &dns.EDNS0_TCP_KEEPALIVE{Code: dns.EDNS0TCPKEEPALIVE, Timeout: uint16(1 + r.Intn(65535))}
			},
			func() dns.EDNS0 { return &dns.EDNS0_TCP_KEEPALIVE{Code: dns.EDNS0TCPKEEPALIVE} },
			func() dns.EDNS0 { return &dns.EDNS0_PADDING{Padding: make([]byte, r.Intn(40))} },
			func() dns.EDNS0 { return &dns.EDNS0_EDE{InfoCode: uint16(r.Intn(30)), ExtraText: "extra text"} },
			func() dns.EDNS0 { return &dns.EDNS0_EDE{InfoCode: 65535} },
			func() dns.EDNS0 { return &dns.EDNS0_ESU{Code: dns.EDNS0ESU, Uri: "sip:+123@example.com"} },
			func() dns.EDNS0 { return &dns.EDNS0_REPORTING{Code: dns.EDNS0REPORTING, AgentDomain: "agent.example."} },
			func() dns.EDNS0 {
				return &dns.EDNS0_ZONEVERSION{Code: dns.EDNS0ZONEVERSION, LabelCount: 2, Type: 0, Version: "00000001"}
			},
			func() dns.EDNS0 { return &dns.EDNS0_LOCAL{Code: 65001, Data: r.Bytes(r.Intn(12))} },
			func() dns.EDNS0 { return &dns.EDNS0_LOCAL{Code: 4242, Data: r.Bytes(1 + r.Intn(12))} },
		}
		for i := range opts {
			for k := 0; k < 2; k++ {
				o := &dns.OPT{Hdr: dns.RR_Header{Name: ".", Rrtype: dns.TypeOPT, Class: 1232}}
				o.Option = []dns.EDNS0{opts[i]()}
				if k == 1 {
					o.Option = append(o.Option, opts[(i+7)%len(opts)]())
				}
				if pr, _ := packRR(dns.Copy(o), 400); !strings.HasPrefix(pr, "ok:") {
					st["edns_option_does_not_pack"]++
					continue
				}
				// the option's octets as its RFC prescribes them, written down independently of pack()
				if k == 0 {
					if want, ok := wantOptionData(o.Option[0]); ok {
						buf := make([]byte, 400)
						off, _ := dns.PackRR(dns.Copy(o), buf, 0, nil, false)
						if off >= 15 && !bytes.Equal(buf[15:off], want) {
							Viol("C01/OPT/option-layout", "EDNS0 option "+Itoa(int(o.Option[0].Option()))+" packs its value as "+Hx(buf[15:off])+", its RFC prescribes "+Hx(want), inRR{"OPT", o.String(), Hx(buf[:off]), ""})
						}
						st["edns_layouts_checked"]++
					}
				}
				checkRR(o, GenInfo{WellFormed: true, Note: "edns-kind"}, k == 0)
				st["edns_kinds_checked"]++
			}
		}
	}
	// (1f) a Msg value reused for successive Unpack calls equals a fresh one (header bits, counts, sections, RCODE)
	{
		mkw := func(f func(m *dns.Msg)) []byte {
			m := new(dns.Msg)
			m.SetQuestion("reuse.example.", dns.TypeA)
			m.Response = true
			f(m)
			w, err := m.Pack()
			if err != nil {
				return nil
			}
			return w
		}
		a := func(n string) dns.RR {
			return &dns.A{Hdr: dns.RR_Header{Name: n, Rrtype: dns.TypeA, Class: 1, Ttl: 5}, A: []byte{192, 0, 2, 1}}
		}
		ws := [][]byte{
			mkw(func(m *dns.Msg) { m.Answer = []dns.RR{a("reuse.example.")} }),
			mkw(func(m *dns.Msg) {
				m.Ns = []dns.RR{a("ns.example.")}
				m.Extra = []dns.RR{a("x.example.")}
				m.SetEdns0(1232, true)
				m.Rcode = dns.RcodeBadVers
			}),
			mkw(func(m *dns.Msg) { m.Question = nil }),
			mkw(func(m *dns.Msg) { m.Extra = []dns.RR{a("e.example.")} }),
			mkw(func(m *dns.Msg) { m.Ns = []dns.RR{a("n.example.")}; m.Rcode = 3; m.Truncated = true }),
		}
		for i, w1 := range ws {
			for j, w2 := range ws {
				if w1 == nil || w2 == nil {
					continue
				}
				var reused, fresh dns.Msg
				if reused.Unpack(w1) != nil || reused.Unpack(w2) != nil || fresh.Unpack(w2) != nil {
					continue
				}
				st["reused_msg_checked"]++
				if ok, got := msgEq(&fresh, &reused); !ok {
					Viol("C01/msg/reused-msg-differs", "Unpack into a Msg that already held message "+Itoa(i)+" gives a different message than Unpack of message "+Itoa(j)+" into a fresh Msg", map[string]string{"first": Hx(w1), "wire": Hx(w2), "got": got})
				}
			}
		}
	}
	// (1g) two live records of one registered private type in one message keep their own RDATA
	{
		const code = 65281
		dns.PrivateHandle("VSERIALT", code, func() dns.PrivateRdata { return new(c01Priv) })
		mk := func(owner string, b []byte) dns.RR {
			rr := dns.TypeToRR[code]().(*dns.PrivateRR)
			rr.Hdr = dns.RR_Header{Name: owner, Rrtype: code, Class: 1, Ttl: 5}
			rr.Data.(*c01Priv).b = b
			return rr
		}
		m := new(dns.Msg)
		m.SetQuestion("a.example.", code)
		m.Answer = []dns.RR{mk("a.example.", []byte{0, 0, 0, 1}), mk("b.example.", []byte{0, 0, 0, 2}), mk("c.example.", []byte{9})}
		checkMsg(m, true, false)
		if w, err := m.Pack(); err == nil {
			var u dns.Msg
			if u.Unpack(w) == nil && len(u.Answer) == 3 {
				for i, want := range [][]byte{{0, 0, 0, 1}, {0, 0, 0, 2}, {9}} {
					if p, ok := u.Answer[i].(*dns.PrivateRR); !ok || !bytes.Equal(p.Data.(*c01Priv).b, want) {
						Viol("C01/PrivateRR/records-share-rdata", "record "+Itoa(i)+" of three private records in one message does not carry its own RDATA after Unpack", map[string]string{"wire": Hx(w)})
					}
				}
				if w2, err := u.Pack(); err != nil || !bytes.Equal(w, w2) {
					Viol("C01/PrivateRR/records-share-rdata", "Pack(Unpack(octets)) != octets for a message with three private records", map[string]string{"wire": Hx(w)})
				}
			}
		}
		st["private_multi_checked"]++
		dns.PrivateHandleRemove(code)
	}
	// type bitmaps spanning several windows (types >= 256: URI, CAA, AVC, TA, DLV, private-use) in NSEC, NSEC3
	// and CSYNC; and the deepest compression chain the packer can produce (one pointer per label of a
	// 127-label name): Unpack must read back what Pack wrote
	{
		for _, bm := range [][]uint16{{1, 46, 47, 257}, {257}, {1, 256, 512, 1024, 65280}, {255, 256}, {1, 32769, 65534}, {2, 6, 46, 47, 256, 257, 258, 32768}} {
			m := new(dns.Msg)
			m.SetQuestion("bm.example.", dns.TypeNSEC)
			m.Answer = []dns.RR{
				&dns.TXT{Hdr: dns.RR_Header{Name: "bm.example.", Rrtype: dns.TypeTXT, Class: 1, Ttl: 5}, Txt: []string{strings.Repeat("~", 200)}},
				&dns.NSEC{Hdr: dns.RR_Header{Name: "bm.example.", Rrtype: dns.TypeNSEC, Class: 1, Ttl: 5}, NextDomain: "c.example.", TypeBitMap: bm},
				&dns.NSEC3{Hdr: dns.RR_Header{Name: "h.example.", Rrtype: dns.TypeNSEC3, Class: 1, Ttl: 5}, Hash: 1, Iterations: 1, SaltLength: 1, Salt: "ab", HashLength: 20, NextDomain: "2t7b4g4vsa5smi47k61mv5bv1a22bojr", TypeBitMap: bm},
				&dns.CSYNC{Hdr: dns.RR_Header{Name: "bm.example.", Rrtype: dns.TypeCSYNC, Class: 1, Ttl: 5}, Serial: 1, Flags: 3, TypeBitMap: bm},
			}
			checkMsg(m, true, false)
			st["multi_window_bitmap_messages"]++
		}
		// names made of escapes (4 characters of text per octet) that share a suffix with an earlier name, under
		// compression: the limits are about wire octets, the text is up to four times longer
		for _, n := range []int{5, 13, 30, 62} {
			lab := strings.Repeat(`\200`, n)
			suffix := lab + "." + lab + "." + lab + "." + "zone."
			if _, ok := dns.IsDomainName("www." + suffix); !ok {
				continue
			}
			for _, compress := range []bool{true, false} {
				m := new(dns.Msg)
				m.Compress = compress
				m.SetQuestion(suffix, dns.TypeNS)
				m.Answer = []dns.RR{
					&dns.NS{Hdr: dns.RR_Header{Name: suffix, Rrtype: dns.TypeNS, Class: 1, Ttl: 5}, Ns: "ns." + suffix},
					&dns.A{Hdr: dns.RR_Header{Name: "www." + suffix, Rrtype: dns.TypeA, Class: 1, Ttl: 5}, A: net.IPv4(192, 0, 2, 1).To4()},
					&dns.MX{Hdr: dns.RR_Header{Name: `\001\002.` + suffix, Rrtype: dns.TypeMX, Class: 1, Ttl: 5}, Preference: 1, Mx: `m\.x.` + suffix},
				}
				checkMsg(m, true, false)
				st["escaped_shared_suffix_messages"]++
			}
		}
		// SVCB / HTTPS values given in any order by the caller: on the wire the parameters are in increasing key
		// order and so are the keys INSIDE a mandatory parameter (RFC 9460 sections 2.2 and 8), read back with
		// the harness's own walker
		for _, mand := range [][]dns.SVCBKey{{dns.SVCB_IPV4HINT, dns.SVCB_ALPN}, {dns.SVCB_PORT, dns.SVCB_IPV4HINT, dns.SVCB_ALPN}, {dns.SVCB_ALPN, dns.SVCB_PORT}, {dns.SVCB_IPV6HINT, dns.SVCB_ALPN, dns.SVCB_PORT, dns.SVCB_IPV4HINT}} {
			rr := &dns.SVCB{Hdr: dns.RR_Header{Name: "svc.example.", Rrtype: dns.TypeSVCB, Class: 1, Ttl: 5}, Priority: 16, Target: "foo.example.org.", Value: []dns.SVCBKeyValue{
				&dns.SVCBIPv6Hint{Hint: []net.IP{net.ParseIP("2001:db8::1")}},
				&dns.SVCBPort{Port: 443},
				&dns.SVCBMandatory{Code: append([]dns.SVCBKey{}, mand...)},
				&dns.SVCBIPv4Hint{Hint: []net.IP{net.IPv4(192, 0, 2, 1).To4()}},
				&dns.SVCBAlpn{Alpn: []string{"h2", "h3-19"}},
			}}
			buf := make([]byte, 512)
			off, err := dns.PackRR(rr, buf, 0, nil, false)
			st["svcb_wire_order_checked"]++
			if err != nil {
				Viol("C01/SVCB/wire-order", "an SVCB record with parameters given in another order does not pack: "+err.Error(), map[string]string{"rr": rr.String()})
				continue
			}
			// owner 13 octets + 10 fixed + priority 2 + target 17
			p := 13 + 10 + 2 + 17
			last := -1
			for p+4 <= off {
				key := int(buf[p])<<8 | int(buf[p+1])
				l := int(buf[p+2])<<8 | int(buf[p+3])
				if key <= last {
					Viol("C01/SVCB/wire-order", "SVCB parameters are not in strictly increasing key order on the wire", map[string]string{"rdata": Hx(buf[23:off])})
				}
				last = key
				if key == 0 {
					prev := -1
					for q := p + 4; q+2 <= p+4+l; q += 2 {
						k := int(buf[q])<<8 | int(buf[q+1])
						if k <= prev {
							Viol("C01/SVCB/mandatory-order", "the keys inside the mandatory parameter are not in strictly increasing order on the wire (RFC 9460 section 8)", map[string]string{"mandatory": Hx(buf[p+4 : p+4+l])})
						}
						prev = k
					}
				}
				p += 4 + l
			}
		}
		// SVCB / HTTPS and EDNS0 values at the upper bounds of their encodings: an alpn-id of 254 and 255 octets,
		// many hints, long opaque values; APL prefixes with an empty address part, negated or not
		for _, vals := range [][]dns.SVCBKeyValue{
			{&dns.SVCBAlpn{Alpn: []string{strings.Repeat("a", 255)}}},
			{&dns.SVCBAlpn{Alpn: []string{strings.Repeat("a", 254), strings.Repeat("b", 255), "h2"}}},
			{&dns.SVCBIPv4Hint{Hint: []net.IP{{1, 2, 3, 4}, {5, 6, 7, 8}, {9, 9, 9, 9}}}, &dns.SVCBECHConfig{ECH: bytes.Repeat([]byte{7}, 2000)}},
			{&dns.SVCBDoHPath{Template: "/" + strings.Repeat("q", 500) + "{?dns}"}, &dns.SVCBLocal{KeyCode: 65400, Data: bytes.Repeat([]byte{1}, 3000)}},
		} {
			for _, typ := range []uint16{dns.TypeSVCB, dns.TypeHTTPS} {
				var rr dns.RR
				sv := dns.SVCB{Hdr: dns.RR_Header{Name: "svc.example.", Rrtype: typ, Class: 1, Ttl: 5}, Priority: 1, Target: ".", Value: vals}
				if typ == dns.TypeHTTPS {
					rr = &dns.HTTPS{SVCB: sv}
				} else {
					rr = &sv
				}
				m := new(dns.Msg)
				m.SetQuestion("svc.example.", typ)
				m.Answer = []dns.RR{rr}
				checkMsg(m, true, false)
				st["svcb_upper_bound_messages"]++
			}
		}
		for _, pfx := range []dns.APLPrefix{
			{Negation: true, Network: net.IPNet{IP: net.IPv4zero.To4(), Mask: net.CIDRMask(0, 32)}},
			{Negation: false, Network: net.IPNet{IP: net.IPv4zero.To4(), Mask: net.CIDRMask(0, 32)}},
			{Negation: true, Network: net.IPNet{IP: net.IPv6zero, Mask: net.CIDRMask(7, 128)}},
			{Negation: true, Network: net.IPNet{IP: net.IPv4(10, 0, 0, 0).To4(), Mask: net.CIDRMask(8, 32)}},
			{Negation: true, Network: net.IPNet{IP: net.IPv4(10, 7, 240, 0).To4(), Mask: net.CIDRMask(20, 32)}},
		} {
			m := new(dns.Msg)
			m.SetQuestion("apl.example.", dns.TypeAPL)
			m.Answer = []dns.RR{&dns.APL{Hdr: dns.RR_Header{Name: "apl.example.", Rrtype: dns.TypeAPL, Class: 1, Ttl: 5}, Prefixes: []dns.APLPrefix{pfx, pfx}}}
			checkMsg(m, true, false)
			st["apl_corner_messages"]++
		}
		m := new(dns.Msg)
		m.Compress = true
		m.SetQuestion("a.", dns.TypeA)
		name := ""
		for i := 0; i < 127; i++ {
			name = "a." + name
			m.Answer = append(m.Answer, &dns.A{Hdr: dns.RR_Header{Name: name, Rrtype: dns.TypeA, Class: 1, Ttl: 5}, A: net.IPv4(192, 0, 2, byte(i)).To4()})
		}
		m.Answer = append(m.Answer, &dns.NS{Hdr: dns.RR_Header{Name: name, Rrtype: dns.TypeNS, Class: 1, Ttl: 5}, Ns: name})
		checkMsg(m, true, false)
		st["deepest_pointer_chain_messages"]++
	}
	// (2) character-string and octet fields with backslashes (escape handling on both sides)
	for i := 0; i < 40; i++ {
		val := strings.ReplaceAll(string(ShowTxt(r.Bytes(1+r.Intn(20)))), "\"", "")
		caa := &dns.CAA{Hdr: dns.RR_Header{Name: "x.", Rrtype: dns.TypeCAA, Class: 1}, Flag: 1, Tag: "issue", Value: val}
		_, w := packRR(caa, 600)
		if w == nil {
			continue
		}
		_, rr2 := unpackRR(w, 0)
		if rr2 != nil {
			_, w2 := packRR(rr2, 600)
			if !bytes.Equal(w, w2) {
				Viol("C01/CAA/Value/backslash-not-escaped-on-unpack", "CAA.Value with an escape does not survive unpack+pack", inRR{"CAA", caa.String(), Hx(w), ""})
			}
		}
	}
	// (3) messages
	for i := 0; i < nmsg; i++ {
		nq := 1
		if r.Intn(6) == 0 {
			nq = r.Intn(4)
		}
		big := r.Intn(30) == 0
		na, nn, ne := r.Intn(4), r.Intn(3), r.Intn(3)
		if big {
			na = 20 + r.Intn(40)
		}
		messy := r.Intn(6) == 0
		m, wf := GenMsg(r, pool, types, nq, na, nn, ne, r.Intn(3) == 0, messy)
		checkMsg(m, wf, i < 120 || i%25 == 0)
	}
	// (4) RCODE split: all 0..4095 with and without OPT (thorough: all; quick: boundaries + sample)
	for rc := 0; rc < 4096; rc++ {
		if tier != "thorough" && !(rc < 34 || rc > 4080 || rc%16 == 0 || rc%16 == 15 || r.Intn(16) == 0) {
			continue
		}
		for _, withOpt := range []bool{false, true} {
			m := new(dns.Msg)
			m.SetQuestion("rc.example.", dns.TypeA)
			m.Rcode = rc
			if withOpt {
				m.SetEdns0(1232, rc%2 == 0)
			}
			b, err := m.Pack()
			st["rcode_checked"]++
			emit := rc < 20 || rc%256 == 255 || rc > 4090
			if emit {
				t, _ := MsgText(m)
				o := "err"
				if err == nil {
					o = "ok:" + Hx(b)
				}
				Emit("pack_msg", []string{t}, o)
			}
			if !withOpt && rc > 15 {
				if err == nil {
					Viol("C01/rcode/extended-without-opt", "Pack accepted an extended RCODE without OPT", map[string]int{"rcode": rc})
				}
				continue
			}
			if err != nil {
				Viol("C01/rcode/pack-fails", "Pack fails for rcode "+Itoa(rc), map[string]int{"rcode": rc})
				continue
			}
			if int(b[3]&0xF) != rc&0xF {
				Viol("C01/rcode/low-bits", "low RCODE bits wrong in header", map[string]int{"rcode": rc})
			}
			if withOpt {
				// OPT TTL high octet = rc >> 4
				o := m.IsEdns0()
				if int(o.Hdr.Ttl>>24) != rc>>4 {
					Viol("C01/rcode/high-bits", "extended RCODE bits wrong in OPT", map[string]int{"rcode": rc})
				}
			}
			m2 := new(dns.Msg)
			if err := m2.Unpack(b); err != nil || m2.Rcode != rc {
				Viol("C01/rcode/rejoin", "RCODE not re-joined on unpack: got "+Itoa(m2.Rcode), map[string]int{"rcode": rc})
			}
			if emit {
				t, _ := MsgText(m2)
				Emit("unpack_msg", []string{Hx(b)}, "ok:"+t)
			}
		}
	}
	// (5) header words: all 2^16 flag/opcode words (thorough) or single bits + sample
	for w := 0; w < 65536; w++ {
		single := w&(w-1) == 0
		if tier != "thorough" && !(single || w%1021 == 0 || r.Intn(200) == 0) {
			continue
		}
		raw, _ := hex.DecodeString("abcd")
		raw = append(raw, byte(w>>8), byte(w), 0, 0, 0, 0, 0, 0, 0, 0)
		m := new(dns.Msg)
		if err := m.Unpack(raw); err != nil {
			Viol("C01/header/unpack", "header-only message rejected", map[string]int{"word": w})
			continue
		}
		b, err := m.Pack()
		st["header_words_checked"]++
		if err != nil || !bytes.Equal(b, raw) {
			Viol("C01/header/roundtrip", "header word does not round-trip", map[string]int{"word": w})
		}
		if single || w%4099 == 0 {
			t, _ := MsgText(m)
			Emit("unpack_msg", []string{Hx(raw)}, "ok:"+t)
			Emit("pack_msg", []string{t}, "ok:"+Hx(b))
		}
	}
	runOptUnpack(r, tier)
	runMidBuffer(r, tier)
	Stat(st)
}

type c01Priv struct{ b []byte }

func (d *c01Priv) String() string         { return Hx(d.b) }
func (d *c01Priv) Parse(s []string) error { return nil }
func (d *c01Priv) Pack(buf []byte) (int, error) {
	if len(buf) < len(d.b) {
		return 0, dns.ErrBuf
	}
	return copy(buf, d.b), nil
}
func (d *c01Priv) Unpack(buf []byte) (int, error) {
	d.b = append([]byte(nil), buf...)
	return len(buf), nil
}
func (d *c01Priv) Copy(dst dns.PrivateRdata) error {
	dst.(*c01Priv).b = append([]byte(nil), d.b...)
	return nil
}
func (d *c01Priv) Len() int { return len(d.b) }

// wantOptionData: the value octets of an EDNS0 option as the RFCs lay them out (RFC 7314 EXPIRE, RFC 7828
// keepalive, RFC 8914 EDE, RFC 7830 padding, RFC 6975 DAU/DHU/N3U, Update Lease, LLQ), written independently
// of the library's pack methods.
func wantOptionData(o dns.EDNS0) ([]byte, bool) {
	be := func(v uint64, n int) []byte {
		b := make([]byte, n)
		for i := n - 1; i >= 0; i-- {
			b[i] = byte(v)
			v >>= 8
		}
		return b
	}
	switch x := o.(type) {
	case *dns.EDNS0_EXPIRE:
		if x.Empty {
			return []byte{}, true
		}
		return be(uint64(x.Expire), 4), true
	case *dns.EDNS0_TCP_KEEPALIVE:
		if x.Timeout == 0 {
			return []byte{}, true
		}
		return be(uint64(x.Timeout), 2), true
	case *dns.EDNS0_UL:
		if x.KeyLease == 0 {
			return be(uint64(x.Lease), 4), true
		}
		return append(be(uint64(x.Lease), 4), be(uint64(x.KeyLease), 4)...), true
	case *dns.EDNS0_LLQ:
		b := append(be(uint64(x.Version), 2), be(uint64(x.Opcode), 2)...)
		b = append(b, be(uint64(x.Error), 2)...)
		b = append(b, be(x.Id, 8)...)
		return append(b, be(uint64(x.LeaseLife), 4)...), true
	case *dns.EDNS0_EDE:
		return append(be(uint64(x.InfoCode), 2), []byte(x.ExtraText)...), true
	case *dns.EDNS0_PADDING:
		return append([]byte{}, x.Padding...), true
	case *dns.EDNS0_DAU:
		return append([]byte{}, x.AlgCode...), true
	case *dns.EDNS0_DHU:
		return append([]byte{}, x.AlgCode...), true
	case *dns.EDNS0_N3U:
		return append([]byte{}, x.AlgCode...), true
	case *dns.EDNS0_LOCAL:
		return append([]byte{}, x.Data...), true
	}
	return nil, false
}
