(* Props/C07.v — property C07 (parsing hostile zone text is safe, bounded, opens
   no files unless allowed).  Only statements; each is closed by [exact] of a
   lemma proved in Proofs/.  The models are Model/Lexer.v (zlexer) and
   Model/Zone.v (ZoneParser, $GENERATE, $INCLUDE); the include file systems
   fs_open / os_open are universally quantified. *)
From Dns Require Import Model.Zone Proofs.LexerProofs Proofs.ZoneProofs.
Open Scope N_scope.

(* ---- the lexer: every octet string, with or without a failing reader ---- *)

(* No write to the hand-grown token and comment buffers is out of range (the
   model marks such a write as a panic). *)
Theorem lex_no_panic :
  forall (text : bytes) (reader_fails : bool), snd (lex_full text reader_fails) = false.
Proof. exact lex_full_no_panic. Qed.

(* The model is structurally recursive on the text (it terminates), and the
   stream it delivers has at most two tokens per octet. *)
Theorem lex_terminates_linear :
  forall text : bytes, (length (lex text) <= 2 * length text + 10)%nat.
Proof. exact lex_count. Qed.

(* A token that is not an error message is no longer than the text. *)
Theorem token_bounded :
  forall (text : bytes) (t : tok),
    In t (lex text) -> t_err t = false -> (length (t_text t) <= Nat.max 1 (length text))%nat.
Proof. exact lex_token_bounded. Qed.

(* A lexer error is the last token: nothing is delivered after it. *)
Theorem lex_error_sticky :
  forall (text : bytes) (pre : list tok) (t : tok) (post : list tok),
    lex text = pre ++ t :: post -> t_err t = true -> post = [].
Proof. exact lex_err_last. Qed.

(* ---- the parser: every text, origin, file name, default TTL, include
        switch, include file system ---- *)

(* Once an error has been reported, nothing follows it: no record is returned
   after the first problem. *)
Theorem first_error_sticky :
  forall (fs_open os_open : bytes -> option bytes) (origin file : bytes) (dt : option N)
         (inc hasfs : bool) (text : bytes) (pre : list ev) (e : ev) (post : list ev),
    parse_zone fs_open os_open origin file dt inc hasfs text = pre ++ e :: post ->
    ev_is_stop e = true -> post = [].
Proof. exact parse_zone_sticky. Qed.

(* Full statement: every error carries a line number from 1.  It fails for
   "garbage after $GENERATE range" when the range ends the input (refuted
   below) and does not apply to the rejected initial origin, which is not a
   syntax error.  Proved for all other errors: *)
Theorem error_has_position_partial :
  forall (fs_open os_open : bytes -> option bytes) (origin file : bytes) (dt : option N)
         (inc hasfs : bool) (text : bytes) (e : perr),
    In (EErr e) (parse_zone fs_open os_open origin file dt inc hasfs text) ->
    e_msg e <> B "bad initial origin name" ->
    e_msg e <> B "garbage after $GENERATE range" ->
    1 <= t_line (e_tok e).
Proof. exact parse_zone_err_pos. Qed.

Theorem error_has_position_refuted :
  exists (text : bytes) (e : perr),
    In (EErr e) (parse_zone no_files no_files (B "example.") [] (Some 3600) false false text) /\
    t_line (e_tok e) = 0.
Proof.
  exists (B "$GENERATE 0-1").
  eexists. split; [vm_compute; left; reflexivity|reflexivity].
Qed.

(* A range that is accepted has at most 65536 iterator values ... *)
Theorem generate_range_bound :
  forall (token : bytes) (start stop step : Z),
    parse_range token = inr (start, stop, step) ->
    (0 <= start <= stop /\ 0 < step /\ (stop - start) / step + 1 <= 65536)%Z.
Proof. exact parse_range_bound. Qed.

(* ... and the text handed to the sub parser has at most 65536 line ends for
   every line of the right-hand side. *)
Theorem generate_bound :
  forall (token : bytes) (start stop step : Z) (rhs : bytes),
    parse_range token = inr (start, stop, step) ->
    (Z.of_nat (count_nl (fst (gen_bytes rhs start stop step))) <=
     65536 * (Z.of_nat (count_nl rhs) + 1))%Z.
Proof. exact generate_lines_bound. Qed.

(* Full statement "at most one record per step" is false: a quoted line break
   in the right-hand side yields two records per step. *)
Theorem generate_one_record_per_step_refuted :
  exists text : bytes,
    count_ev is_rec (parse_zone no_files no_files (B "example.") [] (Some 3600) false false text) = 4%nat /\
    (exists pre, text = B "$GENERATE 0-1 " ++ pre).
Proof. exists two_per_step. split; [vm_compute; reflexivity|eexists; reflexivity]. Qed.

(* A parser made by $GENERATE (generateDisallowed) never starts an expansion:
   the directive is answered with an error. *)
Theorem nested_generate_rejected :
  forall (cf : cfg) (p : pst) (l : tok) (r : list tok),
    c_gd cf = true ->
    zstep cf p XDirGenerate l r = ZRet (NErr (B "nested $GENERATE directive not allowed") l).
Proof. exact nested_generate_step. Qed.

Theorem nested_generate_never_expands :
  forall (cf : cfg) (p : pst) (st : zst) (k : nat) (toks : list tok) (l : tok) (p' : pst) (rest : list tok),
    c_gd cf = true -> zloop cf p st k toks <> NGenerate l p' rest.
Proof. exact zloop_no_generate. Qed.

(* The ban does not reach through $INCLUDE: a $GENERATE in a file included from
   a generated line is expanded (2 x 2 records, no error). *)
Theorem nested_generate_via_include_accepted :
  exists (os_open : bytes -> option bytes) (text : bytes),
    let evs := parse_zone no_files os_open (B "example.") [] (Some 3600) true false text in
    count_ev is_rec evs = 4%nat /\ count_ev is_err evs = O.
Proof. exists inc_file. eexists. exact ex_nested_generate_via_include. Qed.

(* No file is opened unless includes were enabled on the parser. *)
Theorem no_open_unless_allowed :
  forall (fs_open os_open : bytes -> option bytes) (origin file : bytes) (dt : option N)
         (hasfs : bool) (text : bytes) (viafs : bool) (path : bytes) (found : bool) (depth : nat),
    ~ In (EOpen viafs path found depth) (parse_zone fs_open os_open origin file dt false hasfs text).
Proof. exact parse_zone_no_open. Qed.

(* Include nesting stops at maxIncludeDepth whatever the files contain (also
   when a file includes itself). *)
Theorem include_depth :
  forall (fs_open os_open : bytes -> option bytes) (origin file : bytes) (dt : option N)
         (inc hasfs : bool) (text : bytes) (viafs : bool) (path : bytes) (found : bool) (depth : nat),
    In (EOpen viafs path found depth) (parse_zone fs_open os_open origin file dt inc hasfs text) ->
    (depth <= maxIncludeDepth)%nat.
Proof. exact parse_zone_depth. Qed.

(* Termination: the model recurses on the include depth left and on a token
   budget; neither is ever used up, so the event list is the complete run. *)
Theorem parse_terminates :
  forall (fs_open os_open : bytes -> option bytes) (origin file : bytes) (dt : option N)
         (inc hasfs : bool) (text : bytes),
    ~ In EFuel (parse_zone fs_open os_open origin file dt inc hasfs text).
Proof. exact parse_zone_no_fuel. Qed.
