(* Model/Rdata.v — the field codecs of msg_helpers.go / msg.go (packUintN,
   packString, packStringTxt, packStringOctet, packStringHex/Base64/Base32/Any,
   packDataA/AAAA/Nsec/Opt/SVCB/Apl/DomainNames, packIPSECGateway and their
   unpack counterparts), and the interpreter that runs a translated field
   sequence (Gen/Layouts.v) the way the generated pack()/unpack() methods do.
   Definitions only.

   Values.  A record's RDATA is an association list from struct field name to
   [fval].  Text-encoded fields (hex, base64, base32) are held as the octets
   they denote ([V_enc]); the text codecs of Go's encoding/* packages are
   outside the model (trusted base).  EDNS0 options and SVCB parameters are held
   as (code, packed value) pairs at this level; their own codecs are modelled in
   Model/Edns.v / Model/Svcb.v. *)
From Dns Require Export Model.Tables Model.NameWire Model.Options.
Open Scope N_scope.

Inductive fval :=
| V_n (n : N)                         (* uint8/16/32/64 *)
| V_s (s : bytes)                     (* string: name / character-string text / raw *)
| V_ss (l : list bytes)               (* []string *)
| V_b (b : bytes)                     (* net.IP *)
| V_enc (b : bytes)                   (* hex / base64 / base32 text, as the octets it denotes *)
| V_ns (l : list N)                   (* []uint16 *)
| V_pairs (l : list (N * bytes * N))  (* []EDNS0 / []SVCBKeyValue: code, packed value, and what its len() reports *)
| V_apl (l : list (bool * N * bytes)) (* []APLPrefix: negation, prefix length, address (4 or 16 octets) *).

Definition rdata := list (string * fval).
Fixpoint vget (v : rdata) (f : string) : option fval :=
  match v with
  | [] => None
  | (g, x) :: r => if String.eqb f g then Some x else vget r f
  end.
Definition vget_n (v : rdata) (f : string) : N :=
  match vget v f with Some (V_n n) => n | _ => 0 end.

(* ------------------------------------------------------------------ *)
(* packing: st = (octets written so far, compression map), cap = len(msg) *)
Definition poff (st : pn_state) : N := lenN (pn_out st).
Definition pemit (st : pn_state) (b : bytes) : pn_state :=
  {| pn_out := pn_out st ++ b; pn_cm := pn_cm st |}.
(* the common shape: if off+n > len(msg) { return len(msg), overflow } ; write *)
Definition pack_fixed (b : bytes) (cap : N) (st : pn_state) : res pn_state :=
  if cap <? poff st + lenN b then Err "overflow" else Ok (pemit st b).

(* msg.go packTxtString: the escape reader; off0 = offset of the first data octet *)
Fixpoint ptx_go (s : bytes) (acc : bytes) (off0 cap : N) : res bytes :=
  match s with
  | [] => Ok acc
  | c :: r =>
    if cap <=? off0 + lenN acc then Err "buf"
    else if c =? 92 then
      match r with
      | [] => Ok acc                                   (* i++; i == len(s): break *)
      | a :: ((b :: d :: r3) as r1) =>
        if is_digit a && is_digit b && is_digit d
        then ptx_go r3 (acc ++ [ddd_to_byte r]) off0 cap
        else ptx_go r1 (acc ++ [a]) off0 cap
      | a :: r1 => ptx_go r1 (acc ++ [a]) off0 cap
      end
    else ptx_go r (acc ++ [c]) off0 cap
  end.
Definition pack_txt_string (s : bytes) (cap : N) (st : pn_state) : res pn_state :=
  let off := poff st in
  if (cap <=? off) || (1025 <? lenN s) then Err "buf"
  else
    do data <- ptx_go s [] (off + 1) cap;
    if 255 <? lenN data then Err "txt255"
    else Ok (pemit st (lenN data :: data)).
(* msg_helpers.go packString *)
Definition pack_string := pack_txt_string.
(* msg.go packTxt / packStringTxt *)
Fixpoint pack_txts (l : list bytes) (cap : N) (st : pn_state) : res pn_state :=
  match l with
  | [] => Ok st
  | s :: r => do st' <- pack_txt_string s cap st; pack_txts r cap st'
  end.
Definition pack_txt (l : list bytes) (cap : N) (st : pn_state) : res pn_state :=
  match l with
  | [] => if cap <=? poff st then Err "buf" else Ok st   (* writes one zero octet that is not counted *)
  | _ => pack_txts l cap st
  end.
(* msg.go packOctetString *)
Definition pack_octet (s : bytes) (cap : N) (st : pn_state) : res pn_state :=
  let off := poff st in
  if (cap <=? off) || (1025 <? lenN s) then Err "buf"
  else do data <- ptx_go s [] off cap; Ok (pemit st data).

(* packDataA / packDataAAAA *)
Definition is_v4_mapped (a : bytes) : bool :=
  bytes_eqb (firstn 12 a) [0;0;0;0;0;0;0;0;0;0;255;255].
Definition pack_a (a : bytes) (cap : N) (st : pn_state) : res pn_state :=
  match lenN a with
  | 4 => pack_fixed a cap st
  | 16 => (* copy(msg[off:], a.To4()); off += 4 — To4() is nil unless v4-mapped *)
    pack_fixed (if is_v4_mapped a then skipn 12 a else [0;0;0;0]) cap st
  | 0 => Ok st
  | _ => Err "overflow"
  end.
Definition pack_aaaa (a : bytes) (cap : N) (st : pn_state) : res pn_state :=
  match lenN a with
  | 16 => pack_fixed a cap st
  | 0 => Ok st
  | _ => Err "overflow"
  end.

(* packDataNsec *)
(* typeBitMapLen *)
Fixpoint tbm_len_go (l : list N) (lastwindow lastlength acc : N) : N :=
  match l with
  | [] => acc + lastlength + 2
  | t :: r =>
    let window := t / 256 in
    let length := (t - window * 256) / 8 + 1 in
    let '(acc, lastlength) :=
      if (lastwindow <? window) && negb (lastlength =? 0) then (acc + lastlength + 2, 0) else (acc, lastlength) in
    if (window <? lastwindow) || (length <? lastlength) then tbm_len_go r lastwindow lastlength acc
    else tbm_len_go r window length acc
  end.
Definition type_bitmap_len (l : list N) : N := tbm_len_go l 0 0 0.

Definition set_bit (b : N) (k : N) : N := N.lor b (N.shiftl 1 (7 - k)).
(* cur: data octets of the block being filled (length = lastlength) *)
Fixpoint pad_to (cur : bytes) (n : nat) : bytes :=
  match n with
  | O => cur
  | S k => match cur with [] => 0 :: pad_to [] k | x :: r => x :: pad_to r k end
  end.
Fixpoint or_last (cur : bytes) (k : N) : bytes :=
  match cur with
  | [] => []
  | [x] => [set_bit x k]
  | x :: r => x :: or_last r k
  end.
Fixpoint nsec_go (l : list N) (lastwindow : N) (cur : bytes) (cap : N) (st : pn_state) : res pn_state :=
  match l with
  | [] => Ok (pemit st (lastwindow :: lenN cur :: cur))   (* off += lastlength + 2 *)
  | t :: r =>
    let window := t / 256 in
    let length := (t - window * 256) / 8 + 1 in
    let '(st, cur) :=
      if (lastwindow <? window) && negb (lenN cur =? 0)
      then (pemit st (lastwindow :: lenN cur :: cur), []) else (st, cur) in
    if (window <? lastwindow) || (length <? lenN cur) then Err "nsecorder"
    else if cap <? poff st + 2 + length then Err "overflow"
    else nsec_go r window (or_last (pad_to cur (N.to_nat length)) (t mod 8)) cap st
  end.
Definition pack_nsec (l : list N) (cap : N) (st : pn_state) : res pn_state :=
  match l with
  | [] => Ok st
  | _ => if cap <? poff st then Err "overflow" else nsec_go l 0 [] cap st
  end.

(* packDataOpt: options given as (code, packed data) *)
Fixpoint pack_opts (l : list (N * bytes * N)) (cap : N) (st : pn_state) : res pn_state :=
  match l with
  | [] => Ok st
  | (code, b, _) :: r =>
    if cap <? poff st + 4 then Err "overflow"
    else if cap <? poff st + 4 + lenN b then Err "overflow"
    else pack_opts r cap (pemit st (u16 code ++ u16 (lenN b) ++ b))
  end.

(* packDataSVCB: sort by key (stable insertion sort), reject repeated keys *)
Definition pkey (p : N * bytes * N) : N := fst (fst p).
Fixpoint ins_pair (p : N * bytes * N) (l : list (N * bytes * N)) : list (N * bytes * N) :=
  match l with
  | [] => [p]
  | q :: r => if pkey q <=? pkey p then q :: ins_pair p r else p :: l
  end.
Definition sort_pairs (l : list (N * bytes * N)) : list (N * bytes * N) := fold_left (fun acc p => ins_pair p acc) l [].
Fixpoint pack_pairs_go (l : list (N * bytes * N)) (prev : N) (cap : N) (st : pn_state) : res pn_state :=
  match l with
  | [] => Ok st
  | (k, b, _) :: r =>
    if k =? prev then Err "svcbrepeat"
    else if cap <? poff st + 2 then Err "overflow"
    else if cap <? poff st + 4 then Err "overflow"
    else if cap <? poff st + 4 + lenN b then Err "overflow"
    else pack_pairs_go r k cap (pemit st (u16 k ++ u16 (lenN b) ++ b))
  end.
Definition svcb_reserved : N := 65535.
Definition pack_svcb (l : list (N * bytes * N)) (cap : N) (st : pn_state) : res pn_state :=
  pack_pairs_go (sort_pairs l) svcb_reserved cap st.

(* packDataApl / packDataAplPrefix: (negation, prefix, masked address of 4 or 16 octets) *)
Fixpoint trim_zeros_rev (l : bytes) : bytes :=
  match l with 0 :: r => trim_zeros_rev r | _ => l end.
Definition trim_trailing_zeros (l : bytes) : bytes := rev (trim_zeros_rev (rev l)).
Definition pack_apl_prefix (p : bool * N * bytes) (cap : N) (st : pn_state) : res pn_state :=
  let '(neg, prefix, ip) := p in
  let fam := match lenN ip with 4 => Some 1 | 16 => Some 2 | _ => None end in
  match fam with
  | None => Err "aplfamily"
  | Some f =>
    do st <- pack_fixed (u16 f) cap st;
    do st <- pack_fixed (u8 prefix) cap st;
    let addr := trim_trailing_zeros (takeN ((prefix + 7) / 8) (mask_bytes ip prefix)) in   (* IP.Mask(Mask)[:(prefix+7)/8] *)
    let n := (if neg then 128 else 0) + (lenN addr) mod 128 in
    do st <- pack_fixed (u8 n) cap st;
    pack_fixed addr cap st
  end.
Fixpoint pack_apl (l : list (bool * N * bytes)) (cap : N) (st : pn_state) : res pn_state :=
  match l with
  | [] => Ok st
  | p :: r => do st' <- pack_apl_prefix p cap st; pack_apl r cap st'
  end.

Fixpoint pack_names (l : list bytes) (cap : N) (compress : bool) (st : pn_state) : res pn_state :=
  match l with
  | [] => Ok st
  | s :: r => do st' <- pack_name s cap compress st; pack_names r cap compress st'
  end.

Definition gw_none : N := 0.
Definition gw_v4 : N := 1.
Definition gw_v6 : N := 2.
Definition gw_host : N := 3.

Definition as_s (o : option fval) : bytes := match o with Some (V_s s) => s | _ => [] end.
Definition as_b (o : option fval) : bytes := match o with Some (V_b s) => s | _ => [] end.
Definition as_enc (o : option fval) : bytes := match o with Some (V_enc s) => s | _ => [] end.
Definition as_n (o : option fval) : N := match o with Some (V_n s) => s | _ => 0 end.
Definition as_ss (o : option fval) : list bytes := match o with Some (V_ss s) => s | _ => [] end.
Definition as_ns (o : option fval) : list N := match o with Some (V_ns s) => s | _ => [] end.
Definition as_pairs (o : option fval) := match o with Some (V_pairs s) => s | _ => [] end.
Definition as_apl (o : option fval) := match o with Some (V_apl s) => s | _ => [] end.

(* one pack statement of a generated pack() method *)
Definition pack_field (v : rdata) (f : string) (k : fkind) (cap : N) (st : pn_state) : res pn_state :=
  let x := vget v f in
  match k with
  | K_u8 => pack_fixed (u8 (as_n x)) cap st
  | K_u16 => pack_fixed (u16 (as_n x)) cap st
  | K_u32 => pack_fixed (u32 (as_n x)) cap st
  | K_u48 => pack_fixed (u48 (as_n x)) cap st
  | K_u64 => pack_fixed (u64 (as_n x)) cap st
  | K_name c => pack_name (as_s x) cap c st
  | K_string => match pack_string (as_s x) cap st with Err _ => Err "string" | r => r end
  | K_txt => match pack_txt (as_ss x) cap st with Err _ => Err "txt" | r => r end
  | K_octet => match pack_octet (as_s x) cap st with Err _ => Err "octet" | r => r end
  | K_any => pack_fixed (as_s x) cap st
  | K_hex _ | K_hexdash _ | K_b64 _ | K_b32 _ => pack_fixed (as_enc x) cap st
  | K_a => pack_a (as_b x) cap st
  | K_aaaa => pack_aaaa (as_b x) cap st
  | K_nsec => pack_nsec (as_ns x) cap st
  | K_opt => pack_opts (as_pairs x) cap st
  | K_svcb => pack_svcb (as_pairs x) cap st
  | K_apl => pack_apl (as_apl x) cap st
  | K_names c => pack_names (as_ss x) cap c st
  | K_gateway tyf addrf hostf mask c =>
    let ty := N.land (vget_n v tyf) mask in
    if ty =? gw_v4 then pack_a (as_b (vget v addrf)) cap st
    else if ty =? gw_v6 then pack_aaaa (as_b (vget v addrf)) cap st
    else if ty =? gw_host then pack_name (as_s (vget v hostf)) cap c st
    else Ok st
  end.

Fixpoint pack_fields (v : rdata) (l : list pfield) (cap : N) (st : pn_state) : res pn_state :=
  match l with
  | [] => Ok st
  | (f, k) :: r => do st' <- pack_field v f k cap st; pack_fields v r cap st'
  end.

(* ------------------------------------------------------------------ *)
(* unpacking: msg is already cut at the end of the RDATA *)
Definition take_at (msg : bytes) (off n : N) : bytes := takeN n (dropN off msg).

Definition unpack_fixed (n : N) (msg : bytes) (off : N) : res (bytes * N) :=
  if lenN msg <? off + n then Err "overflow" else Ok (take_at msg off n, off + n).

(* msg_helpers.go unpackString: the printer of character-strings *)
Definition show_txt_octet (b : N) : bytes :=
  if (b =? 34) || (b =? 92) then [92; b]
  else if (b <? 32) || (126 <? b) then ddd b
  else [b].
Definition show_txt (l : bytes) : bytes := flat_map show_txt_octet l.
Definition unpack_string (msg : bytes) (off : N) : res (bytes * N) :=
  if lenN msg <? off + 1 then Err "overflow"
  else
    let l := nthN msg off 0 in
    let off := off + 1 in
    if lenN msg <? off + l then Err "overflow"
    else Ok (show_txt (take_at msg off l), off + l).
(* msg.go unpackTxt via unpackStringTxt *)
Fixpoint unpack_txts (fuel : nat) (msg : bytes) (off : N) (acc : list bytes) : res (list bytes * N) :=
  match fuel with
  | O => OutOfFuel
  | S f =>
    if off <? lenN msg then
      do r <- unpack_string msg off;
      unpack_txts f msg (snd r) (acc ++ [fst r])
    else Ok (acc, off)
  end.
Definition unpack_txt (msg : bytes) (off : N) : res (list bytes * N) :=
  unpack_txts (S (length msg)) msg off [].

(* unpackDataNsec *)
Definition bits_of (window j b : N) : list N :=
  flat_map (fun k => if N.testbit b (7 - k) then [window * 256 + j * 8 + k] else []) [0;1;2;3;4;5;6;7].
Fixpoint block_types (window : N) (j : N) (data : bytes) : list N :=
  match data with
  | [] => []
  | b :: r => bits_of window j b ++ block_types window (j + 1) r
  end.
Fixpoint unpack_nsec_go (fuel : nat) (msg : bytes) (off : N) (lastwindow : Z) (acc : list N) : res (list N * N) :=
  match fuel with
  | O => OutOfFuel
  | S f =>
    if off <? lenN msg then
      if lenN msg <? off + 2 then Err "nsec"
      else
        let window := nthN msg off 0 in
        let length := nthN msg (off + 1) 0 in
        let off := off + 2 in
        if (Z.of_N window <=? lastwindow)%Z then Err "nsec"
        else if length =? 0 then Err "nsec"
        else if 32 <? length then Err "nsec"
        else if lenN msg <? off + length then Err "nsec"
        else unpack_nsec_go f msg (off + length) (Z.of_N window)
                            (acc ++ block_types window 0 (take_at msg off length))
    else Ok (acc, off)
  end.
Definition unpack_nsec (msg : bytes) (off : N) : res (list N * N) :=
  unpack_nsec_go (S (length msg)) msg off (-1)%Z [].

(* unpackDataOpt / unpackDataSVCB at the (code, data) level *)
Fixpoint unpack_opts_go (fuel : nat) (msg : bytes) (off : N) (acc : list (N * bytes * N)) : res (list (N * bytes * N) * N) :=
  match fuel with
  | O => OutOfFuel
  | S f =>
    if off <? lenN msg then
      if lenN msg <? off + 4 then Err "overflow"
      else
        let code := be (take_at msg off 2) 0 in
        let optlen := be (take_at msg (off + 2) 2) 0 in
        let off := off + 4 in
        if lenN msg <? off + optlen then Err "overflow"
        else match opt_view code (take_at msg off optlen) with
             | None => Err "option"             (* the option's own unpack rejects the octets *)
             | Some (b, l) => unpack_opts_go f msg (off + optlen) (acc ++ [(code, b, l)])
             end
    else Ok (acc, off)
  end.
Definition unpack_opts (msg : bytes) (off : N) := unpack_opts_go (S (length msg)) msg off [].

Fixpoint unpack_svcb_go (fuel : nat) (msg : bytes) (off : N) (last : Z) (acc : list (N * bytes * N)) : res (list (N * bytes * N) * N) :=
  match fuel with
  | O => OutOfFuel
  | S f =>
    if off <? lenN msg then
      if lenN msg <? off + 2 then Err "overflow"
      else
        let code := be (take_at msg off 2) 0 in
        let off := off + 2 in
        if lenN msg <? off + 2 then Err "overflow"
        else
          let len := be (take_at msg off 2) 0 in
          let off := off + 2 in
          if lenN msg <? off + len then Err "overflow"
          else match svcb_view code (take_at msg off len) with
               | None => Err "svcbvalue"
               | Some (b, l) =>
                 if (Z.of_N code <=? last)%Z then Err "svcborder"
                 else unpack_svcb_go f msg (off + len) (Z.of_N code) (acc ++ [(code, b, l)])
               end
    else Ok (acc, off)
  end.
Definition unpack_svcb (msg : bytes) (off : N) := unpack_svcb_go (S (length msg)) msg off (-1)%Z [].

(* unpackDataApl *)
Fixpoint pad_right (l : bytes) (n : nat) : bytes :=
  match n with
  | O => []
  | S k => match l with [] => 0 :: pad_right [] k | x :: r => x :: pad_right r k end
  end.
Definition unpack_apl_prefix (msg : bytes) (off : N) : res ((bool * N * bytes) * N) :=
  if lenN msg <? off + 2 then Err "apl" else
  let family := be (take_at msg off 2) 0 in
  let off := off + 2 in
  if lenN msg <? off + 1 then Err "apl" else
  let prefix := nthN msg off 0 in
  let off := off + 1 in
  if lenN msg <? off + 1 then Err "apl" else
  let nlen := nthN msg off 0 in
  let off := off + 1 in
  let iplen := if family =? 1 then Some 4 else if family =? 2 then Some 16 else None in
  match iplen with
  | None => Err "apl"
  | Some il =>
    if 8 * il <? prefix then Err "apl"
    else
      let afdlen := nlen mod 128 in
      if il <? afdlen then Err "apl"
      else if lenN msg <? off + afdlen then Err "apl"
      else
        let a := take_at msg off afdlen in
        if (0 <? afdlen) && (nthN a (afdlen - 1) 0 =? 0) then Err "apl"
        else Ok ((128 <=? nlen, prefix, pad_right a (N.to_nat il)), off + afdlen)
  end.
Fixpoint unpack_apl_go (fuel : nat) (msg : bytes) (off : N) (acc : list (bool * N * bytes))
  : res (list (bool * N * bytes) * N) :=
  match fuel with
  | O => OutOfFuel
  | S f =>
    if off <? lenN msg then
      do r <- unpack_apl_prefix msg off;
      unpack_apl_go f msg (snd r) (acc ++ [fst r])
    else Ok (acc, off)
  end.
Definition unpack_apl (msg : bytes) (off : N) := unpack_apl_go (S (length msg)) msg off [].

(* unpackDataDomainNames(msg, off, end) with end = len(msg) *)
Fixpoint unpack_names_go (fuel : nat) (msg : bytes) (off : N) (acc : list bytes) : res (list bytes * N) :=
  match fuel with
  | O => OutOfFuel
  | S f =>
    if off <? lenN msg then
      do r <- unpack_name msg off;
      unpack_names_go f msg (snd r) (acc ++ [fst r])
    else Ok (acc, off)
  end.
Definition unpack_names (msg : bytes) (off : N) := unpack_names_go (S (length msg)) msg off [].

Definition end_of (e : fend) (got : rdata) (msg : bytes) (off : N) : N :=
  match e with
  | ToEnd => lenN msg
  | SizedBy f => off + vget_n got f
  end.
(* unpackStringHex / Base64 / Base32 / Any (msg, off, end): msg[off:end] *)
Definition unpack_to_end (msg : bytes) (off e : N) : res (bytes * N) :=
  if lenN msg <? e then Err "overflow"
  else if e <? off then Panic                      (* msg[off:end] with end < off *)
  else Ok (take_at msg off (e - off), e).

(* one unpack statement; got = fields decoded so far (for sized fields and the gateway type) *)
Definition unpack_field (got : rdata) (k : fkind) (msg : bytes) (off : N) : res (list fval * N) :=
  let one (r : res (fval * N)) : res (list fval * N) := do p <- r; Ok ([fst p], snd p) in
  let num n := one (do r <- unpack_fixed n msg off; Ok (V_n (be (fst r) 0), snd r)) in
  match k with
  | K_u8 => num 1 | K_u16 => num 2 | K_u32 => num 4 | K_u48 => num 6 | K_u64 => num 8
  | K_name _ => one (do r <- unpack_name msg off; Ok (V_s (fst r), snd r))
  | K_string => one (do r <- unpack_string msg off; Ok (V_s (fst r), snd r))
  | K_txt => one (match unpack_txt msg off with Ok r => Ok (V_ss (fst r), snd r) | Err _ => Err "txt" | Panic => Panic | OutOfFuel => OutOfFuel end)
  | K_octet => one (if lenN msg <? off then Panic
                    else Ok (V_s (flat_map (fun b => if b =? 92 then [92; 92] else [b]) (dropN off msg)), lenN msg))
  | K_any => one (do r <- unpack_to_end msg off (lenN msg); Ok (V_s (fst r), snd r))
  | K_hex e | K_hexdash e | K_b64 e | K_b32 e =>
    one (do r <- unpack_to_end msg off (end_of e got msg off); Ok (V_enc (fst r), snd r))
  | K_a => one (do r <- unpack_fixed 4 msg off; Ok (V_b (fst r), snd r))
  | K_aaaa => one (do r <- unpack_fixed 16 msg off; Ok (V_b (fst r), snd r))
  | K_nsec => one (do r <- unpack_nsec msg off; Ok (V_ns (fst r), snd r))
  | K_opt => one (do r <- unpack_opts msg off; Ok (V_pairs (fst r), snd r))
  | K_svcb => one (do r <- unpack_svcb msg off; Ok (V_pairs (fst r), snd r))
  | K_apl => one (do r <- unpack_apl msg off; Ok (V_apl (fst r), snd r))
  | K_names _ => one (do r <- unpack_names msg off; Ok (V_ss (fst r), snd r))
  | K_gateway tyf addrf hostf mask _ =>
    let ty := N.land (vget_n got tyf) mask in
    if ty =? gw_v4 then do r <- unpack_fixed 4 msg off; Ok ([V_b (fst r); V_s []], snd r)
    else if ty =? gw_v6 then do r <- unpack_fixed 16 msg off; Ok ([V_b (fst r); V_s []], snd r)
    else if ty =? gw_host then do r <- unpack_name msg off; Ok ([V_b []; V_s (fst r)], snd r)
    else Ok ([V_b []; V_s []], off)
  end.

(* the field names a statement assigns *)
Definition assigned (u : ufield) : list string :=
  match uf_kind u with
  | K_gateway _ addrf hostf _ _ => [addrf; hostf]
  | _ => [uf_name u]
  end.

(* the generated unpack(): statements in order; after a statement flagged with
   uf_exit the method returns early when the RDATA is exhausted *)
Fixpoint unpack_fields (l : list ufield) (got : rdata) (msg : bytes) (off : N) : res (rdata * N) :=
  match l with
  | [] => Ok (got, off)
  | u :: r =>
    do p <- unpack_field got (uf_kind u) msg off;
    let got' := got ++ combine (assigned u) (fst p) in
    if uf_exit u && (snd p =? lenN msg) then Ok (got', snd p)
    else unpack_fields r got' msg (snd p)
  end.
