(* Model/Wire.v — the raw-octet walkers of msg.go / msg_helpers.go that tsig.go
   (stripTsig) and sig0.go (SIG.Verify) drive over a received message:
   UnpackDomainName, unpackUint16/32/48, unpackMsgHdr, unpackQuestion,
   unpackHeader + UnpackRRWithHeader (RR framing by RDLENGTH), unpackRRslice.
   Definitions only.  Offsets are N; every Go bounds check is an explicit test
   here, so that the places where Go would panic are the [Panic] results of
   [slice]/[index]/[be16_at] and nothing else. *)
From Dns Require Export Base.Bytes Model.Name.
Open Scope N_scope.

(* ---------- raw access ---------- *)
(* msg[off:off+n] when the caller has already checked the bounds *)
Definition get (msg : bytes) (off n : N) : bytes := takeN n (dropN off msg).

(* msg_helpers.go unpackUint16/32/48: a returned error, never a panic *)
Definition rd (n : N) (msg : bytes) (off : N) : res (N * N) :=
  if lenN msg <? off + n then Err "overflow" else Ok (be (get msg off n) 0, off + n).

(* binary.BigEndian.Uint16(buf[off:]) / Uint32: slicing or the accessor panics
   when fewer than n octets remain *)
Definition be_at (n : N) (buf : bytes) (off : N) : res N :=
  if off + n <=? lenN buf then Ok (be (get buf off n) 0) else Panic.

(* binary.BigEndian.PutUint16(buf[off:], v) *)
Definition put_u16 (buf : bytes) (off v : N) : res bytes :=
  if off + 2 <=? lenN buf then Ok (takeN off buf ++ u16 v ++ dropN (off + 2) buf) else Panic.

(* ---------- UnpackDomainName (msg.go) ---------- *)
Definition max_ptrs : N := 127.      (* maxCompressionPointers = (255+1)/2 - 1 (one pointer per label, repo fix d9981c7) *)
Definition name_budget : N := 255.   (* maxDomainNameWireOctets *)
Definition name_fuel : nat := 400.

Fixpoint name_loop (fuel : nat) (msg : bytes) (off budget ptr off1 : N)
         (acc : list label) : res (list label * N) :=
  match fuel with
  | O => OutOfFuel
  | S f =>
    if lenN msg <=? off then Err "buf" else
    let c := nthN msg off 0 in
    let off := off + 1 in
    if c <? 64 then
      if c =? 0 then Ok (rev acc, if ptr =? 0 then off else off1)
      else if lenN msg <? off + c then Err "buf"
      else if budget <=? c + 1 then Err "longname"
      else name_loop f msg (off + c) (budget - (c + 1)) ptr off1 (get msg off c :: acc)
    else if (192 <=? c) && (c <? 256) then
      if lenN msg <=? off then Err "buf" else
      let c1 := nthN msg off 0 in
      let off := off + 1 in
      let off1 := if ptr =? 0 then off else off1 in
      if max_ptrs <? ptr + 1 then Err "ptr"
      else name_loop f msg ((c - 192) * 256 + c1) budget (ptr + 1) off1 acc
    else Err "rdata"
  end.

Definition unpack_name (msg : bytes) (off : N) : res (list label * N) :=
  name_loop name_fuel msg off name_budget 0 0 [].

(* ---------- message header ---------- *)
Record hdr := { h_id : N; h_bits : N; h_qd : N; h_an : N; h_ns : N; h_ar : N }.

(* unpackMsgHdr: six unpackUint16 *)
Definition unpack_hdr (msg : bytes) : res (hdr * N) :=
  do (id, o) <- rd 2 msg 0;
  do (bits, o) <- rd 2 msg o;
  do (qd, o) <- rd 2 msg o;
  do (an, o) <- rd 2 msg o;
  do (ns, o) <- rd 2 msg o;
  do (ar, o) <- rd 2 msg o;
  Ok (Build_hdr id bits qd an ns ar, o).

(* unpackQuestion, lenient: a question may stop at the end of the message after
   its name or its type.  [strict] = the variant used by the well-formedness
   predicate (all three parts present). *)
Definition unpack_question (strict : bool) (msg : bytes) (off : N) : res N :=
  do (_, o) <- unpack_name msg off;
  if negb strict && (o =? lenN msg) then Ok o else
  do (_, o) <- rd 2 msg o;
  if negb strict && (o =? lenN msg) then Ok o else
  do (_, o) <- rd 2 msg o;
  Ok o.

Fixpoint skip_questions (n : nat) (strict : bool) (msg : bytes) (off : N) : res N :=
  match n with
  | O => Ok off
  | S k => do o <- unpack_question strict msg off; skip_questions k strict msg o
  end.

(* ---------- TSIG RDATA (zmsg.go TSIG.unpack; [m] is the message cut at the
   end of the RDATA, as unpackHeader hands it on) ---------- *)
Record tsigrd := {
  t_alg : list label; t_time : N; t_fudge : N; t_macsize : N; t_mac : bytes;
  t_origid : N; t_error : N; t_otherlen : N; t_other : bytes }.
Definition tsigrd0 : tsigrd := Build_tsigrd [] 0 0 0 [] 0 0 0 [].

(* unpackStringHex(msg, off, off+n) *)
Definition rd_hex (m : bytes) (off n : N) : res (bytes * N) :=
  if lenN m <? off + n then Err "overflow" else Ok (get m off n, off + n).

Definition tsig_unpack (m : bytes) (off : N) : res (tsigrd * N) :=
  let e := lenN m in
  do (alg, o) <- unpack_name m off;
  if o =? e then Ok (Build_tsigrd alg 0 0 0 [] 0 0 0 [], o) else
  do (time, o) <- rd 6 m o;
  if o =? e then Ok (Build_tsigrd alg time 0 0 [] 0 0 0 [], o) else
  do (fudge, o) <- rd 2 m o;
  if o =? e then Ok (Build_tsigrd alg time fudge 0 [] 0 0 0 [], o) else
  do (macsize, o) <- rd 2 m o;
  if o =? e then Ok (Build_tsigrd alg time fudge macsize [] 0 0 0 [], o) else
  do (mac, o) <- rd_hex m o macsize;
  do (origid, o) <- rd 2 m o;
  if o =? e then Ok (Build_tsigrd alg time fudge macsize mac origid 0 0 [], o) else
  do (err, o) <- rd 2 m o;
  if o =? e then Ok (Build_tsigrd alg time fudge macsize mac origid err 0 [], o) else
  do (olen, o) <- rd 2 m o;
  if o =? e then Ok (Build_tsigrd alg time fudge macsize mac origid err olen [], o) else
  do (other, o) <- rd_hex m o olen;
  Ok (Build_tsigrd alg time fudge macsize mac origid err olen other, o).

(* ---------- one resource record (UnpackRR) ---------- *)
Definition TypeTSIG : N := 250.

Record rrv := {
  rv_name : list label; rv_type : N; rv_class : N; rv_ttl : N; rv_rdlen : N;
  rv_tsig : tsigrd   (* the decoded RDATA when rv_type = 250, else tsigrd0 *) }.
Definition rrv0 : rrv := Build_rrv [] 0 0 0 0 tsigrd0.

Section WithRdata.
  (* The type-specific RDATA decoders of zmsg.go other than TSIG's, seen only
     through what stripTsig observes: error or the offset they stop at.
     [rdata_chk ty m off]: [m] is the message cut at the end of the RDATA. *)
  Variable rdata_chk : N -> bytes -> N -> res N.

  (* unpackHeader + UnpackRRWithHeader.  At off = len(msg) Go returns an empty
     header without error and without consuming anything (not when [strict]). *)
  Definition unpack_rr (strict : bool) (msg : bytes) (off : N) : res (rrv * N) :=
    if negb strict && (off =? lenN msg) then Ok (rrv0, off) else
    do (name, o) <- unpack_name msg off;
    do (ty, o) <- rd 2 msg o;
    do (cl, o) <- rd 2 msg o;
    do (ttl, o) <- rd 4 msg o;
    do (rdlen, o) <- rd 2 msg o;
    if lenN msg <? o + rdlen then Err "overflow" else
    let m := takeN (o + rdlen) msg in
    if rdlen =? 0 then Ok (Build_rrv name ty cl ttl rdlen tsigrd0, o) else
    if ty =? TypeTSIG then
      do (t, o') <- tsig_unpack m o;
      if o' =? o + rdlen then Ok (Build_rrv name ty cl ttl rdlen t, o') else Err "badrdlength"
    else
      do o' <- rdata_chk ty m o;
      if o' =? o + rdlen then Ok (Build_rrv name ty cl ttl rdlen tsigrd0, o') else Err "badrdlength".

  (* unpackRRslice: stops without error when the offset no longer advances *)
  Fixpoint skip_rrs (n : nat) (strict : bool) (msg : bytes) (off : N) : res N :=
    match n with
    | O => Ok off
    | S k =>
      do (_, o) <- unpack_rr strict msg off;
      if o =? off then Ok off else skip_rrs k strict msg o
    end.

  (* ---------- vocabulary of the theorems about whole messages ---------- *)
  (* the 12 header octets *)
  Definition hdr_wire (h : hdr) : bytes :=
    u16 (h_id h) ++ u16 (h_bits h) ++ u16 (h_qd h) ++ u16 (h_an h) ++ u16 (h_ns h) ++ u16 (h_ar h).
  Definition hdr_ok (h : hdr) : Prop :=
    h_id h < 65536 /\ h_bits h < 65536 /\ h_qd h < 65536 /\ h_an h < 65536 /\ h_ns h < 65536 /\
    h_ar h < 65536.
  Definition set_id (h : hdr) (id : N) : hdr :=
    Build_hdr id (h_bits h) (h_qd h) (h_an h) (h_ns h) (h_ar h).
  Definition set_ar (h : hdr) (ar : N) : hdr :=
    Build_hdr (h_id h) (h_bits h) (h_qd h) (h_an h) (h_ns h) ar.

  (* additional records, all present and none of type TSIG *)
  Fixpoint skip_plain (n : nat) (msg : bytes) (off : N) : res N :=
    match n with
    | O => Ok off
    | S k =>
      do (rr, o) <- unpack_rr true msg off;
      if rv_type rr =? TypeTSIG then Err "tsig" else skip_plain k msg o
    end.
  (* strict framing: every counted question and record is present in full *)
  Definition walk_strict (h : hdr) (msg : bytes) : res N :=
    do o <- skip_questions (N.to_nat (h_qd h)) true msg 12;
    do o <- skip_rrs (N.to_nat (h_an h)) true msg o;
    do o <- skip_rrs (N.to_nat (h_ns h)) true msg o;
    skip_plain (N.to_nat (h_ar h)) msg o.
  (* [body] is a well-framed message body for the counts of [h], whatever the
     header octets are (what Pack produces: nothing refers into the header),
     without TSIG among its additional records *)
  Definition wf_body (h : hdr) (body : bytes) : Prop :=
    forall hd, lenN hd = 12 -> walk_strict h (hd ++ body) = Ok (12 + lenN body).

End WithRdata.
