(* Corr/C07.v — case runner for the zone lexer / parser models (shared with
   Corr/C06.v).  Renders the projected observables in the same textual form as
   harness/c07 prints them. *)
From Dns Require Import Model.Zone.
Open Scope N_scope.

(* ---------- argument decoding ---------- *)
Fixpoint split_on (c : ascii) (s : string) (cur : string) : list string :=
  match s with
  | EmptyString => [cur]
  | String a r => if Ascii.eqb a c then cur :: split_on c r EmptyString
                  else split_on c r (cur +++ String a EmptyString)
  end.
Fixpoint repeat_bytes (n : nat) (b : bytes) : bytes :=
  match n with O => [] | S k => b ++ repeat_bytes k b end.
(* a text recipe: items separated by '.', each hex or <hex>x<count> *)
Definition expand_item (it : string) : bytes :=
  match split_on "x"%char it EmptyString with
  | [h] => unhex h
  | [h; n] => repeat_bytes (undecn n) (unhex h)
  | _ => []
  end.
Definition expand (recipe : string) : bytes :=
  flat_map expand_item (split_on "."%char recipe EmptyString).

(* an association list path=content,path=content (both hex / recipes) *)
Definition parse_files (s : string) : list (bytes * bytes) :=
  match s with
  | EmptyString => []
  | _ => flat_map (fun kv => match split_on "="%char kv EmptyString with
                             | [k; v] => [(unhex k, expand v)]
                             | _ => []
                             end) (split_on ","%char s EmptyString)
  end.
Fixpoint assoc (l : list (bytes * bytes)) (k : bytes) : option bytes :=
  match l with
  | [] => None
  | (k', v) :: r => if bytes_eqb k k' then Some v else assoc r k
  end.

(* ---------- rendering ---------- *)
Fixpoint cksum_go (l : bytes) (i acc : N) : N :=
  match l with [] => acc | b :: r => cksum_go r (i + 1) ((acc + (i mod 251 + 1) * (b + 1)) mod 65521) end.
(* short octet strings in hex, long ones by length and checksum *)
Definition show_bytes (l : bytes) : string :=
  if lenN l <=? 48 then hex l
  else ("L" +++ dec (lenN l) +++ "c" +++ dec (cksum_go l 0 0))%string.

Definition is_alnum (c : N) : bool :=
  ((48 <=? c) && (c <=? 57)) || ((97 <=? c) && (c <=? 122)) || ((65 <=? c) && (c <=? 90)).
(* error class: the message up to the first colon, alphanumerics lower-cased,
   anything else a single '-' *)
Fixpoint slug_go (s : bytes) (out : bytes) : bytes :=
  match s with
  | [] => out
  | c :: r =>
    if c =? 58 then out
    else if is_alnum c then slug_go r (lower c :: out)
    else match out with
         | [] => slug_go r out
         | 45 :: _ => slug_go r out
         | _ => slug_go r (45 :: out)
         end
  end.
Definition slug (m : bytes) : string :=
  let o := slug_go m [] in
  string_of_bytes (rev (match o with 45 :: t => t | _ => o end)).

Definition show_tok (t : tok) : string :=
  join ","%string [dec (tval_code (t_val t)); show_bytes (t_text t); (if t_err t then "1" else "0")%string;
                   dec (t_torc t); dec (t_line t); dec (t_col t); show_bytes (t_com t)].
Definition show_toks (r : list tok * bool) : string :=
  if snd r then "panic"%string else join "|"%string (map show_tok (fst r)).

Definition show_rd (r : rdata) : string :=
  match r with
  | RName n => ("N" +++ show_bytes n)%string
  | RAddr a => ("A" +++ hex a)%string
  | RTxt l =>
    if 6 <? lenN l
    then ("Tn" +++ dec (lenN l) +++ "c" +++ dec (cksum_go (flat_map (fun x : bytes => (x ++ [0])%list) l) 0 0))%string
    else ("T" +++ join "_"%string (map show_bytes l))%string
  | RGen h => ("G" +++ show_bytes h)%string
  | REmpty => "E"%string
  end.
Definition show_ev (e : ev) : string :=
  match e with
  | ERec r =>
    let h := r_hdr r in
    ("R:" +++ join ","%string [show_bytes (h_name h); dec (h_type h); dec (h_class h); dec (h_ttl h);
                               show_rd (r_rd r); dec (r_rdlen r)])%string
  | EOpen f p ok _ => ("O:" +++ join ","%string [(if f then "1" else "0")%string; hex p; (if ok then "1" else "0")%string])%string
  | EErr e =>
    let t := e_tok e in
    ("X:" +++ join ","%string [hex (e_file e); slug (e_msg e); dec (t_line t); dec (t_col t);
                               show_bytes (t_text t)])%string
  | EUnmodelled => "U"%string
  | EFuel => "F"%string
  end.
(* failed opens through os.Open are not observable by the harness (inotify
   reports successful opens only); the error event that follows them is *)
Definition ev_visible (e : ev) : bool :=
  match e with EOpen false _ false _ => false | _ => true end.
(* inotify merges identical successive events, so adjacent identical os.Open
   events are shown once *)
Fixpoint merge_opens (l : list string) : list string :=
  match l with
  | a :: r =>
    match r with
    | b :: _ => if String.eqb a b && String.prefix "O:0," a then merge_opens r else a :: merge_opens r
    | [] => [a]
    end
  | [] => []
  end.
Definition show_evs (l : list ev) : string :=
  join "|"%string (merge_opens (map show_ev (filter ev_visible l))).

Definition show_optn (o : option N) : string :=
  match o with Some n => ("ok:" +++ dec n)%string | None => "err"%string end.
Definition show_optb (o : option bytes) : string :=
  match o with Some n => ("ok:" +++ hex n)%string | None => "err"%string end.
Definition show_ip (o : option (list N)) : string :=
  match o with Some a => hex a | None => "-"%string end.

Definition show_tab (t : list (string * N)) : string :=
  join ","%string (map (fun p => (hex (B (fst p)) +++ "=" +++ dec (snd p))%string) t).
Definition tables : string :=
  (show_tab type_table_s +++ ";" +++ show_tab class_table_s +++ ";" +++
   join ","%string (map dec (filter known_type (map snd type_table_s))))%string.

Definition b01 (s : string) : bool := String.eqb s "1"%string.

Definition run0 (fn : string) (args : list string) : string :=
  if String.eqb fn "lex" then show_toks (lex_full (expand (arg args 0)) false)
  else if String.eqb fn "parse" then
    let files := parse_files (arg args 6) in
    let dt := if String.eqb (arg args 2) "-" then None else Some (undec (arg args 2)) in
    let hasfs := b01 (arg args 4) in
    show_evs (parse_zone (fun p => if hasfs then assoc files p else None)
                         (fun p => if hasfs then None else assoc files p) (unhex (arg args 0)) (unhex (arg args 1)) dt
                         (b01 (arg args 3)) (b01 (arg args 4)) (expand (arg args 5)))
  else if String.eqb fn "ttl" then show_optn (string_to_ttl (unhex (arg args 0)))
  else if String.eqb fn "abs" then show_optb (to_absolute_name (unhex (arg args 0)) (unhex (arg args 1)))
  else if String.eqb fn "idn" then showb (is_domain_name (unhex (arg args 0)))
  else if String.eqb fn "ip" then
    ("a=" +++ show_ip (parse_a (unhex (arg args 0))) +++ ",aaaa=" +++ show_ip (parse_aaaa (unhex (arg args 0))))%string
  else if String.eqb fn "path" then hex (include_path (b01 (arg args 0)) (unhex (arg args 1)) (unhex (arg args 2)))
  else if String.eqb fn "range" then
    match parse_range (unhex (arg args 0)) with
    | inl m => ("err:" +++ slug (B m))%string
    | inr (a, b, c) => ("ok:" +++ decZ a +++ "," +++ decZ b +++ "," +++ decZ c)%string
    end
  else if String.eqb fn "mod" then
    match mod_to_printf (unhex (arg args 0)) with
    | inl m => ("err:" +++ slug (B m))%string
    | inr (w, b, off) => ("ok:" +++ dec w +++ "," +++ dec b +++ "," +++ decZ off)%string
    end
  else if String.eqb fn "gen" then
    let '(o, e) := gen_bytes (unhex (arg args 0)) (undecZ (arg args 1)) (undecZ (arg args 2)) (undecZ (arg args 3)) in
    (show_bytes o +++ match e with
                      | None => ";ok"
                      | Some g => ";err:" +++ slug (B (ge_msg g)) +++ "," +++ show_bytes (ge_text g) +++ "," +++ dec (ge_col g)
                      end)%string
  else if String.eqb fn "tables" then tables
  else "unknown-fn"%string.

(* long outputs are compared by length and checksum (a long literal in the
   cases file overflows Coq's parser stack) *)
Definition digest (s : string) : string :=
  let b := bytes_of_string s in
  if 4000 <? lenN b then ("D" +++ dec (lenN b) +++ "c" +++ dec (cksum_go b 0 0))%string else s.
Definition run (fn : string) (args : list string) : string := digest (run0 fn args).
