(* Proofs/MuxLabelProofs.v — the string-level notion of label boundary used in
   the routing theorems of property C14 (Model/Mux.v label_start) coincides
   with the wire-level one: for a name printed from its wire labels
   (Model/Name.v show_name, the presentation UnpackDomainName produces) the
   label starts are exactly the offsets at which the labels begin. *)
From Dns Require Import Base.ListX Model.Labels Model.Mux Proofs.MuxProofs.
From Coq Require Import Lia ZifyN ZifyNat ZifyBool.
Ltac Zify.zify_post_hook ::= Z.div_mod_to_equations.
Open Scope N_scope.

(* a left-to-right scan for separating dots: [e] = the run of backslashes just
   before the current position has even length *)
Fixpoint seps_go (s : bytes) (i : nat) (e : bool) : list nat :=
  match s with
  | [] => []
  | c :: r =>
    if c =? 92 then seps_go r (S i) (negb e)
    else (if (c =? 46) && e then [i] else []) ++ seps_go r (S i) true
  end.
Fixpoint par (s : bytes) (e : bool) : bool :=
  match s with
  | [] => e
  | c :: r => par r (if c =? 92 then negb e else true)
  end.

Lemma seps_go_app a b i e :
  seps_go (a ++ b) i e = seps_go a i e ++ seps_go b (i + length a) (par a e).
Proof.
  revert i e. induction a as [|c a IH]; intros i e; cbn [app seps_go par length].
  - rewrite Nat.add_0_r. reflexivity.
  - destruct (c =? 92).
    + rewrite IH. replace (S i + length a)%nat with (i + S (length a))%nat by lia. reflexivity.
    + rewrite IH, <- app_assoc. replace (S i + length a)%nat with (i + S (length a))%nat by lia. reflexivity.
Qed.

Lemma par_app a b e : par (a ++ b) e = par b (par a e).
Proof. revert e. induction a as [|c a IH]; intro e; [reflexivity|]. cbn. apply IH. Qed.

Lemma even_succ_negb n : Nat.even (S n) = negb (Nat.even n).
Proof. rewrite Nat.even_succ, <- Nat.negb_even. reflexivity. Qed.

Lemma bs_run_snoc (pre : bytes) c :
  Nat.even (bs_run (rev (pre ++ [c]))) =
  if c =? 92 then negb (Nat.even (bs_run (rev pre))) else true.
Proof.
  rewrite rev_app_distr. cbn [rev app bs_run].
  destruct (c =? 92); [apply even_succ_negb|reflexivity].
Qed.

Lemma sep_at_here' (pre : bytes) c r :
  sep_at (pre ++ c :: r) (length pre) <-> (c = 46 /\ Nat.even (bs_run (rev pre)) = true).
Proof.
  pose proof (sep_at_here (rev pre) c r) as H. rewrite rev_involutive, rev_length in H. exact H.
Qed.

(* the scan finds exactly the separating dots *)
Lemma seps_go_spec : forall (s pre : bytes) (j : nat),
  In j (seps_go s (length pre) (Nat.even (bs_run (rev pre)))) <->
  (length pre <= j < length pre + length s)%nat /\ sep_at (pre ++ s) j.
Proof.
  induction s as [|c r IH]; intros pre j.
  - cbn. split; [intros []|]. intros [H _]. lia.
  - cbn [seps_go].
    assert (Hpre : pre ++ c :: r = (pre ++ [c]) ++ r) by (rewrite <- app_assoc; reflexivity).
    assert (Hl : length (pre ++ [c]) = S (length pre)) by (rewrite app_length; cbn; lia).
    specialize (IH (pre ++ [c]) j). rewrite Hl, bs_run_snoc, <- Hpre in IH.
    pose proof (sep_at_here' pre c r) as Hhere.
    destruct (N.eqb_spec c 92) as [Hc|Hc].
    + rewrite IH. cbn [length]. split.
      * intros [Hr Hs]. split; [lia|exact Hs].
      * intros [Hr Hs]. split; [|exact Hs].
        destruct (Nat.eq_dec j (length pre)) as [->|Hne]; [|lia].
        apply Hhere in Hs. destruct Hs as [Hs _]. subst c. discriminate.
    + rewrite in_app_iff, IH. cbn [length]. split.
      * intros [Hin|[Hr Hs]].
        { destruct ((c =? 46) && Nat.even (bs_run (rev pre))) eqn:E; [|destruct Hin].
          destruct Hin as [<-|[]]. apply andb_true_iff in E. destruct E as [E1 E2].
          apply N.eqb_eq in E1. split; [lia|]. apply Hhere. auto. }
        { split; [lia|exact Hs]. }
      * intros [Hr Hs].
        destruct (Nat.eq_dec j (length pre)) as [->|Hne].
        { left. apply Hhere in Hs. destruct Hs as [-> He]. rewrite He. left. reflexivity. }
        { right. split; [lia|exact Hs]. }
Qed.

Lemma seps_go_spec0 (s : bytes) (j : nat) :
  In j (seps_go s 0 true) <-> (j < length s)%nat /\ sep_at s j.
Proof.
  pose proof (seps_go_spec s [] j) as H. cbn in H. rewrite H. split; intros [H1 H2]; split; auto; lia.
Qed.

(* ---- the presentation of one octet contains no separating dot and leaves
        the backslash parity even ---- *)
Lemma special_cases b :
  label_special b = false -> b <> 46 /\ b <> 92.
Proof.
  unfold label_special. intro H.
  repeat (apply orb_false_iff in H; destruct H as [H ?]).
  split; apply N.eqb_neq; assumption.
Qed.

Lemma show_octet_scan b i :
  b < 256 -> seps_go (show_octet b) i true = [] /\ par (show_octet b) true = true.
Proof.
  intro Hb. unfold show_octet.
  destruct (label_special b) eqn:Es.
  - cbn. destruct (b =? 92); [split; reflexivity|].
    rewrite andb_false_r. split; reflexivity.
  - destruct ((b <? 32) || (126 <? b)).
    + unfold ddd. cbn [seps_go par]. change (92 =? 92) with true. cbn [negb].
      assert (H1 : (48 + b / 100 =? 92) = false) by (apply N.eqb_neq; lia).
      assert (H2 : (48 + (b / 10) mod 10 =? 92) = false) by (apply N.eqb_neq; lia).
      assert (H3 : (48 + b mod 10 =? 92) = false) by (apply N.eqb_neq; lia).
      assert (H2' : (48 + (b / 10) mod 10 =? 46) = false) by (apply N.eqb_neq; lia).
      assert (H3' : (48 + b mod 10 =? 46) = false) by (apply N.eqb_neq; lia).
      rewrite H1, H2, H3, H2', H3', andb_false_r. split; reflexivity.
    + destruct (special_cases b Es) as [H46 H92].
      apply N.eqb_neq in H46. apply N.eqb_neq in H92.
      cbn. rewrite H92, H46. split; reflexivity.
Qed.

Lemma show_label_scan l i :
  wfb l -> seps_go (show_label l) i true = [] /\ par (show_label l) true = true.
Proof.
  unfold show_label. revert i. induction l as [|b l IH]; intros i Hw; [split; reflexivity|].
  inversion Hw as [|? ? Hb Hw']; subst. cbn [flat_map].
  destruct (show_octet_scan b i Hb) as [Hs Hp].
  destruct (IH (i + length (show_octet b))%nat Hw') as [Hs' Hp'].
  rewrite seps_go_app, par_app, Hs, Hp, Hs', Hp'. split; reflexivity.
Qed.

(* positions of the dots that end the labels, the first label starting at off *)
Fixpoint dots (ls : list label) (off : nat) : list nat :=
  match ls with
  | [] => []
  | l :: r => (off + length (show_label l))%nat :: dots r (off + length (show_label l) + 1)
  end.

Lemma show_labels_scan ls off :
  Forall wfb ls ->
  seps_go (show_labels ls) off true = dots ls off /\ par (show_labels ls) true = true.
Proof.
  unfold show_labels. revert off. induction ls as [|l ls IH]; intros off Hw; [split; reflexivity|].
  inversion Hw as [|? ? Hl Hw']; subst. cbn [flat_map dots].
  destruct (show_label_scan l off Hl) as [Hs Hp].
  destruct (IH (off + length (show_label l) + 1)%nat Hw') as [Hs' Hp'].
  rewrite !seps_go_app, !par_app, Hs, Hp. cbn [app seps_go par length].
  change (46 =? 92) with false. change (46 =? 46) with true. cbn [andb app].
  rewrite app_length. cbn [length].
  replace (off + (length (show_label l) + 1))%nat with (off + length (show_label l) + 1)%nat by lia.
  replace (S (off + length (show_label l)))%nat with (off + length (show_label l) + 1)%nat by lia.
  rewrite Hs', Hp'. split; reflexivity.
Qed.

Lemma show_labels_cons l ls : show_labels (l :: ls) = show_label l ++ [46] ++ show_labels ls.
Proof. unfold show_labels. cbn [flat_map]. rewrite <- app_assoc. reflexivity. Qed.

Lemma show_labels_cons_len l ls :
  length (show_labels (l :: ls)) = (length (show_label l) + 1 + length (show_labels ls))%nat.
Proof. rewrite show_labels_cons, !app_length. cbn [length]. lia. Qed.

Lemma show_labels_nil_len : length (show_labels []) = O.
Proof. reflexivity. Qed.

Lemma show_labels_snoc_len ls k :
  (k < length ls)%nat ->
  length (show_labels (firstn (S k) ls)) =
  (length (show_labels (firstn k ls)) + length (show_label (nth k ls [])) + 1)%nat.
Proof.
  revert k. induction ls as [|l ls IH]; intros k Hk; [cbn in Hk; lia|].
  destruct k as [|k].
  - change (firstn 1 (l :: ls)) with [l]. change (firstn 0 (l :: ls)) with (@nil label).
    change (nth 0 (l :: ls) []) with l.
    rewrite show_labels_cons_len, show_labels_nil_len. lia.
  - cbn [length] in Hk. specialize (IH k ltac:(lia)).
    change (firstn (S (S k)) (l :: ls)) with (l :: firstn (S k) ls).
    change (firstn (S k) (l :: ls)) with (l :: firstn k ls).
    change (nth (S k) (l :: ls) []) with (nth k ls []).
    rewrite !show_labels_cons_len. lia.
Qed.

Lemma firstn_S_cons {A} k (l : A) ls : firstn (S k) (l :: ls) = l :: firstn k ls.
Proof. reflexivity. Qed.

Lemma dots_spec ls off i :
  In i (dots ls off) <->
  exists k, (k < length ls)%nat /\
            (S i = off + length (show_labels (firstn (S k) ls)))%nat.
Proof.
  revert off. induction ls as [|l ls IH]; intro off.
  - cbn. split; [intros []|intros [k [Hk _]]; lia].
  - cbn [dots In]. rewrite IH. split.
    + intros [<-|[k [Hk He]]].
      * exists O. split; [cbn [length]; lia|].
        rewrite firstn_S_cons, show_labels_cons_len. cbn [firstn]. rewrite show_labels_nil_len. lia.
      * exists (S k). split; [cbn [length]; lia|].
        rewrite firstn_S_cons, show_labels_cons_len. lia.
    + intros [[|k] [Hk He]].
      * left. rewrite firstn_S_cons, show_labels_cons_len in He. cbn [firstn] in He.
        rewrite show_labels_nil_len in He. lia.
      * right. exists k. split; [cbn [length] in Hk; lia|].
        rewrite firstn_S_cons, show_labels_cons_len in He. lia.
Qed.

Lemma show_labels_firstn_len_lt ls k :
  (k < length ls)%nat -> (length (show_labels (firstn k ls)) < length (show_labels ls))%nat.
Proof.
  revert k. induction ls as [|l ls IH]; intros k Hk; [cbn in Hk; lia|].
  destruct k as [|k].
  - cbn [firstn]. rewrite show_labels_cons_len, show_labels_nil_len. lia.
  - rewrite firstn_S_cons, !show_labels_cons_len.
    cbn [length] in Hk. specialize (IH k ltac:(lia)). lia.
Qed.

Lemma show_labels_firstn_mono ls k :
  (S k < length ls)%nat ->
  (length (show_labels (firstn (S k) ls)) < length (show_labels ls))%nat.
Proof. intro H. apply show_labels_firstn_len_lt. exact H. Qed.

(* For a name printed from its wire labels, the label starts are exactly the
   offsets at which the labels begin. *)
Lemma label_start_wire (ls : list label) (p : nat) :
  ls <> [] -> Forall wfb ls ->
  (label_start (show_name ls) p <->
   exists k, (k < length ls)%nat /\ p = length (show_labels (firstn k ls))).
Proof.
  intros Hne Hw. destruct ls as [|l0 ls0]; [congruence|]. set (ls := l0 :: ls0) in *.
  change (show_name ls) with (show_labels ls).
  destruct (show_labels_scan ls 0 Hw) as [Hscan _].
  unfold label_start. split.
  - intros [->|[i [-> [Hsep Hlt]]]].
    + exists O. split; [cbn; lia|reflexivity].
    + assert (Hin : In i (dots ls 0)).
      { rewrite <- Hscan. apply seps_go_spec0. split; [lia|exact Hsep]. }
      apply dots_spec in Hin. destruct Hin as [k [Hk He]]. cbn [Nat.add] in He.
      exists (S k). split; [|exact He].
      destruct (Nat.lt_ge_cases (S k) (length ls)) as [H|H]; [exact H|].
      exfalso. assert (Hk' : S k = length ls) by lia.
      rewrite Hk', firstn_all in He. lia.
  - intros [[|k] [Hk ->]].
    + left. reflexivity.
    + right. exists (length (show_labels (firstn (S k) ls)) - 1)%nat.
      pose proof (show_labels_snoc_len ls k ltac:(lia)) as Hlen.
      assert (Hin : In (length (show_labels (firstn (S k) ls)) - 1)%nat (dots ls 0)).
      { apply dots_spec. exists k. split; [lia|]. cbn [Nat.add]. lia. }
      rewrite <- Hscan in Hin. apply seps_go_spec0 in Hin. destruct Hin as [_ Hsep].
      split; [lia|]. split; [exact Hsep|].
      replace (S (length (show_labels (firstn (S k) ls)) - 1))%nat
        with (length (show_labels (firstn (S k) ls))) by lia.
      apply show_labels_firstn_len_lt. exact Hk.
Qed.

(* labels [a.b] (one label containing a dot) and [c]: the name is a\.b.c. and
   its labels start at 0 and 5 only *)
Example ex_label_start_wire :
  label_start (show_name [[97; 46; 98]; [99]]) 5 /\ ~ label_start (show_name [[97; 46; 98]; [99]]) 3.
Proof.
  split.
  - apply (label_start_wire [[97; 46; 98]; [99]] 5); [discriminate| |exists 1%nat; split; [cbn; lia|reflexivity]].
    repeat constructor; cbn; lia.
  - intro H. apply (label_start_wire [[97; 46; 98]; [99]] 3) in H; [|discriminate|repeat constructor; cbn; lia].
    destruct H as [[|[|k]] [Hk He]]; cbn in *; try discriminate; lia.
Qed.

(* ---- the same after CanonicalName (which is what match walks over) ---- *)

Lemma sep_at_lower s i : sep_at (lower_bytes s) i <-> sep_at s i.
Proof.
  unfold sep_at, lower_bytes.
  rewrite nth_error_map, firstn_map, <- map_rev.
  change (map lower (rev (firstn i s))) with (lower_bytes (rev (firstn i s))).
  rewrite bs_run_lower.
  destruct (nth_error s i) as [b|]; cbn; [|split; intros [H _]; discriminate].
  split; intros [Hb He]; split; try exact He.
  - injection Hb as Hb. apply (proj1 (lower_46 b)) in Hb. subst b. reflexivity.
  - injection Hb as ->. reflexivity.
Qed.

Lemma label_start_lower s p : label_start (lower_bytes s) p <-> label_start s p.
Proof.
  unfold label_start. assert (Hl : length (lower_bytes s) = length s) by apply map_length.
  split; (intros [->|[i [-> [Hs Hlt]]]]; [left; reflexivity|right; exists i]).
  - rewrite Hl in Hlt. apply (proj1 (sep_at_lower s i)) in Hs. auto.
  - rewrite Hl. split; [reflexivity|]. split; [apply (proj2 (sep_at_lower s i)); exact Hs|exact Hlt].
Qed.

Lemma par_spec : forall (s pre : bytes),
  par s (Nat.even (bs_run (rev pre))) = Nat.even (bs_run (rev (pre ++ s))).
Proof.
  induction s as [|c r IH]; intro pre; [rewrite app_nil_r; reflexivity|].
  cbn [par]. rewrite <- bs_run_snoc, IH, <- app_assoc. reflexivity.
Qed.

Lemma show_labels_app a b : show_labels (a ++ b) = show_labels a ++ show_labels b.
Proof. unfold show_labels. apply flat_map_app. Qed.

Lemma is_fqdn_show_name ls : ls <> [] -> Forall wfb ls -> is_fqdn (show_name ls) = true.
Proof.
  intros Hne Hw. destruct ls as [|l0 ls0]; [congruence|]. set (ls := l0 :: ls0) in *.
  change (show_name ls) with (show_labels ls).
  destruct (exists_last Hne) as [init [lst Hsplit]]. fold ls in Hsplit. rewrite Hsplit in *.
  apply Forall_app in Hw. destruct Hw as [Hwi Hwl]. inversion Hwl as [|? ? Hwlst _]; subst.
  rewrite show_labels_app. unfold show_labels at 2. cbn [flat_map]. rewrite app_nil_r, app_assoc.
  unfold is_fqdn. rewrite rev_app_distr. cbn [rev app].
  pose proof (par_spec (show_labels init ++ show_label lst) []) as Hp. cbn [rev bs_run app] in Hp.
  rewrite <- Hp. change (Nat.even 0) with true. rewrite par_app.
  destruct (show_labels_scan init 0 Hwi) as [_ ->].
  destruct (show_label_scan lst 0 Hwlst) as [_ ->]. reflexivity.
Qed.

(* The offsets ServeMux.match visits (the label starts of the canonical name)
   are exactly the offsets at which the wire labels of the question name begin. *)
Lemma label_start_canonical_wire (ls : list label) (p : nat) :
  ls <> [] -> Forall wfb ls ->
  (label_start (canonical_name (show_name ls)) p <->
   exists k, (k < length ls)%nat /\ p = length (show_labels (firstn k ls))).
Proof.
  intros Hne Hw. unfold canonical_name, fqdn. rewrite (is_fqdn_show_name ls Hne Hw).
  rewrite label_start_lower. apply label_start_wire; assumption.
Qed.
