package main

import (
	"bytes"
	"crypto/hmac"
	"crypto/sha1"
	"crypto/sha256"
	"crypto/sha512"
	"encoding/base64"
	"encoding/binary"
	"encoding/hex"
	"errors"
	"hash"
	"strconv"
	"strings"

	"github.com/miekg/dns"
	. "verif/harness/common"
)

// C11: TSIG. Generated MACs verify; only RFC 8945-valid, timely MACs are accepted.

func main() { Main(runC11) }

// ---------------------------------------------------------------------------
// independent pieces: HMAC through crypto/hmac, an RFC 1035 framing walker and
// the RFC 8945 4.3 digest input, none of which call into tsig.go.
// ---------------------------------------------------------------------------

type algInfo struct {
	name string
	id   int
	h    func() hash.Hash
}

var algs = []algInfo{
	{dns.HmacSHA1, 1, sha1.New},
	{dns.HmacSHA224, 224, sha256.New224},
	{dns.HmacSHA256, 256, sha256.New},
	{dns.HmacSHA384, 384, sha512.New384},
	{dns.HmacSHA512, 512, sha512.New},
}

func algByLabels(ls [][]byte) *algInfo {
	if len(ls) != 1 {
		return nil
	}
	n := strings.ToLower(string(ls[0])) + "."
	for i := range algs {
		if algs[i].name == n {
			return &algs[i]
		}
	}
	return nil
}

func macOf(a *algInfo, secret, data []byte) []byte {
	h := hmac.New(a.h, secret)
	h.Write(data)
	return h.Sum(nil)
}

func wireOf(ls [][]byte) []byte {
	var w []byte
	for _, l := range ls {
		w = append(w, byte(len(l)))
		w = append(w, l...)
	}
	return append(w, 0)
}

func lowerLabels(ls [][]byte) [][]byte {
	o := make([][]byte, len(ls))
	for i, l := range ls {
		o[i] = make([]byte, len(l))
		for j, c := range l {
			if c >= 'A' && c <= 'Z' {
				o[i][j] = c + 32
			} else {
				o[i][j] = c
			}
		}
	}
	return o
}

func present(ls [][]byte) string {
	s, _, _ := dns.UnpackDomainName(wireOf(ls), 0)
	return s
}

// nameWire: presentation form to uncompressed wire form (through the library's
// name packer; only used to render Go struct fields for the model comparison).
func nameWire(s string) []byte {
	if s == "" {
		return []byte{0}
	}
	buf := make([]byte, 600)
	off, err := dns.PackDomainName(s, buf, 0, nil, false)
	if err != nil {
		return nil
	}
	return buf[:off]
}

// refName decodes the name at off (following pointers, at most 127 hops) and
// returns its labels and the offset after it.
func refName(b []byte, off int) ([][]byte, int, bool) {
	var ls [][]byte
	end := -1
	total := 1
	for hops := 0; ; {
		if off >= len(b) {
			return nil, 0, false
		}
		c := int(b[off])
		switch c & 0xC0 {
		case 0:
			if c == 0 {
				if end < 0 {
					end = off + 1
				}
				return ls, end, true
			}
			if off+1+c > len(b) {
				return nil, 0, false
			}
			total += c + 1
			if total > 255 {
				return nil, 0, false
			}
			ls = append(ls, b[off+1:off+1+c])
			off += 1 + c
		case 0xC0:
			if off+1 >= len(b) {
				return nil, 0, false
			}
			if end < 0 {
				end = off + 2
			}
			hops++
			if hops > 127 {
				return nil, 0, false
			}
			off = (c&0x3F)<<8 | int(b[off+1])
		default:
			return nil, 0, false
		}
	}
}

type refRR struct {
	start, rdStart, end int
	name                [][]byte
	typ, class          uint16
	ttl                 uint32
}

// refParse frames a message strictly: all counted questions and records must
// be present; returns the records and the offset after the last one.
func refParse(b []byte) (counts [4]int, rrs []refRR, end int, ok bool) {
	if len(b) < 12 {
		return
	}
	for i := 0; i < 4; i++ {
		counts[i] = int(binary.BigEndian.Uint16(b[4+2*i:]))
	}
	off := 12
	for i := 0; i < counts[0]; i++ {
		_, o, k := refName(b, off)
		if !k || o+4 > len(b) {
			return
		}
		off = o + 4
	}
	for i := 0; i < counts[1]+counts[2]+counts[3]; i++ {
		n, o, k := refName(b, off)
		if !k || o+10 > len(b) {
			return
		}
		rdlen := int(binary.BigEndian.Uint16(b[o+8:]))
		if o+10+rdlen > len(b) {
			return
		}
		rrs = append(rrs, refRR{start: off, rdStart: o + 10, end: o + 10 + rdlen, name: n,
			typ: binary.BigEndian.Uint16(b[o:]), class: binary.BigEndian.Uint16(b[o+2:]), ttl: binary.BigEndian.Uint32(b[o+4:])})
		off = o + 10 + rdlen
	}
	return counts, rrs, off, true
}

type refTsig struct {
	rr                         refRR
	alg                        [][]byte
	algEnd                     int
	time                       uint64
	fudge, origid, errc, olen  uint16
	mac, other                 []byte
	macsize                    uint16
	stripped                   []byte // message before the TSIG, original ID, ARCOUNT-1
	nameStart, classOff, rdOff int
}

// refFindTsig: the TSIG must be the last record of the additional section and
// nothing may follow it (RFC 8945 5.2); RDATA must be complete.
func refFindTsig(b []byte) (*refTsig, bool) {
	counts, rrs, end, ok := refParse(b)
	if !ok || counts[3] == 0 || len(rrs) == 0 || end != len(b) {
		return nil, false
	}
	rr := rrs[len(rrs)-1]
	if rr.typ != dns.TypeTSIG {
		return nil, false
	}
	t := &refTsig{rr: rr}
	rd := b[:rr.end]
	alg, o, k := refName(rd, rr.rdStart)
	if !k || o+10 > rr.end {
		return nil, false
	}
	t.alg, t.algEnd = alg, o
	t.time = uint64(binary.BigEndian.Uint16(rd[o:]))<<32 | uint64(binary.BigEndian.Uint32(rd[o+2:]))
	t.fudge = binary.BigEndian.Uint16(rd[o+6:])
	t.macsize = binary.BigEndian.Uint16(rd[o+8:])
	o += 10
	if o+int(t.macsize)+6 > rr.end {
		return nil, false
	}
	t.mac = rd[o : o+int(t.macsize)]
	o += int(t.macsize)
	t.origid = binary.BigEndian.Uint16(rd[o:])
	t.errc = binary.BigEndian.Uint16(rd[o+2:])
	t.olen = binary.BigEndian.Uint16(rd[o+4:])
	o += 6
	if o+int(t.olen) != rr.end {
		return nil, false
	}
	t.other = rd[o:rr.end]
	t.stripped = append([]byte(nil), b[:rr.start]...)
	binary.BigEndian.PutUint16(t.stripped[0:], t.origid)
	binary.BigEndian.PutUint16(t.stripped[10:], uint16(counts[3]-1))
	t.nameStart = rr.start
	t.classOff = rr.rdStart - 8
	t.rdOff = rr.rdStart
	return t, true
}

// refDigest is RFC 8945 section 4.3: request MAC (with length), the message
// without TSIG and with the original ID, then the TSIG variables (4.3.3) or,
// for subsequent envelopes, only the timers (5.3.1).
func refDigest(t *refTsig, rm []byte, timers bool) []byte {
	var d []byte
	if len(rm) > 0 {
		d = binary.BigEndian.AppendUint16(d, uint16(len(rm)))
		d = append(d, rm...)
	}
	d = append(d, t.stripped...)
	tm := []byte{byte(t.time >> 40), byte(t.time >> 32), byte(t.time >> 24), byte(t.time >> 16), byte(t.time >> 8), byte(t.time)}
	if timers {
		d = append(d, tm...)
		return binary.BigEndian.AppendUint16(d, t.fudge)
	}
	d = append(d, wireOf(lowerLabels(t.rr.name))...)
	d = binary.BigEndian.AppendUint16(d, t.rr.class)
	d = binary.BigEndian.AppendUint32(d, t.rr.ttl)
	d = append(d, wireOf(lowerLabels(t.alg))...)
	d = append(d, tm...)
	d = binary.BigEndian.AppendUint16(d, t.fudge)
	d = binary.BigEndian.AppendUint16(d, t.errc)
	d = binary.BigEndian.AppendUint16(d, t.olen)
	return append(d, t.other...)
}

// ---------------------------------------------------------------------------
// rendering for the model comparison
// ---------------------------------------------------------------------------

func errClass(err error) string {
	switch {
	case err == nil:
		return "ok:"
	case errors.Is(err, dns.ErrSig):
		return "err:sig"
	case errors.Is(err, dns.ErrTime):
		return "err:time"
	case errors.Is(err, dns.ErrNoSig):
		return "err:nosig"
	case errors.Is(err, dns.ErrAuth):
		return "err:auth"
	case errors.Is(err, dns.ErrSecret):
		return "err:secret"
	case errors.Is(err, dns.ErrKeyAlg):
		return "err:keyalg"
	case errors.Is(err, dns.ErrBuf):
		return "err:buf"
	case errors.Is(err, dns.ErrRdata):
		return "err:rdata"
	case errors.Is(err, dns.ErrLongDomain):
		return "err:longname"
	}
	var ce base64.CorruptInputError
	if errors.As(err, &ce) {
		return "err:b64"
	}
	s := err.Error()
	switch {
	case strings.Contains(s, "too many compression pointers"):
		return "err:ptr"
	case strings.Contains(s, "overflow"):
		return "err:overflow"
	case strings.Contains(s, "bad rdlength"):
		return "err:badrdlength"
	}
	return "err:other"
}

func u(n uint64) string { return strconv.FormatUint(n, 10) }

func tsigFields(t *dns.TSIG) []string {
	return []string{Hx(nameWire(t.Hdr.Name)), u(uint64(t.Hdr.Class)), u(uint64(t.Hdr.Ttl)), Hx(nameWire(t.Algorithm)),
		u(t.TimeSigned), u(uint64(t.Fudge)), u(uint64(t.MACSize)), strings.ToLower(t.MAC), u(uint64(t.OrigId)),
		u(uint64(t.Error)), u(uint64(t.OtherLen)), strings.ToLower(t.OtherData)}
}

func showTsig(t *dns.TSIG) string { return strings.Join(tsigFields(t), "|") }

// key store description shared with Corr/C11.v key_inst
type keyStore struct {
	single  bool
	secret  string            // base64, single-secret provider
	secrets map[string]string // presentation name -> base64
}

func rawSecret(b64 string) ([]byte, bool) {
	b, err := base64.StdEncoding.DecodeString(b64)
	return b, err == nil
}

func (k keyStore) desc() string {
	enc := func(s string) string {
		if b, ok := rawSecret(s); ok {
			return Hx(b)
		}
		return "bad"
	}
	if k.single {
		return "star:" + enc(k.secret)
	}
	var names []string
	for n := range k.secrets {
		names = append(names, n)
	}
	// deterministic order
	for i := range names {
		for j := i + 1; j < len(names); j++ {
			if names[j] < names[i] {
				names[i], names[j] = names[j], names[i]
			}
		}
	}
	var es []string
	for _, n := range names {
		es = append(es, Hx(nameWire(n))+":"+enc(k.secrets[n]))
	}
	return strings.Join(es, ",")
}

func (k keyStore) lookup(name string) ([]byte, bool) {
	s := k.secret
	if !k.single {
		var ok bool
		if s, ok = k.secrets[name]; !ok {
			return nil, false
		}
	}
	return rawSecret(s)
}

func (k keyStore) verify(msg []byte, rm string, timers bool, now uint64) error {
	if k.single {
		return dns.VerifTsigVerify(msg, k.secret, rm, timers, now)
	}
	return dns.VerifTsigVerifySecrets(msg, k.secrets, rm, timers, now)
}

func (k keyStore) generate(m *dns.Msg, rm string, timers bool) ([]byte, string, error) {
	if k.single {
		return dns.TsigGenerate(m, k.secret, rm, timers)
	}
	return dns.VerifTsigGenerateSecrets(m, k.secrets, rm, timers)
}

// hmacTable builds the algid:secret:data:mac entry the model's HMAC oracle uses,
// from the digest input the real code produced for t.
func hmacEntry(k keyStore, t *dns.TSIG, digest []byte) string {
	ls, _, ok := refName(nameWire(t.Algorithm), 0)
	if !ok {
		return ""
	}
	a := algByLabels(ls)
	sec, ok := k.lookup(t.Hdr.Name)
	if a == nil || !ok {
		return ""
	}
	return Itoa(a.id) + ":" + Hx(sec) + ":" + Hx(digest) + ":" + Hx(macOf(a, sec, digest))
}

// modelled reports whether every record type a framing walk of b meets is one
// the Coq RDATA instance covers (A NS CNAME SOA PTR MX TXT TSIG private-use).
func modelled(b []byte) bool {
	if len(b) < 12 {
		return true
	}
	off := 12
	qd := int(binary.BigEndian.Uint16(b[4:]))
	for i := 0; i < qd; i++ {
		_, o, err := dns.UnpackDomainName(b, off)
		if err != nil {
			return true
		}
		off = o + 4
		if off > len(b) {
			return true
		}
	}
	n := int(binary.BigEndian.Uint16(b[6:])) + int(binary.BigEndian.Uint16(b[8:])) + int(binary.BigEndian.Uint16(b[10:]))
	for i := 0; i < n && off < len(b); i++ {
		_, o, err := dns.UnpackDomainName(b, off)
		if err != nil || o+10 > len(b) {
			return true
		}
		ty := binary.BigEndian.Uint16(b[o:])
		rdlen := int(binary.BigEndian.Uint16(b[o+8:]))
		switch {
		case ty == 1 || ty == 2 || ty == 5 || ty == 6 || ty == 12 || ty == 15 || ty == 16 || ty == 250:
		case ty >= 65280 && ty <= 65534:
		default:
			if rdlen != 0 && o+10+rdlen <= len(b) {
				return false
			}
		}
		off = o + 10 + rdlen
	}
	return true
}

// ---------------------------------------------------------------------------
// generators
// ---------------------------------------------------------------------------

var labelAlpha = []byte("abcxyzABCXYZ019-_")

func genLabels(r *Rng, maxLabels, maxLen int) [][]byte {
	n := 1 + r.Intn(maxLabels)
	var ls [][]byte
	total := 1
	for i := 0; i < n; i++ {
		l := 1 + r.Intn(maxLen)
		if total+l+1 > 255 {
			break
		}
		total += l + 1
		b := make([]byte, l)
		for j := range b {
			switch r.Intn(12) {
			case 0:
				b[j] = byte(r.Next())
			case 1:
				b[j] = ". \\\"@;()'"[r.Intn(9)]
			default:
				b[j] = labelAlpha[r.Intn(len(labelAlpha))]
			}
		}
		ls = append(ls, b)
	}
	return ls
}

var baseNames = []string{"example.org.", "www.example.org.", "Mail.Example.ORG.", "a.b.c.example.org.", "ns1.example.net.", "."}

func genOwner(r *Rng) string {
	if r.Intn(4) == 0 {
		return present(genLabels(r, 4, 10))
	}
	return baseNames[r.Intn(len(baseNames))]
}

// genRR: model==true restricts to the record types the Coq RDATA instance covers.
func genRR(r *Rng, model bool) dns.RR {
	h := dns.RR_Header{Name: genOwner(r), Class: dns.ClassINET, Ttl: uint32(r.Intn(100000))}
	k := r.Intn(6)
	if !model {
		k = r.Intn(11)
	}
	switch k {
	case 0:
		h.Rrtype = dns.TypeA
		return &dns.A{Hdr: h, A: r.Bytes(4)}
	case 1:
		h.Rrtype = []uint16{dns.TypeNS, dns.TypeCNAME, dns.TypePTR}[r.Intn(3)]
		switch h.Rrtype {
		case dns.TypeNS:
			return &dns.NS{Hdr: h, Ns: genOwner(r)}
		case dns.TypeCNAME:
			return &dns.CNAME{Hdr: h, Target: genOwner(r)}
		}
		return &dns.PTR{Hdr: h, Ptr: genOwner(r)}
	case 2:
		h.Rrtype = dns.TypeMX
		return &dns.MX{Hdr: h, Preference: uint16(r.Next()), Mx: genOwner(r)}
	case 3:
		h.Rrtype = dns.TypeTXT
		n := 1 + r.Intn(3)
		var ss []string
		for i := 0; i < n; i++ {
			ss = append(ss, string(labelAlpha[:r.Intn(len(labelAlpha))]))
		}
		return &dns.TXT{Hdr: h, Txt: ss}
	case 4, 5:
		h.Rrtype = uint16(65280 + r.Intn(255))
		return &dns.RFC3597{Hdr: h, Rdata: Hx(r.Bytes(r.Intn(12)))}
	case 6:
		h.Rrtype = dns.TypeAAAA
		return &dns.AAAA{Hdr: h, AAAA: r.Bytes(16)}
	case 7:
		h.Rrtype = dns.TypeSOA
		return &dns.SOA{Hdr: h, Ns: genOwner(r), Mbox: genOwner(r), Serial: uint32(r.Next()), Refresh: 1, Retry: 2, Expire: 3, Minttl: 4}
	case 8:
		h.Rrtype = dns.TypeSRV
		return &dns.SRV{Hdr: h, Priority: 1, Weight: 2, Port: uint16(r.Next()), Target: genOwner(r)}
	case 9:
		o := &dns.OPT{Hdr: dns.RR_Header{Name: ".", Rrtype: dns.TypeOPT}}
		o.SetUDPSize(uint16(512 + r.Intn(4000)))
		if r.Bool() {
			o.Option = append(o.Option, &dns.EDNS0_NSID{Code: dns.EDNS0NSID, Nsid: Hx(r.Bytes(r.Intn(6)))})
		}
		return o
	default:
		h.Rrtype = dns.TypeHINFO
		return &dns.HINFO{Hdr: h, Cpu: "cpu x", Os: "os"}
	}
}

func genMsg(r *Rng, model bool) *dns.Msg {
	m := new(dns.Msg)
	m.Id = uint16(r.Next())
	m.Response = r.Bool()
	m.Opcode = []int{0, 0, 0, 4, 5}[r.Intn(5)]
	m.Authoritative, m.RecursionDesired, m.RecursionAvailable = r.Bool(), r.Bool(), r.Bool()
	m.Rcode = []int{0, 0, 0, 2, 3, 5, 8, 10}[r.Intn(8)]
	m.Compress = r.Bool()
	nq := []int{1, 1, 1, 0, 2}[r.Intn(5)]
	for i := 0; i < nq; i++ {
		m.Question = append(m.Question, dns.Question{Name: genOwner(r), Qtype: uint16(1 + r.Intn(50)), Qclass: dns.ClassINET})
	}
	for i, n := 0, r.Intn(4); i < n; i++ {
		m.Answer = append(m.Answer, genRR(r, model))
	}
	for i, n := 0, r.Intn(3); i < n; i++ {
		m.Ns = append(m.Ns, genRR(r, model))
	}
	for i, n := 0, r.Intn(3); i < n; i++ {
		m.Extra = append(m.Extra, genRR(r, model))
	}
	return m
}

func genSecret(r *Rng) string {
	return base64.StdEncoding.EncodeToString(r.Bytes(1 + r.Intn(80)))
}

type signCfg struct {
	keyName   string
	alg       string
	fudge     uint16
	time      uint64
	rm        string
	timers    bool
	origOther bool // OrigId differs from the message ID
	errc      uint16
	other     string
	class     uint16
	ttl       uint32
}

func genCfg(r *Rng) signCfg {
	c := signCfg{class: dns.ClassANY}
	c.keyName = []string{"key.example.", "Key.Example.", "k.", "tsig-key.example.org."}[r.Intn(4)]
	if r.Intn(5) == 0 {
		c.keyName = present(genLabels(r, 3, 12))
	}
	a := algs[r.Intn(len(algs))].name
	switch r.Intn(8) {
	case 0:
		a = strings.ToUpper(a)
	case 1:
		a = strings.ToUpper(a[:5]) + a[5:]
	}
	c.alg = a
	c.fudge = []uint16{300, 300, 1, 2, 0, 65535, uint16(r.Next())}[r.Intn(7)]
	c.time = []uint64{1700000000, 1, 65536, 1<<48 - 1, 1 << 32, uint64(r.Next() % (1 << 48))}[r.Intn(6)]
	if c.time == 0 {
		c.time = 1
	}
	switch r.Intn(5) {
	case 0:
		c.rm = Hx(r.Bytes(20 + r.Intn(45)))
	case 1:
		c.rm = Hx(r.Bytes(2 + r.Intn(3)))
	case 2:
		c.rm = Hx(r.Bytes(65 + r.Intn(140))) // longer than any HMAC-SHA output
	}
	c.timers = r.Intn(3) == 0
	c.origOther = r.Intn(8) == 0
	if r.Intn(6) == 0 {
		c.errc = uint16(18) // BADTIME carries other data
		c.other = Hx(r.Bytes(6))
	}
	if r.Intn(10) == 0 {
		c.ttl = uint32(r.Next())
	}
	if r.Intn(8) == 0 {
		c.class = []uint16{dns.ClassINET, 254, 0, uint16(r.Next())}[r.Intn(4)] // the digest covers whatever class the record has
	}
	return c
}

func stubOf(m *dns.Msg, c signCfg) *dns.TSIG {
	t := &dns.TSIG{Hdr: dns.RR_Header{Name: c.keyName, Rrtype: dns.TypeTSIG, Class: c.class, Ttl: c.ttl},
		Algorithm: c.alg, Fudge: c.fudge, TimeSigned: c.time, OrigId: m.Id, Error: c.errc,
		OtherLen: uint16(len(c.other) / 2), OtherData: c.other}
	if c.origOther {
		t.OrigId = m.Id ^ 0x5a5a
	}
	return t
}

// sign runs the real TsigGenerate on a copy of m with the stub appended.
func sign(m *dns.Msg, c signCfg, ks keyStore) (out []byte, mac string, stub *dns.TSIG, err error) {
	mc := m.Copy()
	stub = stubOf(m, c)
	mc.Extra = append(mc.Extra, stub)
	res := Protect(func() string {
		out, mac, err = ks.generate(mc, c.rm, c.timers)
		return ""
	})
	if res == "panic" {
		err = errors.New("panic")
	}
	return
}

// ---------------------------------------------------------------------------
// direct oracles
// ---------------------------------------------------------------------------

type c11in struct {
	Msg     string `json:"msg_hex,omitempty"`
	Signed  string `json:"signed_hex,omitempty"`
	Secret  string `json:"secret_b64,omitempty"`
	ReqMAC  string `json:"request_mac,omitempty"`
	Timers  bool   `json:"timers_only"`
	Now     uint64 `json:"now,omitempty"`
	Alg     string `json:"alg,omitempty"`
	Key     string `json:"key,omitempty"`
	Detail  string `json:"detail,omitempty"`
	BitFlip int    `json:"bit,omitempty"`
}

var st = map[string]int{}

func protectVerify(ks keyStore, msg []byte, rm string, timers bool, now uint64) string {
	return Protect(func() string { return errClass(ks.verify(msg, rm, timers, now)) })
}

// oracleSigned checks every clause on one signed message. Returns the signed octets (nil when signing failed).
func oracleSigned(r *Rng, m *dns.Msg, c signCfg, ks keyStore, allBits bool) ([]byte, string, *dns.TSIG) {
	out, mac, stub, err := sign(m, c, ks)
	in := c11in{Secret: ks.secret, ReqMAC: c.rm, Timers: c.timers, Alg: c.alg, Key: c.keyName}
	packed, perr := m.Pack()
	in.Msg = Hx(packed)
	if err != nil {
		// signing a packable message with a supported algorithm and a present key must work
		if perr == nil && len(c.rm) != 2 {
			Viol("C11/Generate/error", "TsigGenerate failed: "+err.Error(), in)
		}
		return nil, "", nil
	}
	st["signed_checked"]++
	in.Signed = Hx(out)
	// (a) layout: message (ID := OrigId, ARCOUNT+1) followed by the TSIG RR as last additional record
	t, ok := refFindTsig(out)
	if !ok {
		Viol("C11/Generate/layout", "signed octets do not end in a TSIG record that is the last additional record", in)
		return out, mac, stub
	}
	want := append([]byte(nil), packed...)
	binary.BigEndian.PutUint16(want[0:], stub.OrigId)
	binary.BigEndian.PutUint16(want[10:], binary.BigEndian.Uint16(packed[10:])+1)
	if !bytes.Equal(out[:t.rr.start], want) {
		Viol("C11/Generate/layout", "octets before the TSIG differ from Pack() with ARCOUNT+1", in)
	}
	if binary.BigEndian.Uint16(packed[10:]) != uint16(len(m.Extra)) {
		Viol("C11/Generate/arcount", "Pack() ARCOUNT is not len(Extra)", in)
	}
	if t.rr.class != c.class || t.rr.ttl != c.ttl || t.origid != stub.OrigId || t.errc != c.errc || Hx(t.other) != c.other ||
		t.time != stub.TimeSigned || t.fudge != stub.Fudge || !bytes.Equal(wireOf(t.rr.name), nameWire(c.keyName)) ||
		!bytes.Equal(wireOf(t.alg), nameWire(c.alg)) || Hx(t.mac) != mac {
		Viol("C11/Generate/layout", "TSIG record fields differ from the stub", in)
	}
	var um dns.Msg
	if e := um.Unpack(out); e != nil || um.IsTsig() == nil {
		Viol("C11/Generate/layout", "signed octets do not unpack to a message with a trailing TSIG", in)
	}
	// (b) the MAC is the RFC 8945 HMAC, computed independently
	rmb, _ := hex.DecodeString(c.rm)
	a := algByLabels(t.alg)
	sec, _ := ks.lookup(c.keyName)
	if a == nil {
		Viol("C11/Generate/alg", "signed with an algorithm outside RFC 8945's HMAC-SHA family", in)
		return out, mac, stub
	}
	if Hx(macOf(a, sec, refDigest(t, rmb, c.timers))) != mac {
		Viol("C11/Generate/mac-is-rfc-hmac", "MAC differs from HMAC over the RFC 8945 4.3 digest input", in)
	}
	// (c) verification at the fudge boundaries
	ts, f := stub.TimeSigned, uint64(stub.Fudge)
	for _, d := range []int64{-int64(f) - 1, -int64(f), -1, 0, 1, int64(f), int64(f) + 1} {
		if d < 0 && uint64(-d) > ts {
			continue
		}
		now := uint64(int64(ts) + d)
		wantOK := d >= -int64(f) && d <= int64(f)
		got := protectVerify(ks, out, c.rm, c.timers, now)
		st["verify_checked"]++
		in.Now = now
		if wantOK && got != "ok:" {
			Viol("C11/Verify/generated-rejected", "generated message rejected inside the fudge window: "+got, in)
		}
		if !wantOK && got != "err:time" {
			Viol("C11/Verify/time-window", "outside the fudge window: got "+got+" want err:time", in)
		}
	}
	in.Now = ts
	// (d) context alterations
	alt := func(key, what string, ks2 keyStore, rm string, timers bool) {
		st["verify_checked"]++
		if got := protectVerify(ks2, out, rm, timers, ts); got == "ok:" || got == "panic" {
			in2 := in
			in2.Detail = what
			Viol(key, "verification "+got+" with "+what, in2)
		}
	}
	ks2 := ks
	ks2.secret = genSecret(r)
	if !ks.single {
		ks2.secrets = map[string]string{c.keyName: ks2.secret}
	}
	alt("C11/Verify/wrong-secret", "another secret", ks2, c.rm, c.timers)
	alt("C11/Verify/timers-only-mismatch", "timersOnly toggled", ks, c.rm, !c.timers)
	if c.rm != "" {
		alt("C11/Verify/request-mac", "request MAC dropped", ks, "", c.timers)
		b := []byte(c.rm)
		fb, _ := hex.DecodeString(c.rm)
		fb[r.Intn(len(fb))] ^= 1 << r.Intn(8)
		alt("C11/Verify/request-mac", "request MAC with one bit flipped", ks, Hx(fb), c.timers)
		alt("C11/Verify/request-mac", "request MAC extended", ks, string(b)+"00", c.timers)
		if len(b) > 4 {
			alt("C11/Verify/request-mac", "request MAC shortened", ks, string(b[:len(b)-2]), c.timers)
		}
	} else {
		alt("C11/Verify/request-mac", "request MAC added", ks, Hx(r.Bytes(32)), c.timers)
	}
	if !ks.single {
		alt("C11/Verify/unknown-key", "key store without the key", keyStore{secrets: map[string]string{"other.": ks.secrets[c.keyName]}}, c.rm, c.timers)
	}
	// (e) single-bit alterations of the signed octets
	nameLetters := map[int]bool{}
	markLetters := func(from, to int) {
		for i := from; i < to && i < len(out); i++ {
			if ch := out[i]; (ch >= 'a' && ch <= 'z') || (ch >= 'A' && ch <= 'Z') {
				nameLetters[i] = true
			}
		}
	}
	markLetters(t.rdOff, t.algEnd) // algorithm name: compared in canonical (lower) case
	if ks.single {
		markLetters(t.nameStart, t.classOff-2) // key name: lower-cased in the digest, not looked up
	}
	// With timers only (RFC 8945 5.3.1) the digest holds the two timers and none of
	// the other TSIG variables: owner name, class, TTL, error and other data of
	// such an envelope are not authenticated by construction.
	errOff := t.algEnd + 10 + int(t.macsize) + 2
	timersFree := func(pos int) bool {
		return (ks.single && pos >= t.nameStart && pos < t.classOff-2) ||
			(pos >= t.classOff && pos < t.classOff+6) || pos >= errOff
	}
	nbits := len(out) * 8
	for bit := 0; bit < nbits; bit++ {
		if !allBits && bit%8 != int(r.Next()%8) && !(bit/8 >= t.rr.start) {
			continue
		}
		pos := bit / 8
		if pos < 2 {
			continue // message ID: the digest uses the original ID from the TSIG (RFC 8945 4.3.2)
		}
		if nameLetters[pos] && bit%8 == 2 { // 0x20, counting bits from the most significant
			continue
		}
		if c.timers && timersFree(pos) {
			continue
		}
		mut := append([]byte(nil), out...)
		mut[pos] ^= 0x80 >> (bit % 8)
		got := protectVerify(ks, mut, c.rm, c.timers, ts)
		st["bitflips_checked"]++
		if got == "ok:" || got == "panic" {
			in2 := in
			in2.BitFlip = bit
			if (pos == t.rdOff-2 || pos == t.rdOff-1) && got == "ok:" && (t.olen == 0 || c.timers) {
				// RDLENGTH lowered by 2 or 4: the record now ends after OrigId or Error, the
				// decoder supplies zero for the missing Error/OtherLen, and the cut-off zero
				// octets trail the message unread. Every RFC 8945 input is unchanged.
				st["lenient_rdlength_accepted"]++
			} else if pos == t.classOff || pos == t.classOff+1 {
				Viol("C11/Verify/tsig-class-not-covered", "TSIG CLASS altered (bit "+Itoa(bit)+") and the message still verifies", in2)
			} else {
				Viol("C11/Verify/bit-alteration", "bit "+Itoa(bit)+" altered: "+got, in2)
			}
		}
	}
	// (f) every proper prefix fails, without panic
	for n := 0; n < len(out); n++ {
		if !allBits && n < t.rr.start && n%7 != 0 {
			continue
		}
		got := protectVerify(ks, out[:n], c.rm, c.timers, ts)
		st["truncations_checked"]++
		if got == "ok:" || got == "panic" {
			in2 := in
			in2.Detail = "prefix of " + Itoa(n) + " octets"
			Viol("C11/Verify/truncation", "truncated message: "+got, in2)
		}
	}
	// (g) single-field alterations through re-encoding
	fieldAlter := func(what string, f func(t *dns.TSIG)) {
		var pm dns.Msg
		if pm.Unpack(out) != nil || pm.IsTsig() == nil {
			return
		}
		f(pm.IsTsig())
		pm.Compress = false
		b, e := pm.Pack()
		if e != nil {
			return
		}
		st["fields_checked"]++
		if got := protectVerify(ks, b, c.rm, c.timers, ts); got == "ok:" || got == "panic" {
			in2 := in
			in2.Detail = what
			in2.Signed = Hx(b)
			Viol("C11/Verify/field-alteration", what+" altered: "+got, in2)
		}
	}
	fieldAlter("TimeSigned+1", func(t *dns.TSIG) { t.TimeSigned++ })
	fieldAlter("Fudge+1", func(t *dns.TSIG) { t.Fudge++ })
	fieldAlter("OrigId", func(t *dns.TSIG) { t.OrigId ^= 1 })
	if !c.timers {
		st["fields_checked"]++
		var pm dns.Msg
		if pm.Unpack(out) == nil && pm.IsTsig() != nil {
			pm.IsTsig().Hdr.Class ^= 1 << uint(r.Intn(16))
			pm.Compress = false
			if b, e := pm.Pack(); e == nil {
				if got := protectVerify(ks, b, c.rm, c.timers, ts); got == "ok:" || got == "panic" {
					in2 := in
					in2.Detail, in2.Signed = "CLASS of the TSIG record", Hx(b)
					Viol("C11/Verify/tsig-class-not-covered", "TSIG CLASS re-encoded with another value and the message still verifies: "+got, in2)
				}
			}
		}
		fieldAlter("Error", func(t *dns.TSIG) { t.Error ^= 1 })
		fieldAlter("TTL", func(t *dns.TSIG) { t.Hdr.Ttl ^= 1 })
		fieldAlter("OtherData", func(t *dns.TSIG) { t.OtherData += "00"; t.OtherLen++ })
	}
	fieldAlter("Algorithm", func(t *dns.TSIG) {
		for _, a2 := range algs {
			if a2.name != strings.ToLower(t.Algorithm) {
				t.Algorithm = a2.name
				return
			}
		}
	})
	fieldAlter("MAC truncated", func(t *dns.TSIG) { t.MAC = t.MAC[:len(t.MAC)-2]; t.MACSize-- })
	fieldAlter("MAC extended", func(t *dns.TSIG) { t.MAC += "00"; t.MACSize++ })
	fieldAlter("MAC emptied", func(t *dns.TSIG) { t.MAC = ""; t.MACSize = 0 })
	if ks.single && !c.timers {
		fieldAlter("key name", func(t *dns.TSIG) { t.Hdr.Name = "x" + t.Hdr.Name })
	}
	return out, mac, stub
}

func oracleNoTsig(r *Rng, m *dns.Msg) {
	b, err := m.Pack()
	if err != nil {
		return
	}
	stores := []keyStore{{single: true, secret: genSecret(r)},
		{secrets: map[string]string{"": genSecret(r), ".": genSecret(r), "key.example.": genSecret(r)}}}
	for _, ks := range stores {
		for _, rm := range []string{"", Hx(r.Bytes(32))} {
			for _, timers := range []bool{false, true} {
				st["notsig_checked"]++
				got := protectVerify(ks, b, rm, timers, 1700000000)
				if got == "ok:" || got == "panic" {
					Viol("C11/Verify/no-tsig", "message without TSIG: "+got, c11in{Msg: Hx(b), Secret: ks.secret, ReqMAC: rm, Timers: timers})
				}
			}
		}
	}
}

// oracleChain: n envelopes signed as xfr.go/server.go do (first with the request
// MAC and full variables, the rest with the previous MAC and timers only).
func oracleChain(r *Rng, n int, ks keyStore, emit bool) {
	c := genCfg(r)
	c.errc, c.other, c.origOther = 0, "", false
	c.alg = algs[r.Intn(len(algs))].name
	if c.fudge == 0 {
		c.fudge = 300
	}
	if !ks.single {
		c.keyName = "key.example."
	}
	reqMAC := ""
	if r.Intn(4) != 0 {
		reqMAC = Hx(r.Bytes(32))
	}
	var envs [][]byte
	var macs []string
	rm, timers := reqMAC, false
	for i := 0; i < n; i++ {
		c.rm, c.timers = rm, timers
		out, mac, _, err := sign(genMsg(r, true), c, ks)
		if err != nil {
			return
		}
		envs = append(envs, out)
		macs = append(macs, mac)
		rm, timers = mac, true
	}
	// chainVerify mirrors Transfer.ReadMsg: verify, then carry the MAC of the received TSIG
	chainVerify := func(es [][]byte) (string, []string) {
		rm, timers := reqMAC, false
		var table []string
		for _, e := range es {
			s, t, serr := dns.VerifStripTsig(e)
			if serr == nil {
				if d, t2, berr := dns.VerifTsigBuffer(s, t, rm, timers); berr == nil {
					if he := hmacEntry(ks, t2, d); he != "" {
						table = append(table, he)
					}
				}
			}
			if got := protectVerify(ks, e, rm, timers, c.time); got != "ok:" {
				return got, table
			}
			if serr != nil {
				return "err:other", table
			}
			rm, timers = t.MAC, true
		}
		return "ok:", table
	}
	emitChain := func(es [][]byte, got string, table []string) {
		if !emit {
			return
		}
		var hs []string
		ok := true
		for _, e := range es {
			hs = append(hs, Hx(e))
			ok = ok && modelled(e)
		}
		if ok {
			Emit("chain", []string{strings.Join(hs, ","), reqMAC, u(c.time), "0", ks.desc(), strings.Join(table, ",")}, got)
		}
	}
	in := c11in{Secret: ks.secret, ReqMAC: reqMAC, Alg: c.alg, Key: c.keyName, Now: c.time}
	st["chains_checked"]++
	got, table := chainVerify(envs)
	if got != "ok:" {
		in.Detail = "chain of " + Itoa(n)
		Viol("C11/Chain/generated-rejected", "generated chain rejected: "+got, in)
	}
	emitChain(envs, got, table)
	bad := func(what string, es [][]byte) {
		st["chains_checked"]++
		got, table := chainVerify(es)
		if got == "ok:" || got == "panic" {
			in2 := in
			in2.Detail = what + " in a chain of " + Itoa(n)
			Viol("C11/Chain/"+strings.Fields(what)[0], what+": chain "+got, in2)
		}
		if r.Intn(3) == 0 {
			emitChain(es, got, table)
		}
	}
	for i := 0; i+1 < n; i++ {
		es := append(append([][]byte{}, envs[:i]...), envs[i+1:]...)
		bad("removal of envelope "+Itoa(i), es)
		es = append([][]byte{}, envs...)
		es[i], es[i+1] = es[i+1], es[i]
		bad("reordering of envelopes "+Itoa(i), es)
		es = append(append(append([][]byte{}, envs[:i+1]...), envs[i]), envs[i+1:]...)
		bad("duplication of envelope "+Itoa(i), es)
	}
	for i := 0; i < n; i++ {
		es := append([][]byte{}, envs...)
		e := append([]byte(nil), envs[i]...)
		e[2+r.Intn(len(e)-2)] ^= 1 << r.Intn(8)
		if t, ok := refFindTsig(envs[i]); ok {
			// keep clear of the documented insensitive positions (class, case bits)
			pos := 12 + r.Intn(t.rr.start-12+1)
			if pos >= t.rr.start {
				pos = t.algEnd + r.Intn(8)
			}
			e = append([]byte(nil), envs[i]...)
			e[pos] ^= 1 << r.Intn(8)
		}
		es[i] = e
		bad("alteration of envelope "+Itoa(i), es)
	}
}

// ---------------------------------------------------------------------------
// model cases
// ---------------------------------------------------------------------------

func emitName(b []byte, off int) {
	got := Protect(func() string {
		s, o, err := dns.UnpackDomainName(b, off)
		if err != nil {
			return errClass(err)
		}
		return "ok:" + Hx(nameWire(s)) + "," + Itoa(o)
	})
	Emit("name", []string{Hx(b), Itoa(off)}, got)
}

// stripCase: the strip case for b (nil when b holds record types outside the model).
func stripCase(b []byte) []pendingCase {
	if !modelled(b) {
		st["unmodelled_skipped"]++
		return nil
	}
	got := Protect(func() string {
		s, t, err := dns.VerifStripTsig(b)
		if err != nil {
			return errClass(err)
		}
		found := t.Hdr.Rrtype == dns.TypeTSIG
		return "ok:" + Hx(s) + ";" + showTsig(t) + ";" + Btoa(found)
	})
	return []pendingCase{{"strip", []string{Hx(b)}, got}}
}

func emitCases(cs []pendingCase) {
	for _, c := range cs {
		Emit(c.fn, c.args, c.out)
	}
}

func emitStrip(b []byte) { emitCases(stripCase(b)) }

// emitVerify: digest and verdict of the real verifier on b, against the model.
func emitVerify(b []byte, ks keyStore, rm string, timers bool, now uint64) {
	emitCases(verifyCases(b, ks, rm, timers, now))
}

func verifyCases(b []byte, ks keyStore, rm string, timers bool, now uint64) []pendingCase {
	if !modelled(b) {
		st["unmodelled_skipped"]++
		return nil
	}
	table := ""
	wall := uint64(0)
	dig := Protect(func() string {
		s, t, err := dns.VerifStripTsig(b)
		if err != nil {
			return errClass(err)
		}
		d, t2, err := dns.VerifTsigBuffer(s, t, rm, timers)
		if err != nil {
			return errClass(err)
		}
		if t.TimeSigned == 0 {
			wall = t2.TimeSigned
		}
		table = hmacEntry(ks, t2, d)
		return "ok:" + Hx(d)
	})
	if wall != 0 {
		// the digest depends on the wall clock read inside tsigBuffer: give the model the same reading
		st["wallclock_cases"]++
	}
	cs := []pendingCase{{"digest", []string{Hx(b), rm, Btoa(timers), u(wall)}, dig}}
	got := protectVerify(ks, b, rm, timers, now)
	if wall != 0 && got == "err:time" {
		return cs // two clock readings in one case: not replayable
	}
	st["verdict_"+strings.TrimPrefix(strings.TrimSuffix(got, ":"), "err:")]++
	return append(cs, pendingCase{"verify", []string{Hx(b), rm, Btoa(timers), u(now), u(wall), ks.desc(), table}, got})
}

func emitBuffer(r *Rng, msgbuf []byte, t *dns.TSIG, rm string, timers bool) {
	args := append([]string{Hx(msgbuf)}, tsigFields(t)...)
	wall := uint64(0)
	got := Protect(func() string {
		d, t2, err := dns.VerifTsigBuffer(msgbuf, t, rm, timers)
		if err != nil {
			return errClass(err)
		}
		if t.TimeSigned == 0 {
			wall = t2.TimeSigned
		}
		mb := append([]byte(nil), msgbuf...)
		binary.BigEndian.PutUint16(mb, t.OrigId)
		return "ok:" + Hx(d) + ";" + u(t2.TimeSigned) + ";" + u(uint64(t2.Fudge)) + ";" + Hx(mb)
	})
	args = append(args, rm, Btoa(timers), u(wall))
	Emit("buffer", args, got)
}

func emitGenerate(m *dns.Msg, c signCfg, ks keyStore) { emitCases(generateCase(m, c, ks)) }

func generateCase(m *dns.Msg, c signCfg, ks keyStore) []pendingCase {
	mbuf, err := m.Pack()
	if err != nil || !modelled(mbuf) {
		return nil
	}
	out, mac, stub, gerr := sign(m, c, ks)
	// stub now carries the time/fudge defaults tsigBuffer filled in
	wall := uint64(0)
	if c.time == 0 {
		wall = stub.TimeSigned
	}
	orig := stubOf(m, c)
	table := ""
	mb := append([]byte(nil), mbuf...)
	if d, t2, berr := dns.VerifTsigBuffer(mb, orig, c.rm, c.timers); berr == nil {
		if c.time == 0 {
			t2.TimeSigned = wall
			o2 := *orig
			o2.TimeSigned = wall
			d, t2, _ = dns.VerifTsigBuffer(mb, &o2, c.rm, c.timers)
		}
		table = hmacEntry(ks, t2, d)
	}
	got := errClass(gerr)
	if gerr == nil {
		got = "ok:" + Hx(out) + ";" + mac
	}
	args := append([]string{Hx(mbuf), Itoa(len(m.Extra))}, tsigFields(orig)...)
	args = append(args, c.rm, Btoa(c.timers), u(wall), ks.desc(), table)
	return []pendingCase{{"generate", args, got}}
}

// craft builds a message by hand: header counts, then raw section octets.
func craft(id, bits uint16, qd, an, ns, ar int, body ...[]byte) []byte {
	b := make([]byte, 12)
	binary.BigEndian.PutUint16(b[0:], id)
	binary.BigEndian.PutUint16(b[2:], bits)
	binary.BigEndian.PutUint16(b[4:], uint16(qd))
	binary.BigEndian.PutUint16(b[6:], uint16(an))
	binary.BigEndian.PutUint16(b[8:], uint16(ns))
	binary.BigEndian.PutUint16(b[10:], uint16(ar))
	for _, x := range body {
		b = append(b, x...)
	}
	return b
}

func rawRR(name []byte, typ, class uint16, ttl uint32, rdlen int, rdata []byte) []byte {
	b := append([]byte(nil), name...)
	b = binary.BigEndian.AppendUint16(b, typ)
	b = binary.BigEndian.AppendUint16(b, class)
	b = binary.BigEndian.AppendUint32(b, ttl)
	b = binary.BigEndian.AppendUint16(b, uint16(rdlen))
	return append(b, rdata...)
}

func rawTsigRdata(alg []byte, time uint64, fudge uint16, mac []byte, origid, errc uint16, other []byte) []byte {
	b := append([]byte(nil), alg...)
	b = append(b, byte(time>>40), byte(time>>32), byte(time>>24), byte(time>>16), byte(time>>8), byte(time))
	b = binary.BigEndian.AppendUint16(b, fudge)
	b = binary.BigEndian.AppendUint16(b, uint16(len(mac)))
	b = append(b, mac...)
	b = binary.BigEndian.AppendUint16(b, origid)
	b = binary.BigEndian.AppendUint16(b, errc)
	b = binary.BigEndian.AppendUint16(b, uint16(len(other)))
	return append(b, other...)
}

// boundaryCases drives every bounds check of the modelled functions to both sides.
func boundaryCases(r *Rng, ks keyStore) {
	// --- UnpackDomainName
	lab := func(n int, c byte) []byte { return append([]byte{byte(n)}, bytes.Repeat([]byte{c}, n)...) }
	for _, n := range []int{1, 62, 63} {
		emitName(append(lab(n, 'a'), 0), 0)
		emitName(lab(n, 'a'), 0)     // no terminator
		emitName(lab(n, 'a')[:n], 0) // label cut short
	}
	emitName([]byte{64, 'a'}, 0)  // reserved 0x40
	emitName([]byte{128, 'a'}, 0) // reserved 0x80
	emitName([]byte{}, 0)
	emitName([]byte{0}, 0)
	emitName([]byte{0}, 1)
	emitName([]byte{0xC0}, 0)
	// wire lengths 253..257: labels of 63,63,63 and a last one
	for last := 58; last <= 63; last++ {
		w := append(append(append(lab(63, 'a'), lab(63, 'b')...), lab(63, 'c')...), lab(last, 'd')...)
		emitName(append(w, 0), 0)
	}
	// pointer chains of 125..128 hops: pointer i at offset 2i points to 2(i+1); the name sits at the end
	for _, hops := range []int{1, 125, 126, 127, 128} {
		var b []byte
		for i := 0; i < hops; i++ {
			tgt := 2 * (i + 1)
			b = append(b, 0xC0|byte(tgt>>8), byte(tgt))
		}
		b = append(b, 1, 'z', 0)
		emitName(b, 0)
	}
	emitName([]byte{0xC0, 0}, 0)                       // self loop
	emitName([]byte{0xC0, 9, 0}, 0)                    // pointer past the end
	emitName([]byte{1, 'a', 0xC0, 5, 0, 1, 'b', 0}, 0) // forward pointer
	emitName([]byte{0, 1, 'a', 0xC0, 0}, 1)            // backward pointer, offset after first pointer
	for i := 0; i < 40; i++ {
		b := r.Bytes(1 + r.Intn(24))
		for j := range b {
			if r.Intn(3) > 0 {
				b[j] &= 0x07
			} else if r.Intn(3) == 0 {
				b[j] = 0xC0
			}
		}
		emitName(b, r.Intn(len(b)+1))
	}
	// --- stripTsig: header
	q := append(nameWire("example.org."), 0, 1, 0, 1)
	tsigName := nameWire("key.example.")
	algw := nameWire(dns.HmacSHA256)
	goodRd := rawTsigRdata(algw, 1700000000, 300, r.Bytes(32), 7, 0, nil)
	tsigRR := rawRR(tsigName, 250, 255, 0, len(goodRd), goodRd)
	full := craft(7, 0, 1, 0, 0, 1, q, tsigRR)
	for n := 0; n <= len(full); n++ { // every truncation
		emitStrip(full[:n])
	}
	emitStrip(craft(7, 0, 1, 0, 0, 0, q))         // ARCOUNT 0
	emitStrip(craft(7, 9, 1, 0, 0, 1, q, tsigRR)) // NOTAUTH
	emitStrip(craft(7, 0x8189, 1, 0, 0, 1, q, tsigRR))
	emitStrip(craft(7, 8, 1, 0, 0, 1, q, tsigRR))
	emitStrip(craft(7, 10, 1, 0, 0, 1, q, tsigRR))
	emitStrip(craft(7, 0, 2, 0, 0, 1, q, tsigRR)) // QDCOUNT lies
	emitStrip(craft(7, 0, 1, 3, 2, 1, q, tsigRR)) // TSIG met in the answer loop
	emitStrip(craft(7, 0, 1, 0, 0, 65535, q, tsigRR))
	emitStrip(craft(7, 0, 1, 0, 0, 2, q, tsigRR, r.Bytes(5))) // trailing octets never read
	emitStrip(craft(7, 0, 1, 0, 0, 2, q))                     // counts lie, no records at all
	emitStrip(craft(7, 0, 1, 0, 0, 65535, q))
	emitStrip(craft(7, 0, 1, 0, 0, 1, nameWire("example.org.")))               // question stops after the name
	emitStrip(craft(7, 0, 1, 0, 0, 1, nameWire("example.org."), []byte{0, 1})) // after the type
	emitStrip(craft(7, 0, 1, 0, 0, 1, nameWire("example.org."), []byte{0}))
	emitStrip(craft(7, 0, 1, 0, 0, 1, nameWire("example.org."), []byte{0, 1, 0}))
	// records of each modelled type with RDLENGTH one below, at, one above
	a := func(rdlen int, rd []byte) []byte { return rawRR(nameWire("a."), 1, 1, 5, rdlen, rd) }
	for _, rr := range [][]byte{a(4, []byte{1, 2, 3, 4}), a(3, []byte{1, 2, 3}), a(5, []byte{1, 2, 3, 4, 5}), a(0, nil), a(4, []byte{1, 2, 3}), a(65535, []byte{1}),
		rawRR(nameWire("a."), 2, 1, 5, 3, []byte{1, 'n', 0}), rawRR(nameWire("a."), 2, 1, 5, 4, []byte{1, 'n', 0, 0}), rawRR(nameWire("a."), 2, 1, 5, 2, []byte{1, 'n'}),
		rawRR(nameWire("a."), 5, 1, 5, 2, []byte{0xC0, 12}), rawRR(nameWire("a."), 12, 1, 5, 2, []byte{0xC0, 200}),
		rawRR(nameWire("a."), 15, 1, 5, 2, []byte{0, 10}), rawRR(nameWire("a."), 15, 1, 5, 1, []byte{0}), rawRR(nameWire("a."), 15, 1, 5, 5, []byte{0, 10, 1, 'm', 0}), rawRR(nameWire("a."), 15, 1, 5, 4, []byte{0, 10, 1, 'm'}),
		rawRR(nameWire("a."), 16, 1, 5, 3, []byte{2, 'h', 'i'}), rawRR(nameWire("a."), 16, 1, 5, 3, []byte{3, 'h', 'i'}), rawRR(nameWire("a."), 16, 1, 5, 4, []byte{2, 'h', 'i', 0}), rawRR(nameWire("a."), 16, 1, 5, 1, []byte{0}),
		rawRR(nameWire("a."), 65300, 1, 5, 3, []byte{9, 9, 9}), rawRR([]byte{0xC0, 12}, 65300, 1, 5, 0, nil)} {
		emitStrip(craft(7, 0, 1, 1, 0, 1, q, rr, tsigRR))
		emitStrip(craft(7, 0, 1, 0, 1, 1, q, rr, tsigRR))
		emitStrip(craft(7, 0, 1, 0, 0, 2, q, rr, tsigRR))
		emitStrip(craft(7, 0, 1, 0, 0, 2, q, tsigRR, rr)) // TSIG not last: the loop stops at it
		emitStrip(craft(7, 0, 1, 0, 0, 1, q, rr))         // additional section without TSIG
	}
	// SOA RDATA (zone transfer envelopes) cut after every octet, RDLENGTH adjusted, and off by one
	soaRd := append(append(nameWire("ns.a."), nameWire("root.a.")...), r.Bytes(20)...)
	for n := 0; n <= len(soaRd); n++ {
		emitStrip(craft(7, 0, 1, 1, 0, 1, q, rawRR(nameWire("a."), 6, 1, 5, n, soaRd[:n]), tsigRR))
	}
	emitStrip(craft(7, 0, 1, 1, 0, 1, q, rawRR(nameWire("a."), 6, 1, 5, len(soaRd)+1, append(append([]byte{}, soaRd...), 0)), tsigRR))
	emitStrip(craft(7, 0, 1, 1, 0, 1, q, rawRR(nameWire("a."), 6, 1, 5, len(soaRd)-1, soaRd), tsigRR))
	emitStrip(craft(7, 0, 1, 1, 0, 1, q, rawRR(nameWire("a."), 6, 1, 5, 2, []byte{0xC0, 12}), tsigRR)) // compressed Ns, then the end
	// TSIG RDATA cut after every octet, RDLENGTH adjusted (the lenient field exits), and RDLENGTH off by one
	other := rawTsigRdata(algw, 1700000000, 300, r.Bytes(20), 7, 18, r.Bytes(6))
	for n := 0; n <= len(other); n++ {
		emitStrip(craft(7, 0, 1, 0, 0, 1, q, rawRR(tsigName, 250, 255, 0, n, other[:n])))
	}
	emitStrip(craft(7, 0, 1, 0, 0, 1, q, rawRR(tsigName, 250, 255, 0, len(other)+1, append(append([]byte{}, other...), 0))))
	emitStrip(craft(7, 0, 1, 0, 0, 1, q, rawRR(tsigName, 250, 255, 0, len(other)-1, other)))
	emitStrip(craft(7, 0, 1, 0, 0, 1, q, rawRR(tsigName, 250, 255, 0, len(other)+1, other)))
	big := rawTsigRdata(algw, 1, 1, nil, 7, 0, nil)
	binary.BigEndian.PutUint16(big[len(algw)+8:], 65535) // MAC size far past the RDATA
	emitStrip(craft(7, 0, 1, 0, 0, 1, q, rawRR(tsigName, 250, 255, 0, len(big), big)))
	// compressed TSIG owner and algorithm names, other classes and TTLs
	emitStrip(craft(7, 0, 1, 0, 0, 1, q, rawRR([]byte{0xC0, 12}, 250, 1, 77, len(goodRd), goodRd)))
	crd := rawTsigRdata([]byte{0xC0, 12}, 5, 6, r.Bytes(4), 7, 0, nil)
	emitStrip(craft(7, 0, 1, 0, 0, 1, q, rawRR(tsigName, 250, 254, 0, len(crd), crd)))

	// --- tsigBuffer: request MAC sizes 0,1,2,3; defaults; variables at the 4096 limit
	base := &dns.TSIG{Hdr: dns.RR_Header{Name: "Key.Example.", Rrtype: dns.TypeTSIG, Class: dns.ClassANY}, Algorithm: "HMAC-sha256.", TimeSigned: 1700000000, Fudge: 300, OrigId: 0xBEEF}
	mb := craft(7, 0, 1, 0, 0, 0, q)
	for _, rm := range []string{"", "aa", "aabb", "aabbcc", Hx(r.Bytes(32)), Hx(r.Bytes(64))} {
		for _, timers := range []bool{false, true} {
			emitBuffer(r, mb, base, rm, timers)
		}
	}
	for _, f := range []func(t *dns.TSIG){
		func(t *dns.TSIG) { t.Fudge = 0 },
		func(t *dns.TSIG) { t.TimeSigned = 0 },
		func(t *dns.TSIG) { t.TimeSigned = 1<<48 - 1 },
		func(t *dns.TSIG) { t.TimeSigned = 1 << 48 }, // does not fit 48 bits: packed modulo 2^48
		func(t *dns.TSIG) { t.Hdr.Class = 1; t.Hdr.Ttl = 0xFFFFFFFF },
		func(t *dns.TSIG) { t.Error = 18; t.OtherLen = 6; t.OtherData = "0000deadbeef" },
		func(t *dns.TSIG) { t.OtherLen = 9; t.OtherData = "00" }, // length field and data disagree
		func(t *dns.TSIG) { t.Hdr.Name = "."; t.Algorithm = "." },
		func(t *dns.TSIG) { t.MAC = "abcd"; t.MACSize = 2 },
	} {
		t := *base
		f(&t)
		emitBuffer(r, mb, &t, "", false)
		emitBuffer(r, mb, &t, "0011", true)
	}
	// name(13)+2+4+alg(13)+6+2+2+2 = 44 fixed octets of variables
	for _, n := range []int{4096 - 44 - 1, 4096 - 44, 4096 - 44 + 1} {
		t := *base
		t.OtherData = strings.Repeat("ab", n)
		t.OtherLen = uint16(n)
		emitBuffer(r, mb, &t, "", false)
		emitBuffer(r, mb, &t, "", true)
	}
	emitBuffer(r, []byte{1, 2}, base, "", true)

	// --- tsigVerify: fudge boundaries on a hand-made message with a correct MAC, each algorithm
	for _, al := range algs {
		for _, f := range []uint16{0, 1, 300, 65535} {
			m := genMsg(r, true)
			c := genCfg(r)
			c.alg, c.fudge, c.time, c.errc, c.other = al.name, f, 100000, 0, ""
			if !ks.single {
				c.keyName = "key.example."
			}
			out, _, stub, err := sign(m, c, ks)
			if err != nil {
				continue
			}
			ff := uint64(stub.Fudge)
			for _, now := range []uint64{100000 - ff - 1, 100000 - ff, 100000, 100000 + ff, 100000 + ff + 1} {
				emitVerify(out, ks, c.rm, c.timers, now)
			}
		}
	}
}

// errorCodes: the stub TSIG record carries every Error value (all assigned RCODEs 0..23 and
// some larger ones), with and without other data.  RFC 8945 5.3.2 leaves only BADKEY (17)
// and BADSIG (16) answers unsigned; for every other value the property's first sentence
// holds: the output carries the RFC 8945 HMAC (the Error field is part of the digest) and
// verifies under the same key, request MAC and timers-only setting - checked by oracleSigned
// against the harness's own digest and by the model.  A BADKEY / BADSIG output has an empty
// MAC and must never verify.
func errorCodes(r0 *Rng, single, multi keyStore) {
	r := &Rng{S: r0.S ^ 0x7e44c0de}
	codes := []uint16{24, 25, 31, 32, 255, 256, 4095, 4096, 65535, uint16(r.Next())}
	for e := 0; e <= 23; e++ {
		codes = append(codes, uint16(e))
	}
	for i, e := range codes {
		for v := 0; v < 2; v++ {
			m := genMsg(r, true)
			c := genCfg(r)
			c.errc, c.other = e, ""
			if e == dns.RcodeBadTime || v == 1 && i%3 == 0 {
				c.other = Hx(r.Bytes(6))
			}
			ks := single
			if v == 1 {
				ks = multi
				if _, ok := multi.secrets[c.keyName]; !ok {
					c.keyName = "key.example."
				}
			}
			st["error_codes_checked"]++
			emitGenerate(m, c, ks)
			if e == dns.RcodeBadKey || e == dns.RcodeBadSig {
				out, mac, stub, err := sign(m, c, ks)
				in := c11in{Secret: ks.secret, ReqMAC: c.rm, Timers: c.timers, Alg: c.alg, Key: c.keyName, Detail: "stub TSIG error " + u(uint64(e))}
				if err != nil {
					if len(c.rm) != 2 {
						Viol("C11/Generate/error", "TsigGenerate failed: "+err.Error(), in)
					}
					continue
				}
				in.Signed, in.Now = Hx(out), stub.TimeSigned
				if got := protectVerify(ks, out, c.rm, c.timers, stub.TimeSigned); got == "ok:" || got == "panic" {
					Viol("C11/Verify/unsigned-accepted", "a BADKEY / BADSIG answer (MAC "+mac+") verification "+got, in)
				}
				emitVerify(out, ks, c.rm, c.timers, stub.TimeSigned)
				continue
			}
			out, _, stub := oracleSigned(r, m, c, ks, false)
			if out != nil {
				emitVerify(out, ks, c.rm, c.timers, stub.TimeSigned)
				emitVerify(out, ks, c.rm, !c.timers, stub.TimeSigned)
			}
		}
	}
}

func runC11(r *Rng, tier string, n int) {
	nmsg, nchain, nmodel := 60, 30, 40
	if tier == "thorough" {
		nmsg, nchain, nmodel = 1500, 600, 400
	}
	if n > 0 {
		nmsg = n
	}
	single := keyStore{single: true, secret: genSecret(r)}
	multi := keyStore{secrets: map[string]string{"key.example.": genSecret(r), "Key.Example.": genSecret(r), "k.": genSecret(r),
		"tsig-key.example.org.": genSecret(r), "broken.": "!!notbase64"}}

	// (1) direct oracles on rich messages (any record types), both providers
	for i := 0; i < nmsg; i++ {
		m := genMsg(r, false)
		c := genCfg(r)
		ks := single
		if i%3 == 2 {
			ks = multi
			if _, ok := multi.secrets[c.keyName]; !ok {
				c.keyName = "key.example."
			}
		}
		oracleSigned(r, m, c, ks, i < 12 || tier == "thorough")
		oracleNoTsig(r, m)
	}
	// unsupported algorithms and unusable keys must refuse to sign and to verify
	for _, alg := range []string{dns.HmacMD5, "hmac-sha999.", "hmac-sha256.x.", "."} {
		m := genMsg(r, true)
		c := genCfg(r)
		c.alg = alg
		_, _, _, err := sign(m, c, single)
		st["refusals_checked"]++
		if errClass(err) != "err:keyalg" {
			Viol("C11/Generate/unsupported-alg", "signing with "+alg+": "+errClass(err), c11in{Alg: alg})
		}
		emitGenerate(m, c, single)
	}
	{
		m := genMsg(r, true)
		c := genCfg(r)
		c.keyName = "broken."
		_, _, _, err := sign(m, c, multi)
		if errClass(err) != "err:b64" {
			Viol("C11/Generate/bad-secret", "signing with an undecodable secret: "+errClass(err), c11in{Key: c.keyName})
		}
		emitGenerate(m, c, multi)
		c.keyName = "absent."
		_, _, _, err = sign(m, c, multi)
		if errClass(err) != "err:secret" {
			Viol("C11/Generate/unknown-key", "signing with an unknown key: "+errClass(err), c11in{Key: c.keyName})
		}
		emitGenerate(m, c, multi)
	}
	// (1b) stub TSIG records with every Error value
	errorCodes(r, single, multi)
	// (2) chains of 1..6 envelopes
	for i := 0; i < nchain; i++ {
		ks := single
		if i%4 == 3 {
			ks = multi
		}
		oracleChain(r, 1+i%6, ks, i < 12 || tier == "thorough")
	}
	// (2b) sessions: the receive and send paths of Transfer, Conn, Client and Server over scripted connections
	runSessions(r, tier)
	// (2c) section counts at and around the octet carries of the header fields (counts.go)
	runCounts(r, tier, single, multi)
	// (2d) the fudge window over the whole 48-bit / 64-bit range of its operands (window.go)
	runWindow(r, tier, single, multi)
	// (3) model cases
	boundaryCases(r, single)
	boundaryCases(r, multi)
	// queued session cases are spread evenly between the others
	for i := len(sessPending) - 1; i > 0; i-- {
		j := r.Intn(i + 1)
		sessPending[i], sessPending[j] = sessPending[j], sessPending[i]
	}
	perIter := (len(sessPending) + nmodel - 1) / nmodel
	for i := 0; i < nmodel; i++ {
		m := genMsg(r, true)
		c := genCfg(r)
		ks := single
		if i%3 == 1 {
			ks = multi
			if _, ok := multi.secrets[c.keyName]; !ok || r.Intn(6) == 0 {
				c.keyName = []string{"key.example.", "KEY.example.", "absent.", "broken."}[r.Intn(4)]
			}
		}
		if i%7 == 0 {
			c.time = 0 // tsigBuffer reads the wall clock
		}
		if i%9 == 0 {
			c.errc = uint16(16 + i%2) // BADSIG / BADKEY: not signed
		}
		if i%11 == 0 {
			c.rm = "ab" // one octet: the request MAC buffer is too small
		}
		if i%13 == 0 {
			c.alg = []string{dns.HmacMD5, "hmac-sha256.example."}[r.Intn(2)]
		}
		drainSess(perIter)
		emitGenerate(m, c, ks)
		out, _, stub, err := sign(m, c, ks)
		if err != nil {
			continue
		}
		emitStrip(out)
		now := stub.TimeSigned
		emitVerify(out, ks, c.rm, c.timers, now)
		emitVerify(out, ks, c.rm, !c.timers, now)
		emitVerify(out, ks, "", c.timers, now)
		emitVerify(out, single, c.rm, c.timers, now+uint64(stub.Fudge)+1)
		// sampled single-bit alterations and truncations through the model as well
		for k := 0; k < 16; k++ {
			mut := append([]byte(nil), out...)
			bit := r.Intn(len(mut) * 8)
			if k < 6 { // concentrate on the header and the TSIG record
				if t, ok := refFindTsig(out); ok {
					bit = (t.rr.start + r.Intn(len(out)-t.rr.start)) * 8
					if k < 2 {
						bit = r.Intn(12) * 8
					}
					bit += r.Intn(8)
				}
			}
			mut[bit/8] ^= 0x80 >> (bit % 8)
			emitVerify(mut, ks, c.rm, c.timers, now)
			if k < 4 {
				emitStrip(mut)
			}
		}
		for k := 0; k < 4; k++ {
			emitVerify(out[:r.Intn(len(out))], ks, c.rm, c.timers, now)
		}
		p, _ := m.Pack()
		emitVerify(p, ks, c.rm, c.timers, now) // no TSIG at all
	}
	drainSess(-1)
	st["algorithms"] = len(algs)
	Stat(st)
}
