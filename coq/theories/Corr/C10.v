(* Corr/C10.v — case runner for C10 (RRSIG Sign / Verify). *)
From Dns Require Import Model.Dnssec.
Open Scope N_scope.

Fixpoint split_char (c : N) (s : string) (cur : string) : list string :=
  match s with
  | EmptyString => [cur]
  | String a r =>
    if N_of_ascii a =? c then cur :: split_char c r EmptyString
    else split_char c r (cur +++ String a EmptyString)
  end.
Definition split_on (c : N) (s : string) : list string :=
  match s with EmptyString => [] | _ => split_char c s EmptyString end.

(* labels: hex strings joined by '.', the empty string is the root *)
Definition labels_of (s : string) : list bytes := map unhex (split_on 46 s).

(* RDATA field: n<labels> or b<hex> *)
Definition field_of (s : string) : rdfield :=
  match s with
  | String a r => if N_of_ascii a =? 110 then RdName (labels_of r) else RdBytes (unhex r)
  | EmptyString => RdBytes []
  end.

(* record: owner|type|class|ttl|f1,f2,... *)
Definition rr_of (s : string) : rr :=
  let p := split_char 124 s EmptyString in
  {| r_owner := labels_of (arg p 0); r_type := undec (arg p 1); r_class := undec (arg p 2);
     r_ttl := undec (arg p 3); r_rdata := map field_of (split_on 44 (arg p 4)) |}.
Definition rrset_of (s : string) : list rr := map rr_of (split_on 59 s).

(* rrsig: owner|class|covered|alg|labels|origttl|exp|incep|keytag|signer *)
Definition sig_of (s : string) : rrsig :=
  let p := split_char 124 s EmptyString in
  {| s_owner := labels_of (arg p 0); s_class := undec (arg p 1); s_covered := undec (arg p 2);
     s_alg := undec (arg p 3); s_labels := undec (arg p 4); s_origttl := undec (arg p 5);
     s_exp := undec (arg p 6); s_incep := undec (arg p 7); s_keytag := undec (arg p 8);
     s_signer := labels_of (arg p 9); s_signature := [] |}.

(* dnskey: owner|class|flags|proto|alg|pubhex *)
Definition key_of (s : string) : dnskey :=
  let p := split_char 124 s EmptyString in
  {| k_owner := labels_of (arg p 0); k_class := undec (arg p 1); k_flags := undec (arg p 2);
     k_proto := undec (arg p 3); k_alg := undec (arg p 4); k_pub := unhex (arg p 5) |}.

Definition show_labels_arg (n : list bytes) : string := join "."%string (map hex n).
Definition show_sig (s : rrsig) : string :=
  join "|"%string [show_labels_arg (s_owner s); dec (s_class s); dec (s_covered s); dec (s_alg s);
                   dec (s_labels s); dec (s_origttl s); dec (s_exp s); dec (s_incep s);
                   dec (s_keytag s); show_labels_arg (s_signer s)].

Definition run (fn : string) (args : list string) : string :=
  let a := arg args in
  if String.eqb fn "canon" then
    show_res (fun ws => hex (concat ws)) (signed_rrs (sig_of (a 0%nat)) (rrset_of (a 1%nat)))
  else if String.eqb fn "octets" then
    show_res hex (signed_octets (sig_of (a 0%nat)) (rrset_of (a 1%nat)))
  else if String.eqb fn "verify" then
    (* the crypto primitive is the verdict the harness obtained by running Go's crypto/* on the
       model's signed octets *)
    let ok := String.eqb (a 3%nat) "true" in
    show_res (fun _ => ""%string)
      (verify (fun _ _ _ _ => ok) (key_of (a 2%nat)) (sig_of (a 0%nat)) (rrset_of (a 1%nat)))
  else if String.eqb fn "signfill" then
    (* the RRSIG fields Sign fills in (the signature itself is not compared) *)
    show_res show_sig
      (sign unit (fun _ _ _ => []) tt (sig_of (a 0%nat)) (rrset_of (a 1%nat)))
  else if String.eqb fn "lowered" then showb (lowered (undec (a 0%nat)))
  else "unknown-fn"%string.
